(* C05q -- companion of C05 / C05e: an `Eq` that is not an equivalence relation, at the level of
   whole OPERATIONS.  Only property theorems (model: Model/MapE.v, proofs: Proofs/MapEFacts.v).

   C05 proves the safety of every HashMap / HashSet operation for an arbitrary hasher, but with
   the lawful key comparison that Map.v fixes (`eq_key k e = Ok (k_id e =? k)`); C05e quantifies
   an arbitrary comparison only at the level of the raw searches.  Here the comparison of a whole
   operation is arbitrary: `map_step_e` is `Map.map_step` with `eq_key k` replaced by
   `fun e => Ok (eqk k e)` for a variable

        eqk : Z -> kv -> bool         (query key id, stored element) |-> answer of `==`

   on which nothing is assumed (not reflexive, not symmetric, not transitive, may depend on the
   stamp and the value, unrelated to the hasher).  An `Eq` that answers differently from call to
   call is covered too: one operation performs one probe (OpExtend: one per inserted element) and
   one probe compares every bucket at most once, so the answers given during one operation are
   those of some `eqk`; the theorems are per operation, and in the history theorem `eqk` is
   chosen anew at every step -- together with the hasher `hash_of : Z -> option Z`, which is
   arbitrary as in C05 (None = it panics) -- and the allocator's answer.

   Conclusions (guard_fix = true, i.e. with the repaired rehash guard, as in C05):
     C05q_any_eq_step                   every operation returns (no checked unsafe precondition is
                                        reached, no loop runs out of the fuel the code relies on)
                                        with a valid table that owns its block, or performs one of
                                        the two documented library panics (capacity overflow,
                                        allocation abort);
     C05q_any_eq_any_hasher_history     the same for every history from HashMap::new();
     C05q_lawful_instance_is_the_model  with the lawful comparison map_step_e IS Map.map_step, the
                                        function that is compared with the implementation;
     C05q_eq_irrelevant                 operations without a key comparison do not depend on eqk;
     C05q_len_is_iteration_count        after every step len() = number of FULL buckets = number of
                                        stored elements = what an iterator yields;
     C05q_conservation                  no element is lost, duplicated or invented by a lying `==`:
                                        for every operation with a key (all but OpExtend) the new
                                        contents are the old ones (A) minus the elements reported
                                        as dropped / moved out, or (B) plus the operation's own new
                                        element, or (C) with ONE element that the comparison
                                        accepted updated in place (see MapEFacts.Conserved);
     C05q_insert_conservation           insert(k, v) by output (OutUnwind / OutNone / OutVal old);
     C05q_extend_conservation           extend(kvs), up to overwritten values (key objects);
     C05q_all_equal_example,
     C05q_never_equal_example           non-vacuity: `==` constantly true overwrites the value of a
                                        different key, `==` constantly false stores a key twice;
                                        both tables pass the executable invariant. *)
From Coq Require Import ZArith List Bool Permutation.
From HB Require Import RsPrelude Sse2 Gen Group Raw Map MapE Check WFDefs MapDefs RawOpsSafe MapStepSafe
  IterFacts MapEFacts.
Import ListNotations.

Theorem C05q_any_eq_step :
  forall (B : backend) (tsize talign : Z) (needs_drop : bool) (hash_of : Z -> option Z) (alloc_refuses : bool)
         (eqk : Z -> kv -> bool) (t : table kv) (op : map_op),
  WidthOK B -> BackendSpec B -> LayoutOK tsize talign -> op_args_ok op ->
  SafeWF B kv t -> TOwn B kv tsize talign t ->
  match map_step_e B tsize talign needs_drop true hash_of alloc_refuses eqk t op with
  | Ok (t', o, evs) => SafeWF B kv t' /\ TOwn B kv tsize talign t'
  | Fail e => benign e
  end.
Proof. exact map_step_e_safe. Qed.

(* a history: (operation, allocator refuses?, hasher, comparison) per step *)
Theorem C05q_any_eq_any_hasher_history :
  forall (B : backend) (tsize talign : Z) (needs_drop : bool)
         (ops : list (map_op * bool * (Z -> option Z) * (Z -> kv -> bool))),
  WidthOK B -> BackendSpec B -> LayoutOK tsize talign ->
  (forall op, In op (map (fun x => fst (fst (fst x))) ops) -> op_args_ok op) ->
  match run_var_e B tsize talign needs_drop (new_table B kv) ops with
  | Ok t' => SafeWF B kv t' /\ TOwn B kv tsize talign t'
  | Fail e => benign e
  end.
Proof. exact run_var_e_safe. Qed.

Theorem C05q_lawful_instance_is_the_model :
  forall (B : backend) (tsize talign : Z) (needs_drop guard_fix : bool) (hash_of : Z -> option Z)
         (alloc_refuses : bool) (t : table kv) (op : map_op),
  map_step_e B tsize talign needs_drop guard_fix hash_of alloc_refuses (fun k e => Z.eqb (k_id e) k) t op =
  map_step B tsize talign needs_drop guard_fix hash_of alloc_refuses t op.
Proof. exact map_step_e_lawful. Qed.

(* ... and histories with the lawful comparison at every step are the histories of C05 *)
Theorem C05q_lawful_history_is_the_model :
  forall (B : backend) (tsize talign : Z) (needs_drop : bool)
         (ops : list (map_op * bool * (Z -> option Z))) (t : table kv),
  run_var_e B tsize talign needs_drop t (map (fun x => (x, fun k e => Z.eqb (k_id e) k)) ops) =
  run_var B tsize talign needs_drop t ops.
Proof. exact (fun B ts ta nd ops t => run_var_e_lawful B ts ta nd ops t). Qed.

Theorem C05q_eq_irrelevant :
  forall (B : backend) (tsize talign : Z) (needs_drop guard_fix : bool) (hash_of : Z -> option Z)
         (alloc_refuses : bool) (eqk : Z -> kv -> bool) (t : table kv) (op : map_op),
  op_uses_eq op = false ->
  map_step_e B tsize talign needs_drop guard_fix hash_of alloc_refuses eqk t op =
  map_step B tsize talign needs_drop guard_fix hash_of alloc_refuses t op.
Proof. exact map_step_e_eq_irrelevant. Qed.

Theorem C05q_len_is_iteration_count :
  forall (B : backend) (tsize talign : Z) (needs_drop : bool) (hash_of : Z -> option Z) (alloc_refuses : bool)
         (eqk : Z -> kv -> bool) (t : table kv) (op : map_op),
  WidthOK B -> BackendSpec B -> LayoutOK tsize talign -> op_args_ok op ->
  SafeWF B kv t -> TOwn B kv tsize talign t ->
  match map_step_e B tsize talign needs_drop true hash_of alloc_refuses eqk t op with
  | Ok (t', o, evs) =>
      items t' = Z.of_nat (length (full_list t')) /\
      items t' = Z.of_nat (length (occupants kv t')) /\
      exists it, iter_new B kv t' = Ok it /\ iter_all B kv t' it = Ok (full_list t')
  | Fail e => benign e
  end.
Proof. exact map_step_e_len_exact. Qed.

(* every operation with a key comparison except OpExtend; `released evs` = the elements of the
   EvDrop / EvMoveOut events of evs, in order *)
Theorem C05q_conservation :
  forall (B : backend) (tsize talign : Z) (needs_drop : bool) (hash_of : Z -> option Z) (alloc_refuses : bool)
         (eqk : Z -> kv -> bool) (t : table kv) (op : map_op) (k : Z),
  WidthOK B -> BackendSpec B -> LayoutOK tsize talign ->
  SafeWF B kv t -> TOwn B kv tsize talign t -> op_key op = Some k ->
  match map_step_e B tsize talign needs_drop true hash_of alloc_refuses eqk t op with
  | Fail _ => True
  | Ok (t', _, evs) =>
      exists gone,
        (needs_drop = true -> released evs = gone) /\
        (Permutation (occupants kv t) (occupants kv t' ++ gone)
         \/ (exists new, op_new op = Some new /\ gone = [] /\
               Permutation (occupants kv t') (new :: occupants kv t))
         \/ (exists e e' l1 l2, gone = [] /\ eqk k e = true /\
               Permutation (occupants kv t) (l1 ++ e :: l2) /\ occupants kv t' = l1 ++ e' :: l2 /\
               ((k_id e' = k_id e /\ k_stamp e' = k_stamp e) \/
                (exists n, op_new op = Some n /\ e' = mkKV (k_id n) (k_stamp n) (v_val e)))))
  end.
Proof. exact map_step_e_conserves. Qed.

Theorem C05q_insert_conservation :
  forall (B : backend) (tsize talign : Z) (needs_drop : bool) (hash_of : Z -> option Z) (alloc_refuses : bool)
         (eqk : Z -> kv -> bool) (t : table kv) (k s v : Z),
  WidthOK B -> BackendSpec B -> LayoutOK tsize talign ->
  SafeWF B kv t -> TOwn B kv tsize talign t ->
  match map_step_e B tsize talign needs_drop true hash_of alloc_refuses eqk t (OpInsert k s v) with
  | Fail _ => True
  | Ok (t1, o, evs) =>
      (o = OutUnwind /\ exists gone, Permutation (occupants kv t) (occupants kv t1 ++ gone) /\
                                     (needs_drop = true -> released evs = gone))
      \/ (o = OutNone /\ released evs = [] /\ Permutation (occupants kv t1) (mkKV k s v :: occupants kv t))
      \/ (exists e l1 l2, o = OutVal (v_val e) /\ released evs = [] /\ eqk k e = true /\
            Permutation (occupants kv t) (l1 ++ e :: l2) /\
            occupants kv t1 = l1 ++ mkKV (k_id e) (k_stamp e) v :: l2)
  end.
Proof. exact map_step_e_insert_conserves. Qed.

Theorem C05q_extend_conservation :
  forall (B : backend) (tsize talign : Z) (needs_drop : bool) (hash_of : Z -> option Z) (alloc_refuses : bool)
         (eqk : Z -> kv -> bool) (t : table kv) (kvs : list kv),
  WidthOK B -> BackendSpec B -> LayoutOK tsize talign -> op_args_ok (OpExtend kvs) ->
  SafeWF B kv t -> TOwn B kv tsize talign t ->
  match map_step_e B tsize talign needs_drop true hash_of alloc_refuses eqk t (OpExtend kvs) with
  | Fail _ => True
  | Ok (t', o, evs) =>
      exists added gone, incl added kvs /\ length added <= length kvs /\
        Permutation (map ks (added ++ occupants kv t)) (map ks (occupants kv t' ++ gone)) /\
        (o <> OutUnwind -> gone = []) /\
        (needs_drop = true -> incl gone (released evs))
  end.
Proof. exact map_step_e_extend_conserves. Qed.

(* non-vacuity (SSE2 scanner, identity hash); ex_three = {1 -> 10, 2 -> 20, 3 -> 30} *)
Theorem C05q_all_equal_example :
  occupants kv ex_three = [mkKV 1 0 10; mkKV 2 0 20; mkKV 3 0 30]%Z /\
  match map_step_e sse2_backend 24 8 true true (fun k => Some k) false (fun _ _ => true) ex_three
          (OpInsert 4 7 40)%Z with
  | Ok (t', o, evs) =>
      o = OutVal 10%Z /\ occupants kv t' = [mkKV 1 0 40; mkKV 2 0 20; mkKV 3 0 30]%Z /\
      items t' = 3%Z /\ released evs = [] /\ safe_wf_check sse2_backend kv t' = true
  | Fail _ => False
  end.
Proof. exact all_equal_insert_example. Qed.

Theorem C05q_never_equal_example :
  match map_step_e sse2_backend 24 8 true true (fun k => Some k) false (fun _ _ => false)
          (new_table sse2_backend kv) (OpInsert 5 1 50)%Z with
  | Ok (t1, o1, _) =>
      match map_step_e sse2_backend 24 8 true true (fun k => Some k) false (fun _ _ => false) t1
              (OpInsert 5 2 51)%Z with
      | Ok (t2, o2, _) =>
          o1 = OutNone /\ o2 = OutNone /\ occupants kv t2 = [mkKV 5 1 50; mkKV 5 2 51]%Z /\
          items t2 = 2%Z /\ safe_wf_check sse2_backend kv t2 = true
      | Fail _ => False
      end
  | Fail _ => False
  end.
Proof. exact never_equal_insert_twice_example. Qed.

Print Assumptions C05q_any_eq_step.
Print Assumptions C05q_any_eq_any_hasher_history.
Print Assumptions C05q_lawful_instance_is_the_model.
Print Assumptions C05q_lawful_history_is_the_model.
Print Assumptions C05q_eq_irrelevant.
Print Assumptions C05q_len_is_iteration_count.
Print Assumptions C05q_conservation.
Print Assumptions C05q_insert_conservation.
Print Assumptions C05q_extend_conservation.
Print Assumptions C05q_all_equal_example.
Print Assumptions C05q_never_equal_example.
