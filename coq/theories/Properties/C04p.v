(* C04p -- the C04 clause ("a panic in any user callback leaves a valid collection and no double
   drop") for the callbacks Properties/C04.v does not reach: a panicking Eq / Equivalent and a
   panicking closure of HashMap::retain / extract_if.  Only property theorems.

   Eq.  `panicky_eq P` (Model/PanicOps.v) is an Eq callback that panics on the stored elements
   e with `P e = None` and answers `b` where `P e = Some b`; P is arbitrary, so this covers "the
   k-th comparison panics" for every k.  RawTable::find / find_or_find_insert_slot call it in the
   probe loop without a guard and before anything is written: the model's probe returns
   `Fail Panic`, which is the unwinding leaving the operation; `find_or_find_insert_slot_c` is
   the search of HashMap::insert (reserve(1), then probe) as seen by a caller that catches it.
   Lookups (get, get_mut, contains_key, remove, remove_entry, entry, try_insert) call Eq only
   inside find, on the unmodified table: the state after the panic is the state before the call.

   Closures.  `m_retain_p` / `extract_loop_p` are HashMap::retain / ExtractIf::next driven by a
   closure `pred` / `sel : kv -> option bool` (None = this call panics, instead of its effects).
   Neither loop has a guard and ExtractIf has no Drop: the collection after the panic is what
   the completed iterations left.  `first_none pred es` is the position of the first panicking
   call in iteration order es (= length es if there is none); `says pred b e` = "the closure
   answered b on e"; `bumpv bump e` is e after the closure's `*v += bump`; `ext_taken / ext_left /
   ext_unw sel es n` are the elements `extract_if(sel).take(n)` yields / leaves / whether it
   unwound (Proofs/PanicFacts.v).  Quantified over every valid table, every closure, every n. *)
From Coq Require Import ZArith List Bool Permutation.
From HB Require Import RsPrelude Sse2 Gen Group Raw Map Check WFDefs MapDefs RawOpsSafe SafeAllocClear
  ResizeFacts FindFacts PanicOps PanicFacts.
Import ListNotations.
Open Scope nat_scope.

Section C04p_Eq.
  Variable B : backend.
  Variable T : Type.
  Hypothesis HW : WidthOK B.
  Hypothesis HB : BackendSpec B.

  (* a lookup with a panicking Eq on a valid table either returns or propagates the panic of a
     comparison with a stored element: no checked unsafe precondition is reached, the probe
     terminates, a hit is an element Eq accepted, and when Eq does not panic on any stored
     element the lookup is the ordinary one.  The table is not modified (it is an argument) *)
  Theorem C04p_eq_panic_in_lookup : forall (t : table T) (hash : Z) (P : T -> option bool),
    SafeWF B T t -> mask t <> 0 ->
    ((exists r, find B T t hash (panicky_eq P) = Ok r) \/ find B T t hash (panicky_eq P) = Fail Panic) /\
    (find B T t hash (panicky_eq P) = Fail Panic -> exists e, In e (occupants T t) /\ P e = None) /\
    (forall i, find B T t hash (panicky_eq P) = Ok (Some i) ->
       i < nb T t /\ exists e, slot T t i = Some e /\ P e = Some true) /\
    (forall P' : T -> bool, (forall e, In e (occupants T t) -> P e = Some (P' e)) ->
       find B T t hash (panicky_eq P) = find B T t hash (pure_eq P')).
  Proof. exact (fun t hash P Hsafe Hnz => find_panicky_total B T HW HB t Hsafe Hnz hash P). Qed.

  (* the same for the search of insert / entry / get_or_insert (find_or_find_insert_slot_inner):
     additionally, an insert slot it returns is a special (EMPTY / DELETED) bucket in range *)
  Theorem C04p_eq_panic_in_insert_search : forall (t : table T) (hash : Z) (P : T -> option bool),
    SafeWF B T t -> mask t <> 0 ->
    ((exists r, find_or_find_insert_slot_inner B T t hash (eq_at T t (panicky_eq P)) = Ok r) \/
     find_or_find_insert_slot_inner B T t hash (eq_at T t (panicky_eq P)) = Fail Panic) /\
    (find_or_find_insert_slot_inner B T t hash (eq_at T t (panicky_eq P)) = Fail Panic ->
       exists e, In e (occupants T t) /\ P e = None) /\
    (forall i, find_or_find_insert_slot_inner B T t hash (eq_at T t (panicky_eq P)) = Ok (inl i) ->
       i < nb T t /\ exists e, slot T t i = Some e /\ P e = Some true) /\
    (forall s, find_or_find_insert_slot_inner B T t hash (eq_at T t (panicky_eq P)) = Ok (inr s) ->
       s < nb T t /\ is_special (byte T t s) = true) /\
    (forall P' : T -> bool, (forall e, In e (occupants T t) -> P e = Some (P' e)) ->
       find_or_find_insert_slot_inner B T t hash (eq_at T t (panicky_eq P)) =
       find_or_find_insert_slot_inner B T t hash (eq_at T t (pure_eq P'))).
  Proof. exact (fun t hash P Hsafe Hnz => foi_panicky_total B T HW HB t Hsafe Hnz hash P). Qed.

  (* an Eq panic inside HashMap::insert: the table the catching caller sees is the one the
     preceding reserve(1) returned -- valid, owning its block; its contents are the old ones
     minus what a hasher panic inside the reserve dropped; and when the hasher does not panic,
     exactly the old contents (same elements, same len), the events are those of the reserve,
     and `unwound` means that Eq panicked on a stored element.  The only failures are the two
     documented library panics of reserve *)
  Theorem C04p_eq_panic_insert_state :
    forall (tsize talign : Z) (needs_drop : bool) (hasher : T -> option Z)
           (t : table T) (hash : Z) (P : T -> option bool) (alloc_refuses : bool),
    (0 <= tsize < 2 ^ 64)%Z -> (exists a : Z, (0 <= a <= 62)%Z /\ talign = (2 ^ a)%Z) ->
    SafeWF B T t -> TOwn B T tsize talign t ->
    match find_or_find_insert_slot_c B T tsize talign needs_drop hasher true t hash (panicky_eq P) alloc_refuses with
    | Ok (t1, evs, unw, r) =>
        SafeWF B T t1 /\ TOwn B T tsize talign t1 /\
        (exists dropped, Permutation (occupants T t) (occupants T t1 ++ dropped)) /\
        ((forall e, In e (occupants T t) -> hasher e <> None) ->
           Permutation (occupants T t1) (occupants T t) /\ items t1 = items t /\
           ReserveEvs B T tsize talign t t1 evs /\
           (unw = true -> r = None /\ exists e, In e (occupants T t) /\ P e = None) /\
           (unw = false -> exists x, r = Some x))
    | Fail e => e = PanicCapacityOverflow \/ e = AbortAlloc
    end.
  Proof.
    exact (fun tsize talign needs_drop hasher t hash P ar Hts Hta =>
             insert_eq_panic_state B T HW HB tsize talign Hts Hta needs_drop hasher t hash P ar).
  Qed.
End C04p_Eq.

Section C04p_Closures.
  Variable B : backend.
  Hypothesis HW : WidthOK B.
  Hypothesis HB : BackendSpec B.
  Variable needs_drop : bool.

  (* retain with a panicking closure never reaches a checked unsafe precondition and never runs
     out of fuel.  With es = the old contents in iteration order and c = the position of the first
     panicking call: the result is OutUnwind iff c < length es iff the closure panics on some
     stored element; the new table is valid, has the same geometry, still owns its block; it
     holds the elements before c on which the closure said `true` (value bumped) and everything
     from c on, unchanged; the drop events are exactly the elements before c on which the
     closure said `false` (value bumped: the closure had written through &mut V), in order, and
     only for an element type with drop glue; kept + dropped + untouched is a partition of es:
     nothing is dropped twice, nothing is lost *)
  Theorem C04p_retain_closure_panic : forall (t : table kv) (pred : kv -> option bool) (bump : Z),
    SafeWF B kv t ->
    let es := occupants kv t in
    let c := first_none pred es in
    exists t',
      m_retain_p B needs_drop t pred bump =
        Ok (t', (if c <? length es then OutUnwind else OutUnit),
            (if needs_drop then map EvDrop (map (bumpv bump) (filter (says pred false) (firstn c es))) else [])) /\
      SafeWF B kv t' /\ mask t' = mask t /\
      (forall tsize talign, TOwn B kv tsize talign t -> TOwn B kv tsize talign t') /\
      Permutation (occupants kv t') (map (bumpv bump) (filter (says pred true) (firstn c es)) ++ skipn c es) /\
      (c < length es <-> exists e, In e es /\ pred e = None) /\
      Permutation es (filter (says pred true) (firstn c es) ++ filter (says pred false) (firstn c es) ++ skipn c es).
  Proof.
    intros t pred bump Hs es c.
    destruct (retain_panic_valid B HW HB needs_drop t pred bump Hs) as (t' & E & H1 & H2 & H3 & H4 & H5).
    exists t'. repeat (split; [assumption|]). exact (retain_accounting pred es).
  Qed.

  (* ... and it preserves the full invariant (control bytes are the tags of the hashes, every
     element is reachable by its probe sequence), for every hash function of the key *)
  Theorem C04p_retain_closure_panic_wf :
    forall (hash_of : Z -> option Z) (t : table kv) (pred : kv -> option bool) (bump : Z),
    WF B kv (fun e => hash_of (k_id e)) t ->
    exists t' o evs, m_retain_p B needs_drop t pred bump = Ok (t', o, evs) /\
                     WF B kv (fun e => hash_of (k_id e)) t' /\ mask t' = mask t.
  Proof.
    intros hash_of t pred bump HWF.
    destruct (retain_panic_valid_WF B HW HB needs_drop hash_of t pred bump HWF) as (t' & E & H1 & H2 & _).
    eexists t', _, _. split; [exact E|]. split; [exact H1|exact H2].
  Qed.

  (* extract_if(sel).take(n) with a panicking closure: never a checked failure; the table is
     valid afterwards, same geometry, still owning its block; the yielded elements `acc` were
     stored, were selected, are at most n, each one is gone from the table and appears exactly
     once as a move-out event (evs = map EvMoveOut acc: no drop at all); everything not yielded
     is still stored, unchanged (old contents = acc ++ new contents as multisets); `unwound`
     only if the closure panics on an element that is still stored; and if it did not unwind,
     n elements were taken or no selected element is left *)
  Theorem C04p_extract_if_closure_panic : forall (t : table kv) (sel : kv -> option bool) (n : nat),
    SafeWF B kv t ->
    exists it t' acc unwound,
      iter_new B kv t = Ok it /\
      extract_loop_p B (S (buckets kv t)) t it sel n [] [] = Ok (t', acc, map EvMoveOut acc, unwound) /\
      acc = ext_taken sel (occupants kv t) n /\ unwound = ext_unw sel (occupants kv t) n /\
      SafeWF B kv t' /\ mask t' = mask t /\
      (forall tsize talign, TOwn B kv tsize talign t -> TOwn B kv tsize talign t') /\
      Permutation (occupants kv t) (acc ++ occupants kv t') /\
      Forall (fun e => sel e = Some true) acc /\ length acc <= n /\
      (unwound = true -> exists e, In e (occupants kv t') /\ sel e = None) /\
      (unwound = false -> length acc = n \/ Forall (fun e => sel e = Some false) (occupants kv t')).
  Proof.
    intros t sel n Hs.
    destruct (extract_panic_valid B HW HB t sel n Hs) as (it & t' & En & E & H).
    exists it, t', (ext_taken sel (occupants kv t) n), (ext_unw sel (occupants kv t) n).
    split; [exact En|]. split; [exact E|]. split; [reflexivity|]. split; [reflexivity|exact H].
  Qed.

  Theorem C04p_extract_if_closure_panic_wf :
    forall (hash_of : Z -> option Z) (t : table kv) (sel : kv -> option bool) (n : nat),
    WF B kv (fun e => hash_of (k_id e)) t ->
    exists it t' acc unwound,
      iter_new B kv t = Ok it /\
      extract_loop_p B (S (buckets kv t)) t it sel n [] [] = Ok (t', acc, map EvMoveOut acc, unwound) /\
      WF B kv (fun e => hash_of (k_id e)) t' /\ mask t' = mask t /\
      Permutation (occupants kv t) (acc ++ occupants kv t').
  Proof.
    intros hash_of t sel n HWF.
    destruct (extract_panic_valid_WF B HW HB hash_of t sel n HWF) as (it & t' & En & E & H1 & H2 & _ & H4).
    eexists it, t', _, _. split; [exact En|]. split; [exact E|]. split; [exact H1|]. split; [exact H2|exact H4].
  Qed.
End C04p_Closures.

Print Assumptions C04p_eq_panic_in_lookup.
Print Assumptions C04p_eq_panic_in_insert_search.
Print Assumptions C04p_eq_panic_insert_state.
Print Assumptions C04p_retain_closure_panic.
Print Assumptions C04p_retain_closure_panic_wf.
Print Assumptions C04p_extract_if_closure_panic.
Print Assumptions C04p_extract_if_closure_panic_wf.
