(* C16b -- the BORROW clause of C16 (companion of C16.v):

   "Every reference, iterator or entry obtained from a collection borrows it, so the collection
    cannot be mutated, moved or dropped while they live."

   Objects:  gen_sigs      every inherent `pub fn` of every exported type, GENERATED from the source by
                           tools/sigx.py on every check (receiver kind, lifetimes of the impl / the fn /
                           the inputs / the return type, what the return type contains);
             access_table  the hand-written specification of C16.v (which access a handle gives);
             unique_handle a borrowed handle type (it has a lifetime parameter) that holds the UNIQUE
                           borrow of a collection (Exclusive, Owning or unique read-only access).
   rustc's borrow checker then enforces the clause for every caller; what must hold -- and what an
   edit of one token (`&mut self` -> `&self`, an unbound `<'x>`) silently breaks, because the bodies
   build the handles from raw pointers -- is that the DECLARATIONS ask for the right borrow:

   * whatever can write or move out through a borrow is only obtainable from `&mut self` or by
     consuming another handle;
   * whatever borrows has a receiver or a borrowed argument to borrow from;
   * a named lifetime in a return type is bound by the impl block or by an input of the fn;
   * a handle that holds the unique borrow (its first lifetime parameter) hands out through `&self`
     only views that re-borrow the handle itself: their type does not name that lifetime (otherwise
     the view outlives the `&self` borrow and the handle -- a Drain, say -- can be advanced or
     dropped under it).

   The quantifier is over every generated signature (a finite list: enumeration by vm_compute lifted
   with forallb_forall); the callers are rustc's business (tools/c16_probes.py probes that side). *)
From Coq Require Import String List Bool.
From HB Require Import Gen.GenTypes Model.Marker Spec.AccessTable Model.Borrow Proofs.BorrowFacts.
Import ListNotations.
Open Scope string_scope.

Theorem C16b_unique_access_needs_unique_borrow :
  forall g, In g gen_sigs ->
  (s_ret_refmut g = true \/ exists X, In X (s_ret_heads g) /\ unique_handle X = true) ->
  s_recv g = RecvMut \/ s_recv g = RecvOwn.
Proof. exact unique_needs_unique_receiver. Qed.

Theorem C16b_borrowing_result_has_a_source :
  forall g, In g gen_sigs -> ret_borrows g = true -> s_recv g <> RecvNone \/ s_args_borrow g = true.
Proof. exact borrow_has_source. Qed.

Theorem C16b_return_lifetimes_are_bound :
  forall g l, In g gen_sigs -> In l (s_ret_lts g) ->
  (In l (s_fn_lts g) \/ In l (s_impl_lts g)) /\ (In l (s_fn_lts g) -> In l (s_in_lts g)).
Proof. exact return_lifetimes_bound. Qed.

Theorem C16b_shared_view_of_unique_handle_reborrows :
  forall g l, In g gen_sigs ->
  unique_handle (s_owner g) = true -> s_recv g = RecvRef -> hd_error (s_impl_lts g) = Some l ->
  ~ In l (s_ret_lts g).
Proof. exact shared_view_of_unique_handle_reborrows. Qed.

Print Assumptions C16b_unique_access_needs_unique_borrow.
Print Assumptions C16b_borrowing_result_has_a_source.
Print Assumptions C16b_return_lifetimes_are_bound.
Print Assumptions C16b_shared_view_of_unique_handle_reborrows.
