(* C18o -- "the same operation sequence with the same hashes produces the same return values,
   lengths and contents whether the control-byte scanner is the 16-byte SSE2 implementation or the
   portable 8-byte word implementation".  Only property theorems, each closed by `exact`.

   Both scanners satisfy BackendSpec (Properties/C18.v); every BackendSpec back-end refines the
   reference map (Properties/C01.v); the reference acceptor is deterministic up to the freedom the
   API leaves -- the ORDER of yielded lists, WHICH elements a partly consumed drain / extract_if
   takes, and the numbers answered by capacity() / allocation_size() / try_reserve
   (Proofs/SpecDeterminism.v).  Hence two runs of one history, from HashMap::new(), on the two
   scanners -- even with different element layouts, different TOTAL hash functions and different
   allocator behaviour -- agree on every return value (lists up to order), on len() and on the
   contents. *)
From Coq Require Import ZArith List Bool Permutation.
From HB Require Import RsPrelude Sse2 Gen Group Raw Map Check AssocSpec WFDefs MapDefs RawOpsSafe
  MapRefineBase MapStepRefine GroupBackends SpecDeterminism.
Import ListNotations.

(* histories whose every operation has an order-free, allocator-independent result *)
Theorem C18o_same_observables_sse2_vs_generic :
  forall ts1 ta1 ts2 ta2 nd1 nd2 h1 h2 ar1 ar2 (ops : list map_op) os1 os2 t1 t2,
  LayoutOK ts1 ta1 -> LayoutOK ts2 ta2 -> TotalHash h1 -> TotalHash h2 ->
  Forall op_args_ok ops -> hist_covered ops ->
  run sse2_backend ts1 ta1 nd1 h1 ar1 (new_table sse2_backend kv) ops = Ok (os1, t1) ->
  run generic_backend ts2 ta2 nd2 h2 ar2 (new_table generic_backend kv) ops = Ok (os2, t2) ->
  Forall (fun op => order_free op = true) ops ->
  Forall2 out_equiv os1 os2 /\ Permutation (occupants kv t1) (occupants kv t2) /\ items t1 = items t2.
Proof.
  exact (fun ts1 ta1 ts2 ta2 nd1 nd2 h1 h2 ar1 ar2 ops os1 os2 t1 t2 HL1 HL2 HT1 HT2 Ha Hc R1 R2 =>
    same_observables sse2_backend generic_backend width_sse2 sse2_backend_spec width_generic generic_backend_spec
      ts1 ta1 ts2 ta2 HL1 HL2 nd1 nd2 h1 h2 HT1 HT2 ar1 ar2 ops Ha Hc os1 os2 t1 t2 R1 R2).
Qed.

(* the same for ANY two back-ends satisfying the byte-wise contract, with the order-freeness
   condition evaluated along the run (a drain / extract_if consumed to the end is determined) *)
Theorem C18o_same_observables_any_backends :
  forall B1 B2, WidthOK B1 -> BackendSpec B1 -> WidthOK B2 -> BackendSpec B2 ->
  forall ts1 ta1 ts2 ta2 nd1 nd2 h1 h2 ar1 ar2 (ops : list map_op) os1 os2 t1 t2,
  LayoutOK ts1 ta1 -> LayoutOK ts2 ta2 -> TotalHash h1 -> TotalHash h2 ->
  Forall op_args_ok ops -> hist_covered ops ->
  run B1 ts1 ta1 nd1 h1 ar1 (new_table B1 kv) ops = Ok (os1, t1) ->
  run B2 ts2 ta2 nd2 h2 ar2 (new_table B2 kv) ops = Ok (os2, t2) ->
  order_free_run [] ops os1 = true ->
  Forall2 out_equiv os1 os2 /\ Permutation (occupants kv t1) (occupants kv t2) /\ items t1 = items t2.
Proof.
  exact (fun B1 B2 HW1 HB1 HW2 HB2 ts1 ta1 ts2 ta2 nd1 nd2 h1 h2 ar1 ar2 ops os1 os2 t1 t2 HL1 HL2 HT1 HT2 Ha Hc R1 R2 =>
    same_observables_at B1 B2 HW1 HB1 HW2 HB2 ts1 ta1 ts2 ta2 HL1 HL2 nd1 nd2 h1 h2 HT1 HT2 ar1 ar2 ops Ha Hc os1 os2 t1 t2 R1 R2).
Qed.

(* every history without a possibly partial extract_if: outputs related by `outs_sim` (partial
   drains yield sub-multisets of the same contents; capacity / allocation_size / try_reserve are
   layout-level and not claimed equal), contents and lengths equal *)
Theorem C18o_same_contents_all_histories :
  forall B1 B2, WidthOK B1 -> BackendSpec B1 -> WidthOK B2 -> BackendSpec B2 ->
  forall ts1 ta1 ts2 ta2 nd1 nd2 h1 h2 ar1 ar2 (ops : list map_op) os1 os2 t1 t2,
  LayoutOK ts1 ta1 -> LayoutOK ts2 ta2 -> TotalHash h1 -> TotalHash h2 ->
  Forall op_args_ok ops -> hist_covered ops ->
  run B1 ts1 ta1 nd1 h1 ar1 (new_table B1 kv) ops = Ok (os1, t1) ->
  run B2 ts2 ta2 nd2 h2 ar2 (new_table B2 kv) ops = Ok (os2, t2) ->
  Forall (fun op => state_det op = true) ops ->
  outs_sim [] ops os1 os2 /\ Permutation (occupants kv t1) (occupants kv t2) /\ items t1 = items t2.
Proof.
  exact (fun B1 B2 HW1 HB1 HW2 HB2 ts1 ta1 ts2 ta2 nd1 nd2 h1 h2 ar1 ar2 ops os1 os2 t1 t2 HL1 HL2 HT1 HT2 Ha Hc R1 R2 =>
    same_observables_sim B1 B2 HW1 HB1 HW2 HB2 ts1 ta1 ts2 ta2 HL1 HL2 nd1 nd2 h1 h2 HT1 HT2 ar1 ar2 ops Ha Hc os1 os2 t1 t2 R1 R2).
Qed.

(* outputs that are not lists are literally equal *)
Theorem C18o_non_list_outputs_equal : forall os1 os2, Forall2 out_equiv os1 os2 ->
  Forall2 (fun o1 o2 => (forall l, o1 <> OutList l) -> o1 = o2) os1 os2.
Proof. exact Forall2_out_equiv_nonlist. Qed.

(* non-vacuity: a history with collisions, a removal and a re-insertion runs on both scanners *)
Definition C18o_demo_ops : list map_op :=
  [OpInsert 1 1 10; OpInsert 17 2 20; OpInsert 33 3 30; OpRemove 17; OpInsert 49 4 40; OpGet 33; OpGetKeyValue 1;
   OpEntryOrInsert 17 5 50; OpRetain [1; 17; 49] 1; OpLen; OpIter]%Z.
Example C18o_premises_met :
  exists os1 os2 t1 t2,
    run sse2_backend 24 8 true (fun k => Some (Z.land k 15)) false (new_table sse2_backend kv) C18o_demo_ops = Ok (os1, t1) /\
    run generic_backend 24 8 true (fun k => Some (Z.land k 15)) false (new_table generic_backend kv) C18o_demo_ops = Ok (os2, t2) /\
    forallb order_free C18o_demo_ops = true /\ nth 5 os1 OutNone = OutVal 30 /\ nth 5 os2 OutNone = OutVal 30.
Proof. do 4 eexists. vm_compute. repeat split; reflexivity. Qed.

Print Assumptions C18o_same_observables_sse2_vs_generic.
Print Assumptions C18o_same_observables_any_backends.
Print Assumptions C18o_same_contents_all_histories.
Print Assumptions C18o_non_list_outputs_equal.
