(* C07a -- the OPERATOR forms of the set algebra on real tables (companion of C07.v).
   Only property theorems (proofs: Proofs/SetOpsFacts.v).

   C07.v is about the lazy pipelines over iteration lists.  This file closes the remaining clause
   "the operator forms (|, &, ^, - and their assigning forms) agree with them" on the TABLE model:
   `set2_step` (Model/SetOps.v) is the loop each assigning operator of src/set.rs runs -- every
   iteration a HashSet operation of `map_step`, i.e. real probing, tombstones, growth and in-place
   rehash -- over the right-hand set's elements `rhs` in ITS iteration order.

   Quantified over: both scanners, every element layout, every total hash function (constant ones
   included), every allocator answer, EVERY well-formed left table (Inv: WF + owns its block +
   represents the reference set s, any tombstone pattern / size) and EVERY right-hand list.
   `set2_spec op s rhs k` is the complete per-key description of the mathematical result, element
   OBJECTS included: |= keeps the stored objects and clones in the first rhs object of each new key,
   &= and -= keep exactly the surviving stored objects, ^= removes the common keys and clones in
   the others.  (For ^= the right-hand side must have pairwise distinct keys -- it is a set.) *)
From Coq Require Import ZArith List Bool.
From HB Require Import RsPrelude Sse2 Gen Group Raw Map Check AssocSpec WFDefs MapDefs MapRefineBase
  MapStepRefine SetAlg SetOps SetOpsFacts.
Import ListNotations.
Open Scope Z_scope.

Theorem C07a_assign_operators :
  forall B, WidthOK B -> BackendSpec B -> forall tsize talign, LayoutOK tsize talign ->
  forall needs_drop hash_of, TotalHash hash_of -> forall alloc_refuses (t : table kv) (s : spec) rhs op t' o evs,
  Inv B tsize talign hash_of t s -> zero_vals s -> (op = OpXorAssign -> NoDup (keys rhs)) ->
  set2_step B tsize talign needs_drop true hash_of alloc_refuses t rhs op = Ok (t', o, evs) ->
  o = OutUnit /\
  exists s', Inv B tsize talign hash_of t' s' /\ zero_vals s' /\
             forall k, lookup s' k = set2_spec op s rhs k.
Proof. exact set2_step_refines. Qed.

(* membership form: the four mathematical set operations, key by key *)
Theorem C07a_assign_operators_are_set_operations :
  forall B, WidthOK B -> BackendSpec B -> forall tsize talign, LayoutOK tsize talign ->
  forall needs_drop hash_of, TotalHash hash_of -> forall alloc_refuses (t : table kv) (s : spec) rhs op t' o evs,
  Inv B tsize talign hash_of t s -> zero_vals s -> (op = OpXorAssign -> NoDup (keys rhs)) ->
  set2_step B tsize talign needs_drop true hash_of alloc_refuses t rhs op = Ok (t', o, evs) ->
  exists s', Inv B tsize talign hash_of t' s' /\
             forall k, has s' k = match op with
                                  | OpOrAssign => has s k || memk k rhs
                                  | OpAndAssign => has s k && memk k rhs
                                  | OpXorAssign => xorb (has s k) (memk k rhs)
                                  | OpSubAssign => has s k && negb (memk k rhs)
                                  end.
Proof.
  intros B HW HB ts ta HL nd h Ht ar t s rhs op t' o evs HI Hz Hnd E.
  destruct (set2_step_math B HW HB ts ta HL nd h Ht ar t s rhs op t' o evs HI Hz Hnd E) as (s' & HI' & Hm).
  exists s'. split; [exact HI'|]. intros k. rewrite Hm. destruct op; reflexivity.
Qed.

(* the non-assigning operators  a | b, a & b, a ^ b, a - b  collect the lazy pipeline of C07.v
   (whose output has pairwise distinct keys: C07_union .. C07_symmetric_difference) into a fresh
   set: the new table is well-formed and holds exactly the pipeline's elements *)
Theorem C07a_collect :
  forall B, WidthOK B -> BackendSpec B -> forall tsize talign, LayoutOK tsize talign ->
  forall needs_drop hash_of, TotalHash hash_of -> forall alloc_refuses l t' o evs,
  Z.of_nat (length l) < 2 ^ 62 -> (forall x, In x l -> v_val x = 0) ->
  map_step B tsize talign needs_drop true hash_of alloc_refuses (new_table B kv) (OpExtend l) = Ok (t', o, evs) ->
  o = OutUnit /\
  exists s', Inv B tsize talign hash_of t' s' /\ forall k, lookup s' k = option_map mk0 (first_of k l).
Proof. exact collect_refines. Qed.

(* non-vacuity: a concrete run on the portable scanner with an all-colliding hash: {1,2,3} ^= [2,4] *)
Example C07a_example :
  match run generic_backend 24 8 false (fun _ : Z => Some 0) false (new_table generic_backend kv)
            [OpSetInsert 1 0; OpSetInsert 2 0; OpSetInsert 3 0] with
  | Ok (_, t) =>
      match set2_step generic_backend 24 8 false true (fun _ : Z => Some 0) false t [mkKV 2 7 0; mkKV 4 7 0] OpXorAssign with
      | Ok (t', o, _) => o = OutUnit /\ map k_id (occupants kv t') = [1; 4; 3]
      | Fail _ => False
      end
  | Fail _ => False
  end.
Proof. vm_compute. split; reflexivity. Qed.

Print Assumptions C07a_assign_operators.
Print Assumptions C07a_assign_operators_are_set_operations.
Print Assumptions C07a_collect.
