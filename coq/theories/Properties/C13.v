(* C13 -- Insert/remove churn is reclaimed: bounded memory, guaranteed termination.
   Only property theorems.  `history n t0 t`: t is reached from t0 by ANY finite sequence
   (of unbounded length) of insertions (RawTable::insert, or find_or_find_insert_slot alone, or
   followed by insert_in_slot -- the paths HashMap::insert / entry / HashTable::insert_unique /
   entry take) and removals (remove / erase of a stored bucket), such that the number of live
   elements before each step is at most n; no capacity is reserved explicitly.  The growth
   decision (rehash in place when new_items <= full_capacity / 2, else resize to
   max(new_items, full_capacity + 1)) is the expression GENERATED from raw/mod.rs.
   The hasher is ARBITRARY (all-colliding, inconsistent, panicking). *)
From Coq Require Import ZArith List Bool.
From HB Require Import RsPrelude Sse2 Gen Group Raw Map Check WFDefs MapDefs RawOpsSafe SafeAllocClear MapStepSafe ChurnFacts.
Open Scope Z_scope.

Section C13.
  Variable B : backend.
  Variable T : Type.
  Hypothesis HW : WidthOK B.
  Hypothesis HB : BackendSpec B.
  Variable tsize talign : Z.
  Hypothesis Hts : 0 <= tsize < 2 ^ 64.
  Hypothesis Hta : exists a, 0 <= a <= 62 /\ talign = 2 ^ a.
  Variable needs_drop : bool.
  Variable hasher : T -> option Z.

  (* at every point of every such history the table is valid and small: at most 16 buckets, or
     a table of HALF its size could not hold 2(n+1) elements *)
  Theorem C13_churn_bounded : forall n t,
    history B T tsize talign needs_drop hasher n (new_table B T) t ->
    SafeWF B T t /\ TOwn B T tsize talign t /\ Bounded T n t.
  Proof. exact (churn_bounded B T HW HB tsize talign Hts Hta needs_drop hasher). Qed.

  (* hence the bucket count and the allocation are bounded by a fixed multiple of the space
     needed for n elements *)
  Theorem C13_buckets_bound : forall n t, SafeWF B T t -> Bounded T n t ->
    Z.of_nat (nb T t) <= Z.max 16 (5 * (n + 1)).
  Proof. exact (Bounded_buckets_5 B T). Qed.

  Theorem C13_allocation_bound : forall n t, SafeWF B T t -> TOwn B T tsize talign t -> Bounded T n t ->
    exists len, allocation_size B T tsize talign t = Ok len /\
      0 <= len <= (tsize + 1) * Z.max 16 (32 * (n + 1) / 7) + ctrl_align B tsize talign + Z.of_nat (bk_width B).
  Proof. exact (Bounded_allocation_size B T HW tsize talign Hts Hta). Qed.
End C13.

(* termination: every operation of every history returns (the model's loops carry exactly the
   fuel the code relies on; OutOfFuel is not `benign`), in particular a lookup of an absent key
   in a table saturated with tombstones *)
Theorem C13_terminates :
  forall (B : backend) (tsize talign : Z) (needs_drop : bool) (hash_of : Z -> option Z) (alloc_refuses : bool)
         (t : table kv) (op : map_op),
  WidthOK B -> BackendSpec B -> LayoutOK tsize talign -> op_args_ok op ->
  SafeWF B kv t -> TOwn B kv tsize talign t ->
  match map_step B tsize talign needs_drop true hash_of alloc_refuses t op with
  | Ok (t', o, evs) => SafeWF B kv t' /\ TOwn B kv tsize talign t'
  | Fail e => benign e
  end.
Proof. exact map_step_safe. Qed.

Print Assumptions C13_churn_bounded.
Print Assumptions C13_buckets_bound.
Print Assumptions C13_allocation_bound.
Print Assumptions C13_terminates.
