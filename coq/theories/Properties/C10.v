(* C10 -- retain, extract_if and drain remove exactly the selected elements.
   Only property theorems.  retain / extract_if iterate with a RawIter WHILE erasing; the model
   does the same (Model/Map.v retain_loop / extract_loop / m_drain).  Predicates are arbitrary
   key sets (`keep` / `sel`: every subset of the stored elements), `bump` is a mutation made
   through the &mut argument, `n` is the number of results taken before the iterator is dropped
   (every early-drop point).  Quantified over every valid state and every total hasher. *)
From Coq Require Import ZArith List Bool Permutation.
From HB Require Import RsPrelude Sse2 Gen Group Raw Map Check AssocSpec WFDefs MapDefs RawOpsSafe MapRefineBase MapStepRefine.
Import ListNotations.

Definition removal_op (op : map_op) : Prop :=
  match op with OpRetain _ _ | OpExtractIf _ _ | OpDrain _ => True | _ => False end.

Lemma removal_op_covered op : removal_op op -> not_set_insert op.
Proof. destruct op; cbn; tauto. Qed.

(* the operation's output and effect are exactly the reference's:
   retain: survivors = the elements whose key is in `keep`, each with its value bumped once;
   extract_if: the n yielded elements are selected ones and exactly they are gone, every
     unvisited element stays;
   drain: the yielded elements were stored, afterwards the map is empty (and valid: it keeps
     its allocation -- see C08_clear_keeps_allocation for the allocation side) *)
Theorem C10_removals_exact :
  forall B tsize talign needs_drop hash_of alloc_refuses (t : table kv) (s : spec) (op : map_op) t' o evs,
  WidthOK B -> BackendSpec B -> LayoutOK tsize talign -> TotalHash hash_of -> op_args_ok op ->
  removal_op op ->
  WF B kv (fun e => hash_of (k_id e)) t -> TOwn B kv tsize talign t -> AbsRel t s ->
  map_step B tsize talign needs_drop true hash_of alloc_refuses t op = Ok (t', o, evs) ->
  is_unwind o = false /\
  exists s', spec_accepts s op o = Some s' /\
             WF B kv (fun e => hash_of (k_id e)) t' /\ TOwn B kv tsize talign t' /\ AbsRel t' s'.
Proof.
  exact (fun B ts ta nd h ar t s op t' o evs HW HB HL HT HA HE =>
           map_step_refines_covered B ts ta nd h ar t s op t' o evs HW HB HL HT HA (removal_op_covered op HE)).
Qed.

(* what the reference demands, spelled out *)
Theorem C10_retain_semantics : forall (s : spec) keep bump,
  spec_accepts s (OpRetain keep bump) OutUnit =
  Some (flat_map (fun e => if existsb (Z.eqb (k_id e)) keep
                           then [mkKV (k_id e) (k_stamp e) (wadd 64 (v_val e) bump)] else []) s).
Proof. reflexivity. Qed.

Theorem C10_drain_semantics : forall (s : spec) n l s',
  spec_accepts s (OpDrain n) (OutList l) = Some s' ->
  s' = [] /\ length l = Nat.min n (length s) /\ exists rest, sublist_of l s = Some rest.
Proof.
  intros s n l s' H. cbn [spec_accepts] in H.
  destruct (Nat.eqb_spec (length l) (Nat.min n (length s))) as [E|]; [|discriminate].
  destruct (sublist_of l s) as [rest|] eqn:S; [|discriminate]. injection H as <-.
  split; [reflexivity|]. split; [exact E|]. exists rest. reflexivity.
Qed.

Print Assumptions C10_removals_exact.
Print Assumptions C10_retain_semantics.
Print Assumptions C10_drain_semantics.
