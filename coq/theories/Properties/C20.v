(* C20 -- Serde round-trips contents; a lying size hint cannot force over-allocation.
   Only property theorems.  serde_cautious is the expression GENERATED from
   src/external_trait_impls/serde.rs; `build items` is "insert every pair in input order"
   (what visit_map / visit_seq do, Model/Serde.v) at the level of the reference map. *)
From Coq Require Import ZArith List Bool.
Import ListNotations.
From HB Require Import RsPrelude Sse2 Gen Group Raw Map AssocSpec ArithFacts SerdeFacts.
Open Scope Z_scope.

(* The capacity reserved before any element is read is bounded by a constant for EVERY claimed
   size hint (None, 0 .. usize::MAX): at most 4096 elements, hence at most 8192 buckets,
   for both group widths and every element size. *)
Theorem C20_cautious_bound : forall hint : option Z,
  (forall h, hint = Some h -> 0 <= h) -> 0 <= serde_cautious hint <= 4096.
Proof. exact cautious_bound. Qed.

Theorem C20_bounded_prealloc : forall GW (hint : option Z) tsize talign b,
  (GW = 8 \/ GW = 16) -> (forall h, hint = Some h -> 0 <= h) -> 0 <= tsize ->
  capacity_to_buckets GW (serde_cautious hint) tsize talign = Some b -> b <= 8192.
Proof. exact prealloc_buckets_bound. Qed.

(* Input with repeated keys: the last value of each key wins (and the first key object is the
   one stored), for every input sequence. *)
Theorem C20_last_wins : forall items k,
  lookup (build items) k =
  match last_val items k with
  | Some v => Some (mkKV k (match first_stamp items k with Some s => s | None => 0 end) v)
  | None => None
  end.
Proof. exact build_last_wins. Qed.

Theorem C20_result_keys_unique : forall items, keys_unique (build items).
Proof. exact build_unique. Qed.

(* Round trip: serialising a map (its entries in ANY order, keys unique) and deserialising the
   result yields a map with the same entry for every key. *)
Theorem C20_roundtrip : forall s : spec, keys_unique s -> forall k, lookup (build s) k = lookup s k.
Proof. exact roundtrip. Qed.

Example C20_example : lookup (build [mkKV 1 10 100; mkKV 2 20 200; mkKV 1 11 101]) 1 = Some (mkKV 1 10 101).
Proof. reflexivity. Qed.

Print Assumptions C20_cautious_bound.
Print Assumptions C20_bounded_prealloc.
Print Assumptions C20_last_wins.
Print Assumptions C20_result_keys_unique.
Print Assumptions C20_roundtrip.
