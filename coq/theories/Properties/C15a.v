(* C15a -- "no two returned references ever point to the same entry": the step from bucket INDICES
   (Properties/C15.v: the buckets handed out are pairwise distinct) to POINTERS, for every element
   layout (companion of C15.v; address model: Model/Addr.v, proofs: Proofs/AddrFacts.v).

   RawTable::get_many_mut compares `Bucket::ptr` (since the repair of F2; before it compared
   `Bucket::as_ptr()`, one dangling pointer for all buckets of a zero-sized T).  `bucket_ptr tsize
   off i` is that value: data_end - i * size_of::<T>() for a sized T, the pseudo-pointer i + 1 for a
   zero-sized T.  For EVERY element size (zero included) it is injective in the bucket index, so
   "distinct buckets" = "distinct Bucket::ptr" and the duplicate check panics exactly for aliasing
   requests; for a sized T the elements behind distinct buckets are moreover disjoint byte ranges
   (C02a_elements_disjoint), so the &mut references cannot overlap; for a zero-sized T the element
   pointers do coincide (C02a_zst_as_ptr_not_injective) -- which is why comparing as_ptr() was wrong. *)
From Coq Require Import ZArith List Bool Lia.
From HB Require Import RsPrelude Gen Addr AddrFacts.
Open Scope Z_scope.

Theorem C15a_bucket_pointer_identifies_the_bucket : forall tsize off i j,
  0 <= tsize -> bucket_ptr tsize off i = bucket_ptr tsize off j -> i = j.
Proof.
  intros tsize off i j Hts E.
  destruct (index_roundtrip_unbounded tsize off i 0 Hts) as (Ri & _).
  destruct (index_roundtrip_unbounded tsize off j 0 Hts) as (Rj & _).
  rewrite <- Ri, <- Rj, E. reflexivity.
Qed.

Corollary C15a_distinct_buckets_distinct_pointers : forall tsize off i j,
  0 <= tsize -> i <> j -> bucket_ptr tsize off i <> bucket_ptr tsize off j.
Proof. intros tsize off i j Hts Hne E. apply Hne. exact (C15a_bucket_pointer_identifies_the_bucket tsize off i j Hts E). Qed.

(* the pre-repair comparison could not tell zero-sized entries apart *)
Theorem C15a_element_pointer_does_not (talign off i j : Z) :
  bucket_as_ptr 0 talign (bucket_ptr 0 off i) = bucket_as_ptr 0 talign (bucket_ptr 0 off j).
Proof. exact (zst_as_ptr_not_injective talign off i j). Qed.

Print Assumptions C15a_bucket_pointer_identifies_the_bucket.
Print Assumptions C15a_distinct_buckets_distinct_pointers.
Print Assumptions C15a_element_pointer_does_not.
