(* C03o / C02o / C09o -- The OWNING iterators (into_iter, drain; src/raw/mod.rs RawIntoIter,
   RawDrain; HashMap's IntoIter / IntoKeys / IntoValues / Drain are wrappers without a Drop of
   their own) release every element and the allocation exactly once, whether the iterator is
   run to the end, DROPPED half-way, LEAKED (mem::forget) half-way, or dropped by the unwinding
   of a consumer that panicked (Model/OwnIter.v: a closure of fold / for_each that panics in its
   k-th call after n calls of next() is `into_iter_consume t (n + k + 1)`).
   Only property theorems, on the step-wise model Model/OwnIter.v:
     into_iter_consume t n = into_iter(); n x next(); drop      -> (yielded, events, ok)
     drain_consume t n     = drain();     n x next(); drop      -> (collection, yielded, events, ok)
     into_iter_leak / drain_leak: the same with mem::forget instead of drop
   Events: EvMoveOut e = e was handed to the caller; EvDrop e = the iterator ran e's destructor;
   EvFree (size, align) = the block was returned to the allocator.  moved_out / dropped / freed
   = the elements / layouts of the events of that kind, in order.  `occupants t` = the stored
   elements in bucket order.  ok = false <=> a destructor panicked (drop_ok e = false) and the
   panic propagates out of the iterator's Drop. *)
From Coq Require Import ZArith List Bool.
From HB Require Import RsPrelude Sse2 Gen Group Raw Map Check WFDefs SafeAllocClear RawOpsSafe OwnIter OwnIterFacts.
Import ListNotations.
Open Scope nat_scope.

Section C03o.
  Variable B : backend.
  Variable T : Type.
  Hypothesis HW : WidthOK B.
  Hypothesis HB : BackendSpec B.
  Variable tsize talign : Z.
  Hypothesis Hts : (0 <= tsize < 2 ^ 64)%Z.
  Hypothesis Hta : exists a : Z, (0 <= a <= 62)%Z /\ talign = (2 ^ a)%Z.
  Variable needs_drop : bool.
  Variable drop_ok : T -> bool.

  (* into_iter, any number n of next(), then Drop: never UB.  The first n occupants (all of them
     if n >= len) are yielded in bucket order; the destructors run on a prefix of the OTHERS, in
     bucket order -- on all of them if none panics -- so that moved-out ++ dropped is the list of
     occupants: each released once, none twice, none both ways.  The block is freed exactly once
     with its own (valid) layout; the unallocated singleton frees nothing; a panicking destructor
     leaks the rest and the block (no double free later: the collection was consumed). *)
  Theorem C03o_into_iter_releases_each_once : forall t n,
    SafeWF B T t -> TOwn B T tsize talign t ->
    exists es evs ok,
      into_iter_consume B T tsize talign needs_drop drop_ok t n = Ok (es, evs, ok) /\
      es = firstn n (occupants T t) /\ moved_out evs = es /\
      (exists k, dropped evs = firstn k (skipn n (occupants T t))) /\
      (needs_drop = true -> ok = true -> moved_out evs ++ dropped evs = occupants T t) /\
      (needs_drop = false -> dropped evs = [] /\ ok = true) /\
      ((forall e, In e (occupants T t) -> drop_ok e = true) -> ok = true) /\
      (ok = false -> freed evs = [] /\ exists e, In e (dropped evs) /\ drop_ok e = false) /\
      (ok = true -> mask t = 0 -> freed evs = []) /\
      (ok = true -> mask t <> 0 ->
         exists len al off, layout_for B tsize talign (nb T t) = Some (len, al, off) /\
           ValidLayout len al /\ freed evs = [(len, al)]).
  Proof. exact (into_iter_releases_each_once B T HW HB tsize talign Hts Hta needs_drop drop_ok). Qed.

  (* the same with the exact order of the events: MoveOut*, then Drop*, then the Free *)
  Theorem C03o_into_iter_event_sequence : forall t n,
    SafeWF B T t -> TOwn B T tsize talign t ->
    exists dr ok fr,
      into_iter_consume B T tsize talign needs_drop drop_ok t n
        = Ok (firstn n (occupants T t), map EvMoveOut (firstn n (occupants T t)) ++ dr ++ fr, ok) /\
      length (firstn n (occupants T t)) = Nat.min n (Z.to_nat (items t)) /\
      drops_prefix T dr (skipn n (occupants T t)) /\
      (needs_drop = true -> ok = true -> dr = map EvDrop (skipn n (occupants T t))) /\
      (needs_drop = false -> dr = [] /\ ok = true) /\
      ((forall e, In e (skipn n (occupants T t)) -> drop_ok e = true) -> ok = true) /\
      (ok = false -> fr = [] /\ exists l e, dr = map EvDrop (l ++ [e]) /\ drop_ok e = false /\
                                           In e (skipn n (occupants T t))) /\
      (ok = true -> mask t = 0 -> fr = []) /\
      (ok = true -> mask t <> 0 ->
         exists len al off, layout_for B tsize talign (nb T t) = Some (len, al, off) /\
           ValidLayout len al /\ fr = [EvFree len al]).
  Proof. exact (into_iter_consume_spec B T HW HB tsize talign Hts Hta needs_drop drop_ok). Qed.

  (* drain, any number n of next(), then Drop: never UB; elements as for into_iter; NO block is
     freed; the collection afterwards is clear_no_drop of the table: valid, empty, same bucket
     mask (the allocation is kept and still owned), growth_left = its full capacity.  If a
     destructor panics the collection is left as the valid empty singleton (block leaked). *)
  Theorem C03o_drain_releases_each_once_and_keeps_block : forall t n,
    SafeWF B T t ->
    exists t' es evs ok,
      drain_consume B T needs_drop drop_ok t n = Ok (t', es, evs, ok) /\
      es = firstn n (occupants T t) /\ moved_out evs = es /\
      (exists k, dropped evs = firstn k (skipn n (occupants T t))) /\
      (needs_drop = true -> ok = true -> moved_out evs ++ dropped evs = occupants T t) /\
      (needs_drop = false -> dropped evs = [] /\ ok = true) /\
      ((forall e, In e (occupants T t) -> drop_ok e = true) -> ok = true) /\
      freed evs = [] /\
      (ok = false -> t' = new_table B T /\ exists e, In e (dropped evs) /\ drop_ok e = false) /\
      (ok = true -> t' = clear_no_drop T t /\ mask t' = mask t /\ growth_left t' = z_cap (mask t) /\
                    capacity T t' = growth_left t' /\
                    (TOwn B T tsize talign t -> TOwn B T tsize talign t')) /\
      SafeWF B T t' /\ items t' = 0%Z /\ occupants T t' = [].
  Proof. exact (drain_releases_each_once B T HW HB tsize talign needs_drop drop_ok). Qed.

  (* a LEAKED Drain (mem::forget after n calls of next): the collection is the valid empty
     singleton -- it references neither the block nor any element, so nothing can be dropped or
     freed twice later; no destructor ran, nothing was freed (leaked, which is safe) *)
  Theorem C02o_leaked_drain_leaves_valid_empty : forall t n,
    SafeWF B T t ->
    drain_leak B T t n = Ok (new_table B T, firstn n (occupants T t),
                            map EvMoveOut (firstn n (occupants T t))) /\
    SafeWF B T (new_table B T) /\ TOwn B T tsize talign (new_table B T) /\
    mask (new_table B T) = 0 /\ items (new_table B T) = 0%Z /\ occupants T (new_table B T) = [] /\
    allocation_size B T tsize talign (new_table B T) = Ok 0%Z /\
    moved_out (map EvMoveOut (firstn n (occupants T t))) = firstn n (occupants T t) /\
    dropped (map (@EvMoveOut T) (firstn n (occupants T t))) = [] /\
    freed (map (@EvMoveOut T) (firstn n (occupants T t))) = [].
  Proof. exact (drain_leak_spec B T HW HB tsize talign). Qed.

  (* a LEAKED IntoIter: never UB, the yielded elements are the first n occupants, no destructor
     ran, nothing was freed (the collection itself was consumed by into_iter) *)
  Theorem C02o_leaked_into_iter_drops_nothing : forall t n,
    SafeWF B T t -> TOwn B T tsize talign t ->
    into_iter_leak B T tsize talign t n
      = Ok (firstn n (occupants T t), map EvMoveOut (firstn n (occupants T t))) /\
    length (firstn n (occupants T t)) = Nat.min n (Z.to_nat (items t)) /\
    moved_out (map EvMoveOut (firstn n (occupants T t))) = firstn n (occupants T t) /\
    dropped (map (@EvMoveOut T) (firstn n (occupants T t))) = [] /\
    freed (map (@EvMoveOut T) (firstn n (occupants T t))) = [].
  Proof. exact (into_iter_leak_spec B T HW HB tsize talign). Qed.

  (* ExactSizeIterator / FusedIterator for both owning iterators: after j calls of next() the
     reported length is len - j (never wraps), the j-th prefix of the occupants was yielded, and
     once exhausted next() keeps answering None without touching anything *)
  Theorem C09o_owning_iterator_exact_len : forall t oi0,
    SafeWF B T t ->
    (into_iter_new B T tsize talign t = Ok oi0 \/ drain_new B T t = Ok (oi0, new_table B T)) ->
    items t = Z.of_nat (length (occupants T t)) /\
    forall j, exists oi_j,
      own_run B T j oi0 = Ok (firstn j (occupants T t), oi_j, map EvMoveOut (firstn j (occupants T t))) /\
      own_len T oi_j = Z.of_nat (length (occupants T t) - j) /\
      (j <= length (occupants T t) ->
         length (firstn j (occupants T t)) = j /\ own_len T oi_j = (items t - Z.of_nat j)%Z) /\
      (length (occupants T t) <= j ->
         own_len T oi_j = 0%Z /\ own_next B T oi_j = Ok (None, oi_j, []) /\
         forall m, own_run B T m oi_j = Ok ([], oi_j, [])).
  Proof. exact (own_next_len B T HW HB tsize talign). Qed.

  (* the step-wise Drain against the one-shot formulation, for any element type whose
     destructor does not panic: same collection, same yielded list, same events *)
  Theorem C03o_drain_equals_one_shot_generic : forall t n,
    SafeWF B T t -> (forall e, drop_ok e = true) ->
    drain_consume B T needs_drop drop_ok t n =
    ('(t', es, evs) <- drain_one_shot B T needs_drop t n ;; Ok (t', es, evs, true)).
  Proof. exact (drain_consume_one_shot B T HW HB tsize talign needs_drop drop_ok). Qed.
End C03o.

(* HashMap::drain: the step-wise model gives the same collection, the same yielded list and the
   same events as the one-shot model Map.m_drain used by map_step (OpDrain n) *)
Theorem C03o_drain_equals_one_shot_model : forall B, WidthOK B -> BackendSpec B ->
  forall needs_drop (t : table kv) n, SafeWF B kv t ->
  exists t' es evs,
    m_drain B needs_drop t n = Ok (t', OutList es, evs) /\
    drain_consume B kv needs_drop Map.drop_ok t n = Ok (t', es, evs, true) /\
    t' = clear_no_drop kv t /\ es = firstn n (occupants kv t).
Proof. exact drain_consume_m_drain. Qed.

Print Assumptions C03o_into_iter_releases_each_once.
Print Assumptions C03o_into_iter_event_sequence.
Print Assumptions C03o_drain_releases_each_once_and_keeps_block.
Print Assumptions C03o_drain_equals_one_shot_generic.
Print Assumptions C03o_drain_equals_one_shot_model.
Print Assumptions C02o_leaked_drain_leaves_valid_empty.
Print Assumptions C02o_leaked_into_iter_drops_nothing.
Print Assumptions C09o_owning_iterator_exact_len.
