(* C14e -- The entry code paths that do NOT go through HashMap::entry agree with it, even at
   full load.  Only property theorems.

   Model/Entry2.v transcribes, line by line, RawTable::insert_no_grow (src/raw/mod.rs),
   HashMap::rustc_entry + RustcEntry's actions (src/rustc_entry.rs) and the raw entry builders
   raw_entry_mut().from_key / from_key_hashed_nocheck, raw_entry().from_key (src/raw_entry.rs).
   Here they are tied to `map_step`, the verified model of HashMap (C14, C01):

     C14e_insert_no_grow       insert_no_grow succeeds and IS RawTable::insert (same table, same
                               bucket, no event, no unwinding) whenever its precondition
                               `no_grow_pre` holds: growth_left >= 1, or the probe lands on a
                               tombstone; safety invariant, ownership, counters, contents after it
     C14e_insert_no_grow_WF    ... and the full invariant WF
     C14e_rustc_entry_is_reserve_then_entry
                               rustc_entry(k) followed by an action is, as a value (table, output,
                               event list): the HashMap::entry operation when the key is found;
                               `reserve(1)` and then the HashMap::entry operation when it is not
                               (also when growth_left = 0: the reserve resizes or rehashes first)
     C14e_rustc_entry_refines  hence it refines the reference map, from every valid state
     C14e_raw_entry_is_entry   raw_entry_mut().from_key(&k) followed by an action whose key is k
                               IS the HashMap::entry operation (program equality: any table, any
                               hasher -- panicking ones included)
     C14e_raw_get_is_get_key_value
                               raw_entry().from_key(&k) IS get_key_value(&k), except that on an
                               empty map get_key_value does not call the hasher: the side condition
                               `items t = 0 -> hash_of k <> None` is necessary
                               (Entry2Facts.raw_get_counterexample) *)
From Coq Require Import ZArith List Bool Permutation.
From HB Require Import RsPrelude Sse2 Gen Group Raw Map Check AssocSpec WFDefs MapDefs RawOpsSafe MapRefineBase
  MapStepRefine Entry2 Entry2Facts.
Import ListNotations.

Theorem C14e_insert_no_grow :
  forall B (T : Type) tsize talign needs_drop (hasher : T -> option Z) (t : table T) hash value alloc_refuses,
  WidthOK B -> BackendSpec B ->
  SafeWF B T t -> TOwn B T tsize talign t -> no_grow_pre B T t hash ->
  exists t' i,
    insert_no_grow B T t hash value = Ok (t', i) /\
    Raw.insert B T tsize talign needs_drop hasher true t hash value alloc_refuses = Ok (t', [], false, Some i) /\
    SafeWF B T t' /\ TOwn B T tsize talign t' /\ mask t' = mask t /\ (i < nb T t')%nat /\
    slot T t' i = Some value /\ byte T t' i = tag_full hash /\
    items t' = (items t + 1)%Z /\
    growth_left t' = (if is_empty (byte T t i) then growth_left t - 1 else growth_left t)%Z /\
    (0 <= growth_left t')%Z /\
    Permutation (occupants T t') (value :: occupants T t).
Proof.
  exact (fun B T ts ta nd h t hash value ar HW HB =>
           insert_no_grow_spec B T HW HB ts ta nd h t hash value ar).
Qed.

Theorem C14e_insert_no_grow_WF :
  forall B (T : Type) (h : T -> option Z) (t : table T) hash value t' i,
  WidthOK B -> BackendSpec B ->
  WF B T h t -> no_grow_pre B T t hash -> h value = Some hash ->
  insert_no_grow B T t hash value = Ok (t', i) -> WF B T h t'.
Proof.
  exact (fun B T h t hash value t' i HW HB => insert_no_grow_WF B T HW HB h t hash value t' i).
Qed.

Theorem C14e_rustc_entry_is_reserve_then_entry :
  forall B tsize talign needs_drop hash_of alloc_refuses (t : table kv) k stamp a hv,
  WidthOK B -> BackendSpec B -> LayoutOK tsize talign -> TotalHash hash_of ->
  WF B kv (fun e => hash_of (k_id e)) t -> TOwn B kv tsize talign t ->
  hash_of k = Some hv ->
  rustc_step B tsize talign needs_drop true hash_of alloc_refuses t k stamp a =
  match Raw.find B kv t hv (eq_key k) with
  | Ok (Some _) =>
      map_step B tsize talign needs_drop true hash_of alloc_refuses t (entry_op_of k stamp a)
  | Ok None =>
      '(t1, o1, evs1) <- map_step B tsize talign needs_drop true hash_of alloc_refuses t (OpReserve 1) ;;
      if is_unwind o1 then Ok (t1, o1, evs1) else
      '(t2, o2, evs2) <- map_step B tsize talign needs_drop true hash_of alloc_refuses t1 (entry_op_of k stamp a) ;;
      Ok (t2, o2, evs1 ++ evs2)
  | Fail er => Fail er
  end.
Proof.
  exact (fun B ts ta nd h ar t k stamp a hv HW HB HL HT HWF HA Hh =>
           rustc_step_eq B HW HB ts ta HL nd h HT ar t k stamp a hv HWF HA Hh).
Qed.

Theorem C14e_rustc_entry_refines :
  forall B tsize talign needs_drop hash_of alloc_refuses (t : table kv) (s : spec) k stamp a t' o evs,
  WidthOK B -> BackendSpec B -> LayoutOK tsize talign -> TotalHash hash_of ->
  WF B kv (fun e => hash_of (k_id e)) t -> TOwn B kv tsize talign t -> AbsRel t s ->
  rustc_step B tsize talign needs_drop true hash_of alloc_refuses t k stamp a = Ok (t', o, evs) ->
  is_unwind o = false /\
  exists s', spec_accepts s (entry_op_of k stamp a) o = Some s' /\
             WF B kv (fun e => hash_of (k_id e)) t' /\ TOwn B kv tsize talign t' /\ AbsRel t' s'.
Proof.
  exact rustc_step_refines.
Qed.

Theorem C14e_raw_entry_is_entry :
  forall B tsize talign needs_drop guard_fix hash_of alloc_refuses (t : table kv) k a,
  raw_act_key_is k a ->
  raw_step B tsize talign needs_drop guard_fix hash_of alloc_refuses t k a =
  map_step B tsize talign needs_drop guard_fix hash_of alloc_refuses t (raw_op_of k a).
Proof.
  exact raw_step_eq.
Qed.

Theorem C14e_raw_get_is_get_key_value :
  forall B tsize talign needs_drop guard_fix hash_of alloc_refuses (t : table kv) k,
  WidthOK B -> BackendSpec B ->
  SafeWF B kv t -> (items t = 0%Z -> hash_of k <> None) ->
  raw_get B hash_of t k =
  map_step B tsize talign needs_drop guard_fix hash_of alloc_refuses t (OpGetKeyValue k).
Proof.
  exact (fun B ts ta nd gf h ar t k HW HB => raw_get_eq B HW HB ts ta nd gf h ar t k).
Qed.

Print Assumptions C14e_insert_no_grow.
Print Assumptions C14e_insert_no_grow_WF.
Print Assumptions C14e_rustc_entry_is_reserve_then_entry.
Print Assumptions C14e_rustc_entry_refines.
Print Assumptions C14e_raw_entry_is_entry.
Print Assumptions C14e_raw_get_is_get_key_value.
