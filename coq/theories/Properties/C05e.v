(* C05e -- companion of C05: inconsistent Eq.  Only property theorems (proofs: Proofs/FindFacts.v,
   Proofs/RawOpsSafe.v).  Every lookup / insertion of HashMap, HashSet and HashTable goes through
   RawTable::find resp. find_or_find_insert_slot with the caller's equality as a closure.  In one such
   call every bucket is tested at most once, so an Eq implementation that answers inconsistently is, for
   that call, some predicate P on elements; P below is ARBITRARY and may be a different one at every
   call (the theorems are per call), and so may the hasher (which may also panic: hasher e = None).
   The results: the probe always terminates and never reads outside the table (the model's checked
   primitives do not fire), a hit is a FULL bucket of the table, an offered insert slot is a free bucket
   of the table, and the table stays valid and keeps owning its block. *)
From Coq Require Import ZArith List Bool Permutation.
From HB Require Import RsPrelude Sse2 Gen Group Raw Check WFDefs SafeAllocClear RawOpsSafe FindFacts.
Import ListNotations.

(* lookups (get / contains_key / find / remove's search ...) with any equality and any hash value *)
Theorem C05_lookup_any_eq :
  forall B T, WidthOK B -> BackendSpec B ->
  forall (t : table T), mask t <> 0 ->
  forall (P : T -> bool) (hash : Z), SafeWF B T t ->
  exists r, find B T t hash (pure_eq P) = Ok r.
Proof. exact find_total. Qed.

(* the search-or-insert-slot of insert / entry / get_or_insert..., incl. the reserve(1) it starts
   with (growth, in-place rehash with a possibly panicking, possibly inconsistent hasher) *)
Theorem C05_insert_search_any_eq :
  forall B T, WidthOK B -> BackendSpec B ->
  forall tsize talign : Z, (0 <= tsize < 2 ^ 64)%Z -> (exists a : Z, (0 <= a <= 62)%Z /\ talign = (2 ^ a)%Z) ->
  forall needs_drop (hasher : T -> option Z) (t : table T) (hash : Z) (P : T -> bool) alloc_refuses,
  SafeWF B T t -> TOwn B T tsize talign t ->
  foi_post B T tsize talign needs_drop hasher t P alloc_refuses
    (find_or_find_insert_slot B T tsize talign needs_drop hasher true t hash (pure_eq P) alloc_refuses).
Proof. exact find_or_find_insert_slot_spec. Qed.

(* what foi_post says in the three returning cases *)
Theorem C05_foi_post_meaning :
  forall B T tsize talign needs_drop (hasher : T -> option Z) (t t1 : table T) (P : T -> bool) alloc_refuses evs unw r,
  foi_post B T tsize talign needs_drop hasher t P alloc_refuses (Ok (t1, evs, unw, r)) ->
  SafeWF B T t1 /\ TOwn B T tsize talign t1 /\
  match unw, r with
  | true, _ => r = None
  | false, Some (inl i) => i < nb T t1 /\ exists e, slot T t1 i = Some e /\ P e = true
  | false, Some (inr s) => s < nb T t1 /\ is_special (byte T t1 s) = true
  | false, None => False
  end.
Proof.
  intros B T ts ta nd h t t1 P ar evs unw r H. cbn [foi_post] in H.
  destruct unw.
  - destruct H as (E & S & O & _). split; [exact S|]. split; [exact O|exact E].
  - destruct r as [[i|s]|]; [| |contradiction]; destruct H as ((S & O & _) & X); (split; [exact S|]; split; [exact O|exact X]).
Qed.

Print Assumptions C05_lookup_any_eq.
Print Assumptions C05_insert_search_any_eq.
Print Assumptions C05_foi_post_meaning.
