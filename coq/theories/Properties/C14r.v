(* C14r -- Entry-style APIs agree with plain lookup/insert/remove: the replace_entry_with family.
   Only property theorems.  OccupiedEntry::replace_entry_with, Entry::and_replace_entry_with,
   RawOccupiedEntryMut::replace_entry_with and RawEntryMut::and_replace_entry_with are all the
   single call RawTable::replace_bucket_with(bucket, f) on the FULL bucket the entry points to
   (Model/Replace.v).  From every state satisfying the hash-independent invariant SafeWF -- in
   particular at full load (growth_left = 0) and with any number of tombstones around --
     * if the closure answers Some(new): the call returns true, hands the old element to the
       closure, and the table afterwards is EXACTLY the table with that one element overwritten
       in place (`slot_write`, what get_mut + assignment does): all control bytes including the
       replicated ones, the mask, items and growth_left are unchanged, although the bucket was
       erased and re-marked in between;
     * if the closure answers None: the call returns false and is EXACTLY RawTable::remove of
       that bucket (what OccupiedEntry::remove_entry / HashMap::remove do after the lookup).
   In neither case can the call fail. *)
From Coq Require Import ZArith List Bool Permutation.
From HB Require Import RsPrelude Sse2 Gen Group Raw Check Replace WFDefs ReplaceFacts.
Import ListNotations.

Theorem C14_replace_with_some_is_overwrite :
  forall (B : backend) (T : Type), WidthOK B ->
  forall (t : table T) (index : nat) (f : T -> option T) (e e' : T),
  SafeWF B T t -> mask t <> 0 -> index < nb T t -> is_full (byte T t index) = true ->
  slot T t index = Some e -> f e = Some e' ->
  exists t', replace_bucket_with B T t index f = Ok (t', true, e) /\
    slot_write T t index e' = Ok t' /\
    SafeWF B T t' /\
    mask t' = mask t /\ ctrl t' = ctrl t /\ items t' = items t /\ growth_left t' = growth_left t /\
    (forall j, byte T t' j = byte T t j) /\
    (forall j, slot T t' j = if Nat.eqb j index then Some e' else slot T t j) /\
    (exists l1 l2, occupants T t = l1 ++ e :: l2 /\ occupants T t' = l1 ++ e' :: l2) /\
    Permutation (e :: occupants T t') (e' :: occupants T t).
Proof. exact replace_some_is_overwrite. Qed.

Theorem C14_replace_with_none_is_remove :
  forall (B : backend) (T : Type), WidthOK B ->
  forall (t : table T) (index : nat) (f : T -> option T) (e : T),
  SafeWF B T t -> mask t <> 0 -> index < nb T t -> is_full (byte T t index) = true ->
  slot T t index = Some e -> f e = None ->
  exists t1, remove B T t index = Ok (e, t1) /\
    replace_bucket_with B T t index f = Ok (t1, false, e) /\
    SafeWF B T t1 /\ mask t1 = mask t /\ items t1 = (items t - 1)%Z /\
    is_special (byte T t1 index) = true /\ slot T t1 index = None /\
    (forall j, j < nb T t -> j <> index -> byte T t1 j = byte T t j /\ slot T t1 j = slot T t j) /\
    growth_left t1 = (if is_empty (byte T t1 index) then growth_left t + 1 else growth_left t)%Z /\
    (exists l1 l2, occupants T t = l1 ++ e :: l2 /\ occupants T t1 = l1 ++ l2).
Proof. exact replace_none_is_remove. Qed.

Theorem C14_replace_with_never_fails :
  forall (B : backend) (T : Type), WidthOK B ->
  forall (t : table T) (index : nat) (f : T -> option T) (e : T),
  SafeWF B T t -> mask t <> 0 -> index < nb T t -> is_full (byte T t index) = true ->
  slot T t index = Some e ->
  exists t', replace_bucket_with B T t index f =
               Ok (t', match f e with Some _ => true | None => false end, e) /\
             SafeWF B T t' /\ mask t' = mask t.
Proof. exact replace_never_fails. Qed.

(* with the full invariant: the closure of replace_entry_with keeps the key, hence the hash *)
Theorem C14_replace_with_some_keeps_WF :
  forall (B : backend) (T : Type), WidthOK B ->
  forall (h : T -> option Z) (t : table T) (index : nat) (f : T -> option T) (e e' : T),
  WF B T h t -> mask t <> 0 -> index < nb T t -> is_full (byte T t index) = true ->
  slot T t index = Some e -> f e = Some e' -> h e' = h e ->
  exists t', replace_bucket_with B T t index f = Ok (t', true, e) /\
    slot_write T t index e' = Ok t' /\ WF B T h t'.
Proof. exact replace_some_WF. Qed.

Print Assumptions C14_replace_with_some_is_overwrite.
Print Assumptions C14_replace_with_none_is_remove.
Print Assumptions C14_replace_with_never_fails.
Print Assumptions C14_replace_with_some_keeps_WF.
