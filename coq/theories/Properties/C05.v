(* C05 -- Broken Hash/Eq implementations cannot cause undefined behaviour.
   Only property theorems.  The safety theorem of the model makes NO assumption on the hash
   function: `hash_of : Z -> option Z` is arbitrary (unrelated to key equality, constant,
   panicking on any key) and in the history form it is chosen anew at every step, so the hashes
   used to place an element and the hashes used later to look it up, rehash it or resize the
   table need not agree.  Conclusion: every operation returns (no loop runs out of the fuel the
   code relies on), never reaches a checked unsafe precondition, and leaves a table in which
   len() = number of stored elements = number of elements an iterator / drain yields. *)
From Coq Require Import ZArith List Bool.
From HB Require Import RsPrelude Sse2 Gen Group Raw Map Check WFDefs MapDefs RawOpsSafe MapStepSafe IterFacts.
Import ListNotations.

Theorem C05_any_hasher_step :
  forall (B : backend) (tsize talign : Z) (needs_drop : bool) (hash_of : Z -> option Z) (alloc_refuses : bool)
         (t : table kv) (op : map_op),
  WidthOK B -> BackendSpec B -> LayoutOK tsize talign -> op_args_ok op ->
  SafeWF B kv t -> TOwn B kv tsize talign t ->
  match map_step B tsize talign needs_drop true hash_of alloc_refuses t op with
  | Ok (t', o, evs) => SafeWF B kv t' /\ TOwn B kv tsize talign t'
  | Fail e => benign e
  end.
Proof. exact map_step_safe. Qed.

Theorem C05_inconsistent_hasher_history :
  forall (B : backend) (tsize talign : Z) (needs_drop : bool)
         (ops : list (map_op * bool * (Z -> option Z))),
  WidthOK B -> BackendSpec B -> LayoutOK tsize talign ->
  (forall op, In op (map (fun x => fst (fst x)) ops) -> op_args_ok op) ->
  match run_var B tsize talign needs_drop (new_table B kv) ops with
  | Ok t' => SafeWF B kv t' /\ TOwn B kv tsize talign t'
  | Fail e => benign e
  end.
Proof. exact run_var_safe. Qed.

(* in any such state, iteration yields exactly len() elements *)
Theorem C05_len_is_iteration_count :
  forall (B : backend) (T : Type), WidthOK B -> BackendSpec B -> forall t : table T, SafeWF B T t ->
  (exists it, iter_new B T t = Ok it /\ iter_all B T t it = Ok (full_list t)) /\
  items t = Z.of_nat (length (full_list t)).
Proof.
  exact (fun B T HW HB t H => conj (iter_exact B T HW HB t H) (items_full_list B T HW t H)).
Qed.

Print Assumptions C05_any_hasher_step.
Print Assumptions C05_inconsistent_hasher_history.
Print Assumptions C05_len_is_iteration_count.
