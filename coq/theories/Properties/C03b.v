(* C03b -- "Every block obtained from the allocator is returned exactly once with the layout it was
   requested with" for WHOLE HISTORIES (companion of C03.v, whose theorems are per raw operation).
   Only property theorems (proofs: Proofs/AllocBalance.v).

     allocs log / frees log   the (size, align) of the allocation / release events of a log, in order
     blk t                    the block the table holds now: [] for a table that never allocated,
                              [(size, align)] of its layout otherwise
     run_log                  a history: every step has its own operation, its own hasher (ANY
                              function, it may panic on any key) and its own allocator answer; the
                              event log is accumulated

   For both scanners, every element layout, every operation of `map_step` (HashMap and HashSet:
   insert, the entry families, remove, retain, extract_if, drain, extend, reserve, try_reserve,
   shrink_to, clear, with_capacity, drop, the set operations ...) from ANY valid table:

   * C03b_every_operation_is_balanced: requests of the step + the block held before = releases of
     the step + the block held after, as multisets of (size, align) -- also when the hasher panics
     inside a resize (the new block is released again) or inside an in-place rehash;
   * C03b_every_history_is_balanced: for every history from HashMap::new(), of any length: every
     block ever requested has been released exactly once with the layout it was requested with,
     except the one block the map holds now;
   * C03b_nothing_outstanding_after_drop: if the history ends with the map dropped (or shrunk to
     the unallocated state), requests and releases match one to one: nothing leaked, nothing
     released twice, no release with a different layout. *)
From Coq Require Import ZArith List Bool Permutation.
From HB Require Import RsPrelude Sse2 Gen Group Raw Map Table Check WFDefs RawOpsSafe MapDefs TableStepSafe AllocBalance AllocBalanceT.
Import ListNotations.

Theorem C03b_every_operation_is_balanced :
  forall B, WidthOK B -> BackendSpec B -> forall tsize talign, LayoutOK tsize talign ->
  forall needs_drop hash_of alloc_refuses (t : table kv) op t' o evs,
  op_args_ok op -> SafeWF B kv t -> TOwn B kv tsize talign t ->
  map_step B tsize talign needs_drop true hash_of alloc_refuses t op = Ok (t', o, evs) ->
  Permutation (allocs evs ++ blk B tsize talign t) (frees evs ++ blk B tsize talign t').
Proof. exact map_step_bal. Qed.

Theorem C03b_every_history_is_balanced :
  forall B, WidthOK B -> BackendSpec B -> forall tsize talign, LayoutOK tsize talign ->
  forall needs_drop (ops : list (map_op * bool * (Z -> option Z))) t' log,
  (forall x, In x ops -> op_args_ok (fst (fst x))) ->
  run_log B tsize talign needs_drop (new_table B kv) ops [] = Ok (t', log) ->
  Permutation (allocs log) (frees log ++ blk B tsize talign t').
Proof. exact history_balanced. Qed.

Theorem C03b_nothing_outstanding_after_drop :
  forall B, WidthOK B -> BackendSpec B -> forall tsize talign, LayoutOK tsize talign ->
  forall needs_drop (ops : list (map_op * bool * (Z -> option Z))) t' log,
  (forall x, In x ops -> op_args_ok (fst (fst x))) ->
  run_log B tsize talign needs_drop (new_table B kv) ops [] = Ok (t', log) -> mask t' = 0 ->
  Permutation (allocs log) (frees log).
Proof. exact dropped_history_releases_everything. Qed.

(* the same for HashTable (table_step: find / find_mut / find_entry+remove / remove + re-insertion
   through the vacant entry / entry / insert_unique / retain / extract_if / drain / clear / reserve /
   try_reserve / shrink_to / shrink_to_fit / get_many_mut / iter_hash / iter / with_capacity / drop),
   with caller-supplied hashes that may be anything *)
Theorem C03b_every_table_operation_is_balanced :
  forall B, WidthOK B -> BackendSpec B -> forall tsize talign, LayoutOK tsize talign ->
  forall needs_drop hash_of alloc_refuses (t : table kv) op t' o evs,
  top_args_ok op -> SafeWF B kv t -> TOwn B kv tsize talign t ->
  table_step B tsize talign needs_drop true hash_of alloc_refuses t op = Ok (t', o, evs) ->
  Permutation (allocs evs ++ blk B tsize talign t) (frees evs ++ blk B tsize talign t').
Proof. exact table_step_bal. Qed.

Theorem C03b_every_table_history_is_balanced :
  forall B, WidthOK B -> BackendSpec B -> forall tsize talign, LayoutOK tsize talign ->
  forall needs_drop (ops : list (tbl_op * bool * (Z -> option Z))) t' log,
  (forall x, In x ops -> top_args_ok (fst (fst x))) ->
  trun_log B tsize talign needs_drop (new_table B kv) ops [] = Ok (t', log) ->
  Permutation (allocs log) (frees log ++ blk B tsize talign t').
Proof. exact table_history_balanced. Qed.

(* non-vacuity: growth through three table sizes under an all-colliding hasher, a shrink, a large
   reserve, the drop: five blocks requested, the same five released *)
Example C03b_example :
  match run_log sse2_backend 24 8 true (new_table sse2_backend kv)
          (map (fun op => (op, false, fun _ : Z => Some 0%Z))
               ([OpInsert 1 0 0; OpInsert 2 0 0; OpInsert 3 0 0; OpInsert 4 0 0; OpInsert 5 0 0; OpInsert 6 0 0;
                 OpInsert 7 0 0; OpInsert 8 0 0; OpRemove 3; OpShrinkToFit; OpReserve 100; OpDropMap])) [] with
  | Ok (t, log) => mask t = 0 /\ allocs log = [(116, 16); (216, 16); (416, 16); (216, 16); (3216, 16)]%Z /\
                   frees log = allocs log
  | Fail _ => False
  end.
Proof. vm_compute. repeat split. Qed.

Print Assumptions C03b_every_operation_is_balanced.
Print Assumptions C03b_every_history_is_balanced.
Print Assumptions C03b_nothing_outstanding_after_drop.
Print Assumptions C03b_every_table_operation_is_balanced.
Print Assumptions C03b_every_table_history_is_balanced.
