(* C14 -- Entry-style APIs agree with plain lookup/insert/remove, even at full load.
   Only property theorems.  For the entry operations of the model (HashMap::entry followed by
   insert / or_insert / and_modify+or_insert / remove_entry / dropping the entry; try_insert;
   HashSet::get_or_insert / get_or_insert_with / replace; `^=`'s find-or-slot step) the
   reference semantics `spec_accepts` is written purely with lookup / put / delete of the
   association list -- i.e. the equivalent get/insert/remove sequence -- and the refinement
   theorem holds from EVERY valid state: in particular when growth_left = 0 (capacity() = len()),
   when every non-FULL byte but one is a tombstone, and for the unallocated singleton, because
   the hypothesis is just the invariant WF. *)
From Coq Require Import ZArith List Bool Permutation.
From HB Require Import RsPrelude Sse2 Gen Group Raw Map Check AssocSpec WFDefs MapDefs RawOpsSafe MapRefineBase MapStepRefine.
Import ListNotations.

Definition entry_op (op : map_op) : Prop :=
  match op with
  | OpTryInsert _ _ _ | OpEntryOrInsert _ _ _ | OpEntryInsert _ _ _ | OpEntryRemove _ _
  | OpEntryAndModify _ _ _ _ | OpEntryDrop _ _
  | OpSetReplace _ _ | OpSetGetOrInsert _ _ | OpSetGetOrInsertWith _ _ _ | OpSetToggle _ _ => True
  | _ => False
  end.

Lemma entry_op_covered op : entry_op op -> not_set_insert op.
Proof. destruct op; cbn; tauto. Qed.

Theorem C14_entry_agrees :
  forall B tsize talign needs_drop hash_of alloc_refuses (t : table kv) (s : spec) (op : map_op) t' o evs,
  WidthOK B -> BackendSpec B -> LayoutOK tsize talign -> TotalHash hash_of -> op_args_ok op ->
  entry_op op ->
  WF B kv (fun e => hash_of (k_id e)) t -> TOwn B kv tsize talign t -> AbsRel t s ->
  map_step B tsize talign needs_drop true hash_of alloc_refuses t op = Ok (t', o, evs) ->
  is_unwind o = false /\
  exists s', spec_accepts s op o = Some s' /\
             WF B kv (fun e => hash_of (k_id e)) t' /\ TOwn B kv tsize talign t' /\ AbsRel t' s'.
Proof.
  exact (fun B ts ta nd h ar t s op t' o evs HW HB HL HT HA HE =>
           map_step_refines_covered B ts ta nd h ar t s op t' o evs HW HB HL HT HA (entry_op_covered op HE)).
Qed.

(* what the reference demands of the entry operations, spelled out: Occupied exactly when the
   key is present; the effect is that of the get / insert / remove expansion *)
Theorem C14_entry_semantics : forall (s : spec) k stamp v,
  (spec_accepts s (OpEntryDrop k stamp) (OutBool (match lookup s k with Some _ => true | None => false end)) = Some s) /\
  (lookup s k = None -> spec_accepts s (OpEntryOrInsert k stamp v) (OutVal v) = Some (put s (mkKV k stamp v))) /\
  (forall e, lookup s k = Some e -> spec_accepts s (OpEntryOrInsert k stamp v) (OutVal (v_val e)) = Some s) /\
  (forall e, lookup s k = Some e -> spec_accepts s (OpEntryRemove k stamp) (OutKV (k_stamp e) (v_val e)) = Some (delete s k)) /\
  (lookup s k = None -> spec_accepts s (OpEntryRemove k stamp) OutNone = Some s).
Proof.
  intros s k stamp v. unfold spec_accepts, expect.
  repeat split; intros; repeat match goal with H : lookup s k = _ |- _ => rewrite H end;
    cbn [out_eqb]; rewrite ?Z.eqb_refl, ?Bool.eqb_reflx; cbn [andb]; try reflexivity.
Qed.

Print Assumptions C14_entry_agrees.
Print Assumptions C14_entry_semantics.
