(* C09 -- Every iterator yields each element exactly once with exact length reporting.
   Only property theorems.  `iter_new`/`iter_next`/`iter_fold` are the model of RawIter
   (RawIterRange::next_impl / fold_impl, driven by the `items` countdown), on which every
   borrowing, owning and draining iterator of HashMap / HashSet / HashTable is a projection;
   `full_list t` is the ascending list of FULL buckets, `occupants t` their elements.
   Quantified over EVERY table satisfying SafeWF: any occupancy / tombstone pattern, any size
   (singleton, smaller than a group, many groups), any element type, both scanners. *)
From Coq Require Import ZArith List Bool.
From HB Require Import RsPrelude Sse2 Gen Group Raw Check WFDefs IterFacts SafeAllocClear.
Import ListNotations.

Section C09.
  Variable B : backend.
  Variable T : Type.
  Hypothesis HW : WidthOK B.
  Hypothesis HB : BackendSpec B.

  (* every stored element exactly once, nothing else, never a fault *)
  Theorem C09_iter_exact : forall t, SafeWF B T t ->
    exists it, iter_new B T t = Ok it /\ iter_all B T t it = Ok (full_list t).
  Proof. exact (iter_exact B T HW HB). Qed.

  (* the yielded buckets are exactly the stored elements, in order *)
  Theorem C09_elements : forall t, SafeWF B T t ->
    occupants T t = flat_map (fun i => opt_list (nth i (slots t) None)) (full_list t).
  Proof. exact (occupants_full_list B T HW). Qed.

  (* at every step: the first n results are the first n elements, the length report
     (size_hint = len = it_items) is the exact remaining count, fold visits exactly the rest,
     and after exhaustion next() keeps returning None *)
  Theorem C09_steps : forall t it0, SafeWF B T t -> iter_new B T t = Ok it0 ->
    forall n, exists it_n,
      iter_steps B T n t it0 = Ok (firstn n (full_list t), it_n) /\
      it_items it_n = Z.of_nat (length (full_list t) - n) /\
      iter_fold B T t it_n = Ok (skipn n (full_list t)) /\
      (length (full_list t) <= n -> iter_next B T t it_n = Ok (None, it_n)).
  Proof. exact (iter_steps_exact B T HW HB). Qed.

  (* len() = number of elements *)
  Theorem C09_len : forall t, SafeWF B T t -> items t = Z.of_nat (length (full_list t)).
  Proof. exact (items_full_list B T HW). Qed.

  (* default-constructed iterators (over the static singleton) are empty *)
  Theorem C09_default_empty : items (new_table B T) = 0%Z /\ full_list (new_table B T) = [].
  Proof. exact (items_singleton B T HW). Qed.
End C09.

Print Assumptions C09_iter_exact.
Print Assumptions C09_elements.
Print Assumptions C09_steps.
Print Assumptions C09_len.
Print Assumptions C09_default_empty.
