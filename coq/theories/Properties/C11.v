(* C11 -- clone / clone_from yield an equal, independently owned copy; == ignores layout, capacity,
   history and hasher state and is symmetric.
   Only property theorems (proofs: Proofs/CloneFacts.v).  `clone_of e = None` models a panicking
   Clone impl, `drop_ok e = false` a panicking destructor; T is any element type; the tables are
   ANY valid states (SafeWF: every size from the singleton on, any tombstone pattern).
   Independence: model tables are values, so "later changes to the source do not affect the clone"
   is the statement that the clone owns its OWN block (TOwn: its own allocation event) and that
   every element is a fresh clone (Forall2 Cloned) -- aliasing of buckets between the two Rust
   tables is what the harness rules out (distinct block addresses, registry of live objects). *)
From Coq Require Import ZArith List Bool Permutation.
From HB Require Import RsPrelude Sse2 Gen Group Raw Map Check WFDefs SafeAllocClear RawOpsSafe AssocSpec Clone CloneFacts.
Import ListNotations.

Definition ElemLayoutOK (tsize talign : Z) : Prop :=
  (0 <= tsize < 2 ^ 64)%Z /\ exists a : Z, (0 <= a <= 62)%Z /\ talign = (2 ^ a)%Z.

(* RawTable::clone: never fails; if no Clone panics the result is a valid table owning a fresh
   block of the source's size whose control bytes, counters and slot-by-slot contents are the
   source's (each element the clone of the element in the same bucket); if a Clone panics the
   fresh block is freed again and nothing else happened. *)
Theorem C11_clone :
  forall B T tsize talign (clone_of : T -> option T) (src : table T),
  WidthOK B -> BackendSpec B -> ElemLayoutOK tsize talign ->
  SafeWF B T src -> TOwn B T tsize talign src ->
  exists res evs, clone_table B T tsize talign clone_of src = Ok (res, evs) /\
    (forall r, res = Some r -> (forall e, In e (occupants T src) -> clone_of e <> None) /\
       SafeWF B T r /\ TOwn B T tsize talign r /\ CloneOf B T clone_of src r) /\
    (res = None -> mask src <> 0 /\ exists e, In e (occupants T src) /\ clone_of e = None) /\
    (mask src = 0 -> evs = []) /\
    (mask src <> 0 -> exists len al off, layout_for B tsize talign (nb T src) = Some (len, al, off) /\
       ValidLayout len al /\
       evs = match res with Some _ => [EvAlloc len al] | None => [EvAlloc len al; EvFree len al] end).
Proof.
  exact (fun B T ts ta c src HW HB HL => clone_table_spec B T HW HB ts ta (proj1 HL) (proj2 HL) c src).
Qed.

(* RawTable::clone_from into a target in ANY valid state (empty, smaller, same size, larger, with
   tombstones): never fails; the old elements are dropped (each at most once, in iteration order),
   the block is replaced exactly when the bucket counts differ, and the result is the clone of the
   source; on a panic (destructor or Clone) the result is an EMPTY valid table. *)
Theorem C11_clone_from :
  forall B T tsize talign needs_drop (drop_ok : T -> bool) (clone_of : T -> option T) (self src : table T),
  WidthOK B -> BackendSpec B -> ElemLayoutOK tsize talign ->
  SafeWF B T self -> TOwn B T tsize talign self -> SafeWF B T src -> TOwn B T tsize talign src ->
  exists r evs unw, clone_from B T tsize talign needs_drop drop_ok clone_of self src = Ok (r, evs, unw) /\
    SafeWF B T r /\ TOwn B T tsize talign r /\
    (unw = false -> (forall e, In e (occupants T src) -> clone_of e <> None) /\ CloneOf B T clone_of src r /\
       evs = all_drops T needs_drop self ++ realloc_evs B T tsize talign self src) /\
    (unw = true -> occupants T r = [] /\ items r = 0%Z /\
       ((DropPanicked T needs_drop drop_ok self evs /\ (mask r = mask self \/ mask r = mask src)) \/
        ((exists e, In e (occupants T src) /\ clone_of e = None) /\ mask src <> 0 /\ mask r = mask src /\
         evs = all_drops T needs_drop self ++ realloc_evs B T tsize talign self src))).
Proof.
  exact (fun B T ts ta nd d c self src HW HB HL =>
           clone_from_spec B T HW HB ts ta (proj1 HL) (proj2 HL) nd d c self src).
Qed.

(* what "CloneOf" says, so that the statement above can be read without the proof file *)
Theorem C11_CloneOf_meaning :
  forall B T (clone_of : T -> option T) (src r : table T), CloneOf B T clone_of src r ->
  mask r = mask src /\ ctrl r = ctrl src /\ items r = items src /\ growth_left r = growth_left src /\
  (forall i, slot T r i = oclone T clone_of (slot T src i)) /\
  Forall2 (Cloned T clone_of) (occupants T src) (occupants T r) /\
  (forall h, HashCompat T clone_of h -> WF B T h src -> WF B T h r).
Proof. exact (fun B T c src r H => H). Qed.

(* == : exactly "same keys with equal values", for any two iteration orders (hence any layout,
   capacity, removal history and hasher state: those only permute the lists); symmetric. *)
Theorem C11_eq_exact : forall a b : list kv,
  NoDup (map k_id a) -> NoDup (map k_id b) -> (map_eq a b = true <-> same_kv a b).
Proof. exact map_eq_spec. Qed.

Theorem C11_eq_symmetric : forall a b : list kv,
  NoDup (map k_id a) -> NoDup (map k_id b) -> map_eq a b = map_eq b a.
Proof. exact map_eq_sym. Qed.

Theorem C11_eq_ignores_order : forall a a' b b' : list kv,
  NoDup (map k_id a) -> NoDup (map k_id b) -> Permutation a a' -> Permutation b b' ->
  map_eq a b = map_eq a' b'.
Proof. exact map_eq_perm. Qed.

(* a clone compares equal to its source (kv elements whose Clone preserves key and value) *)
Theorem C11_clone_compares_equal :
  forall B (clone_of : kv -> option kv) (src r : table kv),
  (forall e c, clone_of e = Some c -> k_id c = k_id e /\ v_val c = v_val e) ->
  CloneOf B kv clone_of src r -> NoDup (map k_id (occupants kv src)) ->
  map_eq (occupants kv src) (occupants kv r) = true /\ map_eq (occupants kv r) (occupants kv src) = true.
Proof. exact clone_compares_equal. Qed.

Print Assumptions C11_clone.
Print Assumptions C11_clone_from.
Print Assumptions C11_CloneOf_meaning.
Print Assumptions C11_eq_exact.
Print Assumptions C11_eq_symmetric.
Print Assumptions C11_eq_ignores_order.
Print Assumptions C11_clone_compares_equal.
