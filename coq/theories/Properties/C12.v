(* C12 -- try_reserve reports failure without panic, change or leak.
   Only property theorems.  `try_reserve` is the model of RawTable::try_reserve ->
   reserve_rehash(Fallible) with the overflow checks, the in-place-vs-resize decision and the
   layout computation GENERATED from raw/mod.rs; `alloc_refuses` = the allocator refuses the
   request.  Quantified over every valid table state, every `additional` in [0, 2^64), every
   element layout (incl. size 0), every hasher, both allocator answers. *)
From Coq Require Import ZArith List Bool Permutation.
From HB Require Import RsPrelude Sse2 Gen Group Raw Check WFDefs RawOpsSafe SafeAllocClear.
Import ListNotations.
Open Scope Z_scope.

Section C12.
  Variable B : backend.
  Variable T : Type.
  Hypothesis HW : WidthOK B.
  Hypothesis HB : BackendSpec B.
  Variable tsize talign : Z.
  Hypothesis Hts : 0 <= tsize < 2 ^ 64.
  Hypothesis Hta : exists a, 0 <= a <= 62 /\ talign = 2 ^ a.
  Variable needs_drop : bool.
  Variable hasher : T -> option Z.

  (* it always returns a value: never panics, aborts or reaches undefined behaviour *)
  Theorem C12_never_panics : forall t additional alloc_refuses,
    SafeWF B T t -> TOwn B T tsize talign t -> 0 <= additional < 2 ^ 64 ->
    exists r, try_reserve B T tsize talign needs_drop hasher true t additional alloc_refuses = Ok r.
  Proof.
    exact (fun t a ar H1 H2 H3 => proj1 (proj2 (try_reserve_spec B T HW HB tsize talign Hts Hta needs_drop hasher t a ar H1 H2 H3))).
  Qed.

  (* on an error: the table is EQUAL to the pre-state, nothing was allocated, freed or dropped;
     AllocError only when the allocator refused, with a valid layout; otherwise the size is not
     representable *)
  Theorem C12_error_changes_nothing : forall t additional alloc_refuses t' evs tr unw,
    SafeWF B T t -> TOwn B T tsize talign t -> 0 <= additional < 2 ^ 64 ->
    try_reserve B T tsize talign needs_drop hasher true t additional alloc_refuses = Ok (t', evs, tr, unw) ->
    tr <> TR_ok ->
    t' = t /\ evs = [] /\ unw = false /\
    match tr with
    | TR_alloc_error len al => alloc_refuses = true /\ ValidLayout len al
    | _ => CapOverflow B T tsize talign t additional
    end.
  Proof. exact (try_reserve_error B T HW HB tsize talign Hts Hta needs_drop hasher). Qed.

  (* on success: room for `additional` more elements, same contents *)
  Theorem C12_success_reserves : forall t additional alloc_refuses t' evs,
    SafeWF B T t -> TOwn B T tsize talign t -> 0 <= additional < 2 ^ 64 ->
    try_reserve B T tsize talign needs_drop hasher true t additional alloc_refuses = Ok (t', evs, TR_ok, false) ->
    items t' + additional <= capacity T t' /\ items t' = items t /\
    Permutation (occupants T t') (occupants T t).
  Proof. exact (try_reserve_capacity B T HW HB tsize talign Hts Hta needs_drop hasher). Qed.

  (* the full post-condition (valid table afterwards, shape of the allocator traffic: at most
     one request with a valid layout, the old block freed with its own layout) *)
  Theorem C12_post : forall t additional alloc_refuses,
    SafeWF B T t -> TOwn B T tsize talign t -> 0 <= additional < 2 ^ 64 ->
    reserve_post B T tsize talign needs_drop hasher t additional alloc_refuses Fallible
      (try_reserve B T tsize talign needs_drop hasher true t additional alloc_refuses).
  Proof.
    exact (fun t a ar H1 H2 H3 => proj1 (try_reserve_spec B T HW HB tsize talign Hts Hta needs_drop hasher t a ar H1 H2 H3)).
  Qed.
End C12.

Print Assumptions C12_never_panics.
Print Assumptions C12_error_changes_nothing.
Print Assumptions C12_success_reserves.
Print Assumptions C12_post.
