(* C02 -- Safe API is memory-safe for every program, element layout and hasher.
   Only property theorems.  `map_step` is the model of every HashMap / HashSet operation in which
   every `unsafe` primitive of raw/mod.rs is CHECKED (control-byte index, group load bounds and
   alignment, element slot bounds / initialisation, unwrap_unchecked, unreachable_unchecked,
   writes to / frees of the static singleton, loop fuel).  `benign` = the two documented library
   panics of the infallible allocation paths (capacity overflow, allocation failure).
   Quantified over: both scanners (any BackendSpec back-end), every element layout
   (0 <= size < 2^64, any power-of-two alignment up to 2^62, with or without drop glue), EVERY
   hasher (any function, may panic on any key, may change at every step), every allocator
   behaviour, every finite history. *)
From Coq Require Import ZArith List Bool.
From HB Require Import RsPrelude Sse2 Gen Group Raw Map Check WFDefs MapDefs RawOpsSafe MapStepSafe.
Import ListNotations.

(* one step: from a valid table every operation returns with a valid table (SafeWF: shape, valid
   control bytes, mirror bytes, len() = number of FULL buckets = number of initialised slots, at
   least one EMPTY byte; TOwn: it owns exactly the block its layout describes, or none) *)
Theorem C02_step_safe :
  forall (B : backend) (tsize talign : Z) (needs_drop : bool) (hash_of : Z -> option Z) (alloc_refuses : bool)
         (t : table kv) (op : map_op),
  WidthOK B -> BackendSpec B -> LayoutOK tsize talign -> op_args_ok op ->
  SafeWF B kv t -> TOwn B kv tsize talign t ->
  match map_step B tsize talign needs_drop true hash_of alloc_refuses t op with
  | Ok (t', o, evs) => SafeWF B kv t' /\ TOwn B kv tsize talign t'
  | Fail e => benign e
  end.
Proof. exact map_step_safe. Qed.

(* every finite history from HashMap::new(), the hasher and the allocator's answer chosen anew
   at every step *)
Theorem C02_history_safe :
  forall (B : backend) (tsize talign : Z) (needs_drop : bool)
         (ops : list (map_op * bool * (Z -> option Z))),
  WidthOK B -> BackendSpec B -> LayoutOK tsize talign ->
  (forall op, In op (map (fun x => fst (fst x)) ops) -> op_args_ok op) ->
  match run_var B tsize talign needs_drop (new_table B kv) ops with
  | Ok t' => SafeWF B kv t' /\ TOwn B kv tsize talign t'
  | Fail e => benign e
  end.
Proof. exact run_var_safe. Qed.

(* len() is exact in every reachable state *)
Theorem C02_len_exact :
  forall B tsize talign needs_drop hash_of (ops : list (map_op * bool)),
  WidthOK B -> BackendSpec B -> LayoutOK tsize talign ->
  (forall op, In op (map fst ops) -> op_args_ok op) ->
  match run B tsize talign needs_drop hash_of (new_table B kv) ops with
  | Ok t' => items t' = Z.of_nat (length (occupants kv t'))
  | Fail e => benign e
  end.
Proof. exact run_len_exact. Qed.

Print Assumptions C02_step_safe.
Print Assumptions C02_history_safe.
Print Assumptions C02_len_exact.
