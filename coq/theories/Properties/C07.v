(* C07 -- HashSet and its set algebra equal mathematical sets for all pairs of sets.
   Only property theorems here.  SetAlg.union/intersection/difference/symmetric_difference and
   the predicates are the iterator pipelines of src/set.rs over the two sets' iteration-order
   element lists (any order, any layout); the strategy-choosing size comparisons are the
   expressions GENERATED from set.rs.  A list represents a set when its keys are pairwise
   distinct (KNoDup) -- which is what C01/C09 establish for the iteration of any HashSet.
   `KIn x l` : some element of l has x's key. *)
From Coq Require Import ZArith List Bool.
From HB Require Import RsPrelude Gen SetAlg SetAlgFacts.
Open Scope Z_scope.

Section C07.
  Variable E : Type.
  Variable key : E -> Z.
  Notation KIn x l := (exists y, In y l /\ key y = key x).
  Notation KNoDup := (KNoDup E key).

  Theorem C07_union : forall a b, KNoDup a -> KNoDup b ->
    KNoDup (union E key a b) /\ forall x, KIn x (union E key a b) <-> KIn x a \/ KIn x b.
  Proof. intros a b Ha Hb. split; [exact (union_nodup E key a b Ha Hb)|exact (union_spec E key a b)]. Qed.

  Theorem C07_intersection : forall a b, KNoDup a -> KNoDup b ->
    KNoDup (intersection E key a b) /\ forall x, KIn x (intersection E key a b) <-> KIn x a /\ KIn x b.
  Proof. intros a b Ha Hb. split; [exact (intersection_nodup E key a b Ha Hb)|exact (intersection_spec E key a b)]. Qed.

  Theorem C07_difference : forall a b, KNoDup a ->
    KNoDup (difference E key a b) /\ forall x, In x (difference E key a b) <-> In x a /\ ~ KIn x b.
  Proof. intros a b Ha. split; [exact (difference_nodup E key a b Ha)|exact (difference_spec E key a b)]. Qed.

  Theorem C07_symmetric_difference : forall a b, KNoDup a -> KNoDup b ->
    KNoDup (symmetric_difference E key a b) /\
    forall x, In x (symmetric_difference E key a b) <-> (In x a /\ ~ KIn x b) \/ (In x b /\ ~ KIn x a).
  Proof. intros a b Ha Hb. split; [exact (symmetric_difference_nodup E key a b Ha Hb)|exact (symmetric_difference_spec E key a b)]. Qed.

  Theorem C07_is_subset : forall a b, KNoDup a -> KNoDup b ->
    (is_subset E key a b = true <-> forall x, In x a -> KIn x b).
  Proof. exact (is_subset_spec E key). Qed.

  Theorem C07_is_superset : forall a b, KNoDup a -> KNoDup b ->
    (is_superset E key a b = true <-> forall x, In x b -> KIn x a).
  Proof. intros a b Ha Hb. exact (is_subset_spec E key b a Hb Ha). Qed.

  Theorem C07_is_disjoint : forall a b,
    (is_disjoint E key a b = true <-> forall x, In x a -> ~ KIn x b).
  Proof. exact (is_disjoint_spec E key). Qed.

  (* == : same keys, regardless of order / layout; symmetric by the shape of the statement *)
  Theorem C07_eq : forall a b, KNoDup a -> KNoDup b ->
    (set_eq E key a b = true <-> (forall x, In x a -> KIn x b) /\ (forall x, In x b -> KIn x a)).
  Proof. exact (set_eq_spec E key). Qed.

  (* Difference::size_hint encloses the number of elements still to come *)
  Theorem C07_difference_size_hint : forall rest b, KNoDup rest -> KNoDup b ->
    let '(lo, hi) := difference_size_hint E (len E rest) b in
    lo <= len E (difference E key rest b) <= hi.
  Proof. exact (difference_size_hint_sound E key). Qed.
End C07.

Print Assumptions C07_union.
Print Assumptions C07_intersection.
Print Assumptions C07_difference.
Print Assumptions C07_symmetric_difference.
Print Assumptions C07_is_subset.
Print Assumptions C07_is_superset.
Print Assumptions C07_is_disjoint.
Print Assumptions C07_eq.
Print Assumptions C07_difference_size_hint.
