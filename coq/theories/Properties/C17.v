(* C17 -- Capacity and layout arithmetic is total and overflow-free.
   This file contains only the property theorems; each is closed by `exact <lemma>`.
   All functions mentioned (capacity_to_buckets, bucket_mask_to_capacity, calculate_layout_for,
   probe_move_next) are the definitions GENERATED from /repo/src/raw/mod.rs in Gen.v. *)
From Coq Require Import ZArith List.
From HB Require Import RsPrelude Sse2 Gen ArithFacts Triangular.
Open Scope Z_scope.

(* Every requested capacity, every element size, both group widths: overflow is reported,
   otherwise a power-of-two bucket count >= 4 whose usable capacity covers the request and is
   strictly below the bucket count; nothing wraps (b <= 2^62). *)
Theorem C17_cap_to_buckets : forall GW cap tsize talign,
  (GW = 8 \/ GW = 16) -> 1 <= cap < 2 ^ 64 -> 0 <= tsize ->
  match capacity_to_buckets GW cap tsize talign with
  | None => 15 <= cap /\ 2 ^ 64 <= cap * 8
  | Some b =>
      (cap < 15 \/ cap * 8 < 2 ^ 64) /\
      (exists k, 2 <= k <= 62 /\ b = 2 ^ k) /\
      cap <= bucket_mask_to_capacity (b - 1) < b /\
      (1 <= tsize -> GW <= b * tsize)
  end.
Proof. exact capacity_to_buckets_spec. Qed.

(* One slot always stays empty, for every table size 2^1 .. 2^63. *)
Theorem C17_cap_lt_buckets : forall k, 1 <= k <= 63 ->
  0 < bucket_mask_to_capacity (2 ^ k - 1) < 2 ^ k.
Proof. exact cap_lt_buckets. Qed.

(* The layout computation equals the mathematical layout or reports overflow; no intermediate
   value wraps.  Quantified over every element size < 2^64, every power-of-two alignment
   >= the group width, every power-of-two bucket count up to 2^62. *)
Theorem C17_layout_exact : forall GW size j k,
  (GW = 8 \/ GW = 16) -> 0 <= size < 2 ^ 64 -> 0 <= j <= 62 -> GW <= 2 ^ j -> 0 <= k <= 62 ->
  calculate_layout_for GW size (2 ^ j) (2 ^ k) = layout_result GW size (2 ^ j) (2 ^ k).
Proof. exact calculate_layout_for_spec. Qed.

(* A successful layout is aligned, has room for every element and every control byte including
   the mirrored group, and stays within isize::MAX after alignment padding. *)
Theorem C17_layout_ok : forall GW size a b len al off,
  (GW = 8 \/ GW = 16) -> 0 <= size -> 0 < a -> GW <= a -> 0 < b ->
  layout_result GW size a b = Some ((len, al), off) ->
  al = a /\ (a | off) /\ size * b <= off /\ off < size * b + a /\
  len = off + b + GW /\ len <= isize_max - (a - 1) /\ len + (a - 1) < 2 ^ 63.
Proof. exact layout_result_ok. Qed.

(* The probe sequence as computed by ProbeSeq::move_next: closed form without wrap-around ... *)
Theorem C17_probe_closed_form : forall GW k p0 (n : nat),
  0 < GW <= 2 ^ 62 -> 0 <= k <= 62 -> 0 <= p0 < 2 ^ k -> Z.of_nat n * GW <= 2 ^ 62 ->
  probe_iter GW (2 ^ k - 1) n (p0, 0) =
    ((p0 + GW * tri (Z.of_nat n)) mod 2 ^ k, Z.of_nat n * GW).
Proof. exact probe_closed_form. Qed.

(* ... and it visits every group of the table exactly once before repeating, for every table
   size 2^k (k <= 62), group width 2^g <= 2^k and start position. *)
Theorem C17_probe_permutation : forall g k p0,
  0 <= g <= k -> k <= 62 -> 0 <= p0 < 2 ^ k ->
  forall r, 0 <= r < 2 ^ (k - g) ->
  exists j, 0 <= j < 2 ^ (k - g) /\
    (p0 + 2 ^ g * tri j) mod 2 ^ k = (p0 + 2 ^ g * r) mod 2 ^ k /\
    forall j', 0 <= j' < 2 ^ (k - g) ->
      (p0 + 2 ^ g * tri j') mod 2 ^ k = (p0 + 2 ^ g * r) mod 2 ^ k -> j' = j.
Proof. exact probe_permutation. Qed.

(* non-vacuity: the hypotheses are met by concrete tables *)
Example C17_example_cap : capacity_to_buckets 16 28 8 16 = Some 32 /\ bucket_mask_to_capacity 31 = 28.
Proof. split; reflexivity. Qed.
Example C17_example_layout : calculate_layout_for 16 24 16 32 = Some ((816, 16), 768).
Proof. reflexivity. Qed.

Print Assumptions C17_cap_to_buckets.
Print Assumptions C17_cap_lt_buckets.
Print Assumptions C17_layout_exact.
Print Assumptions C17_layout_ok.
Print Assumptions C17_probe_closed_form.
Print Assumptions C17_probe_permutation.
