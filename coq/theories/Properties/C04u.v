(* C04u -- companion of C04: the FULL invariant (not only the counters) after an unwound in-place
   rehash and after an unwound reserve / try_reserve.  Only property theorems (proofs:
   Proofs/RehashUnwindWF.v).  `h e = None` = hashing element e panics.  WF B T h t constrains every
   stored element on which the hasher answers: its control byte is the tag of its hash and every
   group probed before it is entirely FULL (so every lookup reaches it).  After the guard ran only
   successfully re-hashed elements remain, every one of them is findable, and no tombstone is left. *)
From Coq Require Import ZArith List Bool.
From HB Require Import RsPrelude Sse2 Gen Group Raw Map Check WFDefs MapDefs RawOpsSafe RehashSafe RehashWF RehashUnwindWF MapStepUnwindWF.
Import ListNotations.

Theorem C04_rehash_unwind_full_invariant :
  forall B T (HW : WidthOK B) (HB : BackendSpec B) (h : T -> option Z) needs_drop (t t' : table T) evs,
  SafeWF B T t -> mask t <> 0 ->
  rehash_in_place B T needs_drop h true t = Ok (t', evs, true) ->
  WF B T h t' /\
  (forall e, In e (occupants T t') -> exists hash, h e = Some hash) /\
  (forall j, j < nb T t' -> byte T t' j <> DELETED).
Proof. exact rehash_in_place_unwind_WF. Qed.

Theorem C04_reserve_unwind_full_invariant :
  forall B T (HW : WidthOK B) (HB : BackendSpec B) (h : T -> option Z) tsize talign needs_drop
         (t t' : table T) additional alloc_refuses evs tr,
  WF B T h t ->
  reserve B T tsize talign needs_drop h true t additional alloc_refuses = Ok (t', evs, tr, true) ->
  WF B T h t'.
Proof. exact (fun B T HW HB h ts ta nd => reserve_unwind_WF B T HW HB ts ta nd h). Qed.

Theorem C04_try_reserve_unwind_full_invariant :
  forall B T (HW : WidthOK B) (HB : BackendSpec B) (h : T -> option Z) tsize talign needs_drop
         (t t' : table T) additional alloc_refuses evs tr,
  WF B T h t ->
  try_reserve B T tsize talign needs_drop h true t additional alloc_refuses = Ok (t', evs, tr, true) ->
  WF B T h t'.
Proof. exact (fun B T HW HB h ts ta nd => try_reserve_unwind_WF B T HW HB ts ta nd h). Qed.

(* operation level, all 45 HashMap / HashSet operations, PARTIAL hasher (hash_of k = None: hashing key
   k panics): whenever an operation unwinds -- at the key's own hash, or inside the reserve / in-place
   rehash / resize it performs, or part-way through extend -- the FULL invariant holds afterwards *)
Theorem C04_any_operation_unwind_full_invariant :
  forall B tsize talign needs_drop hash_of alloc_refuses (t : table kv) (op : map_op) t' o evs,
  WidthOK B -> BackendSpec B -> LayoutOK tsize talign -> op_args_ok op ->
  WF B kv (fun e => hash_of (k_id e)) t -> TOwn B kv tsize talign t ->
  map_step B tsize talign needs_drop true hash_of alloc_refuses t op = Ok (t', o, evs) ->
  is_unwind o = true ->
  WF B kv (fun e => hash_of (k_id e)) t' /\ TOwn B kv tsize talign t'.
Proof. exact map_step_unwind_WF. Qed.

(* insert and extend keep the full invariant for a partial hasher WHATEVER the outcome *)
Theorem C04_extend_partial_hasher_full_invariant :
  forall B tsize talign needs_drop hash_of alloc_refuses (t : table kv) kvs t' o evs,
  WidthOK B -> BackendSpec B -> LayoutOK tsize talign -> op_args_ok (OpExtend kvs) ->
  WF B kv (fun e => hash_of (k_id e)) t -> TOwn B kv tsize talign t ->
  map_step B tsize talign needs_drop true hash_of alloc_refuses t (OpExtend kvs) = Ok (t', o, evs) ->
  WF B kv (fun e => hash_of (k_id e)) t' /\ TOwn B kv tsize talign t'.
Proof. exact map_extend_partial_WF. Qed.

Print Assumptions C04_rehash_unwind_full_invariant.
Print Assumptions C04_any_operation_unwind_full_invariant.
Print Assumptions C04_extend_partial_hasher_full_invariant.
Print Assumptions C04_reserve_unwind_full_invariant.
Print Assumptions C04_try_reserve_unwind_full_invariant.
