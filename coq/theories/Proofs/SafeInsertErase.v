(* SafeInsertErase.v -- the element-level mutators of RawTable preserve SafeWF and never fail:
   insert_in_slot (T1), erase (T2), remove / erase_drop (T3), overwriting the element of a FULL
   bucket (T4), plus the small counting facts other proofs use (T5). *)
From Coq Require Import ZArith List Bool Lia Permutation.
From HB Require Import RsPrelude Sse2 Gen Group Raw Check ArithFacts Triangular WFDefs GroupFacts ProbeFacts.
Import ListNotations.
Open Scope nat_scope.

(* ---------------------------------------------------------------------------------------- *)
(* lists of optional elements                                                                 *)
(* ---------------------------------------------------------------------------------------- *)
Section OptLists.
  Context {A : Type}.

  Definition opt_list (o : option A) : list A := match o with Some e => [e] | None => [] end.
  Definition occ (l : list (option A)) : list A := flat_map opt_list l.
  Definition is_some (o : option A) : bool := match o with Some _ => true | None => false end.
  Definition count_some (l : list (option A)) : nat := length (filter is_some l).

  Lemma occ_app l1 l2 : occ (l1 ++ l2) = occ l1 ++ occ l2.
  Proof. unfold occ. apply flat_map_app. Qed.

  Lemma occ_length l : length (occ l) = count_some l.
  Proof.
    unfold occ, count_some. induction l as [|[e|] l IH]; cbn; [reflexivity|f_equal; exact IH|exact IH].
  Qed.

  Lemma occ_In e l : In e (occ l) <-> exists i, i < length l /\ nth i l None = Some e.
  Proof.
    unfold occ. rewrite in_flat_map. split.
    - intros (o & Hin & He). destruct o as [e'|]; [|destruct He].
      destruct He as [->|[]]. destruct (In_nth l (Some e) None Hin) as (i & Hi & Ei).
      exists i. split; assumption.
    - intros (i & Hi & Ei). exists (Some e). split; [|left; reflexivity].
      rewrite <- Ei. apply nth_In. exact Hi.
  Qed.

  (* the slot at i, split out *)
  Lemma occ_split l i : i < length l ->
    occ l = occ (firstn i l) ++ opt_list (nth i l None) ++ occ (skipn (S i) l).
  Proof.
    intros Hi. rewrite (upd_split l i None Hi) at 1. rewrite occ_app. reflexivity.
  Qed.

  Lemma occ_upd l i o : i < length l ->
    occ (upd l i o) = occ (firstn i l) ++ opt_list o ++ occ (skipn (S i) l).
  Proof. intros Hi. unfold upd. rewrite occ_app. reflexivity. Qed.

  Lemma count_some_app l1 l2 : count_some (l1 ++ l2) = count_some l1 + count_some l2.
  Proof. unfold count_some. rewrite filter_app, app_length. reflexivity. Qed.

  (* slots and bytes that agree pointwise have the same count *)
  Lemma count_some_count_p (p : Z -> bool) : forall (l : list (option A)) (c : list Z),
    length l = length c ->
    (forall i, i < length l -> (nth i l None <> None <-> p (nth i c 0%Z) = true)) ->
    count_some l = count_p p c.
  Proof.
    induction l as [|o l IH]; intros c Hlen H.
    - destruct c; [reflexivity|discriminate].
    - destruct c as [|b c]; [discriminate|]. cbn [length] in Hlen.
      change (o :: l) with ([o] ++ l). rewrite count_some_app.
      rewrite count_p_cons. f_equal.
      + pose proof (H 0 ltac:(cbn; lia)) as H0. cbn [nth] in H0. unfold count_some. cbn.
        destruct o as [e|], (p b); cbn; try reflexivity.
        * destruct H0 as [H0 _]. specialize (H0 ltac:(discriminate)). discriminate.
        * destruct H0 as [_ H0]. exfalso. apply (H0 eq_refl). reflexivity.
      + apply IH; [lia|]. intros i Hi. apply (H (S i)). cbn. lia.
  Qed.

  Lemma count_p_le p (l : list Z) : count_p p l <= length l.
  Proof. unfold count_p. induction l as [|b l IH]; cbn; [lia|]. destruct (p b); cbn; lia. Qed.
End OptLists.

(* ---------------------------------------------------------------------------------------- *)
(* control bytes                                                                              *)
(* ---------------------------------------------------------------------------------------- *)
Lemma special_cases b : valid_ctrl b -> is_special b = true -> b = EMPTY \/ b = DELETED.
Proof.
  intros [H | [-> | ->]] Hs; [|right; reflexivity|left; reflexivity].
  rewrite is_special_negb_full, (is_full_small b H) in Hs. discriminate Hs.
Qed.

(* on a special (valid) byte, Tag::special_is_empty tells EMPTY from DELETED *)
Lemma special_is_empty_spec b : valid_ctrl b -> is_special b = true ->
  tag_special_is_empty b = is_empty b.
Proof. intros Hv Hs. destruct (special_cases b Hv Hs) as [-> | ->]; reflexivity. Qed.

Lemma special_is_empty_iff b : valid_ctrl b -> is_special b = true ->
  (tag_special_is_empty b = true <-> b = EMPTY).
Proof.
  intros Hv Hs. rewrite (special_is_empty_spec b Hv Hs). unfold is_empty. apply Z.eqb_eq.
Qed.

Lemma tag_full_valid hash : valid_ctrl (tag_full hash).
Proof. left. apply tag_full_range. Qed.

Lemma tag_full_is_full hash : is_full (tag_full hash) = true.
Proof. apply is_full_small, tag_full_range. Qed.

Lemma full_not_deleted b : is_full b = true -> is_deleted b = false.
Proof.
  intros H. destruct (is_deleted b) eqn:E; [|reflexivity].
  apply is_deleted_special in E. rewrite is_special_negb_full, H in E. discriminate E.
Qed.

Lemma full_not_empty b : is_full b = true -> is_empty b = false.
Proof.
  intros H. destruct (is_empty b) eqn:E; [|reflexivity].
  apply is_empty_special in E. rewrite is_special_negb_full, H in E. discriminate E.
Qed.

(* ---------------------------------------------------------------------------------------- *)
(* T5: small facts                                                                            *)
(* ---------------------------------------------------------------------------------------- *)
Section Safe.
  Variable B : backend.
  Variable T : Type.
  Hypothesis HW : WidthOK B.
  Local Notation GW := (bk_width B).

  Lemma occupants_occ (t : table T) : occupants T t = occ (slots t).
  Proof. reflexivity. Qed.

  Theorem occupants_In (t : table T) e :
    In e (occupants T t) <-> exists i, i < length (slots t) /\ slot T t i = Some e.
  Proof. rewrite occupants_occ. apply occ_In. Qed.

  Theorem occupants_length (t : table T) : length (occupants T t) = count_some (slots t).
  Proof. rewrite occupants_occ. apply occ_length. Qed.

  Lemma SafeWF_alloc t : SafeWF B T t -> mask t <> 0 -> Shape B T t /\ Mirror B T t /\ Count T t.
  Proof.
    unfold SafeWF. intros H Hm. destruct (Nat.eqb_spec (mask t) 0); [contradiction|exact H].
  Qed.

  Lemma SafeWF_of_parts t : Shape B T t -> Mirror B T t -> Count T t -> SafeWF B T t.
  Proof.
    intros HS HM HC. unfold SafeWF.
    destruct (Nat.eqb_spec (mask t) 0) as [E|_]; [exfalso; exact (Shape_mask_nz B T t HS E)|].
    exact (conj HS (conj HM HC)).
  Qed.

  Lemma Shape_nb_bound t : Shape B T t -> (2 <= zn (nb T t) <= 2 ^ 62)%Z.
  Proof. intros HS. exact (MaskOK_bounds _ (Shape_MaskOK B T t HS)). Qed.

  Lemma count_real_le p t : Shape B T t -> count_p p (real_ctrl T t) <= nb T t.
  Proof. intros HS. rewrite <- (real_ctrl_length B T t HS). apply count_p_le. Qed.

  Theorem SafeWF_items_bound t : SafeWF B T t -> (0 <= items t <= zn (nb T t))%Z.
  Proof.
    intros H. destruct (Nat.eq_dec (mask t) 0) as [E|E].
    - unfold SafeWF in H. rewrite E in H. cbn in H. subst t. cbn. unfold zn. lia.
    - destruct (SafeWF_alloc t H E) as (HS & _ & (Hit & _)).
      pose proof (count_real_le is_full t HS). rewrite Hit. unfold zn. lia.
  Qed.

  Theorem z_cap_lt_nb t : SafeWF B T t -> mask t <> 0 -> (0 < z_cap (mask t) < zn (nb T t))%Z.
  Proof.
    intros H E. destruct (SafeWF_alloc t H E) as (HS & _).
    exact (z_cap_lt (mask t) (Shape_MaskOK B T t HS)).
  Qed.

  Theorem SafeWF_growth_bound t : SafeWF B T t -> (0 <= growth_left t <= z_cap (mask t))%Z.
  Proof.
    intros H. destruct (Nat.eq_dec (mask t) 0) as [E|E].
    - unfold SafeWF in H. rewrite E in H. cbn in H. subst t. cbn. lia.
    - destruct (SafeWF_alloc t H E) as (HS & _ & (Hit & Hsum & Hgl & _)).
      unfold zn in *. lia.
  Qed.

  Lemma slots_count_full t : Shape B T t -> Count T t ->
    count_some (slots t) = count_p is_full (real_ctrl T t).
  Proof.
    intros HS (_ & _ & _ & Hsl). pose proof HS as (_ & _ & Hlen & _).
    apply count_some_count_p.
    - rewrite (real_ctrl_length B T t HS). exact Hlen.
    - intros i Hi. rewrite Hlen in Hi. rewrite (real_ctrl_nth B T t i 0%Z Hi HS). apply Hsl. exact Hi.
  Qed.

  Theorem occupants_length_items t : SafeWF B T t -> length (occupants T t) = Z.to_nat (items t).
  Proof.
    intros H. rewrite occupants_length. destruct (Nat.eq_dec (mask t) 0) as [E|E].
    - unfold SafeWF in H. rewrite E in H. cbn in H. subst t. reflexivity.
    - destruct (SafeWF_alloc t H E) as (HS & _ & HC).
      rewrite (slots_count_full t HS HC). destruct HC as (-> & _). unfold zn. rewrite Nat2Z.id. reflexivity.
  Qed.

  Corollary count_some_items t : SafeWF B T t -> zn (count_some (slots t)) = items t.
  Proof.
    intros H. rewrite <- occupants_length, (occupants_length_items t H).
    pose proof (SafeWF_items_bound t H). unfold zn. lia.
  Qed.
End Safe.

(* ---------------------------------------------------------------------------------------- *)
(* the mutators                                                                               *)
(* ---------------------------------------------------------------------------------------- *)
Section Mutators.
  Variable B : backend.
  Variable T : Type.
  Hypothesis HW : WidthOK B.
  Local Notation GW := (bk_width B).

  (* Shape / Mirror / the real control bytes depend on mask and ctrl only *)
  Lemma Shape_ext (t t' : table T) : mask t' = mask t -> ctrl t' = ctrl t ->
    length (slots t') = length (slots t) -> Shape B T t -> Shape B T t'.
  Proof.
    intros Em Ec El H. unfold Shape, Pow2, nb, buckets in *. rewrite Em, Ec, El. exact H.
  Qed.

  Lemma Mirror_ext (t t' : table T) : mask t' = mask t -> ctrl t' = ctrl t ->
    Mirror B T t -> Mirror B T t'.
  Proof.
    intros Em Ec H. unfold Mirror, nb, buckets, byte in *. rewrite Em, Ec. exact H.
  Qed.

  Lemma real_ctrl_ext (t t' : table T) : mask t' = mask t -> ctrl t' = ctrl t ->
    real_ctrl T t' = real_ctrl T t.
  Proof. intros Em Ec. unfold real_ctrl, buckets. rewrite Em, Ec. reflexivity. Qed.

  Lemma slot_write_ok (t : table T) i e : mask t <> 0 -> i < length (slots t) ->
    slot_write T t i e = Ok (with_slots T t (upd (slots t) i (Some e))).
  Proof.
    intros Hm Hi. unfold slot_write, is_singleton.
    destruct (Nat.eqb_spec (mask t) 0); [contradiction|].
    destruct (Nat.ltb_spec i (length (slots t))); [reflexivity|lia].
  Qed.

  Lemma slot_ref_ok (t : table T) i e : mask t <> 0 -> i < length (slots t) -> slot T t i = Some e ->
    slot_ref T t i = Ok e.
  Proof.
    intros Hm Hi He. unfold slot_ref, is_singleton.
    destruct (Nat.eqb_spec (mask t) 0); [contradiction|].
    rewrite (nth_error_nth' (slots t) None Hi). unfold slot in He. rewrite He. reflexivity.
  Qed.

  Lemma slot_upd (t : table T) l i o j : i < length l ->
    nth j (upd l i o) None = if j =? i then o else nth j l (@None T).
  Proof. intros Hi. apply nth_upd. exact Hi. Qed.

  (* a special bucket holds no element *)
  Lemma special_slot_none t i : Count T t -> i < nb T t -> is_special (byte T t i) = true ->
    slot T t i = None.
  Proof.
    intros (_ & _ & _ & Hsl) Hi Hsp. destruct (slot T t i) as [e|] eqn:E; [|reflexivity].
    assert (Hf : is_full (byte T t i) = true) by (apply Hsl; [exact Hi|rewrite E; discriminate]).
    rewrite is_special_negb_full, Hf in Hsp. discriminate Hsp.
  Qed.

  Lemma full_slot_some t i : Count T t -> i < nb T t -> is_full (byte T t i) = true ->
    exists e, slot T t i = Some e.
  Proof.
    intros (_ & _ & _ & Hsl) Hi Hf. destruct (slot T t i) as [e|] eqn:E; [exists e; reflexivity|].
    exfalso. apply (proj2 (Hsl i Hi) Hf). exact E.
  Qed.

  Lemma wadd1_small x : (0 <= x <= 2 ^ 62)%Z -> wadd 64 x 1 = (x + 1)%Z.
  Proof. intros H. rewrite two_p_62 in H. unfold wadd. apply wrap_small. rewrite two_p_64. lia. Qed.

  Lemma wsub1_small x : (0 < x <= 2 ^ 62)%Z -> wsub 64 x 1 = (x - 1)%Z.
  Proof. intros H. rewrite two_p_62 in H. unfold wsub. apply wrap_small. rewrite two_p_64. lia. Qed.

  Lemma wsub0_small x : (0 <= x <= 2 ^ 62)%Z -> wsub 64 x 0 = x.
  Proof.
    intros H. rewrite two_p_62 in H. unfold wsub. rewrite Z.sub_0_r. apply wrap_small. rewrite two_p_64. lia.
  Qed.

  (* -------------------------------------------------------------------------------------- *)
  (* T1: insert_in_slot                                                                       *)
  (* -------------------------------------------------------------------------------------- *)
  Theorem insert_in_slot_safe t s hash value :
    SafeWF B T t -> mask t <> 0 -> s < nb T t -> is_special (byte T t s) = true ->
    (byte T t s = EMPTY -> (0 < growth_left t)%Z) ->
    exists t', insert_in_slot B T t hash s value = Ok t' /\ SafeWF B T t' /\ mask t' = mask t /\
      items t' = (items t + 1)%Z /\ byte T t' s = tag_full hash /\ slot T t' s = Some value /\
      (forall j, j < nb T t -> j <> s -> byte T t' j = byte T t j /\ slot T t' j = slot T t j) /\
      growth_left t' = (if is_empty (byte T t s) then growth_left t - 1 else growth_left t)%Z /\
      Permutation (occupants T t') (value :: occupants T t).
  Proof.
    intros H Hm Hs Hsp Hgl.
    destruct (SafeWF_alloc B T t H Hm) as (HS & HM & HC).
    pose proof (SafeWF_items_bound B T t H) as Hib.
    pose proof (SafeWF_growth_bound B T t H) as Hgb.
    pose proof (z_cap_lt_nb B T t H Hm) as Hcap.
    pose proof (Shape_nb_bound B T t HS) as Hnb.
    pose proof (byte_valid B T t s HS ltac:(lia)) as Hv.
    pose proof (special_slot_none t s HC Hs Hsp) as Hnone.
    destruct (set_ctrl_spec B T HW t s (tag_full hash) HS HM Hs (tag_full_valid hash))
      as (t1 & E1 & Em1 & Esl1 & Eit1 & Egl1 & HS1 & HM1 & Hb1 & Hr1).
    pose proof (count_p_set_ctrl B T HW is_full t s _ t1 HS HM Hs (tag_full_valid hash) E1) as Cf.
    pose proof (count_p_set_ctrl B T HW is_deleted t s _ t1 HS HM Hs (tag_full_valid hash) E1) as Cd.
    rewrite tag_full_is_full in Cf. rewrite (full_not_deleted _ (tag_full_is_full hash)) in Cd.
    assert (Hnf : is_full (byte T t s) = false).
    { rewrite is_special_negb_full in Hsp. destruct (is_full (byte T t s)); [discriminate|reflexivity]. }
    rewrite Hnf in Cf.
    pose proof HS as (_ & _ & Hlen & _).
    unfold insert_in_slot. rewrite (ctrl_at_ok B T t HS s Hs). cbn [bind].
    unfold record_item_insert_at, Gen.record_item_insert_at. cbv beta iota zeta.
    unfold set_ctrl_hash. rewrite E1. cbn [bind].
    rewrite (special_is_empty_spec _ Hv Hsp).
    rewrite wadd1_small by lia.
    set (g' := wsub 64 (growth_left t) (bool_to_Z (is_empty (byte T t s)))).
    assert (Eg' : g' = (if is_empty (byte T t s) then growth_left t - 1 else growth_left t)%Z).
    { unfold g'. destruct (is_empty (byte T t s)) eqn:Ee; cbn [bool_to_Z].
      - apply Z.eqb_eq in Ee. specialize (Hgl Ee). apply wsub1_small. lia.
      - apply wsub0_small. lia. }
    clearbody g'.
    set (t2 := with_counts T t1 (items t + 1)%Z g').
    assert (Elt : (s <? buckets T t2) = true).
    { apply Nat.ltb_lt. unfold buckets, t2. cbn [mask with_counts]. rewrite Em1. exact Hs. }
    rewrite Elt.
    rewrite slot_write_ok;
      [|unfold t2; cbn [mask with_counts]; rewrite Em1; exact Hm
       |unfold t2; cbn [slots with_counts]; rewrite Esl1, Hlen; exact Hs].
    eexists. split; [reflexivity|].
    set (t' := with_slots T t2 _).
    assert (Emask : mask t' = mask t) by exact Em1.
    assert (Ectrl : ctrl t' = ctrl t1) by reflexivity.
    assert (Eslots : slots t' = upd (slots t) s (Some value)).
    { unfold t', t2. cbn [slots with_slots with_counts]. rewrite Esl1. reflexivity. }
    assert (Ebyte : forall j, byte T t' j = byte T t1 j) by reflexivity.
    assert (Eslot : forall j, slot T t' j = if j =? s then Some value else slot T t j).
    { intros j. unfold slot. rewrite Eslots. apply nth_upd. lia. }
    assert (Ereal : real_ctrl T t' = real_ctrl T t1) by reflexivity.
    assert (Enb : nb T t' = nb T t) by (unfold nb, buckets; rewrite Emask; reflexivity).
    split; [|split; [exact Emask|split; [reflexivity|]]].
    { apply SafeWF_of_parts.
      - apply (Shape_ext t1 t'); [reflexivity|reflexivity| |exact HS1].
        rewrite Eslots, Esl1. apply upd_length. lia.
      - apply (Mirror_ext t1 t'); [reflexivity|reflexivity|exact HM1].
      - destruct HC as (Hit & Hsum & Hgl0 & Hsl). unfold Count. rewrite Ereal, Enb.
        change (items t') with (items t + 1)%Z. change (growth_left t') with g'.
        change (mask t') with (mask t1). rewrite Em1.
        destruct (special_cases _ Hv Hsp) as [Ee | Ed].
        + rewrite Ee in Eg', Cd. change (is_empty EMPTY) with true in Eg'.
          change (is_deleted EMPTY) with false in Cd. cbv iota in Eg', Cd.
          rewrite Eg'. specialize (Hgl Ee).
          split; [unfold zn in *; lia|]. split; [unfold zn in *; lia|]. split; [lia|].
          intros j Hj. rewrite Eslot, Ebyte, Hb1 by exact Hj.
          destruct (Nat.eqb_spec j s).
          * rewrite tag_full_is_full. split; [reflexivity|discriminate].
          * apply Hsl. exact Hj.
        + rewrite Ed in Eg', Cd. change (is_empty DELETED) with false in Eg'.
          change (is_deleted DELETED) with true in Cd. cbv iota in Eg', Cd.
          rewrite Eg'.
          split; [unfold zn in *; lia|]. split; [unfold zn in *; lia|]. split; [lia|].
          intros j Hj. rewrite Eslot, Ebyte, Hb1 by exact Hj.
          destruct (Nat.eqb_spec j s).
          * rewrite tag_full_is_full. split; [reflexivity|discriminate].
          * apply Hsl. exact Hj. }
    split. { rewrite Ebyte, Hb1 by exact Hs. rewrite Nat.eqb_refl. reflexivity. }
    split. { rewrite Eslot, Nat.eqb_refl. reflexivity. }
    split.
    { intros j Hj Hne. rewrite Ebyte, Hb1, Eslot by exact Hj.
      destruct (Nat.eqb_spec j s); [contradiction|]. split; reflexivity. }
    split; [exact Eg'|].
    rewrite !occupants_occ, Eslots. rewrite occ_upd by lia.
    rewrite (occ_split (slots t) s) by lia. fold (slot T t s). rewrite Hnone. cbn [opt_list app].
    symmetry. apply Permutation_middle.
  Qed.

  (* -------------------------------------------------------------------------------------- *)
  (* T2: erase                                                                                *)
  (* -------------------------------------------------------------------------------------- *)
  Lemma n_index_before_lt t i : Shape B T t -> n_index_before GW (mask t) i < nb T t.
  Proof.
    intros HS. pose proof (Shape_MaskOK B T t HS) as HMk. rewrite n_index_before_Z by exact HMk.
    pose proof (MaskOK_bounds _ HMk) as Hb.
    pose proof (Z.mod_pos_bound (zn i - zn GW) (zn (S (mask t))) ltac:(lia)).
    unfold nb, buckets, zn in *. lia.
  Qed.

  (* what erase leaves behind: everything of SafeWF except "slot i initialised <-> byte i FULL" *)
  Definition ErasedAt (t : table T) (i : nat) (t' : table T) : Prop :=
    mask t' = mask t /\ slots t' = slots t /\ Shape B T t' /\ Mirror B T t' /\
    (byte T t' i = EMPTY \/ byte T t' i = DELETED) /\
    (forall j, j < nb T t -> j <> i -> byte T t' j = byte T t j) /\
    items t' = (items t - 1)%Z /\
    items t' = zn (count_p is_full (real_ctrl T t')) /\
    (growth_left t' + items t' + zn (count_p is_deleted (real_ctrl T t')) = z_cap (mask t'))%Z /\
    (0 <= growth_left t')%Z /\
    growth_left t' = (if is_empty (byte T t' i) then growth_left t + 1 else growth_left t)%Z.

  Lemma erase_aux t i c gl :
    SafeWF B T t -> mask t <> 0 -> i < nb T t -> is_full (byte T t i) = true ->
    (c = DELETED /\ gl = growth_left t) \/ (c = EMPTY /\ gl = wadd 64 (growth_left t) 1) ->
    exists t1, set_ctrl B T t i c = Ok t1 /\
               ErasedAt t i (with_counts T t1 (wsub 64 (items t) 1) gl) /\
               byte T (with_counts T t1 (wsub 64 (items t) 1) gl) i = c.
  Proof.
    intros H Hm Hi Hf Hc.
    destruct (SafeWF_alloc B T t H Hm) as (HS & HM & HC).
    pose proof (SafeWF_items_bound B T t H) as Hib.
    pose proof (SafeWF_growth_bound B T t H) as Hgb.
    pose proof (z_cap_lt_nb B T t H Hm) as Hcap.
    pose proof (Shape_nb_bound B T t HS) as Hnb.
    assert (Hvc : valid_ctrl c) by (destruct Hc as [[-> _] | [-> _]]; [apply valid_DELETED|apply valid_EMPTY]).
    destruct (set_ctrl_spec B T HW t i c HS HM Hi Hvc)
      as (t1 & E1 & Em1 & Esl1 & Eit1 & Egl1 & HS1 & HM1 & Hb1 & Hr1).
    pose proof (count_p_set_ctrl B T HW is_full t i _ t1 HS HM Hi Hvc E1) as Cf.
    pose proof (count_p_set_ctrl B T HW is_deleted t i _ t1 HS HM Hi Hvc E1) as Cd.
    rewrite Hf in Cf. rewrite (full_not_deleted _ Hf) in Cd.
    destruct HC as (Hit & Hsum & Hgl0 & Hsl).
    exists t1. split; [exact E1|].
    set (t' := with_counts T t1 _ _).
    assert (Ebyte : forall j, byte T t' j = byte T t1 j) by reflexivity.
    assert (Ereal : real_ctrl T t' = real_ctrl T t1) by reflexivity.
    assert (Ebi : byte T t' i = c) by (rewrite Ebyte, Hb1 by exact Hi; rewrite Nat.eqb_refl; reflexivity).
    split; [|exact Ebi].
    unfold ErasedAt. rewrite Ebi, Ereal.
    change (mask t') with (mask t1). change (slots t') with (slots t1).
    change (items t') with (wsub 64 (items t) 1). change (growth_left t') with gl.
    split; [exact Em1|]. split; [exact Esl1|].
    split; [apply (Shape_ext t1 t'); [reflexivity|reflexivity|reflexivity|exact HS1]|].
    split; [apply (Mirror_ext t1 t'); [reflexivity|reflexivity|exact HM1]|].
    split; [destruct Hc as [[-> _] | [-> _]]; [right|left]; reflexivity|].
    split.
    { intros j Hj Hne. rewrite Ebyte, Hb1 by exact Hj. destruct (Nat.eqb_spec j i); [contradiction|reflexivity]. }
    rewrite Em1.
    destruct Hc as [[-> ->] | [-> ->]].
    - change (is_full DELETED) with false in Cf. change (is_deleted DELETED) with true in Cd.
      change (is_empty DELETED) with false. cbv iota in *.
      rewrite wsub1_small by (unfold zn in *; lia).
      repeat split; unfold zn in *; lia.
    - change (is_full EMPTY) with false in Cf. change (is_deleted EMPTY) with false in Cd.
      change (is_empty EMPTY) with true. cbv iota in *.
      rewrite wsub1_small by (unfold zn in *; lia).
      rewrite wadd1_small by lia.
      repeat split; unfold zn in *; lia.
  Qed.

  Theorem erase_spec t i :
    SafeWF B T t -> mask t <> 0 -> i < nb T t -> is_full (byte T t i) = true ->
    exists t', erase B T t i = Ok t' /\ ErasedAt t i t'.
  Proof.
    intros H Hm Hi Hf.
    destruct (SafeWF_alloc B T t H Hm) as (HS & HM & HC).
    unfold erase. cbv zeta.
    rewrite (load_ok B T t _ HS) by (pose proof (n_index_before_lt t i HS); lia).
    rewrite (load_ok B T t i HS) by lia. cbn [bind].
    match goal with |- context [erase_choose_deleted ?a ?b ?c] => destruct (erase_choose_deleted a b c) end.
    - destruct (erase_aux t i DELETED (growth_left t) H Hm Hi Hf ltac:(left; split; reflexivity)) as (t1 & E1 & Hspec & _).
      rewrite E1. cbn [bind]. eexists. split; [reflexivity|exact Hspec].
    - destruct (erase_aux t i EMPTY (wadd 64 (growth_left t) 1) H Hm Hi Hf ltac:(right; split; reflexivity)) as (t1 & E1 & Hspec & _).
      rewrite E1. cbn [bind]. eexists. split; [reflexivity|exact Hspec].
  Qed.

  (* which byte erase writes: DELETED iff erase_choose_deleted on the two loaded groups *)
  Theorem erase_choice t i :
    SafeWF B T t -> mask t <> 0 -> i < nb T t -> is_full (byte T t i) = true ->
    exists gb ga t', load B T t (n_index_before GW (mask t) i) = Ok gb /\ load B T t i = Ok ga /\
      erase B T t i = Ok t' /\
      byte T t' i = if erase_choose_deleted (zn GW) (zn (g_empty_lz B gb)) (zn (g_empty_tz B ga))
                    then DELETED else EMPTY.
  Proof.
    intros H Hm Hi Hf.
    destruct (SafeWF_alloc B T t H Hm) as (HS & HM & HC).
    pose proof (load_ok B T t (n_index_before GW (mask t) i) HS
                  ltac:(pose proof (n_index_before_lt t i HS); lia)) as Eb.
    pose proof (load_ok B T t i HS ltac:(lia)) as Ea.
    set (gb := firstn GW (skipn (n_index_before GW (mask t) i) (ctrl t))) in *.
    set (ga := firstn GW (skipn i (ctrl t))) in *.
    cut (exists t', erase B T t i = Ok t' /\
           byte T t' i = if erase_choose_deleted (zn GW) (zn (g_empty_lz B gb)) (zn (g_empty_tz B ga))
                         then DELETED else EMPTY).
    { intros (t' & E & Hb). exists gb, ga, t'. split; [exact Eb|]. split; [exact Ea|]. split; assumption. }
    unfold erase. cbv zeta. rewrite Eb, Ea. cbn [bind].
    match goal with |- context [erase_choose_deleted ?a ?b ?c] => destruct (erase_choose_deleted a b c) end.
    - destruct (erase_aux t i DELETED (growth_left t) H Hm Hi Hf ltac:(left; split; reflexivity)) as (t1 & E1 & _ & Hb).
      rewrite E1. cbn [bind]. eexists. split; [reflexivity|exact Hb].
    - destruct (erase_aux t i EMPTY (wadd 64 (growth_left t) 1) H Hm Hi Hf ltac:(right; split; reflexivity)) as (t1 & E1 & _ & Hb).
      rewrite E1. cbn [bind]. eexists. split; [reflexivity|exact Hb].
  Qed.

  (* -------------------------------------------------------------------------------------- *)
  (* T3: remove, erase_drop                                                                   *)
  (* -------------------------------------------------------------------------------------- *)
  Theorem remove_safe t i :
    SafeWF B T t -> mask t <> 0 -> i < nb T t -> is_full (byte T t i) = true ->
    exists e t', remove B T t i = Ok (e, t') /\ slot T t i = Some e /\ SafeWF B T t' /\
      mask t' = mask t /\ items t' = (items t - 1)%Z /\
      is_special (byte T t' i) = true /\ slot T t' i = None /\
      (forall j, j < nb T t -> j <> i -> byte T t' j = byte T t j /\ slot T t' j = slot T t j) /\
      Permutation (occupants T t) (e :: occupants T t') /\
      (growth_left t <= growth_left t')%Z /\
      growth_left t' = (if is_empty (byte T t' i) then growth_left t + 1 else growth_left t)%Z /\
      (exists l1 l2, occupants T t = l1 ++ e :: l2 /\ occupants T t' = l1 ++ l2).
  Proof.
    intros H Hm Hi Hf.
    destruct (SafeWF_alloc B T t H Hm) as (HS & HM & HC).
    destruct (full_slot_some t i HC Hi Hf) as (e & He).
    destruct (erase_spec t i H Hm Hi Hf)
      as (t1 & E1 & Em1 & Esl1 & HS1 & HM1 & Hbi & Hbo & Eit & Hcf & Hsum & Hgl0 & Egl).
    pose proof HS as (_ & _ & Hlen & _).
    destruct HC as (_ & _ & _ & Hsl).
    exists e. unfold remove.
    destruct (Nat.leb_spec (buckets T t) i) as [Hle|_]; [unfold nb in Hi; lia|].
    rewrite E1. cbn [bind]. unfold slot_take.
    rewrite (slot_ref_ok t1 i e);
      [|rewrite Em1; exact Hm|rewrite Esl1, Hlen; exact Hi|unfold slot; rewrite Esl1; exact He].
    cbn [bind]. eexists. split; [reflexivity|].
    set (t' := with_slots T t1 _).
    assert (Eslots : slots t' = upd (slots t) i None).
    { unfold t'. cbn [slots with_slots]. rewrite Esl1. reflexivity. }
    assert (Ebyte : forall j, byte T t' j = byte T t1 j) by reflexivity.
    assert (Eslot : forall j, slot T t' j = if j =? i then None else slot T t j).
    { intros j. unfold slot. rewrite Eslots. apply nth_upd. lia. }
    assert (Ereal : real_ctrl T t' = real_ctrl T t1) by reflexivity.
    assert (Enb : nb T t' = nb T t) by (unfold nb, buckets; change (mask t') with (mask t1); rewrite Em1; reflexivity).
    assert (Hsp : is_special (byte T t' i) = true).
    { rewrite Ebyte. destruct Hbi as [-> | ->]; reflexivity. }
    split; [exact He|]. split.
    { apply SafeWF_of_parts.
      - apply (Shape_ext t1 t'); [reflexivity|reflexivity| |exact HS1].
        rewrite Eslots, Esl1. apply upd_length. lia.
      - apply (Mirror_ext t1 t'); [reflexivity|reflexivity|exact HM1].
      - unfold Count. rewrite Ereal, Enb.
        change (items t') with (items t1). change (growth_left t') with (growth_left t1).
        change (mask t') with (mask t1).
        split; [exact Hcf|]. split; [exact Hsum|]. split; [exact Hgl0|].
        intros j Hj. rewrite Eslot. destruct (Nat.eqb_spec j i) as [->|Hne].
        + rewrite is_special_negb_full in Hsp. destruct (is_full (byte T t' i)); [discriminate|].
          split; [intros X; exfalso; apply X; reflexivity|discriminate].
        + rewrite Ebyte, (Hbo j Hj Hne). apply Hsl. exact Hj. }
    split; [exact Em1|]. split; [exact Eit|]. split; [exact Hsp|].
    split; [rewrite Eslot, Nat.eqb_refl; reflexivity|].
    split.
    { intros j Hj Hne. rewrite Ebyte, (Hbo j Hj Hne), Eslot.
      destruct (Nat.eqb_spec j i); [contradiction|]. split; reflexivity. }
    assert (Eo : occupants T t = occ (firstn i (slots t)) ++ e :: occ (skipn (S i) (slots t))).
    { rewrite occupants_occ, (occ_split (slots t) i) by lia. fold (slot T t i). rewrite He. reflexivity. }
    assert (Eo' : occupants T t' = occ (firstn i (slots t)) ++ occ (skipn (S i) (slots t))).
    { rewrite occupants_occ, Eslots, occ_upd by lia. reflexivity. }
    split; [rewrite Eo, Eo'; symmetry; apply Permutation_middle|].
    split.
    { change (growth_left t') with (growth_left t1). rewrite Egl.
      destruct (is_empty (byte T t1 i)); lia. }
    split; [exact Egl|].
    eexists _, _. split; [exact Eo|exact Eo'].
  Qed.

  Theorem erase_drop_safe needs_drop t i :
    SafeWF B T t -> mask t <> 0 -> i < nb T t -> is_full (byte T t i) = true ->
    exists e t', erase_drop B T needs_drop t i = Ok (t', if needs_drop then [EvDrop e] else []) /\
      slot T t i = Some e /\ SafeWF B T t' /\
      mask t' = mask t /\ items t' = (items t - 1)%Z /\
      is_special (byte T t' i) = true /\ slot T t' i = None /\
      (forall j, j < nb T t -> j <> i -> byte T t' j = byte T t j /\ slot T t' j = slot T t j) /\
      Permutation (occupants T t) (e :: occupants T t') /\
      (growth_left t <= growth_left t')%Z /\
      growth_left t' = (if is_empty (byte T t' i) then growth_left t + 1 else growth_left t)%Z /\
      (exists l1 l2, occupants T t = l1 ++ e :: l2 /\ occupants T t' = l1 ++ l2).
  Proof.
    intros H Hm Hi Hf.
    destruct (remove_safe t i H Hm Hi Hf) as (e & t' & E & Hrest).
    exists e, t'. split; [|exact Hrest].
    unfold erase_drop. rewrite E. reflexivity.
  Qed.

  (* -------------------------------------------------------------------------------------- *)
  (* T4: overwriting the element of a FULL bucket                                             *)
  (* -------------------------------------------------------------------------------------- *)
  Theorem slot_write_value_safe t i e e' :
    SafeWF B T t -> mask t <> 0 -> i < nb T t -> slot T t i = Some e ->
    exists t', slot_write T t i e' = Ok t' /\ SafeWF B T t' /\
      mask t' = mask t /\ ctrl t' = ctrl t /\ items t' = items t /\ growth_left t' = growth_left t /\
      (forall j, byte T t' j = byte T t j) /\
      slot T t' i = Some e' /\ (forall j, j <> i -> slot T t' j = slot T t j) /\
      (exists l1 l2, occupants T t = l1 ++ e :: l2 /\ occupants T t' = l1 ++ e' :: l2) /\
      Permutation (e :: occupants T t') (e' :: occupants T t).
  Proof.
    intros H Hm Hi He.
    destruct (SafeWF_alloc B T t H Hm) as (HS & HM & HC).
    pose proof HS as (_ & _ & Hlen & _).
    rewrite slot_write_ok by (assumption || lia).
    eexists. split; [reflexivity|].
    set (t' := with_slots T t _).
    assert (Eslots : slots t' = upd (slots t) i (Some e')) by reflexivity.
    assert (Eslot : forall j, slot T t' j = if j =? i then Some e' else slot T t j).
    { intros j. unfold slot. rewrite Eslots. apply nth_upd. lia. }
    assert (Eo : occupants T t = occ (firstn i (slots t)) ++ e :: occ (skipn (S i) (slots t))).
    { rewrite occupants_occ, (occ_split (slots t) i) by lia. fold (slot T t i). rewrite He. reflexivity. }
    assert (Eo' : occupants T t' = occ (firstn i (slots t)) ++ e' :: occ (skipn (S i) (slots t))).
    { rewrite occupants_occ, Eslots, occ_upd by lia. reflexivity. }
    split.
    { apply SafeWF_of_parts.
      - apply (Shape_ext t t'); [reflexivity|reflexivity| |exact HS].
        rewrite Eslots. apply upd_length. lia.
      - apply (Mirror_ext t t'); [reflexivity|reflexivity|exact HM].
      - destruct HC as (Hit & Hsum & Hgl0 & Hsl).
        split; [exact Hit|]. split; [exact Hsum|]. split; [exact Hgl0|].
        intros j Hj. change (byte T t' j) with (byte T t j). rewrite Eslot.
        destruct (Nat.eqb_spec j i) as [->|Hne]; [|apply Hsl; exact Hj].
        split; [intros _|discriminate]. apply Hsl; [exact Hi|]. rewrite He. discriminate. }
    repeat (split; [reflexivity|]).
    split; [rewrite Eslot, Nat.eqb_refl; reflexivity|].
    split.
    { intros j Hne. rewrite Eslot. destruct (Nat.eqb_spec j i); [contradiction|reflexivity]. }
    split; [eexists _, _; split; [exact Eo|exact Eo']|].
    rewrite Eo, Eo'.
    rewrite <- !Permutation_middle. apply perm_swap.
  Qed.
End Mutators.

Print Assumptions SafeWF_items_bound.
Print Assumptions SafeWF_growth_bound.
Print Assumptions z_cap_lt_nb.
Print Assumptions occupants_In.
Print Assumptions occupants_length_items.
Print Assumptions special_is_empty_iff.
Print Assumptions insert_in_slot_safe.
Print Assumptions erase_spec.
Print Assumptions erase_choice.
Print Assumptions remove_safe.
Print Assumptions erase_drop_safe.
Print Assumptions slot_write_value_safe.
