(* WFInsertRemove.v -- the element-level mutators of RawTable preserve the FULL invariant WF
   (SafeWF + Tags + Reach), for a deterministic partial hash h : T -> option Z.

   W2  overwriting the element of a FULL bucket by one with the same hash      (slot_write_WF)
   W1  insert_in_slot at the slot returned by find_insert_slot /
       find_or_find_insert_slot_inner (any callback)                           (insert_in_slot_WF_fis, _foi, _unhashed)
   core  reach_ok is a function of the mask and of the truth values
       "the group loaded at p holds an EMPTY byte"                             (reach_ok_same_windows)
       hence of the mask and the set of EMPTY buckets                          (reach_ok_same_empties)
   W3  remove (erase + read) preserves WF                                      (remove_WF)
   W4  remove followed by insert_in_slot at the same bucket with the same hash (remove_insert_WF) *)
From Coq Require Import ZArith List Bool Lia Permutation.
From HB Require Import RsPrelude Sse2 Gen Group Raw Check ArithFacts Triangular WFDefs GroupFacts
  ProbeFacts FindFacts SafeInsertErase.
Import ListNotations.
Open Scope nat_scope.

(* ---------------------------------------------------------------------------------------- *)
(* arithmetic and list helpers                                                                *)
(* ---------------------------------------------------------------------------------------- *)
Lemma mod_cases x n : 0 < n -> x < 2 * n ->
  (x < n /\ x mod n = x) \/ (n <= x /\ x mod n = x - n).
Proof.
  intros Hn Hx. destruct (Nat.lt_ge_cases x n) as [Hlt|Hge].
  - left. split; [exact Hlt|apply Nat.mod_small; exact Hlt].
  - right. split; [exact Hge|]. apply mod_wrap_once. lia.
Qed.

Lemma prefix_len_le f (l : list Z) : prefix_len f l <= length l.
Proof. induction l as [|b l IH]; cbn; [lia|]. destruct (f b); lia. Qed.

(* the element just after the longest prefix satisfying f does not satisfy f *)
Lemma prefix_len_stop f (l : list Z) d : prefix_len f l < length l ->
  f (nth (prefix_len f l) l d) = false.
Proof.
  induction l as [|b l IH]; cbn [prefix_len length]; [lia|].
  destruct (f b) eqn:E; intros H.
  - cbn [nth]. apply IH. lia.
  - exact E.
Qed.

Lemma prefix_len_before f (l : list Z) d j : j < prefix_len f l -> f (nth j l d) = true.
Proof.
  revert j. induction l as [|b l IH]; cbn [prefix_len]; intros j H; [lia|].
  destruct (f b) eqn:E; [|lia].
  destruct j as [|j]; [exact E|]. cbn [nth]. apply IH. lia.
Qed.

(* a window of GW cyclic positions that contains i also contains i-1-L or i+R, when L+R < GW *)
Lemma window_hits_neighbour n GW i L R p j :
  0 < n -> GW <= n -> i < n -> p < n -> j < GW -> L + R < GW -> (p + j) mod n = i ->
  exists j', j' < GW /\
    ((p + j') mod n = (i + n - 1 - L) mod n \/ (p + j') mod n = (i + R) mod n).
Proof.
  intros Hn HG Hi Hp Hj HLR E.
  destruct (Nat.le_gt_cases (S L) j) as [Hge|Hlt].
  - exists (j - 1 - L). split; [lia|]. left.
    destruct (mod_cases (p + j) n ltac:(lia) ltac:(lia)) as [[? E1]|[? E1]];
    destruct (mod_cases (p + (j - 1 - L)) n ltac:(lia) ltac:(lia)) as [[? E2]|[? E2]];
    destruct (mod_cases (i + n - 1 - L) n ltac:(lia) ltac:(lia)) as [[? E3]|[? E3]];
    rewrite E1 in E; rewrite E2, E3; lia.
  - exists (j + R). split; [lia|]. right.
    destruct (mod_cases (p + j) n ltac:(lia) ltac:(lia)) as [[? E1]|[? E1]];
    destruct (mod_cases (p + (j + R)) n ltac:(lia) ltac:(lia)) as [[? E2]|[? E2]];
    destruct (mod_cases (i + R) n ltac:(lia) ltac:(lia)) as [[? E3]|[? E3]];
    rewrite E1 in E; rewrite E2, E3; lia.
Qed.

Section WFMut.
  Variable B : backend.
  Variable T : Type.
  Hypothesis HW : WidthOK B.
  Hypothesis HB : BackendSpec B.
  Local Notation GW := (bk_width B).

  (* -------------------------------------------------------------------------------------- *)
  (* reach_ok depends on the mask and the control bytes only                                  *)
  (* -------------------------------------------------------------------------------------- *)
  Lemma reach_loop_ext (t t' : table T) i : mask t' = mask t -> ctrl t' = ctrl t ->
    forall n pos stride, reach_loop B T n t' i pos stride = reach_loop B T n t i pos stride.
  Proof.
    intros Em Ec. induction n as [|n IH]; intros pos stride; [reflexivity|].
    cbn [reach_loop]. unfold buckets, load. rewrite Em, Ec.
    destruct ((i + S (mask t) - pos) mod S (mask t) <? GW); [reflexivity|].
    destruct (pos + GW <=? length (ctrl t)); [|reflexivity].
    destruct (g_any_empty B (firstn GW (skipn pos (ctrl t)))); [reflexivity|].
    destruct (n_move_next GW (mask t) pos stride) as [p' s']. apply IH.
  Qed.

  Theorem reach_ok_ext (t t' : table T) hash i : mask t' = mask t -> ctrl t' = ctrl t ->
    reach_ok B T t' hash i = reach_ok B T t hash i.
  Proof.
    intros Em Ec. unfold reach_ok, probe_fuel, buckets. rewrite Em.
    apply reach_loop_ext; assumption.
  Qed.

  Variable h : T -> option Z.

  (* -------------------------------------------------------------------------------------- *)
  (* W2: overwriting the element of a FULL bucket                                             *)
  (* -------------------------------------------------------------------------------------- *)
  (* the new element may also have an unknown hash *)
  Theorem slot_write_WF_gen t i e e' :
    WF B T h t -> mask t <> 0 -> i < nb T t -> slot T t i = Some e ->
    (forall hv, h e' = Some hv -> h e = Some hv) ->
    exists t', slot_write T t i e' = Ok t' /\ WF B T h t' /\
      mask t' = mask t /\ ctrl t' = ctrl t /\ items t' = items t /\ growth_left t' = growth_left t /\
      (forall j, byte T t' j = byte T t j) /\
      slot T t' i = Some e' /\ (forall j, j <> i -> slot T t' j = slot T t j) /\
      (exists l1 l2, occupants T t = l1 ++ e :: l2 /\ occupants T t' = l1 ++ e' :: l2) /\
      Permutation (e :: occupants T t') (e' :: occupants T t).
  Proof.
    intros (HSafe & HT & HR) Hm Hi He Hh.
    destruct (slot_write_value_safe B T t i e e' HSafe Hm Hi He)
      as (t' & E & HSafe' & Em & Ec & Eit & Egl & Hb & Hsi & Hso & Hocc & Hperm).
    exists t'. split; [exact E|].
    assert (Enb : nb T t' = nb T t) by (apply same_mask_nb; exact Em).
    split; [|exact (conj Em (conj Ec (conj Eit (conj Egl (conj Hb (conj Hsi (conj Hso (conj Hocc Hperm))))))))].
    split; [exact HSafe'|]. split.
    - intros j x hv Hj Hx Hhx. rewrite Enb in Hj. rewrite Hb.
      destruct (Nat.eq_dec j i) as [->|Hne].
      + rewrite Hsi in Hx. injection Hx as <-. apply (HT i e hv Hi He). apply Hh. exact Hhx.
      + rewrite (Hso j Hne) in Hx. apply (HT j x hv Hj Hx Hhx).
    - intros j x hv Hj Hx Hhx. rewrite Enb in Hj. rewrite (reach_ok_ext t t' hv j Em Ec).
      destruct (Nat.eq_dec j i) as [->|Hne].
      + rewrite Hsi in Hx. injection Hx as <-. apply (HR i e hv Hi He). apply Hh. exact Hhx.
      + rewrite (Hso j Hne) in Hx. apply (HR j x hv Hj Hx Hhx).
  Qed.

  Theorem slot_write_WF t i e e' :
    WF B T h t -> mask t <> 0 -> i < nb T t -> slot T t i = Some e -> h e' = h e ->
    exists t', slot_write T t i e' = Ok t' /\ WF B T h t' /\
      mask t' = mask t /\ ctrl t' = ctrl t /\ items t' = items t /\ growth_left t' = growth_left t /\
      (forall j, byte T t' j = byte T t j) /\
      slot T t' i = Some e' /\ (forall j, j <> i -> slot T t' j = slot T t j) /\
      (exists l1 l2, occupants T t = l1 ++ e :: l2 /\ occupants T t' = l1 ++ e' :: l2) /\
      Permutation (e :: occupants T t') (e' :: occupants T t).
  Proof.
    intros HWF Hm Hi He Hh. apply slot_write_WF_gen; try assumption.
    intros hv Hv. rewrite <- Hh. exact Hv.
  Qed.

  (* -------------------------------------------------------------------------------------- *)
  (* W1: insert_in_slot                                                                       *)
  (* -------------------------------------------------------------------------------------- *)
  (* what insert_in_slot_safe says about the new table, besides SafeWF *)
  Definition InsertedAt (t : table T) (s : nat) (hash : Z) (value : T) (t' : table T) : Prop :=
    mask t' = mask t /\
    items t' = (items t + 1)%Z /\ byte T t' s = tag_full hash /\ slot T t' s = Some value /\
    (forall j, j < nb T t -> j <> s -> byte T t' j = byte T t j /\ slot T t' j = slot T t j) /\
    growth_left t' = (if is_empty (byte T t s) then growth_left t - 1 else growth_left t)%Z /\
    Permutation (occupants T t') (value :: occupants T t).

  (* s is a slot from which `hash` is reachable once its control byte is FULL *)
  Definition ReachableSlot (t : table T) (hash : Z) (s : nat) : Prop :=
    forall t', SameButFull B T t t' s -> reach_ok B T t' hash s = true.

  (* the core: any special bucket; the new element, if its hash is known, must hash to `hash`
     and the bucket must be a reachable slot for that hash *)
  Theorem insert_in_slot_WF_core t s hash value :
    WF B T h t -> mask t <> 0 -> s < nb T t -> is_special (byte T t s) = true ->
    (byte T t s = EMPTY -> (0 < growth_left t)%Z) ->
    (forall hv, h value = Some hv -> hv = hash /\ ReachableSlot t hash s) ->
    exists t', insert_in_slot B T t hash s value = Ok t' /\ WF B T h t' /\ InsertedAt t s hash value t'.
  Proof.
    intros (HSafe & HT & HR) Hm Hs Hsp Hgl Hval.
    destruct (SafeWF_alloc B T t HSafe Hm) as (HS & HM & HC).
    destruct (insert_in_slot_safe B T HW t s hash value HSafe Hm Hs Hsp Hgl)
      as (t' & E & HSafe' & Em & Eit & Ebs & Ess & Hother & Egl & Hperm).
    exists t'. split; [exact E|].
    assert (Enb : nb T t' = nb T t) by (apply same_mask_nb; exact Em).
    assert (Hm' : mask t' <> 0) by (rewrite Em; exact Hm).
    destruct (SafeWF_alloc B T t' HSafe' Hm') as (HS' & HM' & HC').
    assert (Hfull : is_full (byte T t' s) = true) by (rewrite Ebs; apply tag_full_is_full).
    assert (Hsame : SameButFull B T t t' s).
    { split; [exact Em|]. split; [exact HS'|]. split; [exact HM'|]. split; [exact Hfull|].
      intros j Hj Hne. apply (Hother j Hj Hne). }
    assert (Hnne : NoNewEmpty B T t t').
    { split; [exact Em|]. split; [exact HS'|]. split; [exact HM'|].
      intros j Hj Ej. destruct (Nat.eq_dec j s) as [->|Hne].
      - exfalso. apply (FindFacts.full_not_empty _ Hfull). exact Ej.
      - rewrite <- (proj1 (Hother j Hj Hne)). exact Ej. }
    split; [|exact (conj Em (conj Eit (conj Ebs (conj Ess (conj Hother (conj Egl Hperm))))))].
    split; [exact HSafe'|]. split.
    - intros j x hv Hj Hx Hhx. rewrite Enb in Hj.
      destruct (Nat.eq_dec j s) as [->|Hne].
      + rewrite Ess in Hx. injection Hx as <-. destruct (Hval hv Hhx) as (-> & _). exact Ebs.
      + destruct (Hother j Hj Hne) as (Eb & Esl). rewrite Esl in Hx. rewrite Eb.
        apply (HT j x hv Hj Hx Hhx).
    - intros j x hv Hj Hx Hhx. rewrite Enb in Hj.
      destruct (Nat.eq_dec j s) as [->|Hne].
      + rewrite Ess in Hx. injection Hx as <-. destruct (Hval hv Hhx) as (-> & Hreach).
        apply Hreach. exact Hsame.
      + destruct (Hother j Hj Hne) as (Eb & Esl). rewrite Esl in Hx.
        apply (reach_ok_mono B T HB t t' hv j HS HM Hnne). apply (HR j x hv Hj Hx Hhx).
  Qed.

  (* an insert slot returned by find_or_find_insert_slot_inner is a real special bucket,
     whatever the callback does *)
  Lemma foi_loop_inr_sound t tag eq s : Shape B T t -> Mirror B T t -> Count T t ->
    forall n ins pos stride, pos < nb T t ->
      (forall s0, ins = Some s0 -> SlotCand B T t s0) ->
      find_or_insert_loop B T n t tag eq ins pos stride = Ok (inr s) ->
      s < nb T t /\ is_special (byte T t s) = true.
  Proof.
    intros HS HM HC. induction n as [|n IH]; intros ins pos stride Hpos Hins H; [discriminate H|].
    cbn [find_or_insert_loop] in H.
    destruct (load B T t pos) as [g|] eqn:Hg; cbn [bind] in H; [|discriminate H].
    destruct (scan_matches T t eq pos (g_match_tag B g tag)) as [[i0|]|]; cbn [bind] in H;
      try discriminate H.
    set (ins' := match ins with Some s0 => Some s0
                           | None => find_insert_slot_in_group B T t g pos end) in H.
    assert (Hins' : forall s0, ins' = Some s0 -> SlotCand B T t s0).
    { intros s0 Es. unfold ins' in Es. destruct ins as [s1|].
      - apply Hins. exact Es.
      - apply (in_group_cand B T HW HB t HS HM pos g s0 Hpos Hg Es). }
    destruct (g_any_empty B g).
    - destruct ins' as [s0|]; [|discriminate H].
      destruct (fix_insert_slot_ok B T HW HB t HS HM HC s0 (Hins' s0 eq_refl)) as (s' & Es' & Hlt & Hsp).
      rewrite Es' in H. cbn [bind] in H. injection H as <-. split; assumption.
    - pose proof (move_next_lt B T t HS pos stride) as Hlt.
      destruct (n_move_next GW (mask t) pos stride) as [p' s']. cbn [fst] in Hlt.
      apply (IH ins' p' s' Hlt Hins' H).
  Qed.

  Theorem foi_inr_sound t hash eq s : SafeWF B T t -> mask t <> 0 ->
    find_or_find_insert_slot_inner B T t hash eq = Ok (inr s) ->
    s < nb T t /\ is_special (byte T t s) = true.
  Proof.
    intros HSafe Hm H. destruct (SafeWF_alloc B T t HSafe Hm) as (HS & HM & HC).
    unfold find_or_find_insert_slot_inner in H.
    apply (foi_loop_inr_sound t (tag_full hash) eq s HS HM HC (probe_fuel B T t) None
             (n_probe_start (mask t) hash) 0); [| |exact H].
    - apply n_probe_start_lt. apply (Shape_MaskOK B T t HS).
    - discriminate.
  Qed.

  Theorem fis_sound t hash s : SafeWF B T t -> mask t <> 0 ->
    find_insert_slot B T t hash = Ok s -> s < nb T t /\ is_special (byte T t s) = true.
  Proof.
    intros HSafe Hm H. destruct (SafeWF_alloc B T t HSafe Hm) as (HS & HM & HC).
    destruct (find_insert_slot_terminates B T HW HB t HS HM HC hash) as (s' & E & Hr).
    rewrite H in E. injection E as <-. exact Hr.
  Qed.

  (* W1, the slot comes from find_insert_slot *)
  Theorem insert_in_slot_WF_fis t s hash value :
    WF B T h t -> mask t <> 0 -> find_insert_slot B T t hash = Ok s -> h value = Some hash ->
    (byte T t s = EMPTY -> (0 < growth_left t)%Z) ->
    exists t', insert_in_slot B T t hash s value = Ok t' /\ WF B T h t' /\ InsertedAt t s hash value t'.
  Proof.
    intros HWF Hm Hfis Hh Hgl. pose proof HWF as (HSafe & _).
    destruct (SafeWF_alloc B T t HSafe Hm) as (HS & HM & HC).
    destruct (fis_sound t hash s HSafe Hm Hfis) as (Hs & Hsp).
    apply insert_in_slot_WF_core; try assumption.
    intros hv Hv. rewrite Hh in Hv. injection Hv as <-. split; [reflexivity|].
    intros t' Hsame. apply (find_insert_slot_reachable B T HB t t' hash s HS HM Hfis Hsame).
  Qed.

  (* W1, the slot comes from find_or_find_insert_slot_inner, any callback *)
  Theorem insert_in_slot_WF_foi t s hash eq value :
    WF B T h t -> mask t <> 0 ->
    find_or_find_insert_slot_inner B T t hash eq = Ok (inr s) -> h value = Some hash ->
    (byte T t s = EMPTY -> (0 < growth_left t)%Z) ->
    exists t', insert_in_slot B T t hash s value = Ok t' /\ WF B T h t' /\ InsertedAt t s hash value t'.
  Proof.
    intros HWF Hm Hfoi Hh Hgl. pose proof HWF as (HSafe & _).
    destruct (SafeWF_alloc B T t HSafe Hm) as (HS & HM & HC).
    destruct (foi_inr_sound t hash eq s HSafe Hm Hfoi) as (Hs & Hsp).
    apply insert_in_slot_WF_core; try assumption.
    intros hv Hv. rewrite Hh in Hv. injection Hv as <-. split; [reflexivity|].
    intros t' Hsame. apply (foi_slot_reachable B T HB t t' hash eq s HS HM Hfoi Hsame).
  Qed.

  (* W1, an element whose hash is unknown: any special bucket, any tag *)
  Theorem insert_in_slot_WF_unhashed t s hash value :
    WF B T h t -> mask t <> 0 -> s < nb T t -> is_special (byte T t s) = true -> h value = None ->
    (byte T t s = EMPTY -> (0 < growth_left t)%Z) ->
    exists t', insert_in_slot B T t hash s value = Ok t' /\ WF B T h t' /\ InsertedAt t s hash value t'.
  Proof.
    intros HWF Hm Hs Hsp Hh Hgl. apply insert_in_slot_WF_core; try assumption.
    intros hv Hv. rewrite Hh in Hv. discriminate Hv.
  Qed.

  (* -------------------------------------------------------------------------------------- *)
  (* core: reach_ok is a function of the mask and of "the group loaded at p holds an EMPTY"   *)
  (* -------------------------------------------------------------------------------------- *)
  (* the group loaded at p holds an EMPTY byte (a failing load counts as "stop" as well) *)
  Definition win_empty (t : table T) (p : nat) : bool :=
    match load B T t p with Ok g => g_any_empty B g | Fail _ => true end.

  Lemma win_empty_load t p g : load B T t p = Ok g -> win_empty t p = g_any_empty B g.
  Proof. intros E. unfold win_empty. rewrite E. reflexivity. Qed.

  Lemma reach_loop_same_windows (t t' : table T) i : MaskOK (mask t) -> mask t' = mask t ->
    (forall p, p < nb T t -> win_empty t' p = win_empty t p) ->
    forall n pos stride, pos < nb T t ->
      reach_loop B T n t' i pos stride = reach_loop B T n t i pos stride.
  Proof.
    intros HMk Em Hwin. induction n as [|n IH]; intros pos stride Hpos; [reflexivity|].
    cbn [reach_loop]. unfold buckets. rewrite Em.
    destruct ((i + S (mask t) - pos) mod S (mask t) <? GW); [reflexivity|].
    pose proof (Hwin pos Hpos) as E. unfold win_empty in E.
    pose proof (n_move_next_lt B (mask t) pos stride HMk) as Hlt.
    destruct (n_move_next GW (mask t) pos stride) as [p' s']. cbn [fst] in Hlt.
    destruct (load B T t' pos) as [g'|], (load B T t pos) as [g|].
    - rewrite E. destruct (g_any_empty B g); [reflexivity|]. apply IH. exact Hlt.
    - rewrite E. reflexivity.
    - rewrite <- E. reflexivity.
    - reflexivity.
  Qed.

  (* equal "has an EMPTY" for every loaded group => equal reachability *)
  Theorem reach_ok_same_windows (t t' : table T) hash i : MaskOK (mask t) -> mask t' = mask t ->
    (forall p, p < nb T t -> win_empty t' p = win_empty t p) ->
    reach_ok B T t' hash i = reach_ok B T t hash i.
  Proof.
    intros HMk Em Hwin. unfold reach_ok. rewrite (same_mask_fuel B T t t' Em), Em.
    apply reach_loop_same_windows; try assumption.
    apply n_probe_start_lt. exact HMk.
  Qed.

  (* the same, stated on the loaded groups *)
  Corollary reach_ok_same_groups (t t' : table T) hash i : MaskOK (mask t) -> mask t' = mask t ->
    (forall p, p < nb T t -> exists g g', load B T t p = Ok g /\ load B T t' p = Ok g' /\
                                          g_any_empty B g' = g_any_empty B g) ->
    reach_ok B T t' hash i = reach_ok B T t hash i.
  Proof.
    intros HMk Em Hg. apply reach_ok_same_windows; try assumption.
    intros p Hp. destruct (Hg p Hp) as (g & g' & E & E' & Ee).
    rewrite (win_empty_load t p g E), (win_empty_load t' p g' E'). exact Ee.
  Qed.

  (* a table smaller than a group: every loaded group contains EMPTY padding *)
  Lemma win_empty_small t p : Shape B T t -> Mirror B T t -> p < nb T t -> nb T t < GW ->
    win_empty t p = true.
  Proof.
    intros HS HM Hp Hsmall.
    destruct (load_view B T t p HS HM Hp) as (g & Hg & Hlen & Hok & _ & Hv).
    rewrite (win_empty_load t p g Hg), (bs_any_empty B HB g Hok).
    apply existsb_exists. exists (nth (nb T t - p) g 0%Z).
    split; [apply nth_In; lia|]. rewrite (Hv Hsmall (nb T t - p)) by lia.
    destruct (Nat.ltb_spec (p + (nb T t - p)) (nb T t)); [lia|].
    destruct (Nat.ltb_spec (p + (nb T t - p)) GW); [reflexivity|lia].
  Qed.

  (* a table at least as large as a group: the group is a cyclic window of real bytes *)
  Lemma win_empty_big t p : Shape B T t -> Mirror B T t -> p < nb T t -> GW <= nb T t ->
    (win_empty t p = false <-> forall j, j < GW -> byte T t ((p + j) mod nb T t) <> EMPTY).
  Proof.
    intros HS HM Hp Hbig. destruct (load_some B T t HS HM p Hp) as (g & Hg & _).
    rewrite (win_empty_load t p g Hg). apply (group_no_empty_big B T HB t HS HM p g Hp Hbig Hg).
  Qed.

  (* windows of large tables with the same EMPTY/non-EMPTY answer *)
  Lemma win_empty_eq_big (t t' : table T) p :
    Shape B T t -> Mirror B T t -> Shape B T t' -> Mirror B T t' -> mask t' = mask t ->
    p < nb T t -> GW <= nb T t ->
    ((exists j, j < GW /\ byte T t' ((p + j) mod nb T t) = EMPTY) <->
     (exists j, j < GW /\ byte T t ((p + j) mod nb T t) = EMPTY)) ->
    win_empty t' p = win_empty t p.
  Proof.
    intros HS HM HS' HM' Em Hp Hbig Hiff.
    pose proof (same_mask_nb T t t' Em) as Enb.
    pose proof (win_empty_big t p HS HM Hp Hbig) as Ht.
    pose proof (win_empty_big t' p HS' HM' ltac:(lia) ltac:(lia)) as Ht'. rewrite Enb in Ht'.
    destruct (win_empty t' p) eqn:E', (win_empty t p) eqn:E; try reflexivity; exfalso.
    - assert (X : true = false); [|discriminate X]. apply Ht'.
      intros j Hj Ej.
      destruct (proj1 Hiff (ex_intro _ j (conj Hj Ej))) as (j' & Hj' & Ej').
      exact (proj1 Ht eq_refl j' Hj' Ej').
    - assert (X : true = false); [|discriminate X]. apply Ht.
      intros j Hj Ej.
      destruct (proj2 Hiff (ex_intro _ j (conj Hj Ej))) as (j' & Hj' & Ej').
      exact (proj1 Ht' eq_refl j' Hj' Ej').
  Qed.

  (* reach_ok depends only on the mask and on the SET of EMPTY buckets *)
  Theorem reach_ok_same_empties (t t' : table T) hash i :
    Shape B T t -> Mirror B T t -> Shape B T t' -> Mirror B T t' -> mask t' = mask t ->
    (forall j, j < nb T t -> (byte T t' j = EMPTY <-> byte T t j = EMPTY)) ->
    reach_ok B T t' hash i = reach_ok B T t hash i.
  Proof.
    intros HS HM HS' HM' Em Hsame.
    pose proof (same_mask_nb T t t' Em) as Enb.
    pose proof (Shape_nb_ge2 B T t HS) as Hnb2.
    apply reach_ok_same_windows; [apply (Shape_MaskOK B T t HS)|exact Em|].
    intros p Hp. destruct (Nat.le_gt_cases GW (nb T t)) as [Hbig|Hsmall].
    - apply win_empty_eq_big; try assumption.
      assert (Hlt : forall j, (p + j) mod nb T t < nb T t) by (intros j; apply Nat.mod_upper_bound; lia).
      split; intros (j & Hj & Ej); exists j; (split; [exact Hj|]); apply (Hsame _ (Hlt j)); exact Ej.
    - rewrite (win_empty_small t p HS HM Hp Hsmall).
      apply win_empty_small; try assumption; lia.
  Qed.

  (* -------------------------------------------------------------------------------------- *)
  (* W3: remove                                                                               *)
  (* -------------------------------------------------------------------------------------- *)
  Lemma empty_lz_le g : group_ok GW g -> g_empty_lz B g <= GW.
  Proof.
    intros Hok. rewrite (bs_empty_lz B HB g Hok). destruct Hok as [Hlen _].
    rewrite <- Hlen, <- rev_length. apply prefix_len_le.
  Qed.

  Lemma empty_tz_le g : group_ok GW g -> g_empty_tz B g <= GW.
  Proof.
    intros Hok. rewrite (bs_empty_tz B HB g Hok). destruct Hok as [Hlen _].
    rewrite <- Hlen. apply prefix_len_le.
  Qed.

  (* erase writes EMPTY exactly when the two runs of non-EMPTY bytes around i are short *)
  Lemma erase_choice_empty gb ga : group_ok GW gb -> group_ok GW ga ->
    erase_choose_deleted (zn GW) (zn (g_empty_lz B gb)) (zn (g_empty_tz B ga)) = false ->
    g_empty_lz B gb + g_empty_tz B ga < GW.
  Proof.
    intros Hb Ha H. pose proof (empty_lz_le gb Hb). pose proof (empty_tz_le ga Ha).
    pose proof (zn_GW_le B HW) as HG.
    unfold erase_choose_deleted, wadd in H. unfold zn in *.
    rewrite wrap_small in H by (rewrite two_p_64; lia).
    cmp_norm. bool_hyps. lia.
  Qed.

  (* ... and then the nearest non-run bytes on both sides of i are EMPTY *)
  Lemma erase_empty_neighbours t i gb ga :
    Shape B T t -> Mirror B T t -> i < nb T t -> GW <= nb T t ->
    load B T t (n_index_before GW (mask t) i) = Ok gb -> load B T t i = Ok ga ->
    g_empty_lz B gb + g_empty_tz B ga < GW ->
    byte T t ((i + nb T t - 1 - g_empty_lz B gb) mod nb T t) = EMPTY /\
    byte T t ((i + g_empty_tz B ga) mod nb T t) = EMPTY.
  Proof.
    intros HS HM Hi Hbig Hgb Hga Hsum.
    pose proof (Shape_nb_ge2 B T t HS) as Hnb2.
    pose proof (n_index_before_lt B T t i HS) as Hib.
    pose proof (load_group_ok B T t (n_index_before GW (mask t) i) gb HS ltac:(lia) Hgb) as Hokb.
    pose proof (load_group_ok B T t i ga HS ltac:(lia) Hga) as Hoka.
    rewrite (bs_empty_lz B HB gb Hokb) in *. rewrite (bs_empty_tz B HB ga Hoka) in *.
    set (f := fun b : Z => negb (is_empty b)) in *.
    set (L := prefix_len f (rev gb)) in *. set (R := prefix_len f ga) in *.
    destruct Hokb as [Hlenb _]. destruct Hoka as [Hlena _].
    assert (Hf : forall b, f b = false -> b = EMPTY).
    { intros b Hb. unfold f in Hb. apply negb_false_iff in Hb. apply Z.eqb_eq. exact Hb. }
    split.
    - assert (HL : L < length (rev gb)) by (rewrite rev_length; lia).
      pose proof (prefix_len_stop f (rev gb) 0%Z HL) as Hstop. fold L in Hstop.
      rewrite rev_nth in Hstop by lia. rewrite Hlenb in Hstop.
      rewrite (view_big B T t _ gb HS HM Hib Hbig Hgb (GW - S L)) in Hstop by lia.
      apply Hf in Hstop. rewrite <- Hstop. f_equal.
      rewrite (n_index_before_big GW (mask t) i (Shape_MaskOK B T t HS) Hi Hbig).
      change (S (mask t)) with (nb T t).
      destruct (mod_cases (i + nb T t - GW) (nb T t) ltac:(lia) ltac:(lia)) as [[? E1]|[? E1]]; rewrite E1.
      + f_equal. lia.
      + destruct (mod_cases (i + nb T t - 1 - L) (nb T t) ltac:(lia) ltac:(lia)) as [[? E2]|[? E2]];
        destruct (mod_cases (i + nb T t - GW - nb T t + (GW - S L)) (nb T t) ltac:(lia) ltac:(lia))
          as [[? E3]|[? E3]]; rewrite E2, E3; lia.
    - assert (HR : R < length ga) by lia.
      pose proof (prefix_len_stop f ga 0%Z HR) as Hstop. fold R in Hstop.
      rewrite (view_big B T t i ga HS HM Hi Hbig Hga R) in Hstop by lia.
      apply Hf in Hstop. exact Hstop.
  Qed.

  (* writing EMPTY over such a bucket changes no window's "holds an EMPTY" *)
  Lemma erase_empty_windows (t t' : table T) i gb ga :
    Shape B T t -> Mirror B T t -> Shape B T t' -> Mirror B T t' -> mask t' = mask t ->
    i < nb T t -> is_full (byte T t i) = true ->
    load B T t (n_index_before GW (mask t) i) = Ok gb -> load B T t i = Ok ga ->
    g_empty_lz B gb + g_empty_tz B ga < GW ->
    (forall j, j < nb T t -> j <> i -> byte T t' j = byte T t j) ->
    forall p, p < nb T t -> win_empty t' p = win_empty t p.
  Proof.
    intros HS HM HS' HM' Em Hi Hfull Hgb Hga Hsum Hother p Hp.
    pose proof (same_mask_nb T t t' Em) as Enb.
    pose proof (Shape_nb_ge2 B T t HS) as Hnb2.
    destruct (Nat.le_gt_cases GW (nb T t)) as [Hbig|Hsmall].
    2:{ rewrite (win_empty_small t p HS HM Hp Hsmall). apply win_empty_small; try assumption; lia. }
    apply win_empty_eq_big; try assumption.
    assert (Hlt : forall j, (p + j) mod nb T t < nb T t) by (intros j; apply Nat.mod_upper_bound; lia).
    destruct (erase_empty_neighbours t i gb ga HS HM Hi Hbig Hgb Hga Hsum) as (Ea & Ec).
    split; intros (j & Hj & Ej).
    - destruct (Nat.eq_dec ((p + j) mod nb T t) i) as [Eq|Hne].
      + destruct (window_hits_neighbour (nb T t) GW i (g_empty_lz B gb) (g_empty_tz B ga) p j
                    ltac:(lia) Hbig Hi Hp Hj Hsum Eq) as (j' & Hj' & [E|E]);
          exists j'; (split; [exact Hj'|]); rewrite E; assumption.
      + exists j. split; [exact Hj|]. rewrite <- (Hother _ (Hlt j) Hne). exact Ej.
    - exists j. split; [exact Hj|]. rewrite Hother; [exact Ej|apply Hlt|].
      intros Eq. rewrite Eq in Ej. rewrite Ej in Hfull. discriminate Hfull.
  Qed.

  Lemma remove_erase (t : table T) i e t' : remove B T t i = Ok (e, t') ->
    exists t1, erase B T t i = Ok t1 /\ ctrl t' = ctrl t1.
  Proof.
    unfold remove. destruct (buckets T t <=? i); [discriminate|].
    destruct (erase B T t i) as [t1|]; cbn [bind]; [|discriminate].
    unfold slot_take. destruct (slot_ref T t1 i); cbn [bind]; [|discriminate].
    intros H. injection H as <- <-. exists t1. split; reflexivity.
  Qed.

  (* what remove_safe says about the result, besides SafeWF *)
  Definition RemovedAt (t : table T) (i : nat) (e : T) (t' : table T) : Prop :=
    slot T t i = Some e /\
    mask t' = mask t /\ items t' = (items t - 1)%Z /\
    is_special (byte T t' i) = true /\ slot T t' i = None /\
    (forall j, j < nb T t -> j <> i -> byte T t' j = byte T t j /\ slot T t' j = slot T t j) /\
    Permutation (occupants T t) (e :: occupants T t') /\
    (growth_left t <= growth_left t')%Z /\
    growth_left t' = (if is_empty (byte T t' i) then growth_left t + 1 else growth_left t)%Z /\
    (exists l1 l2, occupants T t = l1 ++ e :: l2 /\ occupants T t' = l1 ++ l2).

  Theorem remove_WF t i :
    WF B T h t -> mask t <> 0 -> i < nb T t -> is_full (byte T t i) = true ->
    exists e t', remove B T t i = Ok (e, t') /\ WF B T h t' /\ RemovedAt t i e t'.
  Proof.
    intros (HSafe & HT & HR) Hm Hi Hfull.
    destruct (SafeWF_alloc B T t HSafe Hm) as (HS & HM & HC).
    destruct (remove_safe B T HW t i HSafe Hm Hi Hfull)
      as (e & t' & E & He & HSafe' & Em & Eit & Hsp & Hnone & Hother & Hperm & Hgle & Hgl & Hsplit).
    exists e, t'. split; [exact E|].
    split; [|exact (conj He (conj Em (conj Eit (conj Hsp (conj Hnone (conj Hother
                     (conj Hperm (conj Hgle (conj Hgl Hsplit)))))))))].
    assert (Enb : nb T t' = nb T t) by (apply same_mask_nb; exact Em).
    assert (Hm' : mask t' <> 0) by (rewrite Em; exact Hm).
    destruct (SafeWF_alloc B T t' HSafe' Hm') as (HS' & HM' & HC').
    split; [exact HSafe'|]. split.
    - intros j x hv Hj Hx Hhx. rewrite Enb in Hj.
      destruct (Nat.eq_dec j i) as [->|Hne]; [rewrite Hnone in Hx; discriminate Hx|].
      destruct (Hother j Hj Hne) as (Eb & Esl). rewrite Esl in Hx. rewrite Eb.
      apply (HT j x hv Hj Hx Hhx).
    - intros j x hv Hj Hx Hhx. rewrite Enb in Hj.
      destruct (Nat.eq_dec j i) as [->|Hne]; [rewrite Hnone in Hx; discriminate Hx|].
      destruct (Hother j Hj Hne) as (_ & Esl). rewrite Esl in Hx.
      pose proof (HR j x hv Hj Hx Hhx) as Hreach.
      pose proof (byte_valid B T t' i HS' ltac:(lia)) as Hv.
      destruct (special_cases _ Hv Hsp) as [Ee|Ed].
      + (* EMPTY was written: no window changes its answer *)
        destruct (erase_choice B T HW t i HSafe Hm Hi Hfull) as (gb & ga & t1 & Hgb & Hga & Eer & Hb1).
        destruct (remove_erase t i e t' E) as (t1' & Eer' & Ec).
        rewrite Eer in Eer'. injection Eer' as <-.
        assert (Ebi : byte T t' i = byte T t1 i) by (unfold byte; rewrite Ec; reflexivity).
        rewrite Ebi in Ee. rewrite Ee in Hb1.
        destruct (erase_choose_deleted (zn GW) (zn (g_empty_lz B gb)) (zn (g_empty_tz B ga))) eqn:Ech;
          [discriminate Hb1|].
        pose proof (n_index_before_lt B T t i HS) as Hib.
        pose proof (load_group_ok B T t (n_index_before GW (mask t) i) gb HS ltac:(lia) Hgb) as Hokb.
        pose proof (load_group_ok B T t i ga HS ltac:(lia) Hga) as Hoka.
        pose proof (erase_choice_empty gb ga Hokb Hoka Ech) as Hsum.
        rewrite (reach_ok_same_windows t t' hv j (Shape_MaskOK B T t HS) Em); [exact Hreach|].
        apply (erase_empty_windows t t' i gb ga); try assumption.
        intros k Hk Hnk. apply (Hother k Hk Hnk).
      + (* DELETED was written: no new EMPTY byte *)
        apply (reach_ok_mono B T HB t t' hv j HS HM); [|exact Hreach].
        split; [exact Em|]. split; [exact HS'|]. split; [exact HM'|].
        intros k Hk Ek. destruct (Nat.eq_dec k i) as [->|Hnk].
        * rewrite Ed in Ek. discriminate Ek.
        * rewrite <- (proj1 (Hother k Hk Hnk)). exact Ek.
  Qed.

  (* the functional form *)
  Corollary remove_WF_eq t i e t' :
    WF B T h t -> mask t <> 0 -> i < nb T t -> is_full (byte T t i) = true ->
    remove B T t i = Ok (e, t') -> WF B T h t' /\ RemovedAt t i e t'.
  Proof.
    intros HWF Hm Hi Hfull E.
    destruct (remove_WF t i HWF Hm Hi Hfull) as (e0 & t0 & E0 & Hres).
    rewrite E in E0. injection E0 as <- <-. exact Hres.
  Qed.

  (* -------------------------------------------------------------------------------------- *)
  (* W4: remove, then insert_in_slot into the same bucket with the same hash                  *)
  (* -------------------------------------------------------------------------------------- *)
  Theorem remove_insert_WF_gen t i e t1 hash value :
    WF B T h t -> mask t <> 0 -> i < nb T t -> is_full (byte T t i) = true ->
    remove B T t i = Ok (e, t1) ->
    (forall hv, h value = Some hv -> hv = hash /\ h e = Some hash) ->
    exists t2, insert_in_slot B T t1 hash i value = Ok t2 /\ WF B T h t2 /\
      mask t2 = mask t /\ items t2 = items t /\ growth_left t2 = growth_left t /\
      byte T t2 i = tag_full hash /\ slot T t2 i = Some value /\
      (forall j, j < nb T t -> j <> i -> byte T t2 j = byte T t j /\ slot T t2 j = slot T t j) /\
      Permutation (e :: occupants T t2) (value :: occupants T t).
  Proof.
    intros (HSafe & HT & HR) Hm Hi Hfull E Hval.
    destruct (SafeWF_alloc B T t HSafe Hm) as (HS & HM & HC).
    destruct (remove_safe B T HW t i HSafe Hm Hi Hfull)
      as (e0 & t0 & E0 & He & HSafe1 & Em1 & Eit1 & Hsp1 & Hnone1 & Hother1 & Hperm1 & Hgle1 & Hgl1 & _).
    rewrite E in E0. injection E0 as <- <-.
    assert (Enb1 : nb T t1 = nb T t) by (apply same_mask_nb; exact Em1).
    assert (Hm1 : mask t1 <> 0) by (rewrite Em1; exact Hm).
    pose proof (SafeWF_growth_bound B T t HSafe) as Hgb.
    assert (Hgl : byte T t1 i = EMPTY -> (0 < growth_left t1)%Z).
    { intros Ee. rewrite Hgl1, Ee. change (is_empty EMPTY) with true. cbv iota. lia. }
    destruct (insert_in_slot_safe B T HW t1 i hash value HSafe1 Hm1 ltac:(lia) Hsp1 Hgl)
      as (t2 & E2 & HSafe2 & Em2 & Eit2 & Ebs & Ess & Hother2 & Egl2 & Hperm2).
    exists t2. split; [exact E2|].
    assert (Em : mask t2 = mask t) by (rewrite Em2; exact Em1).
    assert (Enb : nb T t2 = nb T t) by (apply same_mask_nb; exact Em).
    assert (Hm2 : mask t2 <> 0) by (rewrite Em; exact Hm).
    destruct (SafeWF_alloc B T t2 HSafe2 Hm2) as (HS2 & HM2 & HC2).
    assert (Hother : forall j, j < nb T t -> j <> i ->
                               byte T t2 j = byte T t j /\ slot T t2 j = slot T t j).
    { intros j Hj Hne. destruct (Hother1 j Hj Hne) as (Eb1 & Es1).
      destruct (Hother2 j ltac:(lia) Hne) as (Eb2 & Es2).
      split; [rewrite Eb2; exact Eb1|rewrite Es2; exact Es1]. }
    assert (Hreach : forall hv j, reach_ok B T t2 hv j = reach_ok B T t hv j).
    { intros hv j. apply reach_ok_same_empties; try assumption.
      intros k Hk. destruct (Nat.eq_dec k i) as [->|Hnk].
      - split; intros Ek; exfalso.
        + rewrite Ebs in Ek. pose proof (tag_full_is_full hash) as Hf. rewrite Ek in Hf. discriminate Hf.
        + rewrite Ek in Hfull. discriminate Hfull.
      - rewrite (proj1 (Hother k Hk Hnk)). reflexivity. }
    split; [|split; [exact Em|split; [|split; [|split; [exact Ebs|split; [exact Ess|split; [exact Hother|]]]]]]].
    - split; [exact HSafe2|]. split.
      + intros j x hv Hj Hx Hhx. rewrite Enb in Hj.
        destruct (Nat.eq_dec j i) as [->|Hne].
        * rewrite Ess in Hx. injection Hx as <-. destruct (Hval hv Hhx) as (-> & _). exact Ebs.
        * destruct (Hother j Hj Hne) as (Eb & Esl). rewrite Esl in Hx. rewrite Eb.
          apply (HT j x hv Hj Hx Hhx).
      + intros j x hv Hj Hx Hhx. rewrite Enb in Hj. rewrite Hreach.
        destruct (Nat.eq_dec j i) as [->|Hne].
        * rewrite Ess in Hx. injection Hx as <-. destruct (Hval hv Hhx) as (-> & Hhe).
          apply (HR i e hash Hi He Hhe).
        * destruct (Hother j Hj Hne) as (_ & Esl). rewrite Esl in Hx.
          apply (HR j x hv Hj Hx Hhx).
    - rewrite Eit2, Eit1. lia.
    - rewrite Egl2, Hgl1. destruct (is_empty (byte T t1 i)); lia.
    - apply (Permutation_trans (l' := e :: value :: occupants T t1)).
      + apply perm_skip. exact Hperm2.
      + apply (Permutation_trans (l' := value :: e :: occupants T t1)); [apply perm_swap|].
        apply perm_skip. symmetry. exact Hperm1.
  Qed.

  (* W4 as used for OccupiedEntry::remove + VacantEntry::insert *)
  Theorem remove_insert_WF t i e t1 hash value :
    WF B T h t -> mask t <> 0 -> i < nb T t -> is_full (byte T t i) = true ->
    remove B T t i = Ok (e, t1) -> h e = Some hash -> h value = Some hash ->
    exists t2, insert_in_slot B T t1 hash i value = Ok t2 /\ WF B T h t2 /\
      mask t2 = mask t /\ items t2 = items t /\ growth_left t2 = growth_left t /\
      byte T t2 i = tag_full hash /\ slot T t2 i = Some value /\
      (forall j, j < nb T t -> j <> i -> byte T t2 j = byte T t j /\ slot T t2 j = slot T t j) /\
      Permutation (e :: occupants T t2) (value :: occupants T t).
  Proof.
    intros HWF Hm Hi Hfull E He Hv. apply (remove_insert_WF_gen t i e t1 hash value); try assumption.
    intros hv Hhv. rewrite Hv in Hhv. injection Hhv as <-. split; [reflexivity|exact He].
  Qed.
End WFMut.

(* each of these depends on the more general statement it is derived from
   (slot_write_WF_gen, insert_in_slot_WF_core, reach_ok_same_windows, remove_WF, remove_insert_WF_gen) *)
Print Assumptions slot_write_WF.
Print Assumptions insert_in_slot_WF_fis.
Print Assumptions insert_in_slot_WF_foi.
Print Assumptions insert_in_slot_WF_unhashed.
Print Assumptions reach_ok_same_groups.
Print Assumptions reach_ok_same_empties.
Print Assumptions remove_WF_eq.
Print Assumptions remove_insert_WF.
