(* MapDefs.v -- shared definitions for the map-level theorems (statements only). *)
From Coq Require Import ZArith List Bool Lia Permutation.
From HB Require Import RsPrelude Sse2 Gen Group Raw Map Check AssocSpec WFDefs SafeAllocClear RawOpsSafe.
Import ListNotations.
Open Scope Z_scope.

(* layout parameters of the element type are sane *)
Definition LayoutOK (tsize talign : Z) : Prop :=
  0 <= tsize < 2 ^ 64 /\ exists a, 0 <= a <= 62 /\ talign = 2 ^ a.

(* numeric arguments of an operation are usize values; key ids are arbitrary *)
Definition op_args_ok (op : map_op) : Prop :=
  match op with
  | OpWithCapacity n | OpReserve n | OpTryReserve n | OpShrinkTo n => 0 <= n < 2 ^ 64
  | OpExtend kvs => Z.of_nat (length kvs) < 2 ^ 62
  | _ => True
  end.

(* the reference map `s` describes the table `t`: same elements, each key once *)
Definition AbsRel (t : table kv) (s : spec) : Prop :=
  Permutation (occupants kv t) s /\ NoDup (map k_id s).

(* a hasher defined on every key (a BuildHasher that never panics) *)
Definition TotalHash (hash_of : Z -> option Z) : Prop := forall k, exists h, hash_of k = Some h.

(* the only failures a safe program can observe from the model are the two documented library
   panics of the infallible allocation paths *)
Definition benign (e : err) : Prop := e = PanicCapacityOverflow \/ e = AbortAlloc.

Definition is_unwind (o : out) : bool := match o with OutUnwind => true | _ => false end.
