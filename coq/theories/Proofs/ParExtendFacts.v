(* ParExtendFacts.v -- par_extend gives the sequential result for EVERY chunking of the input
   (Model/ParExtend.v): the map is well-formed afterwards and represents exactly the reference map
   after inserting the concatenation of the chunks in order -- what HashMap::extend of the whole
   sequence yields (MapStepRefine.ref_extend).  No axioms. *)
From Coq Require Import ZArith List Bool Lia Permutation.
From HB Require Import RsPrelude Sse2 Gen Group Raw Map Check AssocSpec ArithFacts WFDefs MapDefs AssocFacts
  MapRefineBase MapStepRefine ParExtend.
Import ListNotations.
Open Scope Z_scope.

Section ParExtendFacts.
  Variable B : backend.
  Hypothesis HW : WidthOK B.
  Hypothesis HB : BackendSpec B.
  Variable tsize talign : Z.
  Hypothesis HL : LayoutOK tsize talign.
  Variable needs_drop : bool.
  Variable hash_of : Z -> option Z.
  Hypothesis Htot : TotalHash hash_of.
  Variable alloc_refuses : bool.

  Local Notation INV := (Inv B tsize talign hash_of).
  Local Notation STEP := (map_step B tsize talign needs_drop true hash_of alloc_refuses).
  Local Notation refines := (map_step_refines_inv B HW HB tsize talign HL needs_drop hash_of Htot alloc_refuses).
  Local Notation ins_all kvs s :=
    (fold_left (fun acc (e : kv) => insert_like acc (k_id e) (k_stamp e) (v_val e)) kvs s).

  Lemma expect_out'' o w s1 s2 : expect o w s1 = Some s2 -> out_eqb o w = true /\ s2 = s1.
  Proof. unfold expect. destruct (out_eqb o w); [|discriminate]. intros H. injection H as <-. split; reflexivity. Qed.

  Lemma extend_chunks_refines : forall chunks t s evs0 t' o evs,
    INV t s -> Forall (fun c => Z.of_nat (length c) < 2 ^ 62) chunks ->
    extend_chunks B tsize talign needs_drop true hash_of alloc_refuses t chunks evs0 = Ok (t', o, evs) ->
    o = OutUnit /\ INV t' (ins_all (concat chunks) s).
  Proof.
    induction chunks as [|c r IH]; intros t s evs0 t' o evs HI Hlen E; cbn [extend_chunks] in E.
    - injection E as <- <- <-. split; [reflexivity|exact HI].
    - inversion Hlen as [|? ? Hc Hr]; subst.
      destruct (STEP t (OpExtend c)) as [[[t1 o1] evs1]|] eqn:Es; cbn [bind] in E; [|discriminate].
      destruct (refines t s (OpExtend c) t1 o1 evs1 Hc I HI Es) as (Hu & s1 & Ea & HI1).
      cbn [spec_accepts] in Ea. apply expect_out'' in Ea. destruct Ea as (Eo & ->).
      destruct o1; cbn in Eo; try discriminate Eo.
      cbn [concat]. rewrite fold_left_app. exact (IH t1 _ _ t' o evs HI1 Hr E).
  Qed.

  Theorem par_extend_refines t s chunks t' o evs :
    INV t s -> Z.of_nat (length (concat chunks)) < 2 ^ 62 ->
    m_par_extend B tsize talign needs_drop true hash_of alloc_refuses t chunks = Ok (t', o, evs) ->
    o = OutUnit /\ INV t' (ins_all (concat chunks) s).
  Proof.
    intros HI Hlen E. unfold m_par_extend in E. cbv zeta in E.
    set (rn := map_extend_reserve (items t =? 0) (zn (length (concat chunks)))) in E.
    assert (Hrn : 0 <= rn < 2 ^ 64) by (apply extend_reserve_range; unfold zn; lia).
    destruct (STEP t (OpReserve rn)) as [[[t1 o1] evs1]|] eqn:Er; cbn [bind] in E; [|discriminate].
    destruct (refines t s (OpReserve rn) t1 o1 evs1 Hrn I HI Er) as (Hu & s1 & Ea & HI1).
    cbn [spec_accepts] in Ea. apply expect_out'' in Ea. destruct Ea as (Eo & ->).
    destruct o1; cbn in Eo; try discriminate Eo.
    apply (extend_chunks_refines chunks t1 s evs1 t' o evs HI1); [|exact E].
    (* every chunk is at most as long as the whole *)
    clear - Hlen. induction chunks as [|c r IH]; [constructor|].
    cbn [concat] in Hlen. rewrite app_length in Hlen. constructor; [lia|apply IH; lia].
  Qed.

  (* two chunkings of the same input sequence: the same reference contents *)
  Corollary par_extend_chunking_irrelevant t s ch1 ch2 t1 o1 e1 t2 o2 e2 :
    INV t s -> concat ch1 = concat ch2 -> Z.of_nat (length (concat ch1)) < 2 ^ 62 ->
    m_par_extend B tsize talign needs_drop true hash_of alloc_refuses t ch1 = Ok (t1, o1, e1) ->
    m_par_extend B tsize talign needs_drop true hash_of alloc_refuses t ch2 = Ok (t2, o2, e2) ->
    exists s', INV t1 s' /\ INV t2 s' /\ Permutation (occupants kv t1) (occupants kv t2).
  Proof.
    intros HI Ec Hlen E1 E2.
    destruct (par_extend_refines t s ch1 t1 o1 e1 HI Hlen E1) as (_ & H1).
    assert (Hlen2 : Z.of_nat (length (concat ch2)) < 2 ^ 62) by (rewrite <- Ec; exact Hlen).
    destruct (par_extend_refines t s ch2 t2 o2 e2 HI Hlen2 E2) as (_ & H2).
    rewrite <- Ec in H2. eexists. split; [exact H1|]. split; [exact H2|].
    destruct H1 as (_ & _ & (P1 & _)). destruct H2 as (_ & _ & (P2 & _)).
    exact (Permutation_trans P1 (Permutation_sym P2)).
  Qed.
End ParExtendFacts.

Print Assumptions par_extend_refines.
Print Assumptions par_extend_chunking_irrelevant.
