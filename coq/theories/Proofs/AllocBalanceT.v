(* AllocBalanceT.v -- the allocation balance of Proofs/AllocBalance.v for the HashTable operations
   (Model/Table.v: table_step) and HashTable histories.  Same statement: requests of a step + the
   block held before = releases + the block held after; every history from HashTable::new() has
   released every block it ever requested except the one it holds.  No axioms. *)
From Coq Require Import ZArith List Bool Lia Permutation.
From HB Require Import RsPrelude Sse2 Gen Group Raw Map Table Check WFDefs IterFacts FindFacts SafeInsertErase SafeAllocClear
  ResizeFacts RawOpsSafe MapDefs MapStepSafe TableStepSafe ReplaceFacts AllocBalance.
Import ListNotations.
Open Scope nat_scope.

Section TableBalance.
  Variable B : backend.
  Hypothesis HW : WidthOK B.
  Hypothesis HB : BackendSpec B.
  Variable tsize talign : Z.
  Hypothesis HL : LayoutOK tsize talign.
  Variable needs_drop : bool.
  Variable hash_of : Z -> option Z.
  Variable alloc_refuses : bool.

  Let Hts : (0 <= tsize < 2 ^ 64)%Z := proj1 HL.
  Let Hta : exists a : Z, (0 <= a <= 62)%Z /\ talign = (2 ^ a)%Z := proj2 HL.

  Local Notation SAFE := (SafeWF B kv).
  Local Notation OWN := (TOwn B kv tsize talign).
  Local Notation HSH := (thasher hash_of).
  Local Notation BAL := (Bal B tsize talign).
  Local Notation STEP t op := (table_step B tsize talign needs_drop true hash_of alloc_refuses t op).

  Definition TGB (t0 : table kv) (r : res tresult) : Prop :=
    match r with Ok (t', _, evs) => BAL t0 t' evs | Fail _ => True end.

  Lemma TGB_with_h t k f : (forall h, TGB t (f h)) -> TGB t (with_h hash_of t k f).
  Proof. intros H. unfold with_h. destruct (hash_of k); [apply H|]. cbn. apply Bal_refl. Qed.

  Lemma foi_bal t h P t1 evs unw r : SAFE t -> OWN t ->
    find_or_find_insert_slot B kv tsize talign needs_drop HSH true t h (pure_eq P) alloc_refuses = Ok (t1, evs, unw, r) ->
    BAL t t1 evs.
  Proof.
    intros H HA E.
    pose proof (find_or_find_insert_slot_spec B kv HW HB tsize talign Hts Hta needs_drop HSH t h P alloc_refuses H HA) as Hpost.
    rewrite E in Hpost. destruct unw; cbn [foi_post] in Hpost.
    - destruct Hpost as (_ & _ & _ & Hu). exact (ReserveUnwind_Bal B tsize talign needs_drop HSH t t1 evs Hu).
    - destruct r as [[i|s]|]; [| |contradiction].
      + destruct Hpost as ((_ & _ & _ & _ & _ & Hm1 & Hev & _) & _). apply ReserveEvs_Bal; [intros _; exact Hm1|exact Hev].
      + destruct Hpost as ((_ & _ & _ & _ & _ & Hm1 & Hev & _) & _). apply ReserveEvs_Bal; [intros _; exact Hm1|exact Hev].
  Qed.

  Lemma bump_all_mask : forall l (t t' : table kv) add os, bump_all t l add = Ok (t', os) -> mask t' = mask t.
  Proof.
    induction l as [|[i|] r IH]; intros t t' add os E; cbn [bump_all] in E.
    - injection E as <- _. reflexivity.
    - destruct (slot_ref kv t i) as [e|]; cbn [bind] in E; [|discriminate].
      destruct (slot_write kv t i _) as [t1|] eqn:Ew; cbn [bind] in E; [|discriminate].
      destruct (bump_all t1 r add) as [[t2 os2]|] eqn:Eb; cbn [bind] in E; [|discriminate]. injection E as <- _.
      rewrite (IH t1 t2 add os2 Eb). exact (slot_write_mask t t1 i _ Ew).
    - destruct (bump_all t r add) as [[t1 os1]|] eqn:Eb; cbn [bind] in E; [|discriminate]. injection E as <- _.
      exact (IH t t1 add os1 Eb).
  Qed.

  Lemma t_retain_loop_gb keep bump : forall fuel t0 t it evs, BAL t0 t evs ->
    match t_retain_loop B needs_drop fuel t it keep bump evs with
    | Ok (t', evs') => BAL t0 t' evs'
    | Fail _ => True
    end.
  Proof.
    induction fuel as [|f IH]; intros t0 t it evs Hb; cbn [t_retain_loop]; [exact I|].
    destruct (iter_next B kv t it) as [[nxt it']|]; cbn [bind]; [|exact I].
    destruct nxt as [i|]; [|exact Hb].
    destruct (slot_ref kv t i) as [e|]; cbn [bind]; [|exact I].
    destruct (slot_write kv t i _) as [t1|] eqn:Ew; cbn [bind]; [|exact I].
    pose proof (Bal_mask_r B tsize talign t0 t t1 evs Hb (slot_write_mask t t1 i _ Ew)) as Hb1.
    destruct (existsb (Z.eqb (k_id e)) keep); [exact (IH t0 t1 it' evs Hb1)|].
    unfold erase_drop. destruct (remove B kv t1 i) as [[e' t2]|] eqn:Er; cbn [bind]; [|exact I].
    apply IH. apply Bal_quiet_app; [|apply quiet_if_drop].
    exact (Bal_mask_r B tsize talign t0 t1 t2 evs Hb1 (remove_mask B t1 t2 i e' Er)).
  Qed.

  Theorem table_step_gb t op : top_args_ok op -> SAFE t -> OWN t -> TGB t (STEP t op).
  Proof.
    intros Hargs H HA. destruct op; cbn [top_args_ok] in Hargs; cbn [table_step].
    - (* TWithCapacity *)
      pose proof (fallible_with_capacity_spec B kv HW tsize talign Hts Hta n alloc_refuses Infallible Hargs) as Hp.
      destruct (fallible_with_capacity B kv tsize talign n alloc_refuses Infallible) as [[[[nt|] evs] tr]|er]; cbn [bind]; [| |exact I].
      + destruct (drop_inner_table B kv tsize talign needs_drop tdrop_ok t) as [[evs0 ok]|] eqn:Ed; cbn [bind]; [|exact I].
        pose proof (drop_inner_bal B HW HB tsize talign HL needs_drop t evs0 ok H HA Ed) as Hb0.
        destruct tr; cbn [fwc_post] in Hp; try contradiction. cbn [TGB].
        apply Bal_comm. apply (Bal_trans B tsize talign t (new_table B kv) nt evs0 evs Hb0).
        destruct Hp as (_ & _ & _ & _ & _ & _ & [(_ & -> & ->)|(_ & _ & (Hm & _) & _ & len & al & off & El & -> & _)]).
        * apply Bal_refl.
        * apply (Bal_alloc_free B tsize talign (new_table B kv) nt len al off []); [exact Hm|exact El|]. left. split; reflexivity.
      + destruct (drop_inner_table B kv tsize talign needs_drop tdrop_ok t) as [[evs0 ok]|]; cbn [bind]; exact I.
    - (* TFind *) apply TGB_with_h. intros h. destruct (Raw.find B kv t h (peq p)) as [[i|]|]; cbn [bind]; [|cbn; apply Bal_refl|exact I].
      destruct (slot_ref kv t i); cbn [bind]; [cbn; apply Bal_refl|exact I].
    - (* TFindMut *) apply TGB_with_h. intros h. destruct (Raw.find B kv t h (peq p)) as [[i|]|]; cbn [bind]; [|cbn; apply Bal_refl|exact I].
      destruct (slot_ref kv t i) as [e|]; cbn [bind]; [|exact I].
      destruct (slot_write kv t i _) as [t1|] eqn:Ew; cbn [bind TGB]; [|exact I].
      apply Bal_quiet; [exact (slot_write_mask t t1 i _ Ew)|constructor].
    - (* TFindEntryRemove *) apply TGB_with_h. intros h. destruct (Raw.find B kv t h (peq p)) as [[i|]|]; cbn [bind]; [|cbn; apply Bal_refl|exact I].
      destruct (remove B kv t i) as [[e t1]|] eqn:Er; cbn [bind TGB]; [|exact I].
      apply Bal_quiet; [exact (remove_mask B t t1 i e Er)|repeat constructor].
    - (* TRemoveReinsert *) apply TGB_with_h. intros h. destruct (Raw.find B kv t h (peq p)) as [[i|]|]; cbn [bind]; [|cbn; apply Bal_refl|exact I].
      destruct (remove B kv t i) as [[e t1]|] eqn:Er; cbn [bind]; [|exact I].
      destruct (insert_in_slot B kv t1 h i _) as [t2|] eqn:Ei; cbn [bind TGB]; [|exact I].
      apply Bal_quiet; [|repeat constructor]. rewrite (insert_in_slot_mask B t1 t2 h i _ Ei). exact (remove_mask B t t1 i e Er).
    - (* TEntryInsert *) apply TGB_with_h. intros h. change (peq (PId k)) with (pure_eq (tpred_holds (PId k))).
      destruct (find_or_find_insert_slot B kv tsize talign needs_drop HSH true t h (pure_eq (tpred_holds (PId k))) alloc_refuses)
        as [[[[t1 evs] unw] r]|] eqn:E; cbn [bind]; [|exact I].
      pose proof (foi_bal t h _ t1 evs unw r H HA E) as Hb.
      destruct unw; [exact Hb|]. destruct r as [[i|s]|]; [| |exact I].
      + destruct (slot_ref kv t1 i) as [e|]; cbn [bind]; [|exact I].
        destruct (slot_write kv t1 i _) as [t2|] eqn:Ew; cbn [bind TGB]; [|exact I].
        apply Bal_quiet_app; [|apply quiet_if_drop]. exact (Bal_mask_r B tsize talign t t1 t2 evs Hb (slot_write_mask t1 t2 i _ Ew)).
      + destruct (insert_in_slot B kv t1 h s _) as [t2|] eqn:Ei; cbn [bind TGB]; [|exact I].
        exact (Bal_mask_r B tsize talign t t1 t2 evs Hb (insert_in_slot_mask B t1 t2 h s _ Ei)).
    - (* TEntryOrInsert *) apply TGB_with_h. intros h. change (peq (PId k)) with (pure_eq (tpred_holds (PId k))).
      destruct (find_or_find_insert_slot B kv tsize talign needs_drop HSH true t h (pure_eq (tpred_holds (PId k))) alloc_refuses)
        as [[[[t1 evs] unw] r]|] eqn:E; cbn [bind]; [|exact I].
      pose proof (foi_bal t h _ t1 evs unw r H HA E) as Hb.
      destruct unw; [exact Hb|]. destruct r as [[i|s]|]; [| |exact I].
      + destruct (slot_ref kv t1 i) as [e|]; cbn [bind]; [exact Hb|exact I].
      + destruct (insert_in_slot B kv t1 h s _) as [t2|] eqn:Ei; cbn [bind TGB]; [|exact I].
        exact (Bal_mask_r B tsize talign t t1 t2 evs Hb (insert_in_slot_mask B t1 t2 h s _ Ei)).
    - (* TEntryDrop *) apply TGB_with_h. intros h. change (peq (PId k)) with (pure_eq (tpred_holds (PId k))).
      destruct (find_or_find_insert_slot B kv tsize talign needs_drop HSH true t h (pure_eq (tpred_holds (PId k))) alloc_refuses)
        as [[[[t1 evs] unw] r]|] eqn:E; cbn [bind]; [|exact I].
      pose proof (foi_bal t h _ t1 evs unw r H HA E) as Hb.
      destruct unw; [exact Hb|]. destruct r as [[i|s]|]; [exact Hb|exact Hb|exact I].
    - (* TInsertUnique *) apply TGB_with_h. intros h.
      pose proof (insert_spec B kv HW HB tsize talign Hts Hta needs_drop HSH t h (mkKV k stamp v) alloc_refuses H HA) as Hpost.
      destruct (Raw.insert B kv tsize talign needs_drop HSH true t h (mkKV k stamp v) alloc_refuses) as [[[[t1 evs] unw] r]|er];
        cbn [bind]; [|exact I].
      destruct unw; cbn [insert_post] in Hpost.
      + destruct Hpost as (_ & _ & _ & Hu). unfold tunwind. cbn [TGB].
        exact (ReserveUnwind_Bal B tsize talign needs_drop HSH t t1 evs Hu).
      + destruct r as [s|]; [|contradiction].
        destruct Hpost as (H1 & _ & _ & _ & _ & _ & Hit & Hev & _). cbn [TGB].
        apply ReserveEvs_Bal; [|exact Hev]. intros _. apply (safe_items_mask B t1 H1).
        destruct (safe_counts B kv t H) as (Hi0 & _). lia.
    - (* TRetain *) destruct (iter_new B kv t) as [it|]; cbn [bind]; [|exact I].
      pose proof (t_retain_loop_gb keep bump (S (buckets kv t)) t t it [] (Bal_refl B tsize talign t)) as Hr.
      destruct (t_retain_loop B needs_drop (S (buckets kv t)) t it keep bump []) as [[t1 evs]|]; cbn [bind]; [exact Hr|exact I].
    - (* TExtractIf *) destruct (iter_new B kv t) as [it|]; cbn [bind]; [|exact I].
      pose proof (extract_loop_gb B tsize talign sel (S (buckets kv t)) t t it n [] [] (Bal_refl B tsize talign t)) as Hr.
      destruct (extract_loop B (S (buckets kv t)) t it sel n [] []) as [[[t1 acc] evs]|]; cbn [bind]; [exact Hr|exact I].
    - (* TDrain *) pose proof (m_drain_gb B tsize talign needs_drop t n) as Hd.
      destruct (m_drain B needs_drop t n) as [[[t1 o] evs]|]; cbn [bind]; [exact Hd|exact I].
    - (* TClear *)
      destruct (clear_safe B kv HW HB tsize talign needs_drop tdrop_ok t H) as (t' & evs & ok & E & _ & Em & _ & _ & Hp & _).
      rewrite E. cbn [bind]. assert (Hb : BAL t t' evs) by (apply Bal_quiet; [exact Em|exact (drops_prefix_quiet evs _ Hp)]).
      destruct ok; unfold tunwind; exact Hb.
    - (* TReserve *)
      destruct (reserve_spec B kv HW HB tsize talign Hts Hta needs_drop HSH t n alloc_refuses H HA Hargs) as (Hp & _ & Hfast).
      destruct (reserve B kv tsize talign needs_drop HSH true t n alloc_refuses) as [[[[t1 evs] tr] unw]|er] eqn:E; cbn [bind]; [|exact I].
      assert (Hb : BAL t t1 evs).
      { apply (reserve_post_Bal B tsize talign needs_drop HSH t n alloc_refuses Infallible t1 evs tr unw H Hp).
        intros Hle. specialize (Hfast Hle). injection Hfast as <- <- _ _. split; reflexivity. }
      unfold wrap_try, tunwind. destruct unw; exact Hb.
    - (* TTryReserve *)
      destruct (try_reserve_spec B kv HW HB tsize talign Hts Hta needs_drop HSH t n alloc_refuses H HA Hargs) as (Hp & _ & Hfast).
      destruct (try_reserve B kv tsize talign needs_drop HSH true t n alloc_refuses) as [[[[t1 evs] tr] unw]|er] eqn:E; cbn [bind]; [|exact I].
      assert (Hb : BAL t t1 evs).
      { apply (reserve_post_Bal B tsize talign needs_drop HSH t n alloc_refuses Fallible t1 evs tr unw H Hp).
        intros Hle. specialize (Hfast Hle). injection Hfast as <- <- _ _. split; reflexivity. }
      unfold wrap_try, tunwind. destruct unw; exact Hb.
    - (* TShrinkTo *)
      pose proof (shrink_to_spec B kv HW HB tsize talign Hts Hta needs_drop tdrop_ok HSH t n alloc_refuses H HA Hargs) as Hp.
      destruct (shrink_to B kv tsize talign needs_drop tdrop_ok HSH t n alloc_refuses) as [[[t1 evs] unw]|er]; cbn [bind]; [|exact I].
      destruct unw; cbn [shrink_post] in Hp; unfold tunwind; cbn [TGB].
      + destruct Hp as (-> & _ & len & al & -> & _). apply Bal_alloc_then_free.
      + destruct Hp as (_ & _ & _ & _ & _ & _ & _ & _ & [(-> & ->)|[(-> & Hf)|(Hm & len & al & off & fevs & El & _ & -> & Hf)]]).
        * apply Bal_refl.
        * apply Bal_free_old. exact Hf.
        * exact (Bal_alloc_free B tsize talign t t1 len al off fevs Hm El Hf).
    - (* TShrinkToFit *)
      assert (Hit : (0 <= items t < 2 ^ 64)%Z).
      { destruct (safe_counts B kv t H) as (Hi0 & Hg0 & Hsum & Hcap & Hnb). change (2 ^ 62)%Z with 4611686018427387904%Z in Hnb.
        change (2 ^ 64)%Z with 18446744073709551616%Z. lia. }
      pose proof (shrink_to_spec B kv HW HB tsize talign Hts Hta needs_drop tdrop_ok HSH t (items t) alloc_refuses H HA Hit) as Hp.
      destruct (shrink_to B kv tsize talign needs_drop tdrop_ok HSH t (items t) alloc_refuses) as [[[t1 evs] unw]|er]; cbn [bind]; [|exact I].
      destruct unw; cbn [shrink_post] in Hp; unfold tunwind; cbn [TGB].
      + destruct Hp as (-> & _ & len & al & -> & _). apply Bal_alloc_then_free.
      + destruct Hp as (_ & _ & _ & _ & _ & _ & _ & _ & [(-> & ->)|[(-> & Hf)|(Hm & len & al & off & fevs & El & _ & -> & Hf)]]).
        * apply Bal_refl.
        * apply Bal_free_old. exact Hf.
        * exact (Bal_alloc_free B tsize talign t t1 len al off fevs Hm El Hf).
    - (* TGetManyMut *)
      destruct (many_find B hash_of t reqs) as [[l|]|]; cbn [bind]; [|cbn; apply Bal_refl|exact I].
      destruct (has_dup l); [cbn; apply Bal_refl|].
      destruct (bump_all t l add) as [[t1 os]|] eqn:Eb; cbn [bind TGB]; [|exact I].
      apply Bal_quiet; [exact (bump_all_mask l t t1 add os Eb)|constructor].
    - (* TIterHash *) apply TGB_with_h. intros h. destruct (iter_hash B t h); cbn [bind]; [|exact I].
      destruct (elems_at t _); cbn [bind]; [cbn; apply Bal_refl|exact I].
    - (* TIter *) destruct (iter_new B kv t) as [it|]; cbn [bind]; [|exact I].
      destruct (iter_all B kv t it); cbn [bind]; [|exact I]. destruct (elems_at t _); cbn [bind]; [cbn; apply Bal_refl|exact I].
    - (* TLen *) cbn. apply Bal_refl.
    - (* TCapacity *) cbn. apply Bal_refl.
    - (* TAllocationSize *) destruct (allocation_size B kv tsize talign t); cbn [bind]; [cbn; apply Bal_refl|exact I].
    - (* TDropTable *)
      destruct (drop_inner_table B kv tsize talign needs_drop tdrop_ok t) as [[evs0 ok]|] eqn:Ed; cbn [bind]; [|exact I].
      exact (drop_inner_bal B HW HB tsize talign HL needs_drop t evs0 ok H HA Ed).
  Qed.

  Corollary table_step_bal t op t' o evs : top_args_ok op -> SAFE t -> OWN t ->
    STEP t op = Ok (t', o, evs) -> BAL t t' evs.
  Proof. intros Ha H HA E. pose proof (table_step_gb t op Ha H HA) as G. rewrite E in G. exact G. Qed.
End TableBalance.

Section TableHistory.
  Variable B : backend.
  Hypothesis HW : WidthOK B.
  Hypothesis HB : BackendSpec B.
  Variable tsize talign : Z.
  Hypothesis HL : LayoutOK tsize talign.
  Variable needs_drop : bool.

  Fixpoint trun_log (t : table kv) (ops : list (tbl_op * bool * (Z -> option Z))) (log : list (event kv))
    : res (table kv * list (event kv)) :=
    match ops with
    | [] => Ok (t, log)
    | (op, ar, h) :: r =>
        '(t1, _, evs) <- table_step B tsize talign needs_drop true h ar t op ;;
        trun_log t1 r (log ++ evs)
    end.

  Theorem trun_log_bal : forall ops t log t0 t' log',
    (forall x, In x ops -> top_args_ok (fst (fst x))) ->
    SafeWF B kv t -> TOwn B kv tsize talign t -> Bal B tsize talign t0 t log ->
    trun_log t ops log = Ok (t', log') ->
    SafeWF B kv t' /\ TOwn B kv tsize talign t' /\ Bal B tsize talign t0 t' log'.
  Proof.
    induction ops as [|[[op ar] h] r IH]; intros t log t0 t' log' Hargs H HA Hb E; cbn [trun_log] in E.
    - injection E as <- <-. repeat split; assumption.
    - assert (Ha : top_args_ok op) by (apply (Hargs (op, ar, h)); left; reflexivity).
      pose proof (table_step_good B HW HB tsize talign HL needs_drop h ar t op Ha H HA) as Hg.
      pose proof (table_step_gb B HW HB tsize talign HL needs_drop h ar t op Ha H HA) as Hs.
      destruct (table_step B tsize talign needs_drop true h ar t op) as [[[t1 o] evs]|]; cbn [bind] in E; [|discriminate].
      destruct Hg as (H1 & HA1). cbn [TGB] in Hs.
      apply (IH t1 (log ++ evs) t0 t' log'); try assumption.
      + intros x Hx. apply Hargs. right. exact Hx.
      + exact (Bal_trans B tsize talign t0 t t1 log evs Hb Hs).
  Qed.

  Corollary table_history_balanced ops t' log :
    (forall x, In x ops -> top_args_ok (fst (fst x))) ->
    trun_log (new_table B kv) ops [] = Ok (t', log) ->
    Permutation (allocs log) (frees log ++ blk B tsize talign t').
  Proof.
    intros Hargs E.
    destruct (trun_log_bal ops (new_table B kv) [] (new_table B kv) t' log Hargs
                (new_table_safe B kv) (TOwn_new_table B kv tsize talign) (Bal_refl B tsize talign _) E) as (_ & _ & Hb).
    unfold Bal in Hb. change (blk B tsize talign (new_table B kv)) with (@nil (Z * Z)) in Hb. rewrite app_nil_r in Hb. exact Hb.
  Qed.
End TableHistory.

Print Assumptions table_step_bal.
Print Assumptions table_history_balanced.
