(* BorrowFacts.v -- the three signature rules of Model/Borrow.v hold for every public method
   signature generated from the source (finite enumeration by vm_compute, lifted with
   forallb_forall), in Prop form.  No axioms. *)
From Coq Require Import String List Bool.
From HB Require Import Gen.GenTypes Model.Marker Spec.AccessTable Model.Borrow.
Import ListNotations.
Open Scope string_scope.

(* the generator reported no untranslatable impl block (otherwise this file does not compile) *)
Definition sigs_complete : True := gen_sigs_complete.

Lemma all_sigs_ok : forallb sig_ok gen_sigs = true.
Proof. vm_compute. reflexivity. Qed.

Lemma sig_ok_of g : In g gen_sigs -> rule_U g = true /\ rule_B g = true /\ rule_L g = true /\ rule_S g = true.
Proof.
  intros H. pose proof (proj1 (forallb_forall sig_ok gen_sigs) all_sigs_ok g H) as Hg.
  unfold sig_ok in Hg. apply andb_prop in Hg. destruct Hg as (Hg & HS). apply andb_prop in Hg. destruct Hg as (Hg & HL).
  apply andb_prop in Hg. destruct Hg as (HU & HB).
  repeat split; assumption.
Qed.

Theorem unique_needs_unique_receiver g : In g gen_sigs ->
  (s_ret_refmut g = true \/ exists X, In X (s_ret_heads g) /\ unique_handle X = true) ->
  s_recv g = RecvMut \/ s_recv g = RecvOwn.
Proof.
  intros H Hr. destruct (sig_ok_of g H) as (HU & _ & _). unfold rule_U in HU.
  assert (Hu : ret_unique g = true).
  { unfold ret_unique. destruct Hr as [Hr|(X & HX & HXu)]; [rewrite Hr; reflexivity|].
    apply orb_true_iff. right. apply existsb_exists. exists X. split; assumption. }
  rewrite Hu in HU. cbn [implb] in HU. destruct (s_recv g); cbn in HU; try discriminate; [left|right]; reflexivity.
Qed.

Theorem borrow_has_source g : In g gen_sigs -> ret_borrows g = true ->
  s_recv g <> RecvNone \/ s_args_borrow g = true.
Proof.
  intros H Hr. destruct (sig_ok_of g H) as (_ & HB & _). unfold rule_B in HB. rewrite Hr in HB. cbn [implb] in HB.
  apply orb_true_iff in HB. destruct HB as [HB|HB]; [left|right; exact HB].
  destruct (s_recv g); cbn in HB; try discriminate; intros C; discriminate C.
Qed.

Theorem return_lifetimes_bound g l : In g gen_sigs -> In l (s_ret_lts g) ->
  (In l (s_fn_lts g) \/ In l (s_impl_lts g)) /\ (In l (s_fn_lts g) -> In l (s_in_lts g)).
Proof.
  intros H Hl. destruct (sig_ok_of g H) as (_ & _ & HL & _). unfold rule_L in HL.
  pose proof (proj1 (forallb_forall _ _) HL l Hl) as Hx. cbv beta in Hx.
  apply andb_prop in Hx. destruct Hx as (H1 & H2).
  assert (mem_In : forall x ls, mem_s x ls = true <-> In x ls).
  { intros x ls. unfold mem_s. rewrite existsb_exists. split.
    - intros (y & Hy & E). apply String.eqb_eq in E. subst y. exact Hy.
    - intros Hy. exists x. split; [exact Hy|apply String.eqb_refl]. }
  split.
  - apply orb_true_iff in H1. destruct H1 as [H1|H1]; [left|right]; apply mem_In; exact H1.
  - intros Hf. apply mem_In in Hf. rewrite Hf in H2. cbn [implb] in H2. apply mem_In. exact H2.
Qed.

Theorem shared_view_of_unique_handle_reborrows g l : In g gen_sigs ->
  unique_handle (s_owner g) = true -> s_recv g = RecvRef -> hd_error (s_impl_lts g) = Some l ->
  ~ In l (s_ret_lts g).
Proof.
  intros H Hu Hr Hl Hin. destruct (sig_ok_of g H) as (_ & _ & _ & HS). unfold rule_S in HS.
  rewrite Hu, Hr in HS. cbn [recv_shared andb implb] in HS.
  destruct (s_impl_lts g) as [|l0 r]; [discriminate Hl|]. cbn [hd_error] in Hl. injection Hl as ->.
  apply negb_true_iff in HS.
  assert (Hm : mem_s l (s_ret_lts g) = true).
  { unfold mem_s. apply existsb_exists. exists l. split; [exact Hin|apply String.eqb_refl]. }
  rewrite Hm in HS. discriminate HS.
Qed.

(* non-vacuity: the methods one thinks of are in the list and are classified as expected *)
Definition find_sig (o n : string) : option fsig :=
  List.find (fun g => String.eqb (s_owner g) o && String.eqb (s_name g) n) gen_sigs.

Example iter_hash_mut_is_unique :
  match find_sig "table::HashTable" "iter_hash_mut" with Some g => ret_unique g = true /\ s_recv g = RecvMut | None => False end.
Proof. vm_compute. split; reflexivity. Qed.
Example iter_is_shared :
  match find_sig "map::HashMap" "iter" with Some g => ret_unique g = false /\ ret_borrows g = true /\ s_recv g = RecvRef | None => False end.
Proof. vm_compute. repeat split. Qed.
Example get_mut_is_unique :
  match find_sig "map::HashMap" "get_mut" with Some g => ret_unique g = true /\ s_recv g = RecvMut | None => False end.
Proof. vm_compute. split; reflexivity. Qed.
Example drain_is_unique :
  match find_sig "set::HashSet" "drain" with Some g => ret_unique g = true /\ s_recv g = RecvMut | None => False end.
Proof. vm_compute. split; reflexivity. Qed.
Example into_mut_consumes :
  match find_sig "map::OccupiedEntry" "into_mut" with Some g => ret_unique g = true /\ s_recv g = RecvOwn | None => False end.
Proof. vm_compute. split; reflexivity. Qed.
Example drain_rustc_iter_reborrows :
  match find_sig "map::Drain" "rustc_iter" with
  | Some g => unique_handle (s_owner g) = true /\ s_recv g = RecvRef /\ s_ret_elided g = true /\ s_ret_lts g = []
  | None => False end.
Proof. vm_compute. repeat split. Qed.
Example vacant_entry_ref_key_copies_the_shared_lifetime :
  match find_sig "map::VacantEntryRef" "key" with
  | Some g => unique_handle (s_owner g) = true /\ s_recv g = RecvRef /\ s_impl_lts g = ["a"; "b"] /\ s_ret_lts g = ["b"]
  | None => False end.
Proof. vm_compute. repeat split. Qed.
Example counts : (length gen_sigs >= 200 /\ length (filter ret_unique gen_sigs) >= 80 /\ length (filter ret_borrows gen_sigs) >= 120)%nat.
Proof. vm_compute. repeat split; repeat constructor. Qed.

Print Assumptions unique_needs_unique_receiver.
Print Assumptions borrow_has_source.
Print Assumptions return_lifetimes_bound.
Print Assumptions shared_view_of_unique_handle_reborrows.
