(* ShrinkBound.v -- the missing clause of the shrink_to contract:

     "... and otherwise leave the allocation no larger than a fresh with_capacity(max(len, m))
      would be".

   fresh_table_buckets      a fresh fallible_with_capacity(cap), cap <> 0, has exactly
                            capacity_to_buckets(cap) buckets
   shrink_to_fresh_bound    after shrink_to(m) (not unwound) the table has at most
                            capacity_to_buckets(max(len, m)) buckets
   shrink_to_vs_fresh       the same, stated against the table fallible_with_capacity(max(len, m))
                            returns (including max(len, m) = 0: both are the singleton)
   layout_for_len_mono      the block size is monotone in the (power of two) bucket count
   shrink_to_fresh_alloc    allocation_size after shrink_to(m) <= allocation_size of the fresh table

   shrink_post (RawOpsSafe.v) is left untouched.  No axioms. *)
From Coq Require Import ZArith List Bool Lia Permutation.
From HB Require Import RsPrelude Sse2 Gen Group Raw Check ArithFacts Triangular WFDefs GroupFacts
  ProbeFacts IterFacts SafeInsertErase SafeAllocClear FindFacts ResizeFacts RehashSafe WFInsertRemove
  RawOpsSafe.
Import ListNotations.
Open Scope nat_scope.

Section ShrinkBound.
  Variable B : backend.
  Variable T : Type.
  Hypothesis HW : WidthOK B.
  Hypothesis HB : BackendSpec B.

  Variable tsize talign : Z.
  Hypothesis Hts : (0 <= tsize < 2 ^ 64)%Z.
  Hypothesis Hta : exists a : Z, (0 <= a <= 62)%Z /\ talign = (2 ^ a)%Z.

  Variable needs_drop : bool.
  Variable drop_ok : T -> bool.
  Variable hasher : T -> option Z.

  Local Notation GW := (bk_width B).
  Local Notation TOwn := (TOwn B T tsize talign).

  (* ---------------------------------------------------------------------------------------- *)
  (* a fresh table has exactly capacity_to_buckets(cap) buckets                                 *)
  (* ---------------------------------------------------------------------------------------- *)
  Theorem fresh_table_buckets cap alloc_refuses f t' evs tr nbk :
    (0 <= cap < 2 ^ 64)%Z ->
    fallible_with_capacity B T tsize talign cap alloc_refuses f = Ok (Some t', evs, tr) ->
    cap <> 0%Z ->
    capacity_to_buckets (zn GW) cap (lay_size B tsize talign) (ctrl_align B tsize talign) = Some nbk ->
    Z.of_nat (nb T t') = nbk.
  Proof.
    intros Hcap E Hnz Hctb.
    pose proof (fallible_with_capacity_spec B T HW tsize talign Hts Hta cap alloc_refuses f Hcap) as Hpost.
    rewrite E in Hpost. destruct tr; cbn [fwc_post] in Hpost; try contradiction.
    destruct Hpost as (_ & _ & _ & _ & _ & _ & [(C & _) | (_ & _ & _ & Hc & _)]); [contradiction|].
    unfold ctb in Hc. rewrite Hctb in Hc. injection Hc as ->. reflexivity.
  Qed.

  (* ---------------------------------------------------------------------------------------- *)
  (* shrink_to leaves at most capacity_to_buckets(max(len, m)) buckets                          *)
  (* ---------------------------------------------------------------------------------------- *)
  Theorem shrink_to_fresh_bound t min_size alloc_refuses t' evs :
    SafeWF B T t -> TOwn t -> (0 <= min_size < 2 ^ 64)%Z ->
    shrink_to B T tsize talign needs_drop drop_ok hasher t min_size alloc_refuses = Ok (t', evs, false) ->
    Z.max (items t) min_size <> 0%Z ->
    forall nbk,
      capacity_to_buckets (zn GW) (Z.max (items t) min_size)
        (lay_size B tsize talign) (ctrl_align B tsize talign) = Some nbk ->
      (Z.of_nat (nb T t') <= nbk)%Z.
  Proof.
    intros Hsafe HA Hmin E Hnz nbk Hctb.
    destruct (safe_counts B T t Hsafe) as (Hi0 & Hg0 & Hsum & Hcapnb & Hnb62).
    revert E Hctb Hnz. unfold shrink_to. cbv zeta.
    set (ms := Z.max (items t) min_size).
    intros E Hctb Hnz.
    assert (Hms : (0 <= ms < 2 ^ 64)%Z).
    { unfold ms. rewrite two_p_62 in Hnb62. rewrite two_p_64 in *. lia. }
    destruct (Z.eqb_spec ms 0) as [E0|_]; [contradiction|].
    rewrite Hctb in E.
    change (buckets T t) with (nb T t) in E.
    destruct (Z.ltb_spec nbk (zn (nb T t))) as [Hlt|Hge].
    2:{ injection E as <- _. exact Hge. }
    destruct (Z.eqb_spec (items t) 0) as [Hit|Hit].
    - (* no element: the result IS the fresh table *)
      destruct (fallible_with_capacity B T tsize talign ms alloc_refuses Infallible)
        as [[[[nt|] fevs] tr]|er] eqn:Ef; cbn [bind] in E; try discriminate E.
      destruct (drop_inner_table B T tsize talign needs_drop drop_ok t) as [[evs2 ok]|er];
        cbn [bind] in E; [|discriminate E].
      injection E as <- _ _.
      rewrite (fresh_table_buckets ms alloc_refuses Infallible nt fevs tr nbk Hms Ef Hnz Hctb).
      apply Z.le_refl.
    - (* the elements moved into a table allocated by fallible_with_capacity(ms) *)
      pose proof (resize_inner_spec B T HW HB tsize talign Hts Hta hasher t ms alloc_refuses Infallible
                    Hsafe HA ltac:(unfold ms in *; lia)) as H.
      destruct (resize_inner B T tsize talign hasher t ms alloc_refuses Infallible)
        as [[[[t1 evs1] tr] unw]|er]; cbn [bind] in E; [|discriminate E].
      destruct tr; try discriminate E. injection E as <- _ ->.
      cbn [resize_post] in H.
      destruct H as (_ & _ & _ & _ & _ & _ & _ & aevs & fevs & _ & HAn & _).
      destruct HAn as [(C & _) | (_ & _ & _ & Hc & _)]; [contradiction|].
      unfold ctb in Hc. rewrite Hctb in Hc. injection Hc as ->. apply Z.le_refl.
  Qed.

  (* the same against the table a fresh with_capacity(max(len, m)) returns *)
  Corollary shrink_to_vs_fresh t min_size alloc_refuses t' evs ar f ft fevs tr :
    SafeWF B T t -> TOwn t -> (0 <= min_size < 2 ^ 64)%Z ->
    shrink_to B T tsize talign needs_drop drop_ok hasher t min_size alloc_refuses = Ok (t', evs, false) ->
    fallible_with_capacity B T tsize talign (Z.max (items t) min_size) ar f = Ok (Some ft, fevs, tr) ->
    nb T t' <= nb T ft.
  Proof.
    intros Hsafe HA Hmin E Ef.
    destruct (safe_counts B T t Hsafe) as (Hi0 & Hg0 & Hsum & Hcapnb & Hnb62).
    assert (Hms : (0 <= Z.max (items t) min_size < 2 ^ 64)%Z).
    { rewrite two_p_62 in Hnb62. rewrite two_p_64 in *. lia. }
    destruct (Z.eq_dec (Z.max (items t) min_size) 0) as [E0|Hnz].
    - (* both are the singleton *)
      pose proof (shrink_to_spec B T HW HB tsize talign Hts Hta needs_drop drop_ok hasher t min_size
                    alloc_refuses Hsafe HA Hmin) as Hp.
      rewrite E in Hp. cbn [shrink_post] in Hp.
      destruct Hp as (_ & _ & _ & _ & _ & _ & Hnew & _).
      rewrite (Hnew ltac:(lia)). unfold nb, buckets. cbn [mask new_table]. lia.
    - pose proof (fallible_with_capacity_spec B T HW tsize talign Hts Hta _ ar f Hms) as Hpost.
      rewrite Ef in Hpost. destruct tr; cbn [fwc_post] in Hpost; try contradiction.
      destruct Hpost as (_ & _ & _ & _ & _ & _ & [(C & _) | (_ & _ & _ & Hc & _)]); [contradiction|].
      pose proof (shrink_to_fresh_bound t min_size alloc_refuses t' evs Hsafe HA Hmin E Hnz _ Hc) as Hle.
      unfold zn in Hle. lia.
  Qed.

  (* ---------------------------------------------------------------------------------------- *)
  (* in bytes                                                                                   *)
  (* ---------------------------------------------------------------------------------------- *)
  Lemma layout_for_len_mono n n' k k' len al off len' al' off' :
    (0 <= k <= k')%Z -> (k' <= 62)%Z -> zn n = (2 ^ k)%Z -> zn n' = (2 ^ k')%Z ->
    layout_for B tsize talign n = Some (len, al, off) ->
    layout_for B tsize talign n' = Some (len', al', off') ->
    (len <= len')%Z.
  Proof.
    intros Hk Hk' Hn Hn'. unfold layout_for.
    destruct (ctrl_align_pow2 B HW tsize talign Hta) as (j & Hj & Ej & HGj).
    rewrite lay_size_eq, Ej, Hn, Hn'.
    rewrite !calculate_layout_for_spec by (try exact (sac_GW_Z B HW); try lia; exact Hts).
    pose proof (pow2_pos j ltac:(lia)) as Hpj.
    pose proof (pow2_pos k ltac:(lia)) as Hpk.
    pose proof (pow2_le_mono k k' ltac:(lia)) as Hkk.
    unfold layout_result. cbv zeta.
    destruct (_ && _); [|discriminate]. intros H. injection H as <- _ _.
    destruct (_ && _); [|discriminate]. intros H. injection H as <- _ _.
    assert (Hraw : (tsize * 2 ^ k <= tsize * 2 ^ k')%Z) by (apply Z.mul_le_mono_nonneg_l; lia).
    pose proof (round_up_mono (tsize * 2 ^ k) (tsize * 2 ^ k') (2 ^ j) Hpj Hraw). lia.
  Qed.

  Lemma safe_nb_pow2 t : SafeWF B T t -> exists k, (0 <= k <= 62)%Z /\ zn (nb T t) = (2 ^ k)%Z.
  Proof.
    intros Hsafe. destruct (Nat.eq_dec (mask t) 0) as [Hm|Hm].
    - exists 0%Z. split; [lia|]. unfold nb, buckets. rewrite Hm. reflexivity.
    - destruct (SafeWF_alloc B T t Hsafe Hm) as (HS & _).
      destruct (MaskOK_zn _ (Shape_MaskOK B T t HS)) as (k & Hk & E & _).
      exists k. split; [lia|exact E].
  Qed.

  (* allocation_size after shrink_to(m) <= allocation_size of a fresh with_capacity(max(len, m)) *)
  Corollary shrink_to_fresh_alloc t min_size alloc_refuses t' evs ar f ft fevs tr sz szf :
    SafeWF B T t -> TOwn t -> (0 <= min_size < 2 ^ 64)%Z ->
    shrink_to B T tsize talign needs_drop drop_ok hasher t min_size alloc_refuses = Ok (t', evs, false) ->
    fallible_with_capacity B T tsize talign (Z.max (items t) min_size) ar f = Ok (Some ft, fevs, tr) ->
    allocation_size B T tsize talign t' = Ok sz ->
    allocation_size B T tsize talign ft = Ok szf ->
    (sz <= szf)%Z.
  Proof.
    intros Hsafe HA Hmin E Ef Esz Eszf.
    pose proof (shrink_to_vs_fresh t min_size alloc_refuses t' evs ar f ft fevs tr Hsafe HA Hmin E Ef) as Hle.
    pose proof (shrink_to_spec B T HW HB tsize talign Hts Hta needs_drop drop_ok hasher t min_size
                  alloc_refuses Hsafe HA Hmin) as Hp.
    rewrite E in Hp. cbn [shrink_post] in Hp. destruct Hp as (Hs' & _).
    destruct (safe_counts B T t Hsafe) as (Hi0 & Hg0 & Hsum & Hcapnb & Hnb62).
    assert (Hms : (0 <= Z.max (items t) min_size < 2 ^ 64)%Z).
    { rewrite two_p_62 in Hnb62. rewrite two_p_64 in *. lia. }
    pose proof (fallible_with_capacity_spec B T HW tsize talign Hts Hta _ ar f Hms) as Hpost.
    rewrite Ef in Hpost. destruct tr; cbn [fwc_post] in Hpost; try contradiction.
    destruct Hpost as (Hsf & _).
    destruct (safe_nb_pow2 t' Hs') as (k & Hk & Ek).
    destruct (safe_nb_pow2 ft Hsf) as (k' & Hk' & Ek').
    assert (Hkk : (k <= k')%Z).
    { destruct (Z.le_gt_cases k k') as [|Hgt]; [assumption|].
      pose proof (pow2_lt_mono k' k ltac:(lia)). unfold zn in *. lia. }
    revert Esz Eszf. unfold allocation_size, is_singleton.
    change (buckets T t') with (nb T t'). change (buckets T ft) with (nb T ft).
    destruct (Nat.eqb_spec (mask ft) 0) as [Hmf|Hmf].
    - (* the fresh table is the singleton: so is t' *)
      assert (Hm' : mask t' = 0) by (unfold nb, buckets in Hle; lia).
      rewrite Hm'. cbn [Nat.eqb]. intros H1 H2. injection H1 as <-. injection H2 as <-. apply Z.le_refl.
    - destruct (layout_for B tsize talign (nb T ft)) as [[[lf af] ofs]|] eqn:Elf; [|discriminate].
      intros Esz Eszf. injection Eszf as <-.
      destruct (layout_for_valid B HW tsize talign Hts Hta (nb T ft) k' lf af ofs Hk' Ek' Elf)
        as (_ & (_ & _ & Hlf) & _).
      destruct (Nat.eqb_spec (mask t') 0) as [Hm'|Hm'].
      + injection Esz as <-. lia.
      + destruct (layout_for B tsize talign (nb T t')) as [[[l' a'] o']|] eqn:El'; [|discriminate].
        injection Esz as <-.
        exact (layout_for_len_mono (nb T t') (nb T ft) k k' l' a' o' lf af ofs
                 ltac:(lia) ltac:(lia) Ek Ek' El' Elf).
  Qed.

  (* buckets and bytes together *)
  Corollary shrink_to_vs_fresh_table t min_size alloc_refuses t' evs ar f ft fevs tr :
    SafeWF B T t -> TOwn t -> (0 <= min_size < 2 ^ 64)%Z ->
    shrink_to B T tsize talign needs_drop drop_ok hasher t min_size alloc_refuses = Ok (t', evs, false) ->
    fallible_with_capacity B T tsize talign (Z.max (items t) min_size) ar f = Ok (Some ft, fevs, tr) ->
    nb T t' <= nb T ft /\
    forall sz szf, allocation_size B T tsize talign t' = Ok sz ->
                   allocation_size B T tsize talign ft = Ok szf -> (sz <= szf)%Z.
  Proof.
    intros Hs HA Hm E Ef. split.
    - exact (shrink_to_vs_fresh t min_size alloc_refuses t' evs ar f ft fevs tr Hs HA Hm E Ef).
    - intros sz szf.
      exact (shrink_to_fresh_alloc t min_size alloc_refuses t' evs ar f ft fevs tr sz szf Hs HA Hm E Ef).
  Qed.
End ShrinkBound.

(* ------------------------------------------------------------------------------------------ *)
(* non-vacuity: SSE2 groups, 24-byte elements aligned to 8                                      *)
(* ------------------------------------------------------------------------------------------ *)
Section Examples.
  Open Scope Z_scope.
  Let hx (x : nat) : option Z := Some (Z.of_nat x * 1000003).
  Let fresh100 : table nat :=
    match fallible_with_capacity sse2_backend nat 24 8 100 false Infallible with
    | Ok (Some t, _, _) => t | _ => new_table sse2_backend nat end.
  Let ins (t : table nat) (x : nat) : table nat :=
    match Raw.insert sse2_backend nat 24 8 false hx true t (Z.of_nat x * 1000003) x false with
    | Ok (t', _, _, _) => t' | Fail _ => t end.

  (* with_capacity(100): 128 buckets, a block of 3216 bytes *)
  Example fresh100_example :
    (nb nat fresh100, items fresh100, allocation_size sse2_backend nat 24 8 fresh100) = (128%nat, 0, Ok 3216) /\
    capacity_to_buckets 16 100 (lay_size sse2_backend 24 8) (ctrl_align sse2_backend 24 8) = Some 128.
  Proof. vm_compute. split; reflexivity. Qed.

  (* empty table, shrink_to(10): the 16 buckets (416 bytes) of a fresh with_capacity(10) *)
  Example shrink_to_10_example :
    match shrink_to sse2_backend nat 24 8 false (fun _ => true) hx fresh100 10 false with
    | Ok (t', evs, unw) =>
        (nb nat t', items t', evs, unw, allocation_size sse2_backend nat 24 8 t') =
        (16%nat, 0, [EvAlloc 416 16; EvFree 3216 16], false, Ok 416)
    | Fail _ => False
    end /\
    capacity_to_buckets 16 (Z.max (items fresh100) 10)
      (lay_size sse2_backend 24 8) (ctrl_align sse2_backend 24 8) = Some 16 /\
    match fallible_with_capacity sse2_backend nat 24 8 10 false Infallible with
    | Ok (Some ft, _, _) => (nb nat ft, allocation_size sse2_backend nat 24 8 ft) = (16%nat, Ok 416)
    | _ => False
    end.
  Proof. vm_compute. repeat split; reflexivity. Qed.

  (* three elements, shrink_to(0) (= shrink_to_fit): the elements move into the 4 buckets
     (116 bytes) of a fresh with_capacity(3) *)
  Example shrink_to_fit_example :
    let t3 := ins (ins (ins fresh100 1%nat) 2%nat) 3%nat in
    (nb nat t3, items t3) = (128%nat, 3) /\
    match shrink_to sse2_backend nat 24 8 false (fun _ => true) hx t3 0 false with
    | Ok (t', evs, unw) =>
        (nb nat t', items t', evs, unw, allocation_size sse2_backend nat 24 8 t') =
        (4%nat, 3, [EvAlloc 116 16; EvFree 3216 16], false, Ok 116)
    | Fail _ => False
    end /\
    capacity_to_buckets 16 (Z.max (items t3) 0)
      (lay_size sse2_backend 24 8) (ctrl_align sse2_backend 24 8) = Some 4.
  Proof. vm_compute. repeat split; reflexivity. Qed.
End Examples.

Print Assumptions fresh_table_buckets.
Print Assumptions shrink_to_fresh_bound.
Print Assumptions shrink_to_vs_fresh.
Print Assumptions shrink_to_fresh_alloc.
Print Assumptions shrink_to_vs_fresh_table.
