(* MarkerFacts.v -- lemmas behind Properties/C16.v.

   The Send/Sync answer of the calculus for a declaration applied to its own parameters depends on
   the assignment only through the (Send, Sync) bits of these finitely many parameters.  So checking
   all 4^k bit vectors (a computation) and lifting with forallb_forall proves the statement for every
   assignment, i.e. for every instantiation of the parameters. *)
From Coq Require Import String List Bool Arith.
From HB Require Import Gen.GenTypes Model.Marker Spec.AccessTable.
Import ListNotations.
Open Scope string_scope.

(* ---------------------------------------------------------------------------------------------- *)
(* executable checks                                                                              *)
(* ---------------------------------------------------------------------------------------------- *)
Fixpoint lseqb (a b : list string) : bool :=
  match a, b with
  | [], [] => true
  | x :: a', y :: b' => String.eqb x y && lseqb a' b'
  | _, _ => false
  end.

Definition row_check (e : env) (r : row) : bool :=
  match lookup e (fst r) with
  | None => false
  | Some d =>
    lseqb (map fst (snd r)) (d_params d) &&
    forallb (fun bits =>
               match decl_marks (marks e FUEL) d bits with
               | None => false
               | Some m =>
                 let s := bind (d_params d) bits in
                 implb (fst m) (forallb (fun pa => send_req (snd pa) (s (fst pa))) (snd r)) &&
                 implb (snd m) (forallb (fun pa => sync_req (snd pa) (s (fst pa))) (snd r))
               end)
            (all_bits (List.length (d_params d)))
  end.

Definition var_check (e : env) (r : row) : bool :=
  forallb (fun pa => match snd pa with
                     | Exclusive => match variance e (fst r) (fst pa) with Some Inv => true | _ => false end
                     | _ => true
                     end) (snd r).

Definition pub_check (e : env) (t : list row) : bool :=
  forallb (fun d => match d_pub d with
                    | [] => true
                    | _ => existsb (fun r => String.eqb (fst r) (d_name d)) t
                    end) e.

(* ---------------------------------------------------------------------------------------------- *)
(* the statements, as propositions                                                                *)
(* ---------------------------------------------------------------------------------------------- *)
Definition row_holds (e : env) (r : row) : Prop :=
  exists d, lookup e (fst r) = Some d /\ map fst (snd r) = d_params d /\
    forall s : sigma,
      marks e (S FUEL) s (self_ty d) <> None /\
      (send e (S FUEL) s (self_ty d) = true ->
         forall P a, In (P, a) (snd r) -> send_req a (s P) = true) /\
      (sync e (S FUEL) s (self_ty d) = true ->
         forall P a, In (P, a) (snd r) -> sync_req a (s P) = true).

(* ---------------------------------------------------------------------------------------------- *)
(* lifting                                                                                        *)
(* ---------------------------------------------------------------------------------------------- *)
Lemma lseqb_eq a b : lseqb a b = true -> a = b.
Proof.
  revert b; induction a as [|x a IH]; destruct b as [|y b]; simpl; try discriminate; auto.
  intros H; apply andb_true_iff in H; destruct H as [H1 H2].
  apply String.eqb_eq in H1; subst; f_equal; auto.
Qed.

Lemma lookup_name e X d : lookup e X = Some d -> d_name d = X.
Proof.
  induction e as [|a e IH]; simpl; [discriminate|].
  destruct (String.eqb (d_name a) X) eqn:E; [|exact IH].
  intros H; inversion H; subst; now apply String.eqb_eq.
Qed.

Lemma seq_params (g : ty -> option bb) (s : sigma) ps :
  (forall p, g (TParam p) = Some (s p)) ->
  sequence (map g (map TParam ps)) = Some (map s ps).
Proof.
  intros G; induction ps as [|p ps IH]; [reflexivity|].
  simpl; rewrite G; simpl in IH; rewrite IH; reflexivity.
Qed.

Lemma marks_self e f s d :
  lookup e (d_name d) = Some d ->
  marks e (S (S f)) s (self_ty d) = decl_marks (marks e (S f)) d (map s (d_params d)).
Proof.
  intros H; unfold self_ty.
  change (marks e (S (S f)) s (TApp (d_name d) (map TParam (d_params d)))) with
    (match lookup e (d_name d) with
     | None => None
     | Some d0 => match sequence (map (marks e (S f) s) (map TParam (d_params d))) with
                  | None => None
                  | Some bits => decl_marks (marks e (S f)) d0 bits
                  end
     end).
  rewrite H, (seq_params (marks e (S f) s) s); auto.
Qed.

Lemma in_all_bits (l : list bb) : In l (all_bits (List.length l)).
Proof.
  induction l as [|b l IH]; simpl; [auto|].
  apply in_flat_map; exists l; split; [exact IH|].
  destruct b as [[|] [|]]; simpl; auto.
Qed.

Lemma bind_map (s : sigma) ps P : In P ps -> bind ps (map s ps) P = s P.
Proof.
  induction ps as [|q ps IH]; simpl; [tauto|].
  intros H; destruct (String.eqb q P) eqn:E.
  - apply String.eqb_eq in E; subst; reflexivity.
  - destruct H as [H|H]; [subst; rewrite String.eqb_refl in E; discriminate | auto].
Qed.

Lemma row_check_holds e r : row_check e r = true -> row_holds e r.
Proof.
  unfold row_check, row_holds.
  destruct (lookup e (fst r)) as [d|] eqn:L; [|discriminate].
  intros H; apply andb_true_iff in H; destruct H as [Hp Hb].
  apply lseqb_eq in Hp.
  exists d; split; [reflexivity|]; split; [exact Hp|].
  intros s.
  pose proof (lookup_name _ _ _ L) as Hn.
  assert (L' : lookup e (d_name d) = Some d) by (rewrite Hn; exact L).
  rewrite forallb_forall in Hb.
  specialize (Hb (map s (d_params d))).
  rewrite <- (map_length s (d_params d)) in Hb.
  specialize (Hb (in_all_bits _)).
  unfold send, sync.
  change (S FUEL) with (S (S 63)).
  rewrite (marks_self e 63 s d L').
  change (S 63) with FUEL.
  destruct (decl_marks (marks e FUEL) d (map s (d_params d))) as [m|]; [|discriminate].
  apply andb_true_iff in Hb; destruct Hb as [Hs Hy].
  assert (Hin : forall P a, In (P, a) (snd r) -> In P (d_params d)).
  { intros P a HI; rewrite <- Hp; change P with (fst (P, a)); apply in_map; exact HI. }
  split; [discriminate|]; split.
  - destruct m as [[|] y]; [|discriminate]. intros _ P a HI.
    simpl in Hs; rewrite forallb_forall in Hs.
    specialize (Hs _ HI); simpl in Hs.
    rewrite (bind_map s _ P (Hin _ _ HI)) in Hs; exact Hs.
  - destruct m as [x [|]]; [|destruct x; discriminate]. intros _ P a HI.
    simpl in Hy; rewrite forallb_forall in Hy.
    specialize (Hy _ HI); simpl in Hy.
    rewrite (bind_map s _ P (Hin _ _ HI)) in Hy; exact Hy.
Qed.

(* ---------------------------------------------------------------------------------------------- *)
(* the facts about this source                                                                    *)
(* ---------------------------------------------------------------------------------------------- *)
Lemma table_checked : forallb (row_check gen_decls) access_table = true.
Proof. vm_compute. reflexivity. Qed.

Lemma table_holds : forall X acc, In (X, acc) access_table -> row_holds gen_decls (X, acc).
Proof.
  intros X acc HI; apply row_check_holds.
  pose proof table_checked as H; rewrite forallb_forall in H; exact (H _ HI).
Qed.

Lemma variance_checked : forallb (var_check gen_decls) access_table = true.
Proof. vm_compute. reflexivity. Qed.

Lemma variance_holds : forall X acc P,
  In (X, acc) access_table -> In (P, Exclusive) acc -> variance gen_decls X P = Some Inv.
Proof.
  intros X acc P HI HP.
  pose proof variance_checked as H; rewrite forallb_forall in H.
  specialize (H _ HI); unfold var_check in H; rewrite forallb_forall in H.
  specialize (H _ HP); simpl in H.
  destruct (variance gen_decls X P) as [[| | |]|]; try discriminate; reflexivity.
Qed.

Lemma public_checked : pub_check gen_decls access_table = true.
Proof. vm_compute. reflexivity. Qed.

Lemma public_covered : forall d, In d gen_decls -> d_pub d <> [] ->
  exists acc, In (d_name d, acc) access_table.
Proof.
  intros d HI Hne.
  pose proof public_checked as H; unfold pub_check in H; rewrite forallb_forall in H.
  specialize (H _ HI). destruct (d_pub d); [congruence|].
  apply existsb_exists in H; destruct H as [[X acc] [H1 H2]]; simpl in H2.
  apply String.eqb_eq in H2; subst; exists acc; exact H1.
Qed.

(* the generated file is complete (sigx.py makes this definition ill-typed otherwise) *)
Lemma gen_complete : gen_types_complete = I.
Proof. reflexivity. Qed.
