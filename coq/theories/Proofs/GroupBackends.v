(* GroupBackends.v -- both scanner back-ends (the portable 64-bit word scanner and the SSE2
   scanner, as GENERATED from the Rust sources into Gen.v) satisfy the byte-wise contract
   BackendSpec of Model/Group.v, and the SSE2 scanner's match_tag is exact.

   Proof structure:
     GB_Bits.v     stride-s BitMask words over boolean lists; lowest_set_bit / remove_lowest_bit /
                   iteration / trailing_zeros / leading_zeros computed structurally
     GB_Sse2.v     movemask is a stride-1 mask word; SSE2 fields
     GB_Generic.v  byte-local land/lxor, carry-free add, ripple-borrow subtraction; generic fields *)
From Coq Require Import ZArith List Bool Lia Sorted.
From HB Require Import RsPrelude Sse2 Gen Group.
From HB Require Import GB_Bits GB_Sse2 GB_Generic.

Theorem generic_backend_spec : BackendSpec generic_backend.
Proof. exact generic_backend_spec_thm. Qed.

Theorem sse2_backend_spec : BackendSpec sse2_backend.
Proof. exact sse2_backend_spec_thm. Qed.

Theorem sse2_exact : ExactMatchTag sse2_backend.
Proof. exact sse2_exact_thm. Qed.

Print Assumptions generic_backend_spec.
Print Assumptions sse2_backend_spec.
Print Assumptions sse2_exact.
