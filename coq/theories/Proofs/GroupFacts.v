(* GroupFacts.v -- G1: the nat wrappers around the generated index arithmetic, in closed form;
   G2: what a loaded group contains (the VIEW lemma); G3: set_ctrl preserves Shape and Mirror;
   G4: counting control bytes across an update. *)
From Coq Require Import ZArith List Bool Lia Znumtheory.
From HB Require Import RsPrelude Sse2 Gen Group Raw Check ArithFacts Triangular WFDefs.
Import ListNotations.
Open Scope nat_scope.

(* ---------------------------------------------------------------------------------------- *)
(* generic list facts                                                                         *)
(* ---------------------------------------------------------------------------------------- *)
Section Lists.
  Context {A : Type}.

  Lemma nth_firstn_lt (l : list A) n j d : j < n -> nth j (firstn n l) d = nth j l d.
  Proof.
    revert l j. induction n as [|n IH]; intros l j Hj; [lia|].
    destruct l as [|x l]; [destruct j; reflexivity|].
    destruct j as [|j]; [reflexivity|]. cbn. apply IH. lia.
  Qed.

  Lemma nth_skipn_add (l : list A) p j d : nth j (skipn p l) d = nth (p + j) l d.
  Proof.
    revert l. induction p as [|p IH]; intros l; [reflexivity|].
    destruct l as [|x l]; [destruct j; reflexivity|]. cbn. apply IH.
  Qed.

  Lemma Forall_firstn_ (P : A -> Prop) n (l : list A) : Forall P l -> Forall P (firstn n l).
  Proof.
    revert l. induction n as [|n IH]; intros l H; [constructor|].
    destruct H; cbn; constructor; auto.
  Qed.

  Lemma Forall_skipn_ (P : A -> Prop) n (l : list A) : Forall P l -> Forall P (skipn n l).
  Proof.
    revert l. induction n as [|n IH]; intros l H; [assumption|].
    destruct H; cbn; [constructor|auto].
  Qed.

  Lemma upd_length (l : list A) i x : i < length l -> length (upd l i x) = length l.
  Proof.
    intros H. unfold upd. rewrite app_length. cbn [length].
    rewrite firstn_length, skipn_length. lia.
  Qed.

  Lemma nth_upd (l : list A) i x j d : i < length l ->
    nth j (upd l i x) d = if j =? i then x else nth j l d.
  Proof.
    intros H. unfold upd.
    assert (Hl : length (firstn i l) = i) by (rewrite firstn_length; lia).
    destruct (Nat.eqb_spec j i) as [->|Hne].
    - rewrite app_nth2 by lia. rewrite Hl, Nat.sub_diag. reflexivity.
    - destruct (Nat.lt_ge_cases j i).
      + rewrite app_nth1 by lia. apply nth_firstn_lt; assumption.
      + rewrite app_nth2 by lia. rewrite Hl.
        destruct (j - i) as [|m] eqn:E; [lia|]. cbn [nth].
        rewrite nth_skipn_add. f_equal. lia.
  Qed.

  Lemma Forall_upd (P : A -> Prop) (l : list A) i x : Forall P l -> P x -> Forall P (upd l i x).
  Proof.
    intros Hl Hx. unfold upd. apply Forall_app. split; [apply Forall_firstn_; assumption|].
    constructor; [assumption|apply Forall_skipn_; assumption].
  Qed.

  Lemma upd_split (l : list A) i d : i < length l -> l = firstn i l ++ nth i l d :: skipn (S i) l.
  Proof.
    revert i. induction l as [|x l IH]; intros i H; cbn in H; [lia|].
    destruct i as [|i]; [reflexivity|].
    cbn [firstn nth app]. change (skipn (S (S i)) (x :: l)) with (skipn (S i) l).
    f_equal. apply IH. lia.
  Qed.

  Lemma firstn_upd (l : list A) n i x : i < n -> n <= length l ->
    firstn n (upd l i x) = upd (firstn n l) i x.
  Proof.
    intros Hi Hn. apply (nth_ext _ _ x x).
    - rewrite upd_length by (rewrite firstn_length; lia).
      rewrite !firstn_length. rewrite upd_length by lia. reflexivity.
    - intros j Hj. rewrite firstn_length, upd_length in Hj by lia.
      rewrite nth_firstn_lt by lia.
      rewrite !nth_upd by (rewrite ?firstn_length; lia).
      rewrite nth_firstn_lt by lia. reflexivity.
  Qed.

  Lemma firstn_upd_ge (l : list A) n i x : n <= i -> i < length l ->
    firstn n (upd l i x) = firstn n l.
  Proof.
    intros Hi Hn. apply (nth_ext _ _ x x).
    - rewrite !firstn_length. rewrite upd_length by lia. reflexivity.
    - intros j Hj. rewrite firstn_length, upd_length in Hj by lia.
      rewrite !nth_firstn_lt by lia.
      rewrite nth_upd by lia. destruct (Nat.eqb_spec j i); [lia|reflexivity].
  Qed.
End Lists.

(* ---------------------------------------------------------------------------------------- *)
(* G1: the nat wrappers                                                                       *)
(* ---------------------------------------------------------------------------------------- *)

(* mask = 2^k - 1 with 1 <= k <= 62 *)
Definition MaskOK (mask : nat) : Prop := exists k : nat, 1 <= k <= 62 /\ S mask = 2 ^ k.

Definition GWOK (GW : nat) : Prop := GW = 8 \/ GW = 16.

Lemma land_ones_mod x k : (0 <= k -> Z.land x (2 ^ k - 1) = x mod 2 ^ k)%Z.
Proof.
  intros Hk. replace (2 ^ k - 1)%Z with (Z.ones k) by (rewrite Z.ones_equiv; lia).
  apply Z.land_ones; lia.
Qed.

Lemma MaskOK_zn mask : MaskOK mask ->
  exists k : Z, (1 <= k <= 62)%Z /\ zn (S mask) = (2 ^ k)%Z /\ zn mask = (2 ^ k - 1)%Z.
Proof.
  intros (k & Hk & E). exists (Z.of_nat k). split; [lia|].
  assert (H : zn (S mask) = (2 ^ Z.of_nat k)%Z).
  { unfold zn. rewrite E, Nat2Z.inj_pow. reflexivity. }
  split; [exact H|]. unfold zn in *. lia.
Qed.

Lemma MaskOK_bounds mask : MaskOK mask -> (2 <= zn (S mask) <= 2 ^ 62)%Z.
Proof.
  intros H. destruct (MaskOK_zn mask H) as (k & Hk & E & _). rewrite E. split.
  - change 2%Z with (2 ^ 1)%Z at 1. apply pow2_le_mono; lia.
  - apply pow2_le_mono; lia.
Qed.

Lemma MaskOK_nz mask : MaskOK mask -> mask <> 0.
Proof. intros H. pose proof (MaskOK_bounds mask H). unfold zn in *. lia. Qed.

Lemma MaskOK_divides_64 mask : MaskOK mask -> (zn (S mask) | 2 ^ 64)%Z.
Proof.
  intros H. destruct (MaskOK_zn mask H) as (k & Hk & E & _). rewrite E.
  exists (2 ^ (64 - k))%Z. rewrite <- Z.pow_add_r by lia. f_equal. lia.
Qed.

Lemma land_zmask mask x : MaskOK mask -> Z.land x (zn mask) = (x mod zn (S mask))%Z.
Proof.
  intros H. destruct (MaskOK_zn mask H) as (k & Hk & E & Em). rewrite Em, E.
  apply land_ones_mod. lia.
Qed.

(* a table smaller than a group divides the group width *)
Lemma small_divides mask GW : MaskOK mask -> GWOK GW -> S mask < GW ->
  exists q, GW = q * S mask.
Proof.
  intros (k & Hk & E) HG Hlt.
  assert (Hk4 : k < 4).
  { destruct (Nat.lt_ge_cases k 4) as [|Hge]; [assumption|].
    pose proof (Nat.pow_le_mono_r 2 4 k ltac:(lia) Hge) as Hp.
    change (2 ^ 4) with 16 in Hp. destruct HG; lia. }
  assert (Hc : k = 1 \/ k = 2 \/ k = 3) by lia.
  destruct Hc as [-> | [-> | ->]]; cbn in E; rewrite E; destruct HG as [-> | ->];
    first [ now (exists 1) | now (exists 2) | now (exists 4) | now (exists 8) | lia ].
Qed.

Lemma n_land_mod x mask : MaskOK mask -> n_land x mask = x mod S mask.
Proof.
  intros H. unfold n_land. rewrite land_zmask by assumption.
  unfold zn, nz. rewrite <- Nat2Z.inj_mod. apply Nat2Z.id.
Qed.

Lemma n_land_lt x mask : MaskOK mask -> n_land x mask < S mask.
Proof. intros H. rewrite n_land_mod by assumption. apply Nat.mod_upper_bound. lia. Qed.

Lemma n_probe_start_land mask hash : n_probe_start mask hash = Z.to_nat (Z.land hash (Z.of_nat mask)).
Proof. reflexivity. Qed.

(* holds for every hash (Z.land with a non-negative mask is non-negative) *)
Lemma n_probe_start_mod mask hash : MaskOK mask ->
  n_probe_start mask hash = Z.to_nat (hash mod Z.of_nat (S mask)).
Proof. intros H. rewrite n_probe_start_land. fold (zn mask). rewrite land_zmask by assumption. reflexivity. Qed.

Lemma n_probe_start_lt mask hash : MaskOK mask -> n_probe_start mask hash < S mask.
Proof.
  intros H. rewrite n_probe_start_mod by assumption.
  pose proof (MaskOK_bounds mask H) as Hb. unfold zn in Hb.
  pose proof (Z.mod_pos_bound hash (Z.of_nat (S mask)) ltac:(lia)). lia.
Qed.

Lemma n_move_next_spec GW mask pos stride : MaskOK mask -> pos < S mask ->
  (zn (stride + GW) <= 2 ^ 62)%Z ->
  n_move_next GW mask pos stride = ((pos + stride + GW) mod S mask, stride + GW).
Proof.
  intros H Hpos Hs. pose proof (MaskOK_bounds mask H) as Hb. rewrite two_p_62 in *.
  unfold n_move_next, probe_move_next, wadd, zn, nz in *.
  rewrite (wrap_small 64 (Z.of_nat stride + Z.of_nat GW)) by (rewrite two_p_64; lia).
  rewrite wrap_small by (rewrite two_p_64; lia).
  fold (zn mask). rewrite land_zmask by assumption. unfold zn.
  f_equal.
  - replace (Z.of_nat pos + (Z.of_nat stride + Z.of_nat GW))%Z with (Z.of_nat (pos + stride + GW)) by lia.
    rewrite <- Nat2Z.inj_mod. apply Nat2Z.id.
  - lia.
Qed.

(* set_ctrl's index2 and erase's index_before, as the source computes them *)
Lemma n_index_before_Z GW mask i : MaskOK mask ->
  n_index_before GW mask i = Z.to_nat ((zn i - zn GW) mod zn (S mask)).
Proof.
  intros H. pose proof (MaskOK_bounds mask H) as Hb.
  unfold n_index_before, erase_index_before, wsub, wrap, nz.
  rewrite land_zmask by assumption.
  rewrite <- Zmod_div_mod; [reflexivity|lia|apply pow2_pos; lia|apply MaskOK_divides_64; assumption].
Qed.

Lemma n_index2_Z GW mask i : MaskOK mask -> GWOK GW ->
  n_index2 GW mask i = Z.to_nat ((zn i - zn GW) mod zn (S mask)) + GW.
Proof.
  intros H HG. pose proof (MaskOK_bounds mask H) as Hb. rewrite two_p_62 in Hb.
  unfold n_index2, set_ctrl_index2, wadd.
  change (Z.land (wsub 64 (zn i) (zn GW)) (zn mask)) with (erase_index_before (zn GW) (zn mask) (zn i)).
  pose proof (n_index_before_Z GW mask i H) as E. unfold n_index_before, nz in E.
  pose proof (Z.mod_pos_bound (zn i - zn GW) (zn (S mask)) ltac:(lia)) as Hm.
  assert (E' : erase_index_before (zn GW) (zn mask) (zn i) = ((zn i - zn GW) mod zn (S mask))%Z).
  { unfold erase_index_before, wsub, wrap. rewrite land_zmask by assumption.
    rewrite <- Zmod_div_mod; [reflexivity|lia|apply pow2_pos; lia|apply MaskOK_divides_64; assumption]. }
  rewrite E'. unfold nz.
  rewrite wrap_small by (rewrite two_p_64; unfold zn in *; destruct HG; lia).
  unfold zn in *. lia.
Qed.

Lemma sub_mod_wrap (i g n : Z) : (0 <= i < g -> g <= n -> (i - g) mod n = i + n - g)%Z.
Proof. intros Hi Hg. symmetry. apply (Z.mod_unique _ _ (-1)%Z); lia. Qed.

Lemma sub_mod_multiple (i q n : Z) : (0 <= i < n -> (i - q * n) mod n = i)%Z.
Proof.
  intros Hi. replace (i - q * n)%Z with (i + (- q) * n)%Z by lia.
  rewrite Z.mod_add by lia. apply Z.mod_small; assumption.
Qed.

Lemma n_index_before_big GW mask i : MaskOK mask -> i < S mask -> GW <= S mask ->
  n_index_before GW mask i = (i + S mask - GW) mod S mask.
Proof.
  intros H Hi HG. rewrite n_index_before_Z by assumption. unfold zn.
  replace (Z.of_nat i - Z.of_nat GW)%Z with (Z.of_nat (i + S mask - GW) + (-1) * Z.of_nat (S mask))%Z by lia.
  rewrite Z.mod_add by lia. rewrite <- Nat2Z.inj_mod. apply Nat2Z.id.
Qed.

Lemma n_index_before_small GW mask i : MaskOK mask -> GWOK GW -> i < S mask -> S mask < GW ->
  n_index_before GW mask i = i.
Proof.
  intros H HG Hi Hlt. rewrite n_index_before_Z by assumption.
  destruct (small_divides mask GW H HG Hlt) as (q & Eq). unfold zn.
  rewrite Eq at 1. rewrite Nat2Z.inj_mul. rewrite sub_mod_multiple by lia. apply Nat2Z.id.
Qed.

Lemma n_index2_big_lo GW mask i : MaskOK mask -> GWOK GW -> GW <= S mask -> i < GW ->
  n_index2 GW mask i = S mask + i.
Proof.
  intros H HG Hle Hi. rewrite n_index2_Z by assumption. unfold zn.
  rewrite sub_mod_wrap by lia. lia.
Qed.

Lemma n_index2_big_hi GW mask i : MaskOK mask -> GWOK GW -> GW <= i -> i < S mask ->
  n_index2 GW mask i = i.
Proof.
  intros H HG Hle Hi. rewrite n_index2_Z by assumption. unfold zn.
  rewrite Z.mod_small by lia. lia.
Qed.

Lemma n_index2_small GW mask i : MaskOK mask -> GWOK GW -> S mask < GW -> i < S mask ->
  n_index2 GW mask i = GW + i.
Proof.
  intros H HG Hlt Hi. rewrite n_index2_Z by assumption.
  destruct (small_divides mask GW H HG Hlt) as (q & Eq). unfold zn.
  rewrite Eq at 1. rewrite Nat2Z.inj_mul. rewrite sub_mod_multiple by lia. lia.
Qed.

(* ---------------------------------------------------------------------------------------- *)
(* control bytes                                                                              *)
(* ---------------------------------------------------------------------------------------- *)
Lemma valid_EMPTY : valid_ctrl EMPTY.
Proof. right; right; reflexivity. Qed.

Lemma valid_DELETED : valid_ctrl DELETED.
Proof. right; left; reflexivity. Qed.

Lemma land128_small b : (0 <= b < 128 -> Z.land b 128 = 0)%Z.
Proof.
  intros Hb. apply Z.bits_inj'. intros n Hn. rewrite Z.land_spec, Z.bits_0.
  change 128%Z with (2 ^ 7)%Z. rewrite Z.pow2_bits_eqb by lia.
  destruct (Z.eqb_spec 7 n) as [<-|]; [|apply andb_false_r].
  rewrite andb_true_r.
  destruct (Z.eq_dec b 0) as [->|Hnz]; [reflexivity|].
  apply Z.bits_above_log2; [lia|]. apply Z.log2_lt_pow2; [lia|]. change (2 ^ 7)%Z with 128%Z. lia.
Qed.

Lemma is_full_small b : (0 <= b < 128)%Z -> is_full b = true.
Proof. intros H. unfold is_full, tag_is_full. rewrite land128_small by assumption. reflexivity. Qed.

Lemma is_special_negb_full b : is_special b = negb (is_full b).
Proof. reflexivity. Qed.

Lemma is_empty_special b : is_empty b = true -> is_special b = true.
Proof. unfold is_empty. intros H. apply Z.eqb_eq in H. subst. reflexivity. Qed.

Lemma is_deleted_special b : is_deleted b = true -> is_special b = true.
Proof. unfold is_deleted. intros H. apply Z.eqb_eq in H. subst. reflexivity. Qed.

Lemma valid_ctrl_cases b : valid_ctrl b ->
  is_full b = true \/ is_deleted b = true \/ is_empty b = true.
Proof.
  intros [H | [-> | ->]]; [left; apply is_full_small; assumption|right; left; reflexivity|right; right; reflexivity].
Qed.

(* ---------------------------------------------------------------------------------------- *)
(* G2: the VIEW lemma                                                                         *)
(* ---------------------------------------------------------------------------------------- *)
Section Table.
  Variable B : backend.
  Variable T : Type.
  Hypothesis HW : WidthOK B.
  Local Notation GW := (bk_width B).

  Lemma WidthOK_GWOK : GWOK GW.
  Proof. exact HW. Qed.

  Lemma Shape_MaskOK t : Shape B T t -> MaskOK (mask t).
  Proof. intros ((k & Hk & E) & _). exists k. split; assumption. Qed.

  Lemma Shape_mask_nz t : Shape B T t -> mask t <> 0.
  Proof. intros H. apply MaskOK_nz, Shape_MaskOK; assumption. Qed.

  Lemma Shape_nb_ge2 t : Shape B T t -> 2 <= nb T t.
  Proof.
    intros H. pose proof (MaskOK_bounds _ (Shape_MaskOK t H)) as Hb.
    unfold nb, buckets, zn in *. lia.
  Qed.

  Lemma byte_valid t i : Shape B T t -> i < nb T t + GW -> valid_ctrl (byte T t i).
  Proof.
    intros (_ & Hl & _ & Hv) Hi. unfold byte.
    apply (proj1 (Forall_nth _ _) Hv). lia.
  Qed.

  Lemma load_ok t p : Shape B T t -> p <= nb T t ->
    load B T t p = Ok (firstn GW (skipn p (ctrl t))).
  Proof.
    intros (_ & Hl & _) Hp. unfold load.
    destruct (Nat.leb_spec (p + GW) (length (ctrl t))); [reflexivity|lia].
  Qed.

  (* raw view: byte j of the group loaded at p is control byte p + j *)
  Lemma load_nth t p g j : Shape B T t -> p <= nb T t -> load B T t p = Ok g -> j < GW ->
    nth j g 0%Z = byte T t (p + j).
  Proof.
    intros HS Hp Hg Hj. rewrite load_ok in Hg by assumption. injection Hg as <-.
    rewrite nth_firstn_lt by assumption. rewrite nth_skipn_add.
    destruct HS as (_ & Hl & _). unfold byte. apply nth_indep. lia.
  Qed.

  Lemma load_group_ok t p g : Shape B T t -> p <= nb T t -> load B T t p = Ok g -> group_ok GW g.
  Proof.
    intros HS Hp Hg. rewrite load_ok in Hg by assumption. injection Hg as <-.
    destruct HS as (_ & Hl & _ & Hv). split.
    - rewrite firstn_length, skipn_length. lia.
    - apply Forall_firstn_, Forall_skipn_. assumption.
  Qed.

  Lemma mod_wrap_once a n : n <= a < 2 * n -> a mod n = a - n.
  Proof.
    intros H. replace a with ((a - n) + 1 * n) at 1 by lia.
    rewrite Nat.mod_add by lia. apply Nat.mod_small. lia.
  Qed.

  (* G2, table at least as large as a group: the group is the window p .. p+GW-1 of the real
     control bytes, wrapping around *)
  Lemma view_big t p g : Shape B T t -> Mirror B T t -> p < nb T t -> GW <= nb T t ->
    load B T t p = Ok g ->
    forall j, j < GW -> nth j g 0%Z = byte T t ((p + j) mod nb T t).
  Proof.
    intros HS HM Hp Hbig Hg j Hj. rewrite (load_nth t p g j) by (assumption || lia).
    unfold Mirror in HM. destruct (Nat.leb_spec GW (nb T t)); [|lia].
    destruct (Nat.lt_ge_cases (p + j) (nb T t)).
    - rewrite Nat.mod_small by assumption. reflexivity.
    - rewrite mod_wrap_once by lia.
      replace (p + j) with (nb T t + (p + j - nb T t)) at 1 by lia. apply HM. lia.
  Qed.

  (* G2, table smaller than a group: real bytes, then EMPTY padding, then the replica *)
  Lemma view_small t p g : Shape B T t -> Mirror B T t -> p < nb T t -> nb T t < GW ->
    load B T t p = Ok g ->
    forall j, j < GW ->
      nth j g 0%Z = if p + j <? nb T t then byte T t (p + j)
                    else if p + j <? GW then EMPTY else byte T t (p + j - GW).
  Proof.
    intros HS HM Hp Hsmall Hg j Hj. rewrite (load_nth t p g j) by (assumption || lia).
    unfold Mirror in HM. destruct (Nat.leb_spec GW (nb T t)); [lia|]. destruct HM as [HM1 HM2].
    destruct (Nat.ltb_spec (p + j) (nb T t)); [reflexivity|].
    destruct (Nat.ltb_spec (p + j) GW).
    - apply HM1. lia.
    - replace (p + j) with (GW + (p + j - GW)) at 1 by lia. apply HM2. lia.
  Qed.

  (* both cases at once: every byte of the group is the real control byte at the MASKED index,
     except for the EMPTY padding of a table smaller than a group *)
  Lemma view_masked t p g : Shape B T t -> Mirror B T t -> p < nb T t -> load B T t p = Ok g ->
    forall j, j < GW ->
      nth j g 0%Z = byte T t ((p + j) mod nb T t) \/
      (nb T t < GW /\ nb T t <= p + j < GW /\ nth j g 0%Z = EMPTY).
  Proof.
    intros HS HM Hp Hg j Hj.
    destruct (Nat.le_gt_cases GW (nb T t)) as [Hbig|Hsmall].
    - left. apply view_big; assumption.
    - pose proof (view_small t p g HS HM Hp Hsmall Hg j Hj) as E.
      destruct (Nat.ltb_spec (p + j) (nb T t)).
      + left. rewrite Nat.mod_small by assumption. exact E.
      + destruct (Nat.ltb_spec (p + j) GW).
        * right. repeat split; try lia.
        * left. rewrite E. f_equal.
          destruct (small_divides (mask t) GW (Shape_MaskOK t HS) HW Hsmall) as (q & Eq).
          fold (buckets T t) in Eq. fold (nb T t) in Eq.
          replace ((p + j) mod nb T t) with (((p + j - GW) + q * nb T t) mod nb T t) by (f_equal; lia).
          rewrite Nat.mod_add by lia. symmetry. apply Nat.mod_small. lia.
  Qed.

  Theorem load_view t p : Shape B T t -> Mirror B T t -> p < nb T t ->
    exists g, load B T t p = Ok g /\ length g = GW /\ group_ok GW g /\
      (GW <= nb T t -> forall j, j < GW -> nth j g 0%Z = byte T t ((p + j) mod nb T t)) /\
      (nb T t < GW -> forall j, j < GW ->
         nth j g 0%Z = if p + j <? nb T t then byte T t (p + j)
                       else if p + j <? GW then EMPTY else byte T t (p + j - GW)).
  Proof.
    intros HS HM Hp. eexists. split; [apply load_ok; [assumption|lia]|].
    pose proof (load_ok t p HS ltac:(lia)) as Hg.
    pose proof (load_group_ok t p _ HS ltac:(lia) Hg) as Hok.
    split; [exact (proj1 Hok)|]. split; [exact Hok|]. split.
    - intros Hbig. apply view_big; assumption.
    - intros Hsmall. apply view_small; assumption.
  Qed.

  Lemma GW_pos : 0 < GW.
  Proof. destruct HW; lia. Qed.

  Lemma load_aligned_0 t : load_aligned B T t 0 = load B T t 0.
  Proof.
    unfold load_aligned. rewrite Nat.mod_0_l by (pose proof GW_pos; lia). reflexivity.
  Qed.

  Theorem load_aligned_0_view t : Shape B T t -> Mirror B T t ->
    exists g0, load_aligned B T t 0 = Ok g0 /\ group_ok GW g0 /\
      (forall j, j < Nat.min GW (nb T t) -> nth j g0 0%Z = byte T t j) /\
      (forall j, nb T t <= j < GW -> nth j g0 0%Z = EMPTY).
  Proof.
    intros HS HM. pose proof (Shape_nb_ge2 t HS) as H2.
    rewrite load_aligned_0. pose proof (load_ok t 0 HS ltac:(lia)) as Hg.
    eexists. split; [exact Hg|]. split; [apply (load_group_ok t 0); [assumption|lia|exact Hg]|]. split.
    - intros j Hj. rewrite (load_nth t 0 _ j HS ltac:(lia) Hg) by lia. reflexivity.
    - intros j Hj.
      rewrite (view_small t 0 _ HS HM ltac:(lia) ltac:(lia) Hg j) by lia. cbn [Nat.add].
      destruct (Nat.ltb_spec j (nb T t)); [lia|]. destruct (Nat.ltb_spec j GW); [reflexivity|lia].
  Qed.

  (* ---------------------------------------------------------------------------------------- *)
  (* G3: set_ctrl                                                                               *)
  (* ---------------------------------------------------------------------------------------- *)
  Lemma index2_cases t i : Shape B T t -> i < nb T t ->
    let i2 := n_index2 GW (mask t) i in
    (GW <= nb T t /\ i < GW /\ i2 = nb T t + i) \/
    (GW <= nb T t /\ GW <= i /\ i2 = i) \/
    (nb T t < GW /\ i2 = GW + i).
  Proof.
    intros HS Hi i2. pose proof (Shape_MaskOK t HS) as HM. unfold nb, buckets in *.
    destruct (Nat.le_gt_cases GW (S (mask t))) as [Hbig|Hsmall].
    - destruct (Nat.lt_ge_cases i GW).
      + left. repeat split; try assumption. apply n_index2_big_lo; assumption.
      + right; left. repeat split; try assumption. apply n_index2_big_hi; assumption.
    - right; right. split; [assumption|]. apply n_index2_small; assumption.
  Qed.

  Theorem set_ctrl_spec t i b : Shape B T t -> Mirror B T t -> i < nb T t -> valid_ctrl b ->
    exists t', set_ctrl B T t i b = Ok t' /\
      mask t' = mask t /\ slots t' = slots t /\ items t' = items t /\ growth_left t' = growth_left t /\
      Shape B T t' /\ Mirror B T t' /\
      (forall j, j < nb T t -> byte T t' j = if j =? i then b else byte T t j) /\
      real_ctrl T t' = upd (real_ctrl T t) i b.
  Proof.
    intros HS HM Hi Hb.
    pose proof (index2_cases t i HS Hi) as Hc. cbv zeta in Hc.
    pose proof HS as (HP & Hl & Hsl & Hv).
    set (i2 := n_index2 GW (mask t) i) in *.
    assert (Hi2 : i2 < length (ctrl t)) by lia.
    unfold set_ctrl. fold i2. unfold is_singleton.
    destruct (Nat.eqb_spec (mask t) 0) as [E0|_]; [exfalso; apply (Shape_mask_nz t HS); assumption|].
    destruct (Nat.ltb_spec i (length (ctrl t))); [|lia].
    destruct (Nat.ltb_spec i2 (length (ctrl t))); [|lia].
    cbn [andb]. eexists. split; [reflexivity|].
    set (t' := with_ctrl T t (upd (upd (ctrl t) i b) i2 b)).
    assert (Hnb : nb T t' = nb T t) by reflexivity.
    assert (Hl1 : length (upd (ctrl t) i b) = length (ctrl t)) by (apply upd_length; lia).
    assert (Hbyte : forall j, byte T t' j = if j =? i2 then b else if j =? i then b else byte T t j).
    { intros j. unfold byte, t'. cbn [ctrl with_ctrl].
      rewrite nth_upd by lia. rewrite nth_upd by lia. reflexivity. }
    repeat split; try reflexivity.
    - exact HP.
    - unfold t'. cbn [ctrl with_ctrl]. rewrite upd_length by lia. rewrite Hl1. exact Hl.
    - exact Hsl.
    - unfold t'. cbn [ctrl with_ctrl]. apply Forall_upd; [apply Forall_upd|]; assumption.
    - unfold Mirror in *. rewrite Hnb.
      destruct (Nat.leb_spec GW (nb T t)) as [Hbig|Hsmall].
      + intros j Hj. rewrite !Hbyte. specialize (HM j Hj).
        destruct (Nat.eqb_spec (nb T t + j) i2), (Nat.eqb_spec (nb T t + j) i),
                 (Nat.eqb_spec j i2), (Nat.eqb_spec j i); try lia; try reflexivity; assumption.
      + destruct HM as [HM1 HM2]. split.
        * intros j Hj. rewrite !Hbyte. specialize (HM1 j Hj).
          destruct (Nat.eqb_spec j i2), (Nat.eqb_spec j i); try lia; assumption.
        * intros j Hj. rewrite !Hbyte. specialize (HM2 j Hj).
          destruct (Nat.eqb_spec (bk_width B + j) i2), (Nat.eqb_spec (bk_width B + j) i),
                   (Nat.eqb_spec j i2), (Nat.eqb_spec j i); try lia; try reflexivity; assumption.
    - intros j Hj. rewrite Hbyte.
      destruct (Nat.eqb_spec j i2), (Nat.eqb_spec j i); try lia; reflexivity.
    - unfold real_ctrl, t'. cbn [ctrl with_ctrl]. change (buckets T (with_ctrl T t _)) with (nb T t).
      fold (nb T t).
      destruct (Nat.lt_ge_cases i2 (nb T t)) as [Hlt|Hge].
      + assert (i2 = i) by lia.
        rewrite firstn_upd by lia. rewrite firstn_upd by lia.
        apply (nth_ext _ _ 0%Z 0%Z).
        * rewrite !upd_length; rewrite ?upd_length; rewrite ?firstn_length; try lia.
        * intros n Hn. rewrite !nth_upd; rewrite ?upd_length; rewrite ?firstn_length; try lia.
          destruct (Nat.eqb_spec n i2), (Nat.eqb_spec n i); try lia; reflexivity.
      + rewrite firstn_upd_ge by lia. apply firstn_upd; lia.
  Qed.

  (* ---------------------------------------------------------------------------------------- *)
  (* G4: counting                                                                               *)
  (* ---------------------------------------------------------------------------------------- *)
  Lemma count_p_app p l1 l2 : count_p p (l1 ++ l2) = count_p p l1 + count_p p l2.
  Proof. unfold count_p. rewrite filter_app, app_length. reflexivity. Qed.

  Lemma count_p_cons p x l : count_p p (x :: l) = (if p x then 1 else 0) + count_p p l.
  Proof. unfold count_p. cbn [filter]. destruct (p x); reflexivity. Qed.

  Theorem count_p_upd p (l : list Z) i b d : i < length l ->
    count_p p (upd l i b) + (if p (nth i l d) then 1 else 0) = count_p p l + (if p b then 1 else 0).
  Proof.
    intros Hi. rewrite (upd_split l i d Hi) at 3. unfold upd.
    rewrite !count_p_app, !count_p_cons. lia.
  Qed.

  Lemma real_ctrl_length t : Shape B T t -> length (real_ctrl T t) = nb T t.
  Proof. intros (_ & Hl & _). unfold real_ctrl. rewrite firstn_length. fold (nb T t). lia. Qed.

  Lemma real_ctrl_nth t i d : i < nb T t -> Shape B T t -> nth i (real_ctrl T t) d = byte T t i.
  Proof.
    intros Hi (_ & Hl & _). unfold real_ctrl. fold (nb T t). rewrite nth_firstn_lt by assumption.
    unfold byte. apply nth_indep. lia.
  Qed.

  Theorem count_p_set_ctrl p t i b t' : Shape B T t -> Mirror B T t -> i < nb T t -> valid_ctrl b ->
    set_ctrl B T t i b = Ok t' ->
    count_p p (real_ctrl T t') + (if p (byte T t i) then 1 else 0) =
    count_p p (real_ctrl T t) + (if p b then 1 else 0).
  Proof.
    intros HS HM Hi Hb E.
    destruct (set_ctrl_spec t i b HS HM Hi Hb) as (t'' & E' & _ & _ & _ & _ & _ & _ & _ & Hr).
    rewrite E in E'. injection E' as <-. rewrite Hr.
    rewrite <- (real_ctrl_nth t i POISON Hi HS).
    apply count_p_upd. rewrite real_ctrl_length by assumption. assumption.
  Qed.
End Table.

Print Assumptions n_land_mod.
Print Assumptions n_probe_start_mod.
Print Assumptions n_move_next_spec.
Print Assumptions n_index2_big_lo.
Print Assumptions n_index2_big_hi.
Print Assumptions n_index2_small.
Print Assumptions n_index_before_big.
Print Assumptions n_index_before_small.
Print Assumptions load_view.
Print Assumptions view_masked.
Print Assumptions load_aligned_0_view.
Print Assumptions set_ctrl_spec.
Print Assumptions count_p_upd.
Print Assumptions count_p_set_ctrl.
