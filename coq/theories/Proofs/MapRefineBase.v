(* MapRefineBase.v -- building blocks of the refinement theorem (Proofs/MapStepRefine.v).

   Inv t s  :=  WF B kv h t  /\  TOwn t  /\  AbsRel t s       (h e = hash_of (k_id e), total)

   Under Inv, the probing functions of the table answer exactly what `lookup s` answers
   (find_key, get_inner_ok, m_entry_ok, m_find_or_slot_ok), and the element-level mutators move
   the abstract contents as put / delete do (write_ok, remove_ok, vacant_insert_ok).  No axioms. *)
From Coq Require Import ZArith List Bool Lia Permutation.
From HB Require Import RsPrelude Sse2 Gen Group Raw Map Check AssocSpec ArithFacts WFDefs GroupFacts ProbeFacts
  IterFacts SafeInsertErase SafeAllocClear FindFacts ResizeFacts WFInsertRemove RawOpsSafe RawOpsWF
  MapDefs AssocFacts.
Import ListNotations.
Open Scope nat_scope.

(* ---------------------------------------------------------------------------------------- *)
(* unique keys among the occupants: one bucket per key                                        *)
(* ---------------------------------------------------------------------------------------- *)
Section OccUnique.
  Context {A : Type}.
  Variable f : A -> Z.

  Lemma nth_Some_lt (l : list (option A)) i e : nth i l None = Some e -> i < length l.
  Proof.
    intros H. destruct (Nat.lt_ge_cases i (length l)) as [Hlt|Hge]; [exact Hlt|].
    rewrite nth_overflow in H by exact Hge. discriminate H.
  Qed.

  Lemma occ_key_unique : forall (l : list (option A)),
    NoDup (map f (occ l)) -> forall i1 i2 e1 e2,
    nth i1 l None = Some e1 -> nth i2 l None = Some e2 -> f e1 = f e2 -> i1 = i2.
  Proof.
    induction l as [|o r IH]; intros Hnd i1 i2 e1 e2 H1 H2 Hf.
    - destruct i1; discriminate H1.
    - assert (Hr : NoDup (map f (occ r))).
      { destruct o as [a|].
        - change (occ (Some a :: r)) with (a :: occ r) in Hnd. cbn [map] in Hnd.
          inversion Hnd; assumption.
        - exact Hnd. }
      assert (Hhead : forall e j x, o = Some e -> nth j r None = Some x -> f e <> f x).
      { intros e j x -> Hj Hfe.
        change (occ (Some e :: r)) with (e :: occ r) in Hnd. cbn [map] in Hnd.
        inversion Hnd as [|? ? Hnin _]; subst. apply Hnin.
        rewrite Hfe. apply in_map. apply occ_In. exists j. split; [|exact Hj].
        exact (nth_Some_lt r j x Hj). }
      destruct i1 as [|j1], i2 as [|j2]; cbn [nth] in H1, H2.
      + reflexivity.
      + exfalso. exact (Hhead e1 j2 e2 H1 H2 Hf).
      + exfalso. exact (Hhead e2 j1 e1 H2 H1 (eq_sym Hf)).
      + f_equal. exact (IH Hr j1 j2 e1 e2 H1 H2 Hf).
  Qed.
End OccUnique.

(* the boolean comparison of outputs is reflexive on the comparable outputs *)
Definition comparable (o : out) : Prop :=
  match o with OutTry _ | OutList _ | OutUnwind | OutLibPanic => False | _ => True end.

Lemma expect_refl o s' : comparable o -> expect o o s' = Some s'.
Proof.
  intros H. unfold expect.
  destruct o; cbn [comparable] in H; try contradiction; cbn [out_eqb];
    rewrite ?Z.eqb_refl, ?Bool.eqb_reflx; reflexivity.
Qed.

Section MapRefine.
  Variable B : backend.
  Hypothesis HW : WidthOK B.
  Hypothesis HB : BackendSpec B.
  Variable tsize talign : Z.
  Hypothesis HL : LayoutOK tsize talign.
  Variable needs_drop : bool.
  Variable hash_of : Z -> option Z.
  Hypothesis Htot : TotalHash hash_of.
  Variable alloc_refuses : bool.

  Let Hts : (0 <= tsize < 2 ^ 64)%Z := proj1 HL.
  Let Hta : exists a : Z, (0 <= a <= 62)%Z /\ talign = (2 ^ a)%Z := proj2 HL.

  Local Notation GW := (bk_width B).
  Local Notation h := (hasher hash_of).
  Local Notation OWN := (TOwn B kv tsize talign).
  Local Notation keyP k := (fun e : kv => (k_id e =? k)%Z).

  Lemma h_total : forall e : kv, exists hash, h e = Some hash.
  Proof. intros e. exact (Htot (k_id e)). Qed.

  Definition Inv (t : table kv) (s : spec) : Prop := WF B kv h t /\ OWN t /\ AbsRel t s.

  Lemma gw_pos' : 0 < GW.
  Proof. destruct HW as [H|H]; rewrite H; lia. Qed.

  (* ---------------------------------------------------------------------------------------- *)
  (* the abstraction relation, pointwise                                                        *)
  (* ---------------------------------------------------------------------------------------- *)
  Lemma keyP_hash k hv : hash_of k = Some hv -> forall e : kv, (k_id e =? k)%Z = true -> h e = Some hv.
  Proof. intros H e E. apply Z.eqb_eq in E. unfold hasher. rewrite E. exact H. Qed.

  Lemma abs_occ_NoDup t s : AbsRel t s -> NoDup (map k_id (occupants kv t)).
  Proof. intros (P & Hnd). apply (NoDup_keys_perm s); [symmetry; exact P|exact Hnd]. Qed.

  Lemma abs_perm t t' s : AbsRel t s -> Permutation (occupants kv t') (occupants kv t) -> AbsRel t' s.
  Proof. intros (P & Hnd) P'. split; [etransitivity; eassumption|exact Hnd]. Qed.

  Lemma abs_slot t s i e : AbsRel t s -> slot kv t i = Some e -> lookup s (k_id e) = Some e.
  Proof.
    intros (P & Hnd) He. apply In_lookup; [exact Hnd|]. apply (Permutation_in _ P).
    apply occupants_In. exists i. split; [|exact He]. exact (nth_Some_lt (slots t) i e He).
  Qed.

  Lemma abs_lookup t s k e : SafeWF B kv t -> AbsRel t s -> lookup s k = Some e ->
    exists i, i < nb kv t /\ slot kv t i = Some e /\ k_id e = k.
  Proof.
    intros Hs (P & Hnd) H. destruct (lookup_Some s k e H) as (Hin & Hk).
    apply (Permutation_in _ (Permutation_sym P)) in Hin. apply occupants_In in Hin.
    destruct Hin as (i & Hi & He). exists i. rewrite <- (SafeWF_slots_length B kv t Hs). auto.
  Qed.

  Lemma abs_none t s k : AbsRel t s -> lookup s k = None ->
    forall i e, slot kv t i = Some e -> (k_id e =? k)%Z = false.
  Proof.
    intros HA H i e He. apply Z.eqb_neq. intros E. rewrite <- E in H.
    rewrite (abs_slot t s i e HA He) in H. discriminate H.
  Qed.

  Lemma abs_AtMostOne t s k : AbsRel t s -> AtMostOne kv t (keyP k).
  Proof.
    intros HA i1 i2 e1 e2 H1 H2 P1 P2. apply Z.eqb_eq in P1, P2.
    apply (occ_key_unique k_id (slots t) (abs_occ_NoDup t s HA) i1 i2 e1 e2 H1 H2). congruence.
  Qed.

  Lemma abs_empty t s : AbsRel t s -> occupants kv t = [] -> s = [].
  Proof. intros (P & _) E. rewrite E in P. apply Permutation_nil. exact P. Qed.

  Lemma abs_nil t : occupants kv t = [] -> AbsRel t [].
  Proof. intros E. split; [rewrite E; apply Permutation_refl|constructor]. Qed.

  Lemma abs_insert t t' s v : AbsRel t s -> lookup s (k_id v) = None ->
    Permutation (occupants kv t') (v :: occupants kv t) -> AbsRel t' (put s v).
  Proof.
    intros (P & Hnd) Hl P'. split; [|apply put_NoDup; exact Hnd].
    rewrite (put_absent s v Hl). etransitivity; [exact P'|]. apply perm_skip. exact P.
  Qed.

  Lemma abs_replace t t' s e e' : AbsRel t s -> lookup s (k_id e') = Some e ->
    Permutation (e :: occupants kv t') (e' :: occupants kv t) -> AbsRel t' (put s e').
  Proof.
    intros (P & Hnd) Hl P'. split; [|apply put_NoDup; exact Hnd].
    apply (Permutation_cons_inv (a := e)).
    etransitivity; [exact P'|]. etransitivity; [apply perm_skip; exact P|].
    symmetry. exact (put_present s e e' Hnd Hl).
  Qed.

  Lemma abs_delete t t' s e : AbsRel t s -> lookup s (k_id e) = Some e ->
    Permutation (occupants kv t) (e :: occupants kv t') -> AbsRel t' (delete s (k_id e)).
  Proof.
    intros (P & Hnd) Hl P'. split; [|apply delete_NoDup; exact Hnd].
    apply (Permutation_cons_inv (a := e)).
    etransitivity; [symmetry; exact P'|]. etransitivity; [exact P|].
    exact (delete_present s _ e Hnd Hl).
  Qed.

  Lemma abs_length t s : SafeWF B kv t -> AbsRel t s -> items t = Z.of_nat (length s).
  Proof.
    intros Hs (P & _). rewrite (occupants_length B kv HW t Hs). f_equal. apply Permutation_length. exact P.
  Qed.

  (* ---------------------------------------------------------------------------------------- *)
  (* the static singleton: probing it finds nothing                                             *)
  (* ---------------------------------------------------------------------------------------- *)
  Lemma find_new_table hash eqf : find B kv (new_table B kv) hash eqf = Ok None.
  Proof.
    pose proof gw_pos' as Hpos.
    unfold find, find_inner.
    assert (Hfuel : probe_fuel B kv (new_table B kv) = 1).
    { unfold probe_fuel, buckets. cbn [mask new_table]. destruct HW as [E|E]; rewrite E; reflexivity. }
    assert (Hstart : n_probe_start (mask (new_table B kv)) hash = 0).
    { unfold n_probe_start, probe_seq, h1. cbn [mask new_table fst]. change (zn 0) with 0%Z.
      rewrite Z.land_0_r. reflexivity. }
    rewrite Hfuel, Hstart. cbn [find_inner_loop].
    assert (Hload : load B kv (new_table B kv) 0 = Ok (repeat EMPTY GW)).
    { unfold load. cbn [ctrl new_table]. rewrite repeat_length. cbn [Nat.add]. rewrite Nat.leb_refl.
      cbn [skipn]. rewrite firstn_repeat_le by lia. reflexivity. }
    rewrite Hload. cbn [bind].
    assert (Hgok : group_ok GW (repeat EMPTY GW)).
    { split; [apply repeat_length|apply valid_repeat_EMPTY]. }
    assert (Hmt : g_match_tag B (repeat EMPTY GW) (tag_full hash) = []).
    { destruct (g_match_tag B (repeat EMPTY GW) (tag_full hash)) as [|j r] eqn:E; [reflexivity|]. exfalso.
      assert (Hin : In j (g_match_tag B (repeat EMPTY GW) (tag_full hash))) by (rewrite E; left; reflexivity).
      pose proof (tag_full_range hash) as Hr.
      pose proof (bs_match_tag_bound B HB _ _ j Hgok Hr Hin) as Hj.
      assert (En : forall i, i < GW -> nth i (repeat EMPTY GW) 0%Z = 255%Z).
      { intros i Hi. rewrite (nth_repeat_lt EMPTY 0%Z GW i Hi). reflexivity. }
      destruct (bs_match_tag_sound B HB _ _ j Hgok Hr Hin) as [H|(_ & i & Hi & H)].
      - rewrite (En j Hj) in H. lia.
      - rewrite (En i ltac:(lia)) in H. lia. }
    rewrite Hmt. cbn [scan_matches bind].
    rewrite (bs_any_empty B HB _ Hgok).
    assert (Hex : existsb is_empty (repeat EMPTY GW) = true).
    { destruct GW; [lia|reflexivity]. }
    rewrite Hex. reflexivity.
  Qed.

  Lemma inv_singleton t s : Inv t s -> mask t = 0 -> t = new_table B kv /\ s = [].
  Proof.
    intros ((Hs & _) & _ & HR) Hm. pose proof (safe_singleton B kv t Hs Hm) as Et.
    split; [exact Et|]. apply (abs_empty t s HR). rewrite Et. reflexivity.
  Qed.

  Lemma slot_full t i e : SafeWF B kv t -> mask t <> 0 -> i < nb kv t -> slot kv t i = Some e ->
    is_full (byte kv t i) = true.
  Proof.
    intros Hs Hm Hi He. destruct (SafeWF_alloc B kv t Hs Hm) as (_ & _ & (_ & _ & _ & Hsl)).
    apply (Hsl i Hi). rewrite He. discriminate.
  Qed.

  Lemma slot_ref_some t i e : SafeWF B kv t -> mask t <> 0 -> i < nb kv t -> slot kv t i = Some e ->
    slot_ref kv t i = Ok e.
  Proof.
    intros Hs Hm Hi He. apply slot_ref_ok; [exact Hm| |exact He].
    rewrite (SafeWF_slots_length B kv t Hs). exact Hi.
  Qed.

  (* ---------------------------------------------------------------------------------------- *)
  (* find answers exactly `lookup`                                                              *)
  (* ---------------------------------------------------------------------------------------- *)
  Lemma find_key t s k hv : Inv t s -> hash_of k = Some hv ->
    match lookup s k with
    | None => find B kv t hv (eq_key k) = Ok None
    | Some e => exists i, mask t <> 0 /\ i < nb kv t /\ slot kv t i = Some e /\ k_id e = k /\
                          slot_ref kv t i = Ok e /\ find B kv t hv (eq_key k) = Ok (Some i)
    end.
  Proof.
    intros HI Hh. pose proof HI as (HWF & HA & HR). pose proof HWF as (Hs & _).
    change (eq_key k) with (pure_eq (keyP k)).
    destruct (Nat.eq_dec (mask t) 0) as [Hm|Hm].
    - destruct (inv_singleton t s HI Hm) as (-> & ->). cbn [lookup]. apply find_new_table.
    - destruct (lookup s k) as [e|] eqn:E.
      + destruct (abs_lookup t s k e Hs HR E) as (i & Hi & He & Hk).
        exists i. split; [exact Hm|]. split; [exact Hi|]. split; [exact He|]. split; [exact Hk|].
        split; [exact (slot_ref_some t i e Hs Hm Hi He)|].
        apply (find_unique B kv HW HB t Hm (keyP k) hv h i e HWF (abs_AtMostOne t s k HR) Hi He).
        * unfold hasher. rewrite Hk. exact Hh.
        * apply Z.eqb_eq. exact Hk.
      + apply (find_absent B kv HW HB t Hm (keyP k) hv Hs). exact (abs_none t s k HR E).
  Qed.

  Lemma items0_spec t s : Inv t s -> items t = 0%Z -> s = [].
  Proof.
    intros ((Hs & _) & _ & HR) Hi. apply (abs_empty t s HR). exact (occupants_items0 B kv HW t Hs Hi).
  Qed.

  (* get_inner *)
  Lemma get_inner_ok t s k (f : option (nat * kv) -> res Map.result) : Inv t s ->
    match lookup s k with
    | None => get_inner B hash_of t k f = f None
    | Some e => exists i, mask t <> 0 /\ i < nb kv t /\ slot kv t i = Some e /\ k_id e = k /\
                          get_inner B hash_of t k f = f (Some (i, e))
    end.
  Proof.
    intros HI. unfold get_inner.
    destruct (Z.eqb_spec (items t) 0) as [Hi0|Hnz].
    - rewrite (items0_spec t s HI Hi0). reflexivity.
    - unfold with_hash. destruct (Htot k) as (hv & Hh). rewrite Hh.
      pose proof (find_key t s k hv HI Hh) as Hf.
      destruct (lookup s k) as [e|].
      + destruct Hf as (i & Hm & Hi & He & Hk & Hr & Ef). exists i.
        repeat (split; [assumption|]). rewrite Ef. cbn [bind]. rewrite Hr. reflexivity.
      + rewrite Hf. reflexivity.
  Qed.

  (* HashMap::entry *)
  Lemma m_entry_ok t s k (occ : Z -> nat -> kv -> res Map.result) (vac : Z -> res Map.result) : Inv t s ->
    exists hv, hash_of k = Some hv /\
    match lookup s k with
    | None => m_entry B hash_of t k occ vac = vac hv
    | Some e => exists i, mask t <> 0 /\ i < nb kv t /\ slot kv t i = Some e /\ k_id e = k /\
                          m_entry B hash_of t k occ vac = occ hv i e
    end.
  Proof.
    intros HI. unfold m_entry, with_hash. destruct (Htot k) as (hv & Hh). rewrite Hh.
    exists hv. split; [reflexivity|].
    pose proof (find_key t s k hv HI Hh) as Hf.
    destruct (lookup s k) as [e|].
    - destruct Hf as (i & Hm & Hi & He & Hk & Hr & Ef). exists i.
      repeat (split; [assumption|]). rewrite Ef. cbn [bind]. rewrite Hr. reflexivity.
    - rewrite Hf. reflexivity.
  Qed.

  (* ---------------------------------------------------------------------------------------- *)
  (* element-level mutators                                                                     *)
  (* ---------------------------------------------------------------------------------------- *)
  (* overwrite the element of a bucket by one with the same key id *)
  Lemma write_ok t s i e e' : Inv t s -> mask t <> 0 -> i < nb kv t -> slot kv t i = Some e ->
    k_id e' = k_id e ->
    exists t', slot_write kv t i e' = Ok t' /\ Inv t' (put s e').
  Proof.
    intros (HWF & HA & HR) Hm Hi He Hk.
    assert (Hh : h e' = h e) by (unfold hasher; rewrite Hk; reflexivity).
    destruct (slot_write_WF B kv h t i e e' HWF Hm Hi He Hh)
      as (t' & E & HWF' & Em & _ & _ & _ & _ & _ & _ & _ & Hperm).
    exists t'. split; [exact E|]. split; [exact HWF'|].
    split; [exact (TOwn_same_mask B kv tsize talign t t' Em HA)|].
    apply (abs_replace t t' s e e' HR); [|exact Hperm].
    rewrite Hk. exact (abs_slot t s i e HR He).
  Qed.

  Lemma remove_ok t s i e : Inv t s -> mask t <> 0 -> i < nb kv t -> slot kv t i = Some e ->
    exists t', remove B kv t i = Ok (e, t') /\ Inv t' (delete s (k_id e)).
  Proof.
    intros (HWF & HA & HR) Hm Hi He. pose proof HWF as (Hs & _).
    destruct (remove_WF B kv HW HB h t i HWF Hm Hi (slot_full t i e Hs Hm Hi He))
      as (e0 & t' & E & HWF' & He0 & Em & _ & _ & _ & _ & Hperm & _).
    rewrite He in He0. injection He0 as <-.
    exists t'. split; [exact E|]. split; [exact HWF'|].
    split; [exact (TOwn_same_mask B kv tsize talign t t' Em HA)|].
    exact (abs_delete t t' s e HR (abs_slot t s i e HR He) Hperm).
  Qed.

  (* VacantEntry::insert = RawTable::insert *)
  Lemma vacant_insert_ok t s hv v o t' o' evs : Inv t s -> hash_of (k_id v) = Some hv ->
    lookup s (k_id v) = None ->
    vacant_insert B tsize talign needs_drop true hash_of alloc_refuses t hv v o = Ok (t', o', evs) ->
    o' = o /\ Inv t' (put s v).
  Proof.
    intros (HWF & HA & HR) Hh Hl. unfold vacant_insert.
    destruct (Raw.insert B kv tsize talign needs_drop h true t hv v alloc_refuses)
      as [[[[t1 evs1] unw] r]|er] eqn:E; cbn [bind]; [|discriminate].
    destruct (insert_WF B kv HW HB tsize talign Hts Hta needs_drop h h_total t hv v alloc_refuses
                t1 evs1 unw r HWF HA Hh E) as (-> & HWF1 & HA1 & sl & _ & _ & _ & _ & Hperm & _).
    intros E1. injection E1 as <- <- <-. split; [reflexivity|].
    split; [exact HWF1|]. split; [exact HA1|]. exact (abs_insert t t1 s v HR Hl Hperm).
  Qed.

  (* find_or_find_insert_slot, then `found` or `vacant` *)
  Lemma m_find_or_slot_ok t s k found vacant (res : Map.result) : Inv t s ->
    m_find_or_slot B tsize talign needs_drop true hash_of alloc_refuses t k found vacant = Ok res ->
    exists t1 evs hv, Inv t1 s /\ hash_of k = Some hv /\ mask t1 <> 0 /\
      match lookup s k with
      | Some e => exists i, i < nb kv t1 /\ slot kv t1 i = Some e /\ k_id e = k /\ found t1 i e evs = Ok res
      | None => exists sl, vacant t1 hv sl evs = Ok res /\
          forall v, k_id v = k ->
            exists t2, insert_in_slot B kv t1 hv sl v = Ok t2 /\ Inv t2 (put s v)
      end.
  Proof.
    intros (HWF & HA & HR). unfold m_find_or_slot, with_hash.
    destruct (Htot k) as (hv & Hh). rewrite Hh.
    change (eq_key k) with (pure_eq (keyP k)).
    destruct (find_or_find_insert_slot B kv tsize talign needs_drop h true t hv (pure_eq (keyP k)) alloc_refuses)
      as [[[[t1 evs] unw] r]|er] eqn:E; cbn [bind]; [|discriminate].
    destruct (find_or_find_insert_slot_WF B kv HW HB tsize talign Hts Hta needs_drop h h_total t hv (keyP k)
                alloc_refuses t1 evs unw r HWF HA (keyP_hash k hv Hh) E)
      as (-> & HWF1 & (Hs1 & HA1 & Hperm & _ & Hgl1 & Hm1 & _) & Hcases).
    assert (HR1 : AbsRel t1 s) by exact (abs_perm t t1 s HR Hperm).
    intros Eres. exists t1, evs, hv.
    split; [split; [exact HWF1|split; [exact HA1|exact HR1]]|]. split; [reflexivity|]. split; [exact Hm1|].
    destruct Hcases as [(i & e & -> & Hi & He & HP) | (sl & -> & Hsl & Hsp & Hno & _ & Hins)].
    - apply Z.eqb_eq in HP. rewrite <- HP. rewrite (abs_slot t1 s i e HR1 He).
      exists i. split; [exact Hi|]. split; [exact He|]. split; [reflexivity|].
      rewrite (slot_ref_some t1 i e Hs1 Hm1 Hi He) in Eres. exact Eres.
    - assert (Hl : lookup s k = None).
      { apply lookup_None. intros e Hin Hk.
        destruct HR1 as (P1 & _). apply (Permutation_in _ (Permutation_sym P1)) in Hin.
        apply occupants_In in Hin. destruct Hin as (i & _ & He).
        pose proof (Hno i e He) as C. cbv beta in C. apply Z.eqb_neq in C. exact (C Hk). }
      rewrite Hl. exists sl. split; [exact Eres|].
      intros v Hk.
      destruct (Hins v ltac:(unfold hasher; rewrite Hk; exact Hh)) as (t2 & Eins & HWF2 & Em2 & _ & _ & _ & _ & _ & Hperm2).
      exists t2. split; [exact Eins|]. split; [exact HWF2|].
      split; [exact (TOwn_same_mask B kv tsize talign t1 t2 Em2 HA1)|].
      apply (abs_insert t1 t2 s v HR1); [rewrite Hk; exact Hl|exact Hperm2].
  Qed.

  Lemma m_insert_eq t k stamp v :
    m_insert B tsize talign needs_drop true hash_of alloc_refuses t k stamp v =
    m_find_or_slot B tsize talign needs_drop true hash_of alloc_refuses t k
      (fun t1 i e evs => t2 <- slot_write kv t1 i (mkKV (k_id e) (k_stamp e) v) ;; Ok (t2, OutVal (v_val e), evs))
      (fun t1 hv slot evs => t2 <- insert_in_slot B kv t1 hv slot (mkKV k stamp v) ;; Ok (t2, OutNone, evs)).
  Proof. reflexivity. Qed.

  (* HashMap::insert *)
  Lemma m_insert_ok t s k stamp v t' o evs : Inv t s ->
    m_insert B tsize talign needs_drop true hash_of alloc_refuses t k stamp v = Ok (t', o, evs) ->
    o = match lookup s k with Some e => OutVal (v_val e) | None => OutNone end /\
    Inv t' (insert_like s k stamp v).
  Proof.
    intros HI E. rewrite m_insert_eq in E.
    destruct (m_find_or_slot_ok t s k _ _ _ HI E) as (t1 & evs1 & hv & HI1 & Hh & Hm1 & Hc).
    unfold insert_like. destruct (lookup s k) as [e|].
    - destruct Hc as (i & Hi & He & Hk & Ef).
      destruct (write_ok t1 s i e (mkKV (k_id e) (k_stamp e) v) HI1 Hm1 Hi He eq_refl) as (t2 & Ew & HI2).
      rewrite Ew in Ef. cbn [bind] in Ef. injection Ef as <- <- <-.
      split; [reflexivity|]. rewrite <- Hk. exact HI2.
    - destruct Hc as (sl & Ef & Hins).
      destruct (Hins (mkKV k stamp v) eq_refl) as (t2 & Eins & HI2).
      rewrite Eins in Ef. cbn [bind] in Ef. injection Ef as <- <- <-.
      split; [reflexivity|exact HI2].
  Qed.

  (* remove_entry *)
  Lemma m_remove_entry_ok t s k mk t' o evs : Inv t s ->
    m_remove_entry B hash_of t k mk = Ok (t', o, evs) ->
    match lookup s k with
    | None => t' = t /\ o = OutNone /\ evs = []
    | Some e => o = mk e /\ evs = [EvMoveOut e] /\ Inv t' (delete s k)
    end.
  Proof.
    intros HI. unfold m_remove_entry, with_hash. destruct (Htot k) as (hv & Hh). rewrite Hh.
    pose proof (find_key t s k hv HI Hh) as Hf.
    destruct (lookup s k) as [e|].
    - destruct Hf as (i & Hm & Hi & He & Hk & _ & Ef). rewrite Ef. cbn [bind].
      destruct (remove_ok t s i e HI Hm Hi He) as (t1 & Er & HI1). rewrite Er. cbn [bind].
      intros E. injection E as <- <- <-. split; [reflexivity|]. split; [reflexivity|].
      rewrite <- Hk. exact HI1.
    - rewrite Hf. cbn [bind]. intros E. injection E as <- <- <-. repeat split.
  Qed.
End MapRefine.

Print Assumptions find_key.
Print Assumptions get_inner_ok.
Print Assumptions m_entry_ok.
Print Assumptions write_ok.
Print Assumptions remove_ok.
Print Assumptions vacant_insert_ok.
Print Assumptions m_find_or_slot_ok.
Print Assumptions m_insert_ok.
Print Assumptions m_remove_entry_ok.
