(* MapStepUnwindWF.v -- the FULL invariant after an operation that UNWOUND, for a PARTIAL hasher.

   `hash_of : Z -> option Z` is arbitrary: it may panic (None) on any key, but it is a function (it
   answers the same key the same way every time).  WF B kv (fun e => hash_of (k_id e)) constrains the
   elements on which the hasher answers (Tags, Reach) and nothing else.

   P1  a COMPLETED in-place rehash re-establishes WF without any assumption on the hasher: every
       element was hashed on the way (rehash_in_place_complete_WF); with resize_inner_WF and
       RehashUnwindWF this gives: reserve_rehash / reserve / try_reserve keep WF whatever happens
       (reserve_rehash_partial_WF, reserve_partial_WF, try_reserve_partial_WF)
   P2  find_or_find_insert_slot keeps WF whatever happens; RawTable::insert and shrink_to keep WF when
       they unwind
   P3  HashMap::insert keeps WF whatever happens (m_insert_PW), hence Extend does (extend_loop_PW)
   P4  map_step_unwind_WF: every operation of map_step that unwinds leaves a WF table

   No axioms. *)
From Coq Require Import ZArith List Bool Lia Permutation.
From HB Require Import RsPrelude Sse2 Gen Group Raw Map Check ArithFacts Triangular WFDefs GroupFacts
  ProbeFacts IterFacts SafeInsertErase SafeAllocClear FindFacts ResizeFacts RehashSafe WFInsertRemove
  RehashWF RawOpsSafe RehashUnwindWF MapDefs MapStepSafe.
Import ListNotations.
Open Scope nat_scope.

(* ------------------------------------------------------------------------------------------ *)
(* P1, P2: RawTable level, any element type, partial hasher                                     *)
(* ------------------------------------------------------------------------------------------ *)
Section RawPartial.
  Variable B : backend.
  Variable T : Type.
  Hypothesis HW : WidthOK B.
  Hypothesis HB : BackendSpec B.

  Variable tsize talign : Z.
  Hypothesis Hts : (0 <= tsize < 2 ^ 64)%Z.
  Hypothesis Hta : exists a : Z, (0 <= a <= 62)%Z /\ talign = (2 ^ a)%Z.

  Variable needs_drop : bool.
  Variable drop_ok : T -> bool.
  Variable h : T -> option Z.

  Local Notation GW := (bk_width B).
  Local Notation TOWN := (TOwn B T tsize talign).

  (* ---- P1: a completed in-place rehash ---- *)
  Theorem rehash_in_place_complete_WF (t t' : table T) evs :
    SafeWF B T t -> mask t <> 0 ->
    rehash_in_place B T needs_drop h true t = Ok (t', evs, false) ->
    WF B T h t'.
  Proof.
    intros H Hm E.
    destruct (rehash_in_place_safe B T HW HB needs_drop h t H Hm) as (t'' & evs'' & unw'' & E'' & HW' & Em & _).
    rewrite E in E''. injection E'' as <- _ _.
    apply (JInv_WF B T HB h t' HW'); [rewrite Em; exact Hm|].
    destruct (prepare_RInv B T HW HB t H Hm) as (t0 & E0 & Em0 & Esl0 & Eit0 & HR0 & Hb0).
    assert (Enb0 : nb T t0 = nb T t) by (unfold nb, buckets; rewrite Em0; reflexivity).
    assert (HJ0 : JK B T h t0).
    { split.
      - intros j e hash Hj Hf. rewrite Enb0 in Hj. rewrite (Hb0 j Hj), byte_convert_not_full in Hf.
        discriminate Hf.
      - intros j e Hj Hf. rewrite Enb0 in Hj. rewrite (Hb0 j Hj), byte_convert_not_full in Hf.
        discriminate Hf. }
    unfold rehash_in_place in E. rewrite E0 in E. cbn [bind] in E.
    destruct (rehash_outer_JU B T HW HB h (buckets T t0) t0 0 HR0 HJ0 eq_refl ltac:(intros j Hj; lia))
      as (t1 & ok & E1 & HR1 & [HJ1 HK1] & Em1 & _).
    rewrite E1 in E. cbn [bind] in E. destruct ok.
    2:{ destruct (rehash_guard B T needs_drop true t1) as [[t2 evs2]|er]; cbn [bind] in E; discriminate E. }
    injection E as E _. subst t'.
    pose proof HR1 as (HS1 & HM1 & _).
    destruct (SafeWF_alloc B T _ HW' ltac:(rewrite Em; exact Hm)) as (HS' & HM' & _).
    intros j e hash Hj Hf He Hhe.
    destruct (HJ1 j e hash Hj Hf He Hhe) as [X Y]. split; [exact X|].
    apply (sreach_mono B T t1 _ hash j HS1 HM1); [|exact Y].
    split; [reflexivity|]. split; [exact HS'|]. split; [exact HM'|]. intros j' _ F. exact F.
  Qed.

  (* ---- reserve_rehash: whatever the outcome (done, refused, unwound) ---- *)
  Theorem reserve_rehash_partial_WF t additional alloc_refuses f t' evs tr unw :
    WF B T h t -> TOWN t -> (0 <= additional < 2 ^ 64)%Z -> (growth_left t < additional)%Z ->
    reserve_rehash B T tsize talign needs_drop h true t additional alloc_refuses f = Ok (t', evs, tr, unw) ->
    WF B T h t'.
  Proof.
    intros HWF HA Hadd Hgl E. pose proof HWF as (Hsafe & _).
    destruct unw.
    { exact (proj1 (reserve_rehash_unwind_WF B T HW HB tsize talign needs_drop h t t' additional
                      alloc_refuses f evs tr HWF E)). }
    pose proof (reserve_rehash_spec B T HW HB tsize talign Hts Hta needs_drop h t additional
                  alloc_refuses f Hsafe HA Hadd Hgl) as Hpost.
    rewrite E in Hpost.
    destruct (reserve_post_ok B T tsize talign needs_drop h t additional alloc_refuses f t' evs tr false
                Hsafe HA Hpost) as (Hs' & HA' & Herr & Hok & Hunw).
    destruct tr as [| |len al].
    2:{ destruct (Herr ltac:(discriminate)) as (_ & -> & _). exact HWF. }
    2:{ destruct (Herr ltac:(discriminate)) as (_ & -> & _). exact HWF. }
    destruct (safe_counts B T t Hsafe) as (Hi0 & Hg0 & Hsum & Hcapnb & Hnb62).
    revert E. unfold reserve_rehash, reserve_rehash_new_items, checked_add.
    destruct (Z.ltb_spec (items t + additional) (2 ^ 64)) as [Hlt|Hge].
    2:{ destruct f; cbn [capacity_overflow bind]; discriminate. }
    change (reserve_rehash_full_capacity (zn (mask t))) with (z_cap (mask t)).
    rewrite (reserve_rehash_in_place_char (items t + additional) (z_cap (mask t))) by lia.
    unfold reserve_rehash_resize_target.
    assert (Hzc0 : (0 <= z_cap (mask t))%Z) by lia.
    destruct (Z.leb_spec (items t + additional) (z_cap (mask t) / 2)) as [Hle|Hgt].
    - pose proof (half_le _ Hzc0) as Hhalf.
      assert (Hm : mask t <> 0).
      { intros E0. rewrite E0 in Hle. change (z_cap 0 / 2)%Z with 0%Z in Hle. lia. }
      destruct (rehash_in_place B T needs_drop h true t) as [[[t1 evs1] unw1]|er] eqn:E1;
        cbn [bind]; [|discriminate].
      intros E. injection E as Et _ Eu. subst t1 unw1.
      exact (rehash_in_place_complete_WF t t' evs1 Hsafe Hm E1).
    - assert (Ew : wadd 64 (z_cap (mask t)) 1 = (z_cap (mask t) + 1)%Z).
      { unfold wadd. apply wrap_small. rewrite two_p_62 in Hnb62. rewrite two_p_64. lia. }
      rewrite Ew.
      set (cap := Z.max (items t + additional) (z_cap (mask t) + 1)).
      assert (Hcap : (items t <= cap < 2 ^ 64)%Z).
      { unfold cap. rewrite two_p_62 in Hnb62. rewrite two_p_64 in *. lia. }
      intros E.
      exact (resize_inner_WF B T HW HB tsize talign Hts Hta h t cap alloc_refuses f Hsafe HA Hcap
               h t' evs (fun e => eq_refl) E).
  Qed.

  Theorem reserve_partial_WF t additional alloc_refuses t' evs tr unw :
    WF B T h t -> TOWN t -> (0 <= additional < 2 ^ 64)%Z ->
    reserve B T tsize talign needs_drop h true t additional alloc_refuses = Ok (t', evs, tr, unw) ->
    WF B T h t'.
  Proof.
    intros HWF HA Hadd. unfold reserve.
    destruct (Z.gtb_spec additional (growth_left t)) as [Hgt|Hle].
    - destruct (reserve_rehash B T tsize talign needs_drop h true t additional alloc_refuses Infallible)
        as [[[[t1 evs1] tr1] unw1]|er] eqn:E; cbn [bind]; [|discriminate].
      pose proof (reserve_rehash_partial_WF t additional alloc_refuses Infallible t1 evs1 tr1 unw1
                    HWF HA Hadd ltac:(lia) E) as HWF1.
      destruct tr1; [|discriminate|discriminate].
      intros E1. injection E1 as <- _ _ _. exact HWF1.
    - intros E. injection E as <- _ _ _. exact HWF.
  Qed.

  Theorem try_reserve_partial_WF t additional alloc_refuses t' evs tr unw :
    WF B T h t -> TOWN t -> (0 <= additional < 2 ^ 64)%Z ->
    try_reserve B T tsize talign needs_drop h true t additional alloc_refuses = Ok (t', evs, tr, unw) ->
    WF B T h t'.
  Proof.
    intros HWF HA Hadd. unfold try_reserve.
    destruct (Z.gtb_spec additional (growth_left t)) as [Hgt|Hle].
    - intros E.
      exact (reserve_rehash_partial_WF t additional alloc_refuses Fallible t' evs tr unw HWF HA Hadd ltac:(lia) E).
    - intros E. injection E as <- _ _ _. exact HWF.
  Qed.

  (* ---- P2: find_or_find_insert_slot ---- *)
  Theorem foi_partial_WF t hash P alloc_refuses t1 evs unw r :
    WF B T h t -> TOWN t ->
    find_or_find_insert_slot B T tsize talign needs_drop h true t hash (pure_eq P) alloc_refuses
      = Ok (t1, evs, unw, r) ->
    WF B T h t1 /\
    (unw = false ->
       mask t1 <> 0 /\ (0 < growth_left t1)%Z /\
       ((exists i e, r = Some (inl i) /\ i < nb T t1 /\ slot T t1 i = Some e /\ P e = true) \/
        (exists s, r = Some (inr s) /\
           find_or_find_insert_slot_inner B T t1 hash (eq_at T t1 (pure_eq P)) = Ok (inr s)))).
  Proof.
    intros HWF HA E. pose proof HWF as (Hsafe & _).
    destruct (find_or_find_insert_slot_preserves B T HW HB tsize talign Hts Hta needs_drop h t hash P
                alloc_refuses t1 evs unw r Hsafe HA E) as (Hs1 & HA1 & Hok & Hun).
    unfold find_or_find_insert_slot in E.
    assert (H1 : (0 <= 1 < 2 ^ 64)%Z) by (rewrite two_p_64; lia).
    destruct (reserve B T tsize talign needs_drop h true t 1 alloc_refuses)
      as [[[[t0 evs0] tr0] unw0]|er] eqn:Er; cbn [bind] in E; [|discriminate E].
    pose proof (reserve_partial_WF t 1 alloc_refuses t0 evs0 tr0 unw0 HWF HA H1 Er) as HWF0.
    destruct unw0.
    - injection E as <- _ <- _. split; [exact HWF0|]. discriminate.
    - destruct (find_or_find_insert_slot_inner B T t0 hash (eq_at T t0 (pure_eq P))) as [r0|er] eqn:Ef;
        cbn [bind] in E; [|discriminate E].
      injection E as <- _ <- <-. split; [exact HWF0|]. intros _.
      destruct (Hok eq_refl) as (_ & _ & Hg & Hm & Hr & _). split; [exact Hm|]. split; [exact Hg|].
      destruct r0 as [i|s].
      + left. destruct Hr as [Hr|(s & Hs & _)]; [exact Hr|discriminate Hs].
      + right. exists s. split; [reflexivity|exact Ef].
  Qed.

  (* RawTable::insert, unwound: the table is the one reserve(1) left behind *)
  Theorem insert_unwind_WF t hash value alloc_refuses t1 evs r :
    WF B T h t ->
    Raw.insert B T tsize talign needs_drop h true t hash value alloc_refuses = Ok (t1, evs, true, r) ->
    WF B T h t1.
  Proof.
    intros HWF. unfold Raw.insert.
    destruct (find_insert_slot B T t hash) as [s|er]; cbn [bind]; [|discriminate].
    destruct (ctrl_at T t s) as [old|er]; cbn [bind]; [|discriminate].
    destruct ((growth_left t =? 0)%Z && tag_special_is_empty old).
    - destruct (reserve B T tsize talign needs_drop h true t 1 alloc_refuses)
        as [[[[t0 evs0] tr0] unw0]|er] eqn:Er; cbn [bind]; [|discriminate].
      destruct unw0.
      + intros E. injection E as <- _ _.
        exact (reserve_unwind_WF B T HW HB tsize talign needs_drop h t t0 1 alloc_refuses evs0 tr0 HWF Er).
      + destruct (find_insert_slot B T t0 hash) as [s'|er]; cbn [bind]; [|discriminate].
        destruct (insert_in_slot B T t0 hash s' value) as [t2|er]; cbn [bind]; discriminate.
    - destruct (insert_in_slot B T t hash s value) as [t2|er]; cbn [bind]; discriminate.
  Qed.

  (* shrink_to, unwound: nothing changed *)
  Theorem shrink_to_unwind_same t min_size alloc_refuses t' evs :
    SafeWF B T t -> TOWN t -> (0 <= min_size < 2 ^ 64)%Z ->
    shrink_to B T tsize talign needs_drop drop_ok h t min_size alloc_refuses = Ok (t', evs, true) ->
    t' = t.
  Proof.
    intros Hsafe HA Hmin E.
    pose proof (shrink_to_spec B T HW HB tsize talign Hts Hta needs_drop drop_ok h t min_size alloc_refuses
                  Hsafe HA Hmin) as Hpost.
    rewrite E in Hpost. cbn [shrink_post] in Hpost. exact (proj1 Hpost).
  Qed.
End RawPartial.

Print Assumptions rehash_in_place_complete_WF.
Print Assumptions reserve_rehash_partial_WF.
Print Assumptions reserve_partial_WF.
Print Assumptions try_reserve_partial_WF.
Print Assumptions foi_partial_WF.
Print Assumptions insert_unwind_WF.
Print Assumptions shrink_to_unwind_same.

(* ------------------------------------------------------------------------------------------ *)
(* P3, P4: HashMap / HashSet level                                                              *)
(* ------------------------------------------------------------------------------------------ *)
Section MapUnwind.
  Variable B : backend.
  Hypothesis HW : WidthOK B.
  Hypothesis HB : BackendSpec B.
  Variable tsize talign : Z.
  Hypothesis HL : LayoutOK tsize talign.
  Variable needs_drop : bool.
  Variable hash_of : Z -> option Z.
  Variable alloc_refuses : bool.

  Let Hts : (0 <= tsize < 2 ^ 64)%Z := proj1 HL.
  Let Hta : exists a : Z, (0 <= a <= 62)%Z /\ talign = (2 ^ a)%Z := proj2 HL.

  Local Notation SAFE := (SafeWF B kv).
  Local Notation OWN := (TOwn B kv tsize talign).
  Local Notation HSH := (hasher hash_of).
  Local Notation WFH := (WF B kv (hasher hash_of)).

  (* UW r: if the call returned unwinding, its table satisfies the full invariant;
     PW r: whatever the call returned, its table satisfies the full invariant *)
  Definition UW (r : res Map.result) : Prop :=
    match r with
    | Ok (t', o, _) => is_unwind o = true -> WFH t'
    | Fail _ => True
    end.

  Definition PW (r : res Map.result) : Prop :=
    match r with
    | Ok (t', _, _) => WFH t'
    | Fail _ => True
    end.

  Lemma PW_UW r : PW r -> UW r.
  Proof. destruct r as [[[t' o] evs]|e]; cbn [PW UW]; [intros H _; exact H|intros H; exact H]. Qed.

  Lemma UW_nu t o evs : is_unwind o = false -> UW (Ok (t, o, evs)).
  Proof. intros H. cbn [UW]. rewrite H. discriminate. Qed.

  Lemma UW_wf t o evs : WFH t -> UW (Ok (t, o, evs)).
  Proof. intros H. cbn [UW]. intros _. exact H. Qed.

  Lemma UW_bind {A : Type} (m : res A) (f : A -> res Map.result) :
    (forall a, m = Ok a -> UW (f a)) -> UW (bind m f).
  Proof. intros H. destruct m as [a|e]; cbn [bind]; [apply H; reflexivity|exact I]. Qed.

  Lemma UW_with_hash t k f : WFH t -> (forall h, hash_of k = Some h -> UW (f h)) ->
    UW (with_hash hash_of t k f).
  Proof.
    intros H Hf. unfold with_hash. destruct (hash_of k) as [h|]; [apply Hf; reflexivity|].
    unfold unwind. apply UW_wf. exact H.
  Qed.

  (* an output filter that never turns a normal return into an unwinding *)
  Lemma UW_post (r : res Map.result) (fo : out -> out) (fe : list (event kv) -> list (event kv)) :
    (forall o, is_unwind (fo o) = true -> is_unwind o = true) ->
    UW r -> UW ('(t1, o, evs) <- r ;; Ok (t1, fo o, fe evs)).
  Proof.
    intros Hfo. destruct r as [[[t1 o] evs]|e]; cbn [bind UW]; [|intros H; exact H].
    intros H Hu. apply H. apply Hfo. exact Hu.
  Qed.

  (* a tail that cannot unwind: binds and case analyses ending in Ok (_, o, _) with o a normal output *)
  Ltac uw_tail :=
    repeat first
      [ exact I
      | apply UW_nu; reflexivity
      | apply UW_bind; intros ? _; cbv beta iota
      | match goal with |- UW (match ?x with _ => _ end) => destruct x; cbv beta iota end ].

  (* ---------------------------------------------------------------------------------------- *)
  (* (1) lookups, entry, remove_entry                                                           *)
  (* ---------------------------------------------------------------------------------------- *)
  Lemma get_inner_UW t k f : WFH t -> (forall r, UW (f r)) -> UW (get_inner B hash_of t k f).
  Proof.
    intros H Hf. unfold get_inner. destruct (items t =? 0)%Z; [apply Hf|].
    apply UW_with_hash; [exact H|]. intros h _.
    apply UW_bind. intros r _. destruct r as [i|]; [|apply Hf].
    apply UW_bind. intros e _. apply Hf.
  Qed.

  Lemma m_entry_UW t k occ vac : WFH t -> (forall h i e, UW (occ h i e)) -> (forall h, UW (vac h)) ->
    UW (m_entry B hash_of t k occ vac).
  Proof.
    intros H Hocc Hvac. unfold m_entry.
    apply UW_with_hash; [exact H|]. intros h _.
    apply UW_bind. intros r _. destruct r as [i|]; [|apply Hvac].
    apply UW_bind. intros e _. apply Hocc.
  Qed.

  Lemma m_remove_entry_UW t k mk : WFH t -> (forall e, is_unwind (mk e) = false) ->
    UW (m_remove_entry B hash_of t k mk).
  Proof.
    intros H Hmk. unfold m_remove_entry.
    apply UW_with_hash; [exact H|]. intros h _.
    apply UW_bind. intros r _. destruct r as [i|]; [|apply UW_nu; reflexivity].
    apply UW_bind. intros [e t1] _. apply UW_nu. apply Hmk.
  Qed.

  (* Vacant::insert = RawTable::insert *)
  Lemma vacant_insert_UW t h e o : WFH t -> is_unwind o = false ->
    UW (vacant_insert B tsize talign needs_drop true hash_of alloc_refuses t h e o).
  Proof.
    intros H Ho. unfold vacant_insert.
    destruct (Raw.insert B kv tsize talign needs_drop HSH true t h e alloc_refuses)
      as [[[[t1 evs] unw] r]|er] eqn:E; cbn [bind]; [|exact I].
    destruct unw; [|apply UW_nu; exact Ho].
    unfold unwind. apply UW_wf.
    exact (insert_unwind_WF B kv HW HB tsize talign needs_drop HSH t h e alloc_refuses t1 evs r H E).
  Qed.

  (* ---------------------------------------------------------------------------------------- *)
  (* (2) find_or_find_insert_slot based                                                         *)
  (* ---------------------------------------------------------------------------------------- *)
  Lemma m_find_or_slot_PW t k found vacant : WFH t -> OWN t ->
    (forall t1 i e evs, WFH t1 -> mask t1 <> 0 -> i < nb kv t1 -> slot kv t1 i = Some e -> k_id e = k ->
       PW (found t1 i e evs)) ->
    (forall t1 h s evs, WFH t1 -> mask t1 <> 0 -> (0 < growth_left t1)%Z -> hash_of k = Some h ->
       find_or_find_insert_slot_inner B kv t1 h (eq_at kv t1 (eq_key k)) = Ok (inr s) ->
       PW (vacant t1 h s evs)) ->
    PW (m_find_or_slot B tsize talign needs_drop true hash_of alloc_refuses t k found vacant).
  Proof.
    intros H HA Hfound Hvac. unfold m_find_or_slot, with_hash.
    destruct (hash_of k) as [h|] eqn:Eh; [|exact H].
    change (eq_key k) with (pure_eq (fun e : kv => Z.eqb (k_id e) k)) in *.
    destruct (find_or_find_insert_slot B kv tsize talign needs_drop HSH true t h
                (pure_eq (fun e : kv => Z.eqb (k_id e) k)) alloc_refuses) as [[[[t1 evs] unw] r]|er] eqn:E;
      cbn [bind]; [|exact I].
    destruct (foi_partial_WF B kv HW HB tsize talign Hts Hta needs_drop HSH t h _ alloc_refuses
                t1 evs unw r H HA E) as (H1 & Hok).
    destruct unw; [exact H1|].
    destruct (Hok eq_refl) as (Hm1 & Hg1 & [(i & e & -> & Hi & He & HP) | (s & -> & Ef)]).
    - pose proof H1 as (Hs1 & _).
      rewrite (some_slot_ref B t1 i e Hs1 Hm1 Hi He). cbn [bind].
      apply Hfound; try assumption. apply Z.eqb_eq. exact HP.
    - exact (Hvac t1 h s evs H1 Hm1 Hg1 eq_refl Ef).
  Qed.

  Lemma m_find_or_slot_UW t k found vacant : WFH t -> OWN t ->
    (forall t1 i e evs, UW (found t1 i e evs)) ->
    (forall t1 h s evs, UW (vacant t1 h s evs)) ->
    UW (m_find_or_slot B tsize talign needs_drop true hash_of alloc_refuses t k found vacant).
  Proof.
    intros H HA Hfound Hvac. unfold m_find_or_slot.
    apply UW_with_hash; [exact H|]. intros h _.
    change (eq_key k) with (pure_eq (fun e : kv => Z.eqb (k_id e) k)).
    destruct (find_or_find_insert_slot B kv tsize talign needs_drop HSH true t h
                (pure_eq (fun e : kv => Z.eqb (k_id e) k)) alloc_refuses) as [[[[t1 evs] unw] r]|er] eqn:E;
      cbn [bind]; [|exact I].
    destruct (foi_partial_WF B kv HW HB tsize talign Hts Hta needs_drop HSH t h _ alloc_refuses
                t1 evs unw r H HA E) as (H1 & _).
    destruct unw; [unfold unwind; apply UW_wf; exact H1|].
    destruct r as [[i|s]|]; [|apply Hvac|exact I].
    apply UW_bind. intros e _. apply Hfound.
  Qed.

  (* HashMap::insert: the full invariant is kept whatever happens -- normal return (replaced or
     inserted), or unwinding from the key's hash or from an element's hash inside reserve(1) *)
  Theorem m_insert_PW t k stamp v : WFH t -> OWN t ->
    PW (m_insert B tsize talign needs_drop true hash_of alloc_refuses t k stamp v).
  Proof.
    intros H HA. rewrite m_insert_eq. apply m_find_or_slot_PW; [exact H|exact HA| |].
    - intros t1 i e evs H1 Hm1 Hi He _.
      destruct (slot_write_WF B kv HSH t1 i e (mkKV (k_id e) (k_stamp e) v) H1 Hm1 Hi He eq_refl)
        as (t2 & E & H2 & _).
      rewrite E. cbn [bind PW]. exact H2.
    - intros t1 h s evs H1 Hm1 Hg1 Hh Ef.
      destruct (insert_in_slot_WF_foi B kv HW HB HSH t1 s h _ (mkKV k stamp v) H1 Hm1 Ef Hh (fun _ => Hg1))
        as (t2 & E & H2 & _).
      rewrite E. cbn [bind PW]. exact H2.
  Qed.

  (* Extend: a sequence of inserts; wherever it stops, the table is well-formed *)
  Theorem extend_loop_PW : forall kvs t touched evs, WFH t -> OWN t ->
    PW (extend_loop B tsize talign needs_drop true hash_of alloc_refuses t kvs touched evs).
  Proof.
    induction kvs as [|e r IH]; intros t touched evs H HA.
    - cbn [extend_loop PW]. exact H.
    - cbn [extend_loop].
      pose proof (m_insert_PW t (k_id e) (k_stamp e) (v_val e) H HA) as Hp.
      pose proof H as (Hs & _).
      pose proof (m_insert_good B HW HB tsize talign HL needs_drop hash_of alloc_refuses t
                    (k_id e) (k_stamp e) (v_val e) Hs HA) as Hi.
      destruct (m_insert B tsize talign needs_drop true hash_of alloc_refuses t (k_id e) (k_stamp e) (v_val e))
        as [[[t1 o] evs1]|er]; cbn [bind]; [|exact I].
      cbn [PW] in Hp. destruct Hi as (_ & HA1).
      destruct o; try (apply IH; assumption). exact Hp.
  Qed.

  (* ---------------------------------------------------------------------------------------- *)
  (* (3) IterFold                                                                               *)
  (* ---------------------------------------------------------------------------------------- *)
  Lemma fold_go_UW t : forall p fuel it acc, UW (fold_go B t fuel p it acc).
  Proof.
    induction p as [|p IH]; intros fuel it acc; destruct fuel as [|f]; cbn [fold_go]; uw_tail; apply IH.
  Qed.

  (* ---------------------------------------------------------------------------------------- *)
  (* every operation                                                                            *)
  (* ---------------------------------------------------------------------------------------- *)
  Local Notation STEP t op := (map_step B tsize talign needs_drop true hash_of alloc_refuses t op).

  Theorem map_step_UW t op : op_args_ok op -> WFH t -> OWN t -> UW (STEP t op).
  Proof.
    intros Hargs H HA. pose proof H as (Hs & _).
    destruct op as [n|k stamp v|k|k|k|k newv|k|k|k stamp v|k stamp v|k stamp v|k stamp|k stamp add v|k stamp|
                    |n|n|n| |keep bump|kvs|n|sel n| |p| | | | |k stamp|k stamp|k|k|k stamp|k stamp fk|k|k stamp];
      cbn [op_args_ok] in Hargs.
    - (* OpWithCapacity *) cbn [map_step]. uw_tail.
    - (* OpInsert *) cbn [map_step]. apply PW_UW. apply m_insert_PW; assumption.
    - (* OpGet *) cbn [map_step]. apply get_inner_UW; [exact H|]. intros [[i e]|]; uw_tail.
    - (* OpGetKeyValue *) cbn [map_step]. apply get_inner_UW; [exact H|]. intros [[i e]|]; uw_tail.
    - (* OpContains *) cbn [map_step]. apply get_inner_UW; [exact H|]. intros [[i e]|]; uw_tail.
    - (* OpGetMut *) cbn [map_step]. apply get_inner_UW; [exact H|]. intros [[i e]|]; uw_tail.
    - (* OpRemove *) cbn [map_step]. apply m_remove_entry_UW; [exact H|]. intros e. reflexivity.
    - (* OpRemoveEntry *) cbn [map_step]. apply m_remove_entry_UW; [exact H|]. intros e. reflexivity.
    - (* OpTryInsert *) cbn [map_step]. apply m_entry_UW; [exact H| |].
      + intros h i e. uw_tail.
      + intros h. apply vacant_insert_UW; [exact H|reflexivity].
    - (* OpEntryOrInsert *) cbn [map_step]. apply m_entry_UW; [exact H| |].
      + intros h i e. uw_tail.
      + intros h. apply vacant_insert_UW; [exact H|reflexivity].
    - (* OpEntryInsert *) cbn [map_step]. apply m_entry_UW; [exact H| |].
      + intros h i e. uw_tail.
      + intros h. apply vacant_insert_UW; [exact H|reflexivity].
    - (* OpEntryRemove *) cbn [map_step]. apply m_entry_UW; [exact H| |].
      + intros h i e. uw_tail.
      + intros h. uw_tail.
    - (* OpEntryAndModify *) cbn [map_step]. apply m_entry_UW; [exact H| |].
      + intros h i e. cbv zeta. uw_tail.
      + intros h. apply vacant_insert_UW; [exact H|reflexivity].
    - (* OpEntryDrop *) cbn [map_step]. apply m_entry_UW; [exact H| |].
      + intros h i e. uw_tail.
      + intros h. uw_tail.
    - (* OpClear: destructors never panic in map_step, the unwinding branch is dead *)
      cbn [map_step].
      destruct (clear_safe B kv HW HB tsize talign needs_drop drop_ok t Hs)
        as (t' & evs & ok & E & _ & _ & _ & _ & _ & _ & _ & Hno & _).
      rewrite E. cbn [bind]. destruct ok; [apply UW_nu; reflexivity|].
      destruct (Hno eq_refl) as (l & e & _ & C). discriminate C.
    - (* OpReserve *) cbn [map_step].
      destruct (reserve B kv tsize talign needs_drop HSH true t n alloc_refuses)
        as [[[[t1 evs] tr] unw]|er] eqn:E; cbn [bind]; [|exact I].
      unfold tr_out. destruct unw; [|apply UW_nu; reflexivity]. unfold unwind. apply UW_wf.
      exact (reserve_partial_WF B kv HW HB tsize talign Hts Hta needs_drop HSH t n alloc_refuses
               t1 evs tr true H HA Hargs E).
    - (* OpTryReserve *) cbn [map_step].
      destruct (try_reserve B kv tsize talign needs_drop HSH true t n alloc_refuses)
        as [[[[t1 evs] tr] unw]|er] eqn:E; cbn [bind]; [|exact I].
      unfold tr_out. destruct unw; [|apply UW_nu; destruct tr; reflexivity]. unfold unwind. apply UW_wf.
      exact (try_reserve_partial_WF B kv HW HB tsize talign Hts Hta needs_drop HSH t n alloc_refuses
               t1 evs tr true H HA Hargs E).
    - (* OpShrinkTo *) cbn [map_step].
      destruct (shrink_to B kv tsize talign needs_drop drop_ok HSH t n alloc_refuses)
        as [[[t1 evs] unw]|er] eqn:E; cbn [bind]; [|exact I].
      destruct unw; [|apply UW_nu; reflexivity]. unfold unwind. apply UW_wf.
      rewrite (shrink_to_unwind_same B kv HW HB tsize talign Hts Hta needs_drop drop_ok HSH t n alloc_refuses
                 t1 evs Hs HA Hargs E). exact H.
    - (* OpShrinkToFit *) cbn [map_step].
      destruct (shrink_to B kv tsize talign needs_drop drop_ok HSH t 0%Z alloc_refuses)
        as [[[t1 evs] unw]|er] eqn:E; cbn [bind]; [|exact I].
      destruct unw; [|apply UW_nu; reflexivity]. unfold unwind. apply UW_wf.
      rewrite (shrink_to_unwind_same B kv HW HB tsize talign Hts Hta needs_drop drop_ok HSH t 0%Z alloc_refuses
                 t1 evs Hs HA (conj (Z.le_refl 0) eq_refl) E). exact H.
    - (* OpRetain *) cbn [map_step]. uw_tail.
    - (* OpExtend *) cbn [map_step]. cbv zeta.
      pose proof (extend_reserve_range (items t =? 0)%Z (length kvs) Hargs) as Hr.
      pose proof (reserve_cases B HW HB tsize talign HL needs_drop hash_of alloc_refuses t _ Hs HA Hr) as Hp.
      destruct (reserve B kv tsize talign needs_drop HSH true t
                  (map_extend_reserve (items t =? 0)%Z (zn (length kvs))) alloc_refuses)
        as [[[[t1 evs] tr] unw]|er] eqn:E; cbn [bind]; [|exact I].
      pose proof (reserve_partial_WF B kv HW HB tsize talign Hts Hta needs_drop HSH t _ alloc_refuses
                    t1 evs tr unw H HA Hr E) as H1.
      destruct Hp as (_ & HA1).
      destruct unw; [unfold unwind; apply UW_wf; exact H1|].
      apply PW_UW. apply extend_loop_PW; assumption.
    - (* OpDrain *) cbn [map_step]. unfold m_drain. uw_tail.
    - (* OpExtractIf *) cbn [map_step]. uw_tail.
    - (* OpIter *) cbn [map_step]. uw_tail.
    - (* OpIterFold *) cbn [map_step]. apply UW_bind. intros it _.
      change (UW (fold_go B t (S (buckets kv t)) p it [])). apply fold_go_UW.
    - (* OpLen *) cbn [map_step]. uw_tail.
    - (* OpCapacity *) cbn [map_step]. uw_tail.
    - (* OpAllocationSize *) cbn [map_step]. uw_tail.
    - (* OpDropMap *) cbn [map_step]. uw_tail.
    - (* OpSetInsert *) cbn [map_step].
      pose proof (m_insert_PW t k stamp 0%Z H HA) as Hp.
      destruct (m_insert B tsize talign needs_drop true hash_of alloc_refuses t k stamp 0%Z)
        as [[[t1 o] evs]|er]; cbn [bind]; [|exact I].
      apply UW_wf. exact Hp.
    - (* OpSetReplace *) cbn [map_step]. apply m_find_or_slot_UW; [exact H|exact HA| |]; intros; uw_tail.
    - (* OpSetTake *) cbn [map_step]. apply m_remove_entry_UW; [exact H|]. intros e. reflexivity.
    - (* OpSetGet *) cbn [map_step]. apply get_inner_UW; [exact H|]. intros [[i e]|]; uw_tail.
    - (* OpSetGetOrInsert *) cbn [map_step]. apply m_find_or_slot_UW; [exact H|exact HA| |]; intros; uw_tail.
    - (* OpSetGetOrInsertWith: the library's own assert! panic is OutLibPanic, the table is not touched *)
      cbn [map_step]. apply m_find_or_slot_UW; [exact H|exact HA| |]; intros; uw_tail.
    - (* OpSetRemove *) cbn [map_step].
      apply (UW_post _ (fun o => match o with OutNone => OutBool false | x => x end)
               (fun evs => flat_map (fun e => match e with
                                              | EvMoveOut x => if needs_drop then [EvDrop x] else []
                                              | y => [y] end) evs)).
      + intros o. destruct o; cbn [is_unwind]; intros X; exact X.
      + apply m_remove_entry_UW; [exact H|]. intros e. reflexivity.
    - (* OpSetToggle *) cbn [map_step]. apply m_find_or_slot_UW; [exact H|exact HA| |]; intros; uw_tail.
  Qed.
End MapUnwind.

(* ------------------------------------------------------------------------------------------ *)
(* the theorems                                                                                 *)
(* ------------------------------------------------------------------------------------------ *)
(* every operation that unwinds -- the hasher panicked on the key, or on a stored element during the
   reserve / in-place rehash / resize inside insert, entry, reserve, shrink_to, try_reserve, extend,
   the set operations -- leaves a table that satisfies the full invariant and owns its block *)
Theorem map_step_unwind_WF :
  forall B tsize talign needs_drop hash_of alloc_refuses (t : table kv) (op : map_op) t' o evs,
  WidthOK B -> BackendSpec B -> LayoutOK tsize talign -> op_args_ok op ->
  WF B kv (fun e => hash_of (k_id e)) t -> TOwn B kv tsize talign t ->
  map_step B tsize talign needs_drop true hash_of alloc_refuses t op = Ok (t', o, evs) ->
  is_unwind o = true ->
  WF B kv (fun e => hash_of (k_id e)) t' /\ TOwn B kv tsize talign t'.
Proof.
  intros B tsize talign needs_drop hash_of alloc_refuses t op t' o evs HW HB HL Hargs H HA E Hu.
  pose proof H as (Hs & _).
  pose proof (map_step_safe B tsize talign needs_drop hash_of alloc_refuses t op HW HB HL Hargs Hs HA) as Hg.
  pose proof (map_step_UW B HW HB tsize talign HL needs_drop hash_of alloc_refuses t op Hargs H HA) as Hw.
  rewrite E in Hg, Hw. cbn [UW] in Hw. split; [exact (Hw Hu)|exact (proj2 Hg)].
Qed.

(* HashMap::insert and Extend with a partial hasher: the full invariant is kept whatever the outcome *)
Theorem map_insert_partial_WF :
  forall B tsize talign needs_drop hash_of alloc_refuses (t : table kv) k stamp v t' o evs,
  WidthOK B -> BackendSpec B -> LayoutOK tsize talign ->
  WF B kv (fun e => hash_of (k_id e)) t -> TOwn B kv tsize talign t ->
  map_step B tsize talign needs_drop true hash_of alloc_refuses t (OpInsert k stamp v) = Ok (t', o, evs) ->
  WF B kv (fun e => hash_of (k_id e)) t' /\ TOwn B kv tsize talign t'.
Proof.
  intros B tsize talign needs_drop hash_of alloc_refuses t k stamp v t' o evs HW HB HL H HA E.
  pose proof H as (Hs & _).
  pose proof (map_step_safe B tsize talign needs_drop hash_of alloc_refuses t (OpInsert k stamp v)
                HW HB HL I Hs HA) as Hg.
  pose proof (m_insert_PW B HW HB tsize talign HL needs_drop hash_of alloc_refuses t k stamp v H HA) as Hw.
  cbn [map_step] in E, Hg. rewrite E in Hg, Hw. split; [exact Hw|exact (proj2 Hg)].
Qed.

Theorem map_extend_partial_WF :
  forall B tsize talign needs_drop hash_of alloc_refuses (t : table kv) kvs t' o evs,
  WidthOK B -> BackendSpec B -> LayoutOK tsize talign -> op_args_ok (OpExtend kvs) ->
  WF B kv (fun e => hash_of (k_id e)) t -> TOwn B kv tsize talign t ->
  map_step B tsize talign needs_drop true hash_of alloc_refuses t (OpExtend kvs) = Ok (t', o, evs) ->
  WF B kv (fun e => hash_of (k_id e)) t' /\ TOwn B kv tsize talign t'.
Proof.
  intros B tsize talign needs_drop hash_of alloc_refuses t kvs t' o evs HW HB HL Hargs H HA E.
  pose proof H as (Hs & _).
  pose proof (map_step_safe B tsize talign needs_drop hash_of alloc_refuses t (OpExtend kvs)
                HW HB HL Hargs Hs HA) as Hg.
  rewrite E in Hg. split; [|exact (proj2 Hg)].
  revert E. cbn [map_step]. cbv zeta.
  pose proof (extend_reserve_range (items t =? 0)%Z (length kvs) Hargs) as Hr.
  pose proof (reserve_cases B HW HB tsize talign HL needs_drop hash_of alloc_refuses t _ Hs HA Hr) as Hp.
  destruct (reserve B kv tsize talign needs_drop (hasher hash_of) true t
              (map_extend_reserve (items t =? 0)%Z (zn (length kvs))) alloc_refuses)
    as [[[[t1 evs1] tr] unw]|er] eqn:Er; cbn [bind]; [|discriminate].
  pose proof (reserve_partial_WF B kv HW HB tsize talign (proj1 HL) (proj2 HL) needs_drop (hasher hash_of)
                t _ alloc_refuses t1 evs1 tr unw H HA Hr Er) as H1.
  destruct Hp as (_ & HA1).
  destruct unw.
  - unfold unwind. intros E. injection E as <- _ _. exact H1.
  - intros E.
    pose proof (extend_loop_PW B HW HB tsize talign HL needs_drop hash_of alloc_refuses kvs t1 [] evs1 H1 HA1)
      as Hw.
    rewrite E in Hw. exact Hw.
Qed.

Print Assumptions m_insert_PW.
Print Assumptions extend_loop_PW.
Print Assumptions map_step_UW.
Print Assumptions map_step_unwind_WF.
Print Assumptions map_insert_partial_WF.
Print Assumptions map_extend_partial_WF.
