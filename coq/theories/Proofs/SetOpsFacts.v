(* SetOpsFacts.v -- the assigning set operators of src/set.rs (|=, &=, ^=, -=; Model/SetOps.v: the
   loops the source runs, every iteration a HashSet operation of the table model) REFINE the
   mathematical set operations: from any well-formed table representing the set s, for ANY
   right-hand element list (the other set's iteration, any order), the resulting table is
   well-formed and represents exactly  s U rhs / s n rhs / s xor rhs / s \ rhs,  element objects
   included (which object survives, which one is cloned in).  Also: collecting a duplicate-free
   list (what the non-assigning operators |, &, ^, - do with their lazy pipelines) yields a table
   representing exactly that list.  No axioms. *)
From Coq Require Import ZArith List Bool Lia Permutation.
From HB Require Import RsPrelude Sse2 Gen Group Raw Map Check AssocSpec WFDefs MapDefs AssocFacts
  MapRefineBase MapStepRefine SetAlg SetOps.
Import ListNotations.
Open Scope Z_scope.

(* ------------------------------------------------------------------------------------------ *)
(* reference level                                                                              *)
(* ------------------------------------------------------------------------------------------ *)
Definition has (s : spec) (k : Z) : bool := match lookup s k with Some _ => true | None => false end.
Definition mk0 (x : kv) : kv := mkKV (k_id x) (k_stamp x) 0.
Definition first_of (k : Z) (rhs : list kv) : option kv := List.find (fun x => k_id x =? k) rhs.

Definition sp_toggle (s : spec) (e : kv) : spec := if has s (k_id e) then delete s (k_id e) else put s (mk0 e).
Definition sp_remove (s : spec) (e : kv) : spec := delete s (k_id e).
Definition sp_add (s : spec) (e : kv) : spec := if has s (k_id e) then s else put s (mk0 e).

(* what the four operators must produce, per key: the complete description of the result *)
Definition set2_spec (op : set2_op) (s : spec) (rhs : list kv) (k : Z) : option kv :=
  match op with
  | OpOrAssign => match lookup s k with Some e => Some e | None => option_map mk0 (first_of k rhs) end
  | OpAndAssign => if memk k rhs then lookup s k else None
  | OpXorAssign => match first_of k rhs with
                   | Some x => if has s k then None else Some (mk0 x)
                   | None => lookup s k
                   end
  | OpSubAssign => if memk k rhs then None else lookup s k
  end.

Definition set_math (op : set2_op) (a b : bool) : bool :=
  match op with
  | OpOrAssign => a || b
  | OpAndAssign => a && b
  | OpXorAssign => xorb a b
  | OpSubAssign => a && negb b
  end.

Lemma memk_first_of k rhs : memk k rhs = match first_of k rhs with Some _ => true | None => false end.
Proof.
  unfold memk, keys, first_of. induction rhs as [|x r IH]; cbn [map existsb List.find]; [reflexivity|].
  rewrite (Z.eqb_sym k (k_id x)). destruct (k_id x =? k); [reflexivity|exact IH].
Qed.

Lemma set2_spec_has op s rhs k :
  match set2_spec op s rhs k with Some _ => true | None => false end = set_math op (has s k) (memk k rhs).
Proof.
  rewrite memk_first_of. unfold set2_spec, set_math, has. rewrite ?memk_first_of.
  destruct op; destruct (lookup s k); destruct (first_of k rhs); reflexivity.
Qed.

Lemma lookup_delete s k k' : lookup (delete s k) k' = if k' =? k then None else lookup s k'.
Proof.
  destruct (Z.eqb_spec k' k) as [->|Hne]; [apply lookup_delete_same|apply lookup_delete_other; exact Hne].
Qed.

Lemma lookup_put s e k' : lookup (put s e) k' = if k' =? k_id e then Some e else lookup s k'.
Proof.
  destruct (Z.eqb_spec k' (k_id e)) as [->|Hne]; [apply lookup_put_same|apply lookup_put_other; exact Hne].
Qed.

Lemma fold_remove_lookup rhs : forall s k,
  lookup (fold_left sp_remove rhs s) k = if memk k rhs then None else lookup s k.
Proof.
  induction rhs as [|x r IH]; intros s k; cbn [fold_left]; [reflexivity|].
  rewrite IH. unfold sp_remove. rewrite lookup_delete. unfold memk, keys. cbn [map existsb].
  destruct (k =? k_id x); cbn [orb]; [destruct (existsb _ _); reflexivity|reflexivity].
Qed.

Lemma fold_add_lookup rhs : forall s k,
  lookup (fold_left sp_add rhs s) k =
  match lookup s k with Some e => Some e | None => option_map mk0 (first_of k rhs) end.
Proof.
  induction rhs as [|x r IH]; intros s k; cbn [fold_left].
  - cbn. destruct (lookup s k); reflexivity.
  - rewrite IH. unfold sp_add, has, first_of. cbn [List.find].
    destruct (lookup s (k_id x)) as [e0|] eqn:E0.
    + destruct (lookup s k) as [e|] eqn:Ek; [reflexivity|].
      destruct (Z.eqb_spec (k_id x) k) as [Hk|_]; [rewrite Hk in E0; congruence|reflexivity].
    + rewrite lookup_put. cbn [mk0 k_id]. rewrite (Z.eqb_sym k (k_id x)).
      destruct (Z.eqb_spec (k_id x) k) as [Hk|_].
      * rewrite <- Hk, E0. reflexivity.
      * reflexivity.
Qed.

Lemma first_of_None k rhs : ~ In k (keys rhs) -> first_of k rhs = None.
Proof.
  unfold first_of, keys. induction rhs as [|x r IH]; cbn [map List.find]; [reflexivity|].
  intros H. destruct (Z.eqb_spec (k_id x) k) as [Hk|_]; [exfalso; apply H; left; exact Hk|].
  apply IH. intros Hin. apply H. right. exact Hin.
Qed.

Lemma fold_toggle_lookup rhs : NoDup (keys rhs) -> forall s k,
  lookup (fold_left sp_toggle rhs s) k =
  match first_of k rhs with
  | Some x => if has s k then None else Some (mk0 x)
  | None => lookup s k
  end.
Proof.
  induction rhs as [|x r IH]; intros Hnd s k; cbn [fold_left]; [reflexivity|].
  unfold keys in Hnd. cbn [map] in Hnd. inversion Hnd as [|? ? Hni Hnd']; subst.
  rewrite (IH Hnd'). unfold first_of at 2. cbn [List.find]. fold (first_of k r).
  destruct (Z.eqb_spec (k_id x) k) as [Hk|Hne].
  - subst k. rewrite (first_of_None (k_id x) r Hni). unfold sp_toggle, has.
    destruct (lookup s (k_id x)); [apply lookup_delete_same|].
    rewrite lookup_put. cbn [mk0 k_id]. rewrite Z.eqb_refl. reflexivity.
  - assert (Hl : lookup (sp_toggle s x) k = lookup s k).
    { unfold sp_toggle. destruct (has s (k_id x)).
      - apply lookup_delete_other. congruence.
      - apply lookup_put_other. cbn [mk0 k_id]. congruence. }
    unfold has. rewrite Hl. reflexivity.
Qed.

(* retain with a predicate on keys, values all 0, bump 0 *)
Lemma zero_mk e : v_val e = 0 -> mkKV (k_id e) (k_stamp e) (wadd 64 (v_val e) 0) = e.
Proof. destruct e as [a b c]. cbn. intros ->. reflexivity. Qed.

Lemma retain_zero_filter keep (s : spec) : zero_vals s ->
  flat_map (fun e => if existsb (Z.eqb (k_id e)) keep
                     then [mkKV (k_id e) (k_stamp e) (wadd 64 (v_val e) 0)] else []) s
  = filter (fun e => existsb (Z.eqb (k_id e)) keep) s.
Proof.
  induction s as [|e r IH]; intros Hz; cbn [flat_map filter]; [reflexivity|].
  rewrite IH by (intros x Hx; apply Hz; right; exact Hx).
  destruct (existsb _ keep); [|reflexivity]. rewrite (zero_mk e (Hz e (or_introl eq_refl))). reflexivity.
Qed.

Lemma lookup_filter_key (pk : Z -> bool) (s : spec) k :
  lookup (filter (fun e => pk (k_id e)) s) k = if pk k then lookup s k else None.
Proof.
  induction s as [|e r IH]; cbn [filter lookup]; [destruct (pk k); reflexivity|].
  destruct (pk (k_id e)) eqn:Ep; cbn [lookup]; destruct (Z.eqb_spec (k_id e) k) as [Hk|Hne].
  - subst k. rewrite Ep. reflexivity.
  - exact IH.
  - subst k. rewrite IH, Ep. reflexivity.
  - exact IH.
Qed.

Lemma zero_filter p (s : spec) : zero_vals s -> zero_vals (filter p s).
Proof. intros Hz e He. apply filter_In in He. exact (Hz e (proj1 He)). Qed.

Lemma existsb_eqb_filter (q : Z -> bool) (l : list Z) k :
  existsb (Z.eqb k) (filter q l) = q k && existsb (Z.eqb k) l.
Proof.
  induction l as [|x r IH]; cbn [filter existsb]; [rewrite andb_false_r; reflexivity|].
  destruct (q x) eqn:Eq; cbn [existsb]; rewrite IH; destruct (Z.eqb_spec k x) as [->|_]; cbn [orb].
  - rewrite Eq. reflexivity.
  - reflexivity.
  - rewrite Eq. reflexivity.
  - reflexivity.
Qed.

Lemma existsb_eqb_In k l : existsb (Z.eqb k) l = true <-> In k l.
Proof.
  rewrite existsb_exists. split.
  - intros (x & Hin & E). apply Z.eqb_eq in E. subst x. exact Hin.
  - intros H. exists k. split; [exact H|apply Z.eqb_refl].
Qed.

(* ------------------------------------------------------------------------------------------ *)
(* the model                                                                                    *)
(* ------------------------------------------------------------------------------------------ *)
Section SetOpsFacts.
  Variable B : backend.
  Hypothesis HW : WidthOK B.
  Hypothesis HB : BackendSpec B.
  Variable tsize talign : Z.
  Hypothesis HL : LayoutOK tsize talign.
  Variable needs_drop : bool.
  Variable hash_of : Z -> option Z.
  Hypothesis Htot : TotalHash hash_of.
  Variable alloc_refuses : bool.

  Local Notation INV := (Inv B tsize talign hash_of).
  Local Notation STEP := (map_step B tsize talign needs_drop true hash_of alloc_refuses).
  Local Notation refines := (map_step_refines_inv B HW HB tsize talign HL needs_drop hash_of Htot alloc_refuses).
  Local Notation RUN_OPS := (run_ops B tsize talign needs_drop true hash_of alloc_refuses).

  Lemma expect_out o w s1 s2 : expect o w s1 = Some s2 -> out_eqb o w = true /\ s2 = s1.
  Proof. unfold expect. destruct (out_eqb o w); [|discriminate]. intros H. injection H as <-. split; reflexivity. Qed.

  Lemma out_eqb_bool o b : out_eqb o (OutBool b) = true -> o = OutBool b.
  Proof. destruct o; cbn; try discriminate. intros H. apply Bool.eqb_prop in H. subst. reflexivity. Qed.

  Lemma zero_has (s : spec) k : zero_vals s -> forall e, lookup s k = Some e -> v_val e = 0.
  Proof. intros Hz e He. exact (Hz e (proj1 (lookup_Some s k e He))). Qed.

  (* one iteration of ^= *)
  Lemma step_toggle t s e t1 o evs : INV t s -> zero_vals s ->
    STEP t (OpSetToggle (k_id e) (k_stamp e)) = Ok (t1, o, evs) ->
    (exists b, o = OutBool b) /\ INV t1 (sp_toggle s e) /\ zero_vals (sp_toggle s e).
  Proof.
    intros HI Hz E. destruct (refines t s (OpSetToggle (k_id e) (k_stamp e)) t1 o evs I I HI E) as (_ & s' & Ea & HI').
    cbn [spec_accepts] in Ea. unfold sp_toggle, has.
    destruct (lookup s (k_id e)); apply expect_out in Ea; destruct Ea as (Eo & ->);
      apply out_eqb_bool in Eo; (split; [eexists; exact Eo|]); (split; [exact HI'|]).
    - apply zero_delete. exact Hz.
    - apply zero_put; [exact Hz|reflexivity].
  Qed.

  (* one iteration of the remove branch of -= *)
  Lemma step_remove t s e t1 o evs : INV t s -> zero_vals s ->
    STEP t (OpSetRemove (k_id e)) = Ok (t1, o, evs) ->
    (exists b, o = OutBool b) /\ INV t1 (sp_remove s e) /\ zero_vals (sp_remove s e).
  Proof.
    intros HI Hz E. destruct (refines t s (OpSetRemove (k_id e)) t1 o evs I I HI E) as (_ & s' & Ea & HI').
    cbn [spec_accepts] in Ea. unfold sp_remove.
    destruct (lookup s (k_id e)) eqn:El; apply expect_out in Ea; destruct Ea as (Eo & ->);
      apply out_eqb_bool in Eo; (split; [eexists; exact Eo|]).
    - split; [exact HI'|apply zero_delete; exact Hz].
    - rewrite (delete_absent s _ El). split; [exact HI'|exact Hz].
  Qed.

  Lemma run_ops_fold (f : kv -> map_op) (g : spec -> kv -> spec) :
    (forall t s e t1 o evs, INV t s -> zero_vals s -> STEP t (f e) = Ok (t1, o, evs) ->
       (exists b, o = OutBool b) /\ INV t1 (g s e) /\ zero_vals (g s e)) ->
    forall rhs t s evs0 t' o evs, INV t s -> zero_vals s ->
      RUN_OPS t (map f rhs) evs0 = Ok (t', o, evs) ->
      o = OutUnit /\ INV t' (fold_left g rhs s) /\ zero_vals (fold_left g rhs s).
  Proof.
    intros Hstep. induction rhs as [|x r IH]; intros t s evs0 t' o evs HI Hz E; cbn [map run_ops] in E.
    - injection E as <- <- <-. cbn [fold_left]. split; [reflexivity|]. split; [exact HI|exact Hz].
    - destruct (STEP t (f x)) as [[[t1 o1] evs1]|] eqn:Es; cbn [bind] in E; [|discriminate].
      destruct (Hstep t s x t1 o1 evs1 HI Hz Es) as ((b & ->) & HI1 & Hz1).
      cbn [fold_left]. exact (IH t1 (g s x) _ t' o evs HI1 Hz1 E).
  Qed.

  (* |= : `if !self.contains(item) { self.insert(item.clone()) }` for every item of rhs *)
  Lemma or_assign_refines : forall rhs t s evs0 t' o evs, INV t s -> zero_vals s ->
    or_assign_loop B tsize talign needs_drop true hash_of alloc_refuses t rhs evs0 = Ok (t', o, evs) ->
    o = OutUnit /\ INV t' (fold_left sp_add rhs s) /\ zero_vals (fold_left sp_add rhs s).
  Proof.
    induction rhs as [|x r IH]; intros t s evs0 t' o evs HI Hz E; cbn [or_assign_loop] in E.
    - injection E as <- <- <-. cbn [fold_left]. split; [reflexivity|]. split; [exact HI|exact Hz].
    - destruct (STEP t (OpContains (k_id x))) as [[[tc c] evc]|] eqn:Ec; cbn [bind] in E; [|discriminate].
      destruct (refines t s (OpContains (k_id x)) tc c evc I I HI Ec) as (_ & sc & Ea & _).
      cbn [spec_accepts] in Ea. apply expect_out in Ea. destruct Ea as (Eo & _).
      apply out_eqb_bool in Eo. subst c. cbn [fold_left]. unfold sp_add at 2 4. unfold has.
      destruct (lookup s (k_id x)) as [e0|] eqn:El.
      + exact (IH t s evs0 t' o evs HI Hz E).
      + destruct (STEP t (OpSetInsert (k_id x) (k_stamp x))) as [[[t1 o1] evs1]|] eqn:Ei; cbn [bind] in E; [|discriminate].
        assert (Hpre : op_pre s (OpSetInsert (k_id x) (k_stamp x))).
        { cbn [op_pre]. intros e He. exact (zero_has s _ Hz e He). }
        destruct (refines t s (OpSetInsert (k_id x) (k_stamp x)) t1 o1 evs1 I Hpre HI Ei) as (_ & s1 & Ea1 & HI1).
        cbn [spec_accepts] in Ea1. rewrite El in Ea1. apply expect_out in Ea1. destruct Ea1 as (Eo1 & ->).
        apply out_eqb_bool in Eo1. subst o1.
        refine (IH t1 _ (evs0 ++ evs1) t' o evs HI1 _ E). apply zero_put; [exact Hz|reflexivity].
  Qed.

  Lemma retain_step_refines t s keep t' o evs : INV t s -> zero_vals s ->
    STEP t (OpRetain keep 0) = Ok (t', o, evs) ->
    o = OutUnit /\ INV t' (filter (fun e => existsb (Z.eqb (k_id e)) keep) s).
  Proof.
    intros HI Hz E. destruct (refines t s (OpRetain keep 0) t' o evs I I HI E) as (_ & s' & Ea & HI').
    cbn [spec_accepts] in Ea. apply expect_out in Ea. destruct Ea as (Eo & ->).
    rewrite (retain_zero_filter keep s Hz) in HI'. split; [|exact HI'].
    destruct o; cbn in Eo; try discriminate. reflexivity.
  Qed.

  Lemma has_keys_occ t s k : INV t s -> has s k = true -> In k (keys (occupants_of t)).
  Proof.
    intros (_ & _ & (P & _)) H. unfold has in H. destruct (lookup s k) as [e|] eqn:El; [|discriminate].
    apply lookup_Some in El. destruct El as (Hin & <-). unfold keys. apply in_map.
    apply (Permutation_in e (Permutation_sym P)). exact Hin.
  Qed.

  (* ---------------------------------------------------------------------------------------- *)
  (* THE THEOREM: all four assigning operators                                                  *)
  (* ---------------------------------------------------------------------------------------- *)
  Theorem set2_step_refines t s rhs op t' o evs :
    INV t s -> zero_vals s -> (op = OpXorAssign -> NoDup (keys rhs)) ->
    set2_step B tsize talign needs_drop true hash_of alloc_refuses t rhs op = Ok (t', o, evs) ->
    o = OutUnit /\
    exists s', INV t' s' /\ zero_vals s' /\ forall k, lookup s' k = set2_spec op s rhs k.
  Proof.
    intros HI Hz Hnd E. destruct op; cbn [set2_step] in E.
    - (* |= *)
      destruct (or_assign_refines rhs t s [] t' o evs HI Hz E) as (-> & HI' & Hz').
      split; [reflexivity|]. eexists. split; [exact HI'|]. split; [exact Hz'|].
      intros k. cbn [set2_spec]. apply fold_add_lookup.
    - (* &= *)
      destruct (retain_step_refines t s (keys rhs) t' o evs HI Hz E) as (-> & HI').
      split; [reflexivity|]. eexists. split; [exact HI'|]. split; [apply zero_filter; exact Hz|].
      intros k. cbn [set2_spec].
      rewrite (lookup_filter_key (fun k => existsb (Z.eqb k) (keys rhs)) s k). reflexivity.
    - (* ^= *)
      destruct (run_ops_fold (fun e => OpSetToggle (k_id e) (k_stamp e)) sp_toggle step_toggle
                  rhs t s [] t' o evs HI Hz E) as (-> & HI' & Hz').
      split; [reflexivity|]. eexists. split; [exact HI'|]. split; [exact Hz'|].
      intros k. cbn [set2_spec]. apply fold_toggle_lookup. apply Hnd. reflexivity.
    - (* -= *)
      destruct (set_sub_assign_remove_branch _ _).
      + destruct (run_ops_fold (fun e => OpSetRemove (k_id e)) sp_remove step_remove
                    rhs t s [] t' o evs HI Hz E) as (-> & HI' & Hz').
        split; [reflexivity|]. eexists. split; [exact HI'|]. split; [exact Hz'|].
        intros k. cbn [set2_spec]. apply fold_remove_lookup.
      + destruct (retain_step_refines t s _ t' o evs HI Hz E) as (-> & HI').
        split; [reflexivity|]. eexists. split; [exact HI'|]. split; [apply zero_filter; exact Hz|].
        intros k. cbn [set2_spec].
        rewrite (lookup_filter_key
                   (fun k => existsb (Z.eqb k) (filter (fun k => negb (memk k rhs)) (keys (occupants_of t)))) s k).
        rewrite existsb_eqb_filter.
        destruct (memk k rhs); cbn [negb andb]; [reflexivity|].
        destruct (lookup s k) as [e|] eqn:El; [|destruct (existsb _ _); reflexivity].
        assert (Hin : In k (keys (occupants_of t))).
        { apply (has_keys_occ t s k HI). unfold has. rewrite El. reflexivity. }
        apply existsb_eqb_In in Hin. rewrite Hin. reflexivity.
  Qed.

  (* membership form: the mathematical set operation *)
  Corollary set2_step_math t s rhs op t' o evs :
    INV t s -> zero_vals s -> (op = OpXorAssign -> NoDup (keys rhs)) ->
    set2_step B tsize talign needs_drop true hash_of alloc_refuses t rhs op = Ok (t', o, evs) ->
    exists s', INV t' s' /\ forall k, has s' k = set_math op (has s k) (memk k rhs).
  Proof.
    intros HI Hz Hnd E. destruct (set2_step_refines t s rhs op t' o evs HI Hz Hnd E) as (_ & s' & HI' & _ & Hl).
    exists s'. split; [exact HI'|]. intros k. unfold has at 1. rewrite Hl. apply set2_spec_has.
  Qed.

  (* ---------------------------------------------------------------------------------------- *)
  (* collect(): the non-assigning operators build a new set from the lazy pipeline's output     *)
  (* ---------------------------------------------------------------------------------------- *)
  Lemma fold_insert_like_lookup (l : list kv) : forall s k, (forall x, In x l -> v_val x = 0) ->
    lookup (fold_left (fun acc e => insert_like acc (k_id e) (k_stamp e) (v_val e)) l s) k =
    match lookup s k with
    | Some e => match first_of k l with Some _ => Some (mkKV k (k_stamp e) 0) | None => Some e end
    | None => option_map mk0 (first_of k l)
    end.
  Proof.
    induction l as [|x r IH]; intros s k Hz; cbn [fold_left].
    - cbn. destruct (lookup s k); reflexivity.
    - rewrite IH by (intros y Hy; apply Hz; right; exact Hy).
      rewrite (Hz x (or_introl eq_refl)).
      assert (Hf : first_of k (x :: r) = if k_id x =? k then Some x else first_of k r) by reflexivity.
      rewrite Hf. clear Hf. unfold insert_like. destruct (Z.eqb_spec (k_id x) k) as [Hk|Hne].
      + subst k. destruct (lookup s (k_id x)) as [e0|] eqn:E0.
        * rewrite lookup_put. cbn [k_id]. rewrite Z.eqb_refl. cbn [k_stamp].
          destruct (first_of (k_id x) r); reflexivity.
        * rewrite lookup_put. cbn [k_id]. rewrite Z.eqb_refl. cbn [k_stamp].
          destruct (first_of (k_id x) r); reflexivity.
      + assert (Hne' : k <> k_id x) by congruence.
        destruct (lookup s (k_id x)) as [e0|]; rewrite lookup_put_other by (cbn [k_id]; exact Hne');
          reflexivity.
  Qed.

  (* from_iter / collect of a list with pairwise distinct keys (the output of union, intersection,
     difference, symmetric_difference: SetAlgFacts) into a fresh set *)
  Theorem collect_refines l t' o evs :
    Z.of_nat (length l) < 2 ^ 62 -> (forall x, In x l -> v_val x = 0) ->
    STEP (new_table B kv) (OpExtend l) = Ok (t', o, evs) ->
    o = OutUnit /\ exists s', INV t' s' /\ forall k, lookup s' k = option_map mk0 (first_of k l).
  Proof.
    intros Hlen Hz E.
    destruct (refines (new_table B kv) [] (OpExtend l) t' o evs Hlen I (inv_new_table B tsize talign hash_of) E)
      as (_ & s' & Ea & HI').
    cbn [spec_accepts] in Ea. apply expect_out in Ea. destruct Ea as (Eo & ->).
    split; [destruct o; cbn in Eo; try discriminate; reflexivity|].
    eexists. split; [exact HI'|]. intros k. rewrite (fold_insert_like_lookup l [] k Hz). reflexivity.
  Qed.
End SetOpsFacts.

Print Assumptions set2_step_refines.
Print Assumptions set2_step_math.
Print Assumptions collect_refines.
