(* OwnIterFacts.v -- the owning iterators (Model/OwnIter.v: RawIntoIter, RawDrain), step by step.

   For every SafeWF table (owning its block, TOwn, where a deallocation is involved), ANY number
   n of calls of next() and then EITHER Drop OR mem::forget:

     O1  own_run_exact            the state after n calls: yielded = the first n occupants in
                                  bucket order, one EvMoveOut each; what the iterator still
                                  holds is exactly the rest
     O2  own_next_len             it_items = items - j after j calls (ExactSizeIterator), and
                                  after exhaustion next() keeps answering None, no event
     O3  into_iter_consume_spec   never Fail; MoveOut (yielded) ++ Drop (rest) ++ one Free
     O4  drain_consume_spec       never Fail; MoveOut ++ Drop; the collection afterwards is
                                  clear_no_drop of the table (block kept)
     O5  drain_consume_m_drain    = the one-shot model Map.m_drain, as values
     O6  drain_leak_spec / into_iter_leak_spec   no EvDrop, no EvFree; a leaked Drain leaves the
                                  valid empty singleton in the collection
   A destructor that panics (drop_ok e = false) is covered: the drops are a prefix of the rest
   ending in e, no Free, and the collection (drain) is left as the empty singleton.
   No axioms. *)
From Coq Require Import ZArith List Bool Lia Arith.
From HB Require Import RsPrelude Sse2 Gen Group Raw Map Check ArithFacts WFDefs GroupFacts IterFacts
  SafeAllocClear RawOpsSafe OwnIter GroupBackends.
Import ListNotations.
Open Scope nat_scope.

(* ---------------------------------------------------------------------------------------- *)
(* lists                                                                                      *)
(* ---------------------------------------------------------------------------------------- *)
Lemma map_const_length {A C D} (c : D) : forall (a : list A) (b : list C),
  length a = length b -> map (fun _ => c) a = map (fun _ => c) b.
Proof.
  induction a as [|x a IH]; intros [|y b] H; try discriminate H; [reflexivity|].
  cbn [map]. f_equal. apply IH. injection H as H. exact H.
Qed.

Lemma split_at_length {A} (l1 l2 : list A) n :
  length l1 = Nat.min n (length (l1 ++ l2)) ->
  firstn n (l1 ++ l2) = l1 /\ skipn n (l1 ++ l2) = l2.
Proof.
  intros H. rewrite app_length in H.
  rewrite firstn_app, skipn_app.
  assert (Hle : length l1 <= n) by lia.
  rewrite (firstn_all2 l1 Hle), (skipn_all2 l1 Hle).
  destruct (Nat.eq_dec (n - length l1) 0) as [E|E].
  - rewrite E. cbn [firstn skipn app]. split; [apply app_nil_r | reflexivity].
  - assert (E2 : length l2 = 0) by lia. destruct l2; [|discriminate E2].
    rewrite firstn_nil, skipn_nil. split; [apply app_nil_r | reflexivity].
Qed.

Lemma firstn_S_nth_error {A} : forall (l : list A) k x,
  nth_error l k = Some x -> firstn (S k) l = firstn k l ++ [x].
Proof.
  induction l as [|a l IHl]; intros k x Hk; [destruct k; discriminate|].
  destruct k as [|k]; cbn in Hk.
  - injection Hk as ->. reflexivity.
  - cbn [firstn app]. rewrite <- (IHl k x Hk). reflexivity.
Qed.

(* the elements / layouts an event list mentions, by kind, in order *)
Definition moved_out {T} (evs : list (event T)) : list T :=
  flat_map (fun ev => match ev with EvMoveOut x => [x] | _ => [] end) evs.
Definition dropped {T} (evs : list (event T)) : list T :=
  flat_map (fun ev => match ev with EvDrop x => [x] | _ => [] end) evs.
Definition freed {T} (evs : list (event T)) : list (Z * Z) :=
  flat_map (fun ev => match ev with EvFree s a => [(s, a)] | _ => [] end) evs.

Lemma moved_out_app {T} (a b : list (event T)) : moved_out (a ++ b) = moved_out a ++ moved_out b.
Proof. apply flat_map_app. Qed.
Lemma dropped_app {T} (a b : list (event T)) : dropped (a ++ b) = dropped a ++ dropped b.
Proof. apply flat_map_app. Qed.
Lemma freed_app {T} (a b : list (event T)) : freed (a ++ b) = freed a ++ freed b.
Proof. apply flat_map_app. Qed.

Lemma moved_out_MO {T} (l : list T) : moved_out (map EvMoveOut l) = l.
Proof. induction l as [|x l IH]; [reflexivity|]. cbn. f_equal. exact IH. Qed.
Lemma dropped_MO {T} (l : list T) : dropped (map EvMoveOut l) = [].
Proof. induction l as [|x l IH]; [reflexivity|]. exact IH. Qed.
Lemma freed_MO {T} (l : list T) : freed (map EvMoveOut l) = [].
Proof. induction l as [|x l IH]; [reflexivity|]. exact IH. Qed.
Lemma moved_out_Drop {T} (l : list T) : moved_out (map EvDrop l) = [].
Proof. induction l as [|x l IH]; [reflexivity|]. exact IH. Qed.
Lemma dropped_Drop {T} (l : list T) : dropped (map EvDrop l) = l.
Proof. induction l as [|x l IH]; [reflexivity|]. cbn. f_equal. exact IH. Qed.
Lemma freed_Drop {T} (l : list T) : freed (map EvDrop l) = [].
Proof. induction l as [|x l IH]; [reflexivity|]. exact IH. Qed.
Lemma map_EvDrop_inj {T} (a b : list T) : map (@EvDrop T) a = map EvDrop b -> a = b.
Proof. intros H. rewrite <- (dropped_Drop a), <- (dropped_Drop b), H. reflexivity. Qed.

(* ---------------------------------------------------------------------------------------- *)
(* frame facts: the scan reads the control bytes only; reads leave the control bytes alone     *)
(* ---------------------------------------------------------------------------------------- *)
Section Frame.
  Variable B : backend.
  Variable T : Type.

  Lemma load_aligned_ctrl (t t' : table T) p : ctrl t' = ctrl t ->
    load_aligned B T t' p = load_aligned B T t p.
  Proof. intros E. unfold load_aligned, load. rewrite E. reflexivity. Qed.

  Lemma next_impl_ctrl (t t' : table T) : ctrl t' = ctrl t ->
    forall fuel check it, next_impl B T fuel check t' it = next_impl B T fuel check t it.
  Proof.
    intros E. induction fuel as [|f IH]; intros check it.
    - reflexivity.
    - cbn [next_impl]. destruct (it_cur it); [|reflexivity].
      destruct (check && (it_end it <=? it_next it)); [reflexivity|].
      rewrite (load_aligned_ctrl t t' _ E).
      destruct (load_aligned B T t (it_next it)); cbn [bind]; [apply IH | reflexivity].
  Qed.

  Lemma iter_next_ctrl (t t' : table T) it : ctrl t' = ctrl t -> mask t' = mask t ->
    iter_next B T t' it = iter_next B T t it.
  Proof.
    intros Ec Em. unfold iter_next, iter_fuel, buckets. rewrite Em, (next_impl_ctrl t t' Ec). reflexivity.
  Qed.

  Lemma iter_collect_ctrl (t t' : table T) : ctrl t' = ctrl t -> mask t' = mask t ->
    forall fuel it, iter_collect B T fuel t' it = iter_collect B T fuel t it.
  Proof.
    intros Ec Em. induction fuel as [|f IH]; intros it; [reflexivity|].
    cbn [iter_collect]. rewrite (iter_next_ctrl t t' it Ec Em).
    destruct (iter_next B T t it) as [[[i|] it']|]; cbn [bind]; try reflexivity.
    rewrite IH. reflexivity.
  Qed.

  Lemma iter_all_ctrl (t t' : table T) it : ctrl t' = ctrl t -> mask t' = mask t ->
    iter_all B T t' it = iter_all B T t it.
  Proof.
    intros Ec Em. unfold iter_all, buckets. rewrite Em. apply (iter_collect_ctrl t t' Ec Em).
  Qed.

  (* a table that differs from t in its slots only *)
  Definition SameBut (t t' : table T) : Prop :=
    exists s, t' = with_slots T t s /\ length s = length (slots t).

  Lemma SameBut_refl t : SameBut t t.
  Proof. exists (slots t). split; [destruct t; reflexivity | reflexivity]. Qed.

  Lemma SameBut_trans t t1 t2 : SameBut t t1 -> SameBut t1 t2 -> SameBut t t2.
  Proof.
    intros (s1 & -> & L1) (s2 & -> & L2). exists s2. split; [reflexivity|].
    cbn [slots with_slots] in L2. congruence.
  Qed.

  Lemma SameBut_ctrl t t' : SameBut t t' -> ctrl t' = ctrl t.
  Proof. intros (s & -> & _). reflexivity. Qed.

  Lemma SameBut_mask t t' : SameBut t t' -> mask t' = mask t.
  Proof. intros (s & -> & _). reflexivity. Qed.

  Lemma slot_take_frame (t : table T) i e t1 : slot_take T t i = Ok (e, t1) -> SameBut t t1.
  Proof.
    unfold slot_take, slot_ref. intros H.
    destruct (is_singleton T t); [discriminate H|].
    destruct (nth_error (slots t) i) as [[x|]|] eqn:E; cbn [bind] in H; try discriminate H.
    injection H as _ <-. exists (upd (slots t) i None). split; [reflexivity|].
    apply upd_length. apply nth_error_Some. congruence.
  Qed.

  Lemma take_all_frame : forall idx (t : table T) es t1,
    take_all T t idx = Ok (es, t1) -> SameBut t t1 /\ length es = length idx.
  Proof.
    induction idx as [|i r IH]; intros t es t1 H; cbn [take_all] in H.
    - injection H as <- <-. split; [apply SameBut_refl | reflexivity].
    - destruct (slot_take T t i) as [[e t2]|] eqn:Es; cbn [bind] in H; [|discriminate H].
      destruct (take_all T t2 r) as [[es' t3]|] eqn:Et; cbn [bind] in H; [|discriminate H].
      injection H as <- <-. destruct (IH t2 es' t3 Et) as (S23 & L).
      split; [|cbn [length]; rewrite L; reflexivity].
      exact (SameBut_trans t t2 t3 (slot_take_frame t i e t2 Es) S23).
  Qed.

  Lemma take_all_app : forall l1 (t : table T) l2,
    take_all T t (l1 ++ l2) =
    ('(es1, t1) <- take_all T t l1 ;; '(es2, t2) <- take_all T t1 l2 ;; Ok (es1 ++ es2, t2)).
  Proof.
    induction l1 as [|i r IH]; intros t l2.
    - cbn [app take_all bind]. destruct (take_all T t l2) as [[es2 t2]|]; reflexivity.
    - cbn [app take_all]. destruct (slot_take T t i) as [[e t1]|]; cbn [bind]; [|reflexivity].
      rewrite IH. destruct (take_all T t1 r) as [[es1 t2]|]; cbn [bind]; [|reflexivity].
      destruct (take_all T t2 l2) as [[es2 t3]|]; reflexivity.
  Qed.

  Lemma clear_no_drop_SameBut t t' : SameBut t t' -> clear_no_drop T t' = clear_no_drop T t.
  Proof.
    intros (s & -> & L). unfold clear_no_drop, is_singleton. cbn [mask ctrl slots items growth_left with_slots].
    destruct (clear_no_drop_accounting (items t) (growth_left t) (zn (mask t))) as [i g].
    f_equal. apply map_const_length. exact L.
  Qed.

  (* n calls of next() on the owning iterator = n steps of the scan + reading those buckets *)
  Lemma own_run_steps (t0 : table T) : forall n (t : table T) it idx it' es t1,
    SameBut t0 t ->
    iter_steps B T n t0 it = Ok (idx, it') -> take_all T t idx = Ok (es, t1) ->
    own_run B T n (mkOwn t it) = Ok (es, mkOwn t1 it', map EvMoveOut es).
  Proof.
    induction n as [|n IH]; intros t it idx it' es t1 HS Hs Hta.
    - cbn [iter_steps] in Hs. injection Hs as <- <-. cbn [take_all] in Hta. injection Hta as <- <-. reflexivity.
    - cbn [iter_steps] in Hs. cbn [own_run]. unfold own_next. cbn [oi_tbl oi_it].
      rewrite (iter_next_ctrl t0 t it (SameBut_ctrl _ _ HS) (SameBut_mask _ _ HS)).
      destruct (iter_next B T t0 it) as [[[i|] it1]|]; cbn [bind] in Hs |- *; [| |discriminate Hs].
      + destruct (iter_steps B T n t0 it1) as [[l it'']|] eqn:Es; cbn [bind] in Hs; [|discriminate Hs].
        injection Hs as <- <-. cbn [take_all] in Hta.
        destruct (slot_take T t i) as [[e t2]|] eqn:Est; cbn [bind] in Hta |- *; [|discriminate Hta].
        destruct (take_all T t2 l) as [[es' t3]|] eqn:Eta; cbn [bind] in Hta; [|discriminate Hta].
        injection Hta as <- <-.
        rewrite (IH t2 it1 l it'' es' t3 (SameBut_trans _ _ _ HS (slot_take_frame t i e t2 Est)) Es Eta).
        cbn [bind map app]. reflexivity.
      + injection Hs as <- <-. cbn [take_all] in Hta. injection Hta as <- <-. reflexivity.
  Qed.
End Frame.

(* ---------------------------------------------------------------------------------------- *)
(* the owning iterators                                                                       *)
(* ---------------------------------------------------------------------------------------- *)
Section OwnIterFacts.
  Variable B : backend.
  Variable T : Type.
  Hypothesis HW : WidthOK B.
  Hypothesis HB : BackendSpec B.
  Variable tsize talign : Z.
  Hypothesis Hts : (0 <= tsize < 2 ^ 64)%Z.
  Hypothesis Hta : exists a : Z, (0 <= a <= 62)%Z /\ talign = (2 ^ a)%Z.
  Variable needs_drop : bool.
  Variable drop_ok : T -> bool.

  Local Notation occ := (occupants T).
  Local Notation OWN := (TOwn B T tsize talign).
  Local Notation MO := (map (@EvMoveOut T)).
  Local Notation Same := (SameBut T).

  (* what RawIter::drop_elements does with the elements the iterator still holds: nothing
     without drop glue, else the destructors in order up to the first one that panics *)
  Definition own_drops (l : list T) : list (event T) * bool :=
    if needs_drop then drop_list T drop_ok l else ([], true).

  Lemma occ_len_full t : SafeWF B T t -> length (occ t) = length (full_list t).
  Proof.
    intros H. pose proof (items_full_list B T HW t H) as H1.
    pose proof (occupants_length B T HW t H) as H2. lia.
  Qed.

  Lemma take_all_full t : SafeWF B T t ->
    exists t_e, take_all T t (full_list t) = Ok (occ t, t_e).
  Proof.
    intros H. destruct (Nat.eq_dec (mask t) 0) as [Hm|Hm].
    - rewrite (safe_singleton B T t H Hm).
      rewrite (proj2 (items_singleton B T HW)), (new_table_occupants B T).
      eexists. reflexivity.
    - destruct (safe_allocated_parts B T t H Hm) as (HS & _ & (_ & _ & _ & Hsl)).
      assert (Hfull : forall i, In i (full_list t) -> nth i (slots t) None <> None).
      { intros i Hin. unfold full_list in Hin. apply filter_In in Hin. destruct Hin as [Hin Hf].
        apply in_seq in Hin. apply (Hsl i ltac:(lia)). exact Hf. }
      assert (Hnd : NoDup (full_list t)) by (unfold full_list; apply NoDup_filter, seq_NoDup).
      destruct (take_all_spec T (full_list t) t Hm Hnd Hfull) as (es & Hta' & Hes).
      eexists. rewrite Hta'. f_equal. f_equal.
      rewrite (occupants_full_list B T HW t H). symmetry. apply flat_map_opt_of_map_Some. exact Hes.
  Qed.

  (* -------------------------------------------------------------------------------------- *)
  (* O1: the state after n calls of next()                                                    *)
  (* -------------------------------------------------------------------------------------- *)
  Theorem own_run_exact t it0 n : SafeWF B T t -> iter_new B T t = Ok it0 ->
    exists t_n it_n t_e,
      own_run B T n (mkOwn t it0) = Ok (firstn n (occ t), mkOwn t_n it_n, MO (firstn n (occ t))) /\
      Same t t_n /\ Same t t_e /\
      take_all T t (firstn n (full_list t)) = Ok (firstn n (occ t), t_n) /\
      it_items it_n = Z.of_nat (length (occ t) - n) /\
      iter_all B T t_n it_n = Ok (skipn n (full_list t)) /\
      take_all T t_n (skipn n (full_list t)) = Ok (skipn n (occ t), t_e) /\
      (length (occ t) <= n -> iter_next B T t_n it_n = Ok (None, it_n)).
  Proof.
    intros H Hn. destruct (iter_new_inv B T HW HB t H) as (it & Hn' & HI).
    rewrite Hn in Hn'. injection Hn' as <-.
    destruct (safe_geo B T HW t H) as [HS HF _ _ _ _].
    destruct (iter_steps_spec B T HW HB t (iter_bound B T t) HS HF n it0 _ HI) as (it_n & Hs & HIn).
    destruct (take_all_full t H) as (t_e & Hfull).
    rewrite <- (firstn_skipn n (full_list t)) in Hfull at 1. rewrite take_all_app in Hfull.
    destruct (take_all T t (firstn n (full_list t))) as [[es1 t1]|] eqn:E1; cbn [bind] in Hfull; [|discriminate Hfull].
    destruct (take_all T t1 (skipn n (full_list t))) as [[es2 t2]|] eqn:E2; cbn [bind] in Hfull; [|discriminate Hfull].
    injection Hfull as Hocc Ht2. subst t2.
    destruct (take_all_frame T _ _ _ _ E1) as (S1 & L1).
    destruct (take_all_frame T _ _ _ _ E2) as (S2 & L2).
    pose proof (occ_len_full t H) as Hlen.
    assert (Hsp : firstn n (occ t) = es1 /\ skipn n (occ t) = es2).
    { rewrite <- Hocc. apply split_at_length. rewrite Hocc, L1, firstn_length, Hlen. reflexivity. }
    destruct Hsp as (Ef & Esk). rewrite Ef, Esk.
    exists t1, it_n, t_e. split; [|split; [exact S1|split; [exact (SameBut_trans T _ _ _ S1 S2)|split; [reflexivity|split; [|split; [|split]]]]]].
    - exact (own_run_steps B T t n t it0 _ it_n es1 t1 (SameBut_refl T t) Hs E1).
    - destruct HIn as (_ & _ & Hi & _). rewrite Hi, skipn_length, Hlen. reflexivity.
    - rewrite (iter_all_ctrl B T t t1 it_n (SameBut_ctrl T _ _ S1) (SameBut_mask T _ _ S1)).
      unfold iter_all. apply (iter_collect_spec B T HW HB t (iter_bound B T t) HS HF _ it_n _ HIn).
      rewrite skipn_length. pose proof (full_list_le T t). unfold nb in *. lia.
    - exact E2.
    - intros Hle. rewrite (iter_next_ctrl B T t t1 it_n (SameBut_ctrl T _ _ S1) (SameBut_mask T _ _ S1)).
      rewrite skipn_all2 in HIn by lia. exact (iter_next_none B T t _ it_n HIn).
  Qed.

  (* -------------------------------------------------------------------------------------- *)
  (* RawIter::drop_elements on the iterator's current state                                   *)
  (* -------------------------------------------------------------------------------------- *)
  Lemma own_drops_spec l dr ok : own_drops l = (dr, ok) ->
    drops_prefix T dr l /\
    (needs_drop = true -> ok = true -> dr = map EvDrop l) /\
    (needs_drop = false -> dr = [] /\ ok = true) /\
    ((forall e, In e l -> drop_ok e = true) -> ok = true) /\
    (ok = false -> exists l' e, dr = map EvDrop (l' ++ [e]) /\ drop_ok e = false /\ In e l).
  Proof.
    unfold own_drops. intros H. destruct needs_drop.
    - destruct (drop_list_spec T drop_ok l dr ok H) as (k & Hk & -> & Hok & Hfail).
      split; [apply drops_prefix_firstn; exact Hk|].
      split; [intros _ Ho; rewrite (Hok Ho), firstn_all; reflexivity|].
      split; [discriminate|]. split.
      + intros Hall. destruct ok; [reflexivity|]. destruct (Hfail eq_refl) as (e & He & Hde & _).
        apply nth_error_In in He. rewrite (Hall e He) in Hde. discriminate Hde.
      + intros Ho. destruct (Hfail Ho) as (e & He & Hde & Hpos).
        exists (firstn (k - 1) l), e. split; [|split; [exact Hde | exact (nth_error_In _ _ He)]].
        f_equal. replace k with (S (k - 1)) at 1 by lia. apply firstn_S_nth_error. exact He.
    - injection H as <- <-. split; [apply drops_prefix_nil|]. split; [discriminate|].
      split; [split; reflexivity|]. split; [reflexivity | discriminate].
  Qed.

  Lemma own_drop_exact t t_n it_n t_e n dr ok :
    Same t t_n -> Same t t_e ->
    it_items it_n = Z.of_nat (length (occ t) - n) ->
    iter_all B T t_n it_n = Ok (skipn n (full_list t)) ->
    take_all T t_n (skipn n (full_list t)) = Ok (skipn n (occ t), t_e) ->
    own_drops (skipn n (occ t)) = (dr, ok) ->
    exists t_d, own_drop_elements B T needs_drop drop_ok (mkOwn t_n it_n) = Ok (t_d, dr, ok) /\ Same t t_d.
  Proof.
    intros S1 S2 Hi Hall Hta' Hd. unfold own_drop_elements, own_drops in *. cbn [oi_tbl oi_it].
    destruct needs_drop; cbn [andb].
    - destruct (Z.eqb_spec (it_items it_n) 0) as [E0|E0]; cbn [negb].
      + assert (Hsk : skipn n (occ t) = []) by (apply skipn_all2; lia).
        rewrite Hsk in Hd. cbn [drop_list] in Hd. injection Hd as <- <-.
        exists t_n. split; [reflexivity | exact S1].
      + rewrite Hall. cbn [bind]. rewrite Hta'. cbn [bind]. rewrite Hd.
        exists t_e. split; [reflexivity | exact S2].
    - injection Hd as <- <-. exists t_n. split; [reflexivity | exact S1].
  Qed.

  Lemma into_iter_new_ok t it0 : OWN t -> iter_new B T t = Ok it0 ->
    into_iter_new B T tsize talign t = Ok (mkOwn t it0).
  Proof.
    intros HA Hn. unfold into_iter_new, into_iter_from, into_allocation. rewrite Hn. cbn [bind].
    unfold is_singleton. destruct (Nat.eqb_spec (mask t) 0) as [Hm|Hm]; [reflexivity|].
    destruct HA as [|(_ & len & al & off & El)]; [contradiction|].
    change (buckets T t) with (nb T t). rewrite El. reflexivity.
  Qed.

  (* the deallocation at the end of RawIntoIter's Drop *)
  Lemma own_free t t_d : SafeWF B T t -> OWN t -> Same t t_d ->
    exists fr, (if is_singleton T t_d then Ok [] else free_buckets B T tsize talign t_d) = Ok fr /\
      (mask t = 0 -> fr = []) /\
      (mask t <> 0 -> exists len al off, layout_for B tsize talign (nb T t) = Some (len, al, off) /\
                        ValidLayout len al /\ fr = [EvFree len al]).
  Proof.
    intros H HA Sd. pose proof (SameBut_mask T _ _ Sd) as Em. unfold is_singleton. rewrite Em.
    destruct (Nat.eqb_spec (mask t) 0) as [Hm|Hm].
    - exists []. split; [reflexivity|]. split; [reflexivity | contradiction].
    - destruct HA as [|(_ & len & al & off & El)]; [contradiction|].
      assert (El' : layout_for B tsize talign (nb T t_d) = Some (len, al, off)).
      { unfold nb, buckets in *. rewrite Em. exact El. }
      assert (Hm' : mask t_d <> 0) by (rewrite Em; exact Hm).
      destruct (free_buckets_ok B T tsize talign t_d len al off Hm' El') as [Hf _].
      exists [EvFree len al]. split; [exact Hf|]. split; [contradiction|]. intros _.
      exists len, al, off. split; [exact El|]. split; [|reflexivity].
      destruct (safe_allocated_parts B T t H Hm) as (HS & _).
      exact (allocated_layout_valid B T HW tsize talign Hts Hta t len al off HS El).
  Qed.

  Lemma yielded_length t n : SafeWF B T t ->
    length (firstn n (occ t)) = Nat.min n (Z.to_nat (items t)).
  Proof.
    intros H. rewrite firstn_length, (occupants_length B T HW t H), Nat2Z.id. reflexivity.
  Qed.

  (* -------------------------------------------------------------------------------------- *)
  (* O3: table.into_iter(); n x next(); drop                                                  *)
  (* -------------------------------------------------------------------------------------- *)
  Theorem into_iter_consume_spec t n : SafeWF B T t -> OWN t ->
    exists dr ok fr,
      into_iter_consume B T tsize talign needs_drop drop_ok t n
        = Ok (firstn n (occ t), MO (firstn n (occ t)) ++ dr ++ fr, ok) /\
      length (firstn n (occ t)) = Nat.min n (Z.to_nat (items t)) /\
      drops_prefix T dr (skipn n (occ t)) /\
      (needs_drop = true -> ok = true -> dr = map EvDrop (skipn n (occ t))) /\
      (needs_drop = false -> dr = [] /\ ok = true) /\
      ((forall e, In e (skipn n (occ t)) -> drop_ok e = true) -> ok = true) /\
      (ok = false -> fr = [] /\ exists l e, dr = map EvDrop (l ++ [e]) /\ drop_ok e = false /\
                                           In e (skipn n (occ t))) /\
      (ok = true -> mask t = 0 -> fr = []) /\
      (ok = true -> mask t <> 0 ->
         exists len al off, layout_for B tsize talign (nb T t) = Some (len, al, off) /\
           ValidLayout len al /\ fr = [EvFree len al]).
  Proof.
    intros H HA. destruct (iter_new_inv B T HW HB t H) as (it0 & Hn & _).
    destruct (own_run_exact t it0 n H Hn) as (t_n & it_n & t_e & Hrun & S1 & S2 & _ & Hi & Hall & Hta' & _).
    destruct (own_drops (skipn n (occ t))) as [dr ok] eqn:Hd.
    destruct (own_drop_exact t t_n it_n t_e n dr ok S1 S2 Hi Hall Hta' Hd) as (t_d & Hde & Sd).
    destruct (own_free t t_d H HA Sd) as (fr & Hfr & Hf0 & Hf1).
    destruct (own_drops_spec _ _ _ Hd) as (D1 & D2 & D3 & D4 & D5).
    unfold into_iter_consume. rewrite (into_iter_new_ok t it0 HA Hn). cbn [bind].
    rewrite Hrun. cbn [bind]. unfold into_iter_drop. rewrite Hde. cbn [bind].
    destruct ok.
    - rewrite Hfr. cbn [bind]. exists dr, true, fr. split; [reflexivity|].
      split; [exact (yielded_length t n H)|]. split; [exact D1|]. split; [exact D2|]. split; [exact D3|].
      split; [exact D4|]. split; [discriminate|]. split; [intros _; exact Hf0 | intros _; exact Hf1].
    - exists dr, false, []. rewrite app_nil_r. split; [reflexivity|].
      split; [exact (yielded_length t n H)|]. split; [exact D1|]. split; [exact D2|]. split; [exact D3|].
      split; [exact D4|]. split; [intros _; split; [reflexivity | exact (D5 eq_refl)]|].
      split; discriminate.
  Qed.

  Lemma proj_shape (a l0 : list T) (fr : list (event T)) : moved_out fr = [] -> dropped fr = [] ->
    moved_out (MO a ++ map EvDrop l0 ++ fr) = a /\ dropped (MO a ++ map EvDrop l0 ++ fr) = l0 /\
    freed (MO a ++ map EvDrop l0 ++ fr) = freed fr.
  Proof.
    intros H1 H2.
    rewrite !moved_out_app, !dropped_app, !freed_app, moved_out_MO, dropped_MO, freed_MO,
      moved_out_Drop, dropped_Drop, freed_Drop, H1, H2, !app_nil_r. cbn [app]. repeat split.
  Qed.

  (* the same, by kind of event: every occupant is released exactly once -- moved out to the
     caller or destroyed, never both, never twice -- and the block is returned exactly once *)
  Corollary into_iter_releases_each_once t n : SafeWF B T t -> OWN t ->
    exists es evs ok,
      into_iter_consume B T tsize talign needs_drop drop_ok t n = Ok (es, evs, ok) /\
      es = firstn n (occ t) /\ moved_out evs = es /\
      (exists k, dropped evs = firstn k (skipn n (occ t))) /\
      (needs_drop = true -> ok = true -> moved_out evs ++ dropped evs = occ t) /\
      (needs_drop = false -> dropped evs = [] /\ ok = true) /\
      ((forall e, In e (occ t) -> drop_ok e = true) -> ok = true) /\
      (ok = false -> freed evs = [] /\ exists e, In e (dropped evs) /\ drop_ok e = false) /\
      (ok = true -> mask t = 0 -> freed evs = []) /\
      (ok = true -> mask t <> 0 ->
         exists len al off, layout_for B tsize talign (nb T t) = Some (len, al, off) /\
           ValidLayout len al /\ freed evs = [(len, al)]).
  Proof.
    intros H HA.
    destruct (into_iter_consume_spec t n H HA) as (dr & ok & fr & E & _ & D1 & D2 & D3 & D4 & D5 & F0 & F1).
    destruct D1 as (l0 & -> & Hl0).
    assert (Hfr : moved_out fr = [] /\ dropped fr = []).
    { destruct ok.
      - destruct (Nat.eq_dec (mask t) 0) as [Hm|Hm].
        + rewrite (F0 eq_refl Hm). split; reflexivity.
        + destruct (F1 eq_refl Hm) as (len & al & off & _ & _ & ->). split; reflexivity.
      - rewrite (proj1 (D5 eq_refl)). split; reflexivity. }
    destruct Hfr as (Hfr1 & Hfr2).
    destruct (proj_shape (firstn n (occ t)) l0 fr Hfr1 Hfr2) as (P1 & P2 & P3).
    eexists _, _, ok. split; [exact E|]. split; [reflexivity|]. split; [exact P1|].
    rewrite P1, P2, P3.
    split; [exists (length l0); exact Hl0|].
    split; [intros Hnd Hok; rewrite (map_EvDrop_inj _ _ (D2 Hnd Hok)); apply firstn_skipn|].
    split; [intros Hnd; destruct (D3 Hnd) as (Hdr & Hok); split; [destruct l0; [reflexivity | discriminate Hdr] | exact Hok]|].
    split; [intros Hall; apply D4; intros e He; apply Hall; rewrite <- (firstn_skipn n (occ t)); apply in_or_app; right; exact He|].
    split; [|split].
    - intros Hok. destruct (D5 Hok) as (-> & l & e & Hdr & Hde & _). split; [reflexivity|].
      exists e. split; [|exact Hde].
      rewrite (map_EvDrop_inj _ _ Hdr). apply in_or_app. right. left. reflexivity.
    - intros Hok Hm. rewrite (F0 Hok Hm). reflexivity.
    - intros Hok Hm. destruct (F1 Hok Hm) as (len & al & off & El & Hv & ->).
      exists len, al, off. split; [exact El|]. split; [exact Hv | reflexivity].
  Qed.

  (* -------------------------------------------------------------------------------------- *)
  (* O4: table.drain(); n x next(); drop                                                      *)
  (* -------------------------------------------------------------------------------------- *)
  Lemma drain_new_ok t it0 : iter_new B T t = Ok it0 ->
    drain_new B T t = Ok (mkOwn t it0, new_table B T).
  Proof. intros Hn. unfold drain_new, drain_iter_from. rewrite Hn. reflexivity. Qed.

  Theorem drain_consume_spec t n : SafeWF B T t ->
    exists dr ok t',
      drain_consume B T needs_drop drop_ok t n
        = Ok (t', firstn n (occ t), MO (firstn n (occ t)) ++ dr, ok) /\
      length (firstn n (occ t)) = Nat.min n (Z.to_nat (items t)) /\
      drops_prefix T dr (skipn n (occ t)) /\
      (needs_drop = true -> ok = true -> dr = map EvDrop (skipn n (occ t))) /\
      (needs_drop = false -> dr = [] /\ ok = true) /\
      ((forall e, In e (skipn n (occ t)) -> drop_ok e = true) -> ok = true) /\
      (ok = false -> t' = new_table B T /\
                     exists l e, dr = map EvDrop (l ++ [e]) /\ drop_ok e = false /\ In e (skipn n (occ t))) /\
      (ok = true -> t' = clear_no_drop T t /\ mask t' = mask t /\ growth_left t' = z_cap (mask t) /\
                    capacity T t' = growth_left t' /\ (OWN t -> OWN t')) /\
      SafeWF B T t' /\ items t' = 0%Z /\ occ t' = [].
  Proof.
    intros H. destruct (iter_new_inv B T HW HB t H) as (it0 & Hn & _).
    destruct (own_run_exact t it0 n H Hn) as (t_n & it_n & t_e & Hrun & S1 & S2 & _ & Hi & Hall & Hta' & _).
    destruct (own_drops (skipn n (occ t))) as [dr ok] eqn:Hd.
    destruct (own_drop_exact t t_n it_n t_e n dr ok S1 S2 Hi Hall Hta' Hd) as (t_d & Hde & Sd).
    destruct (own_drops_spec _ _ _ Hd) as (D1 & D2 & D3 & D4 & D5).
    unfold drain_consume. rewrite (drain_new_ok t it0 Hn). cbn [bind].
    rewrite Hrun. cbn [bind]. unfold drain_drop. rewrite Hde. cbn [bind].
    destruct ok.
    - rewrite (clear_no_drop_SameBut T t t_d Sd).
      destruct (clear_no_drop_safe B T HW t H) as (C1 & C2 & C3 & C4 & C5 & _).
      exists dr, true, (clear_no_drop T t). split; [reflexivity|].
      split; [exact (yielded_length t n H)|]. split; [exact D1|]. split; [exact D2|]. split; [exact D3|].
      split; [exact D4|]. split; [discriminate|].
      split; [|split; [exact C1|split; [exact C3 | exact C4]]].
      intros _. split; [reflexivity|]. split; [exact C2|]. split; [exact C5|].
      split; [rewrite (capacity_eq B T _ C1), C3; reflexivity|].
      intros HA. exact (TOwn_same_mask B T tsize talign t _ C2 HA).
    - exists dr, false, (new_table B T). split; [reflexivity|].
      split; [exact (yielded_length t n H)|]. split; [exact D1|]. split; [exact D2|]. split; [exact D3|].
      split; [exact D4|]. split; [intros _; split; [reflexivity | exact (D5 eq_refl)]|].
      split; [discriminate|].
      split; [apply new_table_safe|]. split; [reflexivity | apply new_table_occupants].
  Qed.

  Corollary drain_releases_each_once t n : SafeWF B T t ->
    exists t' es evs ok,
      drain_consume B T needs_drop drop_ok t n = Ok (t', es, evs, ok) /\
      es = firstn n (occ t) /\ moved_out evs = es /\
      (exists k, dropped evs = firstn k (skipn n (occ t))) /\
      (needs_drop = true -> ok = true -> moved_out evs ++ dropped evs = occ t) /\
      (needs_drop = false -> dropped evs = [] /\ ok = true) /\
      ((forall e, In e (occ t) -> drop_ok e = true) -> ok = true) /\
      freed evs = [] /\
      (ok = false -> t' = new_table B T /\ exists e, In e (dropped evs) /\ drop_ok e = false) /\
      (ok = true -> t' = clear_no_drop T t /\ mask t' = mask t /\ growth_left t' = z_cap (mask t) /\
                    capacity T t' = growth_left t' /\ (OWN t -> OWN t')) /\
      SafeWF B T t' /\ items t' = 0%Z /\ occ t' = [].
  Proof.
    intros H.
    destruct (drain_consume_spec t n H) as (dr & ok & t' & E & _ & D1 & D2 & D3 & D4 & D5 & C & W).
    destruct D1 as (l0 & -> & Hl0).
    destruct (proj_shape (firstn n (occ t)) l0 [] eq_refl eq_refl) as (P1 & P2 & P3).
    rewrite !app_nil_r in P1, P2, P3.
    eexists t', _, _, ok. split; [exact E|]. split; [reflexivity|]. split; [exact P1|].
    rewrite P1, P2, P3.
    split; [exists (length l0); exact Hl0|].
    split; [intros Hnd Hok; rewrite (map_EvDrop_inj _ _ (D2 Hnd Hok)); apply firstn_skipn|].
    split; [intros Hnd; destruct (D3 Hnd) as (Hdr & Hok); split; [destruct l0; [reflexivity | discriminate Hdr] | exact Hok]|].
    split; [intros Hall; apply D4; intros e He; apply Hall; rewrite <- (firstn_skipn n (occ t)); apply in_or_app; right; exact He|].
    split; [reflexivity|]. split; [|split; [exact C | exact W]].
    intros Hok. destruct (D5 Hok) as (-> & l & e & Hdr & Hde & _). split; [reflexivity|].
    exists e. split; [|exact Hde]. rewrite (map_EvDrop_inj _ _ Hdr). apply in_or_app. right. left. reflexivity.
  Qed.

  (* -------------------------------------------------------------------------------------- *)
  (* O6: mem::forget after n calls                                                            *)
  (* -------------------------------------------------------------------------------------- *)
  Theorem drain_leak_spec t n : SafeWF B T t ->
    drain_leak B T t n = Ok (new_table B T, firstn n (occ t), MO (firstn n (occ t))) /\
    SafeWF B T (new_table B T) /\ OWN (new_table B T) /\ mask (new_table B T) = 0 /\
    items (new_table B T) = 0%Z /\ occ (new_table B T) = [] /\
    allocation_size B T tsize talign (new_table B T) = Ok 0%Z /\
    moved_out (MO (firstn n (occ t))) = firstn n (occ t) /\
    dropped (MO (firstn n (occ t))) = [] /\ freed (MO (firstn n (occ t))) = [].
  Proof.
    intros H. destruct (iter_new_inv B T HW HB t H) as (it0 & Hn & _).
    destruct (own_run_exact t it0 n H Hn) as (t_n & it_n & t_e & Hrun & _).
    unfold drain_leak. rewrite (drain_new_ok t it0 Hn). cbn [bind]. rewrite Hrun. cbn [bind].
    split; [reflexivity|]. split; [apply new_table_safe|]. split; [apply TOwn_new_table|].
    split; [reflexivity|]. split; [reflexivity|]. split; [apply new_table_occupants|].
    split; [apply new_table_allocation_size|].
    split; [apply moved_out_MO|]. split; [apply dropped_MO | apply freed_MO].
  Qed.

  Theorem into_iter_leak_spec t n : SafeWF B T t -> OWN t ->
    into_iter_leak B T tsize talign t n = Ok (firstn n (occ t), MO (firstn n (occ t))) /\
    length (firstn n (occ t)) = Nat.min n (Z.to_nat (items t)) /\
    moved_out (MO (firstn n (occ t))) = firstn n (occ t) /\
    dropped (MO (firstn n (occ t))) = [] /\ freed (MO (firstn n (occ t))) = [].
  Proof.
    intros H HA. destruct (iter_new_inv B T HW HB t H) as (it0 & Hn & _).
    destruct (own_run_exact t it0 n H Hn) as (t_n & it_n & t_e & Hrun & _).
    unfold into_iter_leak. rewrite (into_iter_new_ok t it0 HA Hn). cbn [bind]. rewrite Hrun. cbn [bind].
    split; [reflexivity|]. split; [exact (yielded_length t n H)|].
    split; [apply moved_out_MO|]. split; [apply dropped_MO | apply freed_MO].
  Qed.

  (* -------------------------------------------------------------------------------------- *)
  (* O2: exact length reporting, and the fused behaviour                                      *)
  (* -------------------------------------------------------------------------------------- *)
  Theorem own_next_len t oi0 : SafeWF B T t ->
    (into_iter_new B T tsize talign t = Ok oi0 \/ drain_new B T t = Ok (oi0, new_table B T)) ->
    items t = Z.of_nat (length (occ t)) /\
    forall j, exists oi_j,
      own_run B T j oi0 = Ok (firstn j (occ t), oi_j, MO (firstn j (occ t))) /\
      own_len T oi_j = Z.of_nat (length (occ t) - j) /\
      (j <= length (occ t) -> length (firstn j (occ t)) = j /\ own_len T oi_j = (items t - Z.of_nat j)%Z) /\
      (length (occ t) <= j ->
         own_len T oi_j = 0%Z /\ own_next B T oi_j = Ok (None, oi_j, []) /\
         forall m, own_run B T m oi_j = Ok ([], oi_j, [])).
  Proof.
    intros H Hnew. pose proof (occupants_length B T HW t H) as Hit. split; [exact Hit|].
    assert (Hoi : exists it0, iter_new B T t = Ok it0 /\ oi0 = mkOwn t it0).
    { destruct Hnew as [E|E].
      - unfold into_iter_new, into_iter_from in E.
        destruct (iter_new B T t) as [it0|]; cbn [bind] in E; [|discriminate E].
        destruct (into_allocation B T tsize talign t); cbn [bind] in E; [|discriminate E].
        injection E as <-. exists it0. split; reflexivity.
      - unfold drain_new, drain_iter_from in E.
        destruct (iter_new B T t) as [it0|]; cbn [bind] in E; [|discriminate E].
        injection E as <-. exists it0. split; reflexivity. }
    destruct Hoi as (it0 & Hn & ->). intros j.
    destruct (own_run_exact t it0 j H Hn) as (t_n & it_n & t_e & Hrun & _ & _ & _ & Hi & _ & _ & Hnone).
    exists (mkOwn t_n it_n). split; [exact Hrun|]. unfold own_len. cbn [oi_it].
    split; [exact Hi|]. split.
    - intros Hle. split; [rewrite firstn_length; lia | rewrite Hi, Hit; lia].
    - intros Hle.
      assert (Hnx : own_next B T (mkOwn t_n it_n) = Ok (None, mkOwn t_n it_n, [])).
      { unfold own_next. cbn [oi_tbl oi_it]. rewrite (Hnone Hle). reflexivity. }
      split; [rewrite Hi; replace (length (occ t) - j) with 0 by lia; reflexivity|].
      split; [exact Hnx|].
      intros m. destruct m as [|m]; [reflexivity|]. cbn [own_run]. rewrite Hnx. reflexivity.
  Qed.

  (* -------------------------------------------------------------------------------------- *)
  (* O5: the step-wise Drain against the one-shot formulation (generic element type)          *)
  (* -------------------------------------------------------------------------------------- *)
  (* Map.m_drain with the element type abstracted: all buckets first, then the first n are
     read, the others dropped, then clear_no_drop *)
  Definition drain_one_shot (t : table T) (n : nat) : res (table T * list T * list (event T)) :=
    it <- iter_new B T t ;;
    idx <- iter_all B T t it ;;
    '(taken, t1) <- take_all T t (firstn n idx) ;;
    '(rest, t2) <- take_all T t1 (skipn n idx) ;;
    Ok (clear_no_drop T t2, taken,
        MO taken ++ (if needs_drop then map EvDrop rest else [])).

  Lemma drop_list_all_ok : (forall e, drop_ok e = true) ->
    forall es, drop_list T drop_ok es = (map EvDrop es, true).
  Proof.
    intros Hall. induction es as [|e r IH]; [reflexivity|].
    cbn [drop_list map]. rewrite (Hall e), IH. reflexivity.
  Qed.

  Theorem drain_one_shot_spec t n : SafeWF B T t ->
    drain_one_shot t n = Ok (clear_no_drop T t, firstn n (occ t),
                             MO (firstn n (occ t)) ++ (if needs_drop then map EvDrop (skipn n (occ t)) else [])).
  Proof.
    intros H. destruct (iter_exact B T HW HB t H) as (it0 & Hn & Ha).
    destruct (own_run_exact t it0 n H Hn) as (t_n & it_n & t_e & _ & _ & S2 & E1 & _ & _ & E2 & _).
    unfold drain_one_shot. rewrite Hn. cbn [bind]. rewrite Ha. cbn [bind].
    rewrite E1. cbn [bind]. rewrite E2. cbn [bind].
    rewrite (clear_no_drop_SameBut T t t_e S2). reflexivity.
  Qed.

  Theorem drain_consume_one_shot t n : SafeWF B T t -> (forall e, drop_ok e = true) ->
    drain_consume B T needs_drop drop_ok t n =
    ('(t', es, evs) <- drain_one_shot t n ;; Ok (t', es, evs, true)).
  Proof.
    intros H Hall. rewrite (drain_one_shot_spec t n H). cbn [bind].
    destruct (drain_consume_spec t n H) as (dr & ok & t' & E & _ & _ & D2 & D3 & D4 & _ & C & _).
    assert (Hok : ok = true) by (apply D4; intros e _; apply Hall). subst ok.
    destruct (C eq_refl) as (-> & _). rewrite E. f_equal. f_equal. f_equal.
    destruct needs_drop; [rewrite (D2 eq_refl eq_refl) | rewrite (proj1 (D3 eq_refl))]; reflexivity.
  Qed.
End OwnIterFacts.

(* ---------------------------------------------------------------------------------------- *)
(* O5 for HashMap's elements: the step-wise Drain IS the one-shot model Map.m_drain           *)
(* ---------------------------------------------------------------------------------------- *)
Section OwnIterKV.
  Variable B : backend.
  Hypothesis HW : WidthOK B.
  Hypothesis HB : BackendSpec B.
  Variable needs_drop : bool.

  Lemma take_n_take_all : forall n (t : table kv) idx,
    take_n t idx n = ('(es, t') <- take_all kv t (firstn n idx) ;; Ok (es, skipn n idx, t')).
  Proof.
    induction n as [|n IH]; intros t idx.
    - destruct idx; reflexivity.
    - destruct idx as [|i r]; [reflexivity|].
      cbn [take_n firstn skipn take_all].
      destruct (slot_take kv t i) as [[e t1]|]; cbn [bind]; [|reflexivity].
      rewrite IH. destruct (take_all kv t1 (firstn n r)) as [[es t2]|]; reflexivity.
  Qed.

  (* unconditionally (failures included) *)
  Lemma m_drain_one_shot t n :
    m_drain B needs_drop t n =
    ('(t', es, evs) <- drain_one_shot B kv needs_drop t n ;; Ok (t', OutList es, evs)).
  Proof.
    unfold m_drain, drain_one_shot.
    destruct (iter_new B kv t) as [it|]; cbn [bind]; [|reflexivity].
    destruct (iter_all B kv t it) as [idx|]; cbn [bind]; [|reflexivity].
    rewrite take_n_take_all.
    destruct (take_all kv t (firstn n idx)) as [[es t1]|]; cbn [bind]; [|reflexivity].
    destruct (take_all kv t1 (skipn n idx)) as [[rest t2]|]; cbn [bind]; reflexivity.
  Qed.

  Theorem drain_consume_m_drain t n : SafeWF B kv t ->
    exists t' es evs,
      m_drain B needs_drop t n = Ok (t', OutList es, evs) /\
      drain_consume B kv needs_drop Map.drop_ok t n = Ok (t', es, evs, true) /\
      t' = clear_no_drop kv t /\ es = firstn n (occupants kv t).
  Proof.
    intros H. rewrite m_drain_one_shot.
    rewrite (drain_consume_one_shot B kv HW HB 0%Z 0%Z needs_drop Map.drop_ok t n H (fun _ => eq_refl)).
    rewrite (drain_one_shot_spec B kv HW HB needs_drop t n H). cbn [bind].
    eexists _, _, _. repeat split.
  Qed.
End OwnIterKV.

(* ---------------------------------------------------------------------------------------- *)
(* concrete runs (SSE2 scanner, identity hash, T = (K, V) of 24 bytes, align 8, drop glue)    *)
(* ---------------------------------------------------------------------------------------- *)
Definition ex_own_ops : list map_op :=
  [OpInsert 1 0 10; OpInsert 2 0 20; OpInsert 3 0 30; OpInsert 4 0 40; OpInsert 5 0 50]%Z.

Definition ex_own_table : res (table kv) :=
  fold_left (fun rt op => t <- rt ;;
                          '(t', _, _) <- map_step sse2_backend 24 8 true true (fun k : Z => Some k) false t op ;;
                          Ok t')
            ex_own_ops (Ok (new_table sse2_backend kv)).

(* into_iter(); 2 x next(); drop: 2 MoveOut, 3 Drop, 1 Free, in this order; each of the five
   elements exactly once *)
Example into_iter_consume_example :
  match ex_own_table with
  | Ok t =>
      items t = 5%Z /\ length (occupants kv t) = 5 /\
      match into_iter_consume sse2_backend kv 24 8 true (fun _ => true) t 2 with
      | Ok (es, evs, ok) =>
          ok = true /\ length es = 2 /\ moved_out evs = es /\
          length (moved_out evs) = 2 /\ length (dropped evs) = 3 /\ length (freed evs) = 1 /\
          length evs = 6 /\ moved_out evs ++ dropped evs = occupants kv t /\
          evs = map EvMoveOut (firstn 2 (occupants kv t)) ++ map EvDrop (skipn 2 (occupants kv t))
                ++ map (fun sa => EvFree (fst sa) (snd sa)) (freed evs)
      | Fail _ => False
      end
  | Fail _ => False
  end.
Proof. vm_compute. repeat split. Qed.

(* a panicking fold closure = its calls of next() and then the iterator's Drop *)
Example into_iter_fold_panic_example :
  match ex_own_table with
  | Ok t =>
      match into_iter_fold_panic sse2_backend kv 24 8 true (fun _ => true) t 1 0 with
      | Ok (es, evs, ok) =>
          ok = true /\ length es = 2 /\ length (dropped evs) = 3 /\ length (freed evs) = 1
      | Fail _ => False
      end
  | Fail _ => False
  end.
Proof. vm_compute. repeat split. Qed.

(* drain(); 2 x next(); drop: the block is kept, the collection is empty and usable;
   mem::forget instead: the collection is the empty singleton, nothing dropped, nothing freed *)
Example drain_consume_leak_example :
  match ex_own_table with
  | Ok t =>
      match drain_consume sse2_backend kv true (fun _ => true) t 2,
            drain_leak sse2_backend kv t 2 with
      | Ok (t', es, evs, ok), Ok (tl, esl, evsl) =>
          ok = true /\ length es = 2 /\ length (dropped evs) = 3 /\ freed evs = [] /\
          mask t' = mask t /\ mask t <> 0 /\ items t' = 0%Z /\ occupants kv t' = [] /\
          esl = es /\ tl = new_table sse2_backend kv /\ dropped evsl = [] /\ freed evsl = [] /\
          length (moved_out evsl) = 2
      | _, _ => False
      end
  | Fail _ => False
  end.
Proof. vm_compute. repeat split. discriminate. Qed.

(* a destructor that panics (on the element with key 4) while a Drain is dropped: the drops stop
   there, the collection is left as the empty singleton, the block is leaked (no Free) *)
Example drain_drop_panic_example :
  match ex_own_table with
  | Ok t =>
      match drain_consume sse2_backend kv true (fun e => negb (k_id e =? 4)%Z) t 1,
            into_iter_consume sse2_backend kv 24 8 true (fun e => negb (k_id e =? 4)%Z) t 1 with
      | Ok (t', es, evs, ok), Ok (es2, evs2, ok2) =>
          ok = false /\ t' = new_table sse2_backend kv /\ length es = 1 /\ freed evs = [] /\
          0 < length (dropped evs) < 4 /\
          ok2 = false /\ es2 = es /\ freed evs2 = [] /\ dropped evs2 = dropped evs
      | _, _ => False
      end
  | Fail _ => False
  end.
Proof. vm_compute. repeat split; lia. Qed.

Print Assumptions own_run_exact.
Print Assumptions own_next_len.
Print Assumptions into_iter_consume_spec.
Print Assumptions into_iter_releases_each_once.
Print Assumptions drain_consume_spec.
Print Assumptions drain_releases_each_once.
Print Assumptions drain_leak_spec.
Print Assumptions into_iter_leak_spec.
Print Assumptions drain_consume_one_shot.
Print Assumptions drain_consume_m_drain.
Print Assumptions into_iter_consume_example.
