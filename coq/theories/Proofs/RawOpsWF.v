(* RawOpsWF.v -- the composite operations of RawTable under a lawful TOTAL hasher.

   RawOpsSafe.v proves SafeWF / TOwn / contents for an arbitrary (possibly panicking) hasher.
   Here the hasher `h` answers on every element (a BuildHasher that never panics; deterministic
   but otherwise arbitrary -- constant functions included) and the FULL invariant WF B T h
   (SafeWF + Tags + Reach) is carried through:

     W-a  reserve_rehash_WF, reserve_WF, try_reserve_WF     never unwind, WF kept
     W-b  find_or_find_insert_slot_WF                       never unwinds, WF kept, the answer is exact
     W-c  insert_WF                                         never unwinds, WF kept, one more occupant
     W-d  shrink_to_WF                                      never unwinds, WF kept, same occupants

   No axioms. *)
From Coq Require Import ZArith List Bool Lia Permutation.
From HB Require Import RsPrelude Sse2 Gen Group Raw Check ArithFacts Triangular WFDefs GroupFacts
  ProbeFacts IterFacts SafeInsertErase SafeAllocClear FindFacts ResizeFacts RehashSafe WFInsertRemove
  RehashWF RawOpsSafe.
Import ListNotations.
Open Scope nat_scope.

Section RawOpsWF.
  Variable B : backend.
  Variable T : Type.
  Hypothesis HW : WidthOK B.
  Hypothesis HB : BackendSpec B.

  Variable tsize talign : Z.
  Hypothesis Hts : (0 <= tsize < 2 ^ 64)%Z.
  Hypothesis Hta : exists a : Z, (0 <= a <= 62)%Z /\ talign = (2 ^ a)%Z.

  Variable needs_drop : bool.
  Variable drop_ok : T -> bool.

  (* the hash function on elements: total *)
  Variable h : T -> option Z.
  Hypothesis Htot : forall e, exists hash, h e = Some hash.

  Local Notation GW := (bk_width B).
  Local Notation TOWN := (TOwn B T tsize talign).
  Local Notation REVS := (ReserveEvs B T tsize talign).

  Lemma no_panic e : h e <> None.
  Proof. destruct (Htot e) as (x & ->). discriminate. Qed.

  Lemma no_panic_ex (l : list T) : ~ (exists e, In e l /\ h e = None).
  Proof. intros (e & _ & He). exact (no_panic e He). Qed.

  (* ---------------------------------------------------------------------------------------- *)
  (* W-a: reserve_rehash, reserve, try_reserve                                                  *)
  (* ---------------------------------------------------------------------------------------- *)
  Theorem reserve_rehash_WF t additional alloc_refuses f t' evs tr unw :
    WF B T h t -> TOWN t -> (0 <= additional < 2 ^ 64)%Z -> (growth_left t < additional)%Z ->
    reserve_rehash B T tsize talign needs_drop h true t additional alloc_refuses f = Ok (t', evs, tr, unw) ->
    unw = false /\ WF B T h t' /\ TOWN t' /\
    (tr <> TR_ok -> f = Fallible /\ t' = t /\ evs = [] /\
       match tr with
       | TR_alloc_error len al => alloc_refuses = true /\ ValidLayout len al
       | _ => CapOverflow B T tsize talign t additional
       end) /\
    (tr = TR_ok ->
       Permutation (occupants T t') (occupants T t) /\ items t' = items t /\
       (additional <= growth_left t')%Z /\ REVS t t' evs).
  Proof.
    intros HWF HA Hadd Hgl E. pose proof HWF as (Hsafe & _).
    pose proof (reserve_rehash_spec B T HW HB tsize talign Hts Hta needs_drop h t additional
                  alloc_refuses f Hsafe HA Hadd Hgl) as Hpost.
    rewrite E in Hpost.
    destruct (reserve_post_ok B T tsize talign needs_drop h t additional alloc_refuses f t' evs tr unw
                Hsafe HA Hpost) as (Hs' & HA' & Herr & Hok & Hunw).
    assert (Eu : unw = false).
    { destruct unw; [|reflexivity]. exfalso. destruct (Hunw eq_refl) as (_ & _ & _ & Hex).
      exact (no_panic_ex _ Hex). }
    subst unw. split; [reflexivity|].
    assert (HWF' : WF B T h t').
    { destruct tr as [| |len al].
      2:{ destruct (Herr ltac:(discriminate)) as (_ & -> & _). exact HWF. }
      2:{ destruct (Herr ltac:(discriminate)) as (_ & -> & _). exact HWF. }
      (* a completed run: which branch? *)
      destruct (safe_counts B T t Hsafe) as (Hi0 & Hg0 & Hsum & Hcapnb & Hnb62).
      revert E. unfold reserve_rehash, reserve_rehash_new_items, checked_add.
      destruct (Z.ltb_spec (items t + additional) (2 ^ 64)) as [Hlt|Hge].
      2:{ destruct f; cbn [capacity_overflow bind]; discriminate. }
      change (reserve_rehash_full_capacity (zn (mask t))) with (z_cap (mask t)).
      rewrite (reserve_rehash_in_place_char (items t + additional) (z_cap (mask t))) by lia.
      unfold reserve_rehash_resize_target.
      assert (Hzc0 : (0 <= z_cap (mask t))%Z) by lia.
      destruct (Z.leb_spec (items t + additional) (z_cap (mask t) / 2)) as [Hle|Hgt].
      - pose proof (half_le _ Hzc0) as Hhalf.
        assert (Hm : mask t <> 0).
        { intros E0. rewrite E0 in Hle. change (z_cap 0 / 2)%Z with 0%Z in Hle. lia. }
        destruct (rehash_in_place_WF B T HW HB h needs_drop t Hsafe Hm (fun e _ => Htot e))
          as (t1 & E1 & HWF1 & _).
        rewrite E1. cbn [bind]. intros E. injection E as <- _. exact HWF1.
      - assert (Ew : wadd 64 (z_cap (mask t)) 1 = (z_cap (mask t) + 1)%Z).
        { unfold wadd. apply wrap_small. rewrite two_p_62 in Hnb62. rewrite two_p_64. lia. }
        rewrite Ew.
        set (cap := Z.max (items t + additional) (z_cap (mask t) + 1)).
        assert (Hcap : (items t <= cap < 2 ^ 64)%Z).
        { unfold cap. rewrite two_p_62 in Hnb62. rewrite two_p_64 in *. lia. }
        intros E.
        exact (resize_inner_WF B T HW HB tsize talign Hts Hta h t cap alloc_refuses f Hsafe HA Hcap
                 h t' evs (fun e => eq_refl) E). }
    split; [exact HWF'|]. split; [exact HA'|].
    split.
    - intros Htr. destruct (Herr Htr) as (H1 & H2 & H3 & _ & H5). repeat (split; [assumption|]). exact H5.
    - intros Htr. exact (Hok Htr eq_refl).
  Qed.

  Theorem reserve_WF t additional alloc_refuses t' evs tr unw :
    WF B T h t -> TOWN t -> (0 <= additional < 2 ^ 64)%Z ->
    reserve B T tsize talign needs_drop h true t additional alloc_refuses = Ok (t', evs, tr, unw) ->
    unw = false /\ tr = TR_ok /\ WF B T h t' /\ TOWN t' /\
    Permutation (occupants T t') (occupants T t) /\ items t' = items t /\
    (additional <= growth_left t')%Z /\ REVS t t' evs /\
    ((additional <= growth_left t)%Z -> t' = t /\ evs = []).
  Proof.
    intros HWF HA Hadd. unfold reserve.
    destruct (Z.gtb_spec additional (growth_left t)) as [Hgt|Hle].
    - destruct (reserve_rehash B T tsize talign needs_drop h true t additional alloc_refuses Infallible)
        as [[[[t1 evs1] tr1] unw1]|er] eqn:E; cbn [bind]; [|discriminate].
      destruct (reserve_rehash_WF t additional alloc_refuses Infallible t1 evs1 tr1 unw1 HWF HA Hadd Hgt E)
        as (-> & HWF1 & HA1 & _ & Hok).
      destruct tr1; [|discriminate|discriminate].
      intros E1. injection E1 as <- <- <- <-.
      destruct (Hok eq_refl) as (P & Eit & Hg & Hev).
      repeat (split; [assumption || reflexivity|]). intros C. lia.
    - intros E. injection E as <- <- <- <-. pose proof HWF as (Hsafe & _).
      split; [reflexivity|]. split; [reflexivity|]. split; [exact HWF|]. split; [exact HA|].
      split; [apply Permutation_refl|]. split; [reflexivity|]. split; [exact Hle|].
      split; [apply ReserveEvs_refl|]. intros _. split; reflexivity.
  Qed.

  Theorem try_reserve_WF t additional alloc_refuses t' evs tr unw :
    WF B T h t -> TOWN t -> (0 <= additional < 2 ^ 64)%Z ->
    try_reserve B T tsize talign needs_drop h true t additional alloc_refuses = Ok (t', evs, tr, unw) ->
    unw = false /\ WF B T h t' /\ TOWN t' /\
    (tr <> TR_ok -> t' = t /\ evs = [] /\
       match tr with
       | TR_alloc_error len al => alloc_refuses = true /\ ValidLayout len al
       | _ => CapOverflow B T tsize talign t additional
       end) /\
    (tr = TR_ok ->
       Permutation (occupants T t') (occupants T t) /\ items t' = items t /\
       (additional <= growth_left t')%Z /\ REVS t t' evs).
  Proof.
    intros HWF HA Hadd. unfold try_reserve.
    destruct (Z.gtb_spec additional (growth_left t)) as [Hgt|Hle].
    - intros E.
      destruct (reserve_rehash_WF t additional alloc_refuses Fallible t' evs tr unw HWF HA Hadd Hgt E)
        as (-> & HWF1 & HA1 & Herr & Hok).
      split; [reflexivity|]. split; [exact HWF1|]. split; [exact HA1|]. split; [|exact Hok].
      intros Htr. destruct (Herr Htr) as (_ & H2 & H3 & H4). repeat (split; [assumption|]). exact H4.
    - intros E. injection E as <- <- <- <-.
      split; [reflexivity|]. split; [exact HWF|]. split; [exact HA|].
      split; [intros C; contradiction|]. intros _.
      split; [apply Permutation_refl|]. split; [reflexivity|]. split; [exact Hle|apply ReserveEvs_refl].
  Qed.

  (* the contents after any Ok result of try_reserve / reserve_rehash are those before *)
  Corollary try_reserve_contents t additional alloc_refuses t' evs tr unw :
    WF B T h t -> TOWN t -> (0 <= additional < 2 ^ 64)%Z ->
    try_reserve B T tsize talign needs_drop h true t additional alloc_refuses = Ok (t', evs, tr, unw) ->
    unw = false /\ WF B T h t' /\ TOWN t' /\ Permutation (occupants T t') (occupants T t).
  Proof.
    intros HWF HA Hadd E.
    destruct (try_reserve_WF t additional alloc_refuses t' evs tr unw HWF HA Hadd E)
      as (Hu & HWF' & HA' & Herr & Hok).
    split; [exact Hu|]. split; [exact HWF'|]. split; [exact HA'|].
    destruct tr as [| |len al].
    - exact (proj1 (Hok eq_refl)).
    - destruct (Herr ltac:(discriminate)) as (-> & _). apply Permutation_refl.
    - destruct (Herr ltac:(discriminate)) as (-> & _). apply Permutation_refl.
  Qed.

  (* ---------------------------------------------------------------------------------------- *)
  (* W-b: find_or_find_insert_slot                                                              *)
  (* ---------------------------------------------------------------------------------------- *)
  Lemma slot_in_range (t : table T) i e : SafeWF B T t -> slot T t i = Some e -> i < nb T t.
  Proof.
    intros Hs He. rewrite <- (SafeWF_slots_length B T t Hs).
    destruct (Nat.lt_ge_cases i (length (slots t))) as [Hlt|Hge]; [exact Hlt|].
    unfold slot in He. rewrite nth_overflow in He by exact Hge. discriminate He.
  Qed.

  Theorem find_or_find_insert_slot_WF t hash P alloc_refuses t1 evs unw r :
    WF B T h t -> TOWN t -> (forall e, P e = true -> h e = Some hash) ->
    find_or_find_insert_slot B T tsize talign needs_drop h true t hash (pure_eq P) alloc_refuses
      = Ok (t1, evs, unw, r) ->
    unw = false /\ WF B T h t1 /\ foi_common B T tsize talign t t1 evs /\
    ((exists i e, r = Some (inl i) /\ i < nb T t1 /\ slot T t1 i = Some e /\ P e = true) \/
     (exists s, r = Some (inr s) /\ s < nb T t1 /\ is_special (byte T t1 s) = true /\
        (forall i e, slot T t1 i = Some e -> P e = false) /\
        find_or_find_insert_slot_inner B T t1 hash (eq_at T t1 (pure_eq P)) = Ok (inr s) /\
        (forall value, h value = Some hash ->
           exists t2, insert_in_slot B T t1 hash s value = Ok t2 /\ WF B T h t2 /\
                      InsertedAt T t1 s hash value t2))).
  Proof.
    intros HWF HA HPh. unfold find_or_find_insert_slot.
    assert (H1 : (0 <= 1 < 2 ^ 64)%Z) by (rewrite two_p_64; lia).
    destruct (reserve B T tsize talign needs_drop h true t 1 alloc_refuses)
      as [[[[t0 evs0] tr0] unw0]|er] eqn:Er; cbn [bind]; [|discriminate].
    destruct (reserve_WF t 1 alloc_refuses t0 evs0 tr0 unw0 HWF HA H1 Er)
      as (-> & -> & HWF0 & HA0 & Hperm & Hit & Hgl & Hevs & Hnoop).
    pose proof HWF0 as (Hs0 & _).
    assert (Hm0 : mask t0 <> 0) by (apply (growth_pos_mask B T t0 Hs0); lia).
    destruct (find_or_find_insert_slot_inner B T t0 hash (eq_at T t0 (pure_eq P))) as [r0|er] eqn:Ef;
      cbn [bind]; [|discriminate].
    intros E. injection E as <- <- <- <-.
    split; [reflexivity|]. split; [exact HWF0|].
    split.
    { split; [exact Hs0|]. split; [exact HA0|]. split; [exact Hperm|]. split; [exact Hit|].
      split; [lia|]. split; [exact Hm0|]. split; [exact Hevs|].
      intros Hg. apply Hnoop. lia. }
    destruct r0 as [i|s].
    - left. destruct (foi_found_sound B T HW HB t0 Hm0 P hash i Hs0 Ef) as (Hi & e & He & HP).
      exists i, e. repeat (split; [assumption || reflexivity|]). exact HP.
    - right. destruct (foi_slot_sound B T HW HB t0 Hm0 P hash s Hs0 Ef) as (Hs & Hsp).
      exists s. split; [reflexivity|]. split; [exact Hs|]. split; [exact Hsp|].
      split; [|split; [exact Ef|]].
      + intros i e He. destruct (P e) eqn:HP; [exfalso|reflexivity].
        pose proof (foi_slot_no_match B T HW HB t0 Hm0 P hash h s HWF0 Ef i e
                      (slot_in_range t0 i e Hs0 He) He (HPh e HP)) as C.
        rewrite HP in C. discriminate C.
      + intros value Hv.
        apply (insert_in_slot_WF_foi B T HW HB h t0 s hash (eq_at T t0 (pure_eq P)) value HWF0 Hm0 Ef Hv).
        intros _. lia.
  Qed.

  (* ---------------------------------------------------------------------------------------- *)
  (* W-c: RawTable::insert                                                                      *)
  (* ---------------------------------------------------------------------------------------- *)
  Definition insert_ok (t : table T) (hash : Z) (value : T) (t' : table T) (evs : list (event T))
             (r : option nat) : Prop :=
    WF B T h t' /\ TOWN t' /\
    exists s, r = Some s /\ s < nb T t' /\ slot T t' s = Some value /\ byte T t' s = tag_full hash /\
      Permutation (occupants T t') (value :: occupants T t) /\ items t' = (items t + 1)%Z /\
      REVS t t' evs.

  (* the slow path: reserve(1), probe again *)
  Lemma insert_reserve_branch_WF t hash value alloc_refuses t' evs unw r :
    WF B T h t -> TOWN t -> h value = Some hash ->
    ('(t1, evs, _, unw) <- reserve B T tsize talign needs_drop h true t 1 alloc_refuses ;;
     if unw then Ok (t1, evs, true, None) else
     slot' <- find_insert_slot B T t1 hash ;;
     t2 <- insert_in_slot B T t1 hash slot' value ;;
     Ok (t2, evs, false, Some slot')) = Ok (t', evs, unw, r) ->
    unw = false /\ insert_ok t hash value t' evs r.
  Proof.
    intros HWF HA Hv.
    assert (H1 : (0 <= 1 < 2 ^ 64)%Z) by (rewrite two_p_64; lia).
    destruct (reserve B T tsize talign needs_drop h true t 1 alloc_refuses)
      as [[[[t0 evs0] tr0] unw0]|er] eqn:Er; cbn [bind]; [|discriminate].
    destruct (reserve_WF t 1 alloc_refuses t0 evs0 tr0 unw0 HWF HA H1 Er)
      as (-> & -> & HWF0 & HA0 & Hperm & Hit & Hgl & Hevs & _).
    pose proof HWF0 as (Hs0 & _).
    assert (Hm0 : mask t0 <> 0) by (apply (growth_pos_mask B T t0 Hs0); lia).
    destruct (find_insert_slot B T t0 hash) as [s|er] eqn:Efis; cbn [bind]; [|discriminate].
    destruct (insert_in_slot_WF_fis B T HW HB h t0 s hash value HWF0 Hm0 Efis Hv ltac:(intros _; lia))
      as (t2 & Eins & HWF2 & Em2 & Eit2 & Ebs & Ess & _ & _ & Hperm2).
    rewrite Eins. cbn [bind]. intros E. injection E as <- <- <- <-.
    split; [reflexivity|]. split; [exact HWF2|].
    split; [exact (TOwn_same_mask B T tsize talign t0 t2 Em2 HA0)|].
    exists s. split; [reflexivity|].
    destruct (SafeWF_alloc B T t0 Hs0 Hm0) as (HS & HM & HC).
    destruct (find_insert_slot_terminates B T HW HB t0 HS HM HC hash) as (s' & Efis' & Hs & _).
    rewrite Efis in Efis'. injection Efis' as <-.
    split; [unfold nb, buckets in *; rewrite Em2; exact Hs|].
    split; [exact Ess|]. split; [exact Ebs|].
    split; [etransitivity; [exact Hperm2|]; apply perm_skip; exact Hperm|].
    split; [lia|]. exact (ReserveEvs_same_mask B T tsize talign t t0 t2 evs0 Em2 Hevs).
  Qed.

  Theorem insert_WF t hash value alloc_refuses t' evs unw r :
    WF B T h t -> TOWN t -> h value = Some hash ->
    Raw.insert B T tsize talign needs_drop h true t hash value alloc_refuses = Ok (t', evs, unw, r) ->
    unw = false /\ insert_ok t hash value t' evs r.
  Proof.
    intros HWF HA Hv. pose proof HWF as (Hsafe & _). unfold Raw.insert.
    destruct (Nat.eq_dec (mask t) 0) as [Hm|Hm].
    - pose proof (safe_singleton B T t Hsafe Hm) as Et.
      assert (Efis : find_insert_slot B T t hash = Ok 0)
        by (rewrite Et; apply (find_insert_slot_singleton B T HW HB)).
      rewrite Efis. cbn [bind].
      assert (Ectrl : ctrl_at T t 0 = Ok EMPTY).
      { rewrite Et. unfold ctrl_at. cbn [ctrl new_table]. pose proof (GW_pos B HW). destruct GW; [lia|reflexivity]. }
      rewrite Ectrl. cbn [bind].
      assert (Eg : growth_left t = 0%Z) by (rewrite Et; reflexivity).
      rewrite Eg. change ((0 =? 0)%Z && tag_special_is_empty EMPTY) with true. cbv iota.
      exact (insert_reserve_branch_WF t hash value alloc_refuses t' evs unw r HWF HA Hv).
    - destruct (SafeWF_alloc B T t Hsafe Hm) as (HS & HM & HC).
      destruct (find_insert_slot_terminates B T HW HB t HS HM HC hash) as (s & Efis & Hs & Hsp).
      rewrite Efis. cbn [bind].
      assert (Hlen : s < length (ctrl t)) by (destruct HS as (_ & Hl & _); lia).
      rewrite (ctrl_at_byte T t s Hlen). cbn [bind].
      pose proof (byte_valid B T t s HS ltac:(lia)) as Hval.
      destruct (SafeWF_growth_bound B T t Hsafe) as [Hg0 _].
      destruct ((growth_left t =? 0)%Z && tag_special_is_empty (byte T t s)) eqn:Ec.
      + exact (insert_reserve_branch_WF t hash value alloc_refuses t' evs unw r HWF HA Hv).
      + assert (Hroom : byte T t s = EMPTY -> (0 < growth_left t)%Z).
        { intros Eb. apply andb_false_iff in Ec. destruct Ec as [Ec|Ec].
          - apply Z.eqb_neq in Ec. lia.
          - exfalso. rewrite (proj2 (special_is_empty_iff _ Hval Hsp) Eb) in Ec. discriminate Ec. }
        destruct (insert_in_slot_WF_fis B T HW HB h t s hash value HWF Hm Efis Hv Hroom)
          as (t2 & Eins & HWF2 & Em2 & Eit2 & Ebs & Ess & _ & _ & Hperm2).
        rewrite Eins. cbn [bind]. intros E. injection E as <- <- <- <-.
        split; [reflexivity|]. split; [exact HWF2|].
        split; [exact (TOwn_same_mask B T tsize talign t t2 Em2 HA)|].
        exists s. split; [reflexivity|].
        split; [unfold nb, buckets in *; rewrite Em2; exact Hs|].
        split; [exact Ess|]. split; [exact Ebs|]. split; [exact Hperm2|]. split; [exact Eit2|].
        left. split; [reflexivity|exact Em2].
  Qed.

  (* ---------------------------------------------------------------------------------------- *)
  (* W-d: shrink_to                                                                             *)
  (* ---------------------------------------------------------------------------------------- *)
  Theorem shrink_to_WF t min_size alloc_refuses t' evs unw :
    WF B T h t -> TOWN t -> (0 <= min_size < 2 ^ 64)%Z ->
    shrink_to B T tsize talign needs_drop drop_ok h t min_size alloc_refuses = Ok (t', evs, unw) ->
    unw = false /\ WF B T h t' /\ TOWN t' /\
    Permutation (occupants T t') (occupants T t) /\ items t' = items t /\
    (forall e, ~ In (EvDrop e) evs).
  Proof.
    intros HWF HA Hmin E. pose proof HWF as (Hsafe & _).
    pose proof (shrink_to_spec B T HW HB tsize talign Hts Hta needs_drop drop_ok h t min_size alloc_refuses
                  Hsafe HA Hmin) as Hpost.
    rewrite E in Hpost.
    assert (Eu : unw = false).
    { destruct unw; [|reflexivity]. exfalso. cbn [shrink_post] in Hpost.
      destruct Hpost as (_ & Hex & _). exact (no_panic_ex _ Hex). }
    subst unw. split; [reflexivity|].
    destruct (shrink_to_preserves B T HW HB tsize talign Hts Hta needs_drop drop_ok h t min_size alloc_refuses
                t' evs false Hsafe HA Hmin E) as (Hs' & HA' & Hperm & Hit & Hnodrop).
    split; [|repeat (split; [assumption|]); exact Hnodrop].
    destruct (Z.eq_dec (items t) 0) as [Hi0|Hnz].
    - (* no element at all: any safe table is WF *)
      apply (WF_no_occupants B T h t' Hs').
      rewrite (occupants_items0 B T HW t Hsafe Hi0) in Hperm.
      apply Permutation_nil. symmetry. exact Hperm.
    - destruct (safe_counts B T t Hsafe) as (Hi0 & Hg0 & Hsum & Hcapnb & Hnb62).
      revert E. unfold shrink_to. cbv zeta.
      set (ms := Z.max (items t) min_size).
      assert (Hms : (items t <= ms < 2 ^ 64)%Z).
      { unfold ms. rewrite two_p_62 in Hnb62. rewrite two_p_64 in *. lia. }
      destruct (Z.eqb_spec ms 0) as [E0|_]; [lia|].
      destruct (capacity_to_buckets (zn GW) ms (lay_size B tsize talign) (ctrl_align B tsize talign))
        as [mb|]; [|intros E; injection E as <- _; exact HWF].
      destruct (mb <? zn (buckets T t))%Z; [|intros E; injection E as <- _; exact HWF].
      destruct (Z.eqb_spec (items t) 0) as [C|_]; [contradiction|].
      destruct (resize_inner B T tsize talign h t ms alloc_refuses Infallible)
        as [[[[t1 evs1] tr1] unw1]|er] eqn:Er; cbn [bind]; [|discriminate].
      destruct tr1; [|discriminate|discriminate].
      intros E. injection E as <- <- ->.
      exact (resize_inner_WF B T HW HB tsize talign Hts Hta h t ms alloc_refuses Infallible Hsafe HA Hms
               h t1 evs1 (fun e => eq_refl) Er).
  Qed.
End RawOpsWF.

Print Assumptions reserve_rehash_WF.
Print Assumptions reserve_WF.
Print Assumptions try_reserve_WF.
Print Assumptions try_reserve_contents.
Print Assumptions find_or_find_insert_slot_WF.
Print Assumptions insert_WF.
Print Assumptions shrink_to_WF.
