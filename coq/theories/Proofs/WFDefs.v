(* WFDefs.v -- the table invariant (Prop level).  Definitions only.

   SafeWF  needs no assumption on Hash/Eq (C02, C05, C09, C13): shape, valid bytes, mirror,
           counters, "slot initialised <-> control byte FULL".
   WF h    adds, for a deterministic hash function h on elements: Tags (the control byte of an
           occupant is the tag of its hash) and Reach (walking the occupant's probe sequence, no
           group before the one containing it holds an EMPTY byte). *)
From Coq Require Import ZArith List Bool Lia.
From HB Require Import RsPrelude Sse2 Gen Group Raw Check.
Import ListNotations.
Open Scope nat_scope.

Definition WidthOK (B : backend) : Prop := bk_width B = 8 \/ bk_width B = 16.

Section WF.
  Variable B : backend.
  Variable T : Type.
  Let GW := bk_width B.

  Definition nb (t : table T) : nat := buckets T t.
  Definition byte (t : table T) (i : nat) : Z := nth i (ctrl t) POISON.
  Definition slot (t : table T) (i : nat) : option T := nth i (slots t) None.

  Definition Pow2 (t : table T) : Prop := exists k : nat, 1 <= k <= 62 /\ nb t = 2 ^ k.

  Definition Shape (t : table T) : Prop :=
    Pow2 t /\ length (ctrl t) = nb t + GW /\ length (slots t) = nb t /\ Forall valid_ctrl (ctrl t).

  Definition Mirror (t : table T) : Prop :=
    if GW <=? nb t
    then forall i, i < GW -> byte t (nb t + i) = byte t i
    else (forall i, nb t <= i < GW -> byte t i = EMPTY) /\
         (forall i, i < nb t -> byte t (GW + i) = byte t i).

  Definition Count (t : table T) : Prop :=
    items t = zn (count_p is_full (real_ctrl T t)) /\
    (growth_left t + items t + zn (count_p is_deleted (real_ctrl T t)) = z_cap (mask t))%Z /\
    (0 <= growth_left t)%Z /\
    (forall i, i < nb t -> (slot t i <> None <-> is_full (byte t i) = true)).

  Definition SafeWF (t : table T) : Prop :=
    if mask t =? 0 then t = new_table B T else Shape t /\ Mirror t /\ Count t.

  Variable h : T -> option Z.

  Definition Tags (t : table T) : Prop :=
    forall i e hash, i < nb t -> slot t i = Some e -> h e = Some hash -> byte t i = tag_full hash.

  Definition Reach (t : table T) : Prop :=
    forall i e hash, i < nb t -> slot t i = Some e -> h e = Some hash -> reach_ok B T t hash i = true.

  Definition WF (t : table T) : Prop := SafeWF t /\ Tags t /\ Reach t.

  (* number of EMPTY bytes among the real control bytes *)
  Definition count_empty (t : table T) : nat := count_p is_empty (real_ctrl T t).
End WF.
