(* SetAlgFacts.v -- the pipelines of SetAlg.v compute the mathematical set operations. *)
From Coq Require Import ZArith List Bool Lia Permutation.
From HB Require Import RsPrelude Gen SetAlg.
Import ListNotations.
Open Scope Z_scope.

Section Facts.
  Variable E : Type.
  Variable key : E -> Z.
  Notation mem := (mem E key).
  Notation KIn x l := (exists y, In y l /\ key y = key x).

  (* a list represents a set when its keys are pairwise distinct *)
  Definition KNoDup (l : list E) : Prop := NoDup (map key l).

  Lemma mem_spec x l : mem x l = true <-> KIn x l.
  Proof.
    unfold SetAlg.mem. rewrite existsb_exists. split; intros (y & Hy & E0); exists y; split; auto; lia.
  Qed.

  Lemma mem_false x l : mem x l = false <-> ~ KIn x l.
  Proof. rewrite <- mem_spec. destruct (mem x l); split; intros; congruence. Qed.

  Lemma KNoDup_filter f l : KNoDup l -> KNoDup (filter f l).
  Proof.
    unfold KNoDup. induction l as [|x l IH]; cbn [filter map]; intros H; [constructor|].
    inversion H as [|? ? Hn Hd]; subst.
    destruct (f x); cbn [map]; [constructor|]; auto.
    intros Hin. apply Hn. apply in_map_iff in Hin as (y & Ey & Hy). apply filter_In in Hy as [Hy _].
    apply in_map_iff. exists y. auto.
  Qed.

  Lemma KNoDup_app a b : KNoDup a -> KNoDup b -> (forall x, In x a -> ~ KIn x b) -> KNoDup (a ++ b).
  Proof.
    unfold KNoDup. intros Ha Hb Hdis. rewrite map_app.
    induction a as [|x a IH]; cbn [map app]; [assumption|].
    inversion Ha as [|? ? Hn Hd]; subst. constructor.
    - rewrite in_app_iff. intros [Hin|Hin]; [contradiction|].
      apply in_map_iff in Hin as (y & Ey & Hy). apply (Hdis x); [left; reflexivity|]. exists y. auto.
    - apply IH; [assumption|]. intros y Hy. apply Hdis. right. assumption.
  Qed.

  Lemma difference_spec a b x : In x (difference E key a b) <-> In x a /\ ~ KIn x b.
  Proof. unfold difference. rewrite filter_In, negb_true_iff, mem_false. tauto. Qed.

  Lemma intersection_spec a b x :
    KIn x (intersection E key a b) <-> KIn x a /\ KIn x b.
  Proof.
    unfold intersection. destruct (set_intersection_self_smaller _ _).
    - split.
      + intros (y & Hy & Ey). apply filter_In in Hy as [Hy Hm]. apply mem_spec in Hm as (z & Hz & Ez).
        split; [exists y; auto|exists z; split; auto; lia].
      + intros [(y & Hy & Ey) (z & Hz & Ez)]. exists y. split; [|assumption].
        apply filter_In. split; [assumption|]. apply mem_spec. exists z. split; auto; lia.
    - split.
      + intros (y & Hy & Ey). apply filter_In in Hy as [Hy Hm]. apply mem_spec in Hm as (z & Hz & Ez).
        split; [exists z; split; auto; lia|exists y; auto].
      + intros [(y & Hy & Ey) (z & Hz & Ez)]. exists z. split; [|assumption].
        apply filter_In. split; [assumption|]. apply mem_spec. exists y. split; auto; lia.
  Qed.

  Lemma union_spec a b x : KIn x (union E key a b) <-> KIn x a \/ KIn x b.
  Proof.
    assert (G : forall p q, KIn x (p ++ difference E key q p) <-> KIn x p \/ KIn x q).
    { intros p q. split.
      - intros (y & Hy & Ey). apply in_app_iff in Hy as [Hy|Hy]; [left; exists y; auto|].
        apply difference_spec in Hy as [Hy _]. right. exists y. auto.
      - intros [(y & Hy & Ey)|(y & Hy & Ey)].
        + exists y. split; [apply in_app_iff; left|]; assumption.
        + destruct (mem y p) eqn:M.
          * apply mem_spec in M as (z & Hz & Ez). exists z. split; [apply in_app_iff; left; assumption|lia].
          * exists y. split; [|assumption]. apply in_app_iff. right. apply difference_spec. split; [assumption|].
            apply mem_false. assumption. }
    unfold union. destruct (set_union_self_smaller _ _); rewrite G; tauto.
  Qed.

  Lemma symmetric_difference_spec a b x :
    In x (symmetric_difference E key a b) <-> (In x a /\ ~ KIn x b) \/ (In x b /\ ~ KIn x a).
  Proof. unfold symmetric_difference. rewrite in_app_iff, !difference_spec. tauto. Qed.

  Lemma forallb_mem a b : forallb (fun x => mem x b) a = true <-> (forall x, In x a -> KIn x b).
  Proof. rewrite forallb_forall. split; intros H x Hx; apply mem_spec, H, Hx. Qed.

  Lemma is_subset_spec a b : KNoDup a -> KNoDup b ->
    (is_subset E key a b = true <-> (forall x, In x a -> KIn x b)).
  Proof.
    intros Ha Hb. unfold is_subset, len. rewrite andb_true_iff, forallb_mem. split; [tauto|].
    intros H. split; [|assumption].
    apply Z.leb_le. apply Nat2Z.inj_le.
    rewrite <- (map_length key a), <- (map_length key b).
    apply NoDup_incl_length; [exact Ha|].
    intros k Hk. apply in_map_iff in Hk as (x & <- & Hx). destruct (H x Hx) as (y & Hy & Ey).
    apply in_map_iff. exists y. auto.
  Qed.

  Lemma set_eq_spec a b : KNoDup a -> KNoDup b ->
    (set_eq E key a b = true <-> ((forall x, In x a -> KIn x b) /\ (forall x, In x b -> KIn x a))).
  Proof.
    intros Ha Hb. unfold set_eq, len. rewrite andb_true_iff, forallb_mem. split.
    - intros [Hl Hs]. split; [assumption|].
      apply Z.eqb_eq, Nat2Z.inj in Hl.
      (* a's keys are included in b's keys, both duplicate free and of equal length *)
      assert (Hin : incl (map key b) (map key a)).
      { apply NoDup_length_incl; [exact Ha|rewrite !map_length; lia|].
        intros k Hk. apply in_map_iff in Hk as (x & <- & Hx). destruct (Hs x Hx) as (y & Hy & Ey).
        apply in_map_iff. exists y. auto. }
      intros x Hx. assert (Hk : In (key x) (map key a)) by (apply Hin, in_map, Hx).
      apply in_map_iff in Hk as (y & Ey & Hy). exists y. auto.
    - intros [Hab Hba]. split; [|assumption]. apply Z.eqb_eq. f_equal.
      rewrite <- (map_length key a), <- (map_length key b).
      apply Nat.le_antisymm; apply NoDup_incl_length; auto;
        intros k Hk; apply in_map_iff in Hk as (x & <- & Hx).
      + destruct (Hab x Hx) as (y & Hy & Ey). apply in_map_iff. exists y. auto.
      + destruct (Hba x Hx) as (y & Hy & Ey). apply in_map_iff. exists y. auto.
  Qed.

  Lemma is_disjoint_spec a b : is_disjoint E key a b = true <-> (forall x, In x a -> ~ KIn x b).
  Proof.
    unfold is_disjoint. split.
    - intros H x Hx Hb. assert (K : KIn x (intersection E key a b)) by (apply intersection_spec; split; [exists x; auto|assumption]).
      destruct K as (y & Hy & _). destruct (intersection E key a b); [contradiction|discriminate].
    - intros H. destruct (intersection E key a b) as [|y l] eqn:EI; [reflexivity|exfalso].
      assert (K : KIn y (intersection E key a b)) by (exists y; rewrite EI; split; [left|]; reflexivity).
      apply intersection_spec in K as [(z & Hz & Ez) (w & Hw & Ew)]. apply (H z Hz). exists w. split; auto; lia.
  Qed.

  (* each element once *)
  Lemma difference_nodup a b : KNoDup a -> KNoDup (difference E key a b).
  Proof. apply KNoDup_filter. Qed.
  Lemma intersection_nodup a b : KNoDup a -> KNoDup b -> KNoDup (intersection E key a b).
  Proof. intros; unfold intersection; destruct (set_intersection_self_smaller _ _); apply KNoDup_filter; assumption. Qed.
  Lemma union_nodup a b : KNoDup a -> KNoDup b -> KNoDup (union E key a b).
  Proof.
    intros Ha Hb. unfold union. destruct (set_union_self_smaller _ _);
      (apply KNoDup_app; [assumption|apply difference_nodup; assumption|]);
      intros x Hx (y & Hy & Ey); apply difference_spec in Hy as [_ Hn]; apply Hn; exists x; split; auto; lia.
  Qed.
  Lemma symmetric_difference_nodup a b : KNoDup a -> KNoDup b -> KNoDup (symmetric_difference E key a b).
  Proof.
    intros Ha Hb. unfold symmetric_difference. apply KNoDup_app; try (apply difference_nodup; assumption).
    intros x Hx (y & Hy & Ey). apply difference_spec in Hx as [Hxa Hxb]. apply difference_spec in Hy as [Hyb _].
    apply Hxb. exists y. auto.
  Qed.

  (* Difference::size_hint encloses the true remaining count *)
  Lemma difference_size_hint_sound (rest b : list E) : KNoDup rest -> KNoDup b ->
    let '(lo, hi) := difference_size_hint E (len E rest) b in
    lo <= len E (difference E key rest b) <= hi.
  Proof.
    intros Hr Hb. unfold difference_size_hint, set_difference_size_hint_lower, saturating_sub, len.
    assert (Hle : (length (difference E key rest b) <= length rest)%nat).
    { unfold difference. generalize (fun x => negb (mem x b)). intros f. clear.
      induction rest as [|x r IH]; cbn [filter length]; [lia|]. destruct (f x); cbn [length]; lia. }
    (* at most |b| elements of rest are removed *)
    assert (Hge : (length rest <= length (difference E key rest b) + length b)%nat).
    { unfold difference. clear Hle.
      assert (P : (length rest = length (filter (fun x => negb (mem x b)) rest) + length (filter (fun x => mem x b) rest))%nat).
      { clear. induction rest as [|x r IH]; cbn [filter length]; [reflexivity|]. destruct (mem x b); cbn [negb length]; lia. }
      rewrite P. apply Nat.add_le_mono_l.
      rewrite <- (map_length key (filter _ rest)), <- (map_length key b).
      apply NoDup_incl_length; [apply (KNoDup_filter _ rest Hr)|].
      intros k Hk. apply in_map_iff in Hk as (x & <- & Hx). apply filter_In in Hx as [_ Hm].
      apply mem_spec in Hm as (y & Hy & Ey). apply in_map_iff. exists y. auto. }
    destruct (Z.ltb_spec (Z.of_nat (length rest)) (Z.of_nat (length b))); lia.
  Qed.
End Facts.
