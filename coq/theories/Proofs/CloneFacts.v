(* CloneFacts.v -- property C11: RawTable::clone / clone_from / clone_from_impl and HashMap ==.

     L4  map_eq_spec           HashMap's PartialEq decides "same keys with equal values"; it is
                               symmetric (map_eq_sym) and invariant under permutation of either
                               argument (map_eq_perm)
     L1  clone_from_impl_spec  (+ clone_from_impl_ok / _panic / _ok_iff) the cloning loop and its guard
     L2  clone_table_spec      (+ clone_table_ok / clone_table_panic) RawTable::clone; clone_WF: the
                               hash-dependent invariant carries over when clones hash like originals
     L3  clone_from_spec       (+ clone_from_ok / clone_from_drops / realloc_evs_same / _diff)

   Observation recorded by L3 (not a safety defect, leaking is safe in Rust): when a destructor of
   an old element panics inside clone_from, the remaining old elements are leaked, and if the
   source is the empty singleton the old block itself is leaked as well (drop_inner_table unwinds
   before free_buckets; the events then contain no EvFree).  Nothing is ever dropped twice.
   No axioms. *)
From Coq Require Import ZArith List Bool Lia Arith Permutation.
From HB Require Import RsPrelude Sse2 Gen Group Raw Map Check ArithFacts WFDefs GroupFacts IterFacts
  SafeInsertErase SafeAllocClear WFInsertRemove RawOpsSafe AssocSpec AssocFacts Clone.
Import ListNotations.
Open Scope nat_scope.

(* ---------------------------------------------------------------------------------------- *)
(* L4: HashMap == on the iteration-order lists                                                *)
(* ---------------------------------------------------------------------------------------- *)
Lemma find_lookup (b : list kv) k : List.find (fun x => Z.eqb (k_id x) k) b = lookup b k.
Proof.
  induction b as [|x b IH]; cbn [List.find lookup]; [reflexivity|].
  destruct (Z.eqb (k_id x) k); [reflexivity | exact IH].
Qed.

(* same keys, and equal values under every key *)
Definition same_kv (a b : list kv) : Prop :=
  forall k, option_map v_val (lookup a k) = option_map v_val (lookup b k).

Lemma map_eq_unfold a b :
  map_eq a b = Nat.eqb (length a) (length b) &&
               forallb (fun e => match lookup b (k_id e) with
                                 | Some x => Z.eqb (v_val x) (v_val e)
                                 | None => false
                                 end) a.
Proof.
  unfold map_eq. f_equal. induction a as [|e a IH]; [reflexivity|].
  cbn [forallb]. rewrite find_lookup, IH. reflexivity.
Qed.

Lemma in_keys_lookup (s : list kv) k : In k (map k_id s) <-> lookup s k <> None.
Proof.
  pose proof (lookup_None_keys s k) as H. destruct (lookup s k) as [e|].
  - split; [discriminate|]. intros _.
    destruct (in_dec Z.eq_dec k (map k_id s)) as [Hin|Hn]; [exact Hin|].
    exfalso. assert (E : Some e = None) by (apply H; exact Hn). discriminate E.
  - split; [|intros Hc; exfalso; apply Hc; reflexivity].
    intros Hin _. apply (proj1 H eq_refl). exact Hin.
Qed.

Theorem map_eq_spec a b : NoDup (map k_id a) -> NoDup (map k_id b) ->
  (map_eq a b = true <-> same_kv a b).
Proof.
  intros Ha Hb. rewrite map_eq_unfold. split.
  - intros H. apply andb_prop in H. destruct H as [Hlen Hall]. apply Nat.eqb_eq in Hlen.
    rewrite forallb_forall in Hall.
    assert (Hab : incl (map k_id a) (map k_id b)).
    { intros k Hk. apply in_map_iff in Hk. destruct Hk as (e & <- & He).
      specialize (Hall e He). destruct (lookup b (k_id e)) as [x|] eqn:El; [|discriminate].
      destruct (lookup_Some b _ x El) as (Hx & Ek). rewrite <- Ek. apply in_map. exact Hx. }
    assert (Hba : incl (map k_id b) (map k_id a)).
    { apply NoDup_length_incl; [exact Ha | rewrite !map_length; lia | exact Hab]. }
    intros k. destruct (lookup a k) as [e|] eqn:Ea.
    + destruct (lookup_Some a k e Ea) as (He & <-). specialize (Hall e He).
      destruct (lookup b (k_id e)) as [x|]; [|discriminate].
      apply Z.eqb_eq in Hall. cbn [option_map]. rewrite Hall. reflexivity.
    + destruct (lookup b k) as [x|] eqn:Eb; [|reflexivity]. exfalso.
      assert (Hin : In k (map k_id b)) by (apply in_keys_lookup; rewrite Eb; discriminate).
      apply Hba in Hin. apply in_keys_lookup in Hin. apply Hin. exact Ea.
  - intros H. apply andb_true_intro. split.
    + apply Nat.eqb_eq. rewrite <- (map_length k_id a), <- (map_length k_id b).
      apply Permutation_length. apply NoDup_Permutation; [exact Ha | exact Hb |].
      intros k. rewrite !in_keys_lookup. specialize (H k).
      destruct (lookup a k), (lookup b k); cbn [option_map] in H; try discriminate H;
        split; intros Hc; try discriminate; exfalso; apply Hc; reflexivity.
    + apply forallb_forall. intros e He. specialize (H (k_id e)).
      rewrite (In_lookup a e Ha He) in H. cbn [option_map] in H.
      destruct (lookup b (k_id e)) as [x|]; cbn [option_map] in H; [|discriminate H].
      injection H as H. apply Z.eqb_eq. symmetry. exact H.
Qed.

Lemma same_kv_sym a b : same_kv a b -> same_kv b a.
Proof. intros H k. symmetry. apply H. Qed.

Lemma bool_eq_iff (x y : bool) : (x = true <-> y = true) -> x = y.
Proof. destruct x, y; intros [H1 H2]; try reflexivity; [symmetry; apply H1 | apply H2]; reflexivity. Qed.

Theorem map_eq_sym a b : NoDup (map k_id a) -> NoDup (map k_id b) -> map_eq a b = map_eq b a.
Proof.
  intros Ha Hb. apply bool_eq_iff.
  rewrite (map_eq_spec a b Ha Hb), (map_eq_spec b a Hb Ha). split; apply same_kv_sym.
Qed.

(* == does not depend on the order in which the two maps enumerate their entries, that is, on
   layout, capacity, insertion order or hasher state *)
Theorem map_eq_perm a a' b b' : NoDup (map k_id a) -> NoDup (map k_id b) ->
  Permutation a a' -> Permutation b b' -> map_eq a b = map_eq a' b'.
Proof.
  intros Ha Hb Pa Pb.
  pose proof (NoDup_keys_perm a a' Pa Ha) as Ha'. pose proof (NoDup_keys_perm b b' Pb Hb) as Hb'.
  apply bool_eq_iff. rewrite (map_eq_spec a b Ha Hb), (map_eq_spec a' b' Ha' Hb').
  unfold same_kv. split; intros H k; specialize (H k).
  - rewrite <- (lookup_perm a a' k Ha Pa), <- (lookup_perm b b' k Hb Pb). exact H.
  - rewrite (lookup_perm a a' k Ha Pa), (lookup_perm b b' k Hb Pb). exact H.
Qed.

Corollary map_eq_refl a : NoDup (map k_id a) -> map_eq a a = true.
Proof. intros Ha. apply (map_eq_spec a a Ha Ha). intros k. reflexivity. Qed.

(* ---------------------------------------------------------------------------------------- *)
(* L1 - L3: the raw table                                                                     *)
(* ---------------------------------------------------------------------------------------- *)
Section CloneFacts.
  Variable B : backend.
  Variable T : Type.
  Hypothesis HW : WidthOK B.
  Hypothesis HB : BackendSpec B.

  Variable tsize talign : Z.
  Hypothesis Hts : (0 <= tsize < 2 ^ 64)%Z.
  Hypothesis Hta : exists a : Z, (0 <= a <= 62)%Z /\ talign = (2 ^ a)%Z.

  Variable needs_drop : bool.
  Variable drop_ok : T -> bool.
  Variable clone_of : T -> option T.

  Local Notation GW := (bk_width B).

  (* the clone of the contents of a slot *)
  Definition oclone (o : option T) : option T :=
    match o with Some e => clone_of e | None => None end.
  (* c is the clone of e *)
  Definition Cloned (e c : T) : Prop := clone_of e = Some c.

  Lemma occ_clone_Forall2 : forall (l1 l2 : list (option T)),
    length l1 = length l2 -> (forall i, nth i l2 None = oclone (nth i l1 None)) ->
    (forall e, In e (occ l1) -> clone_of e <> None) ->
    Forall2 Cloned (occ l1) (occ l2).
  Proof.
    induction l1 as [|o l1 IH]; intros l2 Hlen Hn Hall.
    - destruct l2; [constructor | discriminate].
    - destruct l2 as [|o2 l2]; [discriminate|].
      pose proof (Hn 0) as H0. cbn [nth] in H0.
      assert (IHH : Forall2 Cloned (occ l1) (occ l2)).
      { apply IH; [cbn [length] in Hlen; lia | intros i; exact (Hn (S i)) |].
        intros e He. apply Hall. unfold occ. cbn [flat_map]. apply in_or_app. right. exact He. }
      unfold occ. cbn [flat_map]. destruct o as [e|]; cbn [oclone] in H0.
      + destruct (clone_of e) as [c|] eqn:Ec.
        * subst o2. cbn. constructor; [exact Ec | exact IHH].
        * exfalso. apply (Hall e); [unfold occ; cbn; left; reflexivity | exact Ec].
      + subst o2. cbn. exact IHH.
  Qed.

  (* the loop of clone_from_impl *)
  Lemma clone_elems_spec (src : table T) : mask src <> 0 ->
    forall idx (dst : table T), mask dst <> 0 -> NoDup idx ->
    (forall i, In i idx -> i < length (slots dst) /\ i < length (slots src) /\ slot T src i <> None) ->
    exists r ok, clone_elems T clone_of src dst idx = Ok (r, ok) /\
      mask r = mask dst /\ ctrl r = ctrl dst /\ items r = items dst /\ growth_left r = growth_left dst /\
      length (slots r) = length (slots dst) /\
      (ok = true ->
         (forall i e, In i idx -> slot T src i = Some e -> clone_of e <> None) /\
         forall j, slot T r j = if in_dec Nat.eq_dec j idx then oclone (slot T src j) else slot T dst j) /\
      (ok = false -> exists i e, In i idx /\ slot T src i = Some e /\ clone_of e = None).
  Proof.
    intros Hms. induction idx as [|i rest IH]; intros dst Hmd Hnd Hidx.
    - exists dst, true. cbn [clone_elems]. split; [reflexivity|]. repeat (split; [reflexivity|]).
      split; [|discriminate]. intros _. split; [intros i e []|]. intros j. reflexivity.
    - destruct (Hidx i (or_introl eq_refl)) as (Hid & His & Hsi).
      destruct (slot T src i) as [e|] eqn:Ee; [|congruence].
      cbn [clone_elems]. rewrite (slot_ref_ok T src i e Hms His Ee). cbn [bind].
      destruct (clone_of e) as [c|] eqn:Ec.
      + rewrite (slot_write_ok T dst i c Hmd Hid). cbn [bind].
        inversion Hnd as [|? ? Hni Hnd']; subst.
        destruct (IH (with_slots T dst (upd (slots dst) i (Some c)))) as
          (r & ok & E & E1 & E2 & E3 & E4 & E5 & Ht & Hf).
        * exact Hmd.
        * exact Hnd'.
        * intros j Hj. cbn [slots with_slots]. rewrite upd_length by exact Hid.
          apply Hidx. right. exact Hj.
        * exists r, ok. split; [exact E|].
          cbn [mask ctrl items growth_left slots with_slots] in E1, E2, E3, E4, E5.
          rewrite upd_length in E5 by exact Hid.
          split; [exact E1|]. split; [exact E2|]. split; [exact E3|]. split; [exact E4|].
          split; [exact E5|]. split.
          -- intros Hok. destruct (Ht Hok) as (Hall & Hsl). split.
             ++ intros j x [<-|Hj] Hx; [rewrite Ee in Hx; injection Hx as <-; congruence|].
                exact (Hall j x Hj Hx).
             ++ intros j. rewrite (Hsl j).
                destruct (in_dec Nat.eq_dec j rest) as [Hin|Hnin];
                  destruct (in_dec Nat.eq_dec j (i :: rest)) as [Hin'|Hnin']; try reflexivity.
                ** exfalso. apply Hnin'. right. exact Hin.
                ** unfold slot. cbn [slots with_slots]. rewrite nth_upd by exact Hid.
                   destruct (Nat.eqb_spec j i) as [->|Hne].
                   --- fold (slot T src i). rewrite Ee. cbn [oclone]. symmetry. exact Ec.
                   --- exfalso. destruct Hin' as [E0|Hr]; [apply Hne; symmetry; exact E0 | exact (Hnin Hr)].
                ** unfold slot. cbn [slots with_slots]. rewrite nth_upd by exact Hid.
                   destruct (Nat.eqb_spec j i) as [->|Hne]; [|reflexivity].
                   exfalso. apply Hnin'. left. reflexivity.
          -- intros Hok. destruct (Hf Hok) as (j & x & Hj & Hx & Hc). exists j, x.
             split; [right; exact Hj|]. split; assumption.
      + exists dst, false. split; [reflexivity|]. repeat (split; [reflexivity|]).
        split; [discriminate|]. intros _. exists i, e. split; [left; reflexivity|]. split; assumption.
  Qed.

  Lemma in_full_list (t : table T) i : In i (full_list t) <-> i < nb T t /\ is_full (byte T t i) = true.
  Proof.
    unfold full_list. rewrite filter_In, in_seq. split; intros [H1 H2]; (split; [lia | exact H2]).
  Qed.

  (* L1 *)
  Theorem clone_from_impl_spec (src dst : table T) :
    SafeWF B T src -> mask src <> 0 -> mask dst = mask src ->
    length (ctrl dst) = length (ctrl src) -> length (slots dst) = nb T src ->
    exists r ok, clone_from_impl B T clone_of dst src = Ok (r, ok) /\
      mask r = mask src /\ ctrl r = ctrl src /\ length (slots r) = nb T src /\
      (ok = true ->
         (forall e, In e (occupants T src) -> clone_of e <> None) /\
         items r = items src /\ growth_left r = growth_left src /\ SafeWF B T r /\
         (forall i, slot T r i = oclone (slot T src i)) /\
         Forall2 Cloned (occupants T src) (occupants T r)) /\
      (ok = false ->
         (exists e, In e (occupants T src) /\ clone_of e = None) /\
         items r = items dst /\ growth_left r = growth_left dst /\
         (forall i, slot T r i = None) /\ occupants T r = []).
  Proof.
    intros H Hm Emd Elc Els.
    destruct (SafeWF_alloc B T src H Hm) as (HS & HM & HC).
    pose proof HS as (_ & Hlc & Hls & _).
    pose proof HC as (Hit & Hgl & Hg0 & Hsl).
    unfold clone_from_impl. rewrite Elc, Nat.eqb_refl. cbn [negb].
    destruct (iter_exact B T HW HB src H) as (it & Hn & Ha).
    rewrite Hn. cbn [bind]. rewrite Ha. cbn [bind].
    set (dst0 := mkTable (mask dst) (ctrl src) (map (fun _ => None) (slots dst)) (items dst) (growth_left dst)).
    assert (Hfull : forall i, In i (full_list src) ->
              i < length (slots dst0) /\ i < length (slots src) /\ slot T src i <> None).
    { intros i Hi. apply in_full_list in Hi. destruct Hi as [Hi Hf].
      unfold dst0. cbn [slots]. rewrite map_length, Els, Hls.
      split; [exact Hi|]. split; [exact Hi|]. apply (Hsl i Hi). exact Hf. }
    assert (Hnd : NoDup (full_list src)) by (unfold full_list; apply NoDup_filter, seq_NoDup).
    assert (Hmd0 : mask dst0 <> 0) by (unfold dst0; cbn [mask]; rewrite Emd; exact Hm).
    destruct (clone_elems_spec src Hm (full_list src) dst0 Hmd0 Hnd Hfull) as
      (r1 & ok & E & E1 & E2 & E3 & E4 & E5 & Ht & Hf).
    rewrite E. cbn [bind].
    unfold dst0 in E1, E2, E3, E4, E5. cbn [mask ctrl items growth_left slots] in E1, E2, E3, E4, E5.
    rewrite map_length, Els in E5.
    (* a FULL bucket holds an element and conversely *)
    assert (Hnone : forall j, ~ In j (full_list src) -> slot T src j = None).
    { intros j Hj. destruct (Nat.lt_ge_cases j (nb T src)) as [Hlt|Hge].
      - destruct (slot T src j) as [x|] eqn:Ex; [|reflexivity]. exfalso. apply Hj.
        apply in_full_list. split; [exact Hlt|]. apply (Hsl j Hlt). rewrite Ex. discriminate.
      - unfold slot. apply nth_overflow. lia. }
    assert (Hocc : forall e, In e (occupants T src) -> exists i, In i (full_list src) /\ slot T src i = Some e).
    { intros e He. apply occupants_In in He. destruct He as (i & Hi & Ei). exists i. split; [|exact Ei].
      destruct (in_dec Nat.eq_dec i (full_list src)) as [Hin|Hnin]; [exact Hin|].
      rewrite (Hnone i Hnin) in Ei. discriminate Ei. }
    destruct ok.
    - (* every clone succeeded *)
      destruct (Ht eq_refl) as (Hall & Hslots).
      eexists _, true. split; [reflexivity|].
      cbn [mask ctrl slots items growth_left].
      split; [congruence|]. split; [exact E2|]. split; [exact E5|].
      split; [|discriminate]. intros _.
      set (r := mkTable (mask r1) (ctrl r1) (slots r1) (items src) (growth_left src)).
      assert (Hclone : forall e, In e (occupants T src) -> clone_of e <> None).
      { intros e He. destruct (Hocc e He) as (i & Hi & Ei). exact (Hall i e Hi Ei). }
      assert (Hr : forall i, slot T r i = oclone (slot T src i)).
      { intros j. change (slot T r j) with (slot T r1 j). rewrite (Hslots j).
        destruct (in_dec Nat.eq_dec j (full_list src)) as [_|Hnin]; [reflexivity|].
        rewrite (Hnone j Hnin). unfold slot, dst0. cbn [slots oclone]. apply nth_map_const_None. }
      assert (Emr : mask r = mask src) by (unfold r; cbn [mask]; congruence).
      assert (Ecr : ctrl r = ctrl src) by exact E2.
      assert (Elr : length (slots r) = length (slots src)) by (unfold r; cbn [slots]; congruence).
      split; [exact Hclone|]. split; [reflexivity|]. split; [reflexivity|].
      split; [|split; [exact Hr|]].
      + apply SafeWF_of_parts.
        * exact (Shape_ext B T src r Emr Ecr Elr HS).
        * exact (Mirror_ext B T src r Emr Ecr HM).
        * unfold Count. rewrite (real_ctrl_ext T src r Emr Ecr), Emr.
          split; [exact Hit|]. split; [exact Hgl|]. split; [exact Hg0|].
          intros i Hi. assert (Hi' : i < nb T src) by (unfold nb, buckets in *; rewrite <- Emr; exact Hi).
          unfold byte. rewrite Ecr. fold (byte T src i). rewrite (Hr i).
          rewrite <- (Hsl i Hi'). destruct (slot T src i) as [x|] eqn:Ex; cbn [oclone].
          -- split; intros _; [discriminate|].
             apply Hclone. apply occupants_In. exists i. split; [lia | exact Ex].
          -- split; intros Hc; exact Hc.
      + rewrite !occupants_occ. apply occ_clone_Forall2.
        * symmetry. exact Elr.
        * exact Hr.
        * rewrite <- occupants_occ. exact Hclone.
    - (* a Clone panicked *)
      destruct (Hf eq_refl) as (i & e & Hi & Ei & Ec).
      eexists _, false. split; [reflexivity|].
      cbn [mask ctrl slots items growth_left with_slots].
      split; [congruence|]. split; [exact E2|]. split; [rewrite map_length; exact E5|].
      split; [discriminate|]. intros _.
      split.
      + exists e. split; [|exact Ec]. apply occupants_In. exists i. split; [|exact Ei].
        apply in_full_list in Hi. lia.
      + split; [exact E3|]. split; [exact E4|].
        split; [intros j; unfold slot; cbn [slots]; apply nth_map_const_None|].
        unfold occupants. cbn [slots]. apply flat_map_all_none. intros j. apply nth_map_const_None.
  Qed.

  (* the two directions asked for: the outcome is determined by the occupants *)
  Corollary clone_from_impl_ok_iff (src dst : table T) r ok :
    SafeWF B T src -> mask src <> 0 -> mask dst = mask src ->
    length (ctrl dst) = length (ctrl src) -> length (slots dst) = nb T src ->
    clone_from_impl B T clone_of dst src = Ok (r, ok) ->
    ((forall e, In e (occupants T src) -> clone_of e <> None) -> ok = true) /\
    ((exists e, In e (occupants T src) /\ clone_of e = None) -> ok = false).
  Proof.
    intros H Hm Emd Elc Els E.
    destruct (clone_from_impl_spec src dst H Hm Emd Elc Els) as (r' & ok' & E' & _ & _ & _ & Ht & Hf).
    rewrite E in E'. injection E' as <- <-. split.
    - intros Hall. destruct ok; [reflexivity|]. destruct (Hf eq_refl) as ((e & He & Ec) & _).
      exfalso. exact (Hall e He Ec).
    - intros (e & He & Ec). destruct ok; [|reflexivity]. destruct (Ht eq_refl) as (Hall & _).
      exfalso. exact (Hall e He Ec).
  Qed.

  (* L1, by hypothesis: every occupant clones *)
  Corollary clone_from_impl_ok (src dst : table T) :
    SafeWF B T src -> mask src <> 0 -> mask dst = mask src ->
    length (ctrl dst) = length (ctrl src) -> length (slots dst) = nb T src ->
    (forall e, In e (occupants T src) -> clone_of e <> None) ->
    exists r, clone_from_impl B T clone_of dst src = Ok (r, true) /\
      mask r = mask src /\ ctrl r = ctrl src /\ items r = items src /\ growth_left r = growth_left src /\
      SafeWF B T r /\ (forall i, slot T r i = oclone (slot T src i)) /\
      Forall2 Cloned (occupants T src) (occupants T r).
  Proof.
    intros H Hm Emd Elc Els Hall.
    destruct (clone_from_impl_spec src dst H Hm Emd Elc Els) as (r & ok & E & Em & Ec & _ & Ht & Hf).
    destruct ok.
    - destruct (Ht eq_refl) as (_ & Ei & Eg & Hsafe & Hsl & HF). exists r.
      split; [exact E|]. split; [exact Em|]. split; [exact Ec|]. split; [exact Ei|]. split; [exact Eg|].
      split; [exact Hsafe|]. split; [exact Hsl | exact HF].
    - exfalso. destruct (Hf eq_refl) as ((e & He & Hc) & _). exact (Hall e He Hc).
  Qed.

  (* L1, by hypothesis: some Clone panics -- the guard has dropped the clones made so far *)
  Corollary clone_from_impl_panic (src dst : table T) :
    SafeWF B T src -> mask src <> 0 -> mask dst = mask src ->
    length (ctrl dst) = length (ctrl src) -> length (slots dst) = nb T src ->
    (exists e, In e (occupants T src) /\ clone_of e = None) ->
    exists r, clone_from_impl B T clone_of dst src = Ok (r, false) /\
      mask r = mask src /\ ctrl r = ctrl src /\ length (slots r) = nb T src /\
      (forall i, slot T r i = None) /\ occupants T r = [].
  Proof.
    intros H Hm Emd Elc Els (e & He & Hc).
    destruct (clone_from_impl_spec src dst H Hm Emd Elc Els) as (r & ok & E & Em & Ec & El & Ht & Hf).
    destruct ok.
    - exfalso. destruct (Ht eq_refl) as (Hall & _). exact (Hall e He Hc).
    - destruct (Hf eq_refl) as (_ & _ & _ & Hsl & Hocc). exists r.
      split; [exact E|]. split; [exact Em|]. split; [exact Ec|]. split; [exact El|].
      split; [exact Hsl | exact Hocc].
  Qed.

  (* ---------------------------------------------------------------------------------------- *)
  (* L2: RawTable::clone                                                                        *)
  (* ---------------------------------------------------------------------------------------- *)
  (* clones hash like their originals *)
  Definition HashCompat (h : T -> option Z) : Prop := forall e c, clone_of e = Some c -> h c = h e.

  (* WF transfer: same control bytes, same mask, the slots hold clones with equal hashes *)
  Lemma clone_WF h (src r : table T) : HashCompat h -> SafeWF B T r ->
    mask r = mask src -> ctrl r = ctrl src -> (forall i, slot T r i = oclone (slot T src i)) ->
    WF B T h src -> WF B T h r.
  Proof.
    intros Hh Hs Em Ec Hr (_ & HT & HR). split; [exact Hs|].
    assert (Hsrc : forall i c, slot T r i = Some c -> exists e, slot T src i = Some e /\ clone_of e = Some c).
    { intros i c Hc. rewrite Hr in Hc. destruct (slot T src i) as [e|]; [|discriminate].
      exists e. split; [reflexivity | exact Hc]. }
    assert (Enb : nb T r = nb T src) by (unfold nb, buckets; rewrite Em; reflexivity).
    split.
    - intros i c hash Hi Hc Hhc. destruct (Hsrc i c Hc) as (e & He & Hec).
      unfold byte. rewrite Ec. fold (byte T src i). rewrite Enb in Hi.
      apply (HT i e hash Hi He). rewrite <- (Hh e c Hec). exact Hhc.
    - intros i c hash Hi Hc Hhc. destruct (Hsrc i c Hc) as (e & He & Hec).
      rewrite (reach_ok_ext B T src r hash i Em Ec). rewrite Enb in Hi.
      apply (HR i e hash Hi He). rewrite <- (Hh e c Hec). exact Hhc.
  Qed.

  (* r is a faithful clone of src: same geometry, same control bytes, same counters, every
     bucket holds the clone of what the same bucket of src holds *)
  Definition CloneOf (src r : table T) : Prop :=
    mask r = mask src /\ ctrl r = ctrl src /\ items r = items src /\ growth_left r = growth_left src /\
    (forall i, slot T r i = oclone (slot T src i)) /\
    Forall2 Cloned (occupants T src) (occupants T r) /\
    (forall h, HashCompat h -> WF B T h src -> WF B T h r).

  Lemma CloneOf_singleton : CloneOf (new_table B T) (new_table B T).
  Proof.
    repeat (split; [reflexivity|]). split; [|split].
    - intros [|[|i]]; reflexivity.
    - rewrite new_table_occupants. constructor.
    - intros h _ Hwf. exact Hwf.
  Qed.

  Lemma own_layout (t : table T) : SafeWF B T t -> TOwn B T tsize talign t -> mask t <> 0 ->
    exists len al off, layout_for B tsize talign (nb T t) = Some (len, al, off) /\ ValidLayout len al.
  Proof.
    intros H HO Hm. destruct (TOwn_allocated B T tsize talign t HO Hm) as (_ & len & al & off & El).
    destruct (SafeWF_alloc B T t H Hm) as (HS & _).
    exists len, al, off. split; [exact El|].
    exact (allocated_layout_valid B T HW tsize talign Hts Hta t len al off HS El).
  Qed.

  Lemma new_uninit_ok n len al off f : layout_for B tsize talign n = Some (len, al, off) ->
    new_uninitialized B T tsize talign n false f =
    Ok (Some (mkTable (n - 1) (repeat POISON (n + GW)) (repeat None n) 0%Z (z_cap (n - 1))),
        [EvAlloc len al], TR_ok).
  Proof. intros El. unfold new_uninitialized. rewrite El. reflexivity. Qed.

  Theorem clone_table_spec (src : table T) : SafeWF B T src -> TOwn B T tsize talign src ->
    exists res evs, clone_table B T tsize talign clone_of src = Ok (res, evs) /\
      (forall r, res = Some r ->
         (forall e, In e (occupants T src) -> clone_of e <> None) /\
         SafeWF B T r /\ TOwn B T tsize talign r /\ CloneOf src r) /\
      (res = None -> mask src <> 0 /\ exists e, In e (occupants T src) /\ clone_of e = None) /\
      (mask src = 0 -> evs = []) /\
      (mask src <> 0 ->
         exists len al off, layout_for B tsize talign (nb T src) = Some (len, al, off) /\
           ValidLayout len al /\
           evs = match res with
                 | Some _ => [EvAlloc len al]
                 | None => [EvAlloc len al; EvFree len al]
                 end).
  Proof.
    intros H HO. unfold clone_table, is_singleton.
    destruct (Nat.eqb_spec (mask src) 0) as [Hm0|Hm].
    - pose proof (safe_singleton B T src H Hm0) as Es. subst src.
      exists (Some (new_table B T)), []. split; [reflexivity|]. split; [|split; [discriminate|split]].
      + intros r Er. injection Er as <-. split; [intros e []|].
        split; [apply new_table_safe|]. split; [apply TOwn_new_table | apply CloneOf_singleton].
      + reflexivity.
      + intros Hc. exfalso. apply Hc. reflexivity.
    - destruct (own_layout src H HO Hm) as (len & al & off & El & Hv).
      destruct (SafeWF_alloc B T src H Hm) as (HS & _). pose proof HS as (_ & Hlc & _).
      change (buckets T src) with (nb T src).
      rewrite (new_uninit_ok (nb T src) len al off Infallible El). cbn [bind].
      set (nt := mkTable (nb T src - 1) (repeat POISON (nb T src + GW)) (repeat None (nb T src)) 0%Z
                         (z_cap (nb T src - 1))).
      assert (Emn : mask nt = mask src) by (unfold nt, nb, buckets; cbn [mask]; lia).
      destruct (clone_from_impl_spec src nt H Hm Emn) as (r & ok & E & Em & Ec & Els & Ht & Hf).
      { unfold nt. cbn [ctrl]. rewrite repeat_length. symmetry. exact Hlc. }
      { unfold nt. cbn [slots]. apply repeat_length. }
      rewrite E. cbn [bind]. destruct ok.
      + destruct (Ht eq_refl) as (Hall & Ei & Eg & Hsafe & Hsl & HF).
        exists (Some r), [EvAlloc len al]. split; [reflexivity|].
        split; [|split; [discriminate|split; [contradiction|]]].
        * intros r' Er. injection Er as <-. split; [exact Hall|]. split; [exact Hsafe|].
          split; [exact (TOwn_same_mask B T tsize talign src r Em HO)|].
          split; [exact Em|]. split; [exact Ec|]. split; [exact Ei|]. split; [exact Eg|].
          split; [exact Hsl|]. split; [exact HF|].
          intros h Hh Hwf. exact (clone_WF h src r Hh Hsafe Em Ec Hsl Hwf).
        * intros _. exists len, al, off. split; [exact El|]. split; [exact Hv | reflexivity].
      + destruct (Hf eq_refl) as (Hex & _).
        assert (Hmr : mask r <> 0) by (rewrite Em; exact Hm).
        assert (Elr : layout_for B tsize talign (nb T r) = Some (len, al, off)).
        { unfold nb, buckets in *. rewrite Em. exact El. }
        destruct (free_buckets_ok B T tsize talign r len al off Hmr Elr) as [Hfree _].
        rewrite Hfree. cbn [bind app].
        exists None, [EvAlloc len al; EvFree len al]. split; [reflexivity|].
        split; [discriminate|]. split; [intros _; split; [exact Hm | exact Hex]|].
        split; [contradiction|].
        intros _. exists len, al, off. split; [exact El|]. split; [exact Hv | reflexivity].
  Qed.

  (* every occupant clones: the clone is complete, exactly one allocation (none for the singleton) *)
  Corollary clone_table_ok (src : table T) : SafeWF B T src -> TOwn B T tsize talign src ->
    (forall e, In e (occupants T src) -> clone_of e <> None) ->
    exists r evs, clone_table B T tsize talign clone_of src = Ok (Some r, evs) /\
      SafeWF B T r /\ TOwn B T tsize talign r /\ CloneOf src r /\
      (mask src = 0 -> evs = []) /\
      (mask src <> 0 -> exists len al off, layout_for B tsize talign (nb T src) = Some (len, al, off) /\
                                       ValidLayout len al /\ evs = [EvAlloc len al]).
  Proof.
    intros H HO Hall. destruct (clone_table_spec src H HO) as (res & evs & E & Hs & Hn & He0 & He1).
    destruct res as [r|].
    - exists r, evs. split; [exact E|]. destruct (Hs r eq_refl) as (_ & H1 & H2 & H3).
      split; [exact H1|]. split; [exact H2|]. split; [exact H3|]. split; [exact He0 | exact He1].
    - exfalso. destruct (Hn eq_refl) as (_ & e & He & Hc). exact (Hall e He Hc).
  Qed.

  (* a Clone panics: the half-built table is freed with the layout it was allocated with, and
     every clone made so far has been dropped -- nothing leaks; the source is an input only *)
  Corollary clone_table_panic (src : table T) : SafeWF B T src -> TOwn B T tsize talign src ->
    (exists e, In e (occupants T src) /\ clone_of e = None) ->
    exists len al off, layout_for B tsize talign (nb T src) = Some (len, al, off) /\ ValidLayout len al /\
      clone_table B T tsize talign clone_of src = Ok (None, [EvAlloc len al; EvFree len al]).
  Proof.
    intros H HO (e & He & Hc). destruct (clone_table_spec src H HO) as (res & evs & E & Hs & Hn & He0 & He1).
    destruct res as [r|].
    - exfalso. destruct (Hs r eq_refl) as (Hall & _). exact (Hall e He Hc).
    - destruct (Hn eq_refl) as (Hm & _). destruct (He1 Hm) as (len & al & off & El & Hv & ->).
      exists len, al, off. split; [exact El|]. split; [exact Hv | exact E].
  Qed.

  (* ---------------------------------------------------------------------------------------- *)
  (* L3: RawTable::clone_from                                                                   *)
  (* ---------------------------------------------------------------------------------------- *)
  (* the allocator event for the block of t: none for the singleton *)
  Definition block_ev (mk : Z -> Z -> event T) (t : table T) : list (event T) :=
    if mask t =? 0 then [] else
    match layout_for B tsize talign (nb T t) with
    | Some (len, al, _) => [mk len al]
    | None => []
    end.

  Lemma block_ev_singleton mk t : mask t = 0 -> block_ev mk t = [].
  Proof. intros E. unfold block_ev. rewrite E. reflexivity. Qed.

  Lemma block_ev_own mk t : SafeWF B T t -> TOwn B T tsize talign t -> mask t <> 0 ->
    exists len al off, layout_for B tsize talign (nb T t) = Some (len, al, off) /\ ValidLayout len al /\
      block_ev mk t = [mk len al].
  Proof.
    intros H HO Hm. destruct (own_layout t H HO Hm) as (len & al & off & El & Hv).
    exists len, al, off. split; [exact El|]. split; [exact Hv|].
    unfold block_ev. destruct (Nat.eqb_spec (mask t) 0); [contradiction|]. rewrite El. reflexivity.
  Qed.

  (* allocator traffic of clone_from: none when the bucket counts agree; otherwise the new
     block (if the source is not the singleton) is allocated, then the old block (if self is
     not the singleton) is freed with its own layout *)
  Definition realloc_evs (self src : table T) : list (event T) :=
    if nb T self =? nb T src then [] else block_ev EvAlloc src ++ block_ev EvFree self.

  (* every old occupant dropped exactly once, in bucket order (nothing to run without drop glue) *)
  Definition all_drops (self : table T) : list (event T) :=
    if needs_drop then map EvDrop (occupants T self) else [].

  Lemma all_drops_prefix self : drops_prefix T (all_drops self) (occupants T self).
  Proof.
    unfold all_drops. destruct needs_drop.
    - exists (occupants T self). split; [reflexivity|]. rewrite firstn_all. reflexivity.
    - apply drops_prefix_nil.
  Qed.

  Lemma map_EvDrop_inj (l1 l2 : list T) : map (@EvDrop T) l1 = map (@EvDrop T) l2 -> l1 = l2.
  Proof.
    revert l2. induction l1 as [|a l1 IH]; intros [|b l2] H; try discriminate; [reflexivity|].
    cbn [map] in H. injection H as -> H. rewrite (IH l2 H). reflexivity.
  Qed.

  (* the last element of a dropped prefix is an occupant *)
  Lemma drops_prefix_last (l : list T) e occ0 :
    drops_prefix T (map EvDrop (l ++ [e])) occ0 -> In e occ0.
  Proof.
    intros (l' & E & Hl'). apply map_EvDrop_inj in E. subst l'.
    assert (Hin : In e (firstn (length (l ++ [e])) occ0)).
    { rewrite <- Hl'. apply in_or_app. right. left. reflexivity. }
    clear Hl'. revert Hin. generalize (length (l ++ [e])). intros n. revert occ0.
    induction n as [|n IH]; intros occ1; [intros []|].
    destruct occ1 as [|x occ1]; cbn [firstn]; [intros []|].
    intros [->|Hin]; [left; reflexivity | right; exact (IH occ1 Hin)].
  Qed.

  Definition DropPanicked (self : table T) (evs : list (event T)) : Prop :=
    needs_drop = true /\ drops_prefix T evs (occupants T self) /\
    exists l e, evs = map EvDrop (l ++ [e]) /\ In e (occupants T self) /\ drop_ok e = false.

  Theorem clone_from_spec (self src : table T) :
    SafeWF B T self -> TOwn B T tsize talign self -> SafeWF B T src -> TOwn B T tsize talign src ->
    exists r evs unw, clone_from B T tsize talign needs_drop drop_ok clone_of self src = Ok (r, evs, unw) /\
      SafeWF B T r /\ TOwn B T tsize talign r /\
      (unw = false ->
         (forall e, In e (occupants T src) -> clone_of e <> None) /\
         CloneOf src r /\
         evs = all_drops self ++ realloc_evs self src) /\
      (unw = true ->
         occupants T r = [] /\ items r = 0%Z /\
         ((* a destructor panicked: the elements after it are leaked, none is dropped twice *)
          (DropPanicked self evs /\ (mask r = mask self \/ mask r = mask src)) \/
          (* a Clone panicked: all old elements were dropped, the clones made so far too *)
          ((exists e, In e (occupants T src) /\ clone_of e = None) /\ mask src <> 0 /\ mask r = mask src /\
           evs = all_drops self ++ realloc_evs self src))).
  Proof.
    intros Hs HOs Hsrc HOsrc. unfold clone_from, is_singleton.
    destruct (Nat.eqb_spec (mask src) 0) as [Hm0|Hm].
    - (* the source is the singleton *)
      pose proof (safe_singleton B T src Hsrc Hm0) as Es. subst src.
      destruct (drop_inner_table_spec B T HW HB tsize talign Hts Hta needs_drop drop_ok self Hs HOs)
        as (evs & ok & E & H0 & H1).
      rewrite E. cbn [bind].
      exists (new_table B T), evs, (negb ok). split; [reflexivity|].
      split; [apply new_table_safe|]. split; [apply TOwn_new_table|].
      destruct (Nat.eq_dec (mask self) 0) as [Hms|Hms].
      + destruct (H0 Hms) as (-> & ->). cbn [negb]. split; [|discriminate]. intros _.
        split; [intros e []|]. split; [apply CloneOf_singleton|].
        pose proof (safe_singleton B T self Hs Hms) as Eself. subst self.
        unfold all_drops, realloc_evs. rewrite new_table_occupants.
        destruct needs_drop; reflexivity.
      + destruct (H1 Hms) as (len & al & off & dr & El & Hv & Hpre & Hall & Htriv & Hfail & Hevs).
        destruct ok; cbn [negb]; [split; [|discriminate] | split; [discriminate|]]; intros _.
        * split; [intros e []|]. split; [apply CloneOf_singleton|].
          subst evs. f_equal.
          -- unfold all_drops. destruct needs_drop; [apply Hall; reflexivity|].
             destruct (Htriv (or_introl eq_refl)) as (-> & _). reflexivity.
          -- unfold realloc_evs, nb, buckets. cbn [mask new_table].
             destruct (Nat.eqb_spec (S (mask self)) 1) as [Hc|_]; [lia|].
             rewrite (block_ev_singleton EvAlloc (new_table B T) eq_refl). cbn [app].
             destruct (block_ev_own EvFree self Hs HOs Hms) as (len' & al' & off' & El' & _ & ->).
             change (nb T self) with (S (mask self)) in El, El'. congruence.
        * subst evs. split; [reflexivity|]. split; [reflexivity|]. left.
          destruct (Hfail eq_refl) as (l & e & Edr & Hde).
          split; [|right; reflexivity].
          split; [destruct needs_drop; [reflexivity|]; destruct (Htriv (or_introl eq_refl)); discriminate|].
          split; [exact Hpre|]. exists l, e. split; [exact Edr|]. split; [|exact Hde].
          rewrite Edr in Hpre. exact (drops_prefix_last l e _ Hpre).
    - (* the source owns a block *)
      destruct (SafeWF_alloc B T src Hsrc Hm) as (HSsrc & _). pose proof HSsrc as (_ & Hlcsrc & Hlssrc & _).
      destruct (drop_elements_spec B T HW HB needs_drop drop_ok self Hs) as
        (s1 & evs1 & ok & E & Em1 & Ec1 & Ei1 & Eg1 & El1 & Hpre & Hall & Hfail & _ & Htriv).
      rewrite E. cbn [bind]. destruct ok; cbn [negb].
      2:{ (* a destructor panicked *)
        destruct (Hfail eq_refl) as (Hnd & Hi & l & e & Eev & Hde).
        pose proof (safe_items_nz_mask B T self Hs Hi) as Hms.
        destruct (SafeWF_alloc B T self Hs Hms) as (HSself & _).
        destruct (Shape_Geometry B T self HSself) as (G1 & G2 & G3).
        assert (HG : Geometry B T s1).
        { unfold Geometry, nb, buckets in *. rewrite Em1, Ec1, El1. split; [exact G1 | split; assumption]. }
        destruct (clear_no_drop_geometry B T s1 HG) as (S1 & S2 & S3 & S4 & _).
        exists (clear_no_drop T s1), evs1, true. split; [reflexivity|]. split; [exact S1|].
        split; [apply (TOwn_same_mask B T tsize talign self); [congruence | exact HOs]|].
        split; [discriminate|]. intros _. split; [exact S4|]. split; [exact S3|]. left.
        split; [|left; congruence].
        split; [exact Hnd|]. split; [exact Hpre|]. exists l, e. split; [exact Eev|]. split; [|exact Hde].
        rewrite Eev in Hpre. exact (drops_prefix_last l e _ Hpre). }
      (* every old element has been dropped *)
      assert (Eevs1 : evs1 = all_drops self).
      { unfold all_drops. destruct needs_drop; [apply Hall; reflexivity|].
        destruct (Htriv (or_introl eq_refl)) as (_ & -> & _). reflexivity. }
      (* the destination block *)
      assert (Hr : exists s2 evs2,
        (if buckets T s1 =? buckets T src then Ok (s1, [])
         else a <- new_uninitialized B T tsize talign (buckets T src) false Infallible;;
              match a with
              | (Some nt, evs, _) =>
                  fr <- (if mask s1 =? 0 then Ok [] else free_buckets B T tsize talign s1);;
                  Ok (nt, evs ++ fr)
              | (None, _, _) => Fail UB_unreachable
              end) = Ok (s2, evs2) /\
        mask s2 = mask src /\ length (ctrl s2) = length (ctrl src) /\ length (slots s2) = nb T src /\
        evs2 = realloc_evs self src).
      { unfold realloc_evs. change (nb T self) with (S (mask self)). change (nb T src) with (S (mask src)).
        unfold buckets. rewrite Em1.
        destruct (Nat.eqb_spec (S (mask self)) (S (mask src))) as [Eb|Nb].
        - injection Eb as Eb. exists s1, []. split; [reflexivity|].
          assert (Hms : mask self <> 0) by (rewrite Eb; exact Hm).
          destruct (SafeWF_alloc B T self Hs Hms) as ((_ & G2 & G3 & _) & _).
          unfold nb, buckets in *.
          split; [congruence|]. split; [rewrite Ec1, G2, Hlcsrc, Eb; reflexivity|].
          split; [rewrite El1, G3, Eb; reflexivity | reflexivity].
        - destruct (block_ev_own EvAlloc src Hsrc HOsrc Hm) as (len & al & off & El & _ & ->).
          change (S (mask src)) with (nb T src).
          rewrite (new_uninit_ok (nb T src) len al off Infallible El). cbn [bind].
          set (nt := mkTable (nb T src - 1) (repeat POISON (nb T src + GW)) (repeat None (nb T src)) 0%Z
                             (z_cap (nb T src - 1))).
          assert (Hnt : mask nt = mask src /\ length (ctrl nt) = length (ctrl src) /\
                        length (slots nt) = nb T src).
          { unfold nt. cbn [mask ctrl slots]. rewrite !repeat_length.
            split; [unfold nb, buckets; lia|]. split; [symmetry; exact Hlcsrc | reflexivity]. }
          destruct (Nat.eqb_spec (mask self) 0) as [Hs10|Hms].
          + cbn [bind]. exists nt, ([EvAlloc len al] ++ []). split; [reflexivity|].
            destruct Hnt as (N1 & N2 & N3). split; [exact N1|]. split; [exact N2|]. split; [exact N3|].
            rewrite (block_ev_singleton EvFree self Hs10). reflexivity.
          + assert (Hs1 : mask s1 <> 0) by congruence.
            destruct (block_ev_own EvFree self Hs HOs Hms) as (len' & al' & off' & El' & _ & ->).
            assert (El1' : layout_for B tsize talign (nb T s1) = Some (len', al', off')).
            { unfold nb, buckets in *. rewrite Em1. exact El'. }
            destruct (free_buckets_ok B T tsize talign s1 len' al' off' Hs1 El1') as [Hfree _].
            rewrite Hfree. cbn [bind]. exists nt, ([EvAlloc len al] ++ [EvFree len' al']).
            split; [reflexivity|].
            destruct Hnt as (N1 & N2 & N3). split; [exact N1|]. split; [exact N2|]. split; [exact N3|].
            reflexivity. }
      destruct Hr as (s2 & evs2 & Er & Em2 & Elc2 & Els2 & Eevs2).
      rewrite Er. cbn [bind].
      destruct (clone_from_impl_spec src s2 Hsrc Hm Em2 Elc2 Els2) as (s3 & ok2 & E3 & Em3 & Ec3 & Els3 & Ht & Hf).
      rewrite E3. cbn [bind]. destruct ok2.
      + destruct (Ht eq_refl) as (Hclone & Ei & Eg & Hsafe & Hsl & HF).
        exists s3, (evs1 ++ evs2), false. split; [reflexivity|]. split; [exact Hsafe|].
        split; [exact (TOwn_same_mask B T tsize talign src s3 Em3 HOsrc)|].
        split; [|discriminate]. intros _. split; [exact Hclone|].
        split; [|rewrite Eevs1, Eevs2; reflexivity].
        split; [exact Em3|]. split; [exact Ec3|]. split; [exact Ei|]. split; [exact Eg|].
        split; [exact Hsl|]. split; [exact HF|].
        intros h Hh Hwf. exact (clone_WF h src s3 Hh Hsafe Em3 Ec3 Hsl Hwf).
      + destruct (Hf eq_refl) as (Hex & _).
        assert (HG : Geometry B T s3).
        { unfold Geometry, nb, buckets in *. rewrite Em3, Ec3, Els3.
          split; [exact (Shape_MaskOK B T src HSsrc)|]. split; [exact Hlcsrc | reflexivity]. }
        destruct (clear_no_drop_geometry B T s3 HG) as (S1 & S2 & S3 & S4 & _).
        exists (clear_no_drop T s3), (evs1 ++ evs2), true. split; [reflexivity|]. split; [exact S1|].
        split; [apply (TOwn_same_mask B T tsize talign src); [congruence | exact HOsrc]|].
        split; [discriminate|]. intros _. split; [exact S4|]. split; [exact S3|]. right.
        split; [exact Hex|]. split; [exact Hm|]. split; [congruence|]. rewrite Eevs1, Eevs2. reflexivity.
  Qed.

  (* clone_from never fails, and it completes when no destructor and no Clone panics *)
  Corollary clone_from_ok (self src : table T) :
    SafeWF B T self -> TOwn B T tsize talign self -> SafeWF B T src -> TOwn B T tsize talign src ->
    (needs_drop = false \/ forall e, In e (occupants T self) -> drop_ok e = true) ->
    (forall e, In e (occupants T src) -> clone_of e <> None) ->
    exists r, clone_from B T tsize talign needs_drop drop_ok clone_of self src =
              Ok (r, all_drops self ++ realloc_evs self src, false) /\
      SafeWF B T r /\ TOwn B T tsize talign r /\ CloneOf src r.
  Proof.
    intros Hs HOs Hsrc HOsrc Hdrop Hclone.
    destruct (clone_from_spec self src Hs HOs Hsrc HOsrc) as (r & evs & unw & E & H1 & H2 & Hf & Ht).
    destruct unw.
    - exfalso. destruct (Ht eq_refl) as (_ & _ & [((Hnd & _ & l & e & _ & He & Hde) & _) | ((e & He & Hc) & _)]).
      + destruct Hdrop as [Hd|Hd]; [congruence|]. rewrite (Hd e He) in Hde. discriminate.
      + exact (Hclone e He Hc).
    - destruct (Hf eq_refl) as (_ & HC & ->). exists r. split; [exact E|].
      split; [exact H1|]. split; [exact H2 | exact HC].
  Qed.

  (* the drop events of clone_from, whatever happens: a prefix of self's occupants, each once *)
  Corollary clone_from_drops (self src : table T) r evs unw :
    SafeWF B T self -> TOwn B T tsize talign self -> SafeWF B T src -> TOwn B T tsize talign src ->
    clone_from B T tsize talign needs_drop drop_ok clone_of self src = Ok (r, evs, unw) ->
    exists dr af, evs = dr ++ af /\ drops_prefix T dr (occupants T self) /\
      (af = [] \/ af = realloc_evs self src).
  Proof.
    intros Hs HOs Hsrc HOsrc E.
    destruct (clone_from_spec self src Hs HOs Hsrc HOsrc) as (r' & evs' & unw' & E' & _ & _ & Hf & Ht).
    rewrite E in E'. injection E' as <- <- <-.
    destruct unw.
    - destruct (Ht eq_refl) as (_ & _ & [((_ & Hpre & _) & _) | (_ & _ & _ & ->)]).
      + exists evs, []. split; [rewrite app_nil_r; reflexivity|]. split; [exact Hpre | left; reflexivity].
      + exists (all_drops self), (realloc_evs self src). split; [reflexivity|].
        split; [apply all_drops_prefix | right; reflexivity].
    - destruct (Hf eq_refl) as (_ & _ & ->).
      exists (all_drops self), (realloc_evs self src). split; [reflexivity|].
      split; [apply all_drops_prefix | right; reflexivity].
  Qed.

  (* the allocator traffic, spelled out *)
  Lemma realloc_evs_same self src : nb T self = nb T src -> realloc_evs self src = [].
  Proof. intros E. unfold realloc_evs. rewrite E, Nat.eqb_refl. reflexivity. Qed.

  Lemma realloc_evs_diff self src :
    SafeWF B T self -> TOwn B T tsize talign self -> SafeWF B T src -> TOwn B T tsize talign src ->
    nb T self <> nb T src ->
    (mask src <> 0 -> mask self <> 0 ->
       exists len al off len' al' off',
         layout_for B tsize talign (nb T src) = Some (len, al, off) /\ ValidLayout len al /\
         layout_for B tsize talign (nb T self) = Some (len', al', off') /\ ValidLayout len' al' /\
         realloc_evs self src = [EvAlloc len al; EvFree len' al']) /\
    (mask src <> 0 -> mask self = 0 ->
       exists len al off, layout_for B tsize talign (nb T src) = Some (len, al, off) /\ ValidLayout len al /\
         realloc_evs self src = [EvAlloc len al]) /\
    (mask src = 0 ->
       exists len' al' off', layout_for B tsize talign (nb T self) = Some (len', al', off') /\
         ValidLayout len' al' /\ realloc_evs self src = [EvFree len' al']).
  Proof.
    intros Hs HOs Hsrc HOsrc Hne. unfold realloc_evs.
    destruct (Nat.eqb_spec (nb T self) (nb T src)) as [|_]; [contradiction|].
    split; [|split].
    - intros Hm Hms.
      destruct (block_ev_own EvAlloc src Hsrc HOsrc Hm) as (len & al & off & El & Hv & ->).
      destruct (block_ev_own EvFree self Hs HOs Hms) as (len' & al' & off' & El' & Hv' & ->).
      exists len, al, off, len', al', off'. repeat (split; [assumption|]). reflexivity.
    - intros Hm Hms.
      destruct (block_ev_own EvAlloc src Hsrc HOsrc Hm) as (len & al & off & El & Hv & ->).
      rewrite (block_ev_singleton EvFree self Hms).
      exists len, al, off. repeat (split; [assumption|]). reflexivity.
    - intros Hm0.
      assert (Hms : mask self <> 0) by (unfold nb, buckets in Hne; lia).
      destruct (block_ev_own EvFree self Hs HOs Hms) as (len' & al' & off' & El' & Hv' & ->).
      rewrite (block_ev_singleton EvAlloc src Hm0).
      exists len', al', off'. repeat (split; [assumption|]). reflexivity.
  Qed.
End CloneFacts.

Print Assumptions map_eq_spec.
Print Assumptions map_eq_sym.
Print Assumptions map_eq_perm.
Print Assumptions clone_from_impl_spec.
Print Assumptions clone_from_impl_ok_iff.
Print Assumptions clone_from_impl_ok.
Print Assumptions clone_from_impl_panic.
Print Assumptions clone_table_spec.
Print Assumptions clone_table_ok.
Print Assumptions clone_table_panic.
Print Assumptions clone_from_spec.
Print Assumptions clone_from_ok.
Print Assumptions clone_from_drops.
Print Assumptions realloc_evs_diff.

(* ---------------------------------------------------------------------------------------- *)
(* a clone compares equal to its source                                                       *)
(* ---------------------------------------------------------------------------------------- *)
Lemma Forall2_same_keys (R : kv -> kv -> Prop) (a b : list kv) :
  (forall e c, R e c -> k_id c = k_id e /\ v_val c = v_val e) ->
  Forall2 R a b -> map k_id b = map k_id a /\ same_kv a b.
Proof.
  intros HR H. induction H as [|e c a b Hec H IH].
  - split; [reflexivity | intros k; reflexivity].
  - destruct IH as [IHk IHs]. destruct (HR e c Hec) as [Ek Ev]. split.
    + cbn [map]. rewrite Ek, IHk. reflexivity.
    + intros k. cbn [lookup]. rewrite Ek. destruct (Z.eqb (k_id e) k).
      * cbn [option_map]. rewrite Ev. reflexivity.
      * apply IHs.
Qed.

Theorem clone_compares_equal B (clone_of : kv -> option kv) (src r : table kv) :
  (forall e c, clone_of e = Some c -> k_id c = k_id e /\ v_val c = v_val e) ->
  CloneOf B kv clone_of src r -> NoDup (map k_id (occupants kv src)) ->
  map_eq (occupants kv src) (occupants kv r) = true /\ map_eq (occupants kv r) (occupants kv src) = true.
Proof.
  intros HR HC ND. destruct HC as (_ & _ & _ & _ & _ & HF & _).
  destruct (Forall2_same_keys (Cloned kv clone_of) _ _ HR HF) as [Ek Es].
  assert (ND' : NoDup (map k_id (occupants kv r))) by (rewrite Ek; exact ND).
  assert (E : map_eq (occupants kv src) (occupants kv r) = true) by (apply map_eq_spec; assumption).
  split; [exact E|]. rewrite map_eq_sym; assumption.
Qed.
