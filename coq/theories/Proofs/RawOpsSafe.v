(* RawOpsSafe.v -- the composite operations of RawTable: reserve_rehash, reserve, try_reserve,
   find_or_find_insert_slot, insert, shrink_to.

   For a SafeWF table that is the singleton or owns its block (TOwn), an ARBITRARY hasher (it may
   panic on any element) and the repaired rehash guard:

     S1  reserve_rehash_spec            the complete case analysis of reserve_rehash_inner
     S2  reserve_spec / try_reserve_spec, reserve_capacity (C08)
     S4  find_or_find_insert_slot_spec  reserve(1) then probe
     S3  insert_spec                    RawTable::insert, no allocation when there is room (C08)
     S5  shrink_to_spec                 never enlarges, never drops below max(len, min(min_size, capacity))

   The only failures are the two documented library panics of the Infallible mode
   (capacity overflow, allocation abort); SafeWF and TOwn are preserved; the contents are preserved
   up to permutation, or shrink to a sub-multiset when the hasher panics.  No axioms. *)
From Coq Require Import ZArith List Bool Lia Permutation.
From HB Require Import RsPrelude Sse2 Gen Group Raw Check ArithFacts Triangular WFDefs GroupFacts
  ProbeFacts IterFacts SafeInsertErase SafeAllocClear FindFacts ResizeFacts RehashSafe WFInsertRemove.
Import ListNotations.
Open Scope nat_scope.

Section RawOps.
  Variable B : backend.
  Variable T : Type.
  Hypothesis HW : WidthOK B.
  Hypothesis HB : BackendSpec B.

  Variable tsize talign : Z.
  Hypothesis Hts : (0 <= tsize < 2 ^ 64)%Z.
  Hypothesis Hta : exists a : Z, (0 <= a <= 62)%Z /\ talign = (2 ^ a)%Z.

  Variable needs_drop : bool.
  Variable drop_ok : T -> bool.
  Variable hasher : T -> option Z.

  Local Notation GW := (bk_width B).

  (* the table is the static singleton, or owns a block whose layout is the one computed from
     its number of buckets *)
  Definition TOwn (t : table T) : Prop := mask t = 0 \/ Allocated B T tsize talign t.

  Lemma TOwn_new_table : TOwn (new_table B T).
  Proof. left. reflexivity. Qed.

  Lemma TOwn_same_mask t t' : mask t' = mask t -> TOwn t -> TOwn t'.
  Proof.
    intros Em [H|H]; [left; congruence|right; exact (Allocated_same_mask B T tsize talign t t' Em H)].
  Qed.

  Lemma TOwn_allocated t : TOwn t -> mask t <> 0 -> Allocated B T tsize talign t.
  Proof. intros [H|H] Hm; [contradiction|exact H]. Qed.

  (* ---------------------------------------------------------------------------------------- *)
  (* small facts                                                                                *)
  (* ---------------------------------------------------------------------------------------- *)
  Lemma GW_pos : 0 < GW.
  Proof. destruct HW as [H|H]; rewrite H; lia. Qed.

  Lemma safe_singleton t : SafeWF B T t -> mask t = 0 -> t = new_table B T.
  Proof. unfold SafeWF. intros H E. rewrite E in H. exact H. Qed.

  Lemma growth_pos_mask t : SafeWF B T t -> (0 < growth_left t)%Z -> mask t <> 0.
  Proof. intros H Hg E. rewrite (safe_singleton t H E) in Hg. cbn in Hg. lia. Qed.

  Lemma half_le a : (0 <= a)%Z -> (0 <= a / 2 <= a)%Z.
  Proof.
    intros Ha. pose proof (Z.div_pos a 2 Ha ltac:(lia)). pose proof (Z.mul_div_le a 2 ltac:(lia)). lia.
  Qed.

  (* ---------------------------------------------------------------------------------------- *)
  (* S1: reserve_rehash                                                                         *)
  (* ---------------------------------------------------------------------------------------- *)
  (* the events of a completed reserve: nothing at all (rehash in place, same block), or one
     allocation -- with the layout of the NEW table's bucket count -- followed by the
     deallocation of t's own block (if it has one) *)
  Definition ReserveEvs (t t' : table T) (evs : list (event T)) : Prop :=
    (evs = [] /\ mask t' = mask t) \/
    (exists len al off fevs,
       layout_for B tsize talign (nb T t') = Some (len, al, off) /\ ValidLayout len al /\
       evs = EvAlloc len al :: fevs /\ FreeOld B T tsize talign t fevs).

  (* what a panicking hasher leaves behind *)
  Definition ReserveUnwind (t t' : table T) (evs : list (event T)) : Prop :=
    (exists e, In e (occupants T t) /\ hasher e = None) /\
    ((* in place: the guard removed (and dropped, if T needs it) the elements not yet rehashed *)
     (mask t' = mask t /\
      exists dropped, Permutation (occupants T t) (occupants T t' ++ dropped) /\
        evs = (if needs_drop then map EvDrop dropped else []) /\
        items t' = (items t - zn (length dropped))%Z) \/
     (* resize: nothing changed, the new block was freed again *)
     (t' = t /\ exists len al, evs = [EvAlloc len al; EvFree len al] /\ ValidLayout len al)).

  (* the request cannot be represented *)
  Definition CapOverflow (t : table T) (additional : Z) : Prop :=
    (2 ^ 64 <= items t + additional)%Z \/
    overflow_cond B tsize talign (Z.max (items t + additional) (z_cap (mask t) + 1)).

  Definition reserve_post (t : table T) (additional : Z) (alloc_refuses : bool) (f : fallibility)
             (r : res (table T * list (event T) * try_result * bool)) : Prop :=
    match r with
    | Ok (t', evs, TR_ok, false) =>
        SafeWF B T t' /\ TOwn t' /\
        Permutation (occupants T t') (occupants T t) /\ items t' = items t /\
        (additional <= growth_left t')%Z /\ ReserveEvs t t' evs
    | Ok (t', evs, TR_ok, true) =>
        SafeWF B T t' /\ TOwn t' /\ ReserveUnwind t t' evs
    | Ok (t', evs, TR_capacity_overflow, unw) =>
        unw = false /\ t' = t /\ evs = [] /\ f = Fallible /\ CapOverflow t additional
    | Ok (t', evs, TR_alloc_error len al, unw) =>
        unw = false /\ t' = t /\ evs = [] /\ f = Fallible /\ alloc_refuses = true /\ ValidLayout len al
    | Fail PanicCapacityOverflow => f = Infallible /\ CapOverflow t additional
    | Fail AbortAlloc => f = Infallible /\ alloc_refuses = true
    | Fail _ => False
    end.

  Theorem reserve_rehash_spec t additional alloc_refuses f :
    SafeWF B T t -> TOwn t -> (0 <= additional < 2 ^ 64)%Z -> (growth_left t < additional)%Z ->
    reserve_post t additional alloc_refuses f
      (reserve_rehash B T tsize talign needs_drop hasher true t additional alloc_refuses f).
  Proof.
    intros Hsafe HA Hadd Hgl.
    destruct (safe_counts B T t Hsafe) as (Hi0 & Hg0 & Hsum & Hcapnb & Hnb62).
    unfold reserve_rehash, reserve_rehash_new_items, checked_add.
    destruct (Z.ltb_spec (items t + additional) (2 ^ 64)) as [Hlt|Hge].
    2:{ destruct f; cbn [capacity_overflow bind reserve_post].
        - repeat (split; [reflexivity|]). left. exact Hge.
        - split; [reflexivity|]. left. exact Hge. }
    change (reserve_rehash_full_capacity (zn (mask t))) with (z_cap (mask t)).
    rewrite (reserve_rehash_in_place_char (items t + additional) (z_cap (mask t))) by lia.
    unfold reserve_rehash_resize_target.
    assert (Hzc0 : (0 <= z_cap (mask t))%Z) by lia.
    destruct (Z.leb_spec (items t + additional) (z_cap (mask t) / 2)) as [Hle|Hgt].
    - (* rehash in place *)
      pose proof (half_le _ Hzc0) as Hhalf.
      assert (Hm : mask t <> 0).
      { intros E. rewrite E in Hle. change (z_cap 0 / 2)%Z with 0%Z in Hle. lia. }
      destruct (rehash_in_place_safe B T HW HB needs_drop hasher t Hsafe Hm)
        as (t' & evs & unw & E & HW' & Em & Hok & Hunw & Hfail).
      rewrite E. cbn [bind].
      assert (HA' : TOwn t') by exact (TOwn_same_mask t t' Em HA).
      destruct unw; cbn [reserve_post].
      + split; [exact HW'|]. split; [exact HA'|]. split; [exact (Hfail eq_refl)|].
        left. split; [exact Em|]. exact (Hunw eq_refl).
      + destruct (Hok eq_refl) as (-> & P & Eit & Egl & _).
        split; [exact HW'|]. split; [exact HA'|]. split; [exact P|]. split; [exact Eit|].
        split; [lia|]. left. split; [reflexivity|exact Em].
    - (* resize *)
      assert (Ew : wadd 64 (z_cap (mask t)) 1 = (z_cap (mask t) + 1)%Z).
      { unfold wadd. apply wrap_small. rewrite two_p_62 in Hnb62. rewrite two_p_64. lia. }
      rewrite Ew.
      set (cap := Z.max (items t + additional) (z_cap (mask t) + 1)).
      assert (Hcap : (items t <= cap < 2 ^ 64)%Z).
      { unfold cap. rewrite two_p_62 in Hnb62. rewrite two_p_64 in *. lia. }
      pose proof (resize_inner_spec B T HW HB tsize talign Hts Hta hasher t cap alloc_refuses f Hsafe HA Hcap) as H.
      destruct (resize_inner B T tsize talign hasher t cap alloc_refuses f) as [[[[t' evs] tr] unw]|er].
      + destruct tr as [| |len al]; cbn [resize_post reserve_post] in *.
        * destruct unw.
          -- destruct H as (-> & Hex & _ & _ & len & al & Eevs & Hv).
             split; [exact Hsafe|]. split; [exact HA|]. split; [exact Hex|].
             right. split; [reflexivity|]. exists len, al. split; assumption.
          -- destruct H as (_ & (Hs' & _) & Hperm & Hit & Hc & _ & _ & aevs & fevs & Eevs & HAl & Hfr).
             rewrite (capacity_eq B T t' Hs') in Hc.
             destruct HAl as [(Hc0 & _) | (_ & _ & HAl & _ & len & al & off & El & -> & Hv)]; [unfold cap in *; lia|].
             split; [exact Hs'|]. split; [right; exact HAl|]. split; [exact Hperm|]. split; [exact Hit|].
             split; [unfold cap in *; lia|].
             right. exists len, al, off, fevs. split; [exact El|]. split; [exact Hv|].
             split; [exact Eevs|exact Hfr].
        * destruct H as (H1 & H2 & H3 & H4 & H5). repeat (split; [assumption|]). right. exact H5.
        * destruct H as (H1 & H2 & H3 & H4 & H5 & _ & H7). repeat (split; [assumption|]). exact H7.
      + destruct er; cbn [resize_post reserve_post] in *; try contradiction.
        * destruct H as (H1 & H2). split; [exact H1|]. right. exact H2.
        * destruct H as (H1 & H2 & _). split; assumption.
  Qed.

  (* ---- the same facts, in quantified form ---- *)
  Lemma ReserveUnwind_sub t t' evs : ReserveUnwind t t' evs ->
    (exists dropped, Permutation (occupants T t) (occupants T t' ++ dropped)) /\
    (exists e, In e (occupants T t) /\ hasher e = None).
  Proof.
    intros (Hex & [(_ & dropped & P & _) | (-> & _)]); (split; [|exact Hex]).
    - exists dropped. exact P.
    - exists []. rewrite app_nil_r. apply Permutation_refl.
  Qed.

  (* no destructor runs in a completed reserve; at most one allocation, then at most one
     deallocation, which is that of t's own block *)
  Lemma ReserveEvs_shape t t' evs : ReserveEvs t t' evs ->
    evs = [] \/
    exists len al, ValidLayout len al /\
      (evs = [EvAlloc len al] /\ mask t = 0 \/
       exists len0 al0 off0, evs = [EvAlloc len al; EvFree len0 al0] /\ mask t <> 0 /\
         layout_for B tsize talign (nb T t) = Some (len0, al0, off0) /\ ValidLayout len0 al0).
  Proof.
    intros [(-> & _) | (len & al & off & fevs & _ & Hv & -> & Hfr)]; [left; reflexivity|].
    right. exists len, al. split; [exact Hv|].
    destruct Hfr as [(Hm & ->) | (Hm & len0 & al0 & off0 & El0 & -> & Hv0)].
    - left. split; [reflexivity|exact Hm].
    - right. exists len0, al0, off0. repeat (split; [assumption || reflexivity|]). exact Hv0.
  Qed.

  Lemma ReserveEvs_same_mask t t1 t2 evs : mask t2 = mask t1 -> ReserveEvs t t1 evs -> ReserveEvs t t2 evs.
  Proof.
    intros Em [(-> & E) | (len & al & off & fevs & El & H)].
    - left. split; [reflexivity|congruence].
    - right. exists len, al, off, fevs. unfold nb, buckets in *. rewrite Em. split; [exact El|exact H].
  Qed.

  Lemma ReserveEvs_refl t : ReserveEvs t t [].
  Proof. left. split; reflexivity. Qed.

  Theorem reserve_post_ok t additional alloc_refuses f t' evs tr unw :
    SafeWF B T t -> TOwn t ->
    reserve_post t additional alloc_refuses f (Ok (t', evs, tr, unw)) ->
    SafeWF B T t' /\ TOwn t' /\
    (tr <> TR_ok ->
       f = Fallible /\ t' = t /\ evs = [] /\ unw = false /\
       match tr with
       | TR_alloc_error len al => alloc_refuses = true /\ ValidLayout len al
       | _ => CapOverflow t additional
       end) /\
    (tr = TR_ok -> unw = false ->
       Permutation (occupants T t') (occupants T t) /\ items t' = items t /\
       (additional <= growth_left t')%Z /\ ReserveEvs t t' evs) /\
    (unw = true ->
       tr = TR_ok /\ ReserveUnwind t t' evs /\
       (exists dropped, Permutation (occupants T t) (occupants T t' ++ dropped)) /\
       (exists e, In e (occupants T t) /\ hasher e = None)).
  Proof.
    intros Hsafe HA H. destruct tr as [| |len al]; cbn [reserve_post] in H.
    - destruct unw.
      + destruct H as (H1 & H2 & H3). split; [exact H1|]. split; [exact H2|].
        split; [intros C; contradiction|]. split; [discriminate|].
        intros _. split; [reflexivity|]. split; [exact H3|]. exact (ReserveUnwind_sub _ _ _ H3).
      + destruct H as (H1 & H2 & H3). split; [exact H1|]. split; [exact H2|].
        split; [intros C; contradiction|]. split; [intros _ _; exact H3|discriminate].
    - destruct H as (-> & -> & -> & -> & H5). split; [exact Hsafe|]. split; [exact HA|].
      split; [intros _; repeat (split; [reflexivity|]); exact H5|]. split; discriminate.
    - destruct H as (-> & -> & -> & -> & H5 & H6). split; [exact Hsafe|]. split; [exact HA|].
      split; [intros _; repeat (split; [reflexivity|]); split; assumption|]. split; discriminate.
  Qed.

  Corollary reserve_rehash_fail t additional alloc_refuses f er :
    SafeWF B T t -> TOwn t -> (0 <= additional < 2 ^ 64)%Z -> (growth_left t < additional)%Z ->
    reserve_rehash B T tsize talign needs_drop hasher true t additional alloc_refuses f = Fail er ->
    f = Infallible /\
    ((er = PanicCapacityOverflow /\ CapOverflow t additional) \/ (er = AbortAlloc /\ alloc_refuses = true)).
  Proof.
    intros Hsafe HA Hadd Hgl E.
    pose proof (reserve_rehash_spec t additional alloc_refuses f Hsafe HA Hadd Hgl) as H.
    rewrite E in H. destruct er; cbn [reserve_post] in H; try contradiction.
    - destruct H as (H1 & H2). split; [exact H1|]. left. split; [reflexivity|exact H2].
    - destruct H as (H1 & H2). split; [exact H1|]. right. split; [reflexivity|exact H2].
  Qed.

  (* ---------------------------------------------------------------------------------------- *)
  (* S2: reserve, try_reserve                                                                   *)
  (* ---------------------------------------------------------------------------------------- *)
  Local Notation RESERVE t a ar := (reserve B T tsize talign needs_drop hasher true t a ar).
  Local Notation TRY_RESERVE t a ar := (try_reserve B T tsize talign needs_drop hasher true t a ar).

  Lemma reserve_post_noop t additional alloc_refuses f :
    SafeWF B T t -> TOwn t -> (additional <= growth_left t)%Z ->
    reserve_post t additional alloc_refuses f (Ok (t, [], TR_ok, false)).
  Proof.
    intros Hsafe HA Hle. cbn [reserve_post]. split; [exact Hsafe|]. split; [exact HA|].
    split; [apply Permutation_refl|]. split; [reflexivity|]. split; [exact Hle|apply ReserveEvs_refl].
  Qed.

  Theorem reserve_spec t additional alloc_refuses :
    SafeWF B T t -> TOwn t -> (0 <= additional < 2 ^ 64)%Z ->
    reserve_post t additional alloc_refuses Infallible (RESERVE t additional alloc_refuses) /\
    (forall t' evs tr unw, RESERVE t additional alloc_refuses = Ok (t', evs, tr, unw) -> tr = TR_ok) /\
    ((additional <= growth_left t)%Z -> RESERVE t additional alloc_refuses = Ok (t, [], TR_ok, false)).
  Proof.
    intros Hsafe HA Hadd. unfold reserve.
    destruct (Z.gtb_spec additional (growth_left t)) as [Hgt|Hle].
    - pose proof (reserve_rehash_spec t additional alloc_refuses Infallible Hsafe HA Hadd Hgt) as H.
      destruct (reserve_rehash B T tsize talign needs_drop hasher true t additional alloc_refuses Infallible)
        as [[[[t' evs] tr] unw]|er]; cbn [bind].
      + destruct tr as [| |len al]; cbn [reserve_post] in H.
        * split; [exact H|]. split; [|intros C; lia]. intros ? ? ? ? E. congruence.
        * destruct H as (_ & _ & _ & C & _). discriminate C.
        * destruct H as (_ & _ & _ & C & _). discriminate C.
      + split; [exact H|]. split; [discriminate|intros C; lia].
    - split; [exact (reserve_post_noop t additional alloc_refuses Infallible Hsafe HA Hle)|].
      split; [intros ? ? ? ? E; congruence|reflexivity].
  Qed.

  Theorem try_reserve_spec t additional alloc_refuses :
    SafeWF B T t -> TOwn t -> (0 <= additional < 2 ^ 64)%Z ->
    reserve_post t additional alloc_refuses Fallible (TRY_RESERVE t additional alloc_refuses) /\
    (exists r, TRY_RESERVE t additional alloc_refuses = Ok r) /\
    ((additional <= growth_left t)%Z -> TRY_RESERVE t additional alloc_refuses = Ok (t, [], TR_ok, false)).
  Proof.
    intros Hsafe HA Hadd. unfold try_reserve.
    destruct (Z.gtb_spec additional (growth_left t)) as [Hgt|Hle].
    - pose proof (reserve_rehash_spec t additional alloc_refuses Fallible Hsafe HA Hadd Hgt) as H.
      split; [exact H|]. split; [|intros C; lia].
      destruct (reserve_rehash B T tsize talign needs_drop hasher true t additional alloc_refuses Fallible)
        as [r|er]; [exists r; reflexivity|].
      destruct er; cbn [reserve_post] in H; try contradiction; destruct H as (C & _); discriminate C.
    - split; [exact (reserve_post_noop t additional alloc_refuses Fallible Hsafe HA Hle)|].
      split; [eexists; reflexivity|reflexivity].
  Qed.

  (* the only failures of reserve: the two documented panics; UB_unreachable is unreachable *)
  Corollary reserve_fail t additional alloc_refuses er :
    SafeWF B T t -> TOwn t -> (0 <= additional < 2 ^ 64)%Z ->
    RESERVE t additional alloc_refuses = Fail er ->
    (er = PanicCapacityOverflow /\ CapOverflow t additional) \/ (er = AbortAlloc /\ alloc_refuses = true).
  Proof.
    intros Hsafe HA Hadd E. destruct (reserve_spec t additional alloc_refuses Hsafe HA Hadd) as (H & _).
    rewrite E in H. destruct er; cbn [reserve_post] in H; try contradiction.
    - left. split; [reflexivity|exact (proj2 H)].
    - right. split; [reflexivity|exact (proj2 H)].
  Qed.

  (* C08: after a completed reserve / try_reserve the room asked for is there *)
  Lemma reserve_post_capacity t additional alloc_refuses f t' evs :
    reserve_post t additional alloc_refuses f (Ok (t', evs, TR_ok, false)) ->
    (items t' + additional <= capacity T t')%Z /\ items t' = items t /\
    Permutation (occupants T t') (occupants T t).
  Proof.
    cbn [reserve_post]. intros (Hs' & _ & P & Eit & Hgl & _).
    rewrite (capacity_eq B T t' Hs'). split; [lia|]. split; assumption.
  Qed.

  Corollary reserve_capacity t additional alloc_refuses t' evs :
    SafeWF B T t -> TOwn t -> (0 <= additional < 2 ^ 64)%Z ->
    RESERVE t additional alloc_refuses = Ok (t', evs, TR_ok, false) ->
    (items t' + additional <= capacity T t')%Z /\ items t' = items t /\
    Permutation (occupants T t') (occupants T t).
  Proof.
    intros Hsafe HA Hadd E. destruct (reserve_spec t additional alloc_refuses Hsafe HA Hadd) as (H & _).
    rewrite E in H. exact (reserve_post_capacity _ _ _ _ _ _ H).
  Qed.

  Corollary try_reserve_capacity t additional alloc_refuses t' evs :
    SafeWF B T t -> TOwn t -> (0 <= additional < 2 ^ 64)%Z ->
    TRY_RESERVE t additional alloc_refuses = Ok (t', evs, TR_ok, false) ->
    (items t' + additional <= capacity T t')%Z /\ items t' = items t /\
    Permutation (occupants T t') (occupants T t).
  Proof.
    intros Hsafe HA Hadd E. destruct (try_reserve_spec t additional alloc_refuses Hsafe HA Hadd) as (H & _).
    rewrite E in H. exact (reserve_post_capacity _ _ _ _ _ _ H).
  Qed.

  (* C12: an error code of try_reserve means that nothing happened *)
  Corollary try_reserve_error t additional alloc_refuses t' evs tr unw :
    SafeWF B T t -> TOwn t -> (0 <= additional < 2 ^ 64)%Z ->
    TRY_RESERVE t additional alloc_refuses = Ok (t', evs, tr, unw) -> tr <> TR_ok ->
    t' = t /\ evs = [] /\ unw = false /\
    match tr with
    | TR_alloc_error len al => alloc_refuses = true /\ ValidLayout len al
    | _ => CapOverflow t additional
    end.
  Proof.
    intros Hsafe HA Hadd E Htr. destruct (try_reserve_spec t additional alloc_refuses Hsafe HA Hadd) as (H & _).
    rewrite E in H. destruct (reserve_post_ok _ _ _ _ _ _ _ _ Hsafe HA H) as (_ & _ & Herr & _).
    destruct (Herr Htr) as (_ & H1 & H2 & H3 & H4). repeat (split; [assumption|]). exact H4.
  Qed.

  (* ---------------------------------------------------------------------------------------- *)
  (* S4: find_or_find_insert_slot (reserve(1), then probe)                                      *)
  (* ---------------------------------------------------------------------------------------- *)
  (* the callback is pure: pure_eq P = fun e => Ok (P e) *)
  Definition foi_common (t t1 : table T) (evs : list (event T)) : Prop :=
    SafeWF B T t1 /\ TOwn t1 /\
    Permutation (occupants T t1) (occupants T t) /\ items t1 = items t /\
    (0 < growth_left t1)%Z /\ mask t1 <> 0 /\ ReserveEvs t t1 evs /\
    ((0 < growth_left t)%Z -> t1 = t /\ evs = []).

  Definition foi_post (t : table T) (P : T -> bool) (alloc_refuses : bool)
             (r : res (table T * list (event T) * bool * option (nat + nat))) : Prop :=
    match r with
    | Ok (t1, evs, false, Some (inl i)) =>
        foi_common t t1 evs /\ i < nb T t1 /\ exists e, slot T t1 i = Some e /\ P e = true
    | Ok (t1, evs, false, Some (inr s)) =>
        foi_common t t1 evs /\ s < nb T t1 /\ is_special (byte T t1 s) = true
    | Ok (t1, evs, false, None) => False
    | Ok (t1, evs, true, r) =>
        r = None /\ SafeWF B T t1 /\ TOwn t1 /\ ReserveUnwind t t1 evs
    | Fail PanicCapacityOverflow => CapOverflow t 1
    | Fail AbortAlloc => alloc_refuses = true
    | Fail _ => False
    end.

  Theorem find_or_find_insert_slot_spec t hash P alloc_refuses :
    SafeWF B T t -> TOwn t ->
    foi_post t P alloc_refuses
      (find_or_find_insert_slot B T tsize talign needs_drop hasher true t hash (pure_eq P) alloc_refuses).
  Proof.
    intros Hsafe HA. unfold find_or_find_insert_slot.
    assert (H1 : (0 <= 1 < 2 ^ 64)%Z) by (rewrite two_p_64; lia).
    destruct (reserve_spec t 1 alloc_refuses Hsafe HA H1) as (H & Htr & Hnoop).
    destruct (RESERVE t 1 alloc_refuses) as [[[[t1 evs] tr] unw]|er]; cbn [bind].
    2:{ destruct er; cbn [reserve_post foi_post] in *; try contradiction; exact (proj2 H). }
    rewrite (Htr t1 evs tr unw eq_refl) in H. cbn [reserve_post] in H.
    destruct unw; cbn [foi_post].
    - destruct H as (Hs1 & HA1 & Hu). split; [reflexivity|]. split; [exact Hs1|]. split; assumption.
    - destruct H as (Hs1 & HA1 & Hperm & Hit & Hgl & Hevs).
      assert (Hm1 : mask t1 <> 0) by (apply (growth_pos_mask t1 Hs1); lia).
      assert (Hcommon : foi_common t t1 evs).
      { split; [exact Hs1|]. split; [exact HA1|]. split; [exact Hperm|]. split; [exact Hit|].
        split; [lia|]. split; [exact Hm1|]. split; [exact Hevs|].
        intros Hg. specialize (Hnoop ltac:(lia)). injection Hnoop as -> ->. split; reflexivity. }
      destruct (foi_total B T HW HB t1 Hm1 P hash Hs1) as (r & Er). rewrite Er. cbn [bind].
      destruct r as [i|s]; cbn [foi_post]; (split; [exact Hcommon|]).
      + exact (foi_found_sound B T HW HB t1 Hm1 P hash i Hs1 Er).
      + exact (foi_slot_sound B T HW HB t1 Hm1 P hash s Hs1 Er).
  Qed.

  (* ---------------------------------------------------------------------------------------- *)
  (* S3: RawTable::insert                                                                       *)
  (* ---------------------------------------------------------------------------------------- *)
  Lemma ctrl_at_byte (t : table T) i : i < length (ctrl t) -> ctrl_at T t i = Ok (byte T t i).
  Proof. intros H. unfold ctrl_at, byte. rewrite (nth_error_nth' (ctrl t) POISON H). reflexivity. Qed.

  (* probing the static singleton: its Group::WIDTH control bytes are all EMPTY, the first group
     load is in bounds and reports bit 0; fix_insert_slot reads byte 0, which is EMPTY *)
  Lemma find_insert_slot_singleton hash : find_insert_slot B T (new_table B T) hash = Ok 0.
  Proof.
    pose proof GW_pos as Hpos.
    unfold find_insert_slot.
    assert (Hfuel : probe_fuel B T (new_table B T) = 1).
    { unfold probe_fuel, buckets. cbn [mask new_table]. destruct HW as [E|E]; rewrite E; reflexivity. }
    assert (Hstart : n_probe_start (mask (new_table B T)) hash = 0).
    { unfold n_probe_start, probe_seq, h1. cbn [mask new_table fst]. change (zn 0) with 0%Z.
      rewrite Z.land_0_r. reflexivity. }
    rewrite Hfuel, Hstart. cbn [find_insert_slot_loop].
    assert (Hload : load B T (new_table B T) 0 = Ok (repeat EMPTY GW)).
    { unfold load. cbn [ctrl new_table]. rewrite repeat_length. cbn [Nat.add]. rewrite Nat.leb_refl.
      cbn [skipn]. rewrite firstn_repeat_le by lia. reflexivity. }
    rewrite Hload. cbn [bind]. unfold find_insert_slot_in_group.
    rewrite (bs_lowest_eod B HB) by (split; [apply repeat_length | apply valid_repeat_EMPTY]).
    assert (Hfi : first_index is_special (repeat EMPTY GW) = Some 0).
    { destruct GW; [lia|reflexivity]. }
    rewrite Hfi.
    assert (Hland : n_land (0 + 0) (mask (new_table B T)) = 0) by reflexivity.
    rewrite Hland.
    unfold fix_insert_slot, is_bucket_full, ctrl_at. cbn [ctrl new_table].
    assert (Hn : nth_error (repeat EMPTY GW) 0 = Some EMPTY).
    { destruct GW; [lia|reflexivity]. }
    rewrite Hn. reflexivity.
  Qed.

  Definition insert_post (t : table T) (hash : Z) (value : T) (alloc_refuses : bool)
             (r : res (table T * list (event T) * bool * option nat)) : Prop :=
    match r with
    | Ok (t', evs, false, Some s) =>
        SafeWF B T t' /\ TOwn t' /\ s < nb T t' /\
        slot T t' s = Some value /\ byte T t' s = tag_full hash /\
        Permutation (occupants T t') (value :: occupants T t) /\ items t' = (items t + 1)%Z /\
        ReserveEvs t t' evs /\
        ((0 < growth_left t)%Z -> evs = [] /\ mask t' = mask t)
    | Ok (t', evs, false, None) => False
    | Ok (t', evs, true, r) =>
        r = None /\ SafeWF B T t' /\ TOwn t' /\ ReserveUnwind t t' evs
    | Fail PanicCapacityOverflow => CapOverflow t 1
    | Fail AbortAlloc => alloc_refuses = true
    | Fail _ => False
    end.

  (* the slow path: no room left (and the slot found is not a tombstone): reserve(1), probe again *)
  Lemma insert_reserve_branch t hash value alloc_refuses :
    SafeWF B T t -> TOwn t -> growth_left t = 0%Z ->
    insert_post t hash value alloc_refuses
      ('(t1, evs, _, unw) <- RESERVE t 1 alloc_refuses ;;
       if unw then Ok (t1, evs, true, None) else
       slot' <- find_insert_slot B T t1 hash ;;
       t2 <- insert_in_slot B T t1 hash slot' value ;;
       Ok (t2, evs, false, Some slot')).
  Proof.
    intros Hsafe HA Hg0.
    assert (H1 : (0 <= 1 < 2 ^ 64)%Z) by (rewrite two_p_64; lia).
    destruct (reserve_spec t 1 alloc_refuses Hsafe HA H1) as (H & Htr & _).
    destruct (RESERVE t 1 alloc_refuses) as [[[[t1 evs] tr] unw]|er]; cbn [bind].
    2:{ destruct er; cbn [reserve_post insert_post] in *; try contradiction; exact (proj2 H). }
    rewrite (Htr t1 evs tr unw eq_refl) in H. cbn [reserve_post] in H.
    destruct unw; cbn [insert_post].
    - destruct H as (Hs1 & HA1 & Hu). split; [reflexivity|]. split; [exact Hs1|]. split; assumption.
    - destruct H as (Hs1 & HA1 & Hperm & Hit & Hgl & Hevs).
      assert (Hm1 : mask t1 <> 0) by (apply (growth_pos_mask t1 Hs1); lia).
      destruct (SafeWF_alloc B T t1 Hs1 Hm1) as (HS & HM & HC).
      destruct (find_insert_slot_terminates B T HW HB t1 HS HM HC hash) as (s & Efis & Hs & Hsp).
      rewrite Efis. cbn [bind].
      destruct (insert_in_slot_safe B T HW t1 s hash value Hs1 Hm1 Hs Hsp ltac:(intros _; lia))
        as (t2 & Eins & Hs2 & Em2 & Eit2 & Ebs & Ess & _ & _ & Hperm2).
      rewrite Eins. cbn [bind insert_post].
      split; [exact Hs2|]. split; [exact (TOwn_same_mask t1 t2 Em2 HA1)|].
      split; [unfold nb, buckets in *; rewrite Em2; exact Hs|].
      split; [exact Ess|]. split; [exact Ebs|].
      split; [etransitivity; [exact Hperm2|]; apply perm_skip; exact Hperm|].
      split; [lia|]. split; [exact (ReserveEvs_same_mask t t1 t2 evs Em2 Hevs)|].
      intros C. lia.
  Qed.

  Theorem insert_spec t hash value alloc_refuses :
    SafeWF B T t -> TOwn t ->
    insert_post t hash value alloc_refuses
      (Raw.insert B T tsize talign needs_drop hasher true t hash value alloc_refuses).
  Proof.
    intros Hsafe HA. unfold Raw.insert.
    destruct (Nat.eq_dec (mask t) 0) as [Hm|Hm].
    - (* the singleton: the probe succeeds, finds an EMPTY byte, growth_left = 0 *)
      pose proof (safe_singleton t Hsafe Hm) as Et.
      assert (Efis : find_insert_slot B T t hash = Ok 0) by (rewrite Et; apply find_insert_slot_singleton).
      rewrite Efis. cbn [bind].
      assert (Ectrl : ctrl_at T t 0 = Ok EMPTY).
      { rewrite Et. unfold ctrl_at. cbn [ctrl new_table]. pose proof GW_pos. destruct GW; [lia|reflexivity]. }
      rewrite Ectrl. cbn [bind].
      assert (Eg : growth_left t = 0%Z) by (rewrite Et; reflexivity).
      rewrite Eg. change ((0 =? 0)%Z && tag_special_is_empty EMPTY) with true. cbv iota.
      exact (insert_reserve_branch t hash value alloc_refuses Hsafe HA Eg).
    - destruct (SafeWF_alloc B T t Hsafe Hm) as (HS & HM & HC).
      destruct (find_insert_slot_terminates B T HW HB t HS HM HC hash) as (s & Efis & Hs & Hsp).
      rewrite Efis. cbn [bind].
      assert (Hlen : s < length (ctrl t)) by (destruct HS as (_ & Hl & _); lia).
      rewrite (ctrl_at_byte t s Hlen). cbn [bind].
      pose proof (byte_valid B T t s HS ltac:(lia)) as Hval.
      destruct (SafeWF_growth_bound B T t Hsafe) as [Hg0 _].
      destruct ((growth_left t =? 0)%Z && tag_special_is_empty (byte T t s)) eqn:Ec.
      + apply andb_prop in Ec. destruct Ec as [Ec _]. apply Z.eqb_eq in Ec.
        exact (insert_reserve_branch t hash value alloc_refuses Hsafe HA Ec).
      + (* there is room, or the slot is a tombstone: no reserve, no allocation *)
        assert (Hroom : byte T t s = EMPTY -> (0 < growth_left t)%Z).
        { intros Eb. apply andb_false_iff in Ec. destruct Ec as [Ec|Ec].
          - apply Z.eqb_neq in Ec. lia.
          - exfalso. rewrite (proj2 (special_is_empty_iff _ Hval Hsp) Eb) in Ec. discriminate Ec. }
        destruct (insert_in_slot_safe B T HW t s hash value Hsafe Hm Hs Hsp Hroom)
          as (t2 & Eins & Hs2 & Em2 & Eit2 & Ebs & Ess & _ & _ & Hperm2).
        rewrite Eins. cbn [bind insert_post].
        split; [exact Hs2|]. split; [exact (TOwn_same_mask t t2 Em2 HA)|].
        split; [unfold nb, buckets in *; rewrite Em2; exact Hs|].
        split; [exact Ess|]. split; [exact Ebs|]. split; [exact Hperm2|]. split; [exact Eit2|].
        split; [left; split; [reflexivity|exact Em2]|].
        intros _. split; [reflexivity|exact Em2].
  Qed.

  (* C08 for insert, in the form "the fast path": when there is room, or the probe lands on a
     tombstone, the table is modified in place; in particular no allocator call *)
  Corollary insert_no_alloc t hash value alloc_refuses t' evs unw r :
    SafeWF B T t -> TOwn t -> (0 < growth_left t)%Z ->
    Raw.insert B T tsize talign needs_drop hasher true t hash value alloc_refuses = Ok (t', evs, unw, r) ->
    unw = false /\ evs = [] /\ mask t' = mask t /\ exists s, r = Some s.
  Proof.
    intros Hsafe HA Hg E. pose proof (insert_spec t hash value alloc_refuses Hsafe HA) as H.
    rewrite E in H.
    (* with room, the reserve branch is not taken, so unwinding is impossible: redo the case analysis *)
    destruct unw.
    - exfalso. revert E. unfold Raw.insert.
      assert (Hm : mask t <> 0) by exact (growth_pos_mask t Hsafe Hg).
      destruct (SafeWF_alloc B T t Hsafe Hm) as (HS & HM & HC).
      destruct (find_insert_slot_terminates B T HW HB t HS HM HC hash) as (s & Efis & Hs & Hsp).
      rewrite Efis. cbn [bind].
      assert (Hlen : s < length (ctrl t)) by (destruct HS as (_ & Hl & _); lia).
      rewrite (ctrl_at_byte t s Hlen). cbn [bind].
      destruct (Z.eqb_spec (growth_left t) 0) as [C|_]; [lia|]. cbn [andb].
      destruct (insert_in_slot B T t hash s value); cbn [bind]; discriminate.
    - cbn [insert_post] in H. destruct r as [s|]; [|contradiction].
      destruct H as (_ & _ & _ & _ & _ & _ & _ & _ & Hno). destruct (Hno Hg) as [-> Em].
      split; [reflexivity|]. split; [reflexivity|]. split; [exact Em|]. exists s. reflexivity.
  Qed.

  (* ---------------------------------------------------------------------------------------- *)
  (* S5: shrink_to                                                                              *)
  (* ---------------------------------------------------------------------------------------- *)
  (* a layout that exists for some number of buckets exists for every smaller number: this is
     why shrink_to cannot hit the capacity-overflow panic *)
  Lemma round_up_mono x y a : (0 < a)%Z -> (x <= y)%Z -> (round_up x a <= round_up y a)%Z.
  Proof.
    intros Ha Hxy. unfold round_up.
    pose proof (Z.div_mod (x + a - 1) a ltac:(lia)) as Hx.
    pose proof (Z.div_mod (y + a - 1) a ltac:(lia)) as Hy.
    pose proof (Z.div_le_mono (x + a - 1) (y + a - 1) a Ha ltac:(lia)) as Hd.
    assert (a * ((x + a - 1) / a) <= a * ((y + a - 1) / a))%Z by (apply Z.mul_le_mono_nonneg_l; lia).
    lia.
  Qed.

  Lemma layout_result_mono GWz size a b b' : (0 <= size)%Z -> (0 < a)%Z -> (0 <= b' <= b)%Z ->
    layout_result GWz size a b <> None -> layout_result GWz size a b' <> None.
  Proof.
    intros Hs Ha Hb. unfold layout_result. cbv zeta.
    assert (Hraw : (size * b' <= size * b)%Z) by (apply Z.mul_le_mono_nonneg_l; lia).
    pose proof (round_up_mono (size * b') (size * b) a Ha Hraw) as Hru.
    destruct (Z.ltb_spec (size * b + (a - 1)) (2 ^ 64)) as [H1|H1]; cbn [andb]; [|congruence].
    destruct (Z.leb_spec (round_up (size * b) a + (b + GWz)) (isize_max - (a - 1))) as [H2|H2]; [|congruence].
    intros _.
    destruct (Z.ltb_spec (size * b' + (a - 1)) (2 ^ 64)) as [H3|H3]; [|lia]. cbn [andb].
    destruct (Z.leb_spec (round_up (size * b') a + (b' + GWz)) (isize_max - (a - 1))) as [H4|H4]; [discriminate|lia].
  Qed.

  Lemma layout_for_smaller n k k' : zn n = (2 ^ k)%Z -> (0 <= k' <= k)%Z -> (k <= 62)%Z ->
    layout_for B tsize talign n <> None -> layout_for B tsize talign (nz (2 ^ k')) <> None.
  Proof.
    intros Hn Hk' Hk. unfold layout_for.
    destruct (ctrl_align_pow2 B HW tsize talign Hta) as (j & Hj & Ej & HGj).
    rewrite lay_size_eq, Ej, Hn, (proj2 (nz_pow2 k' ltac:(lia))).
    rewrite !calculate_layout_for_spec by (try exact (sac_GW_Z B HW); try lia; exact Hts).
    pose proof (layout_result_mono (zn GW) tsize (2 ^ j) (2 ^ k) (2 ^ k') ltac:(lia)
                  (pow2_pos j ltac:(lia))
                  (conj (Z.lt_le_incl _ _ (pow2_pos k' ltac:(lia))) (pow2_le_mono k' k ltac:(lia)))) as Hmono.
    destruct (layout_result (zn GW) tsize (2 ^ j) (2 ^ k)) as [[[l a] o]|]; [|intros C; congruence].
    intros _. specialize (Hmono ltac:(discriminate)).
    destruct (layout_result (zn GW) tsize (2 ^ j) (2 ^ k')) as [[[l' a'] o']|]; [discriminate|congruence].
  Qed.

  (* the request ms, which needs mb buckets, fewer than t has: no capacity overflow *)
  Lemma shrink_no_overflow t ms mb :
    SafeWF B T t -> Allocated B T tsize talign t -> (1 <= ms < 2 ^ 64)%Z ->
    ctb B tsize talign ms = Some mb -> (mb < zn (nb T t))%Z ->
    ~ overflow_cond B tsize talign ms.
  Proof.
    intros Hsafe (Hm & len & al & off & El) Hms Ectb Hlt (_ & [C | (b & Eb & Elb)]); [congruence|].
    rewrite Ectb in Eb. injection Eb as <-.
    pose proof (capacity_to_buckets_spec (zn GW) ms (lay_size B tsize talign) (ctrl_align B tsize talign)
                  (sac_GW_Z B HW) Hms ltac:(rewrite lay_size_eq; lia)) as Hspec.
    fold (ctb B tsize talign ms) in Hspec. rewrite Ectb in Hspec.
    destruct Hspec as (_ & (k' & Hk' & ->) & _).
    destruct (SafeWF_alloc B T t Hsafe Hm) as (HS & _).
    destruct (MaskOK_zn _ (Shape_MaskOK B T t HS)) as (k & Hk & E & _).
    change (zn (S (mask t))) with (zn (nb T t)) in E. rewrite E in Hlt.
    assert (Hkk : (k' < k)%Z).
    { destruct (Z.lt_ge_cases k' k) as [|Hge]; [assumption|].
      pose proof (pow2_le_mono k k' ltac:(lia)). lia. }
    apply (layout_for_smaller (nb T t) k k' E ltac:(lia) ltac:(lia)); [rewrite El; discriminate|exact Elb].
  Qed.

  (* the events of shrink_to: nothing; or the block is freed and the singleton is left; or a new,
     smaller block is allocated (with the layout of its bucket count) and the old one is freed.
     No destructor runs. *)
  Definition ShrinkEvs (t t' : table T) (evs : list (event T)) : Prop :=
    (t' = t /\ evs = []) \/
    (t' = new_table B T /\ FreeOld B T tsize talign t evs) \/
    (mask t' <> 0 /\ exists len al off fevs,
       layout_for B tsize talign (nb T t') = Some (len, al, off) /\ ValidLayout len al /\
       evs = EvAlloc len al :: fevs /\ FreeOld B T tsize talign t fevs).

  Definition shrink_post (t : table T) (min_size : Z) (alloc_refuses : bool)
             (r : res (table T * list (event T) * bool)) : Prop :=
    match r with
    | Ok (t', evs, false) =>
        SafeWF B T t' /\ TOwn t' /\
        Permutation (occupants T t') (occupants T t) /\ items t' = items t /\
        nb T t' <= nb T t /\
        (Z.max (items t) (Z.min min_size (capacity T t)) <= capacity T t')%Z /\
        (items t = 0%Z /\ min_size = 0%Z -> t' = new_table B T) /\
        (nb T t' = nb T t -> t' = t /\ evs = []) /\
        ShrinkEvs t t' evs
    | Ok (t', evs, true) =>
        t' = t /\ (exists e, In e (occupants T t) /\ hasher e = None) /\
        exists len al, evs = [EvAlloc len al; EvFree len al] /\ ValidLayout len al
    | Fail AbortAlloc => alloc_refuses = true
    | Fail _ => False
    end.

  Lemma shrink_noop t min_size alloc_refuses :
    SafeWF B T t -> TOwn t -> Z.max (items t) min_size <> 0%Z ->
    shrink_post t min_size alloc_refuses (Ok (t, [], false)).
  Proof.
    intros Hsafe HA Hnz. cbn [shrink_post].
    destruct (safe_counts B T t Hsafe) as (Hi0 & Hg0 & _).
    pose proof (capacity_eq B T t Hsafe) as Ecap.
    split; [exact Hsafe|]. split; [exact HA|]. split; [apply Permutation_refl|]. split; [reflexivity|].
    split; [apply Nat.le_refl|]. split; [lia|]. split; [intros (E1 & E2); lia|].
    split; [intros _; split; reflexivity|]. left. split; reflexivity.
  Qed.

  (* dropping a table without elements: no destructor runs, the block (if any) is freed *)
  Lemma drop_empty_table t : SafeWF B T t -> TOwn t -> items t = 0%Z ->
    exists evs, drop_inner_table B T tsize talign needs_drop drop_ok t = Ok (evs, true) /\
      FreeOld B T tsize talign t evs.
  Proof.
    intros Hsafe HA Hit.
    destruct (drop_inner_table_spec B T HW HB tsize talign Hts Hta needs_drop drop_ok t Hsafe HA)
      as (evs & ok & E & Hsing & Halloc).
    destruct (Nat.eq_dec (mask t) 0) as [Hm|Hm].
    - destruct (Hsing Hm) as (-> & ->). exists []. split; [exact E|]. left. split; [exact Hm|reflexivity].
    - destruct (Halloc Hm) as (len & al & off & dr & El & Hv & _ & _ & Htriv & _ & Eevs).
      destruct (Htriv (or_intror Hit)) as (-> & ->). cbn [app] in Eevs. subst evs.
      exists [EvFree len al]. split; [exact E|]. right. split; [exact Hm|].
      exists len, al, off. split; [exact El|]. split; [reflexivity|exact Hv].
  Qed.

  Theorem shrink_to_spec t min_size alloc_refuses :
    SafeWF B T t -> TOwn t -> (0 <= min_size < 2 ^ 64)%Z ->
    shrink_post t min_size alloc_refuses
      (shrink_to B T tsize talign needs_drop drop_ok hasher t min_size alloc_refuses).
  Proof.
    intros Hsafe HA Hmin.
    destruct (safe_counts B T t Hsafe) as (Hi0 & Hg0 & Hsum & Hcapnb & Hnb62).
    pose proof (capacity_eq B T t Hsafe) as Ecap.
    unfold shrink_to. cbv zeta.
    set (ms := Z.max (items t) min_size).
    assert (Hms : (0 <= ms < 2 ^ 64)%Z).
    { unfold ms. rewrite two_p_62 in Hnb62. rewrite two_p_64 in *. lia. }
    destruct (Z.eqb_spec ms 0) as [E0|Hnz].
    - (* nothing to keep: free everything, back to the singleton *)
      assert (Hit : items t = 0%Z) by (unfold ms in E0; lia).
      assert (Hmin0 : min_size = 0%Z) by (unfold ms in E0; lia).
      destruct (drop_empty_table t Hsafe HA Hit) as (evs & E & Hfr).
      rewrite E. cbn [bind negb shrink_post].
      split; [apply (new_table_safe B T)|]. split; [apply TOwn_new_table|].
      split; [rewrite (occupants_items0 B T HW t Hsafe Hit); apply Permutation_refl|].
      split; [symmetry; exact Hit|].
      split; [unfold nb, buckets; cbn [mask new_table]; lia|].
      split; [rewrite (new_table_capacity B T); lia|].
      split; [intros _; reflexivity|].
      split; [|right; left; split; [reflexivity|exact Hfr]].
      intros Enb. assert (Hm : mask t = 0) by (unfold nb, buckets in Enb; cbn [mask new_table] in Enb; lia).
      split; [symmetry; exact (safe_singleton t Hsafe Hm)|].
      destruct Hfr as [(_ & ->) | (C & _)]; [reflexivity|contradiction].
    - fold (ctb B tsize talign ms).
      destruct (ctb B tsize talign ms) as [mb|] eqn:Ectb;
        [|exact (shrink_noop t min_size alloc_refuses Hsafe HA Hnz)].
      change (buckets T t) with (nb T t).
      destruct (Z.ltb_spec mb (zn (nb T t))) as [Hlt|Hge];
        [|exact (shrink_noop t min_size alloc_refuses Hsafe HA Hnz)].
      (* a smaller table: t is not the singleton *)
      pose proof (capacity_to_buckets_spec (zn GW) ms (lay_size B tsize talign) (ctrl_align B tsize talign)
                    (sac_GW_Z B HW) ltac:(lia) ltac:(rewrite lay_size_eq; lia)) as Hspec.
      fold (ctb B tsize talign ms) in Hspec. rewrite Ectb in Hspec.
      destruct Hspec as (_ & (k' & Hk' & Emb) & _).
      assert (Hmb4 : (4 <= mb)%Z).
      { rewrite Emb. change 4%Z with (2 ^ 2)%Z. apply pow2_le_mono. lia. }
      assert (Hm : mask t <> 0).
      { intros C. unfold nb, buckets in Hlt. rewrite C in Hlt. change (zn 1) with 1%Z in Hlt. lia. }
      pose proof (TOwn_allocated t HA Hm) as HAl.
      pose proof (shrink_no_overflow t ms mb Hsafe HAl ltac:(lia) Ectb Hlt) as Hnov.
      assert (Hbound : (Z.max (items t) (Z.min min_size (capacity T t)) <= ms)%Z) by (unfold ms; lia).
      destruct (Z.eqb_spec (items t) 0) as [Hit|Hit].
      + (* no element: a fresh table, then drop the old one *)
        pose proof (fallible_with_capacity_spec B T HW tsize talign Hts Hta ms alloc_refuses Infallible Hms) as Hpost.
        destruct (fallible_with_capacity B T tsize talign ms alloc_refuses Infallible)
          as [[[[nt|] evs] tr]|er]; cbn [bind].
        * destruct tr; cbn [fwc_post] in Hpost; try contradiction.
          destruct Hpost as (Hs & Hitn & Hocc & Hcapgl & Hcapeq & _ & Hhow).
          destruct Hhow as [(C & _) | (_ & _ & HAn & Hctb & len & al & off & El & -> & Hv)]; [contradiction|].
          destruct (drop_empty_table t Hsafe HA Hit) as (evs2 & E & Hfr).
          rewrite E. cbn [bind negb shrink_post app].
          assert (Enb : zn (nb T nt) = mb) by congruence.
          split; [exact Hs|]. split; [right; exact HAn|].
          split; [rewrite Hocc, (occupants_items0 B T HW t Hsafe Hit); apply Permutation_refl|].
          split; [congruence|]. split; [unfold zn in *; lia|]. split; [lia|].
          split; [intros (_ & C); unfold ms in Hnz; lia|].
          split; [intros C; unfold zn in *; lia|].
          right; right. split; [exact (proj1 HAn)|]. exists len, al, off, evs2. repeat (split; [assumption || reflexivity|]). exact Hfr.
        * exfalso. cbn [fwc_post] in Hpost. destruct evs; [|contradiction].
          destruct tr; try contradiction; destruct Hpost as (C & _); discriminate C.
        * destruct er; cbn [fwc_post shrink_post] in *; try contradiction.
          -- exact (Hnov (proj2 Hpost)).
          -- exact (proj1 (proj2 Hpost)).
      + (* move the elements into a smaller table *)
        pose proof (resize_inner_spec B T HW HB tsize talign Hts Hta hasher t ms alloc_refuses Infallible
                      Hsafe HA ltac:(unfold ms in *; lia)) as H.
        destruct (resize_inner B T tsize talign hasher t ms alloc_refuses Infallible)
          as [[[[t' evs] tr] unw]|er]; cbn [bind].
        * destruct tr as [| |len al]; cbn [resize_post] in H.
          -- destruct unw; cbn [shrink_post].
             ++ destruct H as (-> & Hex & _ & _ & Hevs). split; [reflexivity|]. split; assumption.
             ++ destruct H as (_ & (Hs' & _) & Hperm & Hit' & Hc & _ & _ & aevs & fevs & Eevs & HAn & Hfr).
                destruct HAn as [(C & _) | (_ & _ & HAn & Hctb & len & al & off & El & -> & Hv)]; [contradiction|].
                assert (Enb : zn (nb T t') = mb) by congruence.
                split; [exact Hs'|]. split; [right; exact HAn|]. split; [exact Hperm|]. split; [exact Hit'|].
                split; [unfold zn in *; lia|]. split; [lia|].
                split; [intros (C & _); contradiction|].
                split; [intros C; unfold zn in *; lia|].
                right; right. split; [exact (proj1 HAn)|]. exists len, al, off, fevs. repeat (split; [assumption || reflexivity|]). exact Hfr.
          -- exfalso. destruct H as (_ & _ & _ & C & _). discriminate C.
          -- exfalso. destruct H as (_ & _ & _ & C & _). discriminate C.
        * destruct er; cbn [resize_post shrink_post] in *; try contradiction.
          -- exact (Hnov (proj2 H)).
          -- exact (proj1 (proj2 H)).
  Qed.

  (* ---------------------------------------------------------------------------------------- *)
  (* the results once more, in quantified form                                                  *)
  (* ---------------------------------------------------------------------------------------- *)
  (* for a request below 2^63 the only possible capacity overflow is that of the layout *)
  Lemma CapOverflow_small t additional : SafeWF B T t -> (additional < 2 ^ 63)%Z ->
    CapOverflow t additional ->
    overflow_cond B tsize talign (Z.max (items t + additional) (z_cap (mask t) + 1)).
  Proof.
    intros Hsafe Hadd [C|C]; [|exact C]. exfalso.
    destruct (safe_counts B T t Hsafe) as (Hi0 & Hg0 & Hsum & Hcapnb & Hnb62).
    rewrite two_p_62 in Hnb62. rewrite two_p_63 in Hadd. rewrite two_p_64 in C. lia.
  Qed.

  Corollary insert_fail t hash value alloc_refuses er :
    SafeWF B T t -> TOwn t ->
    Raw.insert B T tsize talign needs_drop hasher true t hash value alloc_refuses = Fail er ->
    (er = PanicCapacityOverflow /\
     overflow_cond B tsize talign (Z.max (items t + 1) (z_cap (mask t) + 1))) \/
    (er = AbortAlloc /\ alloc_refuses = true).
  Proof.
    intros Hsafe HA E. pose proof (insert_spec t hash value alloc_refuses Hsafe HA) as H.
    rewrite E in H. destruct er; cbn [insert_post] in H; try contradiction.
    - left. split; [reflexivity|]. apply (CapOverflow_small t 1 Hsafe); [rewrite two_p_63; lia|exact H].
    - right. split; [reflexivity|exact H].
  Qed.

  Corollary insert_preserves t hash value alloc_refuses t' evs unw r :
    SafeWF B T t -> TOwn t ->
    Raw.insert B T tsize talign needs_drop hasher true t hash value alloc_refuses = Ok (t', evs, unw, r) ->
    SafeWF B T t' /\ TOwn t' /\
    (unw = false -> exists s, r = Some s /\ s < nb T t' /\ slot T t' s = Some value /\
       Permutation (occupants T t') (value :: occupants T t) /\ items t' = (items t + 1)%Z) /\
    (unw = true -> r = None /\
       (exists dropped, Permutation (occupants T t) (occupants T t' ++ dropped)) /\
       (exists e, In e (occupants T t) /\ hasher e = None)).
  Proof.
    intros Hsafe HA E. pose proof (insert_spec t hash value alloc_refuses Hsafe HA) as H.
    rewrite E in H. destruct unw; cbn [insert_post] in H.
    - destruct H as (-> & Hs & HA' & Hu). split; [exact Hs|]. split; [exact HA'|].
      split; [discriminate|]. intros _. split; [reflexivity|]. exact (ReserveUnwind_sub _ _ _ Hu).
    - destruct r as [s|]; [|contradiction].
      destruct H as (Hs & HA' & Hlt & Hsl & _ & Hp & Hit & _).
      split; [exact Hs|]. split; [exact HA'|]. split; [|discriminate].
      intros _. exists s. repeat (split; [assumption || reflexivity|]). exact Hit.
  Qed.

  Corollary find_or_find_insert_slot_fail t hash P alloc_refuses er :
    SafeWF B T t -> TOwn t ->
    find_or_find_insert_slot B T tsize talign needs_drop hasher true t hash (pure_eq P) alloc_refuses = Fail er ->
    (er = PanicCapacityOverflow /\
     overflow_cond B tsize talign (Z.max (items t + 1) (z_cap (mask t) + 1))) \/
    (er = AbortAlloc /\ alloc_refuses = true).
  Proof.
    intros Hsafe HA E. pose proof (find_or_find_insert_slot_spec t hash P alloc_refuses Hsafe HA) as H.
    rewrite E in H. destruct er; cbn [foi_post] in H; try contradiction.
    - left. split; [reflexivity|]. apply (CapOverflow_small t 1 Hsafe); [rewrite two_p_63; lia|exact H].
    - right. split; [reflexivity|exact H].
  Qed.

  Corollary find_or_find_insert_slot_preserves t hash P alloc_refuses t1 evs unw r :
    SafeWF B T t -> TOwn t ->
    find_or_find_insert_slot B T tsize talign needs_drop hasher true t hash (pure_eq P) alloc_refuses
      = Ok (t1, evs, unw, r) ->
    SafeWF B T t1 /\ TOwn t1 /\
    (unw = false ->
       Permutation (occupants T t1) (occupants T t) /\ items t1 = items t /\
       (0 < growth_left t1)%Z /\ mask t1 <> 0 /\
       ((exists i e, r = Some (inl i) /\ i < nb T t1 /\ slot T t1 i = Some e /\ P e = true) \/
        (exists s, r = Some (inr s) /\ s < nb T t1 /\ is_special (byte T t1 s) = true)) /\
       ((0 < growth_left t)%Z -> t1 = t /\ evs = [])) /\
    (unw = true -> r = None /\
       (exists dropped, Permutation (occupants T t) (occupants T t1 ++ dropped)) /\
       (exists e, In e (occupants T t) /\ hasher e = None)).
  Proof.
    intros Hsafe HA E. pose proof (find_or_find_insert_slot_spec t hash P alloc_refuses Hsafe HA) as H.
    rewrite E in H. destruct unw; cbn [foi_post] in H.
    - destruct H as (-> & Hs & HA' & Hu). split; [exact Hs|]. split; [exact HA'|].
      split; [discriminate|]. intros _. split; [reflexivity|]. exact (ReserveUnwind_sub _ _ _ Hu).
    - destruct r as [[i|s]|]; [| |contradiction].
      + destruct H as ((Hs & HA' & Hp & Hit & Hg & Hm & _ & Hno) & Hi & e & He & HP).
        split; [exact Hs|]. split; [exact HA'|]. split; [|discriminate]. intros _.
        repeat (split; [assumption|]). split; [|exact Hno].
        left. exists i, e. repeat (split; [assumption || reflexivity|]). exact HP.
      + destruct H as ((Hs & HA' & Hp & Hit & Hg & Hm & _ & Hno) & Hi & Hsp).
        split; [exact Hs|]. split; [exact HA'|]. split; [|discriminate]. intros _.
        repeat (split; [assumption|]). split; [|exact Hno].
        right. exists s. split; [reflexivity|]. split; assumption.
  Qed.

  Corollary shrink_to_fail t min_size alloc_refuses er :
    SafeWF B T t -> TOwn t -> (0 <= min_size < 2 ^ 64)%Z ->
    shrink_to B T tsize talign needs_drop drop_ok hasher t min_size alloc_refuses = Fail er ->
    er = AbortAlloc /\ alloc_refuses = true.
  Proof.
    intros Hsafe HA Hmin E. pose proof (shrink_to_spec t min_size alloc_refuses Hsafe HA Hmin) as H.
    rewrite E in H. destruct er; cbn [shrink_post] in H; try contradiction. split; [reflexivity|exact H].
  Qed.

  Corollary shrink_to_preserves t min_size alloc_refuses t' evs unw :
    SafeWF B T t -> TOwn t -> (0 <= min_size < 2 ^ 64)%Z ->
    shrink_to B T tsize talign needs_drop drop_ok hasher t min_size alloc_refuses = Ok (t', evs, unw) ->
    SafeWF B T t' /\ TOwn t' /\ Permutation (occupants T t') (occupants T t) /\ items t' = items t /\
    (forall e, ~ In (EvDrop e) evs).
  Proof.
    intros Hsafe HA Hmin E. pose proof (shrink_to_spec t min_size alloc_refuses Hsafe HA Hmin) as H.
    rewrite E in H. destruct unw; cbn [shrink_post] in H.
    - destruct H as (-> & _ & len & al & -> & _). split; [exact Hsafe|]. split; [exact HA|].
      split; [apply Permutation_refl|]. split; [reflexivity|].
      intros e [C|[C|[]]]; discriminate C.
    - destruct H as (Hs & HA' & Hp & Hit & _ & _ & _ & _ & Hev).
      split; [exact Hs|]. split; [exact HA'|]. split; [exact Hp|]. split; [exact Hit|].
      assert (Hfree : forall fevs e, FreeOld B T tsize talign t fevs -> ~ In (EvDrop e) fevs).
      { intros fevs e [(_ & ->) | (_ & l0 & a0 & o0 & _ & -> & _)]; [intros []|intros [C|[]]; discriminate C]. }
      intros e. destruct Hev as [(_ & ->) | [(_ & Hfr) | (_ & len & al & off & fevs & _ & _ & -> & Hfr)]].
      + intros [].
      + exact (Hfree evs e Hfr).
      + intros [C|C]; [discriminate C|exact (Hfree fevs e Hfr C)].
  Qed.

  (* allocation_size is defined on every table that owns its block *)
  Lemma allocation_size_total t : TOwn t ->
    exists n, allocation_size B T tsize talign t = Ok n /\ (mask t = 0 -> n = 0%Z).
  Proof.
    intros HA. unfold allocation_size, is_singleton.
    destruct (Nat.eqb_spec (mask t) 0) as [E|E].
    - exists 0%Z. split; [reflexivity|intros _; reflexivity].
    - destruct (TOwn_allocated t HA E) as (_ & len & al & off & El).
      change (buckets T t) with (nb T t). rewrite El. exists len. split; [reflexivity|contradiction].
  Qed.
End RawOps.

Print Assumptions reserve_rehash_spec.
Print Assumptions reserve_post_ok.
Print Assumptions reserve_spec.
Print Assumptions try_reserve_spec.
Print Assumptions reserve_capacity.
Print Assumptions try_reserve_capacity.
Print Assumptions try_reserve_error.
Print Assumptions find_or_find_insert_slot_spec.
Print Assumptions insert_spec.
Print Assumptions insert_no_alloc.
Print Assumptions shrink_to_spec.
Print Assumptions insert_fail.
Print Assumptions insert_preserves.
Print Assumptions find_or_find_insert_slot_fail.
Print Assumptions find_or_find_insert_slot_preserves.
Print Assumptions shrink_to_fail.
Print Assumptions shrink_to_preserves.
