(* MultisetFacts.v -- the boolean multiset operations of Spec/MultisetSpec.v (remove_one, msub, meq)
   against Permutation, and a few list facts used by Proofs/TableStepRefine.v.  No axioms. *)
From Coq Require Import ZArith List Bool Lia Permutation.
From HB Require Import RsPrelude Gen Group Raw Map Table AssocSpec MultisetSpec AssocFacts.
Import ListNotations.
Open Scope nat_scope.

Lemma remove_one_In e s : In e s -> exists s', remove_one e s = Some s' /\ Permutation s (e :: s').
Proof.
  induction s as [|x r IH]; intros Hin; [destruct Hin|].
  cbn [remove_one]. destruct (kv_eqb e x) eqn:E.
  - apply kv_eqb_eq in E. subst x. exists r. split; [reflexivity|apply Permutation_refl].
  - destruct Hin as [->|Hin]; [rewrite kv_eqb_refl in E; discriminate E|].
    destruct (IH Hin) as (r' & Er & P). rewrite Er. exists (x :: r'). split; [reflexivity|].
    etransitivity; [apply perm_skip; exact P|apply perm_swap].
Qed.

Lemma remove_one_Some e s s' : remove_one e s = Some s' -> Permutation s (e :: s').
Proof.
  revert s'. induction s as [|x r IH]; intros s' H; [discriminate H|].
  cbn [remove_one] in H. destruct (kv_eqb e x) eqn:E.
  - apply kv_eqb_eq in E. subst x. injection H as <-. apply Permutation_refl.
  - destruct (remove_one e r) as [r'|]; [|discriminate H]. injection H as <-.
    etransitivity; [apply perm_skip; exact (IH r' eq_refl)|apply perm_swap].
Qed.

Lemma remove_one_is_some e s : In e s -> match remove_one e s with Some _ => true | None => false end = true.
Proof. intros H. destruct (remove_one_In e s H) as (s' & -> & _). reflexivity. Qed.

(* l is a sub-multiset of s whenever s is a permutation of l ++ r; what is left is r *)
Lemma msub_perm : forall l s r, Permutation s (l ++ r) -> exists r', msub s l = Some r' /\ Permutation r' r.
Proof.
  induction l as [|e l IH]; intros s r P.
  - exists s. split; [reflexivity|exact P].
  - cbn [msub]. cbn [app] in P.
    assert (Hin : In e s) by (apply (Permutation_in _ (Permutation_sym P)); left; reflexivity).
    destruct (remove_one_In e s Hin) as (s' & Er & Ps). rewrite Er.
    apply IH. apply (Permutation_cons_inv (a := e)).
    etransitivity; [symmetry; exact Ps|exact P].
Qed.

Lemma msub_Some : forall l s r, msub s l = Some r -> Permutation s (l ++ r).
Proof.
  induction l as [|e l IH]; intros s r H; cbn [msub] in H.
  - injection H as <-. apply Permutation_refl.
  - destruct (remove_one e s) as [s'|] eqn:Er; [|discriminate H].
    etransitivity; [exact (remove_one_Some e s s' Er)|]. cbn [app]. apply perm_skip. exact (IH s' r H).
Qed.

Lemma msub_is_some l s r : Permutation s (l ++ r) -> match msub s l with Some _ => true | None => false end = true.
Proof. intros P. destruct (msub_perm l s r P) as (r' & -> & _). reflexivity. Qed.

Lemma meq_perm a b : Permutation a b -> meq a b = true.
Proof.
  intros P. unfold meq. destruct (msub_perm b a [] ltac:(rewrite app_nil_r; exact P)) as (r' & -> & Pr).
  apply Permutation_sym, Permutation_nil in Pr. subst r'. reflexivity.
Qed.

Lemma meq_true a b : meq a b = true -> Permutation a b.
Proof.
  unfold meq. destruct (msub a b) as [[|x r]|] eqn:E; try discriminate. intros _.
  pose proof (msub_Some b a [] E) as P. rewrite app_nil_r in P. exact P.
Qed.

(* replacing / removing one element, up to permutation *)
Lemma replace_perm {A} (e e' : A) post cur s s' :
  Permutation (e :: post) (e' :: cur) -> Permutation cur s -> Permutation s (e :: s') ->
  Permutation post (e' :: s').
Proof.
  intros P1 P2 P3. apply (Permutation_cons_inv (a := e)).
  etransitivity; [exact P1|]. etransitivity; [apply perm_skip; etransitivity; [exact P2|exact P3]|].
  apply perm_swap.
Qed.

Lemma remove_perm {A} (e : A) post cur s s' :
  Permutation cur (e :: post) -> Permutation cur s -> Permutation s (e :: s') -> Permutation post s'.
Proof.
  intros P1 P2 P3. apply (Permutation_cons_inv (a := e)).
  etransitivity; [symmetry; exact P1|]. etransitivity; [exact P2|exact P3].
Qed.

Lemma existsb_false_iff {A} (f : A -> bool) (l : list A) :
  existsb f l = false <-> forall x, In x l -> f x = false.
Proof.
  split.
  - intros H x Hx. destruct (f x) eqn:E; [|reflexivity].
    assert (C : existsb f l = true) by (apply existsb_exists; exists x; split; assumption). congruence.
  - intros H. destruct (existsb f l) eqn:E; [|reflexivity].
    apply existsb_exists in E. destruct E as (x & Hx & Fx). rewrite (H x Hx) in Fx. discriminate Fx.
Qed.

Lemma NoDup_app_intro {A} (a b : list A) :
  NoDup a -> NoDup b -> (forall x, In x a -> ~ In x b) -> NoDup (a ++ b).
Proof.
  induction a as [|x a IH]; intros Ha Hb Hd; [exact Hb|].
  inversion Ha as [|? ? Hx Ha']; subst. cbn [app]. constructor.
  - intros Hin. apply in_app_or in Hin. destruct Hin as [Hin|Hin]; [contradiction|].
    exact (Hd x (or_introl eq_refl) Hin).
  - apply IH; [exact Ha'|exact Hb|]. intros y Hy. apply Hd. right. exact Hy.
Qed.

(* a duplicate-free sublist and the rest *)
Definition without (I : list nat) (L : list nat) : list nat :=
  filter (fun x => negb (existsb (Nat.eqb x) I)) L.

Lemma existsb_eqb_In x (I : list nat) : existsb (Nat.eqb x) I = true <-> In x I.
Proof.
  rewrite existsb_exists. split.
  - intros (y & Hy & E). apply Nat.eqb_eq in E. subst y. exact Hy.
  - intros H. exists x. split; [exact H|apply Nat.eqb_refl].
Qed.

Lemma without_In I L x : In x (without I L) <-> In x L /\ ~ In x I.
Proof.
  unfold without. rewrite filter_In. split; intros (H1 & H2); (split; [exact H1|]).
  - intros Hin. apply existsb_eqb_In in Hin. rewrite Hin in H2. discriminate H2.
  - destruct (existsb (Nat.eqb x) I) eqn:E; [|reflexivity]. apply existsb_eqb_In in E. contradiction.
Qed.

Lemma split_perm (I L : list nat) : NoDup I -> NoDup L -> (forall x, In x I -> In x L) ->
  Permutation L (I ++ without I L).
Proof.
  intros HI HL Hsub. apply NoDup_Permutation; [exact HL| |].
  - apply NoDup_app_intro; [exact HI|apply NoDup_filter; exact HL|].
    intros x Hx Hw. apply without_In in Hw. tauto.
  - intros x. rewrite in_app_iff, without_In. split.
    + intros Hx. destruct (in_dec Nat.eq_dec x I) as [Hi|Hn]; [left; exact Hi|right; split; assumption].
    + intros [Hx|(Hx & _)]; [apply Hsub; exact Hx|exact Hx].
Qed.

Lemma Forall2_nth_error {A C} (R : A -> C -> Prop) : forall l1 l2 n y,
  Forall2 R l1 l2 -> nth_error l2 n = Some y -> exists x, nth_error l1 n = Some x /\ R x y.
Proof.
  intros l1 l2 n y HF. revert n. induction HF as [|a b l1 l2 Hab _ IH]; intros n Hn.
  - destruct n; discriminate Hn.
  - destruct n as [|n]; cbn [nth_error] in *.
    + injection Hn as <-. exists a. split; [reflexivity|exact Hab].
    + exact (IH n Hn).
Qed.

Lemma filter_length_ge2 {A} (f : A -> bool) : forall (l : list A) a b xa xb, a < b ->
  nth_error l a = Some xa -> nth_error l b = Some xb -> f xa = true -> f xb = true ->
  2 <= length (filter f l).
Proof.
  induction l as [|x r IH]; intros a b xa xb Hab Ha Hb Fa Fb; [destruct a; discriminate Ha|].
  destruct b as [|b]; [lia|]. cbn [nth_error] in Hb. destruct a as [|a]; cbn [nth_error] in Ha.
  - injection Ha as ->. cbn [filter]. rewrite Fa. cbn [length].
    assert (Hin : In xb (filter f r)) by (apply filter_In; split; [exact (nth_error_In _ _ Hb)|exact Fb]).
    destruct (filter f r); [destruct Hin|cbn [length]; lia].
  - pose proof (IH a b xa xb ltac:(lia) Ha Hb Fa Fb) as H. cbn [filter].
    destruct (f x); cbn [length]; lia.
Qed.

Print Assumptions msub_perm.
Print Assumptions meq_perm.
Print Assumptions split_perm.
