(* IterHashFacts.v -- RawIterHash (Table.iter_hash) on a valid table:
   IH0: on the static singleton it yields nothing;
   IH1: it terminates within the fuel, every bucket it yields is a real FULL bucket, and no
        bucket is yielded twice (SafeWF only: no assumption on any hash function);
   IH2: every bucket whose control byte is the tag of the hash and that is reachable from the
        hash is yielded.
   Reusable: StronglySorted_lt_NoDup, NoDup_app_disj, window_disjoint_Z, window_disjoint
   (the windows of two different probe steps below buckets/WIDTH are disjoint). *)
From Coq Require Import ZArith List Bool Lia Sorted.
From HB Require Import RsPrelude Sse2 Gen Group Raw Map Check Table ArithFacts Triangular WFDefs
  GroupFacts ProbeFacts FindFacts.
Import ListNotations.
Open Scope nat_scope.

(* ---------------------------------------------------------------------------------------- *)
(* lists                                                                                      *)
(* ---------------------------------------------------------------------------------------- *)
Lemma StronglySorted_lt_NoDup (l : list nat) : StronglySorted lt l -> NoDup l.
Proof.
  induction 1 as [|x l Hs IH Hx]; constructor; [|exact IH].
  intros Hin. rewrite Forall_forall in Hx. specialize (Hx x Hin). lia.
Qed.

Lemma NoDup_app_disj {A} (l1 l2 : list A) :
  NoDup l1 -> NoDup l2 -> (forall x, In x l1 -> In x l2 -> False) -> NoDup (l1 ++ l2).
Proof.
  induction 1 as [|x l1 Hx ND IH]; intros H2 Hd; [exact H2|].
  cbn [app]. constructor.
  - intros Hin. apply in_app_or in Hin as [Hin|Hin]; [contradiction|].
    apply (Hd x); [left; reflexivity|exact Hin].
  - apply IH; [exact H2|]. intros y Hy1 Hy2. apply (Hd y); [right; exact Hy1|exact Hy2].
Qed.

(* ---------------------------------------------------------------------------------------- *)
(* the windows of two different probe steps are disjoint (Z level)                            *)
(* ---------------------------------------------------------------------------------------- *)
(* bucket i lies in the window [P_j, P_j + 2^g) of step j: then the group class of i relative to
   the start is the residue of the j-th triangular number *)
Lemma window_class_Z g k p0 i j : (0 <= g <= k -> 0 <= p0 < 2 ^ k -> 0 <= j ->
  (i - (p0 + 2 ^ g * tri j) mod 2 ^ k) mod 2 ^ k < 2 ^ g ->
  ((i - p0) mod 2 ^ k) / 2 ^ g = tri j mod 2 ^ (k - g))%Z.
Proof.
  intros Hg Hp0 Hj Hw.
  assert (Hpg : (0 < 2 ^ g)%Z) by (apply pow2_pos; lia).
  assert (Hpk : (0 < 2 ^ k)%Z) by (apply pow2_pos; lia).
  assert (Hpkg : (0 < 2 ^ (k - g))%Z) by (apply pow2_pos; lia).
  assert (Ek : (2 ^ k = 2 ^ g * 2 ^ (k - g))%Z) by (rewrite <- Z.pow_add_r by lia; f_equal; lia).
  pose proof (probe_class g k p0 j Hg Hp0 Hj) as Hc. cbv zeta in Hc.
  set (P := ((p0 + 2 ^ g * tri j) mod 2 ^ k)%Z) in *.
  set (r := (tri j mod 2 ^ (k - g))%Z) in *.
  set (a := ((i - P) mod 2 ^ k)%Z) in *.
  assert (Hr : (0 <= r < 2 ^ (k - g))%Z) by (apply Z.mod_pos_bound; lia).
  assert (Ha : (0 <= a < 2 ^ k)%Z) by (apply Z.mod_pos_bound; lia).
  assert (E : ((i - p0) mod 2 ^ k = 2 ^ g * r + a)%Z).
  { replace (i - p0)%Z with ((i - P) + (P - p0))%Z by lia.
    rewrite Zplus_mod. fold a. rewrite Hc.
    rewrite Z.mod_small by nia. lia. }
  rewrite E. symmetry. apply (Z.div_unique _ _ r a); [left; lia|reflexivity].
Qed.

Theorem window_disjoint_Z g k p0 i j1 j2 : (0 <= g <= k -> k <= 62 -> 0 <= p0 < 2 ^ k ->
  0 <= j1 < 2 ^ (k - g) -> 0 <= j2 < 2 ^ (k - g) ->
  (i - (p0 + 2 ^ g * tri j1) mod 2 ^ k) mod 2 ^ k < 2 ^ g ->
  (i - (p0 + 2 ^ g * tri j2) mod 2 ^ k) mod 2 ^ k < 2 ^ g ->
  j1 = j2)%Z.
Proof.
  intros Hg Hk Hp0 Hj1 Hj2 H1 H2.
  apply (tri_inj_mod (k - g)); try lia.
  rewrite <- (window_class_Z g k p0 i j1) by (assumption || lia).
  apply window_class_Z; assumption || lia.
Qed.


Section IterHash.
  Variable B : backend.
  Hypothesis HW : WidthOK B.
  Hypothesis HB : BackendSpec B.
  Local Notation GW := (bk_width B).
  Local Notation T := kv.

  (* ---------------------------------------------------------------------------------------- *)
  (* the windows of two different probe steps are disjoint (positions of the model)            *)
  (* ---------------------------------------------------------------------------------------- *)
  Theorem window_disjoint mask p0 i j1 j2 : MaskOK mask -> GW <= S mask -> p0 < S mask -> i < S mask ->
    j1 < S mask / GW -> j2 < S mask / GW ->
    (i + S mask - fst (pseq B mask p0 j1)) mod S mask < GW ->
    (i + S mask - fst (pseq B mask p0 j2)) mod S mask < GW ->
    j1 = j2.
  Proof.
    intros HM Hbig Hp0 Hi Hj1 Hj2 H1 H2.
    destruct (MaskOK_zn _ HM) as (k & Hk & Enb & _).
    destruct (GW_pow2 B HW) as (g & Hg & EGW).
    assert (Hgk : (g <= k)%Z).
    { apply (Z.pow_le_mono_r_iff 2); [lia|lia|]. rewrite <- Enb, <- EGW. unfold zn. lia. }
    assert (Hdiv : zn (S mask / GW) = (2 ^ (k - g))%Z).
    { unfold zn. rewrite Nat2Z.inj_div. fold (zn (S mask)). fold (zn GW). rewrite Enb, EGW.
      symmetry. apply Z.pow_sub_r; lia. }
    assert (Hpkg : (0 < 2 ^ (k - g))%Z) by (apply pow2_pos; lia).
    assert (Hpk : (0 < 2 ^ k)%Z) by (apply pow2_pos; lia).
    assert (Ek : (2 ^ k = 2 ^ g * 2 ^ (k - g))%Z) by (rewrite <- Z.pow_add_r by lia; f_equal; lia).
    assert (Hk62 : (2 ^ k <= 2 ^ 62)%Z) by (apply pow2_le_mono; lia).
    assert (Conv : forall j, j < S mask / GW ->
              (i + S mask - fst (pseq B mask p0 j)) mod S mask < GW ->
              ((zn i - (zn p0 + 2 ^ g * tri (zn j)) mod 2 ^ k) mod 2 ^ k < 2 ^ g)%Z).
    { intros j Hj Hw.
      assert (Hjb : (zn (j * GW) <= 2 ^ 62)%Z).
      { unfold zn in *. rewrite Nat2Z.inj_mul. rewrite EGW. nia. }
      pose proof (pseq_lt B mask p0 j HM Hp0) as Hpl.
      rewrite (pseq_closed B mask p0 j HM Hp0 Hjb) in Hpl, Hw. cbn [fst] in Hpl, Hw.
      rewrite Enb, EGW in Hpl, Hw.
      set (P := ((zn p0 + 2 ^ g * tri (zn j)) mod 2 ^ k)%Z) in *.
      assert (HP : (0 <= P < 2 ^ k)%Z) by (apply Z.mod_pos_bound; lia).
      apply Nat2Z.inj_lt in Hw. rewrite Nat2Z.inj_mod in Hw. fold (zn (S mask)) in Hw. rewrite Enb in Hw.
      fold (zn GW) in Hw. rewrite EGW in Hw.
      replace (Z.of_nat (i + S mask - Z.to_nat P)) with ((zn i - P) + 1 * zn (S mask))%Z in Hw
        by (unfold zn in *; lia).
      rewrite Enb, Z.mod_add in Hw by lia. exact Hw. }
    pose proof (Conv j1 Hj1 H1) as C1. pose proof (Conv j2 Hj2 H2) as C2.
    assert (E : zn j1 = zn j2).
    { apply (window_disjoint_Z g k (zn p0) (zn i)); try lia; try assumption;
        try (rewrite <- Enb; unfold zn; lia); try (rewrite <- Hdiv; unfold zn; lia). }
    unfold zn in E. lia.
  Qed.

  (* ---------------------------------------------------------------------------------------- *)
  (* IH0: the static singleton                                                                  *)
  (* ---------------------------------------------------------------------------------------- *)
  Lemma GW_pos_ih : 0 < GW.
  Proof. destruct HW as [E|E]; rewrite E; lia. Qed.

  Lemma nth_repeat_ih (a d : Z) n i : i < n -> nth i (repeat a n) d = a.
  Proof.
    revert i. induction n as [|n IH]; intros i Hi; [lia|].
    destruct i as [|i]; [reflexivity|]. cbn [repeat nth]. apply IH. lia.
  Qed.

  Lemma firstn_repeat_all_ih {A} (x : A) n : firstn n (repeat x n) = repeat x n.
  Proof. rewrite <- (repeat_length x n) at 1. apply firstn_all. Qed.

  Lemma group_ok_repeat_EMPTY : group_ok GW (repeat EMPTY GW).
  Proof.
    split; [apply repeat_length|]. apply Forall_forall. intros x Hx.
    apply repeat_spec in Hx. subst x. apply valid_EMPTY.
  Qed.

  (* a reported bit has a FULL byte (true match or the low-bit false positive) *)
  Lemma match_tag_full g tag b : group_ok GW g -> (0 <= tag < 128)%Z ->
    In b (g_match_tag B g tag) -> b < GW /\ is_full (nth b g 0%Z) = true.
  Proof.
    intros Hok Htag Hb. split; [exact (bs_match_tag_bound B HB g tag b Hok Htag Hb)|].
    destruct (bs_match_tag_sound B HB g tag b Hok Htag Hb) as [E | [E _]].
    - rewrite E. apply is_full_small. exact Htag.
    - apply (lxor1_full _ tag); assumption.
  Qed.

  Lemma iter_hash_singleton hash : iter_hash B (new_table B kv) hash = Ok [].
  Proof.
    pose proof GW_pos_ih as Hpos.
    unfold iter_hash.
    assert (Hfuel : probe_fuel B kv (new_table B kv) = 1).
    { unfold probe_fuel, buckets. cbn [mask new_table]. destruct HW as [E|E]; rewrite E; reflexivity. }
    assert (Hstart : n_probe_start (mask (new_table B kv)) hash = 0).
    { unfold n_probe_start, probe_seq, h1. cbn [mask new_table fst]. change (zn 0) with 0%Z.
      rewrite Z.land_0_r. reflexivity. }
    rewrite Hfuel, Hstart. cbn [iter_hash_loop].
    assert (Hload : load B kv (new_table B kv) 0 = Ok (repeat EMPTY GW)).
    { unfold load. cbn [ctrl new_table]. rewrite repeat_length. cbn [Nat.add]. rewrite Nat.leb_refl.
      cbn [skipn]. rewrite firstn_repeat_all_ih. reflexivity. }
    rewrite Hload. cbn [bind].
    pose proof group_ok_repeat_EMPTY as Hgok.
    assert (Hmt : g_match_tag B (repeat EMPTY GW) (tag_full hash) = []).
    { destruct (g_match_tag B (repeat EMPTY GW) (tag_full hash)) as [|j r] eqn:E; [reflexivity|]. exfalso.
      assert (Hin : In j (g_match_tag B (repeat EMPTY GW) (tag_full hash))) by (rewrite E; left; reflexivity).
      destruct (match_tag_full _ _ j Hgok (tag_full_range hash) Hin) as (Hj & Hf).
      rewrite nth_repeat_ih in Hf by exact Hj. discriminate Hf. }
    rewrite Hmt. cbn [map].
    rewrite (bs_any_empty B HB _ Hgok).
    assert (Hex : existsb is_empty (repeat EMPTY GW) = true).
    { destruct GW; [lia|reflexivity]. }
    rewrite Hex. reflexivity.
  Qed.

  (* ---------------------------------------------------------------------------------------- *)
  (* one allocated table                                                                        *)
  (* ---------------------------------------------------------------------------------------- *)
  Section OneTable.
    Variable t : table kv.
    Hypothesis HS : Shape B T t.
    Hypothesis HM : Mirror B T t.

    Let HMask : MaskOK (mask t) := Shape_MaskOK B T t HS.
    Let Hnb2 : 2 <= nb T t := Shape_nb_ge2 B T t HS.

    (* the buckets reported for one group *)
    Definition step_idx (pos : nat) (g : list Z) (tag : Z) : list nat :=
      map (fun b => n_land (pos + b) (mask t)) (g_match_tag B g tag).

    (* table smaller than a group: where a FULL byte of the loaded group comes from *)
    Lemma small_full_bit pos g b : pos < nb T t -> nb T t < GW -> load B T t pos = Ok g -> b < GW ->
      is_full (nth b g 0%Z) = true ->
      (pos + b < nb T t /\ (pos + b) mod nb T t = pos + b) \/
      (GW <= pos + b /\ (pos + b) mod nb T t = pos + b - GW).
    Proof.
      intros Hpos Hsmall Hg Hb Hf.
      rewrite (view_small B T t pos g HS HM Hpos Hsmall Hg b Hb) in Hf.
      destruct (Nat.ltb_spec (pos + b) (nb T t)) as [H1|H1].
      - left. split; [exact H1|apply Nat.mod_small; exact H1].
      - destruct (Nat.ltb_spec (pos + b) GW) as [H2|H2]; [discriminate Hf|].
        right. split; [exact H2|].
        destruct (small_divides (mask t) GW HMask HW Hsmall) as (q & Eq).
        change (S (mask t)) with (nb T t) in Eq.
        replace (pos + b) with ((pos + b - GW) + q * nb T t) by lia.
        rewrite Nat.mod_add by lia. rewrite Nat.mod_small by lia. lia.
    Qed.

    (* IH1, one group: real FULL buckets, inside the window of the group, no repetition *)
    Lemma step_idx_ok pos g tag : pos < nb T t -> load B T t pos = Ok g -> (0 <= tag < 128)%Z ->
      (forall i, In i (step_idx pos g tag) ->
         i < nb T t /\ is_full (byte T t i) = true /\
         (GW <= nb T t -> (i + nb T t - pos) mod nb T t < GW)) /\
      NoDup (step_idx pos g tag).
    Proof.
      intros Hpos Hg Htag.
      pose proof (load_group_ok B T t pos g HS ltac:(lia) Hg) as Hok.
      split.
      - intros i Hi. unfold step_idx in Hi. apply in_map_iff in Hi as (b & <- & Hb).
        destruct (match_tag_full g tag b Hok Htag Hb) as (Hlt & Hfull).
        rewrite (land_mod B T t HS).
        split; [apply Nat.mod_upper_bound; lia|]. split.
        + destruct (view_masked B T HW t pos g HS HM Hpos Hg b Hlt) as [E | (_ & _ & E)].
          * rewrite <- E. exact Hfull.
          * rewrite E in Hfull. discriminate Hfull.
        + intros Hbig. rewrite mod_window by lia. exact Hlt.
      - unfold step_idx. apply NoDup_map_inj_on.
        + apply StronglySorted_lt_NoDup. apply (bs_match_tag_sorted B HB g tag Hok Htag).
        + intros b1 b2 H1 H2 E. rewrite !(land_mod B T t HS) in E.
          destruct (match_tag_full g tag b1 Hok Htag H1) as (Hlt1 & Hf1).
          destruct (match_tag_full g tag b2 Hok Htag H2) as (Hlt2 & Hf2).
          destruct (Nat.le_gt_cases GW (nb T t)) as [Hbig|Hsmall].
          * pose proof (mod_window pos b1 (nb T t) Hpos ltac:(lia)) as M1.
            pose proof (mod_window pos b2 (nb T t) Hpos ltac:(lia)) as M2.
            rewrite E in M1. lia.
          * destruct (small_full_bit pos g b1 Hpos Hsmall Hg Hlt1 Hf1) as [(A1 & E1)|(A1 & E1)],
                     (small_full_bit pos g b2 Hpos Hsmall Hg Hlt2 Hf2) as [(A2 & E2)|(A2 & E2)];
              rewrite E1, E2 in E; lia.
    Qed.

    (* ---- IH2: lockstep of reach_loop and iter_hash_loop ---- *)
    Lemma iter_hash_loop_complete tag i : (0 <= tag < 128)%Z -> i < nb T t -> byte T t i = tag ->
      forall n pos stride idx, pos < nb T t ->
        reach_loop B T n t i pos stride = true ->
        iter_hash_loop B n t tag pos stride = Ok idx -> In i idx.
    Proof.
      intros Htag Hi Hbyte. induction n as [|n IH]; intros pos stride idx Hpos H E; [discriminate H|].
      cbn [reach_loop] in H. cbn [iter_hash_loop] in E. change (buckets T t) with (nb T t) in H.
      destruct (load_some B T t HS HM pos Hpos) as (g & Hg & Hok). rewrite Hg in *. cbn [bind] in E.
      fold (step_idx pos g tag) in E.
      destruct (Nat.ltb_spec ((i + nb T t - pos) mod nb T t) GW) as [Hw|Hw].
      - assert (Hin : In i (step_idx pos g tag)).
        { destruct (window_bit B T HW t HS HM pos i g Hpos Hi Hg Hw) as (b & Hb & Eb & Ei).
          unfold step_idx. apply in_map_iff. exists b. split.
          - rewrite (land_mod B T t HS). exact Ei.
          - apply (bs_match_tag_complete B HB g tag b Hok Htag Hb). rewrite Eb. exact Hbyte. }
        destruct (g_any_empty B g).
        + injection E as <-. exact Hin.
        + destruct (n_move_next GW (mask t) pos stride) as [p' s'].
          destruct (iter_hash_loop B n t tag p' s') as [rest|]; cbn [bind] in E; [|discriminate E].
          injection E as <-. apply in_or_app. left. exact Hin.
      - destruct (g_any_empty B g); [discriminate H|].
        pose proof (move_next_lt B T t HS pos stride) as Hlt.
        destruct (n_move_next GW (mask t) pos stride) as [p' s']. cbn [fst] in Hlt.
        destruct (iter_hash_loop B n t tag p' s') as [rest|] eqn:Er; cbn [bind] in E; [|discriminate E].
        injection E as <-. apply in_or_app. right. apply (IH p' s' rest Hlt H Er).
    Qed.

    (* ---- IH1: termination, soundness, no repetition ---- *)
    Hypothesis HC : Count T t.
    Variable hash : Z.

    Local Notation p0 := (n_probe_start (mask t) hash).
    Local Notation PS j := (pseq B (mask t) p0 j).

    Lemma iter_hash_loop_ok tag : (0 <= tag < 128)%Z -> forall n j,
      (exists j', j <= j' < j + n /\ HasEmpty B T t hash j') ->
      (nb T t < GW -> n <= 1) ->
      (GW <= nb T t -> j + n <= nb T t / GW) ->
      exists idx, iter_hash_loop B n t tag (fst (PS j)) (snd (PS j)) = Ok idx /\
        (forall i, In i idx ->
           i < nb T t /\ is_full (byte T t i) = true /\
           (GW <= nb T t -> exists j', j <= j' < j + n /\ (i + nb T t - fst (PS j')) mod nb T t < GW)) /\
        NoDup idx.
    Proof.
      intros Htag. induction n as [|n IH]; intros j (j' & Hj' & He) Hsm Hbg; [lia|].
      cbn [iter_hash_loop].
      destruct (load_PS B T t HS HM hash j) as (g & Hg & Hok). rewrite Hg. cbn [bind].
      fold (step_idx (fst (PS j)) g tag).
      destruct (step_idx_ok _ g tag (PS_lt B T t HS hash j) Hg Htag) as (Hstep & Hnd).
      assert (Hhere : forall i, In i (step_idx (fst (PS j)) g tag) ->
                i < nb T t /\ is_full (byte T t i) = true /\
                (GW <= nb T t -> exists j', j <= j' < j + S n /\ (i + nb T t - fst (PS j')) mod nb T t < GW)).
      { intros i Hi. destruct (Hstep i Hi) as (A & F & W). split; [exact A|]. split; [exact F|].
        intros Hbig. exists j. split; [lia|]. apply W. exact Hbig. }
      rewrite (bs_any_empty B HB g Hok).
      destruct (existsb is_empty g) eqn:Ee.
      - eexists. split; [reflexivity|]. split; [exact Hhere|exact Hnd].
      - assert (Hne : j' <> j).
        { intros ->. rewrite (HasEmpty_load B T t hash j g He Hg) in Ee. discriminate Ee. }
        destruct (Nat.le_gt_cases GW (nb T t)) as [Hbig|Hsmall]; [|specialize (Hsm Hsmall); lia].
        rewrite <- pseq_S. destruct (PS (S j)) as [p' s'] eqn:EPS.
        specialize (IH (S j)). rewrite EPS in IH. cbn [fst snd] in IH.
        destruct IH as (rest & Er & Hrest & Hndr).
        { exists j'. split; [lia|exact He]. }
        { intros Hs. lia. }
        { intros _. specialize (Hbg Hbig). lia. }
        rewrite Er. cbn [bind]. eexists. split; [reflexivity|]. split.
        + intros i Hi. apply in_app_or in Hi as [Hi|Hi]; [apply Hhere; exact Hi|].
          destruct (Hrest i Hi) as (A & F & W). split; [exact A|]. split; [exact F|].
          intros _. destruct (W Hbig) as (j2 & Hj2 & Hw2). exists j2. split; [lia|exact Hw2].
        + apply NoDup_app_disj; [exact Hnd|exact Hndr|].
          intros i Hi1 Hi2. destruct (Hstep i Hi1) as (A & _ & W1). specialize (W1 Hbig).
          destruct (Hrest i Hi2) as (_ & _ & W2). destruct (W2 Hbig) as (j2 & Hj2 & Hw2).
          specialize (Hbg Hbig).
          assert (Hd1 : j < S (mask t) / GW) by (change (S (mask t)) with (nb T t); lia).
          assert (Hd2 : j2 < S (mask t) / GW) by (change (S (mask t)) with (nb T t); lia).
          assert (Ej : j = j2).
          { exact (window_disjoint (mask t) p0 i j j2 HMask Hbig
                     (n_probe_start_lt (mask t) hash HMask) A Hd1 Hd2 W1 Hw2). }
          lia.
    Qed.

    Lemma iter_hash_sound_parts :
      exists idx, iter_hash B t hash = Ok idx /\
        (forall i, In i idx -> i < nb T t /\ is_full (byte T t i) = true) /\ NoDup idx.
    Proof.
      unfold iter_hash. destruct (reach_empty B T HW t HS HM HC hash) as (j & Hj & He).
      destruct (iter_hash_loop_ok (tag_full hash) (tag_full_range hash) (probe_fuel B T t) 0)
        as (idx & E & Hsound & Hnd).
      - exists j. split; [lia|exact He].
      - intros Hsmall. unfold probe_fuel. fold (nb T t). rewrite Nat.div_small by exact Hsmall. lia.
      - intros Hbig. unfold probe_fuel. fold (nb T t).
        assert (1 <= nb T t / GW).
        { apply Nat.div_le_lower_bound; [pose proof GW_pos_ih; lia|lia]. }
        lia.
      - exists idx. split; [exact E|]. split; [|exact Hnd].
        intros i Hi. destruct (Hsound i Hi) as (A & F & _). split; assumption.
    Qed.
  End OneTable.

  (* ---------------------------------------------------------------------------------------- *)
  (* packaged                                                                                   *)
  (* ---------------------------------------------------------------------------------------- *)
  (* IH1 *)
  Theorem iter_hash_sound t hash : SafeWF B kv t -> mask t <> 0 ->
    exists idx, iter_hash B t hash = Ok idx /\
      (forall i, In i idx -> i < nb kv t /\ is_full (byte kv t i) = true) /\ NoDup idx.
  Proof.
    intros H Hnz. destruct (SafeWF_parts B kv t Hnz H) as (HS & HM & HC).
    apply iter_hash_sound_parts; assumption.
  Qed.

  (* IH2 *)
  Theorem iter_hash_complete t hash i : SafeWF B kv t -> mask t <> 0 -> i < nb kv t ->
    byte kv t i = tag_full hash -> reach_ok B kv t hash i = true ->
    forall idx, iter_hash B t hash = Ok idx -> In i idx.
  Proof.
    intros H Hnz Hi Hb Hr idx E. destruct (SafeWF_parts B kv t Hnz H) as (HS & HM & HC).
    unfold iter_hash in E. unfold reach_ok in Hr.
    apply (iter_hash_loop_complete t HS HM (tag_full hash) i (tag_full_range hash) Hi Hb
             (probe_fuel B kv t) (n_probe_start (mask t) hash) 0 idx); try assumption.
    apply n_probe_start_lt. apply (Shape_MaskOK B kv t HS).
  Qed.

  (* valid tables of either kind: never fails, yields only real FULL buckets, none twice *)
  Corollary iter_hash_total t hash : SafeWF B kv t ->
    exists idx, iter_hash B t hash = Ok idx /\ NoDup idx /\
      (forall i, In i idx -> mask t <> 0 /\ i < nb kv t /\ is_full (byte kv t i) = true).
  Proof.
    intros H. destruct (Nat.eq_dec (mask t) 0) as [E0|Hnz].
    - assert (Et : t = new_table B kv).
      { unfold SafeWF in H. rewrite E0 in H. exact H. }
      rewrite Et. exists []. split; [apply iter_hash_singleton|]. split; [constructor|].
      intros i [].
    - destruct (iter_hash_sound t hash H Hnz) as (idx & E & Hs & Hnd).
      exists idx. split; [exact E|]. split; [exact Hnd|].
      intros i Hi. destruct (Hs i Hi). auto.
  Qed.
End IterHash.

Print Assumptions window_disjoint_Z.
Print Assumptions window_disjoint.
Print Assumptions StronglySorted_lt_NoDup.
Print Assumptions iter_hash_singleton.
Print Assumptions iter_hash_sound.
Print Assumptions iter_hash_complete.
Print Assumptions iter_hash_total.
