(* ProbeFacts.v -- P1: a well-formed table always holds an EMPTY control byte; P2: the probe
   sequence in closed form, and it covers every bucket within buckets/WIDTH steps; P3: every probe
   loop of the model (find_inner, find_insert_slot, find_or_find_insert_slot_inner) terminates
   within the fuel the code relies on and returns what it promises. *)
From Coq Require Import ZArith List Bool Lia Znumtheory.
From HB Require Import RsPrelude Sse2 Gen Group Raw Check ArithFacts Triangular WFDefs GroupFacts.
Import ListNotations.
Open Scope nat_scope.

(* ---------------------------------------------------------------------------------------- *)
(* P1: an EMPTY byte exists                                                                   *)
(* ---------------------------------------------------------------------------------------- *)
Lemma count_cover l : Forall valid_ctrl l ->
  length l <= count_p is_full l + count_p is_deleted l + count_p is_empty l.
Proof.
  induction 1 as [|b l Hb Hl IH]; [cbn; lia|].
  rewrite !count_p_cons. cbn [length].
  destruct (valid_ctrl_cases b Hb) as [E | [E | E]]; rewrite E;
    destruct (is_full b), (is_deleted b), (is_empty b); lia.
Qed.

Lemma count_pos_exists p l : 0 < count_p p l -> exists i, i < length l /\ p (nth i l 0%Z) = true.
Proof.
  induction l as [|b l IH]; [cbn; lia|].
  rewrite count_p_cons. destruct (p b) eqn:E.
  - intros _. exists 0. split; [cbn; lia|exact E].
  - intros H. destruct (IH ltac:(lia)) as (i & Hi & Hp). exists (S i). split; [cbn; lia|exact Hp].
Qed.

Lemma z_cap_lt mask : MaskOK mask -> (0 < z_cap mask < zn (S mask))%Z.
Proof.
  intros H. destruct (MaskOK_zn mask H) as (k & Hk & E & Em).
  unfold z_cap. rewrite Em, E. apply cap_lt_buckets. lia.
Qed.

Section Probe.
  Variable B : backend.
  Variable T : Type.
  Hypothesis HW : WidthOK B.
  Local Notation GW := (bk_width B).

  Theorem exists_empty t : Shape B T t -> Count T t ->
    exists i, i < nb T t /\ byte T t i = EMPTY.
  Proof.
    intros HS (Hit & Hsum & Hgl & _).
    pose proof (z_cap_lt (mask t) (Shape_MaskOK B T t HS)) as Hcap.
    pose proof (real_ctrl_length B T t HS) as Hlen.
    assert (Hv : Forall valid_ctrl (real_ctrl T t)).
    { destruct HS as (_ & _ & _ & Hv). unfold real_ctrl. apply Forall_firstn_. exact Hv. }
    pose proof (count_cover _ Hv) as Hc. rewrite Hlen in Hc.
    unfold zn, nb, buckets in *.
    destruct (count_pos_exists is_empty (real_ctrl T t) ltac:(lia)) as (i & Hi & He).
    rewrite Hlen in Hi. exists i. split; [exact Hi|].
    rewrite (real_ctrl_nth B T t i 0%Z Hi HS) in He. apply Z.eqb_eq in He. exact He.
  Qed.

  (* ---------------------------------------------------------------------------------------- *)
  (* P2: positions of the probe sequence                                                        *)
  (* ---------------------------------------------------------------------------------------- *)
  (* (position, stride) after j calls of ProbeSeq::move_next *)
  Fixpoint pseq (mask p0 : nat) (j : nat) : nat * nat :=
    match j with
    | O => (p0, 0)
    | S j' => let '(p, s) := pseq mask p0 j' in n_move_next GW mask p s
    end.

  Definition ppos (t : table T) (hash : Z) (j : nat) : nat :=
    fst (pseq (mask t) (n_probe_start (mask t) hash) j).
  Definition pstride (t : table T) (hash : Z) (j : nat) : nat :=
    snd (pseq (mask t) (n_probe_start (mask t) hash) j).

  Lemma pseq_S mask p0 j :
    pseq mask p0 (S j) = n_move_next GW mask (fst (pseq mask p0 j)) (snd (pseq mask p0 j)).
  Proof. cbn [pseq]. destruct (pseq mask p0 j); reflexivity. Qed.

  Lemma n_move_next_lt mask p s : MaskOK mask -> fst (n_move_next GW mask p s) < S mask.
  Proof.
    intros H. unfold n_move_next, probe_move_next. cbn [fst].
    rewrite land_zmask by assumption.
    pose proof (MaskOK_bounds mask H) as Hb. unfold zn, nz in *.
    match goal with |- Z.to_nat (?x mod _) < _ =>
      pose proof (Z.mod_pos_bound x (Z.of_nat (S mask)) ltac:(lia)) end. lia.
  Qed.

  Lemma pseq_lt mask p0 j : MaskOK mask -> p0 < S mask -> fst (pseq mask p0 j) < S mask.
  Proof.
    intros H Hp. destruct j as [|j]; [exact Hp|]. rewrite pseq_S. apply n_move_next_lt. exact H.
  Qed.

  Lemma zn_GW_le : (zn GW <= 16)%Z.
  Proof. unfold zn. destruct HW as [-> | ->]; lia. Qed.

  (* closed form: position (p0 + GW * T_j) mod buckets, stride j * GW *)
  Theorem pseq_closed mask p0 j : MaskOK mask -> p0 < S mask -> (zn (j * GW) <= 2 ^ 62)%Z ->
    pseq mask p0 j = (Z.to_nat ((zn p0 + zn GW * tri (zn j)) mod zn (S mask)), j * GW).
  Proof.
    intros H Hp. pose proof (MaskOK_bounds mask H) as Hb.
    induction j as [|j IH]; intros Hj.
    - cbn [pseq]. change (tri (zn 0)) with 0%Z. rewrite Z.mul_0_r, Z.add_0_r.
      rewrite Z.mod_small by (unfold zn in *; lia). unfold zn. rewrite Nat2Z.id. reflexivity.
    - rewrite pseq_S. rewrite IH by (unfold zn in *; lia). cbn [fst snd].
      set (X := (zn p0 + zn GW * tri (zn j))%Z).
      pose proof (Z.mod_pos_bound X (zn (S mask)) ltac:(lia)) as HX.
      rewrite n_move_next_spec; [|assumption|unfold zn in *; lia|].
      2:{ replace (j * GW + GW) with (S j * GW) by lia. exact Hj. }
      f_equal; [|lia].
      apply Nat2Z.inj. rewrite Nat2Z.inj_mod, !Nat2Z.inj_add.
      rewrite (Z2Nat.id (X mod _)) by lia.
      rewrite Z2Nat.id by (apply Z.mod_pos_bound; unfold zn in *; lia). fold (zn (S mask)).
      rewrite <- Z.add_assoc, Zplus_mod_idemp_l. f_equal.
      unfold X. replace (zn (S j)) with (zn j + 1)%Z by (unfold zn; lia).
      rewrite tri_succ by (unfold zn; lia). unfold zn. rewrite Nat2Z.inj_mul. ring.
  Qed.

  Lemma ppos_lt t hash j : Shape B T t -> ppos t hash j < nb T t.
  Proof.
    intros HS. apply pseq_lt; [apply (Shape_MaskOK B T); assumption|].
    apply n_probe_start_lt. apply (Shape_MaskOK B T); assumption.
  Qed.

  Lemma pstride_eq t hash j : Shape B T t -> (zn (j * GW) <= 2 ^ 62)%Z -> pstride t hash j = j * GW.
  Proof.
    intros HS Hj. unfold pstride. rewrite pseq_closed; [reflexivity| | |assumption].
    - apply (Shape_MaskOK B T); assumption.
    - apply n_probe_start_lt. apply (Shape_MaskOK B T); assumption.
  Qed.

  (* Z-level coverage, from Triangular.probe_permutation *)
  Lemma coverage_Z g k p0 i : (0 <= g <= k -> k <= 62 -> 0 <= p0 < 2 ^ k -> 0 <= i < 2 ^ k ->
    exists j, 0 <= j < 2 ^ (k - g) /\
              0 <= (i - (p0 + 2 ^ g * tri j) mod 2 ^ k) mod 2 ^ k < 2 ^ g)%Z.
  Proof.
    intros Hg Hk Hp0 Hi.
    assert (Hpg : (0 < 2 ^ g)%Z) by (apply pow2_pos; lia).
    assert (Hpk : (0 < 2 ^ k)%Z) by (apply pow2_pos; lia).
    assert (Hpkg : (0 < 2 ^ (k - g))%Z) by (apply pow2_pos; lia).
    assert (Ek : (2 ^ k = 2 ^ g * 2 ^ (k - g))%Z) by (rewrite <- Z.pow_add_r by lia; f_equal; lia).
    set (d := ((i - p0) mod 2 ^ k)%Z).
    assert (Hd : (0 <= d < 2 ^ k)%Z) by (apply Z.mod_pos_bound; lia).
    set (r := (d / 2 ^ g)%Z).
    assert (Hr : (0 <= r < 2 ^ (k - g))%Z).
    { split; [apply Z.div_pos; lia|]. apply Z.div_lt_upper_bound; lia. }
    destruct (probe_permutation g k p0 Hg Hk Hp0 r Hr) as (j & Hj & Ej & _).
    exists j. split; [exact Hj|]. rewrite Ej.
    rewrite Zminus_mod_idemp_r.
    replace (i - (p0 + 2 ^ g * r))%Z with ((i - p0) - 2 ^ g * r)%Z by lia.
    rewrite <- Zminus_mod_idemp_l. fold d.
    pose proof (Z.div_mod d (2 ^ g) ltac:(lia)) as Hdm. fold r in Hdm.
    pose proof (Z.mod_pos_bound d (2 ^ g) Hpg) as Hm.
    replace (d - 2 ^ g * r)%Z with (d mod 2 ^ g)%Z by lia.
    assert (2 ^ g <= 2 ^ k)%Z by (apply pow2_le_mono; lia).
    rewrite Z.mod_small by lia. lia.
  Qed.

  Lemma GW_pow2 : exists g, (3 <= g <= 4)%Z /\ zn GW = (2 ^ g)%Z.
  Proof. destruct HW as [E | E]; rewrite E; [exists 3%Z|exists 4%Z]; split; try lia; reflexivity. Qed.

  (* COVERAGE: every bucket lies in one of the first buckets/GW probed groups *)
  Theorem coverage t hash i : Shape B T t -> GW <= nb T t -> i < nb T t ->
    exists j, j < nb T t / GW /\ (i + nb T t - ppos t hash j) mod nb T t < GW.
  Proof.
    intros HS Hbig Hi.
    pose proof (Shape_MaskOK B T t HS) as HM.
    destruct (MaskOK_zn _ HM) as (k & Hk & Enb & _).
    destruct GW_pow2 as (g & Hg & EGW).
    pose proof (n_probe_start_lt (mask t) hash HM) as Hp0.
    fold (buckets T t) in Enb, Hp0. fold (nb T t) in Enb, Hp0.
    set (p0 := n_probe_start (mask t) hash) in *.
    assert (Hgk : (g <= k)%Z).
    { apply (Z.pow_le_mono_r_iff 2); [lia|lia|]. rewrite <- Enb, <- EGW. unfold zn. lia. }
    destruct (coverage_Z g k (zn p0) (zn i)) as (j & Hj & Hcov); try lia;
      try (rewrite <- Enb; unfold zn; lia).
    assert (Hdiv : zn (nb T t / GW) = (2 ^ (k - g))%Z).
    { unfold zn. rewrite Nat2Z.inj_div. fold (zn (nb T t)). fold (zn GW). rewrite Enb, EGW.
      symmetry. apply Z.pow_sub_r; lia. }
    assert (Hpkg : (0 < 2 ^ (k - g))%Z) by (apply pow2_pos; lia).
    assert (Ek : (2 ^ k = 2 ^ g * 2 ^ (k - g))%Z) by (rewrite <- Z.pow_add_r by lia; f_equal; lia).
    assert (Hk62 : (2 ^ k <= 2 ^ 62)%Z) by (apply pow2_le_mono; lia).
    exists (Z.to_nat j). split; [unfold zn in *; lia|].
    assert (Hjb : (zn (Z.to_nat j * GW) <= 2 ^ 62)%Z).
    { unfold zn in *. rewrite Nat2Z.inj_mul, Z2Nat.id by lia. rewrite EGW. nia. }
    pose proof (ppos_lt t hash (Z.to_nat j) HS) as Hpl.
    unfold ppos in *. fold p0 in Hpl |- *. rewrite pseq_closed in Hpl |- * by assumption.
    cbn [fst] in *. unfold nb, buckets in *. fold (zn (S (mask t))) in *.
    rewrite Enb, EGW in *. replace (zn (Z.to_nat j)) with j in * by (unfold zn; lia).
    set (P := ((zn p0 + 2 ^ g * tri j) mod 2 ^ k)%Z) in *.
    assert (HP : (0 <= P < 2 ^ k)%Z) by (apply Z.mod_pos_bound; lia).
    apply Nat2Z.inj_lt. rewrite Nat2Z.inj_mod. fold (zn (S (mask t))). rewrite Enb.
    fold (zn GW). rewrite EGW.
    replace (Z.of_nat (i + S (mask t) - Z.to_nat P)) with ((zn i - P) + 1 * zn (S (mask t)))%Z
      by (unfold zn in *; lia).
    rewrite Enb, Z.mod_add by lia. lia.
  Qed.

  (* the same, as an offset inside the probed group *)
  Corollary coverage_offset t hash i : Shape B T t -> GW <= nb T t -> i < nb T t ->
    exists j m, j < nb T t / GW /\ m < GW /\ (ppos t hash j + m) mod nb T t = i.
  Proof.
    intros HS Hbig Hi. destruct (coverage t hash i HS Hbig Hi) as (j & Hj & Hm).
    exists j, ((i + nb T t - ppos t hash j) mod nb T t). split; [exact Hj|]. split; [exact Hm|].
    pose proof (ppos_lt t hash j HS) as Hp.
    rewrite Nat.add_mod_idemp_r by lia.
    replace (ppos t hash j + (i + nb T t - ppos t hash j)) with (i + 1 * nb T t) by lia.
    rewrite Nat.mod_add by lia. apply Nat.mod_small. exact Hi.
  Qed.
End Probe.

(* ---------------------------------------------------------------------------------------- *)
(* bytes and first_index                                                                      *)
(* ---------------------------------------------------------------------------------------- *)
Lemma is_full_bit b : is_full b = negb (Z.testbit b 7).
Proof.
  unfold is_full, tag_is_full. destruct (Z.testbit b 7) eqn:E; cbn [negb].
  - destruct (Z.eqb_spec (Z.land b 128) 0) as [E0|]; [|reflexivity]. exfalso.
    assert (H : Z.testbit (Z.land b 128) 7 = true) by (rewrite Z.land_spec, E; reflexivity).
    rewrite E0 in H. discriminate H.
  - apply Z.eqb_eq. apply Z.bits_inj'. intros n Hn. rewrite Z.land_spec, Z.bits_0.
    change 128%Z with (2 ^ 7)%Z. rewrite Z.pow2_bits_eqb by lia.
    destruct (Z.eqb_spec 7 n) as [<-|]; [rewrite E; reflexivity|apply andb_false_r].
Qed.

Lemma lxor1_full x t : (0 <= t < 128)%Z -> Z.lxor x t = 1%Z -> is_full x = true.
Proof.
  intros Ht E. rewrite is_full_bit.
  assert (H : Z.testbit (Z.lxor x t) 7 = false) by (rewrite E; reflexivity).
  rewrite Z.lxor_spec in H. pose proof (is_full_small t Ht) as Hf. rewrite is_full_bit in Hf.
  destruct (Z.testbit x 7), (Z.testbit t 7); cbn in *; congruence.
Qed.

Lemma tag_full_range hash : (0 <= tag_full hash < 128)%Z.
Proof.
  unfold tag_full. cbv zeta.
  match goal with |- context [Z.land ?x 127] => set (y := x) end.
  change 127%Z with (2 ^ 7 - 1)%Z. rewrite land_ones_mod by lia.
  pose proof (Z.mod_pos_bound y (2 ^ 7) ltac:(lia)) as Hm. change (2 ^ 7)%Z with 128%Z in *.
  rewrite wrap_small; [lia|]. change (2 ^ 8)%Z with 256%Z. lia.
Qed.

Lemma first_from_Some p g : forall from i, first_from p from g = Some i ->
  from <= i /\ i - from < length g /\ p (nth (i - from) g 0%Z) = true.
Proof.
  induction g as [|b r IH]; intros from i H; [discriminate|].
  cbn [first_from] in H. destruct (p b) eqn:E.
  - injection H as <-. rewrite Nat.sub_diag. cbn. repeat split; try lia. exact E.
  - destruct (IH _ _ H) as (H1 & H2 & H3).
    replace (i - from) with (S (i - S from)) by lia. cbn [length nth]. repeat split; try lia. exact H3.
Qed.

Lemma first_from_le p g : forall from j, j < length g -> p (nth j g 0%Z) = true ->
  exists i, first_from p from g = Some i /\ i <= from + j.
Proof.
  induction g as [|b r IH]; intros from j Hj Hp; [cbn in Hj; lia|].
  cbn [first_from]. destruct (p b) eqn:E.
  - exists from. split; [reflexivity|lia].
  - destruct j as [|j]; [cbn in Hp; congruence|].
    cbn in Hj, Hp. destruct (IH (S from) j ltac:(lia) Hp) as (i & Hi & Hle).
    exists i. split; [exact Hi|lia].
Qed.

Lemma first_index_Some p g i : first_index p g = Some i ->
  i < length g /\ p (nth i g 0%Z) = true.
Proof.
  intros H. destruct (first_from_Some p g 0 i H) as (_ & H2 & H3).
  rewrite Nat.sub_0_r in *. split; assumption.
Qed.

Lemma first_index_le p g j : j < length g -> p (nth j g 0%Z) = true ->
  exists i, first_index p g = Some i /\ i <= j.
Proof. intros Hj Hp. exact (first_from_le p g 0 j Hj Hp). Qed.

Lemma existsb_empty_special g : existsb is_empty g = true ->
  exists j, j < length g /\ is_special (nth j g 0%Z) = true.
Proof.
  intros H. apply existsb_exists in H as (x & Hin & Hx).
  destruct (In_nth g x 0%Z Hin) as (j & Hj & Ej). exists j. split; [exact Hj|].
  rewrite Ej. apply is_empty_special. exact Hx.
Qed.

(* ---------------------------------------------------------------------------------------- *)
(* P3: termination of the probe loops                                                         *)
(* ---------------------------------------------------------------------------------------- *)
Section Termination.
  Variable B : backend.
  Variable T : Type.
  Hypothesis HW : WidthOK B.
  Hypothesis HB : BackendSpec B.
  Local Notation GW := (bk_width B).
  Variable t : table T.
  Hypothesis HS : Shape B T t.
  Hypothesis HM : Mirror B T t.
  Hypothesis HC : Count T t.
  Variable hash : Z.

  Local Notation p0 := (n_probe_start (mask t) hash).
  Local Notation PS j := (pseq B (mask t) p0 j).

  Let HMask : MaskOK (mask t) := Shape_MaskOK B T t HS.

  Lemma PS_lt j : fst (PS j) < nb T t.
  Proof. exact (ppos_lt B T t hash j HS). Qed.

  (* the group probed at step j contains an EMPTY byte *)
  Definition HasEmpty (j : nat) : Prop :=
    exists g, load B T t (fst (PS j)) = Ok g /\ existsb is_empty g = true.

  (* within the fuel, the probe sequence reaches a group that contains an EMPTY byte *)
  Lemma reach_empty : exists j, j < probe_fuel B T t /\ HasEmpty j.
  Proof.
    destruct (exists_empty B T t HS HC) as (i & Hi & Ei).
    destruct (Nat.le_gt_cases GW (nb T t)) as [Hbig|Hsmall].
    - destruct (coverage_offset B T HW t hash i HS Hbig Hi) as (j & m & Hj & Hm & E).
      exists j. split; [unfold probe_fuel; fold (nb T t); lia|].
      destruct (load_view B T t _ HS HM (PS_lt j)) as (g & Hg & Hlen & Hok & Hv & _).
      exists g. split; [exact Hg|]. apply existsb_exists. exists (nth m g 0%Z).
      split; [apply nth_In; lia|]. rewrite Hv by assumption.
      unfold ppos in E. rewrite E, Ei. reflexivity.
    - exists 0. split; [unfold probe_fuel; lia|].
      pose proof (PS_lt 0) as Hp.
      destruct (load_view B T t _ HS HM Hp) as (g & Hg & Hlen & Hok & _ & Hv).
      exists g. split; [exact Hg|]. apply existsb_exists.
      set (m := nb T t - fst (PS 0)). exists (nth m g 0%Z).
      split; [apply nth_In; lia|]. rewrite (Hv Hsmall m ltac:(lia)).
      destruct (Nat.ltb_spec (fst (PS 0) + m) (nb T t)); [lia|].
      destruct (Nat.ltb_spec (fst (PS 0) + m) GW); [reflexivity|lia].
  Qed.

  Lemma HasEmpty_load j g : HasEmpty j -> load B T t (fst (PS j)) = Ok g -> existsb is_empty g = true.
  Proof. intros (g' & Hg' & He) Hg. rewrite Hg in Hg'. injection Hg' as <-. exact He. Qed.

  Lemma load_PS j : exists g, load B T t (fst (PS j)) = Ok g /\ group_ok GW g.
  Proof.
    destruct (load_view B T t _ HS HM (PS_lt j)) as (g & Hg & _ & Hok & _).
    exists g. split; assumption.
  Qed.

  (* ---- scan_matches ---- *)
  Section Eq.
    Variable eq : nat -> res bool.
    (* the callback is only ever asked about FULL buckets; there it must answer *)
    Hypothesis Heq : forall i, i < nb T t -> is_full (byte T t i) = true -> exists b, eq i = Ok b.

    Lemma scan_matches_ok pos bits :
      (forall b, In b bits -> exists r, eq (n_land (pos + b) (mask t)) = Ok r) ->
      exists r, scan_matches T t eq pos bits = Ok r /\
                forall i, r = Some i -> i < nb T t /\ eq i = Ok true.
    Proof.
      induction bits as [|b r IH]; intros H.
      - exists None. split; [reflexivity|discriminate].
      - cbn [scan_matches]. destruct (H b (or_introl eq_refl)) as (e & He). rewrite He. cbn [bind].
        destruct e.
        + eexists. split; [reflexivity|]. intros i Ei. injection Ei as <-.
          split; [apply n_land_lt; exact HMask|exact He].
        + apply IH. intros b' Hb'. apply H. right. exact Hb'.
    Qed.

    Lemma match_tag_eq_ok pos g tag : pos < nb T t -> load B T t pos = Ok g -> (0 <= tag < 128)%Z ->
      forall b, In b (g_match_tag B g tag) -> exists r, eq (n_land (pos + b) (mask t)) = Ok r.
    Proof.
      intros Hpos Hg Htag b Hb.
      pose proof (load_group_ok B T t pos g HS ltac:(lia) Hg) as Hok.
      pose proof (bs_match_tag_bound B HB g tag b Hok Htag Hb) as Hlt.
      assert (Hfull : is_full (nth b g 0%Z) = true).
      { destruct (bs_match_tag_sound B HB g tag b Hok Htag Hb) as [E | [E _]].
        - rewrite E. apply is_full_small. exact Htag.
        - apply (lxor1_full _ tag); assumption. }
      rewrite n_land_mod by exact HMask. fold (buckets T t). fold (nb T t).
      apply Heq; [apply Nat.mod_upper_bound; lia|].
      destruct (view_masked B T HW t pos g HS HM Hpos Hg b Hlt) as [E | (_ & _ & E)].
      - rewrite <- E. exact Hfull.
      - rewrite E in Hfull. discriminate Hfull.
    Qed.

    Lemma scan_group_ok pos g tag : pos < nb T t -> load B T t pos = Ok g -> (0 <= tag < 128)%Z ->
      exists r, scan_matches T t eq pos (g_match_tag B g tag) = Ok r /\
                forall i, r = Some i -> i < nb T t /\ eq i = Ok true.
    Proof. intros Hpos Hg Htag. apply scan_matches_ok. apply (match_tag_eq_ok pos g tag); assumption. Qed.

    (* ---- find_inner ---- *)
    Lemma find_inner_loop_ok tag : (0 <= tag < 128)%Z -> forall n j,
      (exists j', j <= j' < j + n /\ HasEmpty j') ->
      exists r, find_inner_loop B T n t tag eq (fst (PS j)) (snd (PS j)) = Ok r /\
                forall i, r = Some i -> i < nb T t /\ eq i = Ok true.
    Proof.
      intros Htag. induction n as [|n IH]; intros j (j' & Hj' & He); [lia|].
      cbn [find_inner_loop].
      destruct (load_PS j) as (g & Hg & Hok). rewrite Hg. cbn [bind].
      destruct (scan_group_ok _ g tag (PS_lt j) Hg Htag) as (r & Hr & Hspec). rewrite Hr. cbn [bind].
      destruct r as [i|].
      - eexists. split; [reflexivity|]. exact Hspec.
      - rewrite (bs_any_empty B HB g Hok).
        destruct (existsb is_empty g) eqn:Ee.
        + eexists. split; [reflexivity|]. discriminate.
        + rewrite <- pseq_S. destruct (PS (S j)) as [p' s'] eqn:EPS.
          specialize (IH (S j)). rewrite EPS in IH. cbn [fst snd] in IH. apply IH.
          exists j'. split; [|exact He].
          destruct (Nat.eq_dec j' j) as [->|]; [|lia].
          rewrite (HasEmpty_load j g He Hg) in Ee. discriminate Ee.
    Qed.

    (* TERMINATION of find_inner *)
    Theorem find_inner_terminates :
      exists r, find_inner B T t hash eq = Ok r /\
                forall i, r = Some i -> i < nb T t /\ eq i = Ok true.
    Proof.
      unfold find_inner. destruct reach_empty as (j & Hj & He).
      apply (find_inner_loop_ok (tag_full hash) (tag_full_range hash) (probe_fuel B T t) 0).
      exists j. split; [lia|exact He].
    Qed.

    Corollary find_inner_fuel : find_inner B T t hash eq <> Fail OutOfFuel.
    Proof. destruct find_inner_terminates as (r & E & _). rewrite E. discriminate. Qed.
  End Eq.

  (* ---- insert slots ---- *)
  Lemma ctrl_at_ok i : i < nb T t -> ctrl_at T t i = Ok (byte T t i).
  Proof.
    intros Hi. unfold ctrl_at, byte. pose proof HS as (_ & Hl & _).
    rewrite (nth_error_nth' (ctrl t) POISON) by lia. reflexivity.
  Qed.

  (* a candidate insert slot: a real bucket that is special unless the table is smaller than a group *)
  Definition SlotCand (s : nat) : Prop :=
    s < nb T t /\ (is_full (byte T t s) = true -> nb T t < GW).

  Lemma fix_insert_slot_ok s : SlotCand s ->
    exists s', fix_insert_slot B T t s = Ok s' /\ s' < nb T t /\ is_special (byte T t s') = true.
  Proof.
    intros (Hs & Hfull). unfold fix_insert_slot, is_bucket_full.
    rewrite ctrl_at_ok by exact Hs. cbn [bind].
    destruct (is_full (byte T t s)) eqn:F.
    - specialize (Hfull eq_refl).
      destruct (load_aligned_0_view B T HW t HS HM) as (g0 & Hg0 & Hok & Hreal & _).
      rewrite Hg0. cbn [bind]. rewrite (bs_lowest_eod B HB g0 Hok).
      destruct (exists_empty B T t HS HC) as (i0 & Hi0 & Ei0).
      assert (Hsp : is_special (nth i0 g0 0%Z) = true).
      { rewrite Hreal by lia. rewrite Ei0. reflexivity. }
      destruct (first_index_le is_special g0 i0 ltac:(destruct Hok as [-> _]; lia) Hsp) as (i & Ei & Hle).
      rewrite Ei. exists i. split; [reflexivity|]. split; [lia|].
      destruct (first_index_Some _ _ _ Ei) as (_ & Hspi). rewrite Hreal in Hspi by lia. exact Hspi.
    - exists s. split; [reflexivity|]. split; [exact Hs|]. rewrite is_special_negb_full, F. reflexivity.
  Qed.

  Lemma in_group_cand pos g s : pos < nb T t -> load B T t pos = Ok g ->
    find_insert_slot_in_group B T t g pos = Some s -> SlotCand s.
  Proof.
    intros Hpos Hg H. unfold find_insert_slot_in_group in H.
    pose proof (load_group_ok B T t pos g HS ltac:(lia) Hg) as Hok.
    rewrite (bs_lowest_eod B HB g Hok) in H.
    destruct (first_index is_special g) as [bit|] eqn:Eb; [|discriminate]. injection H as <-.
    destruct (first_index_Some _ _ _ Eb) as (Hlt & Hsp). destruct Hok as [Hlen _]. rewrite Hlen in Hlt.
    rewrite n_land_mod by exact HMask. fold (buckets T t). fold (nb T t). split.
    - apply Nat.mod_upper_bound. lia.
    - intros Hfull.
      destruct (view_masked B T HW t pos g HS HM Hpos Hg bit Hlt) as [E | (Hsm & _ & _)]; [|exact Hsm].
      rewrite <- E in Hfull. rewrite is_special_negb_full, Hfull in Hsp. discriminate Hsp.
  Qed.

  Lemma in_group_some pos g : pos < nb T t -> load B T t pos = Ok g -> existsb is_empty g = true ->
    exists s, find_insert_slot_in_group B T t g pos = Some s.
  Proof.
    intros Hpos Hg He. unfold find_insert_slot_in_group.
    pose proof (load_group_ok B T t pos g HS ltac:(lia) Hg) as Hok.
    rewrite (bs_lowest_eod B HB g Hok).
    destruct (existsb_empty_special g He) as (j & Hj & Hsp).
    destruct (first_index_le is_special g j Hj Hsp) as (i & Ei & _). rewrite Ei. eexists. reflexivity.
  Qed.

  Lemma find_insert_slot_loop_ok : forall n j,
    (exists j', j <= j' < j + n /\ HasEmpty j') ->
    exists i, find_insert_slot_loop B T n t (fst (PS j)) (snd (PS j)) = Ok i /\
              i < nb T t /\ is_special (byte T t i) = true.
  Proof.
    induction n as [|n IH]; intros j (j' & Hj' & He); [lia|].
    cbn [find_insert_slot_loop].
    destruct (load_PS j) as (g & Hg & Hok). rewrite Hg. cbn [bind].
    destruct (find_insert_slot_in_group B T t g (fst (PS j))) as [s|] eqn:Es.
    - apply fix_insert_slot_ok. apply (in_group_cand _ g s (PS_lt j) Hg Es).
    - rewrite <- pseq_S. destruct (PS (S j)) as [p' s'] eqn:EPS.
      specialize (IH (S j)). rewrite EPS in IH. cbn [fst snd] in IH. apply IH.
      exists j'. split; [|exact He].
      destruct (Nat.eq_dec j' j) as [->|]; [|lia].
      destruct (in_group_some _ g (PS_lt j) Hg (HasEmpty_load j g He Hg)) as (s & Es').
      rewrite Es' in Es. discriminate Es.
  Qed.

  (* TERMINATION of find_insert_slot: it returns a real bucket holding EMPTY or DELETED *)
  Theorem find_insert_slot_terminates :
    exists i, find_insert_slot B T t hash = Ok i /\ i < nb T t /\ is_special (byte T t i) = true.
  Proof.
    unfold find_insert_slot. destruct reach_empty as (j & Hj & He).
    apply (find_insert_slot_loop_ok (probe_fuel B T t) 0). exists j. split; [lia|exact He].
  Qed.

  Section Eq2.
    Variable eq : nat -> res bool.
    Hypothesis Heq : forall i, i < nb T t -> is_full (byte T t i) = true -> exists b, eq i = Ok b.

    Definition FoundOrSlot (r : nat + nat) : Prop :=
      match r with
      | inl i => i < nb T t /\ eq i = Ok true
      | inr s => s < nb T t /\ is_special (byte T t s) = true
      end.

    Lemma find_or_insert_loop_ok tag : (0 <= tag < 128)%Z -> forall n j ins,
      (forall s, ins = Some s -> SlotCand s) ->
      (exists j', j <= j' < j + n /\ HasEmpty j') ->
      exists r, find_or_insert_loop B T n t tag eq ins (fst (PS j)) (snd (PS j)) = Ok r /\ FoundOrSlot r.
    Proof.
      intros Htag. induction n as [|n IH]; intros j ins Hins (j' & Hj' & He); [lia|].
      cbn [find_or_insert_loop].
      destruct (load_PS j) as (g & Hg & Hok). rewrite Hg. cbn [bind].
      destruct (scan_group_ok eq Heq _ g tag (PS_lt j) Hg Htag) as (r & Hr & Hspec). rewrite Hr. cbn [bind].
      destruct r as [i|].
      - eexists. split; [reflexivity|]. exact (Hspec i eq_refl).
      - set (ins' := match ins with Some s => Some s | None => find_insert_slot_in_group B T t g (fst (PS j)) end).
        assert (Hins' : forall s, ins' = Some s -> SlotCand s).
        { intros s Es. unfold ins' in Es. destruct ins as [s0|].
          - apply Hins. exact Es.
          - apply (in_group_cand _ g s (PS_lt j) Hg Es). }
        rewrite (bs_any_empty B HB g Hok).
        destruct (existsb is_empty g) eqn:Ee.
        + assert (Hsome : exists s, ins' = Some s).
          { unfold ins'. destruct ins as [s0|]; [eexists; reflexivity|].
            apply (in_group_some _ g (PS_lt j) Hg Ee). }
          destruct Hsome as (s & Es). rewrite Es.
          destruct (fix_insert_slot_ok s (Hins' s Es)) as (s' & Hs' & Hlt & Hsp).
          rewrite Hs'. cbn [bind]. eexists. split; [reflexivity|]. split; assumption.
        + rewrite <- pseq_S. destruct (PS (S j)) as [p' s'] eqn:EPS.
          specialize (IH (S j) ins'). rewrite EPS in IH. cbn [fst snd] in IH. apply IH; [exact Hins'|].
          exists j'. split; [|exact He].
          destruct (Nat.eq_dec j' j) as [->|]; [|lia].
          rewrite (HasEmpty_load j g He Hg) in Ee. discriminate Ee.
    Qed.

    (* TERMINATION of find_or_find_insert_slot_inner *)
    Theorem find_or_find_insert_slot_inner_terminates :
      exists r, find_or_find_insert_slot_inner B T t hash eq = Ok r /\ FoundOrSlot r.
    Proof.
      unfold find_or_find_insert_slot_inner. destruct reach_empty as (j & Hj & He).
      apply (find_or_insert_loop_ok (tag_full hash) (tag_full_range hash) (probe_fuel B T t) 0 None).
      - discriminate.
      - exists j. split; [lia|exact He].
    Qed.
  End Eq2.
End Termination.

(* the form with a total callback *)
Corollary find_inner_total B T (HW : WidthOK B) (HB : BackendSpec B) (t : table T) hash eq :
  Shape B T t -> Mirror B T t -> Count T t -> (forall i, exists b, eq i = Ok b) ->
  exists r, find_inner B T t hash eq = Ok r.
Proof.
  intros HS HM HC Heq.
  destruct (find_inner_terminates B T HW HB t HS HM HC hash eq (fun i _ _ => Heq i)) as (r & E & _).
  exists r. exact E.
Qed.

Print Assumptions exists_empty.
Print Assumptions pseq_closed.
Print Assumptions coverage.
Print Assumptions find_inner_terminates.
Print Assumptions find_inner_fuel.
Print Assumptions find_inner_total.
Print Assumptions find_insert_slot_terminates.
Print Assumptions find_or_find_insert_slot_inner_terminates.
