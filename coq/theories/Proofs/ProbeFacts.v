(* ProbeFacts.v -- P1: a well-formed table always holds an EMPTY control byte; P2: the probe
   sequence in closed form, and it covers every bucket within buckets/WIDTH steps; P3: every probe
   loop of the model (find_inner, find_insert_slot, find_or_find_insert_slot_inner) terminates
   within the fuel the code relies on and returns what it promises. *)
From Coq Require Import ZArith List Bool Lia Znumtheory.
From HB Require Import RsPrelude Sse2 Gen Group Raw Check ArithFacts Triangular WFDefs GroupFacts.
Import ListNotations.
Open Scope nat_scope.

(* ---------------------------------------------------------------------------------------- *)
(* P1: an EMPTY byte exists                                                                   *)
(* ---------------------------------------------------------------------------------------- *)
Lemma count_cover l : Forall valid_ctrl l ->
  length l <= count_p is_full l + count_p is_deleted l + count_p is_empty l.
Proof.
  induction 1 as [|b l Hb Hl IH]; [cbn; lia|].
  rewrite !count_p_cons. cbn [length].
  destruct (valid_ctrl_cases b Hb) as [E | [E | E]]; rewrite E;
    destruct (is_full b), (is_deleted b), (is_empty b); lia.
Qed.

Lemma count_pos_exists p l : 0 < count_p p l -> exists i, i < length l /\ p (nth i l 0%Z) = true.
Proof.
  induction l as [|b l IH]; [cbn; lia|].
  rewrite count_p_cons. destruct (p b) eqn:E.
  - intros _. exists 0. split; [cbn; lia|exact E].
  - intros H. destruct (IH ltac:(lia)) as (i & Hi & Hp). exists (S i). split; [cbn; lia|exact Hp].
Qed.

Lemma z_cap_lt mask : MaskOK mask -> (0 < z_cap mask < zn (S mask))%Z.
Proof.
  intros H. destruct (MaskOK_zn mask H) as (k & Hk & E & Em).
  unfold z_cap. rewrite Em, E. apply cap_lt_buckets. lia.
Qed.

Section Probe.
  Variable B : backend.
  Variable T : Type.
  Hypothesis HW : WidthOK B.
  Local Notation GW := (bk_width B).

  Theorem exists_empty t : Shape B T t -> Count T t ->
    exists i, i < nb T t /\ byte T t i = EMPTY.
  Proof.
    intros HS (Hit & Hsum & Hgl & _).
    pose proof (z_cap_lt (mask t) (Shape_MaskOK B T t HS)) as Hcap.
    pose proof (real_ctrl_length B T t HS) as Hlen.
    assert (Hv : Forall valid_ctrl (real_ctrl T t)).
    { destruct HS as (_ & _ & _ & Hv). unfold real_ctrl. apply Forall_firstn_. exact Hv. }
    pose proof (count_cover _ Hv) as Hc. rewrite Hlen in Hc.
    unfold zn, nb, buckets in *.
    destruct (count_pos_exists is_empty (real_ctrl T t) ltac:(lia)) as (i & Hi & He).
    rewrite Hlen in Hi. exists i. split; [exact Hi|].
    rewrite (real_ctrl_nth B T t i 0%Z Hi HS) in He. apply Z.eqb_eq in He. exact He.
  Qed.

  (* ---------------------------------------------------------------------------------------- *)
  (* P2: positions of the probe sequence                                                        *)
  (* ---------------------------------------------------------------------------------------- *)
  (* (position, stride) after j calls of ProbeSeq::move_next *)
  Fixpoint pseq (mask p0 : nat) (j : nat) : nat * nat :=
    match j with
    | O => (p0, 0)
    | S j' => let '(p, s) := pseq mask p0 j' in n_move_next GW mask p s
    end.

  Definition ppos (t : table T) (hash : Z) (j : nat) : nat :=
    fst (pseq (mask t) (n_probe_start (mask t) hash) j).
  Definition pstride (t : table T) (hash : Z) (j : nat) : nat :=
    snd (pseq (mask t) (n_probe_start (mask t) hash) j).

  Lemma pseq_S mask p0 j :
    pseq mask p0 (S j) = n_move_next GW mask (fst (pseq mask p0 j)) (snd (pseq mask p0 j)).
  Proof. cbn [pseq]. destruct (pseq mask p0 j); reflexivity. Qed.

  Lemma n_move_next_lt mask p s : MaskOK mask -> fst (n_move_next GW mask p s) < S mask.
  Proof.
    intros H. unfold n_move_next, probe_move_next. cbn [fst].
    rewrite land_zmask by assumption.
    pose proof (MaskOK_bounds mask H) as Hb. unfold zn, nz in *.
    match goal with |- Z.to_nat (?x mod _) < _ =>
      pose proof (Z.mod_pos_bound x (Z.of_nat (S mask)) ltac:(lia)) end. lia.
  Qed.

  Lemma pseq_lt mask p0 j : MaskOK mask -> p0 < S mask -> fst (pseq mask p0 j) < S mask.
  Proof.
    intros H Hp. destruct j as [|j]; [exact Hp|]. rewrite pseq_S. apply n_move_next_lt. exact H.
  Qed.

  Lemma zn_GW_le : (zn GW <= 16)%Z.
  Proof. unfold zn. destruct HW as [-> | ->]; lia. Qed.

  (* closed form: position (p0 + GW * T_j) mod buckets, stride j * GW *)
  Theorem pseq_closed mask p0 j : MaskOK mask -> p0 < S mask -> (zn (j * GW) <= 2 ^ 62)%Z ->
    pseq mask p0 j = (Z.to_nat ((zn p0 + zn GW * tri (zn j)) mod zn (S mask)), j * GW).
  Proof.
    intros H Hp. pose proof (MaskOK_bounds mask H) as Hb.
    induction j as [|j IH]; intros Hj.
    - cbn [pseq]. change (tri (zn 0)) with 0%Z. rewrite Z.mul_0_r, Z.add_0_r.
      rewrite Z.mod_small by (unfold zn in *; lia). unfold zn. rewrite Nat2Z.id. reflexivity.
    - rewrite pseq_S. rewrite IH by (unfold zn in *; lia). cbn [fst snd].
      set (X := (zn p0 + zn GW * tri (zn j))%Z).
      pose proof (Z.mod_pos_bound X (zn (S mask)) ltac:(lia)) as HX.
      rewrite n_move_next_spec; [|assumption|unfold zn in *; lia|].
      2:{ replace (j * GW + GW) with (S j * GW) by lia. exact Hj. }
      f_equal; [|lia].
      apply Nat2Z.inj. rewrite Nat2Z.inj_mod, !Nat2Z.inj_add.
      rewrite (Z2Nat.id (X mod _)) by lia.
      rewrite Z2Nat.id by (apply Z.mod_pos_bound; unfold zn in *; lia). fold (zn (S mask)).
      rewrite <- Z.add_assoc, Zplus_mod_idemp_l. f_equal.
      unfold X. replace (zn (S j)) with (zn j + 1)%Z by (unfold zn; lia).
      rewrite tri_succ by (unfold zn; lia). unfold zn. rewrite Nat2Z.inj_mul. ring.
  Qed.

  Lemma ppos_lt t hash j : Shape B T t -> ppos t hash j < nb T t.
  Proof.
    intros HS. apply pseq_lt; [apply (Shape_MaskOK B T); assumption|].
    apply n_probe_start_lt. apply (Shape_MaskOK B T); assumption.
  Qed.

  Lemma pstride_eq t hash j : Shape B T t -> (zn (j * GW) <= 2 ^ 62)%Z -> pstride t hash j = j * GW.
  Proof.
    intros HS Hj. unfold pstride. rewrite pseq_closed; [reflexivity| | |assumption].
    - apply (Shape_MaskOK B T); assumption.
    - apply n_probe_start_lt. apply (Shape_MaskOK B T); assumption.
  Qed.

  (* Z-level coverage, from Triangular.probe_permutation *)
  Lemma coverage_Z g k p0 i : (0 <= g <= k -> k <= 62 -> 0 <= p0 < 2 ^ k -> 0 <= i < 2 ^ k ->
    exists j, 0 <= j < 2 ^ (k - g) /\
              0 <= (i - (p0 + 2 ^ g * tri j) mod 2 ^ k) mod 2 ^ k < 2 ^ g)%Z.
  Proof.
    intros Hg Hk Hp0 Hi.
    assert (Hpg : (0 < 2 ^ g)%Z) by (apply pow2_pos; lia).
    assert (Hpk : (0 < 2 ^ k)%Z) by (apply pow2_pos; lia).
    assert (Hpkg : (0 < 2 ^ (k - g))%Z) by (apply pow2_pos; lia).
    assert (Ek : (2 ^ k = 2 ^ g * 2 ^ (k - g))%Z) by (rewrite <- Z.pow_add_r by lia; f_equal; lia).
    set (d := ((i - p0) mod 2 ^ k)%Z).
    assert (Hd : (0 <= d < 2 ^ k)%Z) by (apply Z.mod_pos_bound; lia).
    set (r := (d / 2 ^ g)%Z).
    assert (Hr : (0 <= r < 2 ^ (k - g))%Z).
    { split; [apply Z.div_pos; lia|]. apply Z.div_lt_upper_bound; lia. }
    destruct (probe_permutation g k p0 Hg Hk Hp0 r Hr) as (j & Hj & Ej & _).
    exists j. split; [exact Hj|]. rewrite Ej.
    rewrite Zminus_mod_idemp_r.
    replace (i - (p0 + 2 ^ g * r))%Z with ((i - p0) - 2 ^ g * r)%Z by lia.
    rewrite <- Zminus_mod_idemp_l. fold d.
    pose proof (Z.div_mod d (2 ^ g) ltac:(lia)) as Hdm. fold r in Hdm.
    pose proof (Z.mod_pos_bound d (2 ^ g) Hpg) as Hm.
    replace (d - 2 ^ g * r)%Z with (d mod 2 ^ g)%Z by lia.
    assert (2 ^ g <= 2 ^ k)%Z by (apply pow2_le_mono; lia).
    rewrite Z.mod_small by lia. lia.
  Qed.

  Lemma GW_pow2 : exists g, (3 <= g <= 4)%Z /\ zn GW = (2 ^ g)%Z.
  Proof. destruct HW as [E | E]; rewrite E; [exists 3%Z|exists 4%Z]; split; try lia; reflexivity. Qed.

  (* COVERAGE: every bucket lies in one of the first buckets/GW probed groups *)
  Theorem coverage t hash i : Shape B T t -> GW <= nb T t -> i < nb T t ->
    exists j, j < nb T t / GW /\ (i + nb T t - ppos t hash j) mod nb T t < GW.
  Proof.
    intros HS Hbig Hi.
    pose proof (Shape_MaskOK B T t HS) as HM.
    destruct (MaskOK_zn _ HM) as (k & Hk & Enb & _).
    destruct GW_pow2 as (g & Hg & EGW).
    pose proof (n_probe_start_lt (mask t) hash HM) as Hp0.
    fold (buckets T t) in Enb, Hp0. fold (nb T t) in Enb, Hp0.
    set (p0 := n_probe_start (mask t) hash) in *.
    assert (Hgk : (g <= k)%Z).
    { apply (Z.pow_le_mono_r_iff 2); [lia|lia|]. rewrite <- Enb, <- EGW. unfold zn. lia. }
    destruct (coverage_Z g k (zn p0) (zn i)) as (j & Hj & Hcov); try lia;
      try (rewrite <- Enb; unfold zn; lia).
    assert (Hdiv : zn (nb T t / GW) = (2 ^ (k - g))%Z).
    { unfold zn. rewrite Nat2Z.inj_div. fold (zn (nb T t)). fold (zn GW). rewrite Enb, EGW.
      symmetry. apply Z.pow_sub_r; lia. }
    assert (Hpkg : (0 < 2 ^ (k - g))%Z) by (apply pow2_pos; lia).
    assert (Ek : (2 ^ k = 2 ^ g * 2 ^ (k - g))%Z) by (rewrite <- Z.pow_add_r by lia; f_equal; lia).
    assert (Hk62 : (2 ^ k <= 2 ^ 62)%Z) by (apply pow2_le_mono; lia).
    exists (Z.to_nat j). split; [unfold zn in *; lia|].
    assert (Hjb : (zn (Z.to_nat j * GW) <= 2 ^ 62)%Z).
    { unfold zn in *. rewrite Nat2Z.inj_mul, Z2Nat.id by lia. rewrite EGW. nia. }
    pose proof (ppos_lt t hash (Z.to_nat j) HS) as Hpl.
    unfold ppos in *. fold p0 in Hpl |- *. rewrite pseq_closed in Hpl |- * by assumption.
    cbn [fst] in *. unfold nb, buckets in *. fold (zn (S (mask t))) in *.
    rewrite Enb, EGW in *. replace (zn (Z.to_nat j)) with j in * by (unfold zn; lia).
    set (P := ((zn p0 + 2 ^ g * tri j) mod 2 ^ k)%Z) in *.
    assert (HP : (0 <= P < 2 ^ k)%Z) by (apply Z.mod_pos_bound; lia).
    apply Nat2Z.inj_lt. rewrite Nat2Z.inj_mod. fold (zn (S (mask t))). rewrite Enb.
    fold (zn GW). rewrite EGW.
    replace (Z.of_nat (i + S (mask t) - Z.to_nat P)) with ((zn i - P) + 1 * zn (S (mask t)))%Z
      by (unfold zn in *; lia).
    rewrite Enb, Z.mod_add by lia. lia.
  Qed.

  (* the same, as an offset inside the probed group *)
  Corollary coverage_offset t hash i : Shape B T t -> GW <= nb T t -> i < nb T t ->
    exists j m, j < nb T t / GW /\ m < GW /\ (ppos t hash j + m) mod nb T t = i.
  Proof.
    intros HS Hbig Hi. destruct (coverage t hash i HS Hbig Hi) as (j & Hj & Hm).
    exists j, ((i + nb T t - ppos t hash j) mod nb T t). split; [exact Hj|]. split; [exact Hm|].
    pose proof (ppos_lt t hash j HS) as Hp.
    rewrite Nat.add_mod_idemp_r by lia.
    replace (ppos t hash j + (i + nb T t - ppos t hash j)) with (i + 1 * nb T t) by lia.
    rewrite Nat.mod_add by lia. apply Nat.mod_small. exact Hi.
  Qed.
End Probe.
