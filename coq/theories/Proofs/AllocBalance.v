(* AllocBalance.v -- ALLOCATION BALANCE of every HashMap / HashSet operation and of every history
   (property C03, second half): at any moment the blocks requested from the allocator and not yet
   returned are exactly the one block of the current table (none for a table that never
   allocated); every other block ever requested has been returned exactly once, with the layout
   it was requested with.

     blk t          the block the table holds: [] when mask t = 0, else [(size, align)] of its layout
     allocs evs     the (size, align) of the EvAlloc events of a log, in order; frees evs likewise
     Bal t t' evs   allocs evs ++ blk t  is a permutation of  frees evs ++ blk t'

   map_step_bal: every operation is balanced (for every hasher, panicking or not, and every
   allocator answer); run_bal: by induction every history is.  No axioms. *)
From Coq Require Import ZArith List Bool Lia Permutation.
From HB Require Import RsPrelude Sse2 Gen Group Raw Map Check WFDefs IterFacts FindFacts SafeInsertErase SafeAllocClear ResizeFacts
  RawOpsSafe MapDefs MapStepSafe ReplaceFacts.
Import ListNotations.
Open Scope nat_scope.

Section Balance.
  Variable B : backend.
  Hypothesis HW : WidthOK B.
  Hypothesis HB : BackendSpec B.
  Variable tsize talign : Z.
  Hypothesis Hts : (0 <= tsize < 2 ^ 64)%Z.
  Hypothesis Hta : exists a : Z, (0 <= a <= 62)%Z /\ talign = (2 ^ a)%Z.

  Definition blk (t : table kv) : list (Z * Z) :=
    if Nat.eqb (mask t) 0 then [] else
    match layout_for B tsize talign (nb kv t) with Some (len, al, _) => [(len, al)] | None => [] end.

  Definition allocs (evs : list (event kv)) : list (Z * Z) :=
    flat_map (fun e => match e with EvAlloc s a => [(s, a)] | _ => [] end) evs.
  Definition frees (evs : list (event kv)) : list (Z * Z) :=
    flat_map (fun e => match e with EvFree s a => [(s, a)] | _ => [] end) evs.

  Definition Bal (t t' : table kv) (evs : list (event kv)) : Prop :=
    Permutation (allocs evs ++ blk t) (frees evs ++ blk t').

  Definition quiet (e : event kv) : Prop := match e with EvAlloc _ _ | EvFree _ _ => False | _ => True end.

  Lemma allocs_app a b : allocs (a ++ b) = allocs a ++ allocs b.
  Proof. unfold allocs. apply flat_map_app. Qed.
  Lemma frees_app a b : frees (a ++ b) = frees a ++ frees b.
  Proof. unfold frees. apply flat_map_app. Qed.

  Lemma quiet_allocs evs : Forall quiet evs -> allocs evs = [] /\ frees evs = [].
  Proof.
    induction 1 as [|e r He _ IH]; [split; reflexivity|]. destruct IH as (IA & IF).
    destruct e; cbn in He; try contradiction; unfold allocs, frees in *; cbn [flat_map app]; split; assumption.
  Qed.

  Lemma blk_mask t t' : mask t' = mask t -> blk t' = blk t.
  Proof. intros E. unfold blk, nb, buckets. rewrite E. reflexivity. Qed.

  Lemma Bal_quiet t t' evs : mask t' = mask t -> Forall quiet evs -> Bal t t' evs.
  Proof.
    intros Em Hq. destruct (quiet_allocs evs Hq) as (EA & EF). unfold Bal. rewrite EA, EF, (blk_mask t t' Em).
    apply Permutation_refl.
  Qed.

  Lemma Bal_refl t : Bal t t [].
  Proof. apply Bal_quiet; [reflexivity|constructor]. Qed.

  Lemma Bal_trans t t1 t2 e1 e2 : Bal t t1 e1 -> Bal t1 t2 e2 -> Bal t t2 (e1 ++ e2).
  Proof.
    unfold Bal. intros H1 H2. rewrite allocs_app, frees_app.
    (* (a1 ++ a2) ++ b  ~  a2 ++ (a1 ++ b) ~ a2 ++ (f1 ++ b1) ~ f1 ++ (a2 ++ b1) ~ f1 ++ (f2 ++ b2) *)
    apply Permutation_trans with (allocs e2 ++ (allocs e1 ++ blk t)).
    { rewrite <- app_assoc. rewrite !app_assoc. apply Permutation_app_tail. apply Permutation_app_comm. }
    apply Permutation_trans with (allocs e2 ++ (frees e1 ++ blk t1)).
    { apply Permutation_app_head. exact H1. }
    apply Permutation_trans with (frees e1 ++ (allocs e2 ++ blk t1)).
    { rewrite !app_assoc. apply Permutation_app_tail. apply Permutation_app_comm. }
    rewrite <- app_assoc. apply Permutation_app_head. exact H2.
  Qed.

  Lemma Bal_post t t1 evs (f : list (event kv) -> list (event kv)) :
    (allocs (f evs) = allocs evs) -> (frees (f evs) = frees evs) -> Bal t t1 evs -> Bal t t1 (f evs).
  Proof. unfold Bal. intros -> ->. exact (fun H => H). Qed.

  (* the table's own block goes back: FreeOld *)
  Lemma Bal_free_old t fevs : FreeOld B kv tsize talign t fevs -> Bal t (new_table B kv) fevs.
  Proof.
    unfold Bal, blk. intros [(Em & ->)|(Em & len & al & off & El & -> & _)].
    - rewrite Em. cbn. apply Permutation_refl.
    - destruct (Nat.eqb_spec (mask t) 0) as [C|_]; [contradiction|]. rewrite El. cbn. apply Permutation_refl.
  Qed.

  (* a new block for t', the old one of t returned *)
  Lemma Bal_alloc_free t t' len al off fevs : mask t' <> 0 ->
    layout_for B tsize talign (nb kv t') = Some (len, al, off) -> FreeOld B kv tsize talign t fevs ->
    Bal t t' (EvAlloc len al :: fevs).
  Proof.
    intros Hm El Hf. pose proof (Bal_free_old t fevs Hf) as H0. unfold Bal in *.
    cbn [allocs frees flat_map app]. fold (allocs fevs). fold (frees fevs).
    assert (Eb : blk t' = [(len, al)]).
    { unfold blk. destruct (Nat.eqb_spec (mask t') 0) as [C|_]; [contradiction|]. rewrite El. reflexivity. }
    rewrite Eb. assert (Eb0 : blk (new_table B kv) = []) by reflexivity. rewrite Eb0, app_nil_r in H0.
    cbn [app]. apply Permutation_trans with ((len, al) :: frees fevs); [constructor; exact H0|].
    apply Permutation_cons_append.
  Qed.

  Lemma Bal_alloc_then_free t len al : Bal t t [EvAlloc len al; EvFree len al].
  Proof. unfold Bal. cbn. apply Permutation_refl. Qed.

  Lemma ReserveEvs_Bal t t' evs : (evs <> [] -> mask t' <> 0) ->
    ReserveEvs B kv tsize talign t t' evs -> Bal t t' evs.
  Proof.
    intros Hm [(-> & Em)|(len & al & off & fevs & El & _ & -> & Hf)].
    - apply Bal_quiet; [exact Em|constructor].
    - apply (Bal_alloc_free t t' len al off fevs); [apply Hm; discriminate|exact El|exact Hf].
  Qed.

  Lemma Forall_quiet_drops (l : list kv) : Forall quiet (map EvDrop l).
  Proof. induction l; constructor; [exact I|assumption]. Qed.
  Lemma Forall_quiet_moves (l : list kv) : Forall quiet (map EvMoveOut l).
  Proof. induction l; constructor; [exact I|assumption]. Qed.

  Lemma ReserveUnwind_Bal needs_drop hasher t t' evs :
    ReserveUnwind kv needs_drop hasher t t' evs -> Bal t t' evs.
  Proof.
    intros (_ & [(Em & dropped & _ & -> & _)|(-> & len & al & -> & _)]).
    - apply Bal_quiet; [exact Em|]. destruct needs_drop; [apply Forall_quiet_drops|constructor].
    - apply Bal_alloc_then_free.
  Qed.

  (* ---------------------------------------------------------------------------------------- *)
  (* raw operations                                                                             *)
  (* ---------------------------------------------------------------------------------------- *)
  Variable needs_drop : bool.
  Variable hasher : kv -> option Z.
  Local Notation SAFE := (SafeWF B kv).
  Local Notation OWN := (TOwn B kv tsize talign).

  Lemma safe_items_mask t : SAFE t -> (0 < items t)%Z -> mask t <> 0.
  Proof. intros H Hi E. rewrite (safe_singleton B kv t H E) in Hi. cbn in Hi. lia. Qed.

  Lemma reserve_post_Bal t n ar f t' evs tr unw : SAFE t ->
    reserve_post B kv tsize talign needs_drop hasher t n ar f (Ok (t', evs, tr, unw)) ->
    ((n <= growth_left t)%Z -> t' = t /\ evs = []) -> Bal t t' evs.
  Proof.
    intros Hs Hp Hfast. destruct tr as [| |len al]; cbn [reserve_post] in Hp.
    - destruct unw.
      + destruct Hp as (_ & _ & Hu). exact (ReserveUnwind_Bal needs_drop hasher t t' evs Hu).
      + destruct Hp as (Hs' & _ & _ & _ & Hg & Hev).
        apply ReserveEvs_Bal; [|exact Hev]. intros Hne.
        destruct (Z.le_gt_cases n (growth_left t)) as [Hle|Hgt]; [destruct (Hfast Hle) as (_ & C); contradiction|].
        destruct (safe_counts B kv t Hs) as (_ & Hg0 & _).
        apply (growth_pos_mask B kv t' Hs'). lia.
    - destruct Hp as (_ & -> & -> & _). apply Bal_refl.
    - destruct Hp as (_ & -> & -> & _). apply Bal_refl.
  Qed.

  (* ---------------------------------------------------------------------------------------- *)
  (* more algebra                                                                               *)
  (* ---------------------------------------------------------------------------------------- *)
  Lemma Bal_mask_r t t1 t2 evs : Bal t t1 evs -> mask t2 = mask t1 -> Bal t t2 evs.
  Proof. unfold Bal. intros H E. rewrite (blk_mask t1 t2 E). exact H. Qed.

  Lemma Bal_comm t t' a b : Bal t t' (a ++ b) -> Bal t t' (b ++ a).
  Proof.
    unfold Bal. rewrite !allocs_app, !frees_app. intros H.
    apply Permutation_trans with ((allocs a ++ allocs b) ++ blk t).
    { apply Permutation_app_tail. apply Permutation_app_comm. }
    apply Permutation_trans with ((frees a ++ frees b) ++ blk t'); [exact H|].
    apply Permutation_app_tail. apply Permutation_app_comm.
  Qed.

  Lemma Bal_quiet_app t t' evs q : Bal t t' evs -> Forall quiet q -> Bal t t' (evs ++ q).
  Proof.
    intros H Hq. destruct (quiet_allocs q Hq) as (EA & EF). unfold Bal in *.
    rewrite allocs_app, frees_app, EA, EF, !app_nil_r. exact H.
  Qed.

  Lemma quiet_if_drop (b : bool) (e : kv) : Forall quiet (if b then [EvDrop e] else []).
  Proof. destruct b; repeat constructor. Qed.
End Balance.

(* ------------------------------------------------------------------------------------------ *)
(* the operations of HashMap / HashSet                                                          *)
(* ------------------------------------------------------------------------------------------ *)
Section MapBalance.
  Variable B : backend.
  Hypothesis HW : WidthOK B.
  Hypothesis HB : BackendSpec B.
  Variable tsize talign : Z.
  Hypothesis HL : LayoutOK tsize talign.
  Variable needs_drop : bool.
  Variable hash_of : Z -> option Z.
  Variable alloc_refuses : bool.

  Let Hts : (0 <= tsize < 2 ^ 64)%Z := proj1 HL.
  Let Hta : exists a : Z, (0 <= a <= 62)%Z /\ talign = (2 ^ a)%Z := proj2 HL.

  Local Notation SAFE := (SafeWF B kv).
  Local Notation OWN := (TOwn B kv tsize talign).
  Local Notation HSH := (hasher hash_of).
  Local Notation BAL := (Bal B tsize talign).
  Local Notation STEP t op := (map_step B tsize talign needs_drop true hash_of alloc_refuses t op).
  Local Notation GOOD := (Good B tsize talign).

  (* balance of a result relative to the table the operation started from *)
  Definition GB (t0 : table kv) (r : res Map.result) : Prop :=
    match r with Ok (t', _, evs) => BAL t0 t' evs | Fail _ => True end.

  Lemma GB_with_hash t k f : (forall h, GB t (f h)) -> GB t (with_hash hash_of t k f).
  Proof. intros H. unfold with_hash. destruct (hash_of k); [apply H|]. cbn. apply Bal_refl. Qed.

  (* structural facts: these primitives never change the bucket count *)
  Lemma slot_write_mask (t t' : table kv) i e : slot_write kv t i e = Ok t' -> mask t' = mask t.
  Proof.
    unfold slot_write. destruct (is_singleton kv t); [discriminate|].
    destruct (i <? length (slots t)); [|discriminate]. intros E. injection E as <-. reflexivity.
  Qed.

  Lemma set_ctrl_mask (t t' : table kv) i b : set_ctrl B kv t i b = Ok t' -> mask t' = mask t.
  Proof. intros E. rewrite (set_ctrl_struct B kv t t' i b E). reflexivity. Qed.

  Lemma insert_in_slot_mask (t t' : table kv) h s v : insert_in_slot B kv t h s v = Ok t' -> mask t' = mask t.
  Proof.
    unfold insert_in_slot, record_item_insert_at, set_ctrl_hash.
    destruct (ctrl_at kv t s) as [old|]; [|discriminate]. cbn [bind].
    destruct (Gen.record_item_insert_at (growth_left t) (items t) 0 0 0 (tag_special_is_empty old)) as [g i].
    destruct (set_ctrl B kv t s (tag_full h)) as [t1|] eqn:E1; [|discriminate]. cbn [bind].
    destruct (s <? buckets kv (with_counts kv t1 i g)); [|discriminate].
    intros E. apply slot_write_mask in E. cbn [mask with_counts] in E. rewrite E. exact (set_ctrl_mask t t1 s _ E1).
  Qed.

  Lemma remove_mask (t t' : table kv) i e : remove B kv t i = Ok (e, t') -> mask t' = mask t.
  Proof. intros E. destruct (remove_struct B kv t t' i e E) as (c & Em & _). exact Em. Qed.

  Lemma slot_take_mask (t t' : table kv) i e : slot_take kv t i = Ok (e, t') -> mask t' = mask t.
  Proof.
    unfold slot_take. destruct (slot_ref kv t i); [|discriminate]. cbn [bind]. intros E. injection E as _ <-. reflexivity.
  Qed.

  Lemma take_all_mask : forall idx (t t' : table kv) es, take_all kv t idx = Ok (es, t') -> mask t' = mask t.
  Proof.
    induction idx as [|i r IH]; intros t t' es E; cbn [take_all] in E; [injection E as _ <-; reflexivity|].
    destruct (slot_take kv t i) as [[e t1]|] eqn:E1; [|discriminate]. cbn [bind] in E.
    destruct (take_all kv t1 r) as [[es2 t2]|] eqn:E2; [|discriminate]. cbn [bind] in E. injection E as _ <-.
    rewrite (IH t1 t2 es2 E2). exact (slot_take_mask t t1 i e E1).
  Qed.

  Lemma take_n_mask : forall n idx (t t' : table kv) es rest, take_n t idx n = Ok (es, rest, t') -> mask t' = mask t.
  Proof.
    induction n as [|n IH]; intros idx t t' es rest E.
    - destruct idx; cbn [take_n] in E; injection E as _ _ <-; reflexivity.
    - destruct idx as [|i r]; cbn [take_n] in E; [injection E as _ _ <-; reflexivity|].
      destruct (slot_take kv t i) as [[e t1]|] eqn:E1; [|discriminate]. cbn [bind] in E.
      destruct (take_n t1 r n) as [[[es2 rest2] t2]|] eqn:E2; [|discriminate]. cbn [bind] in E. injection E as _ _ <-.
      rewrite (IH r t1 t2 es2 rest2 E2). exact (slot_take_mask t t1 i e E1).
  Qed.

  (* (1) lookups: nothing but the table itself and a quiet log comes back *)
  Lemma get_inner_gb t k f : GB t (f None) -> (forall i e, GB t (f (Some (i, e)))) -> GB t (get_inner B hash_of t k f).
  Proof.
    intros Hn Hs. unfold get_inner. destruct (items t =? 0)%Z; [exact Hn|].
    apply GB_with_hash. intros h. destruct (Raw.find B kv t h (eq_key k)) as [[i|]|]; cbn [bind]; [|exact Hn|exact I].
    destruct (slot_ref kv t i); cbn [bind]; [apply Hs|exact I].
  Qed.

  Lemma write_gb t0 t i e' o evs : BAL t0 t evs -> GB t0 (t2 <- slot_write kv t i e' ;; Ok (t2, o, evs)).
  Proof.
    intros Hb. destruct (slot_write kv t i e') as [t2|] eqn:E; cbn [bind GB]; [|exact I].
    exact (Bal_mask_r B tsize talign t0 t t2 evs Hb (slot_write_mask t t2 i e' E)).
  Qed.

  Lemma insert_in_slot_gb t0 t h s v o evs : BAL t0 t evs -> GB t0 (t2 <- insert_in_slot B kv t h s v ;; Ok (t2, o, evs)).
  Proof.
    intros Hb. destruct (insert_in_slot B kv t h s v) as [t2|] eqn:E; cbn [bind GB]; [|exact I].
    exact (Bal_mask_r B tsize talign t0 t t2 evs Hb (insert_in_slot_mask t t2 h s v E)).
  Qed.

  Lemma remove_gb t0 t i (fo : kv -> out) (fe : kv -> list (event kv)) :
    (forall e t2, mask t2 = mask t -> BAL t0 t2 (fe e)) ->
    GB t0 ('(e', t2) <- remove B kv t i ;; Ok (t2, fo e', fe e')).
  Proof.
    intros Hb. destruct (remove B kv t i) as [[e' t2]|] eqn:E; cbn [bind GB]; [|exact I].
    apply Hb. exact (remove_mask t t2 i e' E).
  Qed.

  (* (2) find_or_find_insert_slot: the reserve inside is balanced *)
  Lemma m_find_or_slot_gb t k found vacant : SAFE t -> OWN t ->
    (forall t1 i e evs, BAL t t1 evs -> GB t (found t1 i e evs)) ->
    (forall t1 h s evs, BAL t t1 evs -> GB t (vacant t1 h s evs)) ->
    GB t (m_find_or_slot B tsize talign needs_drop true hash_of alloc_refuses t k found vacant).
  Proof.
    intros H HA Hfound Hvac. unfold m_find_or_slot. apply GB_with_hash. intros h.
    change (eq_key k) with (pure_eq (fun e : kv => Z.eqb (k_id e) k)).
    pose proof (find_or_find_insert_slot_spec B kv HW HB tsize talign Hts Hta needs_drop HSH t h
                  (fun e : kv => Z.eqb (k_id e) k) alloc_refuses H HA) as Hpost.
    destruct (find_or_find_insert_slot B kv tsize talign needs_drop HSH true t h
                (pure_eq (fun e : kv => Z.eqb (k_id e) k)) alloc_refuses) as [[[[t1 evs] unw] r]|er];
      cbn [bind]; [|exact I].
    destruct unw; cbn [foi_post] in Hpost.
    - destruct Hpost as (_ & _ & _ & Hu). unfold unwind. cbn [GB].
      exact (ReserveUnwind_Bal B tsize talign needs_drop HSH t t1 evs Hu).
    - destruct r as [[i|s]|]; [| |contradiction].
      + destruct Hpost as ((_ & _ & _ & _ & _ & Hm1 & Hev & _) & _).
        assert (Hb : BAL t t1 evs) by (apply ReserveEvs_Bal; [intros _; exact Hm1|exact Hev]).
        destruct (slot_ref kv t1 i); cbn [bind]; [apply Hfound; exact Hb|exact I].
      + destruct Hpost as ((_ & _ & _ & _ & _ & Hm1 & Hev & _) & _).
        apply Hvac. apply ReserveEvs_Bal; [intros _; exact Hm1|exact Hev].
  Qed.

  Lemma m_insert_gb t k stamp v : SAFE t -> OWN t ->
    GB t (m_insert B tsize talign needs_drop true hash_of alloc_refuses t k stamp v).
  Proof.
    intros H HA. rewrite (m_insert_eq B tsize talign needs_drop hash_of alloc_refuses). apply m_find_or_slot_gb; [exact H|exact HA| |].
    - intros t1 i e evs Hb. apply write_gb. exact Hb.
    - intros t1 h s evs Hb. apply insert_in_slot_gb. exact Hb.
  Qed.

  (* (3) entry based *)
  Lemma m_entry_gb t k occ vac : (forall h i e, GB t (occ h i e)) -> (forall h, GB t (vac h)) ->
    GB t (m_entry B hash_of t k occ vac).
  Proof.
    intros Hocc Hvac. unfold m_entry. apply GB_with_hash. intros h.
    destruct (Raw.find B kv t h (eq_key k)) as [[i|]|]; cbn [bind]; [|apply Hvac|exact I].
    destruct (slot_ref kv t i); cbn [bind]; [apply Hocc|exact I].
  Qed.

  Lemma vacant_insert_gb t h e o : SAFE t -> OWN t ->
    GB t (vacant_insert B tsize talign needs_drop true hash_of alloc_refuses t h e o).
  Proof.
    intros H HA. unfold vacant_insert.
    pose proof (insert_spec B kv HW HB tsize talign Hts Hta needs_drop HSH t h e alloc_refuses H HA) as Hpost.
    destruct (Raw.insert B kv tsize talign needs_drop HSH true t h e alloc_refuses) as [[[[t1 evs] unw] r]|er];
      cbn [bind]; [|exact I].
    destruct unw; cbn [insert_post] in Hpost.
    - destruct Hpost as (_ & _ & _ & Hu). unfold unwind. cbn [GB].
      exact (ReserveUnwind_Bal B tsize talign needs_drop HSH t t1 evs Hu).
    - destruct r as [s|]; [|contradiction].
      destruct Hpost as (H1 & _ & _ & _ & _ & _ & Hit & Hev & _). cbn [GB].
      apply ReserveEvs_Bal; [|exact Hev]. intros _.
      apply (safe_items_mask B t1 H1).
      destruct (safe_counts B kv t H) as (Hi0 & _). lia.
  Qed.

  (* (4) remove_entry based *)
  Lemma m_remove_entry_gb t k mk : GB t (m_remove_entry B hash_of t k mk).
  Proof.
    unfold m_remove_entry. apply GB_with_hash. intros h.
    destruct (Raw.find B kv t h (eq_key k)) as [[i|]|]; cbn [bind]; [|cbn; apply Bal_refl|exact I].
    apply (remove_gb t t i mk (fun e => [EvMoveOut e])). intros e t2 Em.
    apply Bal_quiet; [exact Em|repeat constructor].
  Qed.

  (* (5) clear, drop, with_capacity *)
  Lemma drops_prefix_quiet (evs : list (event kv)) occ : drops_prefix kv evs occ -> Forall (quiet) evs.
  Proof. intros (l & -> & _). apply Forall_quiet_drops. Qed.

  Lemma clear_gb t : SAFE t ->
    GB t ('(t1, evs, ok) <- Raw.clear B kv needs_drop drop_ok t ;; if ok then Ok (t1, OutUnit, evs) else unwind t1 evs).
  Proof.
    intros H. destruct (clear_safe B kv HW HB tsize talign needs_drop drop_ok t H) as (t' & evs & ok & E & _ & Em & _ & _ & Hp & _).
    rewrite E. cbn [bind]. assert (Hb : BAL t t' evs) by (apply Bal_quiet; [exact Em|exact (drops_prefix_quiet evs _ Hp)]).
    destruct ok; unfold unwind; exact Hb.
  Qed.

  (* dropping the table: its elements (quiet) and its block *)
  Lemma drop_inner_bal t evs0 ok : SAFE t -> OWN t ->
    drop_inner_table B kv tsize talign needs_drop drop_ok t = Ok (evs0, ok) -> BAL t (new_table B kv) evs0.
  Proof.
    intros H HA E.
    destruct (drop_inner_table_spec B kv HW HB tsize talign Hts Hta needs_drop drop_ok t H HA) as (evs & ok' & E' & H0 & H1).
    rewrite E in E'. injection E' as <- <-.
    destruct (Nat.eq_dec (mask t) 0) as [Em|Em].
    - destruct (H0 Em) as (-> & _). apply Bal_quiet; [exact (eq_sym Em)|constructor].
    - destruct (H1 Em) as (len & al & off & dr & El & Hv & Hp & _ & _ & Hfail & ->).
      destruct ok.
      + apply Bal_comm. change ([EvFree len al] ++ dr) with ([EvFree len al] ++ dr).
        apply Bal_quiet_app; [|exact (drops_prefix_quiet dr _ Hp)].
        apply Bal_free_old. right. split; [exact Em|]. exists len, al, off. split; [exact El|]. split; [reflexivity|exact Hv].
      + exfalso. destruct (Hfail eq_refl) as (l & e & _ & C). discriminate C.
  Qed.

  Lemma with_capacity_gb t n : SAFE t -> OWN t -> (0 <= n < 2 ^ 64)%Z -> GB t (STEP t (OpWithCapacity n)).
  Proof.
    intros H HA Hn. cbn [map_step].
    destruct (drop_inner_table B kv tsize talign needs_drop drop_ok t) as [[evs0 ok]|] eqn:Ed; cbn [bind]; [|exact I].
    pose proof (drop_inner_bal t evs0 ok H HA Ed) as Hb0.
    pose proof (fallible_with_capacity_spec B kv HW tsize talign Hts Hta n alloc_refuses Infallible Hn) as Hp.
    destruct (fallible_with_capacity B kv tsize talign n alloc_refuses Infallible) as [[[[nt|] evs] tr]|er]; cbn [bind]; [| |exact I].
    - destruct tr; cbn [fwc_post] in Hp; try contradiction. cbn [GB].
      apply Bal_comm. apply (Bal_trans B tsize talign t (new_table B kv) nt evs0 evs Hb0).
      destruct Hp as (_ & _ & _ & _ & _ & _ & [(_ & -> & ->)|(_ & _ & (Hm & _) & _ & len & al & off & El & -> & _)]).
      + apply Bal_refl.
      + apply (Bal_alloc_free B tsize talign (new_table B kv) nt len al off []); [exact Hm|exact El|].
        left. split; reflexivity.
    - exact I.
  Qed.

  Lemma drop_map_gb t : SAFE t -> OWN t -> GB t (STEP t OpDropMap).
  Proof.
    intros H HA. cbn [map_step].
    destruct (drop_inner_table B kv tsize talign needs_drop drop_ok t) as [[evs0 ok]|] eqn:Ed; cbn [bind]; [|exact I].
    exact (drop_inner_bal t evs0 ok H HA Ed).
  Qed.

  (* (6) reserve, try_reserve, shrink_to *)
  Lemma reserve_gb t n o : SAFE t -> OWN t -> (0 <= n < 2 ^ 64)%Z ->
    GB t (x <- reserve B kv tsize talign needs_drop HSH true t n alloc_refuses ;; tr_out t x o).
  Proof.
    intros H HA Hn.
    destruct (reserve_spec B kv HW HB tsize talign Hts Hta needs_drop HSH t n alloc_refuses H HA Hn) as (Hp & _ & Hfast).
    destruct (reserve B kv tsize talign needs_drop HSH true t n alloc_refuses) as [[[[t1 evs] tr] unw]|er] eqn:E; cbn [bind]; [|exact I].
    assert (Hb : BAL t t1 evs).
    { apply (reserve_post_Bal B tsize talign needs_drop HSH t n alloc_refuses Infallible t1 evs tr unw H Hp).
      intros Hle. specialize (Hfast Hle). injection Hfast as <- <- _ _. split; reflexivity. }
    unfold tr_out, unwind. destruct unw; exact Hb.
  Qed.

  Lemma try_reserve_gb t n o : SAFE t -> OWN t -> (0 <= n < 2 ^ 64)%Z ->
    GB t (x <- try_reserve B kv tsize talign needs_drop HSH true t n alloc_refuses ;; tr_out t x o).
  Proof.
    intros H HA Hn.
    destruct (try_reserve_spec B kv HW HB tsize talign Hts Hta needs_drop HSH t n alloc_refuses H HA Hn) as (Hp & _ & Hfast).
    destruct (try_reserve B kv tsize talign needs_drop HSH true t n alloc_refuses) as [[[[t1 evs] tr] unw]|er] eqn:E; cbn [bind]; [|exact I].
    assert (Hb : BAL t t1 evs).
    { apply (reserve_post_Bal B tsize talign needs_drop HSH t n alloc_refuses Fallible t1 evs tr unw H Hp).
      intros Hle. specialize (Hfast Hle). injection Hfast as <- <- _ _. split; reflexivity. }
    unfold tr_out, unwind. destruct unw; exact Hb.
  Qed.

  Lemma shrink_gb t n : SAFE t -> OWN t -> (0 <= n < 2 ^ 64)%Z ->
    GB t ('(t1, evs, unw) <- shrink_to B kv tsize talign needs_drop drop_ok HSH t n alloc_refuses ;;
          if unw then unwind t1 evs else Ok (t1, OutUnit, evs)).
  Proof.
    intros H HA Hn.
    pose proof (shrink_to_spec B kv HW HB tsize talign Hts Hta needs_drop drop_ok HSH t n alloc_refuses H HA Hn) as Hp.
    destruct (shrink_to B kv tsize talign needs_drop drop_ok HSH t n alloc_refuses) as [[[t1 evs] unw]|er]; cbn [bind]; [|exact I].
    destruct unw; cbn [shrink_post] in Hp; unfold unwind; cbn [GB].
    - destruct Hp as (-> & _ & len & al & -> & _). apply Bal_alloc_then_free.
    - destruct Hp as (_ & _ & _ & _ & _ & _ & _ & _ & [(-> & ->)|[(-> & Hf)|(Hm & len & al & off & fevs & El & _ & -> & Hf)]]).
      + apply Bal_refl.
      + apply Bal_free_old. exact Hf.
      + exact (Bal_alloc_free B tsize talign t t1 len al off fevs Hm El Hf).
  Qed.

  (* (7) loops that erase while iterating: the bucket count never changes, the log stays quiet *)
  Lemma retain_loop_gb keep bump : forall fuel t0 t it evs, BAL t0 t evs ->
    match retain_loop B needs_drop fuel t it keep bump evs with
    | Ok (t', evs') => BAL t0 t' evs'
    | Fail _ => True
    end.
  Proof.
    induction fuel as [|f IH]; intros t0 t it evs Hb; cbn [retain_loop]; [exact I|].
    destruct (iter_next B kv t it) as [[nxt it']|]; cbn [bind]; [|exact I].
    destruct nxt as [i|]; [|exact Hb].
    destruct (slot_ref kv t i) as [e|]; cbn [bind]; [|exact I].
    destruct (slot_write kv t i _) as [t1|] eqn:Ew; cbn [bind]; [|exact I].
    pose proof (Bal_mask_r B tsize talign t0 t t1 evs Hb (slot_write_mask t t1 i _ Ew)) as Hb1.
    destruct (existsb (Z.eqb (k_id e)) keep); [exact (IH t0 t1 it' evs Hb1)|].
    unfold erase_drop. destruct (remove B kv t1 i) as [[e' t2]|] eqn:Er; cbn [bind]; [|exact I].
    apply IH. apply Bal_quiet_app; [|apply quiet_if_drop].
    exact (Bal_mask_r B tsize talign t0 t1 t2 evs Hb1 (remove_mask t1 t2 i e' Er)).
  Qed.

  Lemma extract_loop_gb sel : forall fuel t0 t it n acc evs, BAL t0 t evs ->
    match extract_loop B fuel t it sel n acc evs with
    | Ok (t', _, evs') => BAL t0 t' evs'
    | Fail _ => True
    end.
  Proof.
    induction fuel as [|f IH]; intros t0 t it n acc evs Hb; destruct n as [|n']; cbn [extract_loop]; try exact Hb; [exact I|].
    destruct (iter_next B kv t it) as [[nxt it']|]; cbn [bind]; [|exact I].
    destruct nxt as [i|]; [|exact Hb].
    destruct (slot_ref kv t i) as [e|]; cbn [bind]; [|exact I].
    destruct (existsb (Z.eqb (k_id e)) sel); [|exact (IH t0 t it' (S n') acc evs Hb)].
    destruct (remove B kv t i) as [[e' t1]|] eqn:Er; cbn [bind]; [|exact I].
    apply IH. apply Bal_quiet_app; [|repeat constructor].
    exact (Bal_mask_r B tsize talign t0 t t1 evs Hb (remove_mask t t1 i e' Er)).
  Qed.

  Lemma clear_no_drop_mask (t : table kv) : mask (clear_no_drop kv t) = mask t.
  Proof. unfold clear_no_drop. destruct (clear_no_drop_accounting _ _ _). reflexivity. Qed.

  Lemma m_drain_gb t n : GB t (m_drain B needs_drop t n).
  Proof.
    unfold m_drain. destruct (iter_new B kv t) as [it|]; cbn [bind]; [|exact I].
    destruct (iter_all B kv t it) as [idx|]; cbn [bind]; [|exact I].
    destruct (take_n t idx n) as [[[taken rest] t1]|] eqn:E1; cbn [bind]; [|exact I].
    destruct (take_all kv t1 rest) as [[dropped t2]|] eqn:E2; cbn [bind]; [|exact I].
    cbn [GB]. apply Bal_quiet.
    - rewrite clear_no_drop_mask, (take_all_mask rest t1 t2 dropped E2). exact (take_n_mask n idx t t1 taken rest E1).
    - apply Forall_app. split; [apply Forall_quiet_moves|]. destruct needs_drop; [apply Forall_quiet_drops|constructor].
  Qed.

  (* (8) extend: a reserve, then one insert per pair *)
  Lemma extend_loop_gb : forall kvs t0 t touched evs, SAFE t -> OWN t -> BAL t0 t evs ->
    GB t0 (extend_loop B tsize talign needs_drop true hash_of alloc_refuses t kvs touched evs).
  Proof.
    induction kvs as [|e r IH]; intros t0 t touched evs H HA Hb; cbn [extend_loop]; [exact Hb|].
    pose proof (m_insert_good B HW HB tsize talign HL needs_drop hash_of alloc_refuses t (k_id e) (k_stamp e) (v_val e) H HA) as Hg.
    pose proof (m_insert_gb t (k_id e) (k_stamp e) (v_val e) H HA) as Hi.
    destruct (m_insert B tsize talign needs_drop true hash_of alloc_refuses t (k_id e) (k_stamp e) (v_val e))
      as [[[t1 o] evs1]|er]; cbn [bind]; [|exact I].
    cbn [GB] in Hi. destruct Hg as (H1 & HA1).
    pose proof (Bal_trans B tsize talign t0 t t1 evs evs1 Hb Hi) as Hb1.
    destruct o; try (apply IH; assumption).
    - (* OutVal: the replaced value is dropped *)
      apply IH; [exact H1|exact HA1|]. rewrite app_assoc. apply Bal_quiet_app; [exact Hb1|].
      destruct (needs_drop && negb (existsb (Z.eqb (k_id e)) touched)); repeat constructor.
    - exact Hb1.
  Qed.

  (* (9) read-only operations *)
  Lemma fold_go_gb t : forall p fuel it acc, GB t (fold_go B t fuel p it acc).
  Proof.
    induction p as [|p IH]; intros fuel it acc; destruct fuel as [|f]; cbn [fold_go].
    - destruct (iter_fold B kv t it); cbn [bind]; [|exact I]. destruct (elems_at t _); cbn [bind]; [apply Bal_refl|exact I].
    - destruct (iter_fold B kv t it); cbn [bind]; [|exact I]. destruct (elems_at t _); cbn [bind]; [apply Bal_refl|exact I].
    - exact I.
    - destruct (iter_next B kv t it) as [[nxt it']|]; cbn [bind]; [|exact I].
      destruct nxt; [apply IH|]. destruct (elems_at t acc); cbn [bind]; [apply Bal_refl|exact I].
  Qed.

  (* ---------------------------------------------------------------------------------------- *)
  (* EVERY operation is balanced                                                                *)
  (* ---------------------------------------------------------------------------------------- *)
  Theorem map_step_gb t op : op_args_ok op -> SAFE t -> OWN t -> GB t (STEP t op).
  Proof.
    intros Hargs H HA.
    destruct op as [n|k stamp v|k|k|k|k newv|k|k|k stamp v|k stamp v|k stamp v|k stamp|k stamp add v|k stamp|
                    |n|n|n| |keep bump|kvs|n|sel n| |p| | | | |k stamp|k stamp|k|k|k stamp|k stamp fk|k|k stamp];
      cbn [op_args_ok] in Hargs.
    - (* OpWithCapacity *) exact (with_capacity_gb t n H HA Hargs).
    - (* OpInsert *) cbn [map_step]. apply m_insert_gb; assumption.
    - (* OpGet *) cbn [map_step]. apply get_inner_gb; [cbn; apply Bal_refl|intros i e; cbn; apply Bal_refl].
    - (* OpGetKeyValue *) cbn [map_step]. apply get_inner_gb; [cbn; apply Bal_refl|intros i e; cbn; apply Bal_refl].
    - (* OpContains *) cbn [map_step]. apply get_inner_gb; [cbn; apply Bal_refl|intros i e; cbn; apply Bal_refl].
    - (* OpGetMut *) cbn [map_step]. apply get_inner_gb; [cbn; apply Bal_refl|].
      intros i e. cbv beta iota. apply write_gb. apply Bal_refl.
    - (* OpRemove *) cbn [map_step]. apply m_remove_entry_gb.
    - (* OpRemoveEntry *) cbn [map_step]. apply m_remove_entry_gb.
    - (* OpTryInsert *) cbn [map_step]. apply m_entry_gb.
      + intros h i e. cbn. apply Bal_refl.
      + intros h. apply vacant_insert_gb; assumption.
    - (* OpEntryOrInsert *) cbn [map_step]. apply m_entry_gb.
      + intros h i e. cbn. apply Bal_refl.
      + intros h. apply vacant_insert_gb; assumption.
    - (* OpEntryInsert *) cbn [map_step]. apply m_entry_gb.
      + intros h i e. apply write_gb. apply Bal_refl.
      + intros h. apply vacant_insert_gb; assumption.
    - (* OpEntryRemove *) cbn [map_step]. apply m_entry_gb.
      + intros h i e. apply (remove_gb t t i (fun e => OutKV (k_stamp e) (v_val e)) (fun e => [EvMoveOut e])).
        intros e' t2 Em. apply Bal_quiet; [exact Em|repeat constructor].
      + intros h. cbn. apply Bal_refl.
    - (* OpEntryAndModify *) cbn [map_step]. apply m_entry_gb.
      + intros h i e. cbv zeta. apply write_gb. apply Bal_refl.
      + intros h. apply vacant_insert_gb; assumption.
    - (* OpEntryDrop *) cbn [map_step]. apply m_entry_gb; [intros h i e|intros h]; cbn; apply Bal_refl.
    - (* OpClear *) exact (clear_gb t H).
    - (* OpReserve *) cbn [map_step]. exact (reserve_gb t n (fun _ => OutUnit) H HA Hargs).
    - (* OpTryReserve *) cbn [map_step]. exact (try_reserve_gb t n OutTry H HA Hargs).
    - (* OpShrinkTo *) exact (shrink_gb t n H HA Hargs).
    - (* OpShrinkToFit *) exact (shrink_gb t 0%Z H HA (conj (Z.le_refl 0) eq_refl)).
    - (* OpRetain *) cbn [map_step]. destruct (iter_new B kv t) as [it|]; cbn [bind]; [|exact I].
      pose proof (retain_loop_gb keep bump (S (buckets kv t)) t t it [] (Bal_refl B tsize talign t)) as Hr.
      destruct (retain_loop B needs_drop (S (buckets kv t)) t it keep bump []) as [[t1 evs]|]; cbn [bind]; [exact Hr|exact I].
    - (* OpExtend *) cbn [map_step]. cbv zeta.
      pose proof (extend_reserve_range (items t =? 0)%Z (length kvs) Hargs) as Hrn.
      destruct (reserve_spec B kv HW HB tsize talign Hts Hta needs_drop HSH t _ alloc_refuses H HA Hrn) as (Hp & _ & Hfast).
      pose proof (reserve_cases B HW HB tsize talign HL needs_drop hash_of alloc_refuses t _ H HA Hrn) as Hc.
      match type of Hc with match ?r with _ => _ end => destruct r as [[[[t1 evs] tr] unw]|er] eqn:E end; cbn [bind]; [|exact I].
      assert (Hb : BAL t t1 evs).
      { apply (reserve_post_Bal B tsize talign needs_drop HSH t _ alloc_refuses Infallible t1 evs tr unw H Hp).
        intros Hle. specialize (Hfast Hle). injection Hfast as <- <- _ _. split; reflexivity. }
      destruct Hc as (H1 & HA1).
      destruct unw; [unfold unwind; exact Hb|apply extend_loop_gb; assumption].
    - (* OpDrain *) exact (m_drain_gb t n).
    - (* OpExtractIf *) cbn [map_step]. destruct (iter_new B kv t) as [it|]; cbn [bind]; [|exact I].
      pose proof (extract_loop_gb sel (S (buckets kv t)) t t it n [] [] (Bal_refl B tsize talign t)) as Hr.
      destruct (extract_loop B (S (buckets kv t)) t it sel n [] []) as [[[t1 acc] evs]|]; cbn [bind]; [exact Hr|exact I].
    - (* OpIter *) cbn [map_step]. destruct (iter_new B kv t) as [it|]; cbn [bind]; [|exact I].
      destruct (iter_all B kv t it); cbn [bind]; [|exact I]. destruct (elems_at t _); cbn [bind]; [apply Bal_refl|exact I].
    - (* OpIterFold *) cbn [map_step]. destruct (iter_new B kv t) as [it|]; cbn [bind]; [|exact I].
      exact (fold_go_gb t p (S (buckets kv t)) it []).
    - (* OpLen *) cbn. apply Bal_refl.
    - (* OpCapacity *) cbn. apply Bal_refl.
    - (* OpAllocationSize *) cbn [map_step]. destruct (allocation_size B kv tsize talign t); cbn [bind]; [apply Bal_refl|exact I].
    - (* OpDropMap *) exact (drop_map_gb t H HA).
    - (* OpSetInsert *) cbn [map_step].
      pose proof (m_insert_gb t k stamp 0%Z H HA) as Hi.
      destruct (m_insert B tsize talign needs_drop true hash_of alloc_refuses t k stamp 0) as [[[t1 o] evs]|]; cbn [bind]; [exact Hi|exact I].
    - (* OpSetReplace *) cbn [map_step]. apply m_find_or_slot_gb; [exact H|exact HA| |].
      + intros t1 i e evs Hb. apply write_gb. exact Hb.
      + intros t1 h s evs Hb. apply insert_in_slot_gb. exact Hb.
    - (* OpSetTake *) cbn [map_step]. apply m_remove_entry_gb.
    - (* OpSetGet *) cbn [map_step]. apply get_inner_gb; [cbn; apply Bal_refl|intros i e; cbn; apply Bal_refl].
    - (* OpSetGetOrInsert *) cbn [map_step]. apply m_find_or_slot_gb; [exact H|exact HA| |].
      + intros t1 i e evs Hb. exact Hb.
      + intros t1 h s evs Hb. apply insert_in_slot_gb. exact Hb.
    - (* OpSetGetOrInsertWith *) cbn [map_step]. apply m_find_or_slot_gb; [exact H|exact HA| |].
      + intros t1 i e evs Hb. exact Hb.
      + intros t1 h s evs Hb. destruct (Z.eqb fk k); [apply insert_in_slot_gb; exact Hb|exact Hb].
    - (* OpSetRemove *) cbn [map_step].
      pose proof (m_remove_entry_gb t k (fun _ => OutBool true)) as Hr.
      destruct (m_remove_entry B hash_of t k (fun _ => OutBool true)) as [[[t1 o] evs]|]; cbn [bind]; [|exact I].
      cbn [GB] in *. unfold Bal in *.
      assert (EA : forall l : list (event kv), allocs (flat_map (fun e => match e with
                     | EvMoveOut x => if needs_drop then [EvDrop x] else [] | y => [y] end) l) = allocs l).
      { induction l as [|e r IHl]; [reflexivity|]. cbn [flat_map]. rewrite allocs_app, IHl.
        destruct e; cbn; try reflexivity. destruct needs_drop; reflexivity. }
      assert (EF : forall l : list (event kv), frees (flat_map (fun e => match e with
                     | EvMoveOut x => if needs_drop then [EvDrop x] else [] | y => [y] end) l) = frees l).
      { induction l as [|e r IHl]; [reflexivity|]. cbn [flat_map]. rewrite frees_app, IHl.
        destruct e; cbn; try reflexivity. destruct needs_drop; reflexivity. }
      rewrite EA, EF. exact Hr.
    - (* OpSetToggle *) cbn [map_step]. apply m_find_or_slot_gb; [exact H|exact HA| |].
      + intros t1 i e evs Hb.
        apply (remove_gb t t1 i (fun _ => OutBool false) (fun e' => evs ++ (if needs_drop then [EvDrop e'] else []))).
        intros e' t2 Em. apply Bal_quiet_app; [|apply quiet_if_drop].
        exact (Bal_mask_r B tsize talign t t1 t2 evs Hb Em).
      + intros t1 h s evs Hb. apply insert_in_slot_gb. exact Hb.
  Qed.

  Corollary map_step_bal t op t' o evs : op_args_ok op -> SAFE t -> OWN t ->
    STEP t op = Ok (t', o, evs) -> BAL t t' evs.
  Proof. intros Ha H HA E. pose proof (map_step_gb t op Ha H HA) as G. rewrite E in G. exact G. Qed.
End MapBalance.

(* ------------------------------------------------------------------------------------------ *)
(* histories: the whole event log of any history from HashMap::new() is balanced                *)
(* ------------------------------------------------------------------------------------------ *)
Section HistoryBalance.
  Variable B : backend.
  Hypothesis HW : WidthOK B.
  Hypothesis HB : BackendSpec B.
  Variable tsize talign : Z.
  Hypothesis HL : LayoutOK tsize talign.
  Variable needs_drop : bool.

  (* a history: (operation, allocator refuses?, hasher) per step; the log is accumulated *)
  Fixpoint run_log (t : table kv) (ops : list (map_op * bool * (Z -> option Z))) (log : list (event kv))
    : res (table kv * list (event kv)) :=
    match ops with
    | [] => Ok (t, log)
    | (op, ar, h) :: r =>
        '(t1, _, evs) <- map_step B tsize talign needs_drop true h ar t op ;;
        run_log t1 r (log ++ evs)
    end.

  Theorem run_log_bal : forall ops t log t0 t' log',
    (forall x, In x ops -> op_args_ok (fst (fst x))) ->
    SafeWF B kv t -> TOwn B kv tsize talign t -> Bal B tsize talign t0 t log ->
    run_log t ops log = Ok (t', log') ->
    SafeWF B kv t' /\ TOwn B kv tsize talign t' /\ Bal B tsize talign t0 t' log'.
  Proof.
    induction ops as [|[[op ar] h] r IH]; intros t log t0 t' log' Hargs H HA Hb E; cbn [run_log] in E.
    - injection E as <- <-. repeat split; assumption.
    - assert (Ha : op_args_ok op) by (apply (Hargs (op, ar, h)); left; reflexivity).
      pose proof (map_step_good B HW HB tsize talign HL needs_drop h ar t op Ha H HA) as Hg.
      pose proof (map_step_gb B HW HB tsize talign HL needs_drop h ar t op Ha H HA) as Hs.
      destruct (map_step B tsize talign needs_drop true h ar t op) as [[[t1 o] evs]|]; cbn [bind] in E; [|discriminate].
      destruct Hg as (H1 & HA1). cbn [GB] in Hs.
      apply (IH t1 (log ++ evs) t0 t' log'); try assumption.
      + intros x Hx. apply Hargs. right. exact Hx.
      + exact (Bal_trans B tsize talign t0 t t1 log evs Hb Hs).
  Qed.

  (* from HashMap::new(): requests = releases + the current table's block; and once the map has been
     dropped (the history ends with OpDropMap) every block requested has been released exactly once
     with the layout it was requested with *)
  Corollary history_balanced ops t' log :
    (forall x, In x ops -> op_args_ok (fst (fst x))) ->
    run_log (new_table B kv) ops [] = Ok (t', log) ->
    Permutation (allocs log) (frees log ++ blk B tsize talign t').
  Proof.
    intros Hargs E.
    destruct (run_log_bal ops (new_table B kv) [] (new_table B kv) t' log Hargs
                (new_table_safe B kv) (TOwn_new_table B kv tsize talign) (Bal_refl B tsize talign _) E) as (_ & _ & Hb).
    unfold Bal in Hb. change (blk B tsize talign (new_table B kv)) with (@nil (Z * Z)) in Hb. rewrite app_nil_r in Hb. exact Hb.
  Qed.

  Corollary dropped_history_releases_everything ops t' log :
    (forall x, In x ops -> op_args_ok (fst (fst x))) ->
    run_log (new_table B kv) ops [] = Ok (t', log) -> mask t' = 0 ->
    Permutation (allocs log) (frees log).
  Proof.
    intros Hargs E Hm. pose proof (history_balanced ops t' log Hargs E) as Hp.
    unfold blk in Hp. rewrite Hm in Hp. cbn in Hp. rewrite app_nil_r in Hp. exact Hp.
  Qed.
End HistoryBalance.

Print Assumptions map_step_bal.
Print Assumptions run_log_bal.
Print Assumptions history_balanced.
Print Assumptions dropped_history_releases_everything.
