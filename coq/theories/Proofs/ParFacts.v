(* ParFacts.v -- the parallel iterators: RawIterRange::split (Model/Par.v).

   For a back-end B with WidthOK B and BackendSpec B, any T and any table t with SafeWF B T t
   (the static singleton, tables smaller than a group, tables of any number of groups):
     P1  split_mid_spec     the generated expression (len / 2) & !(Group::WIDTH - 1) is
                            len/2 rounded down to a multiple of the width
     P2  contents, RangeOK  a semantic view of an iterator state; iter_new_ok, consume_spec
     P3  split_spec         split never fails, both halves are RangeOK, the contents of the halves
                            concatenate to the contents of the whole, both halves are smaller
     P4  split_partition    for EVERY decision list (every split tree) the leaves, left to right,
                            concatenate to full_list t: disjoint, exhaustive, nothing else, and
                            never an out-of-bounds or unaligned group load
     P5  drain_conservation whatever the per-leaf stop positions, every FULL bucket is delivered
                            exactly once or dropped exactly once
   No axioms. *)
From Coq Require Import ZArith List Bool Lia Arith Permutation.
From HB Require Import RsPrelude Sse2 Gen Group Raw Check WFDefs ArithFacts IterFacts Par.
Import ListNotations.
Open Scope nat_scope.

(* ---------------------------------------------------------------------------------------- *)
(* P1: the split point                                                                        *)
(* ---------------------------------------------------------------------------------------- *)
Lemma split_mid_align (gw len j : Z) :
  (gw = 2 ^ j -> 0 <= j <= 63 -> 0 <= len < 2 ^ 64 ->
   split_mid gw len = len / 2 - (len / 2) mod gw)%Z.
Proof.
  intros -> Hj Hl. unfold split_mid.
  apply land_align_down; [exact Hj|].
  split; [apply Z.div_pos; lia|].
  apply Z.div_lt_upper_bound; lia.
Qed.

Theorem split_mid_spec (gw len : Z) :
  (gw = 8 \/ gw = 16)%Z -> (0 <= len < 2 ^ 62)%Z -> (gw | len)%Z ->
  let mid := split_mid gw len in
  (mid = len / 2 - (len / 2) mod gw /\
   (gw | mid) /\ 0 <= mid /\ 2 * mid <= len /\
   (0 < len -> mid < len /\ gw <= len - mid))%Z.
Proof.
  intros Hg Hl (k & Hk). cbv zeta.
  assert (H62 : (2 ^ 62 = 4611686018427387904)%Z) by reflexivity.
  assert (H64 : (2 ^ 64 = 18446744073709551616)%Z) by reflexivity.
  assert (Hpos : (0 < gw)%Z) by lia.
  assert (Heq : (split_mid gw len = len / 2 - (len / 2) mod gw)%Z).
  { destruct Hg as [-> | ->].
    - apply (split_mid_align 8 len 3); [reflexivity | lia | lia].
    - apply (split_mid_align 16 len 4); [reflexivity | lia | lia]. }
  pose proof (Z.div_mod (len / 2) gw ltac:(lia)) as Hdm.
  pose proof (Z.mod_pos_bound (len / 2) gw Hpos) as Hmb.
  pose proof (Z.div_mod len 2 ltac:(lia)) as Hd2.
  pose proof (Z.mod_pos_bound len 2 ltac:(lia)) as Hm2.
  assert (Hh : (0 <= len / 2)%Z) by (apply Z.div_pos; lia).
  assert (Hq : (0 <= len / 2 / gw)%Z) by (apply Z.div_pos; lia).
  assert (Hm : (split_mid gw len = gw * (len / 2 / gw))%Z) by lia.
  split; [exact Heq|].
  split; [exists (len / 2 / gw)%Z; lia|].
  split; [nia|].
  split; [lia|].
  intros Hlen. split; [lia|].
  (* both are multiples of gw and mid < len *)
  assert (Hlt : (split_mid gw len < len)%Z) by lia.
  rewrite Hm in Hlt |- *. clear Heq Hdm Hmb Hd2 Hm2 Hh Hm Hl H62 H64.
  set (m := (len / 2 / gw)%Z) in *. clearbody m. subst len.
  assert (m < k)%Z by nia. nia.
Qed.

(* the same on the naturals, as used by Par.split *)
Lemma split_mid_nat (gw len : nat) :
  gw = 8 \/ gw = 16 -> (exists k, len = gw * k) -> (zn len < 2 ^ 62)%Z ->
  exists m, nz (split_mid (zn gw) (zn len)) = gw * m /\
            2 * (gw * m) <= len /\ (0 < len -> gw * m + gw <= len).
Proof.
  intros Hg (k & Hk) Hl.
  destruct (split_mid_spec (zn gw) (zn len)) as (_ & (m & Hm) & H0 & H2 & Hlt).
  - unfold zn. destruct Hg as [-> | ->]; [left | right]; reflexivity.
  - unfold zn in *. lia.
  - exists (zn k). unfold zn. rewrite Hk. lia.
  - assert (Hgp : (0 < zn gw)%Z) by (unfold zn; lia).
    assert (Hm0 : (0 <= m)%Z) by nia.
    exists (nz m).
    assert (He : nz (split_mid (zn gw) (zn len)) = gw * nz m).
    { rewrite Hm. unfold nz, zn. rewrite Z2Nat.inj_mul by lia.
      rewrite Nat2Z.id. lia. }
    split; [exact He|].
    rewrite <- He. unfold nz, zn in *.
    split; [lia|].
    intros Hp. lia.
Qed.

(* ---------------------------------------------------------------------------------------- *)
(* list facts                                                                                 *)
(* ---------------------------------------------------------------------------------------- *)
Lemma NoDup_app_disjoint {A} (a b : list A) :
  NoDup (a ++ b) -> forall x, In x a -> ~ In x b.
Proof.
  induction a as [|y a IH]; intros H x Hx; [destruct Hx|].
  simpl in H. inversion H as [|? ? Hn Hr]; subst.
  destruct Hx as [-> | Hx].
  - intros Hb. apply Hn. apply in_or_app. right. exact Hb.
  - apply IH; assumption.
Qed.

Lemma NoDup_app_tail {A} (a b : list A) : NoDup (a ++ b) -> NoDup b.
Proof.
  induction a as [|y a IH]; intros H; [exact H|].
  simpl in H. inversion H; subst. apply IH. assumption.
Qed.

(* missing `takes` entries mean "consume the whole leaf" *)
Fixpoint drain_all (ls : list (list nat)) (takes : list nat) : list (list nat * list nat) :=
  match ls with
  | [] => []
  | l :: ls' =>
      match takes with
      | [] => drain_leaf l (length l) :: drain_all ls' []
      | k :: ks => drain_leaf l k :: drain_all ls' ks
      end
  end.

(* leaf k is stopped after its entry of `takes` (if any) *)
Lemma drain_all_nth : forall ls takes k, k < length ls ->
  nth k (drain_all ls takes) ([], []) =
  drain_leaf (nth k ls [])
    (match nth_error takes k with Some n => n | None => length (nth k ls []) end).
Proof.
  induction ls as [|l ls IH]; intros takes k Hk; [simpl in Hk; lia|].
  destruct takes as [|n ns]; destruct k as [|k]; cbn [drain_all nth nth_error]; try reflexivity.
  - rewrite IH by (simpl in Hk; lia). destruct k; reflexivity.
  - apply IH. simpl in Hk. lia.
Qed.

Lemma drain_all_perm : forall ls takes,
  Permutation (concat (map fst (drain_all ls takes)) ++ concat (map snd (drain_all ls takes)))
              (concat ls).
Proof.
  assert (Hstep : forall (l : list nat) k D R C,
    Permutation (D ++ R) C ->
    Permutation ((firstn k l ++ D) ++ (skipn k l ++ R)) (l ++ C)).
  { intros l k D R C H.
    rewrite <- (firstn_skipn k l) at 3.
    rewrite <- !app_assoc. apply Permutation_app_head.
    rewrite !app_assoc. etransitivity.
    - apply Permutation_app_tail. apply Permutation_app_comm.
    - rewrite <- !app_assoc. apply Permutation_app_head. exact H. }
  induction ls as [|l ls IH]; intros takes; [constructor|].
  destruct takes as [|k ks]; cbn [drain_all map concat drain_leaf fst snd]; apply Hstep; apply IH.
Qed.

Section ParFacts.
  Variable B : backend.
  Variable T : Type.
  Hypothesis HW : WidthOK B.
  Hypothesis HB : BackendSpec B.

  Local Notation GW := (bk_width B).

  (* ---------------------------------------------------------------------------------------- *)
  (* P2: the semantic view of a range state                                                    *)
  (* ---------------------------------------------------------------------------------------- *)
  (* pending bits of the loaded group, then the FULL buckets of the range not yet loaded *)
  Definition contents (t : table T) (it : raw_iter) : list nat :=
    map (fun b => it_first it + b) (it_cur it) ++ fl t (it_next it) (it_end it - it_next it).

  (* the loaded group is the aligned one just before next_ctrl; the end is a group boundary
     inside the table, or (tables smaller than a group, finished ranges) not after next_ctrl;
     the pending bits are a suffix of the FULL buckets of the loaded group; and the range is a
     contiguous segment of the sequential enumeration *)
  Definition RangeOK (t : table T) (it : raw_iter) : Prop :=
    it_next it = it_first it + GW /\
    (exists q, it_first it = GW * q) /\
    (it_end it <= it_next it \/ ((exists q, it_end it = GW * q) /\ it_end it <= nb T t)) /\
    (exists k, map (fun b => it_first it + b) (it_cur it) = skipn k (fl t (it_first it) GW)) /\
    (exists a b, full_list t = a ++ contents t it ++ b).

  Lemma contents_pending (t : table T) it : contents t it = pending T t (it_end it) it.
  Proof. reflexivity. Qed.

  Lemma contents_length (t : table T) it : RangeOK t it -> length (contents t it) <= nb T t.
  Proof.
    intros (_ & _ & _ & _ & a & b & Hseg).
    pose proof (full_list_le T t) as Hle. rewrite Hseg, !app_length in Hle. lia.
  Qed.

  Lemma contents_full (t : table T) it i : RangeOK t it -> In i (contents t it) ->
    i < nb T t /\ is_full (byte T t i) = true.
  Proof.
    intros (_ & _ & _ & _ & a & b & Hseg) Hi.
    assert (Hin : In i (full_list t)).
    { rewrite Hseg. apply in_or_app. right. apply in_or_app. left. exact Hi. }
    unfold full_list in Hin. apply filter_In in Hin. destruct Hin as [Hs Hf].
    apply in_seq in Hs. split; [lia | exact Hf].
  Qed.

  (* range_new at an aligned, in-bounds position *)
  Lemma range_new_eq (t : table T) a q len n :
    Forall valid_ctrl (ctrl t) -> a = GW * q -> a + GW <= length (ctrl t) ->
    exists cur, range_new B T t a len n = Ok (mkIter cur a (a + GW) (a + len) n) /\
                map (fun b => a + b) cur = fl t a GW.
  Proof.
    intros Hv Ha Hl. unfold range_new.
    rewrite (load_aligned_ok B T HW t a q Ha Hl). cbn [bind].
    eexists. split; [reflexivity|].
    apply (group_full B T HB t a Hv Hl).
  Qed.

  Theorem iter_new_ok (t : table T) : SafeWF B T t ->
    exists it, iter_new B T t = Ok it /\ RangeOK t it /\ contents t it = full_list t.
  Proof.
    intros H. pose proof (GW_pos B HW) as HG.
    destruct (safe_geo B T HW t H) as [(Hv & Hbl & _) _ HL Hlen _ _].
    unfold iter_bound in Hbl, HL.
    assert (Hfit : 0 + GW <= length (ctrl t)).
    { destruct (Nat.leb_spec GW (nb T t)); lia. }
    destruct (range_new_eq t 0 0 (buckets T t) (items t) Hv ltac:(lia) Hfit) as (cur & Hr & Hc).
    unfold iter_new. rewrite Hr. eexists. split; [reflexivity|].
    assert (Hcont : contents t (mkIter cur 0 (0 + GW) (0 + buckets T t) (items t)) = full_list t).
    { unfold contents. cbn [it_cur it_first it_next it_end]. rewrite Hc.
      fold (nb T t). destruct (Nat.leb_spec GW (nb T t)) as [Hge|Hlt].
      - rewrite <- fl_app. rewrite full_list_fl. f_equal. lia.
      - replace (0 + nb T t - (0 + GW)) with 0 by lia. rewrite fl_nil, app_nil_r. exact HL. }
    split; [|exact Hcont].
    unfold RangeOK. rewrite Hcont. cbn [it_cur it_first it_next it_end].
    split; [reflexivity|]. split; [exists 0; lia|]. split; [|split].
    - fold (nb T t). destruct (Nat.leb_spec GW (nb T t)) as [Hge|Hlt]; [right | left; lia].
      split; [|lia].
      assert (Hsc : Scan B T t (iter_bound B T t)) by (apply geo_scan, safe_geo; assumption).
      destruct Hsc as (_ & _ & q & Hq). unfold iter_bound in Hq.
      destruct (Nat.leb_spec GW (nb T t)); [|lia]. exists q. lia.
    - exists 0. rewrite Hc. reflexivity.
    - exists [], []. rewrite app_nil_r. reflexivity.
  Qed.

  (* ---- consuming a range ---- *)
  Lemma consume_done (t : table T) f n e x : e <= n ->
    forall cur calls, length cur < calls ->
      range_consume B T calls t (mkIter cur f n e x) = Ok (map (fun b => f + b) cur).
  Proof.
    intros Hle. induction cur as [|b r IH]; intros calls Hc; (destruct calls as [|calls]; [simpl in Hc; lia|]);
      cbn [range_consume]; rewrite next_impl_eq; cbn [it_cur it_first it_next it_end it_items].
    - cbn [andb]. destruct (Nat.leb_spec e n); [reflexivity | lia].
    - cbn [bind]. rewrite IH by (simpl in Hc; lia). reflexivity.
  Qed.

  Lemma consume_pending (t : table T) E : Scan B T t E -> E <= S (buckets T t / GW) * GW ->
    forall calls it, StOK B E it -> it_end it = E -> length (pending T t E it) < calls ->
      range_consume B T calls t it = Ok (pending T t E it).
  Proof.
    intros HS HF. induction calls as [|calls IH]; intros it Hst Hend Hlen; [lia|].
    cbn [range_consume].
    destruct (pending T t E it) as [|x rest] eqn:Hp.
    - destruct (next_impl_none B T HW HB t E HS (S (buckets T t / GW)) it Hst Hp ltac:(lia) Hend) as (it' & Hn & _).
      rewrite Hn. reflexivity.
    - destruct (next_impl_some B T HW HB t E true HS (S (buckets T t / GW)) it x rest Hst Hp ltac:(lia) (or_intror Hend))
        as (it' & Hn & Hst' & Hp' & _ & He & _).
      rewrite Hn. cbn [bind].
      rewrite (IH it' Hst') by (rewrite ?Hp'; simpl in Hlen; lia || congruence).
      rewrite Hp'. reflexivity.
  Qed.

  Theorem consume_spec (t : table T) it : SafeWF B T t -> RangeOK t it ->
    forall calls, length (contents t it) < calls ->
      range_consume B T calls t it = Ok (contents t it).
  Proof.
    intros H (Hn & (q & Hf) & Hend & _ & _) calls Hlen. pose proof (GW_pos B HW) as HG.
    destruct (safe_geo B T HW t H) as [(Hv & _ & _) _ _ Hcl _ _].
    destruct (Nat.le_gt_cases (it_end it) (it_next it)) as [Hle|Hlt].
    - unfold contents in *. replace (it_end it - it_next it) with 0 in * by lia.
      rewrite fl_nil, app_nil_r in *. rewrite map_length in Hlen.
      destruct it as [cur f n e x]. cbn [it_cur it_first it_next it_end] in *.
      apply consume_done; assumption.
    - destruct Hend as [Hbad | ((qe & Hqe) & Hnb)]; [lia|].
      rewrite contents_pending in *.
      apply consume_pending.
      + split; [exact Hv|]. split; [lia|]. exists qe. exact Hqe.
      + pose proof (fuel_bound B HW (nb T t)) as Hfb. unfold nb in *. lia.
      + unfold StOK. split; [exact Hn|]. split; [exists q; exact Hf | lia].
      + reflexivity.
      + exact Hlen.
  Qed.

  (* with the number of calls that run_decisions gives to every leaf *)
  Corollary consume_leaf (t : table T) it : SafeWF B T t -> RangeOK t it ->
    range_consume B T (S (S (buckets T t))) t it = Ok (contents t it).
  Proof.
    intros H Hr. apply consume_spec; [exact H | exact Hr|].
    pose proof (contents_length t it Hr). unfold nb in *. lia.
  Qed.

  (* ---------------------------------------------------------------------------------------- *)
  (* P3: split                                                                                  *)
  (* ---------------------------------------------------------------------------------------- *)
  Theorem split_spec (t : table T) it : SafeWF B T t -> RangeOK t it ->
    exists l r, split B T t it = Ok (l, r) /\ RangeOK t l /\
      match r with
      | None => l = it
      | Some rt =>
          RangeOK t rt /\
          contents t it = contents t l ++ contents t rt /\
          it_end l - it_next l < it_end it - it_next it /\
          it_end rt - it_next rt < it_end it - it_next it /\
          (* exact accounting: the tail's first group is loaded by the split *)
          (it_end l - it_next l) + (it_end rt - it_next rt) + GW = it_end it - it_next it
      end.
  Proof.
    intros H Hok. pose proof (GW_pos B HW) as HG.
    pose proof Hok as (Hn & (q & Hf) & Hend & Hcur & (sa & sb & Hseg)).
    destruct (safe_geo B T HW t H) as [(Hv & _ & _) _ _ Hcl _ Hnb62].
    unfold split.
    destruct (Nat.leb_spec (it_end it) (it_next it)) as [Hle|Hlt].
    - exists it, None. split; [reflexivity|]. split; [exact Hok | reflexivity].
    - destruct Hend as [Hbad | ((qe & Hqe) & Hnb)]; [lia|].
      set (len := it_end it - it_next it) in *.
      assert (Hlen : exists k, len = GW * k).
      { exists (qe - (q + 1)). unfold len. rewrite Hqe, Hn, Hf. nia. }
      destruct (split_mid_nat GW len HW Hlen) as (m & Hmid & Hhalf & Hroom).
      { assert (H62 : (2 ^ 62 = 4611686018427387904)%Z) by reflexivity.
        unfold zn, len in *. lia. }
      specialize (Hroom ltac:(unfold len; lia)).
      rewrite Hmid. set (mid := GW * m) in *.
      destruct (range_new_eq t (it_next it + mid) (q + 1 + m) (len - mid) (it_items it) Hv)
        as (cur' & Hr & Hc').
      { unfold mid. rewrite Hn, Hf. lia. }
      { unfold len in *. lia. }
      rewrite Hr. cbn [bind].
      set (L := mkIter (it_cur it) (it_first it) (it_next it) (it_next it + mid) (it_items it)).
      set (R := mkIter cur' (it_next it + mid) (it_next it + mid + GW)
                       (it_next it + mid + (len - mid)) (it_items it)).
      exists L, (Some R). split; [reflexivity|].
      (* the contents equation *)
      assert (HcL : contents t L = map (fun b => it_first it + b) (it_cur it) ++ fl t (it_next it) mid).
      { unfold contents, L. cbn [it_cur it_first it_next it_end]. do 2 f_equal. lia. }
      assert (HcR : contents t R = fl t (it_next it + mid) (len - mid)).
      { unfold contents, R. cbn [it_cur it_first it_next it_end]. rewrite Hc', <- fl_app.
        f_equal. lia. }
      assert (Hsplit : contents t it = contents t L ++ contents t R).
      { rewrite HcL, HcR, <- app_assoc, <- fl_app. unfold contents. fold len.
        do 2 f_equal. lia. }
      split; [|split; [|split; [exact Hsplit|]]].
      + (* the head *)
        unfold RangeOK. split; [exact Hn|]. split; [exists q; exact Hf|].
        split; [|split; [exact Hcur|]].
        * right. unfold L. cbn [it_next it_end].
          split; [exists (q + 1 + m); unfold mid; rewrite Hn, Hf; lia|].
          unfold len in *. lia.
        * exists sa, (contents t R ++ sb). rewrite Hseg, Hsplit, <- !app_assoc. reflexivity.
      + (* the tail *)
        unfold RangeOK. split; [reflexivity|].
        split; [exists (q + 1 + m); unfold R, mid; cbn [it_first]; rewrite Hn, Hf; lia|].
        split; [|split].
        * right. unfold R. cbn [it_next it_end].
          replace (it_next it + mid + (len - mid)) with (it_end it) by (unfold len in *; lia).
          split; [exists qe; exact Hqe | exact Hnb].
        * exists 0. unfold R. cbn [it_cur it_first]. rewrite Hc'. reflexivity.
        * exists (sa ++ contents t L), sb. rewrite Hseg, Hsplit, <- !app_assoc. reflexivity.
      + unfold L, R. cbn [it_next it_end]. unfold len in *. lia.
  Qed.

  (* ---------------------------------------------------------------------------------------- *)
  (* P4: every split tree partitions the FULL buckets                                           *)
  (* ---------------------------------------------------------------------------------------- *)
  (* every recursive call consumes a decision or ends, so fuel > length dec suffices; the
     decisions handed back are not more than the ones received *)
  Lemma run_decisions_spec (t : table T) : SafeWF B T t ->
    forall fuel dec it, RangeOK t it -> length dec < fuel ->
      exists ls d', run_decisions B T fuel t it dec = Ok (ls, d') /\
                    concat ls = contents t it /\ length d' <= length dec.
  Proof.
    intros H. induction fuel as [|fuel IH]; intros dec it Hok Hfu; [lia|].
    cbn [run_decisions].
    destruct dec as [|[|] d].
    - rewrite (consume_leaf t it H Hok). cbn [bind].
      eexists. eexists. split; [reflexivity|]. split; [apply app_nil_r | lia].
    - destruct (split_spec t it H Hok) as (l & r & Hs & Hl & Hr).
      rewrite Hs. cbn [bind]. simpl in Hfu.
      destruct r as [rt|].
      + destruct Hr as (Hrt & Hc & _).
        destruct (IH d l Hl ltac:(lia)) as (la & d1 & Ha & Hca & Hd1).
        rewrite Ha. cbn [bind].
        destruct (IH d1 rt Hrt ltac:(lia)) as (lb & d2 & Hb & Hcb & Hd2).
        rewrite Hb. cbn [bind].
        eexists. eexists. split; [reflexivity|].
        split; [rewrite concat_app, Hca, Hcb, Hc; reflexivity | simpl; lia].
      + subst l. destruct (IH d it Hok ltac:(lia)) as (la & d1 & Ha & Hca & Hd1).
        exists la, d1. split; [exact Ha|]. split; [exact Hca | simpl; lia].
    - rewrite (consume_leaf t it H Hok). cbn [bind].
      eexists. eexists. split; [reflexivity|]. split; [apply app_nil_r | simpl; lia].
  Qed.

  Lemma full_list_NoDup (t : table T) : NoDup (full_list t).
  Proof. unfold full_list. apply NoDup_filter, seq_NoDup. Qed.

  Lemma full_list_In (t : table T) i :
    In i (full_list t) <-> i < nb T t /\ is_full (byte T t i) = true.
  Proof.
    unfold full_list. rewrite filter_In, in_seq. split; intros [H1 H2]; (split; [lia | exact H2]).
  Qed.

  (* MAIN THEOREM: whatever rayon's scheduler decides, the leaves (left to right) concatenate to
     the sequential enumeration, and no leaf ever fails (no out-of-bounds or unaligned load, no
     fuel exhaustion) *)
  Theorem split_partition (t : table T) (dec : list bool) : SafeWF B T t ->
    exists ls, split_leaves B T t dec = Ok ls /\ concat ls = full_list t.
  Proof.
    intros H. destruct (iter_new_ok t H) as (it & Hnew & Hok & Hc).
    destruct (run_decisions_spec t H (S (length dec)) dec it Hok ltac:(lia))
      as (ls & d' & Hrun & Hcat & _).
    exists ls. unfold split_leaves. rewrite Hnew. cbn [bind]. rewrite Hrun. cbn [bind].
    split; [reflexivity | congruence].
  Qed.

  Corollary split_partition_NoDup (t : table T) dec ls : SafeWF B T t ->
    split_leaves B T t dec = Ok ls -> NoDup (concat ls).
  Proof.
    intros H Hs. destruct (split_partition t dec H) as (ls' & Hs' & Hc).
    rewrite Hs in Hs'. injection Hs' as <-. rewrite Hc. apply full_list_NoDup.
  Qed.

  Corollary split_partition_perm (t : table T) dec ls : SafeWF B T t ->
    split_leaves B T t dec = Ok ls -> Permutation (concat ls) (full_list t).
  Proof.
    intros H Hs. destruct (split_partition t dec H) as (ls' & Hs' & Hc).
    rewrite Hs in Hs'. injection Hs' as <-. rewrite Hc. apply Permutation_refl.
  Qed.

  Corollary split_partition_In (t : table T) dec ls : SafeWF B T t ->
    split_leaves B T t dec = Ok ls ->
    forall i, In i (concat ls) <-> i < nb T t /\ is_full (byte T t i) = true.
  Proof.
    intros H Hs i. destruct (split_partition t dec H) as (ls' & Hs' & Hc).
    rewrite Hs in Hs'. injection Hs' as <-. rewrite Hc. apply full_list_In.
  Qed.

  (* the leaves are pairwise disjoint: a bucket delivered by leaf j is not delivered by leaf k *)
  Corollary split_partition_disjoint (t : table T) dec ls : SafeWF B T t ->
    split_leaves B T t dec = Ok ls ->
    forall j k i, j < k -> In i (nth j ls []) -> ~ In i (nth k ls []).
  Proof.
    intros H Hs. pose proof (split_partition_NoDup t dec ls H Hs) as Hnd. clear Hs.
    induction ls as [|l ls IH]; intros j k i Hjk Hj Hk.
    - destruct j; destruct Hj.
    - cbn [concat] in Hnd. destruct k as [|k]; [lia|]. cbn [nth] in Hk.
      destruct j as [|j]; cbn [nth] in Hj.
      + apply (NoDup_app_disjoint _ _ Hnd i Hj).
        destruct (Nat.lt_ge_cases k (length ls)) as [Hlt|Hge].
        * apply in_concat. exists (nth k ls []). split; [apply nth_In; exact Hlt | exact Hk].
        * rewrite nth_overflow in Hk by exact Hge. destruct Hk.
      + apply NoDup_app_tail in Hnd. apply (IH Hnd j k i); [lia | exact Hj | exact Hk].
  Qed.

  (* ---------------------------------------------------------------------------------------- *)
  (* P5: par_drain with a consumer that stops early                                             *)
  (* ---------------------------------------------------------------------------------------- *)
  Theorem drain_conservation (t : table T) dec ls (takes : list nat) : SafeWF B T t ->
    split_leaves B T t dec = Ok ls ->
    let parts := drain_all ls takes in
    let delivered := concat (map fst parts) in
    let dropped := concat (map snd parts) in
    Permutation (delivered ++ dropped) (full_list t) /\
    NoDup (delivered ++ dropped) /\
    (forall i, In i delivered -> ~ In i dropped) /\
    (forall i, i < nb T t /\ is_full (byte T t i) = true <-> In i delivered \/ In i dropped).
  Proof.
    intros H Hs. cbv zeta.
    pose proof (drain_all_perm ls takes) as Hp.
    destruct (split_partition t dec H) as (ls' & Hs' & Hc).
    rewrite Hs in Hs'. injection Hs' as <-. rewrite Hc in Hp.
    assert (Hnd : NoDup (concat (map fst (drain_all ls takes)) ++ concat (map snd (drain_all ls takes)))).
    { apply (Permutation_NoDup (Permutation_sym Hp)), full_list_NoDup. }
    split; [exact Hp|]. split; [exact Hnd|]. split.
    - apply NoDup_app_disjoint. exact Hnd.
    - intros i. rewrite <- full_list_In, <- in_app_iff. split; intros Hi.
      + apply (Permutation_in i (Permutation_sym Hp) Hi).
      + apply (Permutation_in i Hp Hi).
  Qed.
End ParFacts.

Print Assumptions split_mid_spec.
Print Assumptions iter_new_ok.
Print Assumptions consume_spec.
Print Assumptions split_spec.
Print Assumptions split_partition.
Print Assumptions split_partition_NoDup.
Print Assumptions split_partition_perm.
Print Assumptions split_partition_In.
Print Assumptions split_partition_disjoint.
Print Assumptions drain_conservation.
