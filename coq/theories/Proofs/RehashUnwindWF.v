(* RehashUnwindWF.v -- the FULL invariant WF = SafeWF + Tags + Reach also holds after an in-place
   rehash that UNWOUND (the hasher panicked on some element), with the repaired guard.

   When the hasher panics at bucket i, every FULL byte belongs to an element that was already placed
   by its (Some) hash, with all earlier probe groups entirely FULL at placement time (JInv, RehashWF)
   -- and the hasher answers on that element (KInv).  Elements that were processed stay FULL; the
   guard only turns DELETED bytes into EMPTY and takes their elements away.  FULL bytes keep byte and
   element (FullKept), so sreach is preserved (sreach_mono), and Tags is untouched.

   U1  JK = JInv + KInv through rehash_inner / rehash_outer WITHOUT lawfulness: the loops stop at
       the first None and hand over a state in which JK still holds
   U2  the guard pass keeps the FULL buckets and creates none (guard_loop_frame)
   U3  rehash_in_place_unwind_WF
   U4  reserve_rehash / reserve / try_reserve: an unwound call leaves a WF table *)
From Coq Require Import ZArith List Bool Lia Permutation.
From HB Require Import RsPrelude Sse2 Gen Group Raw Check ArithFacts Triangular WFDefs GroupFacts
  ProbeFacts SafeInsertErase FindFacts RehashSafe RehashWF.
Import ListNotations.
Open Scope nat_scope.

Section RehashUnwindWF.
  Variable B : backend.
  Variable T : Type.
  Hypothesis HW : WidthOK B.
  Hypothesis HB : BackendSpec B.
  Variable h : T -> option Z.
  Local Notation GW := (bk_width B).

  (* ---------------------------------------------------------------------------------------- *)
  (* U1: the loop invariant without lawfulness                                                  *)
  (* ---------------------------------------------------------------------------------------- *)
  (* the hasher answers on the element of every FULL bucket *)
  Definition KInv (t : table T) : Prop :=
    forall j e, j < nb T t -> is_full (byte T t j) = true -> slot T t j = Some e ->
      exists hash, h e = Some hash.

  Definition JK (t : table T) : Prop := JInv B T h t /\ KInv t.

  Lemma JK_step t t' tgt e hash :
    Shape B T t -> Mirror B T t -> Shape B T t' -> Mirror B T t' -> mask t' = mask t ->
    JK t ->
    (forall j, j < nb T t -> is_full (byte T t j) = true ->
       byte T t' j = byte T t j /\ slot T t' j = slot T t j) ->
    (forall j, j < nb T t -> is_full (byte T t j) = false -> is_full (byte T t' j) = true -> j = tgt) ->
    byte T t' tgt = tag_full hash -> slot T t' tgt = Some e -> h e = Some hash ->
    sreach B T t hash tgt = true ->
    JK t'.
  Proof.
    intros HS HM HS' HM' Em [HJ HK] Hkeep Hnew Hb He Hh Hsr. split.
    - exact (JInv_step B T h t t' tgt e hash HS HM HS' HM' Em HJ Hkeep Hnew Hb He Hh Hsr).
    - assert (Enb : nb T t' = nb T t) by (apply same_mask_nb; exact Em).
      intros j e' Hj Hf' He'. rewrite Enb in Hj.
      destruct (is_full (byte T t j)) eqn:Hf.
      + destruct (Hkeep j Hj Hf) as [_ Es]. rewrite Es in He'. exact (HK j e' Hj Hf He').
      + pose proof (Hnew j Hj Hf Hf') as ->. rewrite He in He'. injection He' as <-.
        exists hash. exact Hh.
  Qed.

  (* ---- the inner loop: completes (ok = true) or stops at the first None (ok = false, the state
          is returned as it is); JK holds in both cases ---- *)
  Theorem rehash_inner_JU : forall fuel t i,
    RInv B T t -> JK t -> i < nb T t -> byte T t i = DELETED -> ndel T t < fuel ->
    exists t' ok, rehash_inner B T h fuel t i = Ok (t', ok) /\
      RInv B T t' /\ JK t' /\ mask t' = mask t /\ items t' = items t /\
      Permutation (occupants T t') (occupants T t) /\
      (forall j, j < nb T t -> byte T t' j = DELETED -> byte T t j = DELETED) /\
      (ok = true -> byte T t' i <> DELETED) /\
      (ok = false -> exists e, In e (occupants T t) /\ h e = None).
  Proof.
    induction fuel as [|f IH]; intros t i HR HJ Hi Hbi Hfuel; [lia|].
    pose proof HR as (HS & HM & Hsl & Hit & Hcap).
    pose proof HS as (_ & _ & Hlen & _).
    pose proof (RInv_mask_nz B T t HR) as Hnz.
    destruct (slot T t i) as [e|] eqn:Ee;
      [|exfalso; exact (proj2 (Hsl i Hi) (or_intror Hbi) Ee)].
    assert (HinE : In e (occupants T t)).
    { apply occupants_In. exists i. split; [lia|exact Ee]. }
    cbn [rehash_inner]. unfold hash_at.
    rewrite (slot_ref_ok T t i e Hnz ltac:(lia) Ee). cbn [bind].
    destruct (h e) as [hash|] eqn:Eh.
    2:{ (* the hasher panics: nothing has been written *)
        exists t, false. split; [reflexivity|]. split; [exact HR|]. split; [exact HJ|].
        split; [reflexivity|]. split; [reflexivity|]. split; [apply Permutation_refl|].
        split; [intros j _ X; exact X|]. split; [discriminate|].
        intros _. exists e. split; assumption. }
    destruct (find_insert_slot_terminates_E B T HW HB t HS HM (RInv_empty B T t HR) hash)
      as (ni & Eni & Hni & Hsp).
    rewrite Eni. cbn [bind].
    pose proof (ndel_pos B T t i HS Hi Hbi) as Hdpos.
    assert (Hnfi : is_full (byte T t i) = false) by (rewrite Hbi; reflexivity).
    assert (Hnfn : is_full (byte T t ni) = false).
    { rewrite is_special_negb_full in Hsp. destruct (is_full (byte T t ni)); [discriminate Hsp|reflexivity]. }
    destruct (n_same_group GW (mask t) i ni hash) eqn:Esg.
    - (* same probe group: the element stays, the tag is written *)
      destruct (set_ctrl_counts B T HW t i (tag_full hash) HS HM Hi (tag_full_valid hash))
        as (t1 & E1 & Em1 & Esl1 & Eit1 & HS1 & HM1 & Hb1 & Cf & Cd).
      unfold set_ctrl_hash. rewrite E1. cbn [bind].
      rewrite Hbi in Cf, Cd. rewrite tag_full_is_full in Cf.
      rewrite (full_not_deleted _ (tag_full_is_full hash)) in Cd.
      change (is_full DELETED) with false in Cf. change (is_deleted DELETED) with true in Cd.
      cbn [b2n] in Cf, Cd.
      exists t1, true. split; [reflexivity|]. split.
      { apply (RInv_ext B T t t1 t1 HR HS1 HM1 Em1 Eit1); try reflexivity; [lia|rewrite Esl1; exact Hlen|].
        intros j Hj. unfold slot. rewrite Esl1. fold (slot T t j). rewrite (Hsl j Hj), (Hb1 j Hj).
        destruct (Nat.eqb_spec j i) as [->|Hne]; [|reflexivity].
        rewrite tag_full_is_full. split; intros _; [left; reflexivity|right; exact Hbi]. }
      split.
      { apply (JK_step t t1 i e hash HS HM HS1 HM1 Em1 HJ).
        - intros j Hj Hf. rewrite (Hb1 j Hj).
          destruct (Nat.eqb_spec j i) as [->|Hne]; [congruence|].
          split; [reflexivity|unfold slot; rewrite Esl1; reflexivity].
        - intros j Hj Hf Hf'. rewrite (Hb1 j Hj) in Hf'.
          destruct (Nat.eqb_spec j i) as [->|Hne]; [reflexivity|congruence].
        - rewrite (Hb1 i Hi), Nat.eqb_refl. reflexivity.
        - unfold slot. rewrite Esl1. exact Ee.
        - exact Eh.
        - exact (sreach_placed B T HW HB t HS HM hash ni i Eni Esg). }
      split; [exact Em1|]. split; [exact Eit1|].
      split; [rewrite !occupants_occ, Esl1; apply Permutation_refl|].
      split.
      { intros j Hj. rewrite (Hb1 j Hj). destruct (Nat.eqb_spec j i) as [->|Hne]; [|intros X; exact X].
        intros _. exact Hbi. }
      split; [|discriminate]. intros _.
      rewrite (Hb1 i Hi), Nat.eqb_refl. apply tag_full_not_deleted.
    - assert (Hne : ni <> i).
      { intros ->. rewrite same_group_refl in Esg. discriminate Esg. }
      pose proof (sreach_placed B T HW HB t HS HM hash ni ni Eni (same_group_refl B (mask t) ni hash))
        as Hsr.
      rewrite (ctrl_at_ok B T t HS ni Hni). cbn [bind].
      destruct (set_ctrl_counts B T HW t ni (tag_full hash) HS HM Hni (tag_full_valid hash))
        as (t1 & E1 & Em1 & Esl1 & Eit1 & HS1 & HM1 & Hb1 & Cf1 & Cd1).
      unfold set_ctrl_hash. rewrite E1. cbn [bind].
      rewrite tag_full_is_full in Cf1. rewrite (full_not_deleted _ (tag_full_is_full hash)) in Cd1.
      assert (Enb1 : nb T t1 = nb T t) by (unfold nb, buckets; rewrite Em1; reflexivity).
      assert (Hnz1 : mask t1 <> 0) by (rewrite Em1; exact Hnz).
      assert (Hb1i : byte T t1 i = DELETED).
      { rewrite (Hb1 i Hi). destruct (Nat.eqb_spec i ni); [lia|exact Hbi]. }
      destruct (special_cases _ (byte_valid B T t ni HS ltac:(lia)) Hsp) as [Hpe | Hpd].
      + (* the target bucket was EMPTY: the element moves there *)
        rewrite Hpe in Cf1, Cd1 |- *.
        change (EMPTY =? EMPTY)%Z with true. cbv iota.
        change (is_full EMPTY) with false in Cf1. change (is_deleted EMPTY) with false in Cd1.
        cbn [b2n] in Cf1, Cd1.
        assert (Hnone : slot T t ni = None).
        { destruct (slot T t ni) eqn:En; [|reflexivity]. exfalso.
          assert (X : slot T t ni <> None) by (rewrite En; discriminate).
          apply (Hsl ni Hni) in X. rewrite Hpe in X. destruct X as [X | X]; discriminate X. }
        destruct (set_ctrl_counts B T HW t1 i EMPTY HS1 HM1 ltac:(lia) valid_EMPTY)
          as (t2 & E2 & Em2 & Esl2 & Eit2 & HS2 & HM2 & Hb2 & Cf2 & Cd2).
        rewrite E2. cbn [bind].
        rewrite Hb1i in Cf2, Cd2.
        change (is_full DELETED) with false in Cf2. change (is_deleted DELETED) with true in Cd2.
        change (is_full EMPTY) with false in Cf2. change (is_deleted EMPTY) with false in Cd2.
        cbn [b2n] in Cf2, Cd2.
        assert (Ee2 : slot T t2 i = Some e) by (unfold slot; rewrite Esl2, Esl1; exact Ee).
        assert (Hnz2 : mask t2 <> 0) by (rewrite Em2; exact Hnz1).
        assert (Hlen2 : length (slots t2) = nb T t) by (rewrite Esl2, Esl1; exact Hlen).
        rewrite (slot_ref_ok T t2 i e Hnz2 ltac:(lia) Ee2). cbn [bind].
        rewrite (slot_write_ok T t2 ni e Hnz2 ltac:(lia)). cbn [bind].
        eexists _, true. split; [reflexivity|].
        set (t' := with_slots T (with_slots T t2 _) _).
        assert (Eslots : slots t' = upd (upd (slots t) ni (Some e)) i None).
        { unfold t'. cbn [slots with_slots]. rewrite Esl2, Esl1. reflexivity. }
        assert (Eby : forall j, byte T t' j = byte T t2 j) by reflexivity.
        assert (Hby2 : forall j, j < nb T t ->
                  byte T t2 j = if j =? i then EMPTY else if j =? ni then tag_full hash else byte T t j).
        { intros j Hj. rewrite (Hb2 j ltac:(lia)), (Hb1 j Hj). reflexivity. }
        assert (Esl' : forall j, slot T t' j =
                  if j =? i then None else if j =? ni then Some e else slot T t j).
        { intros j. unfold slot. rewrite Eslots, nth_upd2 by lia. reflexivity. }
        assert (HR' : RInv B T t').
        { apply (RInv_ext B T t t2 t' HR HS2 HM2 (eq_trans Em2 Em1) (eq_trans Eit2 Eit1)); try reflexivity.
          - lia.
          - rewrite Eslots, upd2_length; lia.
          - intros j Hj. rewrite Esl'. rewrite (Hby2 j Hj).
            destruct (Nat.eqb_spec j i) as [->|Hji].
            + split; [intros X; exfalso; apply X; reflexivity|intros [X | X]; discriminate X].
            + destruct (Nat.eqb_spec j ni) as [->|Hjn].
              * rewrite tag_full_is_full. split; [intros _; left; reflexivity|discriminate].
              * apply (Hsl j Hj). }
        split; [exact HR'|]. split.
        { pose proof HR' as (HS' & HM' & _).
          apply (JK_step t t' ni e hash HS HM HS' HM' (eq_trans Em2 Em1) HJ).
          - intros j Hj Hf. rewrite Eby, (Hby2 j Hj), Esl'.
            destruct (Nat.eqb_spec j i) as [->|Hji]; [congruence|].
            destruct (Nat.eqb_spec j ni) as [->|Hjn]; [congruence|]. split; reflexivity.
          - intros j Hj Hf Hf'. rewrite Eby, (Hby2 j Hj) in Hf'.
            destruct (Nat.eqb_spec j i) as [->|Hji]; [discriminate Hf'|].
            destruct (Nat.eqb_spec j ni) as [->|Hjn]; [reflexivity|congruence].
          - rewrite Eby, (Hby2 ni Hni).
            destruct (Nat.eqb_spec ni i); [contradiction|]. rewrite Nat.eqb_refl. reflexivity.
          - rewrite Esl'. destruct (Nat.eqb_spec ni i); [contradiction|]. rewrite Nat.eqb_refl. reflexivity.
          - exact Eh.
          - exact Hsr. }
        split; [exact (eq_trans Em2 Em1)|]. split; [exact (eq_trans Eit2 Eit1)|].
        split.
        { rewrite !occupants_occ, Eslots.
          pose proof (occ_swap T (slots t) ni i Hne ltac:(lia) ltac:(lia)) as P.
          fold (slot T t i) in P. fold (slot T t ni) in P. rewrite Ee, Hnone in P. exact P. }
        split.
        { intros j Hj. rewrite Eby, (Hby2 j Hj).
          destruct (Nat.eqb_spec j i) as [->|Hji]; [intros _; exact Hbi|].
          destruct (Nat.eqb_spec j ni) as [->|Hjn]; [|intros X; exact X].
          intros X. exfalso. exact (tag_full_not_deleted hash X). }
        split; [|discriminate]. intros _.
        rewrite Eby, (Hby2 i Hi), Nat.eqb_refl. discriminate.
      + (* the target bucket holds another not-yet-rehashed element: swap and go on *)
        rewrite Hpd in Cf1, Cd1 |- *.
        change (DELETED =? EMPTY)%Z with false. cbv iota.
        change (is_full DELETED) with false in Cf1. change (is_deleted DELETED) with true in Cd1.
        cbn [b2n] in Cf1, Cd1.
        unfold swap_slots.
        rewrite (nth_error_nth' (slots t1) None) by (rewrite Esl1; lia).
        rewrite (nth_error_nth' (slots t1) None) by (rewrite Esl1; lia).
        rewrite Esl1. cbn [bind].
        set (t2 := with_slots T t1 _).
        assert (Eslots : slots t2 = upd (upd (slots t) i (nth ni (slots t) None)) ni (nth i (slots t) None))
          by reflexivity.
        assert (Eby : forall j, byte T t2 j = byte T t1 j) by reflexivity.
        assert (Esl2 : forall j, slot T t2 j =
                  if j =? ni then slot T t i else if j =? i then slot T t ni else slot T t j).
        { intros j. unfold slot. rewrite Eslots, nth_upd2 by lia. reflexivity. }
        assert (HR2 : RInv B T t2).
        { apply (RInv_ext B T t t1 t2 HR HS1 HM1 Em1 Eit1); try reflexivity.
          - lia.
          - rewrite Eslots, upd2_length; lia.
          - intros j Hj. rewrite Esl2. rewrite (Hb1 j Hj).
            destruct (Nat.eqb_spec j ni) as [->|Hjn].
            + rewrite Ee, tag_full_is_full.
              split; [intros _; left; reflexivity|discriminate].
            + destruct (Nat.eqb_spec j i) as [->|Hji].
              * rewrite (Hsl ni Hni).
                split; intros _; right; assumption.
              * apply (Hsl j Hj). }
        assert (HJ2 : JK t2).
        { pose proof HR2 as (HS2 & HM2 & _).
          apply (JK_step t t2 ni e hash HS HM HS2 HM2 Em1 HJ).
          - intros j Hj Hf. rewrite Eby, (Hb1 j Hj), Esl2.
            destruct (Nat.eqb_spec j ni) as [->|Hjn]; [congruence|].
            destruct (Nat.eqb_spec j i) as [->|Hji]; [congruence|]. split; reflexivity.
          - intros j Hj Hf Hf'. rewrite Eby, (Hb1 j Hj) in Hf'.
            destruct (Nat.eqb_spec j ni) as [->|Hjn]; [reflexivity|congruence].
          - rewrite Eby, (Hb1 ni Hni), Nat.eqb_refl. reflexivity.
          - rewrite Esl2, Nat.eqb_refl. exact Ee.
          - exact Eh.
          - exact Hsr. }
        assert (Em2 : mask t2 = mask t) by exact Em1.
        assert (Enb2 : nb T t2 = nb T t) by exact Enb1.
        assert (P2 : Permutation (occupants T t2) (occupants T t)).
        { rewrite !occupants_occ, Eslots. apply occ_swap; lia. }
        destruct (IH t2 i HR2 HJ2 ltac:(lia) ltac:(rewrite Eby; exact Hb1i)
                    ltac:(change (ndel T t2) with (ndel T t1); lia))
          as (t' & ok & E' & HR' & HJ' & Em' & Eit' & P' & Hb' & Hok' & Hfail').
        exists t', ok. split; [exact E'|]. split; [exact HR'|]. split; [exact HJ'|].
        split; [exact (eq_trans Em' Em2)|]. split; [exact (eq_trans Eit' Eit1)|].
        split; [exact (perm_trans P' P2)|]. split; [|split; [exact Hok'|]].
        * intros j Hj X. specialize (Hb' j ltac:(lia) X). rewrite Eby, (Hb1 j Hj) in Hb'.
          revert Hb'. destruct (Nat.eqb_spec j ni) as [Hjn|Hjn]; intros Hb'; [|exact Hb'].
          exfalso. exact (tag_full_not_deleted hash Hb').
        * intros Hk. destruct (Hfail' Hk) as (e' & Hin' & Hn'). exists e'. split; [|exact Hn'].
          exact (Permutation_in _ P2 Hin').
  Qed.

  (* ---- the outer loop ---- *)
  Theorem rehash_outer_JU : forall n t i,
    RInv B T t -> JK t -> i + n = nb T t -> (forall j, j < i -> byte T t j <> DELETED) ->
    exists t' ok, rehash_outer B T h n t i = Ok (t', ok) /\
      RInv B T t' /\ JK t' /\ mask t' = mask t /\ items t' = items t /\
      Permutation (occupants T t') (occupants T t) /\
      (ok = true -> forall j, j < nb T t -> byte T t' j <> DELETED) /\
      (ok = false -> exists e, In e (occupants T t) /\ h e = None).
  Proof.
    induction n as [|k IH]; intros t i HR HJ Hn Hpre.
    - exists t, true. split; [reflexivity|]. split; [exact HR|]. split; [exact HJ|]. split; [reflexivity|].
      split; [reflexivity|]. split; [apply Permutation_refl|]. split; [|discriminate].
      intros _ j Hj. apply Hpre. lia.
    - pose proof HR as (HS & _). cbn [rehash_outer].
      rewrite (ctrl_at_ok B T t HS i ltac:(lia)). cbn [bind].
      destruct (Z.eqb_spec (byte T t i) DELETED) as [Hd|Hnd]; cbn [negb]; cbv iota.
      + destruct (rehash_inner_JU (S (buckets T t)) t i HR HJ ltac:(lia) Hd
                    ltac:(pose proof (ndel_le B T t HS); unfold nb in *; lia))
          as (t1 & ok & E1 & HR1 & HJ1 & Em1 & Eit1 & P1 & Hb1 & Hok & Hfail).
        rewrite E1. cbn [bind]. destruct ok.
        * pose proof (Hok eq_refl) as Hni.
          assert (Enb1 : nb T t1 = nb T t) by (unfold nb, buckets; rewrite Em1; reflexivity).
          assert (Hpre1 : forall j, j < S i -> byte T t1 j <> DELETED).
          { intros j Hj. destruct (Nat.eq_dec j i) as [->|Hji]; [exact Hni|].
            intros X. apply (Hpre j ltac:(lia)). apply Hb1; [lia|exact X]. }
          destruct (IH t1 (S i) HR1 HJ1 ltac:(lia) Hpre1)
            as (t' & ok' & E' & HR' & HJ' & Em' & Eit' & P' & Hok' & Hfail').
          exists t', ok'. split; [exact E'|]. split; [exact HR'|]. split; [exact HJ'|].
          split; [exact (eq_trans Em' Em1)|]. split; [exact (eq_trans Eit' Eit1)|].
          split; [exact (perm_trans P' P1)|]. split.
          { intros Hk j Hj. apply (Hok' Hk). lia. }
          intros Hk. destruct (Hfail' Hk) as (e & Hin & Hn'). exists e. split; [|exact Hn'].
          exact (Permutation_in _ P1 Hin).
        * exists t1, false. split; [reflexivity|]. split; [exact HR1|]. split; [exact HJ1|].
          split; [exact Em1|]. split; [exact Eit1|]. split; [exact P1|]. split; [discriminate|].
          intros _. apply Hfail. reflexivity.
      + assert (Hpre1 : forall j, j < S i -> byte T t j <> DELETED).
        { intros j Hj. destruct (Nat.eq_dec j i) as [->|Hji]; [exact Hnd|]. apply Hpre. lia. }
        exact (IH t (S i) HR HJ ltac:(lia) Hpre1).
  Qed.

  (* ---------------------------------------------------------------------------------------- *)
  (* U2: the guard pass touches the DELETED buckets only                                        *)
  (* ---------------------------------------------------------------------------------------- *)
  Lemma guard_loop_frame (nd : bool) : forall n t i evs t' evs',
    RInv B T t -> i + n = nb T t ->
    guard_loop B T nd n t i evs = Ok (t', evs') ->
    forall j, j < nb T t ->
      (is_full (byte T t j) = true -> byte T t' j = byte T t j /\ slot T t' j = slot T t j) /\
      (is_full (byte T t j) = false -> is_full (byte T t' j) = false).
  Proof.
    induction n as [|k IH]; intros t i evs t' evs' HR Hn E.
    - cbn [guard_loop] in E. injection E as <- _. intros j Hj. split; [intros _; split; reflexivity|].
      intros X; exact X.
    - pose proof HR as (HS & HM & Hsl & Hit & Hcap).
      pose proof HS as (_ & _ & Hlen & _).
      pose proof (RInv_mask_nz B T t HR) as Hnz.
      assert (Hi : i < nb T t) by lia.
      cbn [guard_loop] in E. rewrite (ctrl_at_ok B T t HS i Hi) in E. cbn [bind] in E.
      destruct (Z.eqb_spec (byte T t i) DELETED) as [Hd|Hnd].
      2:{ exact (IH t (S i) evs t' evs' HR ltac:(lia) E). }
      destruct (slot T t i) as [e|] eqn:Ee;
        [|exfalso; exact (proj2 (Hsl i Hi) (or_intror Hd) Ee)].
      destruct (set_ctrl_counts B T HW t i EMPTY HS HM Hi valid_EMPTY)
        as (t1 & E1 & Em1 & Esl1 & Eit1 & HS1 & HM1 & Hb1 & Cf & Cd).
      rewrite E1 in E. cbn [bind] in E.
      rewrite Hd in Cf, Cd.
      change (is_full DELETED) with false in Cf. change (is_deleted DELETED) with true in Cd.
      change (is_full EMPTY) with false in Cf. change (is_deleted EMPTY) with false in Cd.
      cbn [b2n] in Cf, Cd.
      pose proof (z_cap_lt (mask t) (Shape_MaskOK B T t HS)) as Hc.
      pose proof (Shape_nb_bound B T t HS) as Hnbb. rewrite two_p_62 in Hnbb.
      pose proof (ndel_pos B T t i HS Hi Hd) as Hdpos.
      assert (Hw : wsub 64 (items t1) 1 = (items t - 1)%Z).
      { rewrite Eit1. apply wsub1_small. rewrite two_p_62. unfold zn, nb, buckets in *. lia. }
      set (tn := with_counts T (with_slots T t1 (upd (slots t1) i None)) (wsub 64 (items t1) 1) (growth_left t1)).
      assert (Eslots : slots tn = upd (slots t) i None)
        by (unfold tn; cbn [slots with_counts with_slots]; rewrite Esl1; reflexivity).
      assert (Emn : mask tn = mask t) by exact Em1.
      assert (Enbn : nb T tn = nb T t) by (unfold nb, buckets; rewrite Emn; reflexivity).
      assert (Ebyn : forall j, byte T tn j = byte T t1 j) by reflexivity.
      assert (Esln : forall j, slot T tn j = if j =? i then None else slot T t j).
      { intros j. unfold slot. rewrite Eslots. apply nth_upd. lia. }
      assert (HRn : RInv B T tn).
      { split; [|split; [|split; [|split]]].
        - apply (Shape_ext B T t1 tn); [reflexivity|reflexivity| |exact HS1].
          rewrite Eslots, Esl1. apply upd_length. lia.
        - apply (Mirror_ext B T t1 tn); [reflexivity|reflexivity|exact HM1].
        - intros j Hj. rewrite Enbn in Hj. rewrite Esln, Ebyn, (Hb1 j Hj).
          destruct (Nat.eqb_spec j i) as [->|Hji]; [|apply (Hsl j Hj)].
          split; [intros X; exfalso; apply X; reflexivity|intros [X | X]; discriminate X].
        - change (items tn) with (wsub 64 (items t1) 1). rewrite Hw.
          change (nfull T tn) with (nfull T t1). change (ndel T tn) with (ndel T t1).
          rewrite Hit. unfold zn. lia.
        - change (items tn) with (wsub 64 (items t1) 1). rewrite Hw, Emn. lia. }
      assert (Efin : exists evs1, guard_loop B T nd k tn (S i) evs1 = Ok (t', evs')).
      { destruct nd.
        - unfold slot_take in E.
          assert (Ee1 : slot T t1 i = Some e) by (unfold slot; rewrite Esl1; exact Ee).
          rewrite (slot_ref_ok T t1 i e ltac:(rewrite Em1; exact Hnz) ltac:(rewrite Esl1; lia) Ee1) in E.
          cbn [bind] in E. eexists. exact E.
        - eexists. exact E. }
      destruct Efin as (evs1 & En).
      pose proof (IH tn (S i) evs1 t' evs' HRn ltac:(lia) En) as Hfr.
      intros j Hj. destruct (Hfr j ltac:(lia)) as [Hfull Hnfull].
      rewrite Ebyn, (Hb1 j Hj), Esln in Hfull. rewrite Ebyn, (Hb1 j Hj) in Hnfull.
      destruct (Nat.eqb_spec j i) as [->|Hji].
      + rewrite Hd. split; [intros X; discriminate X|]. intros _. apply Hnfull. reflexivity.
      + split; assumption.
  Qed.

  (* rehash_guard (repaired): FULL buckets keep byte and element, no new FULL bucket *)
  Lemma rehash_guard_frame needs_drop t t' evs : RInv B T t ->
    rehash_guard B T needs_drop true t = Ok (t', evs) ->
    forall j, j < nb T t ->
      (is_full (byte T t j) = true -> byte T t' j = byte T t j /\ slot T t' j = slot T t j) /\
      (is_full (byte T t j) = false -> is_full (byte T t' j) = false).
  Proof.
    intros HR E. unfold rehash_guard in E. rewrite orb_true_r in E.
    destruct (guard_loop B T needs_drop (buckets T t) t 0 []) as [[tg evg]|er] eqn:Eg;
      [|discriminate E].
    cbn [bind] in E. injection E as <- _.
    exact (guard_loop_frame needs_drop (buckets T t) t 0 [] tg evg HR eq_refl Eg).
  Qed.

  (* ---------------------------------------------------------------------------------------- *)
  (* U3: rehash_in_place, unwound                                                               *)
  (* ---------------------------------------------------------------------------------------- *)
  Theorem rehash_in_place_unwind_WF needs_drop (t t' : table T) evs :
    SafeWF B T t -> mask t <> 0 ->
    rehash_in_place B T needs_drop h true t = Ok (t', evs, true) ->
    WF B T h t' /\
    (forall e, In e (occupants T t') -> exists hash, h e = Some hash) /\
    (forall j, j < nb T t' -> byte T t' j <> DELETED).
  Proof.
    intros H Hm E.
    destruct (prepare_RInv B T HW HB t H Hm) as (t0 & E0 & Em0 & Esl0 & Eit0 & HR0 & Hb0).
    assert (Enb0 : nb T t0 = nb T t) by (unfold nb, buckets; rewrite Em0; reflexivity).
    assert (HJ0 : JK t0).
    { split.
      - intros j e hash Hj Hf. rewrite Enb0 in Hj. rewrite (Hb0 j Hj), byte_convert_not_full in Hf.
        discriminate Hf.
      - intros j e Hj Hf. rewrite Enb0 in Hj. rewrite (Hb0 j Hj), byte_convert_not_full in Hf.
        discriminate Hf. }
    unfold rehash_in_place in E. rewrite E0 in E. cbn [bind] in E.
    destruct (rehash_outer_JU (buckets T t0) t0 0 HR0 HJ0 eq_refl ltac:(intros j Hj; lia))
      as (t1 & ok & E1 & HR1 & [HJ1 HK1] & Em1 & _).
    rewrite E1 in E. cbn [bind] in E.
    destruct ok; [discriminate E|].
    destruct (rehash_guard_spec B T HW needs_drop t1 HR1) as (t2 & E2 & HW2 & Em2 & Hnd2 & _).
    pose proof (rehash_guard_frame needs_drop t1 t2 _ HR1 E2) as Hfr.
    rewrite E2 in E. cbn [bind] in E. injection E as <- _.
    assert (Enb2 : nb T t2 = nb T t1) by (unfold nb, buckets; rewrite Em2; reflexivity).
    assert (Hm2 : mask t2 <> 0) by (rewrite Em2, Em1, Em0; exact Hm).
    pose proof HR1 as (HS1 & HM1 & _).
    destruct (SafeWF_alloc B T t2 HW2 Hm2) as (HS2 & HM2 & (_ & _ & _ & Hsl2)).
    (* FULL in t2 -> FULL in t1, same byte, same element *)
    assert (Hback : forall j, j < nb T t1 -> is_full (byte T t2 j) = true ->
              is_full (byte T t1 j) = true /\ byte T t2 j = byte T t1 j /\ slot T t2 j = slot T t1 j).
    { intros j Hj Hf2. destruct (Hfr j Hj) as [Hfull Hnfull].
      destruct (is_full (byte T t1 j)) eqn:Hf1.
      - destruct (Hfull eq_refl) as [X Y]. split; [reflexivity|]. split; assumption.
      - rewrite (Hnfull eq_refl) in Hf2. discriminate Hf2. }
    assert (HK : FullKept B T t1 t2).
    { split; [exact Em2|]. split; [exact HS2|]. split; [exact HM2|].
      intros j Hj Hf. destruct (Hfr j Hj) as [Hfull _]. rewrite (proj1 (Hfull Hf)). exact Hf. }
    assert (HJ2 : JInv B T h t2).
    { intros j e hash Hj Hf He Hhe. rewrite Enb2 in Hj.
      destruct (Hback j Hj Hf) as (Hf1 & Eb & Es). rewrite Es in He.
      destruct (HJ1 j e hash Hj Hf1 He Hhe) as [X Y].
      split; [rewrite Eb; exact X|]. exact (sreach_mono B T t1 t2 hash j HS1 HM1 HK Y). }
    split; [exact (JInv_WF B T HB h t2 HW2 Hm2 HJ2)|]. split.
    - intros e Hin. apply occupants_In in Hin as (j & Hj & He).
      destruct HS2 as (_ & _ & Hlen2 & _). rewrite Hlen2 in Hj.
      assert (Hf : is_full (byte T t2 j) = true) by (apply (Hsl2 j Hj); rewrite He; discriminate).
      rewrite Enb2 in Hj. destruct (Hback j Hj Hf) as (Hf1 & _ & Es). rewrite Es in He.
      exact (HK1 j e Hj Hf1 He).
    - intros j Hj. apply Hnd2. lia.
  Qed.
End RehashUnwindWF.

(* ---------------------------------------------------------------------------------------- *)
(* U4: reserve                                                                                *)
(* ---------------------------------------------------------------------------------------- *)
Section ReserveUnwind.
  Variable B : backend.
  Variable T : Type.
  Hypothesis HW : WidthOK B.
  Hypothesis HB : BackendSpec B.
  Variable tsize talign : Z.
  Variable needs_drop : bool.
  Variable h : T -> option Z.

  (* resize_inner reports an unwinding only from the branch that hands the old table back *)
  Lemma resize_inner_unwind_same (t t' : table T) cap alloc_refuses f evs tr :
    resize_inner B T tsize talign h t cap alloc_refuses f = Ok (t', evs, tr, true) -> t' = t.
  Proof.
    unfold resize_inner.
    destruct (fallible_with_capacity B T tsize talign cap alloc_refuses f) as [[[[nt|] evs0] tr0]|er];
      cbn [bind]; [|intros E; discriminate E|intros E; discriminate E].
    destruct (full_buckets_indices B T t) as [idx|er]; cbn [bind]; [|intros E; discriminate E].
    destruct (resize_loop B T h t nt idx) as [[nt'|]|er]; cbn [bind]; [| |intros E; discriminate E].
    - destruct (if is_singleton T t then Ok [] else free_buckets B T tsize talign t) as [fr|er];
        cbn [bind]; intros E; discriminate E.
    - destruct (if is_singleton T nt then Ok [] else free_buckets B T tsize talign nt) as [fr|er];
        cbn [bind]; intros E; [|discriminate E]. injection E as <- _ _. reflexivity.
  Qed.

  (* reserve_rehash_inner: whatever the branch, an unwound call leaves a WF table; in place only the
     elements on which the hasher answers remain *)
  Theorem reserve_rehash_unwind_WF (t t' : table T) additional alloc_refuses f evs tr :
    WF B T h t ->
    reserve_rehash B T tsize talign needs_drop h true t additional alloc_refuses f = Ok (t', evs, tr, true) ->
    WF B T h t' /\
    (t' = t \/
     (mask t' = mask t /\ (forall e, In e (occupants T t') -> exists hash, h e = Some hash) /\
      (forall j, j < nb T t' -> byte T t' j <> DELETED))).
  Proof.
    intros HWF E. pose proof HWF as (Hsafe & _). unfold reserve_rehash in E.
    destruct (reserve_rehash_new_items (items t) additional) as [new_items|].
    2:{ destruct f; cbn [capacity_overflow bind] in E; discriminate E. }
    destruct (reserve_rehash_in_place new_items (reserve_rehash_full_capacity (zn (mask t)))).
    - destruct (rehash_in_place B T needs_drop h true t) as [[[t1 evs1] unw1]|er] eqn:Er;
        cbn [bind] in E; [|discriminate E].
      injection E as <- <- _ ->.
      assert (Hm : mask t <> 0).
      { intros Hm0. unfold rehash_in_place, prepare_rehash_in_place, is_singleton in Er.
        rewrite Hm0 in Er. cbn [Nat.eqb bind] in Er. discriminate Er. }
      destruct (rehash_in_place_unwind_WF B T HW HB h needs_drop t t1 evs1 Hsafe Hm Er) as (H1 & H2 & H3).
      split; [exact H1|]. right. split; [|split; assumption].
      destruct (rehash_in_place_safe B T HW HB needs_drop h t Hsafe Hm) as (t'' & evs'' & unw'' & E'' & _ & Em & _).
      rewrite Er in E''. injection E'' as <- _ _. exact Em.
    - rewrite (resize_inner_unwind_same t t' _ alloc_refuses f evs tr E).
      split; [exact HWF|left; reflexivity].
  Qed.

  Theorem reserve_unwind_WF (t t' : table T) additional alloc_refuses evs tr :
    WF B T h t ->
    reserve B T tsize talign needs_drop h true t additional alloc_refuses = Ok (t', evs, tr, true) ->
    WF B T h t'.
  Proof.
    intros HWF E. unfold reserve in E.
    destruct (additional >? growth_left t)%Z; [|discriminate E].
    destruct (reserve_rehash B T tsize talign needs_drop h true t additional alloc_refuses Infallible)
      as [[[[t1 evs1] tr1] unw1]|er] eqn:Er; cbn [bind] in E; [|discriminate E].
    destruct tr1; try discriminate E. injection E as <- _ _ ->.
    exact (proj1 (reserve_rehash_unwind_WF t t1 additional alloc_refuses Infallible evs1 TR_ok HWF Er)).
  Qed.

  Theorem try_reserve_unwind_WF (t t' : table T) additional alloc_refuses evs tr :
    WF B T h t ->
    try_reserve B T tsize talign needs_drop h true t additional alloc_refuses = Ok (t', evs, tr, true) ->
    WF B T h t'.
  Proof.
    intros HWF E. unfold try_reserve in E.
    destruct (additional >? growth_left t)%Z; [|discriminate E].
    exact (proj1 (reserve_rehash_unwind_WF t t' additional alloc_refuses Fallible evs tr HWF E)).
  Qed.
End ReserveUnwind.

Print Assumptions rehash_inner_JU.
Print Assumptions rehash_outer_JU.
Print Assumptions guard_loop_frame.
Print Assumptions rehash_in_place_unwind_WF.
Print Assumptions reserve_rehash_unwind_WF.
Print Assumptions reserve_unwind_WF.
Print Assumptions try_reserve_unwind_WF.
