(* ArithFacts.v -- facts about the generated capacity / layout arithmetic (Gen.v). *)
From Coq Require Import ZArith List Bool Lia Znumtheory Zpow_facts.
From HB Require Import RsPrelude Sse2 Gen.
Import ListNotations.
Open Scope Z_scope.

Definition is_pow2 (b : Z) : Prop := exists k, 0 <= k /\ b = 2 ^ k.

Lemma pow2_pos k : 0 <= k -> 0 < 2 ^ k.
Proof. intros; apply Z.pow_pos_nonneg; lia. Qed.

Lemma pow2_le_mono a b : 0 <= a <= b -> 2 ^ a <= 2 ^ b.
Proof. intros; apply Z.pow_le_mono_r; lia. Qed.

Lemma pow2_lt_mono a b : 0 <= a < b -> 2 ^ a < 2 ^ b.
Proof. intros; apply Z.pow_lt_mono_r; lia. Qed.

Lemma wrap_small w x : 0 <= x < 2 ^ w -> wrap w x = x.
Proof. intros; unfold wrap; apply Z.mod_small; assumption. Qed.

Lemma two_p_64 : 2 ^ 64 = 18446744073709551616. Proof. reflexivity. Qed.
Lemma two_p_63 : 2 ^ 63 = 9223372036854775808. Proof. reflexivity. Qed.
Lemma two_p_62 : 2 ^ 62 = 4611686018427387904. Proof. reflexivity. Qed.

(* ------------------------------------------------------------------------------------------ *)
(* bucket_mask_to_capacity                                                                      *)
(* ------------------------------------------------------------------------------------------ *)

(* The proofs about generated definitions go through these normalising tactics, so that they do not
   depend on how the source spells a comparison (`a < 8` / `a <= 7` / `8 > a`) or a division by a power
   of two (`/ 8` / `>> 3`). *)
Ltac cmp_norm :=
  repeat match goal with
  | |- context [Z.geb ?a ?b] => rewrite (Z.geb_leb a b)
  | |- context [Z.gtb ?a ?b] => rewrite (Z.gtb_ltb a b)
  | H : context [Z.geb ?a ?b] |- _ => rewrite (Z.geb_leb a b) in H
  | H : context [Z.gtb ?a ?b] |- _ => rewrite (Z.gtb_ltb a b) in H
  end.
Ltac bool_hyps :=
  repeat match goal with
  | H : Z.ltb _ _ = true |- _ => apply Z.ltb_lt in H
  | H : Z.ltb _ _ = false |- _ => apply Z.ltb_ge in H
  | H : Z.leb _ _ = true |- _ => apply Z.leb_le in H
  | H : Z.leb _ _ = false |- _ => apply Z.leb_gt in H
  end.
Ltac split_ifs :=
  repeat match goal with |- context [if ?b then _ else _] => destruct b eqn:? end.

Lemma bmtc_small m : 0 <= m < 8 -> bucket_mask_to_capacity m = m.
Proof. intros H; unfold bucket_mask_to_capacity. cmp_norm. split_ifs; bool_hyps; lia. Qed.

Lemma bmtc_large m : 8 <= m < 2 ^ 63 ->
  bucket_mask_to_capacity m = (m + 1) / 8 * 7.
Proof.
  intros H; unfold bucket_mask_to_capacity. cmp_norm. split_ifs; bool_hyps; [lia|].
  unfold wmul, wadd. rewrite two_p_63 in H.
  rewrite (wrap_small 64 (m + 1)) by (rewrite two_p_64; lia).
  rewrite ?Z.shiftr_div_pow2 by lia. change (2 ^ 3) with 8.
  apply wrap_small. rewrite two_p_64.
  assert (0 <= (m + 1) / 8 <= (m + 1)) by (split; [apply Z.div_pos; lia | apply Z.div_le_upper_bound; lia]).
  assert ((m + 1) / 8 * 8 <= m + 1) by (pose proof (Z.mul_div_le (m + 1) 8); lia).
  lia.
Qed.

(* For every table size 2^k (k >= 1, up to 2^63 buckets) the usable capacity is strictly less
   than the number of buckets: one slot always stays EMPTY. *)
Theorem cap_lt_buckets k : 1 <= k <= 63 ->
  0 < bucket_mask_to_capacity (2 ^ k - 1) < 2 ^ k.
Proof.
  intros Hk.
  destruct (Z.ltb_spec k 4) as [Hs|Hl].
  - assert (k = 1 \/ k = 2 \/ k = 3) as [-> | [-> | ->]] by lia; vm_compute; split; reflexivity.
  - assert (E : 2 ^ k = 8 * 2 ^ (k - 3)).
    { replace k with (3 + (k - 3)) at 1 by lia. rewrite Z.pow_add_r by lia. reflexivity. }
    assert (Hp : 2 ^ 1 <= 2 ^ (k - 3)) by (apply pow2_le_mono; lia).
    assert (Hk63 : 2 ^ k <= 2 ^ 63) by (apply pow2_le_mono; lia).
    rewrite bmtc_large by lia.
    replace (2 ^ k - 1 + 1) with (2 ^ (k - 3) * 8) by lia.
    rewrite Z.div_mul by lia. lia.
Qed.

Lemma bmtc_zero : bucket_mask_to_capacity 0 = 0.
Proof. reflexivity. Qed.

Lemma bmtc_pow2 k : 3 <= k <= 63 -> bucket_mask_to_capacity (2 ^ k - 1) = 7 * 2 ^ (k - 3).
Proof.
  intros Hk.
  destruct (Z.eq_dec k 3) as [->|Hk3]; [reflexivity|].
  assert (E : 2 ^ k = 8 * 2 ^ (k - 3)).
  { replace k with (3 + (k - 3)) at 1 by lia. rewrite Z.pow_add_r by lia. reflexivity. }
  assert (Hp : 2 ^ 1 <= 2 ^ (k - 3)) by (apply pow2_le_mono; lia).
  assert (Hk63 : 2 ^ k <= 2 ^ 63) by (apply pow2_le_mono; lia).
  rewrite bmtc_large by lia.
  replace (2 ^ k - 1 + 1) with (2 ^ (k - 3) * 8) by lia.
  rewrite Z.div_mul by lia. lia.
Qed.

(* ------------------------------------------------------------------------------------------ *)
(* capacity_to_buckets                                                                          *)
(* ------------------------------------------------------------------------------------------ *)

Lemma npow2_spec x : 2 <= x <= 2 ^ 62 ->
  exists k, 1 <= k <= 62 /\ next_power_of_two 64 x = 2 ^ k /\ x <= 2 ^ k /\ 2 ^ (k - 1) < x.
Proof.
  intros Hx. unfold next_power_of_two.
  destruct (Z.leb_spec x 1); [lia|].
  pose proof (Z.log2_up_spec x ltac:(lia)) as [Hlo Hhi].
  assert (Hub : Z.log2_up x <= 62) by (apply Z.log2_up_le_pow2; lia).
  assert (Hlb : 1 <= Z.log2_up x).
  { destruct (Z.le_gt_cases 1 (Z.log2_up x)); [assumption|].
    pose proof (Z.log2_up_nonneg x). assert (Z.log2_up x = 0) as E by lia. rewrite E in Hhi. simpl in Hhi. lia. }
  exists (Z.log2_up x). split; [lia|]. split; [|split; [lia|]].
  - apply wrap_small. split; [apply Z.lt_le_incl, pow2_pos; lia|]. apply pow2_lt_mono; lia.
  - replace (Z.log2_up x - 1) with (Z.pred (Z.log2_up x)) by lia. exact Hlo.
Qed.

Definition small_buckets (GW tsize cap : Z) : Z :=
  let min_cap := if (GW =? 16) && (0 <=? tsize) && (tsize <=? 1) then 14
                 else if (GW =? 16) && (2 <=? tsize) && (tsize <=? 3) then 7
                 else if (GW =? 8) && (0 <=? tsize) && (tsize <=? 1) then 7 else 3 in
  let c := Z.max min_cap cap in
  if c <? 4 then 4 else if c <? 8 then 8 else 16.

Lemma ctb_small GW cap tsize talign : cap < 15 ->
  capacity_to_buckets GW cap tsize talign = Some (small_buckets GW tsize cap).
Proof.
  intros H. unfold capacity_to_buckets, small_buckets. cmp_norm.
  match goal with |- (if ?c then _ else _) = _ => destruct c eqn:Ec end; bool_hyps; [|lia].
  destruct (GW =? 16), (GW =? 8), (0 <=? tsize), (tsize <=? 1), (2 <=? tsize), (tsize <=? 3); cbn [andb];
    repeat match goal with |- context [if ?c then _ else _] => destruct c end; reflexivity.
Qed.

Lemma ctb_large GW cap tsize talign : 15 <= cap ->
  capacity_to_buckets GW cap tsize talign =
  match checked_mul 64 cap 8 with None => None | Some q => Some (next_power_of_two 64 (q / 7)) end.
Proof.
  intros H. unfold capacity_to_buckets. cmp_norm.
  match goal with |- (if ?c then _ else _) = _ => destruct c eqn:Ec end; bool_hyps; [lia|reflexivity].
Qed.

Ltac case_cmp :=
  repeat (match goal with
          | |- context [Z.eqb ?a ?b] => destruct (Z.eqb_spec a b)
          | |- context [Z.leb ?a ?b] => destruct (Z.leb_spec a b)
          | |- context [Z.ltb ?a ?b] => destruct (Z.ltb_spec a b)
          end; cbn [andb orb negb]).

Lemma small_buckets_spec GW tsize cap :
  (GW = 8 \/ GW = 16) -> 1 <= cap < 15 -> 0 <= tsize ->
  let b := small_buckets GW tsize cap in
  (b = 4 /\ cap <= 3 \/ b = 8 /\ cap <= 7 \/ b = 16 /\ cap <= 14) /\ (1 <= tsize -> GW <= b * tsize).
Proof.
  intros HGW Hcap Hts. unfold small_buckets. cbv zeta. case_cmp; lia.
Qed.

(* The full statement of the capacity half of C17. *)
Theorem capacity_to_buckets_spec GW cap tsize talign :
  (GW = 8 \/ GW = 16) -> 1 <= cap < 2 ^ 64 -> 0 <= tsize ->
  match capacity_to_buckets GW cap tsize talign with
  | None => 15 <= cap /\ 2 ^ 64 <= cap * 8                          (* overflow is reported, never wrapped *)
  | Some b =>
      (cap < 15 \/ cap * 8 < 2 ^ 64) /\
      (exists k, 2 <= k <= 62 /\ b = 2 ^ k) /\                       (* power of two, at least 4, no wrap *)
      cap <= bucket_mask_to_capacity (b - 1) < b /\                 (* request fits; one slot stays EMPTY *)
      (1 <= tsize -> GW <= b * tsize)                               (* small-table rule of the source comment *)
  end.
Proof.
  intros HGW Hcap Hts.
  destruct (Z.ltb_spec cap 15) as [Hs|Hl].
  - rewrite ctb_small by assumption.
    pose proof (small_buckets_spec GW tsize cap HGW ltac:(lia) Hts) as Hsb. cbv zeta in Hsb.
    remember (small_buckets GW tsize cap) as b eqn:Eb. clear Eb. destruct Hsb as [Hb Hsz].
    split; [left; assumption|].
    destruct Hb as [[-> ?] | [[-> ?] | [-> ?]]].
    + split; [exists 2; split; [lia|reflexivity]|]. split; [vm_compute bucket_mask_to_capacity; lia|assumption].
    + split; [exists 3; split; [lia|reflexivity]|]. split; [vm_compute bucket_mask_to_capacity; lia|assumption].
    + split; [exists 4; split; [lia|reflexivity]|]. split; [vm_compute bucket_mask_to_capacity; lia|assumption].
  - rewrite ctb_large by assumption. unfold checked_mul.
    destruct (Z.ltb_spec (cap * 8) (2 ^ 64)) as [Hno|Hov]; [|split; lia].
    rewrite two_p_64 in Hno, Hcap.
    assert (Hq : 17 <= cap * 8 / 7 <= 2 ^ 62).
    { split; [apply Z.div_le_lower_bound; lia|]. rewrite two_p_62. apply Z.div_le_upper_bound; lia. }
    destruct (npow2_spec (cap * 8 / 7) ltac:(lia)) as (k & Hk & -> & Hge & Hlt).
    assert (Hk5 : 5 <= k).
    { destruct (Z.le_gt_cases 5 k); [assumption|].
      assert (2 ^ k <= 2 ^ 4) by (apply pow2_le_mono; lia). simpl in *. lia. }
    split; [right; rewrite two_p_64; lia|].
    split; [exists k; split; [lia|reflexivity]|].
    rewrite bmtc_pow2 by lia.
    assert (E : 2 ^ k = 8 * 2 ^ (k - 3)).
    { replace k with (3 + (k - 3)) at 1 by lia. rewrite Z.pow_add_r by lia. reflexivity. }
    pose proof (pow2_pos (k - 3) ltac:(lia)) as Hp.
    pose proof (Z.mul_div_le (cap * 8) 7 ltac:(lia)).
    pose proof (Z.mod_pos_bound (cap * 8) 7 ltac:(lia)).
    pose proof (Z.div_mod (cap * 8) 7 ltac:(lia)).
    split; [lia|].
    intros Ht. assert (32 <= 2 ^ k) by (change 32 with (2 ^ 5); apply pow2_le_mono; lia).
    destruct HGW as [-> | ->]; nia.
Qed.

(* ------------------------------------------------------------------------------------------ *)
(* calculate_layout_for                                                                         *)
(* ------------------------------------------------------------------------------------------ *)

(* We avoid bit-level reasoning: align-down is characterised arithmetically. *)
Lemma land_align_down x j : 0 <= j <= 63 -> 0 <= x < 2 ^ 64 ->
  Z.land x (wnot 64 (wsub 64 (2 ^ j) 1)) = x - x mod 2 ^ j.
Proof.
  intros Hj Hx.
  pose proof (pow2_pos j ltac:(lia)) as Hp.
  assert (Hj64 : 2 ^ j < 2 ^ 64) by (apply pow2_lt_mono; lia).
  unfold wsub, wnot. rewrite wrap_small by lia.
  replace (2 ^ 64 - 1 - (2 ^ j - 1)) with (2 ^ 64 - 2 ^ j) by lia.
  (* x = hi * 2^j + lo; mask = ones above j (below 64).  Use bit extensionality. *)
  apply Z.bits_inj'. intros n Hn.
  rewrite Z.land_spec.
  assert (Hmask : Z.testbit (2 ^ 64 - 2 ^ j) n = (j <=? n) && (n <? 64)).
  { replace (2 ^ 64 - 2 ^ j) with (Z.shiftl (Z.ones (64 - j)) j).
    - rewrite Z.shiftl_spec by lia.
      destruct (Z.leb_spec j n).
      + rewrite Z.testbit_ones by lia. cbn [andb].
        destruct (Z.ltb_spec n 64), (Z.leb_spec 0 (n - j)), (Z.ltb_spec (n - j) (64 - j)); try lia; reflexivity.
      + rewrite Z.testbit_neg_r by lia. reflexivity.
    - rewrite Z.shiftl_mul_pow2 by lia. rewrite Z.ones_equiv. unfold Z.pred.
      replace 64 with ((64 - j) + j) at 2 by lia. rewrite Z.pow_add_r by lia. lia. }
  rewrite Hmask.
  replace (x - x mod 2 ^ j) with (Z.shiftl (Z.shiftr x j) j).
  2:{ rewrite Z.shiftl_mul_pow2, Z.shiftr_div_pow2 by lia.
      pose proof (Z.div_mod x (2 ^ j) ltac:(lia)). lia. }
  rewrite Z.shiftl_spec by lia.
  destruct (Z.leb_spec j n).
  - rewrite Z.shiftr_spec by lia. replace (n - j + j) with n by lia.
    destruct (Z.ltb_spec n 64); cbn [andb]; [apply andb_true_r|].
    rewrite andb_false_r. symmetry.
    destruct (Z.eq_dec x 0) as [->|Hx0]; [apply Z.testbit_0_l|].
    apply Z.bits_above_log2; [lia|].
    apply Z.log2_lt_pow2; [lia|].
    assert (2 ^ 64 <= 2 ^ n) by (apply pow2_le_mono; lia). lia.
  - cbn [andb]. rewrite andb_false_r. rewrite Z.testbit_neg_r by lia. reflexivity.
Qed.

(* round-up of x to a multiple of a = 2^j, as computed by the source:
   (x + (a-1)) & !(a-1) *)
Definition round_up (x a : Z) : Z := (x + a - 1) - (x + a - 1) mod a.

Lemma round_up_spec x a : 0 < a -> 0 <= x ->
  (a | round_up x a) /\ x <= round_up x a < x + a.
Proof.
  intros Ha Hx. unfold round_up.
  pose proof (Z.mod_pos_bound (x + a - 1) a Ha) as Hm.
  pose proof (Z.div_mod (x + a - 1) a ltac:(lia)) as Hd.
  split; [|lia].
  exists ((x + a - 1) / a). lia.
Qed.

Definition layout_result (GW size ctrl_align buckets : Z) : option ((Z * Z) * Z) :=
  let raw := size * buckets in
  let off := round_up raw ctrl_align in
  let len := off + (buckets + GW) in
  if (raw + (ctrl_align - 1) <? 2 ^ 64) && (len <=? isize_max - (ctrl_align - 1))
  then Some ((len, ctrl_align), off) else None.

(* calculate_layout_for computes exactly the mathematical layout, or None when the mathematical
   layout is not representable -- no intermediate value ever wraps. *)
Theorem calculate_layout_for_spec GW size j k :
  (GW = 8 \/ GW = 16) -> 0 <= size < 2 ^ 64 -> 0 <= j <= 62 -> GW <= 2 ^ j -> 0 <= k <= 62 ->
  calculate_layout_for GW size (2 ^ j) (2 ^ k) = layout_result GW size (2 ^ j) (2 ^ k).
Proof.
  intros HGW Hsize Hj HGWj Hk.
  unfold calculate_layout_for, layout_result, checked_mul, checked_add.
  pose proof (pow2_pos j ltac:(lia)) as Hpj. pose proof (pow2_pos k ltac:(lia)) as Hpk.
  assert (Hj62 : 2 ^ j <= 2 ^ 62) by (apply pow2_le_mono; lia).
  assert (Hk62 : 2 ^ k <= 2 ^ 62) by (apply pow2_le_mono; lia).
  rewrite two_p_62 in Hj62, Hk62. rewrite two_p_64 in *.
  set (a := 2 ^ j) in *. set (b := 2 ^ k) in *.
  assert (Hraw0 : 0 <= size * b) by nia.
  assert (Ew : wsub 64 a 1 = a - 1) by (unfold wsub; apply wrap_small; rewrite two_p_64; lia).
  assert (Eoff : Z.land (size * b + (a - 1)) (wnot 64 (wsub 64 a 1)) = round_up (size * b) a \/ ~ (size * b + (a - 1) < 18446744073709551616)).
  { destruct (Z.lt_ge_cases (size * b + (a - 1)) 18446744073709551616); [left|right; lia].
    unfold a. rewrite land_align_down by (rewrite ?two_p_64; fold a; lia). fold a. unfold round_up.
    replace (size * b + a - 1) with (size * b + (a - 1)) by lia. reflexivity. }
  rewrite !Ew in *.
  destruct (Z.ltb_spec (size * b) 18446744073709551616) as [H1|H1].
  2:{ destruct (Z.ltb_spec (size * b + (a - 1)) 18446744073709551616); [lia|]. reflexivity. }
  destruct (Z.ltb_spec (size * b + (a - 1)) 18446744073709551616) as [H2|H2]; [|reflexivity].
  cbn [andb].
  destruct Eoff as [Eoff|]; [|lia].
  rewrite Eoff.
  destruct (round_up_spec (size * b) a Hpj Hraw0) as [_ Hru].
  unfold wadd. rewrite (wrap_small 64 (b + GW)) by (rewrite two_p_64; lia).
  unfold wsub. rewrite (wrap_small 64 isize_max) by (vm_compute; split; congruence).
  rewrite (wrap_small 64 (isize_max - (a - 1))) by (unfold isize_max; rewrite two_p_63, two_p_64; lia).
  destruct (Z.ltb_spec (round_up (size * b) a + (b + GW)) 18446744073709551616) as [H3|H3].
  - destruct (Z.gtb_spec (round_up (size * b) a + (b + GW)) (isize_max - (a - 1))) as [H4|H4];
    destruct (Z.leb_spec (round_up (size * b) a + (b + GW)) (isize_max - (a - 1))); try lia; reflexivity.
  - destruct (Z.leb_spec (round_up (size * b) a + (b + GW)) (isize_max - (a - 1))); [|reflexivity].
    unfold isize_max in *. rewrite two_p_63 in *. lia.
Qed.

(* What a successful layout guarantees (the layout half of C17). *)
Theorem layout_result_ok GW size a b len al off :
  (GW = 8 \/ GW = 16) -> 0 <= size -> 0 < a -> GW <= a -> 0 < b ->
  layout_result GW size a b = Some ((len, al), off) ->
  al = a /\ (a | off) /\ size * b <= off /\ off < size * b + a /\
  len = off + b + GW /\ len <= isize_max - (a - 1) /\ len + (a - 1) < 2 ^ 63.
Proof.
  intros HGW Hs Ha HGWa Hb. unfold layout_result.
  destruct (Z.ltb_spec (size * b + (a - 1)) (2 ^ 64)); cbn [andb]; [|discriminate].
  destruct (Z.leb_spec (round_up (size * b) a + (b + GW)) (isize_max - (a - 1))); [|discriminate].
  intros E. injection E as E1 E2 E3. subst len al off.
  destruct (round_up_spec (size * b) a Ha ltac:(nia)) as [Hd Hr].
  unfold isize_max in *. repeat split; try lia; assumption.
Qed.

(* table_layout_new: control alignment is max(align_of T, Group::WIDTH) *)
Lemma table_layout_new_spec GW tsize talign :
  table_layout_new GW tsize talign = (tsize, Z.max talign GW).
Proof.
  unfold table_layout_new. destruct (Z.gtb_spec talign GW); f_equal; lia.
Qed.


(* The decision of reserve_rehash_inner between re-hashing in place and growing (generated from the
   source: Gen.reserve_rehash_in_place), characterised once so that the proofs that use it do not
   depend on how the source spells "at most half of the full capacity" (`/ 2`, `>> 1`, ...). *)
Lemma reserve_rehash_in_place_char n c : (0 <= n)%Z -> (0 <= c)%Z ->
  reserve_rehash_in_place n c = (n <=? c / 2)%Z.
Proof.
  intros Hn Hc. unfold reserve_rehash_in_place.
  first [ reflexivity
        | rewrite ?Z.shiftr_div_pow2 by lia; change (2 ^ 1)%Z with 2%Z; reflexivity
        | apply Bool.eq_true_iff_eq; rewrite ?Z.leb_le, ?Z.ltb_lt; rewrite ?Z.shiftr_div_pow2 by lia;
          change (2 ^ 1)%Z with 2%Z; split; intros; Z.div_mod_to_equations; lia ].
Qed.
