(* TableStepRefine.v -- REFINEMENT of HashTable (property C06 at model level): every operation of
   `table_step`, started in a table that is well-formed for the caller's hash function and holds
   the multiset s, returns an output that the reference multiset (Spec/MultisetSpec.v) accepts
   together with the contents it holds afterwards, and ends in a well-formed table.  For every
   total deterministic `hash_of`, constant ones included, and for ARBITRARY closures (tpred): a
   closure may match several stored elements and be unrelated to the hash.

   Two side conditions (top_pre, see the findings at the end of the file):
     - TRemoveReinsert re-inserts, under the hash passed to find_entry, an element carrying the id
       of the element the closure picked: the closure must only accept elements of that hash;
     - TGetManyMut: stored values are u64 (the acceptor recovers the pre-image of a returned
       element by a wrapping subtraction).
   No axioms. *)
From Coq Require Import ZArith List Bool Lia Permutation.
From HB Require Import RsPrelude Sse2 Gen Group Raw Map Table Check AssocSpec MultisetSpec ArithFacts WFDefs
  GroupFacts ProbeFacts IterFacts SafeInsertErase SafeAllocClear FindFacts ResizeFacts WFInsertRemove
  RawOpsSafe RawOpsWF MapDefs AssocFacts MapRefineBase MapStepSafe MapRefineLoops MapStepRefine
  IterHashFacts TableStepSafe MultisetFacts.
Import ListNotations.
Open Scope nat_scope.

(* the side conditions *)
Definition top_pre (hash_of : Z -> option Z) (s : mset) (op : tbl_op) : Prop :=
  match op with
  | TRemoveReinsert hk p _ _ =>
      forall e, In e s -> tpred_holds p e = true -> hash_of (k_id e) = hash_of hk
  | TGetManyMut _ _ => forall e, In e s -> (0 <= v_val e < 2 ^ 64)%Z
  | _ => True
  end.

(* retain, pointwise *)
Lemma retain_f_spec keep add (s : list kv) :
  flat_map (retain_f keep add) s = map (bump add) (filter (fun e => existsb (Z.eqb (k_id e)) keep) s).
Proof.
  induction s as [|e r IH]; [reflexivity|]. cbn [flat_map filter]. unfold retain_f at 1.
  destruct (existsb (Z.eqb (k_id e)) keep); cbn [map app]; rewrite IH; reflexivity.
Qed.

Lemma full_list_In (t : table kv) i : In i (full_list t) <-> i < nb kv t /\ is_full (byte kv t i) = true.
Proof.
  unfold full_list. rewrite filter_In, in_seq. split; intros (H1 & H2); (split; [lia|exact H2]).
Qed.

Lemma full_list_same (t t' : table kv) : mask t' = mask t -> ctrl t' = ctrl t -> full_list t' = full_list t.
Proof. intros Em Ec. unfold full_list, byte, nb, buckets. rewrite Em, Ec. reflexivity. Qed.

Lemma elems_In (t : table kv) I e : In e (elems t I) <-> exists j, In j I /\ slot kv t j = Some e.
Proof.
  unfold elems. rewrite in_flat_map. split; intros (j & Hj & H); exists j; (split; [exact Hj|]).
  - unfold slot. destruct (nth j (slots t) None) as [x|]; [|destruct H]. destruct H as [->|[]]. reflexivity.
  - unfold slot in H. rewrite H. left. reflexivity.
Qed.

Lemma elems_app (t : table kv) I J : elems t (I ++ J) = elems t I ++ elems t J.
Proof. unfold elems. apply flat_map_app. Qed.

Lemma elems_map (t t' : table kv) (f : kv -> kv) : forall I,
  (forall j, In j I -> slot kv t' j = option_map f (slot kv t j)) -> elems t' I = map f (elems t I).
Proof.
  induction I as [|x r IH]; intros H; [reflexivity|]. unfold elems in *. cbn [flat_map].
  rewrite map_app, IH by (intros j Hj; apply H; right; exact Hj). f_equal.
  change (nth x (slots t') None) with (slot kv t' x). change (nth x (slots t) None) with (slot kv t x).
  rewrite (H x (or_introl eq_refl)). destruct (slot kv t x); reflexivity.
Qed.

Section TableRefine.
  Variable B : backend.
  Hypothesis HW : WidthOK B.
  Hypothesis HB : BackendSpec B.
  Variable tsize talign : Z.
  Hypothesis HL : LayoutOK tsize talign.
  Variable needs_drop : bool.
  Variable hash_of : Z -> option Z.
  Hypothesis Htot : TotalHash hash_of.
  Variable alloc_refuses : bool.

  Let Hts : (0 <= tsize < 2 ^ 64)%Z := proj1 HL.
  Let Hta : exists a : Z, (0 <= a <= 62)%Z /\ talign = (2 ^ a)%Z := proj2 HL.

  Local Notation GW := (bk_width B).
  Local Notation h := (hasher hash_of).
  Local Notation OWN := (TOwn B kv tsize talign).
  Local Notation STEP := (table_step B tsize talign needs_drop true hash_of alloc_refuses).
  Local Notation ACC := (tspec_accepts hash_of).
  Local Notation h_total' := (h_total hash_of Htot).
  Local Notation own_same' := (TOwn_same_mask B kv tsize talign).

  (* the table holds the multiset s *)
  Definition TInv (t : table kv) (s : mset) : Prop :=
    WF B kv h t /\ OWN t /\ Permutation (occupants kv t) s.

  Definition TRefines (s : mset) (op : tbl_op) (t' : table kv) (o : tout) : Prop :=
    o <> TOutUnwind /\ ACC s op o (occupants kv t') = true /\ WF B kv h t' /\ OWN t'.

  Lemma slot_in t s i e : TInv t s -> slot kv t i = Some e -> In e s.
  Proof.
    intros (_ & _ & P) He. apply (Permutation_in _ P). apply occupants_In.
    exists i. split; [exact (nth_Some_lt (slots t) i e He)|exact He].
  Qed.

  Lemma in_slot t s e : TInv t s -> In e s -> mask t <> 0 /\ exists i, i < nb kv t /\ slot kv t i = Some e.
  Proof.
    intros ((Hs & _) & _ & P) Hin.
    apply (Permutation_in _ (Permutation_sym P)) in Hin.
    assert (Hm : mask t <> 0).
    { intros Hm. rewrite (safe_singleton B kv t Hs Hm), new_table_occupants in Hin. destruct Hin. }
    split; [exact Hm|]. apply occupants_In in Hin. destruct Hin as (i & Hi & He).
    exists i. rewrite <- (SafeWF_slots_length B kv t Hs). split; assumption.
  Qed.

  Lemma tinv_perm t t' s : TInv t s -> WF B kv h t' -> OWN t' ->
    Permutation (occupants kv t') (occupants kv t) -> TInv t' s.
  Proof.
    intros (_ & _ & P) HWF' HA' P'. split; [exact HWF'|]. split; [exact HA'|]. etransitivity; eassumption.
  Qed.

  (* ---------------------------------------------------------------------------------------- *)
  (* find with an arbitrary closure, against the multiset                                       *)
  (* ---------------------------------------------------------------------------------------- *)
  Lemma tfind_ref t s hk hv p : TInv t s -> hash_of hk = Some hv ->
    exists r, find B kv t hv (peq p) = Ok r /\
      match r with
      | None => must_find hash_of s hk p = false
      | Some i => mask t <> 0 /\ i < nb kv t /\
                  exists e, slot kv t i = Some e /\ slot_ref kv t i = Ok e /\
                            tpred_holds p e = true /\ In e s
      end.
  Proof.
    intros HI Hh. pose proof HI as (HWF & HA & P). pose proof HWF as (Hs & _).
    destruct (tfind_cases B HW HB t hv p Hs) as (r & E & Hr). exists r. split; [exact E|].
    destruct r as [i|].
    - destruct Hr as (Hm & Hi & e & He & Er & HP). split; [exact Hm|]. split; [exact Hi|].
      exists e. repeat (split; [assumption|]). exact (slot_in t s i e HI He).
    - unfold must_find. apply existsb_false_iff. intros e Hin.
      destruct (same_hash hash_of (k_id e) hk && tpred_holds p e) eqn:C; [exfalso|reflexivity].
      apply andb_prop in C. destruct C as (C1 & C2).
      unfold same_hash in C1. rewrite Hh in C1.
      destruct (hash_of (k_id e)) as [x|] eqn:Ex; [|discriminate C1].
      apply Z.eqb_eq in C1. subst x.
      destruct (in_slot t s e HI Hin) as (Hm & i & Hi & He).
      change (peq p) with (pure_eq (tpred_holds p)) in E.
      destruct (find_complete B kv HW HB t Hm (tpred_holds p) hv h i e HWF Hi He Ex C2) as (i' & e' & E' & _).
      rewrite E in E'. discriminate E'.
  Qed.

  Ltac start_h E k hv Hh :=
    cbn [table_step] in E; unfold with_h in E; destruct (Htot k) as (hv & Hh); rewrite Hh in E.

  Ltac finish HWF' HA' :=
    split; [discriminate|]; split; [|split; [exact HWF'|exact HA']]; cbn [tspec_accepts].

  (* ---------------------------------------------------------------------------------------- *)
  (* (1) find, find_mut, find_entry + remove, remove + re-insert                                *)
  (* ---------------------------------------------------------------------------------------- *)
  Lemma ref_tfind t s hk p t' o evs : TInv t s -> STEP t (TFind hk p) = Ok (t', o, evs) ->
    TRefines s (TFind hk p) t' o.
  Proof.
    intros HI E. start_h E hk hv Hh. pose proof HI as (HWF & HA & P).
    destruct (tfind_ref t s hk hv p HI Hh) as (r & Ef & Hr). rewrite Ef in E. cbn [bind] in E.
    destruct r as [i|].
    - destruct Hr as (Hm & Hi & e & He & Er & HP & Hin). rewrite Er in E. cbn [bind] in E.
      injection E as <- <- <-. finish HWF HA.
      rewrite HP, (remove_one_is_some e s Hin), (meq_perm _ _ P). reflexivity.
    - injection E as <- <- <-. finish HWF HA. rewrite Hr, (meq_perm _ _ P). reflexivity.
  Qed.

  Lemma ref_tfind_mut t s hk p nv t' o evs : TInv t s -> STEP t (TFindMut hk p nv) = Ok (t', o, evs) ->
    TRefines s (TFindMut hk p nv) t' o.
  Proof.
    intros HI E. start_h E hk hv Hh. pose proof HI as (HWF & HA & P).
    destruct (tfind_ref t s hk hv p HI Hh) as (r & Ef & Hr). rewrite Ef in E. cbn [bind] in E.
    destruct r as [i|].
    - destruct Hr as (Hm & Hi & e & He & Er & HP & Hin). rewrite Er in E. cbn [bind] in E.
      destruct (slot_write_WF B kv h t i e (mkKV (k_id e) (k_stamp e) nv) HWF Hm Hi He eq_refl)
        as (t1 & Ew & HWF1 & Em1 & _ & _ & _ & _ & _ & _ & _ & Hperm).
      rewrite Ew in E. cbn [bind] in E. injection E as <- <- <-.
      finish HWF1 (own_same' t t1 Em1 HA).
      destruct (remove_one_In e s Hin) as (s' & Er1 & Ps). rewrite HP, Er1. cbn [andb].
      apply meq_perm. exact (replace_perm e _ _ _ s s' Hperm P Ps).
    - injection E as <- <- <-. finish HWF HA. rewrite Hr, (meq_perm _ _ P). reflexivity.
  Qed.

  Lemma ref_tfind_entry_remove t s hk p t' o evs : TInv t s ->
    STEP t (TFindEntryRemove hk p) = Ok (t', o, evs) -> TRefines s (TFindEntryRemove hk p) t' o.
  Proof.
    intros HI E. start_h E hk hv Hh. pose proof HI as (HWF & HA & P). pose proof HWF as (Hs & _).
    destruct (tfind_ref t s hk hv p HI Hh) as (r & Ef & Hr). rewrite Ef in E. cbn [bind] in E.
    destruct r as [i|].
    - destruct Hr as (Hm & Hi & e & He & Er & HP & Hin).
      destruct (remove_WF B kv HW HB h t i HWF Hm Hi (slot_full B t i e Hs Hm Hi He))
        as (e0 & t1 & Erm & HWF1 & He0 & Em1 & _ & _ & _ & _ & Hperm & _).
      rewrite He in He0. injection He0 as <-.
      rewrite Erm in E. cbn [bind] in E. injection E as <- <- <-.
      finish HWF1 (own_same' t t1 Em1 HA).
      destruct (remove_one_In e s Hin) as (s' & Er1 & Ps). rewrite HP, Er1. cbn [andb].
      apply meq_perm. exact (remove_perm e _ _ s s' Hperm P Ps).
    - injection E as <- <- <-. finish HWF HA. rewrite Hr, (meq_perm _ _ P). reflexivity.
  Qed.

  Lemma ref_tremove_reinsert t s hk p st v t' o evs : TInv t s ->
    top_pre hash_of s (TRemoveReinsert hk p st v) ->
    STEP t (TRemoveReinsert hk p st v) = Ok (t', o, evs) -> TRefines s (TRemoveReinsert hk p st v) t' o.
  Proof.
    intros HI Hpre E. cbn [top_pre] in Hpre.
    start_h E hk hv Hh. pose proof HI as (HWF & HA & P). pose proof HWF as (Hs & _).
    destruct (tfind_ref t s hk hv p HI Hh) as (r & Ef & Hr). rewrite Ef in E. cbn [bind] in E.
    destruct r as [i|].
    - destruct Hr as (Hm & Hi & e & He & Er & HP & Hin).
      pose proof (slot_full B t i e Hs Hm Hi He) as Hfull.
      destruct (remove_WF B kv HW HB h t i HWF Hm Hi Hfull) as (e0 & t1 & Erm & _ & He0 & _).
      rewrite He in He0. injection He0 as <-.
      assert (Hhe : h e = Some hv) by (unfold hasher; rewrite (Hpre e Hin HP); exact Hh).
      destruct (remove_insert_WF B kv HW HB h t i e t1 hv (mkKV (k_id e) st v) HWF Hm Hi Hfull Erm Hhe Hhe)
        as (t2 & Eins & HWF2 & Em2 & _ & _ & _ & _ & _ & Hperm).
      rewrite Erm in E. cbn [bind] in E. rewrite Eins in E. cbn [bind] in E. injection E as <- <- <-.
      finish HWF2 (own_same' t t2 Em2 HA).
      destruct (remove_one_In e s Hin) as (s' & Er1 & Ps). rewrite HP, Er1. cbn [andb].
      apply meq_perm. exact (replace_perm e _ _ _ s s' Hperm P Ps).
    - injection E as <- <- <-. finish HWF HA. rewrite Hr, (meq_perm _ _ P). reflexivity.
  Qed.

  (* ---------------------------------------------------------------------------------------- *)
  (* (2) insert_unique and the entry API                                                        *)
  (* ---------------------------------------------------------------------------------------- *)
  Lemma ref_tinsert_unique t s k st v t' o evs : TInv t s ->
    STEP t (TInsertUnique k st v) = Ok (t', o, evs) -> TRefines s (TInsertUnique k st v) t' o.
  Proof.
    intros HI E. start_h E k hv Hh. pose proof HI as (HWF & HA & P).
    change (thasher hash_of) with h in E.
    destruct (Raw.insert B kv tsize talign needs_drop h true t hv (mkKV k st v) alloc_refuses)
      as [[[[t1 evs1] unw] r]|] eqn:Ei; cbn [bind] in E; [|discriminate E].
    destruct (insert_WF B kv HW HB tsize talign Hts Hta needs_drop h h_total' t hv (mkKV k st v) alloc_refuses
                t1 evs1 unw r HWF HA Hh Ei) as (-> & HWF1 & HA1 & sl & _ & _ & _ & _ & Hperm & _).
    injection E as <- <- <-. finish HWF1 HA1.
    apply meq_perm. etransitivity; [exact Hperm|]. apply perm_skip. exact P.
  Qed.

  Local Notation keyb k := (fun e : kv => (k_id e =? k)%Z).

  Lemma tfoi_ref t s k hv t1 evs unw r : TInv t s -> hash_of k = Some hv ->
    find_or_find_insert_slot B kv tsize talign needs_drop h true t hv (peq (PId k)) alloc_refuses
      = Ok (t1, evs, unw, r) ->
    unw = false /\ TInv t1 s /\ mask t1 <> 0 /\
    ((exists i e, r = Some (inl i) /\ i < nb kv t1 /\ slot kv t1 i = Some e /\ slot_ref kv t1 i = Ok e /\
                  k_id e = k /\ In e s) \/
     (exists sl, r = Some (inr sl) /\ existsb (keyb k) s = false /\
        forall v, k_id v = k ->
          exists t2, insert_in_slot B kv t1 hv sl v = Ok t2 /\ WF B kv h t2 /\ OWN t2 /\
                     Permutation (occupants kv t2) (v :: occupants kv t1))).
  Proof.
    intros HI Hh E. pose proof HI as (HWF & HA & P).
    change (peq (PId k)) with (pure_eq (keyb k)) in E.
    destruct (find_or_find_insert_slot_WF B kv HW HB tsize talign Hts Hta needs_drop h h_total' t hv (keyb k)
                alloc_refuses t1 evs unw r HWF HA (keyP_hash hash_of k hv Hh) E)
      as (-> & HWF1 & (Hs1 & HA1 & Hperm & _ & _ & Hm1 & _) & Hcases).
    pose proof (tinv_perm t t1 s HI HWF1 HA1 Hperm) as HI1.
    split; [reflexivity|]. split; [exact HI1|]. split; [exact Hm1|].
    destruct Hcases as [(i & e & -> & Hi & He & HP) | (sl & -> & _ & _ & Hno & _ & Hins)].
    - left. exists i, e. split; [reflexivity|]. split; [exact Hi|]. split; [exact He|].
      split; [exact (slot_ref_some B t1 i e Hs1 Hm1 Hi He)|]. split; [apply Z.eqb_eq; exact HP|].
      exact (slot_in t1 s i e HI1 He).
    - right. exists sl. split; [reflexivity|]. split.
      + apply existsb_false_iff. intros e Hin.
        destruct (in_slot t1 s e HI1 Hin) as (_ & i & _ & He). exact (Hno i e He).
      + intros v Hk.
        destruct (Hins v ltac:(unfold hasher; rewrite Hk; exact Hh))
          as (t2 & Eins & HWF2 & Em2 & _ & _ & _ & _ & _ & Hperm2).
        exists t2. split; [exact Eins|]. split; [exact HWF2|].
        split; [exact (own_same' t1 t2 Em2 HA1)|exact Hperm2].
  Qed.

  Ltac start_foi E t k hv Hh HI t1 evs1 HI1 Hm1 Hc :=
    start_h E k hv Hh; change (thasher hash_of) with h in E;
    let Ef := fresh "Ef" in let unw := fresh "unw" in let r := fresh "r" in
    destruct (find_or_find_insert_slot B kv tsize talign needs_drop h true t hv (peq (PId k)) alloc_refuses)
      as [[[[t1 evs1] unw] r]|] eqn:Ef; cbn [bind] in E; [|discriminate E];
    destruct (tfoi_ref t _ k hv t1 evs1 unw r HI Hh Ef) as (-> & HI1 & Hm1 & Hc).

  Lemma ref_tentry_insert t s k st v t' o evs : TInv t s ->
    STEP t (TEntryInsert k st v) = Ok (t', o, evs) -> TRefines s (TEntryInsert k st v) t' o.
  Proof.
    intros HI E. start_foi E t k hv Hh HI t1 evs1 HI1 Hm1 Hc. pose proof HI1 as (HWF1 & HA1 & P1).
    destruct Hc as [(i & e & -> & Hi & He & Er & Hk & Hin) | (sl & -> & Hno & Hins)].
    - rewrite Er in E. cbn [bind] in E.
      assert (Hh' : h (mkKV k st v) = h e) by (unfold hasher; cbn [k_id]; rewrite Hk; reflexivity).
      destruct (slot_write_WF B kv h t1 i e (mkKV k st v) HWF1 Hm1 Hi He Hh')
        as (t2 & Ew & HWF2 & Em2 & _ & _ & _ & _ & _ & _ & _ & Hperm).
      rewrite Ew in E. cbn [bind] in E. injection E as <- <- <-.
      finish HWF2 (own_same' t1 t2 Em2 HA1).
      apply existsb_exists. exists e. split; [exact Hin|].
      destruct (remove_one_In e s Hin) as (s' & Er1 & Ps). rewrite Er1.
      rewrite (proj2 (Z.eqb_eq _ _) Hk). cbn [andb].
      apply meq_perm. exact (replace_perm e _ _ _ s s' Hperm P1 Ps).
    - destruct (Hins (mkKV k st v) eq_refl) as (t2 & Eins & HWF2 & HA2 & Hperm).
      rewrite Eins in E. cbn [bind] in E. injection E as <- <- <-.
      finish HWF2 HA2. rewrite Hno. cbn [negb andb].
      apply meq_perm. etransitivity; [exact Hperm|]. apply perm_skip. exact P1.
  Qed.

  Lemma ref_tentry_or_insert t s k st v t' o evs : TInv t s ->
    STEP t (TEntryOrInsert k st v) = Ok (t', o, evs) -> TRefines s (TEntryOrInsert k st v) t' o.
  Proof.
    intros HI E. start_foi E t k hv Hh HI t1 evs1 HI1 Hm1 Hc. pose proof HI1 as (HWF1 & HA1 & P1).
    destruct Hc as [(i & e & -> & Hi & He & Er & Hk & Hin) | (sl & -> & Hno & Hins)].
    - rewrite Er in E. cbn [bind] in E. injection E as <- <- <-.
      finish HWF1 HA1.
      assert (Hex : existsb (keyb k) s = true).
      { apply existsb_exists. exists e. split; [exact Hin|apply Z.eqb_eq; exact Hk]. }
      rewrite Hex, (proj2 (Z.eqb_eq _ _) Hk), (remove_one_is_some e s Hin), (meq_perm _ _ P1). reflexivity.
    - destruct (Hins (mkKV k st v) eq_refl) as (t2 & Eins & HWF2 & HA2 & Hperm).
      rewrite Eins in E. cbn [bind] in E. injection E as <- <- <-.
      finish HWF2 HA2. rewrite Hno, kv_eqb_refl. cbn [andb].
      apply meq_perm. etransitivity; [exact Hperm|]. apply perm_skip. exact P1.
  Qed.

  Lemma ref_tentry_drop t s k t' o evs : TInv t s ->
    STEP t (TEntryDrop k) = Ok (t', o, evs) -> TRefines s (TEntryDrop k) t' o.
  Proof.
    intros HI E. start_foi E t k hv Hh HI t1 evs1 HI1 Hm1 Hc. pose proof HI1 as (HWF1 & HA1 & P1).
    destruct Hc as [(i & e & -> & Hi & He & Er & Hk & Hin) | (sl & -> & Hno & Hins)].
    - injection E as <- <- <-. finish HWF1 HA1.
      assert (Hex : existsb (keyb k) s = true).
      { apply existsb_exists. exists e. split; [exact Hin|apply Z.eqb_eq; exact Hk]. }
      rewrite Hex, (meq_perm _ _ P1). reflexivity.
    - injection E as <- <- <-. finish HWF1 HA1. rewrite Hno, (meq_perm _ _ P1). reflexivity.
  Qed.

  (* ---------------------------------------------------------------------------------------- *)
  (* (3) whole-table operations                                                                 *)
  (* ---------------------------------------------------------------------------------------- *)
  Lemma wf_empty t : SafeWF B kv t -> occupants kv t = [] -> WF B kv h t.
  Proof. intros Hs Ho. exact (WF_no_occupants B kv h t Hs Ho). Qed.

  Lemma ref_tclear t s t' o evs : TInv t s -> STEP t TClear = Ok (t', o, evs) -> TRefines s TClear t' o.
  Proof.
    intros HI E. cbn [table_step] in E. pose proof HI as ((Hs & _) & HA & _).
    destruct (clear_safe B kv HW HB tsize talign needs_drop tdrop_ok t Hs)
      as (t1 & evs1 & ok & Ec & Hs1 & Em1 & Ho1 & _ & _ & _ & _ & Hfail & _).
    rewrite Ec in E. cbn [bind] in E. destruct ok.
    - injection E as <- <- <-. finish (wf_empty t1 Hs1 Ho1) (own_same' t t1 Em1 HA). rewrite Ho1. reflexivity.
    - exfalso. destruct (Hfail eq_refl) as (l & e & _ & C). discriminate C.
  Qed.

  Lemma wf_new_table : WF B kv h (new_table B kv).
  Proof. apply wf_empty; [apply new_table_safe|apply new_table_occupants]. Qed.

  Lemma ref_tdrop t s t' o evs : TInv t s -> STEP t TDropTable = Ok (t', o, evs) -> TRefines s TDropTable t' o.
  Proof.
    intros HI E. cbn [table_step] in E.
    destruct (drop_inner_table B kv tsize talign needs_drop tdrop_ok t) as [[evs0 ok]|]; cbn [bind] in E;
      [|discriminate E].
    injection E as <- <- <-. finish wf_new_table (TOwn_new_table B kv tsize talign).
    rewrite new_table_occupants. reflexivity.
  Qed.

  Lemma ref_twith_capacity t s n t' o evs : TInv t s -> (0 <= n < 2 ^ 64)%Z ->
    STEP t (TWithCapacity n) = Ok (t', o, evs) -> TRefines s (TWithCapacity n) t' o.
  Proof.
    intros HI Hn E. cbn [table_step] in E.
    pose proof (fallible_with_capacity_spec B kv HW tsize talign Hts Hta n alloc_refuses Infallible Hn) as Hpost.
    destruct (fallible_with_capacity B kv tsize talign n alloc_refuses Infallible) as [[[[nt|] evs1] tr]|];
      cbn [bind] in E; [| |discriminate E].
    - destruct (drop_inner_table B kv tsize talign needs_drop tdrop_ok t) as [[evs0 ok]|]; cbn [bind] in E;
        [|discriminate E].
      injection E as <- <- <-.
      destruct tr; cbn [fwc_post] in Hpost; try contradiction.
      destruct Hpost as (Hs & _ & Ho & _ & _ & _ & Hhow).
      assert (HA : OWN nt).
      { destruct Hhow as [(_ & -> & _) | (_ & _ & HAl & _)]; [apply TOwn_new_table|right; exact HAl]. }
      finish (wf_empty nt Hs Ho) HA. rewrite Ho. reflexivity.
    - destruct (drop_inner_table B kv tsize talign needs_drop tdrop_ok t) as [[evs0 ok]|]; cbn [bind] in E;
        discriminate E.
  Qed.

  Lemma ref_treserve t s n t' o evs : TInv t s -> (0 <= n < 2 ^ 64)%Z ->
    STEP t (TReserve n) = Ok (t', o, evs) -> TRefines s (TReserve n) t' o.
  Proof.
    intros HI Hn E. cbn [table_step] in E. pose proof HI as (HWF & HA & P).
    change (thasher hash_of) with h in E.
    destruct (reserve B kv tsize talign needs_drop h true t n alloc_refuses)
      as [[[[t1 evs1] tr1] unw1]|] eqn:Er; cbn [bind] in E; [|discriminate E].
    destruct (reserve_WF B kv HW HB tsize talign Hts Hta needs_drop h h_total' t n alloc_refuses
                t1 evs1 tr1 unw1 HWF HA Hn Er) as (-> & -> & HWF1 & HA1 & P1 & _).
    cbn [wrap_try] in E. injection E as <- <- <-. finish HWF1 HA1.
    apply meq_perm. etransitivity; eassumption.
  Qed.

  Lemma ref_ttry_reserve t s n t' o evs : TInv t s -> (0 <= n < 2 ^ 64)%Z ->
    STEP t (TTryReserve n) = Ok (t', o, evs) -> TRefines s (TTryReserve n) t' o.
  Proof.
    intros HI Hn E. cbn [table_step] in E. pose proof HI as (HWF & HA & P).
    change (thasher hash_of) with h in E.
    destruct (try_reserve B kv tsize talign needs_drop h true t n alloc_refuses)
      as [[[[t1 evs1] tr1] unw1]|] eqn:Er; cbn [bind] in E; [|discriminate E].
    destruct (try_reserve_contents B kv HW HB tsize talign Hts Hta needs_drop h h_total' t n alloc_refuses
                t1 evs1 tr1 unw1 HWF HA Hn Er) as (-> & HWF1 & HA1 & P1).
    cbn [wrap_try] in E. injection E as <- <- <-. finish HWF1 HA1.
    apply meq_perm. etransitivity; eassumption.
  Qed.

  Lemma tshrink_ref t s n t' evs unw : TInv t s -> (0 <= n < 2 ^ 64)%Z ->
    shrink_to B kv tsize talign needs_drop tdrop_ok (thasher hash_of) t n alloc_refuses = Ok (t', evs, unw) ->
    unw = false /\ TInv t' s.
  Proof.
    intros HI Hn E. pose proof HI as (HWF & HA & _).
    destruct (shrink_to_WF B kv HW HB tsize talign Hts Hta needs_drop tdrop_ok h h_total' t n alloc_refuses
                t' evs unw HWF HA Hn E) as (-> & HWF1 & HA1 & P & _).
    split; [reflexivity|exact (tinv_perm t t' s HI HWF1 HA1 P)].
  Qed.

  Lemma ref_tshrink_to t s n t' o evs : TInv t s -> (0 <= n < 2 ^ 64)%Z ->
    STEP t (TShrinkTo n) = Ok (t', o, evs) -> TRefines s (TShrinkTo n) t' o.
  Proof.
    intros HI Hn E. cbn [table_step] in E.
    destruct (shrink_to B kv tsize talign needs_drop tdrop_ok (thasher hash_of) t n alloc_refuses)
      as [[[t1 evs1] unw1]|] eqn:Er; cbn [bind] in E; [|discriminate E].
    destruct (tshrink_ref t s n t1 evs1 unw1 HI Hn Er) as (-> & (HWF1 & HA1 & P1)).
    injection E as <- <- <-. finish HWF1 HA1. exact (meq_perm _ _ P1).
  Qed.

  Lemma ref_tshrink_to_fit t s t' o evs : TInv t s ->
    STEP t TShrinkToFit = Ok (t', o, evs) -> TRefines s TShrinkToFit t' o.
  Proof.
    intros HI E. cbn [table_step] in E. pose proof HI as ((Hs & _) & _).
    pose proof (items_range B t Hs) as Hn.
    destruct (shrink_to B kv tsize talign needs_drop tdrop_ok (thasher hash_of) t (items t) alloc_refuses)
      as [[[t1 evs1] unw1]|] eqn:Er; cbn [bind] in E; [|discriminate E].
    destruct (tshrink_ref t s (items t) t1 evs1 unw1 HI Hn Er) as (-> & (HWF1 & HA1 & P1)).
    injection E as <- <- <-. finish HWF1 HA1. exact (meq_perm _ _ P1).
  Qed.

  (* ---------------------------------------------------------------------------------------- *)
  (* (4) counters and iteration                                                                 *)
  (* ---------------------------------------------------------------------------------------- *)
  Lemma tinv_length t s : TInv t s -> items t = Z.of_nat (length s).
  Proof.
    intros ((Hs & _) & _ & P). rewrite (SafeAllocClear.occupants_length B kv HW t Hs). f_equal.
    exact (Permutation_length P).
  Qed.

  Lemma ref_tlen t s t' o evs : TInv t s -> STEP t TLen = Ok (t', o, evs) -> TRefines s TLen t' o.
  Proof.
    intros HI E. cbn [table_step] in E. injection E as <- <- <-. pose proof HI as (HWF & HA & P).
    finish HWF HA. rewrite (tinv_length t s HI), Z.eqb_refl, (meq_perm _ _ P). reflexivity.
  Qed.

  Lemma ref_tcapacity t s t' o evs : TInv t s -> STEP t TCapacity = Ok (t', o, evs) -> TRefines s TCapacity t' o.
  Proof.
    intros HI E. cbn [table_step] in E. injection E as <- <- <-. pose proof HI as (HWF & HA & P).
    pose proof HWF as (Hs & _). finish HWF HA.
    rewrite (capacity_eq B kv t Hs), <- (tinv_length t s HI), (meq_perm _ _ P).
    destruct (safe_counts B kv t Hs) as (_ & Hg & _).
    destruct (Z.leb_spec (items t) (items t + growth_left t)); [reflexivity|lia].
  Qed.

  Lemma ref_tallocation_size t s t' o evs : TInv t s ->
    STEP t TAllocationSize = Ok (t', o, evs) -> TRefines s TAllocationSize t' o.
  Proof.
    intros HI E. cbn [table_step] in E. pose proof HI as (HWF & HA & P).
    destruct (allocation_size B kv tsize talign t) as [n|]; cbn [bind] in E; [|discriminate E].
    injection E as <- <- <-. finish HWF HA. exact (meq_perm _ _ P).
  Qed.

  Lemma ref_titer t s t' o evs : TInv t s -> STEP t TIter = Ok (t', o, evs) -> TRefines s TIter t' o.
  Proof.
    intros HI E. cbn [table_step] in E. pose proof HI as (HWF & HA & P). pose proof HWF as (Hs & _).
    destruct (iter_exact B kv HW HB t Hs) as (it & En & Ea).
    rewrite En in E. cbn [bind] in E. rewrite Ea in E. cbn [bind] in E.
    rewrite (elems_at_full B HW t Hs) in E. cbn [bind] in E. injection E as <- <- <-.
    finish HWF HA. rewrite (meq_perm _ _ P). reflexivity.
  Qed.

  (* ---------------------------------------------------------------------------------------- *)
  (* (5) drain                                                                                  *)
  (* ---------------------------------------------------------------------------------------- *)
  Local Notation cell t := (fun i : nat => SafeAllocClear.opt_list (nth i (slots t) None)).

  Lemma m_drain_spec t n t1 o evs : SafeWF B kv t -> OWN t ->
    m_drain B needs_drop t n = Ok (t1, o, evs) ->
    exists taken rest, o = OutList taken /\ occupants kv t = taken ++ rest /\
      length taken = Nat.min n (length (occupants kv t)) /\
      SafeWF B kv t1 /\ OWN t1 /\ occupants kv t1 = [].
  Proof.
    intros Hs HA E. unfold m_drain in E.
    destruct (iter_exact B kv HW HB t Hs) as (it & En & Ea).
    rewrite En in E. cbn [bind] in E. rewrite Ea in E. cbn [bind] in E.
    destruct (Nat.eq_dec (mask t) 0) as [Hm|Hm].
    - pose proof (safe_singleton B kv t Hs Hm) as Et.
      rewrite Et in E. rewrite (proj2 (items_singleton B kv HW)) in E.
      assert (Etn : take_n (new_table B kv) [] n = Ok ([], [], new_table B kv)) by (destruct n; reflexivity).
      rewrite Etn in E. cbn [bind take_all map app] in E.
      rewrite clear_no_drop_singleton in E. injection E as <- <- <-.
      exists [], []. rewrite Et, new_table_occupants. cbn [length app]. rewrite Nat.min_0_r.
      split; [reflexivity|]. split; [reflexivity|]. split; [reflexivity|].
      split; [apply new_table_safe|]. split; [apply TOwn_new_table|reflexivity].
    - set (idx := full_list t) in *.
      assert (Hfull : forall i, In i idx -> nth i (slots t) None <> None).
      { intros i Hi. destruct (full_list_full t i Hi) as (Hlt & Hf).
        destruct (SafeWF_alloc B kv t Hs Hm) as (_ & _ & HC).
        destruct (full_slot_some kv t i HC Hlt Hf) as (e & He). unfold slot in He. rewrite He. discriminate. }
      assert (Hsplit : idx = firstn n idx ++ skipn n idx) by (symmetry; apply firstn_skipn).
      assert (Hnd1 : NoDup (firstn n idx)).
      { pose proof (full_list_NoDup t) as Hn0. fold idx in Hn0. rewrite Hsplit in Hn0.
        exact (NoDup_app_left _ _ Hn0). }
      destruct (take_all_spec kv (firstn n idx) t Hm Hnd1
                  ltac:(intros i Hi; apply Hfull; rewrite Hsplit; apply in_or_app; left; exact Hi))
        as (es1 & Et1 & Hes1).
      destruct (take_all_spec kv idx t Hm (full_list_NoDup t) Hfull) as (es & Eta & Hes).
      rewrite Hsplit in Eta at 1. rewrite take_all_app, Et1 in Eta. cbn [bind] in Eta.
      rewrite take_n_eq, Et1 in E. cbn [bind] in E.
      destruct (take_all kv (with_slots kv t (clear_at (slots t) (firstn n idx))) (skipn n idx))
        as [[es2 t2]|]; cbn [bind] in E, Eta; [|discriminate E].
      injection Eta as Ees Et2. injection E as <- <- <-.
      assert (Hlt : forall i, In i idx -> i < length (slots t)).
      { intros i Hi. rewrite (SafeWF_slots_length B kv t Hs). exact (proj1 (full_list_full t i Hi)). }
      destruct (SafeWF_alloc B kv t Hs Hm) as (HS & _).
      destruct (Shape_Geometry B kv t HS) as (G1 & G2 & G3).
      assert (HG : Geometry B kv t2).
      { rewrite Et2. unfold Geometry, nb, buckets in *. cbn [mask ctrl slots with_slots].
        rewrite (clear_at_length idx (slots t) Hlt). split; [exact G1|]. split; assumption. }
      destruct (clear_no_drop_geometry B kv t2 HG) as (S1 & S2 & _ & S4 & _).
      assert (Em2 : mask (clear_no_drop kv t2) = mask t) by (rewrite S2, Et2; reflexivity).
      pose proof (flat_map_cell_Some t es1 _ Hes1) as Ef1.
      exists es1, (flat_map (cell t) (skipn n idx)). split; [reflexivity|]. split; [|split].
      + rewrite (occupants_full_list B kv HW t Hs). fold idx. rewrite Hsplit at 1.
        rewrite flat_map_app, Ef1. reflexivity.
      + rewrite <- (map_length Some es1), Hes1, map_length, firstn_length. f_equal.
        pose proof (items_full_list B kv HW t Hs) as H1.
        pose proof (SafeAllocClear.occupants_length B kv HW t Hs) as H2. fold idx in H1. lia.
      + split; [exact S1|]. split; [exact (own_same' t _ Em2 HA)|exact S4].
  Qed.

  Lemma ref_tdrain t s n t' o evs : TInv t s -> STEP t (TDrain n) = Ok (t', o, evs) -> TRefines s (TDrain n) t' o.
  Proof.
    intros HI E. cbn [table_step] in E. pose proof HI as ((Hs & _) & HA & P).
    destruct (m_drain B needs_drop t n) as [[[t1 o1] evs1]|] eqn:Ed; cbn [bind] in E; [|discriminate E].
    destruct (m_drain_spec t n t1 o1 evs1 Hs HA Ed) as (taken & rest & -> & Eocc & Hlen & Hs1 & HA1 & Ho1).
    injection E as <- <- <-. finish (wf_empty t1 Hs1 Ho1) HA1.
    rewrite Hlen, (Permutation_length P), Nat.eqb_refl, Ho1.
    rewrite (msub_is_some taken s rest) by (rewrite <- Eocc; symmetry; exact P). reflexivity.
  Qed.

  (* ---------------------------------------------------------------------------------------- *)
  (* (6) retain, extract_if                                                                     *)
  (* ---------------------------------------------------------------------------------------- *)
  Lemma ref_tretain t s keep add t' o evs : TInv t s ->
    STEP t (TRetain keep add) = Ok (t', o, evs) -> TRefines s (TRetain keep add) t' o.
  Proof.
    intros HI E. cbn [table_step] in E. pose proof HI as (HWF & HA & P). pose proof HWF as (Hs & _).
    destruct (LoopInv_init B HW HB t Hs) as (it & En & HLI). rewrite En in E. cbn [bind] in E.
    rewrite t_retain_loop_eq in E.
    destruct (retain_loop B needs_drop (S (buckets kv t)) t it keep add []) as [[t1 evs1]|] eqn:Er;
      cbn [bind] in E; [|discriminate E].
    injection E as <- <- <-.
    assert (Hlen : length (full_list t) < S (buckets kv t)).
    { pose proof (full_list_le kv t). unfold nb in *. lia. }
    destruct (retain_loop_ref B HW HB tsize talign needs_drop hash_of keep add (occupants kv t) _ t it
                (full_list t) [] [] t1 evs1 HLI Hlen HWF HA
                ltac:(cbn [app]; rewrite (elems_full B HW t Hs); apply Permutation_refl)
                ltac:(cbn [app flat_map]; rewrite (elems_full B HW t Hs); apply Permutation_refl) Er)
      as (HWF1 & HA1 & P1).
    finish HWF1 HA1. apply meq_perm. rewrite <- retain_f_spec.
    etransitivity; [exact P1|]. apply Permutation_flat_map. exact P.
  Qed.

  Local Notation selb sel := (fun e : kv => existsb (Z.eqb (k_id e)) sel).

  Lemma ref_textract_if t s sel n t' o evs : TInv t s ->
    STEP t (TExtractIf sel n) = Ok (t', o, evs) -> TRefines s (TExtractIf sel n) t' o.
  Proof.
    intros HI E. cbn [table_step] in E. pose proof HI as (HWF & HA & P). pose proof HWF as (Hs & _).
    destruct (LoopInv_init B HW HB t Hs) as (it & En & HLI). rewrite En in E. cbn [bind] in E.
    destruct (extract_loop B (S (buckets kv t)) t it sel n [] []) as [[[t1 acc] evs1]|] eqn:Er;
      cbn [bind] in E; [|discriminate E].
    injection E as <- <- <-.
    assert (Hlen : length (full_list t) < S (buckets kv t)).
    { pose proof (full_list_le kv t). unfold nb in *. lia. }
    destruct (extract_loop_ref B HW HB tsize talign hash_of sel n s _ t it (full_list t) n [] [] [] t1 acc evs1
                HLI Hlen HWF HA ltac:(exact P) ltac:(constructor)
                ltac:(cbn [app]; rewrite (elems_full B HW t Hs); apply Permutation_refl)
                ltac:(constructor) ltac:(reflexivity) Er)
      as (HWF1 & HA1 & P1 & Hsel & Hle & Hdone).
    finish HWF1 HA1.
    set (selected := filter (fun e : kv => existsb (Z.eqb (k_id e)) sel) s).
    assert (Psel : Permutation (acc ++ filter (selb sel) (occupants kv t1)) selected).
    { unfold selected. etransitivity; [|apply perm_filter; exact P1].
      rewrite filter_app, (filter_all_true _ acc Hsel). apply Permutation_refl. }
    assert (Hlen' : length acc = Nat.min n (length selected)).
    { pose proof (Permutation_length Psel) as Hl. rewrite app_length in Hl.
      destruct Hdone as [Hn|Hnone]; [lia|].
      rewrite (filter_none _ _ Hnone) in Hl. cbn [length] in Hl. lia. }
    rewrite Hlen', Nat.eqb_refl.
    rewrite (msub_is_some acc selected _ (Permutation_sym Psel)).
    destruct (msub_perm acc s (occupants kv t1) (Permutation_sym P1)) as (r' & Em & Pr). rewrite Em.
    cbn [andb]. apply meq_perm. symmetry. exact Pr.
  Qed.
  (* ---------------------------------------------------------------------------------------- *)
  (* (7) get_many_mut                                                                           *)
  (* ---------------------------------------------------------------------------------------- *)
  (* the contents split into the elements of a duplicate-free set of live buckets and the rest *)
  Lemma occ_split t I : SafeWF B kv t -> NoDup I ->
    (forall i, In i I -> i < nb kv t /\ is_full (byte kv t i) = true) ->
    Permutation (occupants kv t) (elems t I ++ elems t (without I (full_list t))).
  Proof.
    intros Hs Hnd Hall. rewrite <- (elems_full B HW t Hs), <- elems_app.
    unfold elems. apply Permutation_flat_map. apply split_perm; [exact Hnd|apply full_list_NoDup|].
    intros x Hx. apply full_list_In. exact (Hall x Hx).
  Qed.

  (* same control bytes, same ids in the same buckets: still well-formed *)
  Lemma wf_same_ctrl t t1 : WF B kv h t -> SafeWF B kv t1 -> mask t1 = mask t -> ctrl t1 = ctrl t ->
    (forall j x, slot kv t1 j = Some x -> exists e, slot kv t j = Some e /\ k_id x = k_id e) ->
    WF B kv h t1.
  Proof.
    intros (Hs & HT & HR) Hs1 Em Ec Hsl.
    assert (Enb : nb kv t1 = nb kv t) by (unfold nb, buckets; rewrite Em; reflexivity).
    split; [exact Hs1|]. split.
    - intros j x hv Hj Hx Hhx. destruct (Hsl j x Hx) as (e & He & Hk).
      unfold byte. rewrite Ec. apply (HT j e hv); [lia|exact He|]. unfold hasher in *. rewrite <- Hk. exact Hhx.
    - intros j x hv Hj Hx Hhx. destruct (Hsl j x Hx) as (e & He & Hk).
      rewrite (reach_ok_ext B kv t t1 hv j Em Ec).
      apply (HR j e hv); [lia|exact He|]. unfold hasher in *. rewrite <- Hk. exact Hhx.
  Qed.

  Lemma unbump add e : (0 <= v_val e < 2 ^ 64)%Z ->
    mkKV (k_id (bump add e)) (k_stamp (bump add e)) (wsub 64 (v_val (bump add e)) add) = e.
  Proof.
    intros Hr. destruct e as [a b c]. unfold bump. cbn [k_id k_stamp v_val] in *. f_equal.
    unfold wsub, wadd, wrap. rewrite Zminus_mod_idemp_l.
    replace (c + add - add)%Z with c by lia. apply Z.mod_small. exact Hr.
  Qed.

  Lemma opts_ok_spec t t' s add : TInv t s -> (forall e, In e s -> (0 <= v_val e < 2 ^ 64)%Z) ->
    forall reqs l os, Forall2 (Resolved B hash_of t) reqs l -> Forall3 (Handed t t' add) reqs l os ->
    opts_ok hash_of s reqs os add = Some (elems t (somes l)).
  Proof.
    intros HI Hrange. induction reqs as [|[hk p] reqs IH]; intros [|oi l] [|o os] HF H3;
      cbn [Forall3] in H3; try contradiction; try (inversion HF; fail).
    - reflexivity.
    - inversion HF as [|? ? ? ? Hres HF']; subst. destruct H3 as (Hh & H3).
      specialize (IH l os HF' H3).
      destruct oi as [i|], o as [e'|]; cbn [Handed] in Hh; try contradiction.
      + destruct Hh as (e & He & HP & -> & _). cbn [opts_ok somes]. cbn [snd] in HP.
        rewrite (unbump add e (Hrange e (slot_in t s i e HI He))), HP, IH.
        rewrite (elems_cons t i (somes l) e He). reflexivity.
      + cbn [opts_ok somes]. destruct Hres as (hv & Hh' & Ef). cbn [fst snd] in Hh', Ef.
        destruct (tfind_ref t s hk hv p HI Hh') as (r & Ef' & Hr). rewrite Ef in Ef'. injection Ef' as <-.
        rewrite Hr. exact IH.
  Qed.

  Lemma ref_tget_many_mut t s reqs add t' o evs : TInv t s -> top_pre hash_of s (TGetManyMut reqs add) ->
    STEP t (TGetManyMut reqs add) = Ok (t', o, evs) -> TRefines s (TGetManyMut reqs add) t' o.
  Proof.
    intros HI Hpre E. cbn [top_pre] in Hpre. pose proof HI as (HWF & HA & P). pose proof HWF as (Hs & _).
    pose proof E as E0. cbn [table_step] in E.
    destruct (many_find_ok B HW HB hash_of t Hs reqs) as (r & Em & Hr). rewrite Em in E. cbn [bind] in E.
    destruct r as [l|].
    2:{ exfalso. destruct Hr as (req & _ & Hn). destruct (Htot (fst req)) as (x & Hx). congruence. }
    destruct (has_dup l) eqn:Ed.
    - (* "duplicate keys found": two requests accept the same stored element *)
      injection E as <- <- <-. finish HWF HA. rewrite (meq_perm _ _ P). cbn [andb].
      destruct (proj1 (has_dup_true_iff l) Ed) as (a & b & i & Hab & Ha & Hb).
      destruct (Forall2_nth_error _ reqs l a (Some i) Hr Ha) as (ra & Hra & Hresa).
      destruct (Forall2_nth_error _ reqs l b (Some i) Hr Hb) as (rb & Hrb & Hresb).
      destruct (Resolved_found B HW HB hash_of t ra (Some i) Hs Hresa) as (_ & _ & e & He & _ & HPa).
      destruct (Resolved_found B HW HB hash_of t rb (Some i) Hs Hresb) as (_ & _ & e2 & He2 & _ & HPb).
      rewrite He in He2. injection He2 as <-.
      apply existsb_exists. exists e. split; [exact (slot_in t s i e HI He)|].
      apply Nat.leb_le.
      exact (filter_length_ge2 (fun r => tpred_holds (snd r) e) reqs a b ra rb Hab Hra Hrb HPa HPb).
    - pose proof (has_dup_NoDup l Ed) as Hnd.
      pose proof (resolved_live B HW HB hash_of t reqs l Hs Hr) as Hlive.
      destruct (bump_all_spec B tsize talign HL hash_of add l t Hs Hnd Hlive)
        as (t1 & os1 & Eb & Hs1 & Em1 & Ec1 & _ & _ & Hout & Hin & _).
      rewrite Eb in E. cbn [bind] in E. injection E as <- <- <-.
      destruct (get_many_mut_distinct B HW HB tsize talign HL needs_drop hash_of alloc_refuses
                  t reqs add t1 os1 [] Hs HA E0) as (l' & El' & _ & _ & _ & H3 & _).
      rewrite Em in El'. injection El' as <-.
      assert (Enb1 : nb kv t1 = nb kv t) by (unfold nb, buckets; rewrite Em1; reflexivity).
      assert (HWF1 : WF B kv h t1).
      { apply (wf_same_ctrl t t1 HWF Hs1 Em1 Ec1). intros j x Hx.
        destruct (in_dec Nat.eq_dec j (somes l)) as [Hj|Hj].
        - rewrite (Hin j Hj) in Hx. destruct (slot kv t j) as [e|]; [|discriminate Hx].
          cbn [option_map] in Hx. injection Hx as <-. exists e. split; reflexivity.
        - rewrite (Hout j Hj) in Hx. exists x. split; [exact Hx|reflexivity]. }
      finish HWF1 (own_same' t t1 Em1 HA).
      rewrite (opts_ok_spec t t1 s add HI Hpre reqs l os1 Hr H3).
      set (I := somes l) in *.
      assert (Hall : forall i, In i I -> i < nb kv t /\ is_full (byte kv t i) = true).
      { intros i Hi. destruct (Hlive i Hi) as (Hm & Hlt & e & He). split; [exact Hlt|].
        exact (slot_full B t i e Hs Hm Hlt He). }
      assert (Hall1 : forall i, In i I -> i < nb kv t1 /\ is_full (byte kv t1 i) = true).
      { intros i Hi. destruct (Hall i Hi) as (Hlt & Hf). split; [lia|]. unfold byte in *. rewrite Ec1. exact Hf. }
      pose proof (occ_split t I Hs Hnd Hall) as Pt.
      pose proof (occ_split t1 I Hs1 Hnd Hall1) as Pt1.
      rewrite (full_list_same t t1 Em1 Ec1) in Pt1.
      rewrite (elems_map t t1 (bump add) I Hin) in Pt1.
      rewrite (elems_ext t t1 (without I (full_list t))) in Pt1
        by (intros j Hj; apply Hout; apply without_In in Hj; tauto).
      destruct (msub_perm (elems t I) s _ (Permutation_trans (Permutation_sym P) Pt)) as (rest & Ems & Prest).
      rewrite Ems. apply meq_perm. etransitivity; [exact Pt1|].
      apply Permutation_app_head. symmetry. exact Prest.
  Qed.

  (* ---------------------------------------------------------------------------------------- *)
  (* (8) iter_hash                                                                              *)
  (* ---------------------------------------------------------------------------------------- *)
  Lemma ref_titer_hash t s hk t' o evs : TInv t s ->
    STEP t (TIterHash hk) = Ok (t', o, evs) -> TRefines s (TIterHash hk) t' o.
  Proof.
    intros HI E. start_h E hk hv Hh. pose proof HI as (HWF & HA & P). pose proof HWF as (Hs & HT & HR).
    destruct (IterHashFacts.iter_hash_total B HW HB t hv Hs) as (idx & Ei & Hnd & Hall).
    rewrite Ei in E. cbn [bind] in E.
    destruct (Nat.eq_dec (mask t) 0) as [Hm|Hm].
    - (* the static singleton: nothing stored, nothing yielded *)
      assert (Eidx : idx = []).
      { destruct idx as [|i r]; [reflexivity|]. exfalso. exact (proj1 (Hall i (or_introl eq_refl)) Hm). }
      subst idx. cbn [elems_at fold_right bind] in E. injection E as <- <- <-. finish HWF HA.
      assert (Es : s = []).
      { rewrite (safe_singleton B kv t Hs Hm), new_table_occupants in P. apply Permutation_nil. exact P. }
      subst s. rewrite (meq_perm _ _ P). reflexivity.
    - assert (Hall' : forall i, In i idx -> i < nb kv t /\ is_full (byte kv t i) = true).
      { intros i Hi. exact (proj2 (Hall i Hi)). }
      rewrite (elems_at_spec B t Hs Hm idx Hall') in E. cbn [bind] in E. injection E as <- <- <-.
      finish HWF HA. rewrite (meq_perm _ _ P), andb_true_r.
      change (flat_map (fun i : nat => SafeAllocClear.opt_list (nth i (slots t) None)) idx) with (elems t idx).
      pose proof (occ_split t idx Hs Hnd Hall') as Pt.
      destruct (msub_perm (elems t idx) s _ (Permutation_trans (Permutation_sym P) Pt)) as (rest & Ems & Prest).
      rewrite Ems. apply negb_true_iff. apply existsb_false_iff. intros e Hin.
      destruct (same_hash hash_of (k_id e) hk) eqn:C; [exfalso|reflexivity].
      unfold same_hash in C. rewrite Hh in C. destruct (hash_of (k_id e)) as [x|] eqn:Ex; [|discriminate C].
      apply Z.eqb_eq in C. subst x.
      apply (Permutation_in _ Prest) in Hin. apply elems_In in Hin. destruct Hin as (j & Hj & He).
      apply without_In in Hj. destruct Hj as (Hjf & Hjn). apply full_list_In in Hjf. destruct Hjf as (Hlt & _).
      apply Hjn.
      exact (IterHashFacts.iter_hash_complete B HW HB t hv j Hs Hm Hlt (HT j e hv Hlt He Ex) (HR j e hv Hlt He Ex)
               idx Ei).
  Qed.

  (* ---------------------------------------------------------------------------------------- *)
  (* THE REFINEMENT THEOREM, every operation                                                    *)
  (* ---------------------------------------------------------------------------------------- *)
  Theorem table_step_refines_inv t s op t' o evs :
    top_args_ok op -> top_pre hash_of s op -> TInv t s -> STEP t op = Ok (t', o, evs) -> TRefines s op t' o.
  Proof.
    intros Hargs Hpre HI E. destruct op; cbn [top_args_ok] in Hargs.
    - exact (ref_twith_capacity t s n t' o evs HI Hargs E).
    - exact (ref_tfind t s hk p t' o evs HI E).
    - exact (ref_tfind_mut t s hk p newv t' o evs HI E).
    - exact (ref_tfind_entry_remove t s hk p t' o evs HI E).
    - exact (ref_tremove_reinsert t s hk p stamp v t' o evs HI Hpre E).
    - exact (ref_tentry_insert t s k stamp v t' o evs HI E).
    - exact (ref_tentry_or_insert t s k stamp v t' o evs HI E).
    - exact (ref_tentry_drop t s k t' o evs HI E).
    - exact (ref_tinsert_unique t s k stamp v t' o evs HI E).
    - exact (ref_tretain t s keep bump t' o evs HI E).
    - exact (ref_textract_if t s sel n t' o evs HI E).
    - exact (ref_tdrain t s n t' o evs HI E).
    - exact (ref_tclear t s t' o evs HI E).
    - exact (ref_treserve t s n t' o evs HI Hargs E).
    - exact (ref_ttry_reserve t s n t' o evs HI Hargs E).
    - exact (ref_tshrink_to t s n t' o evs HI Hargs E).
    - exact (ref_tshrink_to_fit t s t' o evs HI E).
    - exact (ref_tget_many_mut t s reqs add t' o evs HI Hpre E).
    - exact (ref_titer_hash t s hk t' o evs HI E).
    - exact (ref_titer t s t' o evs HI E).
    - exact (ref_tlen t s t' o evs HI E).
    - exact (ref_tcapacity t s t' o evs HI E).
    - exact (ref_tallocation_size t s t' o evs HI E).
    - exact (ref_tdrop t s t' o evs HI E).
  Qed.
End TableRefine.

(* ------------------------------------------------------------------------------------------ *)
(* the theorem in closed form                                                                   *)
(* ------------------------------------------------------------------------------------------ *)
(* Every operation is covered.  top_pre is `True` except for TRemoveReinsert and TGetManyMut. *)
Theorem table_step_refines :
  forall B tsize talign needs_drop hash_of alloc_refuses (t : table kv) (s : mset) (op : tbl_op) t' o evs,
  WidthOK B -> BackendSpec B -> LayoutOK tsize talign -> TotalHash hash_of -> top_args_ok op ->
  top_pre hash_of s op ->
  WF B kv (fun e => hash_of (k_id e)) t -> TOwn B kv tsize talign t -> Permutation (occupants kv t) s ->
  table_step B tsize talign needs_drop true hash_of alloc_refuses t op = Ok (t', o, evs) ->
  o <> TOutUnwind /\ tspec_accepts hash_of s op o (occupants kv t') = true /\
  WF B kv (fun e => hash_of (k_id e)) t' /\ TOwn B kv tsize talign t'.
Proof.
  intros B tsize talign needs_drop hash_of alloc_refuses t s op t' o evs HW HB HL Htot Hargs Hpre HWF HA P E.
  exact (table_step_refines_inv B HW HB tsize talign HL needs_drop hash_of Htot alloc_refuses t s op t' o evs
           Hargs Hpre (conj HWF (conj HA P)) E).
Qed.

(* ... and literally as it was asked, for the operations without side condition *)
Definition tcovered (op : tbl_op) : Prop :=
  match op with TRemoveReinsert _ _ _ _ | TGetManyMut _ _ => False | _ => True end.

Lemma tcovered_pre hash_of s op : tcovered op -> top_pre hash_of s op.
Proof. destruct op; cbn; intros H; try exact I; contradiction. Qed.

Corollary table_step_refines_covered :
  forall B tsize talign needs_drop hash_of alloc_refuses (t : table kv) (s : mset) (op : tbl_op) t' o evs,
  WidthOK B -> BackendSpec B -> LayoutOK tsize talign -> TotalHash hash_of -> top_args_ok op -> tcovered op ->
  WF B kv (fun e => hash_of (k_id e)) t -> TOwn B kv tsize talign t -> Permutation (occupants kv t) s ->
  table_step B tsize talign needs_drop true hash_of alloc_refuses t op = Ok (t', o, evs) ->
  o <> TOutUnwind /\ tspec_accepts hash_of s op o (occupants kv t') = true /\
  WF B kv (fun e => hash_of (k_id e)) t' /\ TOwn B kv tsize talign t'.
Proof.
  intros B tsize talign needs_drop hash_of alloc_refuses t s op t' o evs HW HB HL Htot Hargs Hcov.
  apply table_step_refines; try assumption. apply tcovered_pre. exact Hcov.
Qed.

(* TRemoveReinsert with the lawful closure `id == hk` needs no side condition *)
Corollary remove_reinsert_by_id_refines :
  forall B tsize talign needs_drop hash_of alloc_refuses (t : table kv) (s : mset) hk st v t' o evs,
  WidthOK B -> BackendSpec B -> LayoutOK tsize talign -> TotalHash hash_of ->
  WF B kv (fun e => hash_of (k_id e)) t -> TOwn B kv tsize talign t -> Permutation (occupants kv t) s ->
  table_step B tsize talign needs_drop true hash_of alloc_refuses t (TRemoveReinsert hk (PId hk) st v)
    = Ok (t', o, evs) ->
  o <> TOutUnwind /\ tspec_accepts hash_of s (TRemoveReinsert hk (PId hk) st v) o (occupants kv t') = true /\
  WF B kv (fun e => hash_of (k_id e)) t' /\ TOwn B kv tsize talign t'.
Proof.
  intros B tsize talign needs_drop hash_of alloc_refuses t s hk st v t' o evs HW HB HL Htot.
  apply table_step_refines; try assumption; [exact I|].
  intros e _ HP. cbn [tpred_holds] in HP. apply Z.eqb_eq in HP. rewrite HP. reflexivity.
Qed.

Print Assumptions table_step_refines.
Print Assumptions table_step_refines_covered.
Print Assumptions remove_reinsert_by_id_refines.

(* ------------------------------------------------------------------------------------------ *)
(* FINDINGS: the two side conditions cannot be dropped                                          *)
(* ------------------------------------------------------------------------------------------ *)
Fixpoint trun (B : backend) (hash_of : Z -> option Z) (t : table kv) (ops : list tbl_op)
  : res (list tout * table kv) :=
  match ops with
  | [] => Ok ([], t)
  | op :: r => '(t1, o, _) <- table_step B 24 8 false true hash_of false t op ;;
               '(os, t2) <- trun B hash_of t1 r ;; Ok (o :: os, t2)
  end.

Definition id_hash (k : Z) : option Z := Some k.

(* FINDING 1 (statement / harness, not a memory-safety issue): TRemoveReinsert with a closure that
   accepts an element of ANOTHER hash.  Identity hash; key A has tag 2 and home bucket 0, key B has
   tag 3 and home bucket 1 (the tags differ in the lowest bit only and B's control byte sits right
   above A's).  `find_entry(hash A, |e| e.val % 100 == 11)`:
     - portable scanner (generic_backend): match_tag(2) reports A's byte and -- the documented
       false positive -- B's byte; the closure rejects A and accepts B.  B is removed and the
       VacantEntry re-inserts an element with B's id under the hash of A: control byte 2 instead
       of 3.  The table is no longer well-formed for the hash (hash_wf_check = false), and the next
       lawful lookup `find(hash B, id == B)` answers None although B is stored: the reference
       rejects that output.
     - SSE2 scanner: no false positive, the same call finds nothing.
   With a closure that only accepts elements of the queried hash (top_pre) this cannot happen. *)
Definition key_a : Z := 2 * 2 ^ 57.
Definition key_b : Z := 3 * 2 ^ 57 + 1.
Definition unlawful_ops : list tbl_op :=
  [TWithCapacity 3; TInsertUnique key_a 0 10; TInsertUnique key_b 0 11;
   TRemoveReinsert key_a (PValMod 100 11) 7 11].

Example remove_reinsert_unlawful_generic :
  match trun generic_backend id_hash (new_table generic_backend kv) (unlawful_ops ++ [TFind key_b (PId key_b)]) with
  | Ok (os, t) =>
      os = [TOutUnit; TOutUnit; TOutUnit; TOutElem (mkKV key_b 0 11); TOutNone] /\
      occupants kv t = [mkKV key_a 0 10; mkKV key_b 7 11] /\
      firstn 2 (ctrl t) = [2; 2]%Z /\
      hash_wf_check generic_backend kv (fun e => id_hash (k_id e)) t = false /\
      tspec_accepts id_hash (occupants kv t) (TFind key_b (PId key_b)) TOutNone (occupants kv t) = false
  | Fail _ => False
  end.
Proof. vm_compute. repeat split. Qed.

Example remove_reinsert_unlawful_sse2 :
  match trun sse2_backend id_hash (new_table sse2_backend kv) unlawful_ops with
  | Ok (os, t) => os = [TOutUnit; TOutUnit; TOutUnit; TOutNone] /\
                  hash_wf_check sse2_backend kv (fun e => id_hash (k_id e)) t = true
  | Fail _ => False
  end.
Proof. vm_compute. repeat split. Qed.

(* FINDING 2 (statement): the acceptor recovers the pre-image of an element returned by
   get_many_mut as `val - add` in u64 arithmetic; for a stored value outside u64 (here -1, which
   no u64 field can hold) this is not the stored element and the faithful answer is rejected. *)
Example get_many_mut_needs_u64 :
  match trun generic_backend id_hash (new_table generic_backend kv)
             [TWithCapacity 3; TInsertUnique 1 0 (-1); TGetManyMut [(1%Z, PId 1)] 5] with
  | Ok (os, t) =>
      os = [TOutUnit; TOutUnit; TOutOpts [Some (mkKV 1 0 4)]] /\ occupants kv t = [mkKV 1 0 4] /\
      tspec_accepts id_hash [mkKV 1 0 (-1)] (TGetManyMut [(1%Z, PId 1)] 5) (TOutOpts [Some (mkKV 1 0 4)])
                    (occupants kv t) = false
  | Fail _ => False
  end.
Proof. vm_compute. repeat split. Qed.

Print Assumptions remove_reinsert_unlawful_generic.
Print Assumptions remove_reinsert_unlawful_sse2.
Print Assumptions get_many_mut_needs_u64.
