(* GB_Bits.v -- back-end independent facts about BitMask words.

   A BitMask word of stride s over a list of booleans bs is
       bw s bs = sum_i (if bs_i then 2^(s-1) else 0) * 2^(s*i)
   (s = 1: the SSE2 movemask word; s = 8: the portable 0x80-per-byte word).
   We show that the generated BitMask operations (Gen.v: bm_lowest_set_bit,
   bm_remove_lowest_bit, bm_trailing_zeros, bm_leading_zeros, and the iteration bm_iter_fuel of
   Group.v) compute, on such a word, the obvious list functions on bs. *)
From Coq Require Import ZArith List Bool Lia Sorted.
From HB Require Import RsPrelude Sse2 Gen Group.
Import ListNotations.
Open Scope Z_scope.

(* ------------------------------------------------------------------------------------------ *)
(* finite check over all bytes                                                                  *)
(* ------------------------------------------------------------------------------------------ *)
Lemma byte_forall (Q : Z -> bool) :
  forallb Q (map Z.of_nat (seq 0 256)) = true -> forall b, 0 <= b < 256 -> Q b = true.
Proof.
  intros H b Hb. rewrite forallb_forall in H. apply H.
  rewrite in_map_iff. exists (Z.to_nat b). split; [lia|]. apply in_seq. lia.
Qed.

(* ------------------------------------------------------------------------------------------ *)
(* testbit of a + 2^s * x, and byte-local bitwise operations                                    *)
(* ------------------------------------------------------------------------------------------ *)
Lemma testbit_split s a x n : 0 <= s -> 0 <= a < 2 ^ s -> 0 <= n ->
  Z.testbit (a + 2 ^ s * x) n = if n <? s then Z.testbit a n else Z.testbit x (n - s).
Proof.
  intros Hs Ha Hn. destruct (Z.ltb_spec n s).
  - rewrite <- (Z.mod_pow2_bits_low (a + 2 ^ s * x) s n) by lia.
    replace ((a + 2 ^ s * x) mod 2 ^ s) with a; [reflexivity|].
    apply Z.mod_unique with x; lia.
  - replace n with ((n - s) + s) at 1 by lia. rewrite <- Z.div_pow2_bits by lia.
    replace ((a + 2 ^ s * x) / 2 ^ s) with x; [reflexivity|].
    apply Z.div_unique with a; lia.
Qed.

Lemma small_bits_high a s n : 0 <= a < 2 ^ s -> 0 <= s <= n -> Z.testbit a n = false.
Proof.
  intros Ha Hn. rewrite <- (Z.mod_small a (2 ^ s)) by lia. apply Z.mod_pow2_bits_high; lia.
Qed.

Lemma small_of_bits x s : 0 <= s -> 0 <= x ->
  (forall n, s <= n -> Z.testbit x n = false) -> x < 2 ^ s.
Proof.
  intros Hs Hx H.
  assert (E : x mod 2 ^ s = x).
  { apply Z.bits_inj'. intros n Hn. destruct (Z.ltb_spec n s).
    - apply Z.mod_pow2_bits_low; lia.
    - rewrite Z.mod_pow2_bits_high by lia. symmetry; apply H; lia. }
  rewrite <- E. apply Z.mod_pos_bound. apply Z.pow_pos_nonneg; lia.
Qed.

Lemma land_bound a b s : 0 <= s -> 0 <= a < 2 ^ s -> 0 <= b -> 0 <= Z.land a b < 2 ^ s.
Proof.
  intros Hs Ha Hb. split; [apply Z.land_nonneg; lia|].
  apply small_of_bits; [lia|apply Z.land_nonneg; lia|].
  intros n Hn. rewrite Z.land_spec, (small_bits_high a s n) by lia. reflexivity.
Qed.

Lemma lxor_bound a b s : 0 <= s -> 0 <= a < 2 ^ s -> 0 <= b < 2 ^ s -> 0 <= Z.lxor a b < 2 ^ s.
Proof.
  intros Hs Ha Hb. assert (0 <= Z.lxor a b) by (apply Z.lxor_nonneg; lia). split; [assumption|].
  apply small_of_bits; [lia|assumption|].
  intros n Hn. rewrite Z.lxor_spec, (small_bits_high a s n), (small_bits_high b s n) by lia.
  reflexivity.
Qed.

Lemma land_split s a x b y : 0 <= s -> 0 <= a < 2 ^ s -> 0 <= b < 2 ^ s ->
  Z.land (a + 2 ^ s * x) (b + 2 ^ s * y) = Z.land a b + 2 ^ s * Z.land x y.
Proof.
  intros Hs Ha Hb. apply Z.bits_inj'. intros n Hn.
  rewrite Z.land_spec, !testbit_split by (try apply land_bound; lia).
  destruct (n <? s); rewrite Z.land_spec; reflexivity.
Qed.

Lemma lxor_split s a x b y : 0 <= s -> 0 <= a < 2 ^ s -> 0 <= b < 2 ^ s ->
  Z.lxor (a + 2 ^ s * x) (b + 2 ^ s * y) = Z.lxor a b + 2 ^ s * Z.lxor x y.
Proof.
  intros Hs Ha Hb. apply Z.bits_inj'. intros n Hn.
  rewrite Z.lxor_spec, !testbit_split by (try apply lxor_bound; lia).
  destruct (n <? s); rewrite Z.lxor_spec; reflexivity.
Qed.

(* x & (x - 1) clears the lowest set bit *)
Lemma land_clear_lowest m z : 0 <= m -> 0 <= z ->
  Z.land (2 ^ m * (1 + 2 * z)) (2 ^ m * (1 + 2 * z) - 1) = 2 ^ (m + 1) * z.
Proof.
  intros Hm Hz.
  assert (Hp : 0 < 2 ^ m) by (apply Z.pow_pos_nonneg; lia).
  replace (2 ^ m * (1 + 2 * z)) with (0 + 2 ^ m * (1 + 2 * z)) at 1 by lia.
  replace (2 ^ m * (1 + 2 * z) - 1) with ((2 ^ m - 1) + 2 ^ m * (0 + 2 ^ 1 * z))
    by (change (2 ^ 1) with 2; lia).
  rewrite land_split by lia. rewrite Z.land_0_l.
  replace (1 + 2 * z) with (1 + 2 ^ 1 * z) by (change (2 ^ 1) with 2; lia).
  rewrite land_split by (change (2 ^ 1) with 2; lia).
  rewrite Z.land_diag. change (Z.land 1 0) with 0.
  rewrite Z.pow_add_r by lia. lia.
Qed.

(* ------------------------------------------------------------------------------------------ *)
(* trailing_zeros / leading_zeros                                                               *)
(* ------------------------------------------------------------------------------------------ *)
Lemma tz_double w x : 0 < x -> trailing_zeros w (2 * x) = 1 + trailing_zeros w x.
Proof. destruct x; try lia. intros _. reflexivity. Qed.

Lemma tz_odd w x : 0 <= x -> trailing_zeros w (1 + 2 * x) = 0.
Proof. destruct x; try lia; intros _; reflexivity. Qed.

Lemma tz_pow2_mul w m x : 0 <= m -> 0 < x -> trailing_zeros w (2 ^ m * x) = m + trailing_zeros w x.
Proof.
  intros Hm Hx. revert m Hm. apply natlike_ind.
  - rewrite Z.pow_0_r, Z.mul_1_l. lia.
  - intros m Hm IH. rewrite Z.pow_succ_r by lia.
    assert (0 < 2 ^ m) by (apply Z.pow_pos_nonneg; lia).
    rewrite <- Z.mul_assoc, tz_double by nia. lia.
Qed.

Lemma lz_pos w x : 0 < x -> leading_zeros w x = w - (Z.log2 x + 1).
Proof. destruct x; try lia. reflexivity. Qed.

(* ------------------------------------------------------------------------------------------ *)
(* bit-mask words over boolean lists                                                            *)
(* ------------------------------------------------------------------------------------------ *)
Fixpoint bw (s : Z) (bs : list bool) : Z :=
  match bs with
  | [] => 0
  | b :: r => (if b then 2 ^ (s - 1) else 0) + 2 ^ s * bw s r
  end.

(* ascending indices of the true entries, offset by from *)
Fixpoint bidx (from : nat) (bs : list bool) : list nat :=
  match bs with
  | [] => []
  | b :: r => if b then from :: bidx (S from) r else bidx (S from) r
  end.

(* number of leading false entries *)
Fixpoint bpre (bs : list bool) : nat :=
  match bs with
  | false :: r => S (bpre r)
  | _ => O
  end.

Definition P (s : Z) (k : nat) : Z := 2 ^ (s * Z.of_nat k).

Section BW.
  Variable s : Z.
  Hypothesis Hs : 1 <= s.

  Lemma K_top : 2 ^ s = 2 * 2 ^ (s - 1).
  Proof. replace s with (Z.succ (s - 1)) at 1 by lia. rewrite Z.pow_succ_r by lia. reflexivity. Qed.

  Lemma top_pos : 0 < 2 ^ (s - 1).
  Proof. apply Z.pow_pos_nonneg; lia. Qed.

  Lemma P_0 : P s 0 = 1.
  Proof. unfold P. rewrite Z.mul_0_r. reflexivity. Qed.

  Lemma P_S k : P s (S k) = 2 ^ s * P s k.
  Proof.
    unfold P. rewrite Nat2Z.inj_succ.
    replace (s * Z.succ (Z.of_nat k)) with (s + s * Z.of_nat k) by lia.
    rewrite Z.pow_add_r; [reflexivity|lia|apply Z.mul_nonneg_nonneg; lia].
  Qed.

  Lemma P_pos k : 0 < P s k.
  Proof. unfold P. apply Z.pow_pos_nonneg; [lia|apply Z.mul_nonneg_nonneg; lia]. Qed.

  Lemma bw_nonneg bs : 0 <= bw s bs.
  Proof.
    pose proof top_pos. pose proof K_top.
    induction bs as [|b r IH]; cbn [bw]; [lia|]. destruct b; nia.
  Qed.

  Lemma bw_bound bs : bw s bs < P s (length bs).
  Proof.
    pose proof top_pos. pose proof K_top.
    induction bs as [|b r IH]; cbn [bw length]; [rewrite P_0; lia|].
    rewrite P_S. pose proof (bw_nonneg r). destruct b; nia.
  Qed.

  Lemma bw_app bs cs : bw s (bs ++ cs) = bw s bs + P s (length bs) * bw s cs.
  Proof.
    induction bs as [|b r IH]; cbn [bw app length]; [rewrite P_0; lia|].
    rewrite IH, P_S. ring.
  Qed.

  Lemma bw_zero_iff bs : bw s bs = 0 <-> bpre bs = length bs.
  Proof.
    pose proof top_pos. pose proof K_top.
    induction bs as [|b r IH]; cbn [bw bpre length]; [tauto|].
    pose proof (bw_nonneg r). destruct b.
    - split; [nia|discriminate].
    - split; intros; [f_equal; apply IH; nia|]. assert (bw s r = 0) by (apply IH; lia). nia.
  Qed.

  Lemma bpre_le bs : (bpre bs <= length bs)%nat.
  Proof. induction bs as [|[|] r IH]; cbn [bpre length]; lia. Qed.

  (* trailing zeros of a non-zero mask word, shifted up by k positions *)
  Lemma tz_Pbw w bs k : bw s bs <> 0 ->
    trailing_zeros w (P s k * bw s bs) = s * Z.of_nat (k + bpre bs) + (s - 1).
  Proof.
    pose proof top_pos as Ht. pose proof K_top as HK.
    revert k; induction bs as [|b r IH]; intros k Hnz; cbn [bw bpre] in *; [lia|].
    pose proof (bw_nonneg r) as Hr. destruct b.
    - replace (P s k * (2 ^ (s - 1) + 2 ^ s * bw s r))
        with (2 ^ (s * Z.of_nat k + (s - 1)) * (1 + 2 * bw s r)).
      + rewrite tz_pow2_mul by nia. rewrite tz_odd by lia. rewrite Nat.add_0_r. lia.
      + rewrite Z.pow_add_r by nia. unfold P. rewrite HK. ring.
    - assert (bw s r <> 0) by nia.
      replace (P s k * (0 + 2 ^ s * bw s r)) with (P s (S k) * bw s r) by (rewrite P_S; ring).
      rewrite IH by assumption. rewrite <- Nat.add_succ_comm. reflexivity.
  Qed.

  Lemma div_stride i : 0 <= i -> (s * i + (s - 1)) / s = i.
  Proof. intros. symmetry. apply Z.div_unique with (s - 1); lia. Qed.

  Lemma Pbw_pos k bs : bw s bs <> 0 -> 0 < P s k * bw s bs.
  Proof. intros. pose proof (bw_nonneg bs). pose proof (P_pos k). nia. Qed.

  (* ---------------------------------------------------------------------------------------- *)
  (* the generated BitMask operations on bw words                                               *)
  (* ---------------------------------------------------------------------------------------- *)
  Lemma lowest_Pbw w bs k : bw s bs <> 0 ->
    bm_lowest_set_bit w s (P s k * bw s bs) = Some (Z.of_nat (k + bpre bs)).
  Proof.
    intros Hnz. unfold bm_lowest_set_bit, bm_nonzero_trailing_zeros.
    pose proof (Pbw_pos k bs Hnz).
    destruct (Z.eqb_spec (P s k * bw s bs) 0); [lia|].
    rewrite tz_Pbw by assumption. rewrite div_stride by lia. reflexivity.
  Qed.

  Lemma lowest_zero w : bm_lowest_set_bit w s 0 = None.
  Proof. reflexivity. Qed.

  Lemma remove_lowest w k r : P s (S (k + length r)) <= 2 ^ w ->
    bm_remove_lowest_bit w (P s k * bw s (true :: r)) = P s (S k) * bw s r.
  Proof.
    intros Hw. pose proof top_pos as Ht. pose proof K_top as HK.
    unfold bm_remove_lowest_bit, wsub, wrap. cbn [bw].
    pose proof (bw_nonneg r) as Hr. pose proof (bw_bound (true :: r)) as Hb. cbn [bw length] in Hb.
    pose proof (P_pos k) as HP.
    assert (HPP : P s (S (k + length r)) = P s k * P s (S (length r))).
    { unfold P. rewrite <- Z.pow_add_r by (apply Z.mul_nonneg_nonneg; lia). f_equal. lia. }
    set (x := P s k * (2 ^ (s - 1) + 2 ^ s * bw s r)) in *.
    assert (0 < x < 2 ^ w) by (unfold x; nia).
    rewrite Z.mod_small by lia.
    assert (E : x = 2 ^ (s * Z.of_nat k + (s - 1)) * (1 + 2 * bw s r)).
    { unfold x. rewrite Z.pow_add_r by nia. unfold P. rewrite HK. ring. }
    rewrite E, land_clear_lowest by nia.
    replace (s * Z.of_nat k + (s - 1) + 1) with (s + s * Z.of_nat k) by lia.
    rewrite Z.pow_add_r by nia. rewrite P_S. reflexivity.
  Qed.

  Lemma bidx_bpre bs : bw s bs <> 0 ->
    exists r1 r2, bs = r1 ++ true :: r2 /\ length r1 = bpre bs.
  Proof.
    intros H. induction bs as [|b r IH]; cbn [bw] in H; [lia|]. destruct b.
    - exists [], r. split; reflexivity.
    - destruct IH as (r1 & r2 & E & L); [lia|]. exists (false :: r1), r2. cbn [bpre length app].
      split; congruence.
  Qed.
End BW.

(* ------------------------------------------------------------------------------------------ *)
(* bm_iter over a bw word                                                                       *)
(* ------------------------------------------------------------------------------------------ *)
Section Iter.
  Variable B : backend.
  Variable s : Z.
  Variable n : nat.
  Hypothesis Hs : 1 <= s.
  Hypothesis Hstride : bk_stride B = s.
  Hypothesis Hbits : bk_bits B = s * Z.of_nat n.

  Lemma P_mono k : (k <= n)%nat -> P s k <= 2 ^ (bk_bits B).
  Proof.
    intros. rewrite Hbits. unfold P. apply Z.pow_le_mono_r; [lia|]. nia.
  Qed.

  Lemma iter_Pbw : forall r k fuel, (k + length r <= n)%nat -> (length r <= fuel)%nat ->
    bm_iter_fuel B fuel (P s k * bw s r) = bidx k r.
  Proof.
    induction r as [|b r IH]; intros k fuel Hk Hf.
    - cbn [bw bidx]. rewrite Z.mul_0_r. destruct fuel; reflexivity.
    - cbn [length] in *. destruct fuel as [|f]; [lia|]. destruct b.
      + cbn [bm_iter_fuel bidx]. rewrite Hstride.
        assert (Hnz : bw s (true :: r) <> 0).
        { cbn [bw]. pose proof (bw_nonneg s Hs r). pose proof (top_pos s Hs).
          pose proof (K_top s Hs). nia. }
        rewrite (lowest_Pbw s Hs _ _ k Hnz). cbn [bpre]. rewrite Nat.add_0_r, Nat2Z.id.
        rewrite remove_lowest by (try apply P_mono; lia).
        rewrite IH by lia. reflexivity.
      + cbn [bw bidx]. replace (P s k * (0 + 2 ^ s * bw s r)) with (P s (S k) * bw s r)
          by (rewrite P_S by lia; ring).
        apply IH; lia.
  Qed.

  Lemma iter_bw bs : length bs = n -> bm_iter_fuel B (Z.to_nat (bk_bits B)) (bw s bs) = bidx 0 bs.
  Proof.
    intros L. replace (bw s bs) with (P s 0 * bw s bs) by (rewrite P_0; lia).
    apply iter_Pbw; [lia|]. rewrite Hbits. nia.
  Qed.

  Lemma lowest_bw bs :
    option_map Z.to_nat (bm_lowest_set_bit (bk_bits B) (bk_stride B) (bw s bs))
    = if Z.eqb (bw s bs) 0 then None else Some (bpre bs).
  Proof.
    rewrite Hstride. destruct (Z.eqb_spec (bw s bs) 0) as [E|E].
    - rewrite E. reflexivity.
    - replace (bw s bs) with (P s 0 * bw s bs) by (rewrite P_0; lia).
      rewrite lowest_Pbw by assumption. cbn [option_map]. rewrite Nat2Z.id. reflexivity.
  Qed.

  Lemma tz_bw bs : length bs = n ->
    Z.to_nat (bm_trailing_zeros (bk_bits B) (bk_stride B) (bw s bs)) = bpre bs.
  Proof.
    intros L. unfold bm_trailing_zeros. rewrite Hstride.
    destruct (Z.eq_dec (bw s bs) 0) as [E|E].
    - rewrite E. cbn [trailing_zeros]. rewrite Hbits, Z.mul_comm, Z.div_mul by lia.
      apply (bw_zero_iff s Hs) in E. lia.
    - replace (bw s bs) with (P s 0 * bw s bs) by (rewrite P_0; lia).
      rewrite tz_Pbw by assumption. rewrite div_stride by lia. lia.
  Qed.

  Lemma lz_bw_gen bs : (length bs <= n)%nat ->
    leading_zeros (bk_bits B) (bw s bs) / s = Z.of_nat ((n - length bs) + bpre (rev bs)).
  Proof.
    pose proof (top_pos s Hs) as Ht. pose proof (K_top s Hs) as HK.
    induction bs as [|b r IH] using rev_ind; intros L.
    - cbn [bw leading_zeros length rev bpre]. rewrite Hbits, Z.mul_comm, Z.div_mul by lia. lia.
    - rewrite app_length in L. cbn [length] in L. rewrite bw_app by assumption.
      rewrite rev_app_distr. cbn [rev app bw]. rewrite Z.mul_0_r, Z.add_0_r. destruct b.
      + cbn [bpre]. pose proof (bw_nonneg s Hs r) as Hr. pose proof (bw_bound s Hs r) as Hb.
        pose proof (P_pos s Hs (length r)) as HP.
        set (m := Z.of_nat (length r)) in *.
        assert (HPm : P s (length r) = 2 ^ (s * m)) by reflexivity.
        set (x := bw s r + P s (length r) * 2 ^ (s - 1)).
        assert (Hlog : Z.log2 x = s * m + (s - 1)).
        { apply Z.log2_unique; [nia|].
          rewrite Z.pow_succ_r by nia. rewrite !Z.pow_add_r by nia. rewrite <- HPm. unfold x. nia. }
        rewrite lz_pos by (unfold x; nia). rewrite Hlog, Hbits.
        rewrite app_length. cbn [length].
        replace (s * Z.of_nat n - (s * m + (s - 1) + 1)) with ((Z.of_nat n - m - 1) * s) by lia.
        rewrite Z.div_mul by lia. lia.
      + rewrite Z.mul_0_r, Z.add_0_r. cbn [bpre]. rewrite IH by lia. rewrite app_length. cbn [length]. lia.
  Qed.

  Lemma lz_bw bs : length bs = n ->
    Z.to_nat (bm_leading_zeros (bk_bits B) (bk_stride B) (bw s bs)) = bpre (rev bs).
  Proof.
    intros L. unfold bm_leading_zeros. rewrite Hstride, lz_bw_gen by lia. lia.
  Qed.
End Iter.

(* ------------------------------------------------------------------------------------------ *)
(* bidx / bpre versus the byte-wise reference functions of Group.v                              *)
(* ------------------------------------------------------------------------------------------ *)
Lemma indices_from_map p from g : indices_from p from g = bidx from (map p g).
Proof.
  revert from; induction g as [|b r IH]; intros from; cbn [indices_from bidx map]; [reflexivity|].
  rewrite IH. reflexivity.
Qed.

Lemma indices_map p g : indices p g = bidx 0 (map p g).
Proof. apply indices_from_map. Qed.

Lemma prefix_len_map p g : prefix_len (fun b => negb (p b)) g = bpre (map p g).
Proof.
  induction g as [|b r IH]; cbn [prefix_len bpre map]; [reflexivity|].
  destruct (p b); cbn [negb]; congruence.
Qed.

Lemma first_from_map s (Hs : 1 <= s) p from g :
  first_from p from g = if Z.eqb (bw s (map p g)) 0 then None else Some (from + bpre (map p g))%nat.
Proof.
  pose proof (top_pos s Hs). pose proof (K_top s Hs).
  revert from; induction g as [|b r IH]; intros from; cbn [first_from map bw bpre]; [reflexivity|].
  pose proof (bw_nonneg s Hs (map p r)).
  destruct (p b).
  - destruct (Z.eqb_spec (2 ^ (s - 1) + 2 ^ s * bw s (map p r)) 0); [nia|]. f_equal; lia.
  - rewrite IH. destruct (Z.eqb_spec (bw s (map p r)) 0) as [E|E];
      destruct (Z.eqb_spec (0 + 2 ^ s * bw s (map p r)) 0); try nia; try reflexivity.
    f_equal; lia.
Qed.

Lemma existsb_map s (Hs : 1 <= s) (p : Z -> bool) g : negb (Z.eqb (bw s (map p g)) 0) = existsb p g.
Proof.
  pose proof (top_pos s Hs). pose proof (K_top s Hs).
  induction g as [|b r IH]; cbn [existsb map bw]; [reflexivity|].
  pose proof (bw_nonneg s Hs (map p r)).
  destruct (p b); cbn [orb].
  - destruct (Z.eqb_spec (2 ^ (s - 1) + 2 ^ s * bw s (map p r)) 0); [nia|reflexivity].
  - rewrite <- IH. destruct (Z.eqb_spec (bw s (map p r)) 0);
      destruct (Z.eqb_spec (0 + 2 ^ s * bw s (map p r)) 0); try nia; reflexivity.
Qed.

Lemma rev_map_comm {A C} (f : A -> C) l : rev (map f l) = map f (rev l).
Proof. symmetry; apply map_rev. Qed.

(* ------------------------------------------------------------------------------------------ *)
(* generic facts about bidx                                                                     *)
(* ------------------------------------------------------------------------------------------ *)
Lemma bidx_In from bs j :
  In j (bidx from bs) <-> (from <= j < from + length bs)%nat /\ nth (j - from) bs false = true.
Proof.
  revert from; induction bs as [|b r IH]; intros from; cbn [bidx length].
  - cbn [In]. split; [tauto|]. intros [? _]. lia.
  - assert (Hr : In j (bidx (S from) r) <->
              (from < j < S from + length r)%nat /\ nth (j - from) (b :: r) false = true).
    { rewrite IH. split; intros [H1 H2]; (split; [lia|]).
      - replace (j - from)%nat with (S (j - S from)) by lia. exact H2.
      - replace (j - from)%nat with (S (j - S from)) in H2 by lia. exact H2. }
    destruct b.
    + cbn [In]. rewrite Hr. split.
      * intros [E | [H1 H2]]; [subst; rewrite Nat.sub_diag; split; [lia|reflexivity]|split; [lia|assumption]].
      * intros [H1 H2]. destruct (Nat.eq_dec from j); [left; assumption|right; split; [lia|assumption]].
    + rewrite Hr. split; intros [H1 H2]; (split; [|assumption]); [lia|].
      destruct (Nat.eq_dec from j); [|lia]. subst. rewrite Nat.sub_diag in H2. discriminate.
Qed.

Lemma bidx_sorted from bs : StronglySorted lt (bidx from bs).
Proof.
  revert from; induction bs as [|b r IH]; intros from; cbn [bidx]; [constructor|].
  destruct b; [|apply IH]. constructor; [apply IH|].
  apply Forall_forall. intros j Hj. apply bidx_In in Hj. lia.
Qed.
