(* ResizeFacts.v -- resize_inner (the growing / shrinking rehash into a new allocation).

   For a SafeWF table t (the singleton or an allocated one) and items t <= cap < 2^64:

     R1  resize_inner never returns a Fail other than the panic / abort of the Infallible mode;
         otherwise the result is one of
           (a) an error code: the table is untouched, nothing is allocated, freed or dropped;
           (b) unwound = true (some occupant's hasher panics): the table is untouched, the new
               block is allocated and freed again by the guard;
           (c) success: the new table is SafeWF, holds the same elements, has capacity >= cap,
               holds no DELETED byte; one allocation (none for cap = 0), and the old block (if
               any) is freed with its own layout.
     R2  in case (c) the new table is WF for the hasher (Tags and Reach).

   The loop moves the elements one by one with prepare_insert_slot + slot_write, which do not
   touch the counters: the intermediate new tables are not SafeWF.  None of the primitives used
   looks at the counters, so every step is transported to the table with corrected counters
   (with_counts), where it is insert_in_slot.  No axioms. *)
From Coq Require Import ZArith List Bool Lia Permutation.
From HB Require Import RsPrelude Sse2 Gen Group Raw Check ArithFacts Triangular WFDefs GroupFacts
  ProbeFacts IterFacts SafeInsertErase SafeAllocClear FindFacts.
Import ListNotations.
Open Scope nat_scope.

Section Resize.
  Variable B : backend.
  Variable T : Type.
  Hypothesis HW : WidthOK B.
  Hypothesis HB : BackendSpec B.

  Variable tsize talign : Z.
  Hypothesis Hts : (0 <= tsize < 2 ^ 64)%Z.
  Hypothesis Hta : exists a : Z, (0 <= a <= 62)%Z /\ talign = (2 ^ a)%Z.

  Variable hasher : T -> option Z.

  Local Notation GW := (bk_width B).

  (* ---------------------------------------------------------------------------------------- *)
  (* the primitives of the loop do not look at the counters                                     *)
  (* ---------------------------------------------------------------------------------------- *)
  Lemma fis_loop_ext (t t' : table T) : mask t' = mask t -> ctrl t' = ctrl t ->
    forall n pos stride,
      find_insert_slot_loop B T n t' pos stride = find_insert_slot_loop B T n t pos stride.
  Proof.
    intros Em Ec. induction n as [|n IH]; intros pos stride; [reflexivity|].
    cbn [find_insert_slot_loop].
    unfold load, find_insert_slot_in_group, fix_insert_slot, is_bucket_full, ctrl_at, load_aligned, load.
    rewrite Em, Ec.
    destruct (pos + GW <=? length (ctrl t)); cbn [bind]; [|reflexivity].
    destruct (g_lowest_eod B (firstn GW (skipn pos (ctrl t)))); [reflexivity|].
    destruct (n_move_next GW (mask t) pos stride) as [p' s']. apply IH.
  Qed.

  Lemma find_insert_slot_counts (nt : table T) a b hash :
    find_insert_slot B T (with_counts T nt a b) hash = find_insert_slot B T nt hash.
  Proof. unfold find_insert_slot. apply fis_loop_ext; reflexivity. Qed.

  Lemma reach_loop_ext (t t' : table T) : mask t' = mask t -> ctrl t' = ctrl t ->
    forall n i pos stride, reach_loop B T n t' i pos stride = reach_loop B T n t i pos stride.
  Proof.
    intros Em Ec. induction n as [|n IH]; intros i pos stride; [reflexivity|].
    cbn [reach_loop]. unfold load, buckets. rewrite Em, Ec.
    destruct ((i + S (mask t) - pos) mod S (mask t) <? GW); [reflexivity|].
    destruct (pos + GW <=? length (ctrl t)); [|reflexivity].
    destruct (g_any_empty B (firstn GW (skipn pos (ctrl t)))); [reflexivity|].
    destruct (n_move_next GW (mask t) pos stride) as [p' s']. apply IH.
  Qed.

  Lemma reach_ok_counts (nt : table T) a b hash i :
    reach_ok B T (with_counts T nt a b) hash i = reach_ok B T nt hash i.
  Proof. unfold reach_ok. apply reach_loop_ext; reflexivity. Qed.

  Lemma Reach_counts h (nt : table T) a b : Reach B T h (with_counts T nt a b) <-> Reach B T h nt.
  Proof.
    unfold Reach. split; intros H i e hash Hi He Hh.
    - rewrite <- (reach_ok_counts nt a b). exact (H i e hash Hi He Hh).
    - rewrite reach_ok_counts. exact (H i e hash Hi He Hh).
  Qed.

  (* insert_in_slot on the table with corrected counters is set_ctrl_hash + slot_write on the
     table itself *)
  Lemma insert_in_slot_counts (nt : table T) a b hash s e t' :
    insert_in_slot B T (with_counts T nt a b) hash s e = Ok t' ->
    exists old nt1 nt2,
      ctrl_at T nt s = Ok old /\ set_ctrl_hash B T nt s hash = Ok nt1 /\ slot_write T nt1 s e = Ok nt2 /\
      t' = with_counts T nt2 (items t') (growth_left t') /\
      items nt2 = items nt /\ growth_left nt2 = growth_left nt.
  Proof.
    unfold insert_in_slot, record_item_insert_at, set_ctrl_hash, set_ctrl, slot_write, ctrl_at, is_singleton.
    cbn [with_counts mask ctrl slots items growth_left].
    destruct (nth_error (ctrl nt) s) as [old|]; cbn [bind]; [|discriminate].
    destruct (Gen.record_item_insert_at b a 0 0 0 (tag_special_is_empty old)) as [g i].
    destruct (mask nt =? 0) eqn:Em; cbn [bind]; [discriminate|].
    destruct ((s <? length (ctrl nt)) && (n_index2 GW (mask nt) s <? length (ctrl nt))); cbn [bind]; [|discriminate].
    unfold with_ctrl, with_counts, buckets. cbn [mask ctrl slots items growth_left].
    destruct (s <? S (mask nt)); [|discriminate].
    rewrite Em.
    destruct (s <? length (slots nt)) eqn:El; [|discriminate].
    intros H. injection H as <-.
    eexists _, _, _. split; [reflexivity|]. split; [reflexivity|].
    cbn [mask ctrl slots items growth_left]. rewrite Em, El.
    split; [reflexivity|].
    unfold with_slots. cbn [mask ctrl slots items growth_left]. repeat split.
  Qed.

  (* ---------------------------------------------------------------------------------------- *)
  (* one iteration                                                                              *)
  (* ---------------------------------------------------------------------------------------- *)
  Definition NoDel (t : table T) : Prop := forall j, j < nb T t -> byte T t j <> DELETED.

  (* the invariant of the new table: with the counters a, b it is a well-formed table without
     DELETED bytes *)
  Definition NewInv (nt : table T) (a b : Z) : Prop :=
    SafeWF B T (with_counts T nt a b) /\ mask nt <> 0 /\ NoDel nt /\
    Tags T hasher nt /\ Reach B T hasher nt.

  Lemma move_step nt a b hash e :
    NewInv nt a b -> (0 < b)%Z -> hasher e = Some hash ->
    exists s old nt1 nt2,
      prepare_insert_slot B T nt hash = Ok (s, old, nt1) /\ slot_write T nt1 s e = Ok nt2 /\
      NewInv nt2 (a + 1) (b - 1) /\ mask nt2 = mask nt /\
      items nt2 = items nt /\ growth_left nt2 = growth_left nt /\
      Permutation (occupants T nt2) (e :: occupants T nt).
  Proof.
    intros (Hsafe & Hm & Hnd & HT & HR) Hb Hh.
    apply (Reach_counts hasher nt a b) in HR.
    set (c := with_counts T nt a b) in *.
    assert (Hmc : mask c <> 0) by exact Hm.
    destruct (SafeWF_alloc B T c Hsafe Hmc) as (HS & HM & HC).
    destruct (find_insert_slot_terminates B T HW HB c HS HM HC hash) as (s & Efis & Hs & Hsp).
    assert (Hemp : byte T c s = EMPTY).
    { destruct (special_cases _ (byte_valid B T c s HS ltac:(lia)) Hsp) as [E|E]; [exact E|].
      exfalso. exact (Hnd s Hs E). }
    destruct (insert_in_slot_safe B T HW c s hash e Hsafe Hmc Hs Hsp (fun _ => Hb))
      as (c' & Eins & Hsafe' & Em' & Eit' & Ebs & Ess & Hoth & Egl' & Hperm).
    rewrite Hemp in Egl'. change (is_empty EMPTY) with true in Egl'. cbv iota in Egl'.
    destruct (insert_in_slot_counts nt a b hash s e c' Eins)
      as (old & nt1 & nt2 & Eold & Eset & Ewr & Ec' & Eit2 & Egl2).
    change (items c) with a in Eit'. change (growth_left c) with b in Egl'.
    rewrite Eit', Egl' in Ec'.
    assert (Em2 : mask nt2 = mask nt) by (rewrite Ec' in Em'; exact Em').
    exists s, old, nt1, nt2.
    split.
    { unfold prepare_insert_slot. rewrite <- (find_insert_slot_counts nt a b hash). fold c.
      rewrite Efis. cbn [bind]. rewrite Eold. cbn [bind]. rewrite Eset. reflexivity. }
    split; [exact Ewr|].
    assert (Hmc' : mask c' <> 0) by (rewrite Em'; exact Hmc).
    destruct (SafeWF_alloc B T c' Hsafe' Hmc') as (HS' & HM' & HC').
    assert (Hnb' : nb T c' = nb T c) by (unfold nb, buckets; rewrite Em'; reflexivity).
    assert (Hfull : is_full (byte T c' s) = true) by (rewrite Ebs; apply tag_full_is_full).
    split; [|split; [exact Em2|split; [exact Eit2|split; [exact Egl2|]]]].
    2:{ rewrite Ec' in Hperm. exact Hperm. }
    unfold NewInv.
    split; [rewrite <- Ec'; exact Hsafe'|].
    split; [rewrite Em2; exact Hm|].
    (* from here on the statements do not mention the counters: state them on c' *)
    assert (Hnd' : NoDel c').
    { intros j Hj Ej. rewrite Hnb' in Hj. destruct (Nat.eq_dec j s) as [->|Hne].
      - rewrite Ej in Hfull. discriminate Hfull.
      - rewrite (proj1 (Hoth j Hj Hne)) in Ej. exact (Hnd j Hj Ej). }
    assert (HT' : Tags T hasher c').
    { intros i x hx Hi Hx Hhx. rewrite Hnb' in Hi. destruct (Nat.eq_dec i s) as [->|Hne].
      - rewrite Ess in Hx. injection Hx as <-. rewrite Hh in Hhx. injection Hhx as <-. exact Ebs.
      - destruct (Hoth i Hi Hne) as [Eb Es]. rewrite Eb. rewrite Es in Hx.
        exact (HT i x hx Hi Hx Hhx). }
    assert (HR' : Reach B T hasher c').
    { intros i x hx Hi Hx Hhx. rewrite Hnb' in Hi. destruct (Nat.eq_dec i s) as [->|Hne].
      - rewrite Ess in Hx. injection Hx as <-. rewrite Hh in Hhx. injection Hhx as <-.
        apply (insert_slot_reach B T HB c Hmc hash s c' Hsafe Efis).
        split; [exact Em'|]. split; [exact HS'|]. split; [exact HM'|]. split; [exact Hfull|].
        intros j Hj Hne. exact (proj1 (Hoth j Hj Hne)).
      - destruct (Hoth i Hi Hne) as [Eb Es]. rewrite Es in Hx.
        apply (reach_ok_mono B T HB c c' hx i HS HM); [|exact (HR i x hx Hi Hx Hhx)].
        split; [exact Em'|]. split; [exact HS'|]. split; [exact HM'|].
        intros j Hj Ej. destruct (Nat.eq_dec j s) as [->|Hnej].
        + rewrite Ej in Hfull. discriminate Hfull.
        + rewrite (proj1 (Hoth j Hj Hnej)) in Ej. exact Ej. }
    rewrite Ec' in Hnd', HT', HR'. apply Reach_counts in HR'.
    split; [exact Hnd'|]. split; [exact HT'|exact HR'].
  Qed.

  (* ---------------------------------------------------------------------------------------- *)
  (* the loop                                                                                   *)
  (* ---------------------------------------------------------------------------------------- *)
  (* the elements of t found at the indices idx, in that order *)
  Definition moved (t : table T) (idx : list nat) : list T :=
    flat_map (fun i => SafeAllocClear.opt_list (nth i (slots t) None)) idx.

  Lemma zn_length_cons {A} (x : A) l : zn (length (x :: l)) = (1 + zn (length l))%Z.
  Proof. unfold zn. cbn [length]. lia. Qed.

  Lemma resize_loop_spec (t : table T) : forall idx nt a b,
    NewInv nt a b -> (zn (length idx) <= b)%Z ->
    (forall i, In i idx -> exists e, slot_ref T t i = Ok e /\ nth i (slots t) None = Some e) ->
    exists r, resize_loop B T hasher t nt idx = Ok r /\
      match r with
      | None => exists e, In e (moved t idx) /\ hasher e = None
      | Some nt' =>
          (forall e, In e (moved t idx) -> hasher e <> None) /\
          NewInv nt' (a + zn (length idx)) (b - zn (length idx)) /\
          mask nt' = mask nt /\ items nt' = items nt /\ growth_left nt' = growth_left nt /\
          Permutation (occupants T nt') (moved t idx ++ occupants T nt)
      end.
  Proof.
    induction idx as [|i r IH]; intros nt a b Hinv Hlen Hidx.
    - exists (Some nt). split; [reflexivity|].
      split; [intros e []|].
      replace (a + zn (length (@nil nat)))%Z with a by (unfold zn; cbn [length]; lia).
      replace (b - zn (length (@nil nat)))%Z with b by (unfold zn; cbn [length]; lia).
      split; [exact Hinv|]. repeat (split; [reflexivity|]). apply Permutation_refl.
    - rewrite zn_length_cons in Hlen.
      destruct (Hidx i (or_introl eq_refl)) as (e & Eref & Enth).
      cbn [resize_loop]. unfold hash_at. rewrite Eref. cbn [bind].
      assert (Emv : moved t (i :: r) = e :: moved t r).
      { unfold moved. cbn [flat_map]. rewrite Enth. reflexivity. }
      destruct (hasher e) as [hash|] eqn:Eh.
      + destruct (move_step nt a b hash e Hinv ltac:(unfold zn in *; lia) Eh)
          as (s & old & nt1 & nt2 & Eprep & Ewr & Hinv2 & Em2 & Eit2 & Egl2 & Hperm2).
        rewrite Eprep. cbn [bind]. rewrite Ewr. cbn [bind].
        destruct (IH nt2 (a + 1)%Z (b - 1)%Z Hinv2 ltac:(lia)
                    (fun j Hj => Hidx j (or_intror Hj))) as (r0 & Er0 & Hr0).
        exists r0. split; [exact Er0|].
        destruct r0 as [nt'|].
        * destruct Hr0 as (Hall & Hinv' & Em' & Eit' & Egl' & Hperm').
          split.
          { intros x Hx. rewrite Emv in Hx. destruct Hx as [<-|Hx]; [congruence|exact (Hall x Hx)]. }
          rewrite zn_length_cons.
          replace (a + (1 + zn (length r)))%Z with (a + 1 + zn (length r))%Z by lia.
          replace (b - (1 + zn (length r)))%Z with (b - 1 - zn (length r))%Z by lia.
          split; [exact Hinv'|]. split; [congruence|]. split; [congruence|]. split; [congruence|].
          rewrite Emv. etransitivity; [exact Hperm'|].
          cbn [app]. etransitivity; [apply Permutation_app_head; exact Hperm2|].
          symmetry. apply Permutation_middle.
        * destruct Hr0 as (x & Hx & Ex). exists x. split; [rewrite Emv; right; exact Hx|exact Ex].
      + exists None. split; [reflexivity|]. exists e. split; [rewrite Emv; left; reflexivity|exact Eh].
  Qed.

  (* ---------------------------------------------------------------------------------------- *)
  (* small facts about the two tables                                                           *)
  (* ---------------------------------------------------------------------------------------- *)
  Lemma SafeWF_slots_length (t : table T) : SafeWF B T t -> length (slots t) = nb T t.
  Proof.
    intros H. destruct (Nat.eq_dec (mask t) 0) as [E|E].
    - unfold SafeWF in H. rewrite E in H. cbn in H. subst t. reflexivity.
    - destruct (SafeWF_alloc B T t H E) as ((_ & _ & Hl & _) & _). exact Hl.
  Qed.

  Lemma WF_no_occupants h (t : table T) : SafeWF B T t -> occupants T t = [] -> WF B T h t.
  Proof.
    intros H Ho.
    assert (Hnone : forall i e, i < nb T t -> slot T t i = Some e -> False).
    { intros i e Hi He. assert (Hin : In e (occupants T t)).
      { apply occupants_In. exists i. split; [rewrite (SafeWF_slots_length t H); exact Hi|exact He]. }
      rewrite Ho in Hin. exact Hin. }
    split; [exact H|]. split; intros i e hash Hi He _; exfalso; exact (Hnone i e Hi He).
  Qed.

  Lemma NoDel_count (t : table T) : Shape B T t -> NoDel t -> count_p is_deleted (real_ctrl T t) = 0.
  Proof.
    intros HS Hnd. destruct (Nat.eq_dec (count_p is_deleted (real_ctrl T t)) 0) as [E|E]; [exact E|].
    exfalso. destruct (count_pos_exists is_deleted (real_ctrl T t) ltac:(lia)) as (i & Hi & Hp).
    rewrite (real_ctrl_length B T t HS) in Hi. rewrite (real_ctrl_nth B T t i 0%Z Hi HS) in Hp.
    apply Z.eqb_eq in Hp. exact (Hnd i Hi Hp).
  Qed.

  (* the occupants of t can be read through slot_ref at the indices of full_list *)
  Lemma full_list_readable (t : table T) : SafeWF B T t ->
    forall i, In i (full_list t) -> exists e, slot_ref T t i = Ok e /\ nth i (slots t) None = Some e.
  Proof.
    intros H i Hi. destruct (Nat.eq_dec (mask t) 0) as [E|E].
    - exfalso. unfold SafeWF in H. rewrite E in H. cbn in H. subst t.
      rewrite (proj2 (items_singleton B T HW)) in Hi. exact Hi.
    - destruct (SafeWF_alloc B T t H E) as (HS & _ & HC).
      unfold full_list in Hi. apply filter_In in Hi. destruct Hi as [Hi Hf]. apply in_seq in Hi.
      destruct (full_slot_some T t i HC ltac:(lia) Hf) as (e & He).
      exists e. split; [|exact He].
      apply slot_ref_ok; [exact E| |exact He]. rewrite (SafeWF_slots_length t H). lia.
  Qed.

  (* the deallocation of the old block *)
  Definition FreeOld (t : table T) (fr : list (event T)) : Prop :=
    (mask t = 0 /\ fr = []) \/
    (mask t <> 0 /\ exists len0 al0 off0,
       layout_for B tsize talign (nb T t) = Some (len0, al0, off0) /\
       fr = [EvFree len0 al0] /\ ValidLayout len0 al0).

  Lemma free_old (t : table T) : SafeWF B T t -> (mask t = 0 \/ Allocated B T tsize talign t) ->
    exists fr, (if is_singleton T t then Ok [] else free_buckets B T tsize talign t) = Ok fr /\ FreeOld t fr.
  Proof.
    intros H HA. unfold is_singleton. destruct (Nat.eqb_spec (mask t) 0) as [E|E].
    - exists []. split; [reflexivity|]. left. split; [exact E|reflexivity].
    - destruct HA as [|(_ & len & al & off & El)]; [contradiction|].
      destruct (SafeWF_alloc B T t H E) as (HS & _).
      exists [EvFree len al]. split; [exact (proj1 (free_buckets_ok B T tsize talign t len al off E El))|].
      right. split; [exact E|]. exists len, al, off. split; [exact El|]. split; [reflexivity|].
      exact (allocated_layout_valid B T HW tsize talign Hts Hta t len al off HS El).
  Qed.

  (* ---------------------------------------------------------------------------------------- *)
  (* R1 + R2: the complete case analysis of the result                                          *)
  (* ---------------------------------------------------------------------------------------- *)
  (* how the new block came to be *)
  Definition AllocNew (cap : Z) (alloc_refuses : bool) (t' : table T) (evs : list (event T)) : Prop :=
    (cap = 0%Z /\ t' = new_table B T /\ evs = []) \/
    (cap <> 0%Z /\ alloc_refuses = false /\ Allocated B T tsize talign t' /\
     ctb B tsize talign cap = Some (zn (nb T t')) /\
     exists len al off, layout_for B tsize talign (nb T t') = Some (len, al, off) /\
       evs = [EvAlloc len al] /\ ValidLayout len al).

  Definition resize_post (t : table T) (cap : Z) (alloc_refuses : bool) (f : fallibility)
             (r : res (table T * list (event T) * try_result * bool)) : Prop :=
    match r with
    | Ok (t', evs, TR_ok, false) =>                                  (* (c) success *)
        (forall e, In e (occupants T t) -> hasher e <> None) /\
        WF B T hasher t' /\ Permutation (occupants T t') (occupants T t) /\ items t' = items t /\
        (cap <= capacity T t')%Z /\ NoDel t' /\ growth_left t' = (z_cap (mask t') - items t)%Z /\
        exists alloc_evs free_evs, evs = alloc_evs ++ free_evs /\
          AllocNew cap alloc_refuses t' alloc_evs /\ FreeOld t free_evs
    | Ok (t', evs, TR_ok, true) =>                                   (* (b) the hasher panicked *)
        t' = t /\ (exists e, In e (occupants T t) /\ hasher e = None) /\
        cap <> 0%Z /\ alloc_refuses = false /\
        exists len al, evs = [EvAlloc len al; EvFree len al] /\ ValidLayout len al
    | Ok (t', evs, TR_capacity_overflow, unw) =>                     (* (a) *)
        unw = false /\ t' = t /\ evs = [] /\ f = Fallible /\ overflow_cond B tsize talign cap
    | Ok (t', evs, TR_alloc_error len al, unw) =>                    (* (a) *)
        unw = false /\ t' = t /\ evs = [] /\ f = Fallible /\ alloc_refuses = true /\
        alloc_fail_cond B tsize talign cap len al /\ ValidLayout len al
    | Fail PanicCapacityOverflow => f = Infallible /\ overflow_cond B tsize talign cap
    | Fail AbortAlloc =>
        f = Infallible /\ alloc_refuses = true /\
        exists len al, alloc_fail_cond B tsize talign cap len al /\ ValidLayout len al
    | Fail _ => False
    end.

  Theorem resize_inner_spec (t : table T) cap alloc_refuses f :
    SafeWF B T t -> (mask t = 0 \/ Allocated B T tsize talign t) ->
    (items t <= cap < 2 ^ 64)%Z ->
    resize_post t cap alloc_refuses f
      (resize_inner B T tsize talign hasher t cap alloc_refuses f).
  Proof.
    intros Hsafe HA Hcap.
    destruct (safe_counts B T t Hsafe) as (Hi0 & Hg0 & Hsum & Hcapnb & Hnb62).
    pose proof (fallible_with_capacity_spec B T HW tsize talign Hts Hta cap alloc_refuses f ltac:(lia)) as Hpost.
    unfold resize_inner.
    destruct (fallible_with_capacity B T tsize talign cap alloc_refuses f) as [[[[nt|] evs] tr]|er];
      cbn [bind].
    - (* a new table *)
      destruct tr; cbn [fwc_post] in Hpost; try contradiction.
      destruct Hpost as (Hs & Hit & Hocc & Hcapgl & _ & Hbytes & Hhow).
      rewrite (full_buckets_indices_exact B T HW HB t Hsafe). cbn [bind].
      pose proof (items_full_list B T HW t Hsafe) as Hlen.
      destruct (free_old t Hsafe HA) as (fr & Efr & Hfr).
      destruct Hhow as [(-> & -> & ->) | (Hnz & Har & HAl & Hctb & len & al & off & El & -> & Hv)].
      + (* cap = 0: nothing to move, the new table is the singleton *)
        assert (Hit0 : items t = 0%Z) by lia.
        destruct (full_list t) as [|x l]; [|cbn [length] in Hlen; lia].
        cbn [resize_loop bind]. rewrite Efr. cbn [bind]. rewrite Hit0.
        change (with_counts T (new_table B T) 0 (wsub 64 (growth_left (new_table B T)) 0))
          with (new_table B T).
        cbn [resize_post].
        pose proof (occupants_items0 B T HW t Hsafe Hit0) as Ho. rewrite Ho.
        split; [intros e []|].
        split; [apply WF_no_occupants; reflexivity|].
        split; [apply Permutation_refl|]. split; [symmetry; exact Hit0|]. split; [cbv; discriminate|].
        split; [intros j Hj; rewrite (new_table_bytes_empty B T HW j Hj); cbv; discriminate|].
        split; [rewrite Hit0; reflexivity|].
        exists [], fr. split; [reflexivity|]. split; [|exact Hfr].
        left. repeat split.
      + (* a fresh allocation *)
        pose proof HAl as (Hmnt & _).
        destruct (SafeWF_alloc B T nt Hs Hmnt) as (HSn & HMn & HCn).
        destruct (safe_counts B T nt Hs) as (_ & _ & Hsumn & Hcapnbn & Hnbn62).
        assert (Ent : with_counts T nt 0 (growth_left nt) = nt).
        { clear - Hit. destruct nt as [m c sl i g]. cbn [items] in Hit. subst i. reflexivity. }
        assert (Hndn : NoDel nt).
        { intros j Hj. rewrite (Hbytes j Hj). cbv. discriminate. }
        assert (Hnone : forall i e, i < nb T nt -> slot T nt i = Some e -> False).
        { intros i e Hi He. assert (Hin : In e (occupants T nt)).
          { apply occupants_In. exists i. split; [rewrite (SafeWF_slots_length nt Hs); exact Hi|exact He]. }
          rewrite Hocc in Hin. exact Hin. }
        assert (Hinv : NewInv nt 0 (growth_left nt)).
        { split; [rewrite Ent; exact Hs|]. split; [exact Hmnt|]. split; [exact Hndn|].
          split; intros i e hash Hi He _; exfalso; exact (Hnone i e Hi He). }
        assert (Hglcap : growth_left nt = z_cap (mask nt)).
        { destruct HCn as (_ & Hc & _). rewrite Hit, (NoDel_count nt HSn Hndn) in Hc.
          unfold zn in Hc. cbn in Hc. lia. }
        destruct (resize_loop_spec t (full_list t) nt 0%Z (growth_left nt) Hinv
                    ltac:(unfold zn; lia) (full_list_readable t Hsafe)) as (r & Er & Hr).
        rewrite Er. cbn [bind].
        assert (Emoved : moved t (full_list t) = occupants T t).
        { symmetry. apply (occupants_full_list B T HW t Hsafe). }
        rewrite Emoved in Hr.
        assert (Esing : is_singleton T nt = false) by (apply Nat.eqb_neq; exact Hmnt).
        destruct r as [nt'|].
        * (* every element moved *)
          destruct Hr as (Hall & Hinv' & Em' & Eit' & Egl' & Hperm').
          rewrite Efr. cbn [bind]. cbn [resize_post].
          rewrite Egl'.
          assert (Ews : wsub 64 (growth_left nt) (items t) = (growth_left nt - items t)%Z).
          { unfold wsub. apply wrap_small. rewrite two_p_62 in *. rewrite two_p_64. lia. }
          rewrite Ews.
          replace (0 + zn (length (full_list t)))%Z with (items t) in Hinv' by (unfold zn; lia).
          replace (zn (length (full_list t))) with (items t) in Hinv' by (unfold zn; lia).
          destruct Hinv' as (Hsafe' & Hm' & Hnd' & HT' & HR').
          set (t' := with_counts T nt' (items t) (growth_left nt - items t)) in *.
          split; [exact Hall|].
          split.
          { split; [exact Hsafe'|]. split; [exact HT'|]. apply Reach_counts. exact HR'. }
          split.
          { change (occupants T t') with (occupants T nt'). rewrite Hocc, app_nil_r in Hperm'. exact Hperm'. }
          split; [reflexivity|].
          split; [rewrite (capacity_eq B T t' Hsafe'); cbn [t' items growth_left with_counts]; lia|].
          split; [exact Hnd'|].
          split.
          { cbn [t' items growth_left with_counts mask]. rewrite Em', Hglcap. reflexivity. }
          exists [EvAlloc len al], fr. split; [reflexivity|]. split; [|exact Hfr].
          assert (Enb' : nb T t' = nb T nt) by (unfold nb, buckets; cbn [t' mask with_counts]; rewrite Em'; reflexivity).
          right. split; [exact Hnz|]. split; [exact Har|].
          split; [apply (Allocated_same_mask B T tsize talign nt t' Em' HAl)|].
          rewrite Enb'. split; [exact Hctb|]. exists len, al, off.
          split; [exact El|]. split; [reflexivity|exact Hv].
        * (* the hasher panicked: the guard frees the new block *)
          rewrite Esing, (proj1 (free_buckets_ok B T tsize talign nt len al off Hmnt El)). cbn [bind].
          cbn [resize_post app].
          split; [reflexivity|]. split; [exact Hr|]. split; [exact Hnz|]. split; [exact Har|].
          exists len, al. split; [reflexivity|exact Hv].
    - (* no new table: the error is reported, nothing else happened *)
      cbn [fwc_post] in Hpost. destruct evs; [|contradiction].
      destruct tr; try contradiction; cbn [resize_post].
      + destruct Hpost as (Hf & Hov). repeat (split; [reflexivity|]). split; assumption.
      + destruct Hpost as (Hf & Har & Hfail & Hv). repeat (split; [reflexivity|]).
        split; [exact Hf|]. split; [exact Har|]. split; assumption.
    - (* the Infallible mode panics / aborts *)
      destruct er; cbn [fwc_post] in Hpost; try contradiction; exact Hpost.
  Qed.

  (* ---------------------------------------------------------------------------------------- *)
  (* the cases, one by one                                                                      *)
  (* ---------------------------------------------------------------------------------------- *)
  Section Cases.
    Variable t : table T.
    Variables (cap : Z) (alloc_refuses : bool) (f : fallibility).
    Hypothesis Hsafe : SafeWF B T t.
    Hypothesis HA : mask t = 0 \/ Allocated B T tsize talign t.
    Hypothesis Hcap : (items t <= cap < 2 ^ 64)%Z.

    Local Notation RESIZE := (resize_inner B T tsize talign hasher t cap alloc_refuses f).

    (* R1, totality: no undefined behaviour, no fuel exhaustion, no other panic; the only
       failures are the capacity-overflow panic and the allocation abort of the Infallible mode *)
    Theorem resize_inner_total :
      (exists t' evs tr unw, RESIZE = Ok (t', evs, tr, unw)) \/
      (RESIZE = Fail PanicCapacityOverflow /\ f = Infallible /\ overflow_cond B tsize talign cap) \/
      (RESIZE = Fail AbortAlloc /\ f = Infallible /\ alloc_refuses = true /\
       exists len al, alloc_fail_cond B tsize talign cap len al /\ ValidLayout len al).
    Proof.
      pose proof (resize_inner_spec t cap alloc_refuses f Hsafe HA Hcap) as H.
      destruct RESIZE as [[[[t' evs] tr] unw]|er].
      - left. exists t', evs, tr, unw. reflexivity.
      - right. destruct er; cbn [resize_post] in H; try contradiction.
        + left. split; [reflexivity|exact H].
        + right. split; [reflexivity|exact H].
    Qed.

    Corollary resize_inner_fallible_total : f = Fallible -> exists r, RESIZE = Ok r.
    Proof.
      intros Hf. destruct resize_inner_total as [(t' & evs & tr & unw & E) | [(_ & Hi & _) | (_ & Hi & _)]];
        [eexists; exact E|congruence|congruence].
    Qed.

    (* R1 (a): an error code means that nothing happened (C12) *)
    Theorem resize_inner_error t' evs tr unw :
      RESIZE = Ok (t', evs, tr, unw) -> tr <> TR_ok ->
      unw = false /\ t' = t /\ evs = [] /\ f = Fallible /\
      match tr with
      | TR_ok => False
      | TR_capacity_overflow => overflow_cond B tsize talign cap
      | TR_alloc_error len al =>
          alloc_refuses = true /\ alloc_fail_cond B tsize talign cap len al /\ ValidLayout len al
      end.
    Proof.
      intros E Htr. pose proof (resize_inner_spec t cap alloc_refuses f Hsafe HA Hcap) as H.
      rewrite E in H. destruct tr; [contradiction| |]; cbn [resize_post] in H.
      - destruct H as (H1 & H2 & H3 & H4 & H5). repeat (split; [assumption|]). exact H5.
      - destruct H as (H1 & H2 & H3 & H4 & H5). repeat (split; [assumption|]). exact H5.
    Qed.

    (* R1 (b): the hasher panicked: contents unchanged, the new block is freed again (C04).
       This case needs an occupant, hence cap <> 0: there is always a block to free. *)
    Theorem resize_inner_unwind t' evs tr :
      RESIZE = Ok (t', evs, tr, true) ->
      tr = TR_ok /\ t' = t /\ (exists e, In e (occupants T t) /\ hasher e = None) /\
      cap <> 0%Z /\ alloc_refuses = false /\
      exists len al, evs = [EvAlloc len al; EvFree len al] /\ ValidLayout len al.
    Proof.
      intros E. pose proof (resize_inner_spec t cap alloc_refuses f Hsafe HA Hcap) as H.
      rewrite E in H. destruct tr; cbn [resize_post] in H.
      - split; [reflexivity|exact H].
      - destruct H as (H1 & _). discriminate H1.
      - destruct H as (H1 & _). discriminate H1.
    Qed.

    (* R1 (c) *)
    Theorem resize_inner_ok t' evs :
      RESIZE = Ok (t', evs, TR_ok, false) ->
      (forall e, In e (occupants T t) -> hasher e <> None) /\
      SafeWF B T t' /\ Permutation (occupants T t') (occupants T t) /\ items t' = items t /\
      (cap <= capacity T t')%Z /\ (cap <= items t' + growth_left t')%Z /\
      NoDel t' /\ (items t' + growth_left t' = z_cap (mask t'))%Z /\
      (mask t' = 0 <-> cap = 0%Z) /\
      exists alloc_evs free_evs, evs = alloc_evs ++ free_evs /\
        AllocNew cap alloc_refuses t' alloc_evs /\ FreeOld t free_evs.
    Proof.
      intros E. pose proof (resize_inner_spec t cap alloc_refuses f Hsafe HA Hcap) as H.
      rewrite E in H. cbn [resize_post] in H.
      destruct H as (Hall & (Hs' & _) & Hperm & Hit & Hc & Hnd & Hgl & aevs & fevs & Eevs & Hal & Hfr).
      split; [exact Hall|]. split; [exact Hs'|]. split; [exact Hperm|]. split; [exact Hit|].
      split; [exact Hc|]. split; [rewrite <- (capacity_eq B T t' Hs'); exact Hc|].
      split; [exact Hnd|]. split; [lia|].
      split.
      { destruct Hal as [(Hc0 & -> & _) | (Hnz & _ & (Hm & _) & _)].
        - split; [intros _; exact Hc0|reflexivity].
        - split; [intros Hm0; contradiction|intros Hc0; contradiction]. }
      exists aevs, fevs. split; [exact Eevs|]. split; assumption.
    Qed.

    (* which of (b) and (c) happens when the allocation succeeds *)
    Corollary resize_inner_ok_iff t' evs unw :
      RESIZE = Ok (t', evs, TR_ok, unw) ->
      (unw = false <-> forall e, In e (occupants T t) -> hasher e <> None).
    Proof.
      intros E. destruct unw.
      - destruct (resize_inner_unwind t' evs TR_ok E) as (_ & _ & (e & Hin & He) & _).
        split; [discriminate|]. intros Hall. exfalso. exact (Hall e Hin He).
      - destruct (resize_inner_ok t' evs E) as (Hall & _). split; [intros _; exact Hall|reflexivity].
    Qed.

    (* R2: the new table is well-formed for the hash function (given extensionally) *)
    Theorem resize_inner_WF (h : T -> option Z) t' evs :
      (forall e, hasher e = h e) ->
      RESIZE = Ok (t', evs, TR_ok, false) -> WF B T h t'.
    Proof.
      intros Hext E. pose proof (resize_inner_spec t cap alloc_refuses f Hsafe HA Hcap) as H.
      rewrite E in H. cbn [resize_post] in H. destruct H as (_ & (Hs' & HT & HR) & _).
      split; [exact Hs'|]. split.
      - intros i e hash Hi He Hh. rewrite <- Hext in Hh. exact (HT i e hash Hi He Hh).
      - intros i e hash Hi He Hh. rewrite <- Hext in Hh. exact (HR i e hash Hi He Hh).
    Qed.
  End Cases.
End Resize.

Print Assumptions move_step.
Print Assumptions resize_loop_spec.
Print Assumptions resize_inner_spec.
Print Assumptions resize_inner_total.
Print Assumptions resize_inner_fallible_total.
Print Assumptions resize_inner_error.
Print Assumptions resize_inner_unwind.
Print Assumptions resize_inner_ok.
Print Assumptions resize_inner_ok_iff.
Print Assumptions resize_inner_WF.
