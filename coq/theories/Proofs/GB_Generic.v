(* GB_Generic.v -- the portable (64-bit word) scanner back-end satisfies the byte-wise contract.

   Every word-level primitive of control/group/generic.rs is shown to be a stride-8 mask word
   (GB_Bits.bw 8) over a byte-wise predicate; match_tag additionally needs the ripple-borrow
   characterisation of the wrapping subtraction of 0x0101..01. *)
From Coq Require Import ZArith List Bool Lia Sorted.
From HB Require Import RsPrelude Sse2 Gen Group GB_Bits GB_Sse2.
Import ListNotations.
Open Scope Z_scope.

Definition isbyte (c : Z) : Prop := 0 <= c < 256.
Notation wob := word_of_bytes.
Notation rbn := repeat_byte_nat.

Lemma valid_isbyte g : Forall valid_ctrl g -> Forall isbyte g.
Proof. apply Forall_impl. intros b H. apply valid_ctrl_byte; assumption. Qed.

Lemma valid_ctrlb_true b : valid_ctrl b -> valid_ctrlb b = true.
Proof.
  unfold valid_ctrl, valid_ctrlb, DELETED, EMPTY, tag_DELETED, tag_EMPTY. intros H.
  destruct (Z.leb_spec 0 b), (Z.ltb_spec b 128), (Z.eqb_spec b 128), (Z.eqb_spec b 255);
    cbn [andb orb]; try reflexivity; lia.
Qed.

(* ------------------------------------------------------------------------------------------ *)
(* byte-local word operations                                                                   *)
(* ------------------------------------------------------------------------------------------ *)
Lemma land_split8 a x b y : isbyte a -> isbyte b ->
  Z.land (a + 256 * x) (b + 256 * y) = Z.land a b + 256 * Z.land x y.
Proof. intros Ha Hb. exact (land_split 8 a x b y ltac:(lia) Ha Hb). Qed.

Lemma lxor_split8 a x b y : isbyte a -> isbyte b ->
  Z.lxor (a + 256 * x) (b + 256 * y) = Z.lxor a b + 256 * Z.lxor x y.
Proof. intros Ha Hb. exact (lxor_split 8 a x b y ltac:(lia) Ha Hb). Qed.

Lemma land_isbyte a b : isbyte a -> 0 <= b -> isbyte (Z.land a b).
Proof. intros Ha Hb. exact (land_bound a b 8 ltac:(lia) Ha Hb). Qed.

Lemma lxor_isbyte a b : isbyte a -> isbyte b -> isbyte (Z.lxor a b).
Proof. intros Ha Hb. exact (lxor_bound a b 8 ltac:(lia) Ha Hb). Qed.

Lemma bw8_cons b r : bw 8 (b :: r) = (if b then 128 else 0) + 256 * bw 8 r.
Proof. reflexivity. Qed.

Lemma P8_S k : P 8 (S k) = 256 * P 8 k.
Proof. exact (P_S 8 ltac:(lia) k). Qed.

Lemma wob_bound g : Forall isbyte g -> 0 <= wob g < P 8 (length g).
Proof.
  induction 1 as [|c r Hc _ IH]; cbn [wob length]; [rewrite P_0; lia|].
  rewrite P8_S. unfold isbyte in Hc. lia.
Qed.

Lemma P8_8 : P 8 8 = 2 ^ 64. Proof. reflexivity. Qed.

Lemma wob8_bound g : length g = 8%nat -> Forall isbyte g -> 0 <= wob g < 2 ^ 64.
Proof. intros L F. rewrite <- P8_8, <- L. apply wob_bound; assumption. Qed.

Lemma bw8_bound bs : length bs = 8%nat -> 0 <= bw 8 bs < 2 ^ 64.
Proof.
  intros L. pose proof (bw_nonneg 8 ltac:(lia) bs). pose proof (bw_bound 8 ltac:(lia) bs).
  rewrite L, P8_8 in *. lia.
Qed.

Lemma rbn_true k (bs : list bool) : length bs = k -> rbn k 128 = bw 8 (map (fun _ => true) bs).
Proof.
  revert k; induction bs as [|b r IH]; intros k L; subst k; cbn [length rbn map]; [reflexivity|].
  rewrite bw8_cons, <- (IH _ eq_refl). reflexivity.
Qed.

(* ------------------------------------------------------------------------------------------ *)
(* byte facts (finite checks)                                                                   *)
(* ------------------------------------------------------------------------------------------ *)
Lemma land_128_special_b : forall b, isbyte b ->
  (Z.land b 128 =? (if is_special b then 128 else 0)) = true.
Proof. apply byte_forall. vm_compute. reflexivity. Qed.

Lemma land_128_special b : isbyte b -> Z.land b 128 = if is_special b then 128 else 0.
Proof. intros H. apply Z.eqb_eq, land_128_special_b, H. Qed.

Lemma compl_special_b : forall b, isbyte b -> Bool.eqb (is_special (255 - b)) (is_full b) = true.
Proof. apply byte_forall. vm_compute. reflexivity. Qed.

Lemma compl_special b : isbyte b -> is_special (255 - b) = is_full b.
Proof. intros H. apply Bool.eqb_prop, compl_special_b, H. Qed.

Definition empty_byte_check (c b : Z) : bool :=
  Z.land (Z.land b ((2 * b + c) mod 256)) 128 =? (if is_empty b then 128 else 0).

Lemma empty_byte_b : forall b, isbyte b ->
  implb (valid_ctrlb b) (empty_byte_check 0 b && empty_byte_check 1 b) = true.
Proof. apply byte_forall. vm_compute. reflexivity. Qed.

Lemma empty_byte b c : valid_ctrl b -> c = 0 \/ c = 1 ->
  Z.land (Z.land b ((2 * b + c) mod 256)) 128 = if is_empty b then 128 else 0.
Proof.
  intros Hv Hc. pose proof (empty_byte_b b (valid_ctrl_byte b Hv)) as H.
  rewrite (valid_ctrlb_true b Hv) in H. cbn [implb] in H. apply andb_prop in H. destruct H as [H0 H1].
  apply Z.eqb_eq. destruct Hc; subst c; assumption.
Qed.

(* byte i of (cmp - 0x01..01) & !cmp & 0x80.. is set iff ... *)
Definition rep (c b : Z) : bool := (c =? 0) || ((c =? 1) && (b =? 1)).
Definition rep_check (b c : Z) : bool :=
  Z.land (Z.land ((c - 1 - b) mod 256) (255 - c)) 128 =? (if rep c b then 128 else 0).

Lemma rep_byte_b : forall c, isbyte c -> rep_check 0 c && rep_check 1 c = true.
Proof. apply byte_forall. vm_compute. reflexivity. Qed.

Lemma rep_byte c b : isbyte c -> b = 0 \/ b = 1 ->
  Z.land (Z.land ((c - 1 - b) mod 256) (255 - c)) 128 = if rep c b then 128 else 0.
Proof.
  intros Hc Hb. pose proof (rep_byte_b c Hc) as H. apply andb_prop in H. destruct H as [H0 H1].
  apply Z.eqb_eq. destruct Hb; subst b; assumption.
Qed.

(* ------------------------------------------------------------------------------------------ *)
(* match_empty_or_deleted, match_full                                                           *)
(* ------------------------------------------------------------------------------------------ *)
Lemma eod_bw g k : length g = k -> Forall isbyte g ->
  Z.land (wob g) (rbn k 128) = bw 8 (map is_special g).
Proof.
  intros L F; revert k L; induction F as [|b r Hb _ IH]; intros k L; subst k;
    cbn [wob length rbn map]; [reflexivity|].
  rewrite bw8_cons, land_split8 by (unfold isbyte in *; lia).
  rewrite IH by reflexivity. rewrite land_128_special by assumption. reflexivity.
Qed.

Lemma generic_match_eod_bw g : group_ok 8 g ->
  generic_match_empty_or_deleted (wob g) = bw 8 (map is_special g).
Proof.
  intros [L V]. unfold generic_match_empty_or_deleted.
  change (generic_repeat tag_DELETED) with (rbn 8 128).
  apply eod_bw; [assumption|apply valid_isbyte; assumption].
Qed.

Lemma generic_match_full_bw g : group_ok 8 g ->
  generic_match_full (wob g) = bw 8 (map is_full g).
Proof.
  intros G. pose proof G as [L V]. unfold generic_match_full, bm_invert.
  rewrite generic_match_eod_bw by assumption.
  change generic_BITMASK_MASK with (rbn 8 128).
  rewrite (rbn_true 8 (map is_special g)) by (rewrite map_length; assumption).
  rewrite bw_invert by lia. rewrite map_map. f_equal. apply map_ext. intros b.
  unfold is_special, is_full, tag_is_special, tag_is_full. apply negb_involutive.
Qed.

(* ------------------------------------------------------------------------------------------ *)
(* match_empty                                                                                  *)
(* ------------------------------------------------------------------------------------------ *)
Lemma empty_bw g : Forall valid_ctrl g -> forall k c, length g = k -> c = 0 \/ c = 1 ->
  Z.land (Z.land (wob g) (2 * wob g + c)) (rbn k 128) = bw 8 (map is_empty g).
Proof.
  induction 1 as [|b r Hb Hr IH]; intros k c L Hc; subst k; cbn [wob length rbn map].
  - rewrite Z.land_0_l. reflexivity.
  - pose proof (valid_ctrl_byte b Hb) as Hbb.
    set (c' := (2 * b + c) / 256).
    assert (Hc' : c' = 0 \/ c' = 1).
    { assert (0 <= c' < 2); [|lia]. unfold c'. split.
      - apply Z.div_pos; lia.
      - apply Z.div_lt_upper_bound; lia. }
    pose proof (Z.mod_pos_bound (2 * b + c) 256 ltac:(lia)) as Hlo.
    replace (2 * (b + 256 * wob r) + c) with ((2 * b + c) mod 256 + 256 * (2 * wob r + c')).
    2:{ unfold c'. pose proof (Z.div_mod (2 * b + c) 256 ltac:(lia)). lia. }
    rewrite land_split8 by (unfold isbyte; lia).
    rewrite land_split8 by (try apply land_isbyte; unfold isbyte; lia).
    rewrite (IH _ c' eq_refl Hc'). rewrite empty_byte by assumption.
    rewrite bw8_cons. reflexivity.
Qed.

Lemma land_mod_r w x n : 0 <= n -> 0 <= w < 2 ^ n -> Z.land w (x mod 2 ^ n) = Z.land w x.
Proof.
  intros Hn Hw. rewrite <- Z.land_ones by assumption.
  rewrite (Z.land_comm x), Z.land_assoc, Z.land_ones by assumption.
  rewrite Z.mod_small by assumption. reflexivity.
Qed.

Lemma generic_match_empty_bw g : group_ok 8 g ->
  generic_match_empty (wob g) = bw 8 (map is_empty g).
Proof.
  intros [L V]. unfold generic_match_empty, wshl, wrap.
  change (generic_repeat tag_DELETED) with (rbn 8 128).
  pose proof (wob8_bound g L (valid_isbyte g V)) as Hw.
  rewrite land_mod_r by lia. rewrite Z.shiftl_mul_pow2 by lia.
  replace (wob g * 2 ^ 1) with (2 * wob g + 0) by (change (2 ^ 1) with 2; lia).
  apply empty_bw; auto.
Qed.

(* ------------------------------------------------------------------------------------------ *)
(* convert_special_to_empty_and_full_to_deleted                                                 *)
(* ------------------------------------------------------------------------------------------ *)
Lemma wob_compl g : wob (map (fun b => 255 - b) g) = P 8 (length g) - 1 - wob g.
Proof.
  induction g as [|b r IH]; cbn [wob map length]; [rewrite P_0; reflexivity|].
  rewrite IH, P8_S. ring.
Qed.

Lemma wob_add {A} (f h : A -> Z) l :
  wob (map f l) + wob (map h l) = wob (map (fun x => f x + h x) l).
Proof. induction l as [|x r IH]; cbn [wob map]; [reflexivity|]. rewrite <- IH. ring. Qed.

Lemma bw8_wob bs : bw 8 bs = wob (map (fun b : bool => if b then 128 else 0) bs).
Proof. induction bs as [|b r IH]; cbn [map wob]; [reflexivity|]. rewrite bw8_cons, IH. reflexivity. Qed.

Lemma bw8_div128 bs : bw 8 bs = wob (map (fun b : bool => if b then 1 else 0) bs) * 128.
Proof.
  induction bs as [|b r IH]; cbn [map wob]; [reflexivity|]. rewrite bw8_cons, IH. destruct b; ring.
Qed.

Lemma bytes_of_wob l : Forall isbyte l -> bytes_of_word (length l) (wob l) = l.
Proof.
  induction 1 as [|b r Hb _ IH]; cbn [length bytes_of_word wob]; [reflexivity|].
  unfold isbyte in Hb.
  replace ((b + 256 * wob r) mod 256) with b by (apply Z.mod_unique with (wob r); lia).
  replace ((b + 256 * wob r) / 256) with (wob r) by (apply Z.div_unique with b; lia).
  rewrite IH. reflexivity.
Qed.

Lemma generic_convert_bytes g : group_ok 8 g ->
  bytes_of_word 8 (generic_convert (wob g)) = map byte_convert g.
Proof.
  intros [L V]. pose proof (valid_isbyte g V) as F.
  unfold generic_convert. change (generic_repeat tag_DELETED) with (rbn 8 128).
  (* full *)
  assert (Efull : Z.land (wnot 64 (wob g)) (rbn 8 128) = bw 8 (map is_full g)).
  { unfold wnot. rewrite <- P8_8, <- L, <- wob_compl.
    rewrite eod_bw.
    - rewrite map_map. f_equal. apply map_ext_Forall with (Q := isbyte); [|assumption].
      intros b Hb. apply compl_special; assumption.
    - rewrite map_length. reflexivity.
    - apply Forall_map. revert F. apply Forall_impl. unfold isbyte. intros; lia. }
  cbv zeta. rewrite Efull.
  set (bs := map is_full g).
  assert (Lbs : length bs = 8%nat) by (unfold bs; rewrite map_length; assumption).
  rewrite Z.shiftr_div_pow2 by lia. change (2 ^ 7) with 128.
  rewrite (bw8_div128 bs) at 2. rewrite Z.div_mul by lia.
  assert (Enot : wnot 64 (bw 8 bs) = wob (map (fun b : bool => 255 - (if b then 128 else 0)) bs)).
  { rewrite bw8_wob.
    rewrite <- (map_map (fun b : bool => if b then 128 else 0) (fun c => 255 - c)).
    rewrite wob_compl, map_length, Lbs. reflexivity. }
  rewrite Enot.
  unfold wadd, wrap. rewrite wob_add.
  assert (E : map (fun x : bool => 255 - (if x then 128 else 0) + (if x then 1 else 0)) bs
              = map byte_convert g).
  { unfold bs. rewrite map_map. apply map_ext. intros b. unfold byte_convert.
    destruct (is_full b); reflexivity. }
  rewrite E.
  assert (Fc : Forall isbyte (map byte_convert g)).
  { apply Forall_map. apply Forall_forall. intros b _. unfold byte_convert, isbyte, DELETED, EMPTY,
      tag_DELETED, tag_EMPTY. destruct (is_full b); lia. }
  assert (Lc : length (map byte_convert g) = 8%nat) by (rewrite map_length; assumption).
  rewrite Z.mod_small by (apply wob8_bound; assumption).
  pose proof (bytes_of_wob _ Fc) as HH. rewrite Lc in HH. exact HH.
Qed.

(* ------------------------------------------------------------------------------------------ *)
(* match_tag: ripple borrow                                                                     *)
(* ------------------------------------------------------------------------------------------ *)
(* byte-wise ripple subtraction of 0x01 from every byte, with incoming borrow b in {0,1} *)
Fixpoint subb (cs : list Z) (b : Z) : list Z :=
  match cs with
  | [] => []
  | c :: r => ((c - 1 - b) mod 256) :: subb r (if c - 1 - b <? 0 then 1 else 0)
  end.

Lemma subb_bytes cs b : Forall isbyte (subb cs b).
Proof.
  revert b; induction cs as [|c r IH]; intros b; cbn [subb]; constructor; [|apply IH].
  unfold isbyte. apply Z.mod_pos_bound. lia.
Qed.

Lemma subb_length cs b : length (subb cs b) = length cs.
Proof. revert b; induction cs as [|c r IH]; intros b; cbn [subb length]; [reflexivity|]. now rewrite IH. Qed.

(* the word-level wrapping subtraction equals the byte-wise ripple *)
Theorem subb_correct cs b :
  Forall isbyte cs -> (b = 0 \/ b = 1) ->
  wob (subb cs b) = (wob cs - rbn (length cs) 1 - b) mod P 8 (length cs).
Proof.
  intros Hcs; revert b; induction Hcs as [|c r Hc Hr IH]; intros b Hb.
  - cbn. destruct Hb; subst; reflexivity.
  - cbn [subb wob length rbn].
    set (b' := if c - 1 - b <? 0 then 1 else 0).
    assert (Hb' : b' = 0 \/ b' = 1) by (unfold b'; destruct (c - 1 - b <? 0); auto).
    rewrite (IH b' Hb').
    rewrite P8_S.
    set (Pn := P 8 (length r)).
    assert (HP : 0 < Pn) by (apply P_pos; lia).
    set (X := wob r - rbn (length r) 1 - b').
    assert (E : c + 256 * wob r - (1 + 256 * rbn (length r) 1) - b = ((c - 1 - b) mod 256) + 256 * X).
    { unfold X, b'. unfold isbyte in Hc. destruct (Z.ltb_spec (c - 1 - b) 0).
      - assert ((c - 1 - b) mod 256 = c - 1 - b + 256) by (symmetry; apply Z.mod_unique with (-1); lia). lia.
      - rewrite Z.mod_small by lia. lia. }
    rewrite E.
    pose proof (Z.mod_pos_bound (c - 1 - b) 256 ltac:(lia)) as Hm.
    set (m := (c - 1 - b) mod 256) in *.
    apply Z.mod_unique with (X / Pn).
    + pose proof (Z.mod_pos_bound X Pn HP). lia.
    + rewrite (Z.div_mod X Pn) at 1 by lia. ring.
Qed.

(* which bytes are reported, as a function of the bytes of cmp and the incoming borrow *)
Fixpoint mt (cs : list Z) (b : Z) : list bool :=
  match cs with
  | [] => []
  | c :: r => rep c b :: mt r (if c - 1 - b <? 0 then 1 else 0)
  end.

Lemma mt_length cs b : length (mt cs b) = length cs.
Proof. revert b; induction cs as [|c r IH]; intros b; cbn [mt length]; [reflexivity|]. now rewrite IH. Qed.

Lemma mt_bw cs : Forall isbyte cs -> forall k b, length cs = k -> b = 0 \/ b = 1 ->
  Z.land (Z.land (wob (subb cs b)) (wob (map (fun c => 255 - c) cs))) (rbn k 128) = bw 8 (mt cs b).
Proof.
  induction 1 as [|c r Hc Hr IH]; intros k b L Hb; subst k; cbn [subb mt wob map length rbn].
  - reflexivity.
  - set (b' := if c - 1 - b <? 0 then 1 else 0).
    assert (Hb' : b' = 0 \/ b' = 1) by (unfold b'; destruct (c - 1 - b <? 0); auto).
    pose proof (Z.mod_pos_bound (c - 1 - b) 256 ltac:(lia)) as Hm.
    unfold isbyte in Hc.
    rewrite land_split8 by (unfold isbyte; lia).
    rewrite land_split8 by (try apply land_isbyte; unfold isbyte; lia).
    rewrite (IH _ b' eq_refl Hb'). rewrite rep_byte by (unfold isbyte; lia).
    rewrite bw8_cons. reflexivity.
Qed.

Lemma lxor_wob g t k : length g = k -> Forall isbyte g -> isbyte t ->
  Z.lxor (wob g) (rbn k t) = wob (map (fun b => Z.lxor b t) g).
Proof.
  intros L F Ht; revert k L; induction F as [|b r Hb _ IH]; intros k L; subst k;
    cbn [wob length rbn map]; [reflexivity|].
  rewrite lxor_split8 by assumption. rewrite IH by reflexivity. reflexivity.
Qed.

Lemma generic_match_tag_bw g t : group_ok 8 g -> 0 <= t < 128 ->
  generic_match_tag (wob g) t = bw 8 (mt (map (fun b => Z.lxor b t) g) 0).
Proof.
  intros [L V] Ht. pose proof (valid_isbyte g V) as F.
  unfold generic_match_tag.
  change (generic_repeat tag_DELETED) with (rbn 8 128).
  change (generic_repeat 1) with (rbn 8 1).
  change (generic_repeat t) with (rbn 8 t).
  cbv zeta. rewrite (lxor_wob g t 8) by (unfold isbyte; auto; lia).
  set (cs := map (fun b => Z.lxor b t) g).
  assert (Lcs : length cs = 8%nat) by (unfold cs; rewrite map_length; assumption).
  assert (Fcs : Forall isbyte cs).
  { unfold cs. apply Forall_map. revert F. apply Forall_impl. intros b Hb.
    apply lxor_isbyte; [assumption|unfold isbyte; lia]. }
  unfold wsub, wrap, wnot. rewrite <- P8_8, <- Lcs.
  rewrite <- wob_compl.
  replace (wob cs - rbn (length cs) 1) with (wob cs - rbn (length cs) 1 - 0) by lia.
  rewrite <- subb_correct by auto.
  rewrite Lcs. apply mt_bw; auto.
Qed.

Lemma mt_complete cs : forall b j, (j < length cs)%nat -> nth j cs 0 = 0 ->
  nth j (mt cs b) false = true.
Proof.
  induction cs as [|c r IH]; intros b j Hj E; cbn [length] in Hj; [lia|].
  destruct j as [|j]; cbn [nth mt] in *.
  - subst c. reflexivity.
  - apply IH; [lia|assumption].
Qed.

Lemma mt_sound cs : Forall isbyte cs -> forall b j, b = 0 \/ b = 1 -> (j < length cs)%nat ->
  nth j (mt cs b) false = true ->
  nth j cs 0 = 0 \/ (nth j cs 0 = 1 /\ (b = 1 \/ exists i, (i < j)%nat /\ nth i cs 0 = 0)).
Proof.
  induction 1 as [|c r Hc Hr IH]; intros b j Hb Hj E; cbn [length] in Hj; [lia|].
  unfold isbyte in Hc.
  destruct j as [|j]; cbn [nth mt] in *.
  - unfold rep in E. destruct (Z.eqb_spec c 0); [left; assumption|].
    destruct (Z.eqb_spec c 1), (Z.eqb_spec b 1); cbn in E; try discriminate. right; auto.
  - set (b' := if c - 1 - b <? 0 then 1 else 0) in *.
    assert (Hb' : b' = 0 \/ b' = 1) by (unfold b'; destruct (c - 1 - b <? 0); auto).
    destruct (IH b' j Hb' ltac:(lia) E) as [H0 | [H1 [Hbb | (i & Hi & Hi0)]]].
    + left; assumption.
    + right. split; [assumption|]. unfold b' in Hbb.
      destruct (Z.ltb_spec (c - 1 - b) 0); [|discriminate].
      assert (c = 0 \/ (c = 1 /\ b = 1)) as [C0 | [C1 B1]] by lia.
      * right. exists 0%nat. split; [lia|assumption].
      * left; assumption.
    + right. split; [assumption|]. right. exists (S i). split; [lia|assumption].
Qed.

(* ------------------------------------------------------------------------------------------ *)
(* views                                                                                        *)
(* ------------------------------------------------------------------------------------------ *)
Lemma generic_stride : bk_stride generic_backend = 8. Proof. reflexivity. Qed.
Lemma generic_bits : bk_bits generic_backend = 8 * Z.of_nat 8. Proof. reflexivity. Qed.

Lemma generic_iter bs : length bs = 8%nat -> bm_iter generic_backend (bw 8 bs) = bidx 0 bs.
Proof.
  intros L. unfold bm_iter, bm_into_iter.
  change (bk_iter_mask generic_backend) with (Z.ones 64).
  rewrite Z.land_ones by lia. rewrite Z.mod_small by (apply bw8_bound; assumption).
  apply (iter_bw generic_backend 8 8); [lia|reflexivity|reflexivity|assumption].
Qed.

Lemma generic_match_tag_bidx g t : group_ok 8 g -> 0 <= t < 128 ->
  g_match_tag generic_backend g t = bidx 0 (mt (map (fun b => Z.lxor b t) g) 0).
Proof.
  intros G Ht. unfold g_match_tag. cbn [bk_match_tag generic_backend].
  rewrite generic_match_tag_bw by assumption. destruct G as [L V].
  apply generic_iter. rewrite mt_length, map_length. assumption.
Qed.

Theorem generic_backend_spec_thm : BackendSpec generic_backend.
Proof.
  pose proof generic_stride as Hst. pose proof generic_bits as Hbi.
  assert (H8 : 1 <= 8) by lia.
  constructor.
  - cbn. lia.
  - (* match_full *)
    intros g G. unfold g_match_full. cbn [bk_match_full bk_width generic_backend] in *.
    rewrite generic_match_full_bw by assumption. destruct G as [L V].
    rewrite generic_iter by (rewrite map_length; assumption). symmetry; apply indices_map.
  - (* any_empty *)
    intros g G. unfold g_any_empty, bm_any_bit_set. cbn [bk_match_empty bk_width generic_backend] in *.
    rewrite generic_match_empty_bw by assumption.
    apply (existsb_map 8 H8).
  - (* lowest_eod *)
    intros g G. unfold g_lowest_eod. cbn [bk_match_eod bk_width generic_backend] in *.
    rewrite generic_match_eod_bw by assumption.
    rewrite (lowest_bw generic_backend 8 8 H8 Hst).
    unfold first_index. rewrite (first_from_map 8 H8). reflexivity.
  - (* empty_lz *)
    intros g G. unfold g_empty_lz. cbn [bk_match_empty bk_width generic_backend] in *.
    rewrite generic_match_empty_bw by assumption. destruct G as [L V].
    rewrite (lz_bw generic_backend 8 8 H8 Hst Hbi) by (rewrite map_length; assumption).
    rewrite rev_map_comm. symmetry. apply (prefix_len_map is_empty).
  - (* empty_tz *)
    intros g G. unfold g_empty_tz. cbn [bk_match_empty bk_width generic_backend] in *.
    rewrite generic_match_empty_bw by assumption. destruct G as [L V].
    rewrite (tz_bw generic_backend 8 8 H8 Hst Hbi) by (rewrite map_length; assumption).
    symmetry. apply (prefix_len_map is_empty).
  - (* convert *)
    intros g G. unfold g_convert. cbn [bk_convert bk_width generic_backend] in *.
    apply generic_convert_bytes; assumption.
  - (* sorted *)
    intros g t G Ht. cbn [bk_width generic_backend] in *.
    rewrite generic_match_tag_bidx by assumption. apply bidx_sorted.
  - (* bound *)
    intros g t j G Ht Hj. cbn [bk_width generic_backend] in *.
    rewrite generic_match_tag_bidx in Hj by assumption.
    apply bidx_In in Hj. rewrite mt_length, map_length in Hj. destruct G as [L V]. lia.
  - (* complete *)
    intros g t j G Ht Hj E. cbn [bk_width generic_backend] in *.
    rewrite generic_match_tag_bidx by assumption. destruct G as [L V].
    apply bidx_In. rewrite mt_length, map_length, Nat.sub_0_r. split; [lia|].
    apply mt_complete; [rewrite map_length; lia|].
    rewrite (nth_map_lt (fun b => Z.lxor b t) g j 0 0) by lia. rewrite E. apply Z.lxor_nilpotent.
  - (* sound *)
    intros g t j G Ht Hj. cbn [bk_width generic_backend] in *.
    rewrite generic_match_tag_bidx in Hj by assumption. destruct G as [L V].
    pose proof (valid_isbyte g V) as F.
    apply bidx_In in Hj. rewrite mt_length, map_length, Nat.sub_0_r in Hj. destruct Hj as [Hj1 Hj2].
    apply mt_sound in Hj2; [| |left; reflexivity|rewrite map_length; lia].
    2:{ apply Forall_map. revert F. apply Forall_impl. intros b Hb.
        apply lxor_isbyte; [assumption|unfold isbyte; lia]. }
    rewrite (nth_map_lt (fun b => Z.lxor b t) g j 0 0) in Hj2 by lia.
    destruct Hj2 as [H0 | [H1 [Hbad | (i & Hi & Hi0)]]].
    + left. apply Z.lxor_eq; assumption.
    + discriminate.
    + right. split; [assumption|]. exists i. split; [assumption|].
      rewrite (nth_map_lt (fun b => Z.lxor b t) g i 0 0) in Hi0 by lia.
      apply Z.lxor_eq; assumption.
Qed.
