(* MapStepSafe.v -- SAFETY of every HashMap / HashSet operation of the model (C02 / C05 / C13
   termination, at model level).

   From every valid table (SafeWF, owning its block) every operation of `map_step` -- with the
   repaired rehash guard -- returns with a valid table, or performs one of the two documented
   library panics of the infallible allocation paths (capacity overflow / allocation abort).
   It never reaches an out-of-bounds control byte or group load, an uninitialised slot,
   unwrap_unchecked(None), unreachable_unchecked, a write to the static singleton, and no loop
   runs out of the fuel the code relies on.  There is NO assumption on the hasher: it may panic
   on any key and return anything.  No axioms. *)
From Coq Require Import ZArith List Bool Lia Permutation.
From HB Require Import RsPrelude Sse2 Gen Group Raw Map Check ArithFacts WFDefs GroupFacts ProbeFacts
  IterFacts SafeInsertErase SafeAllocClear FindFacts RawOpsSafe MapDefs.
Import ListNotations.
Open Scope nat_scope.

(* the inline loop of OpIterFold, named *)
Definition fold_go (B : backend) (t : table kv) : nat -> nat -> raw_iter -> list nat -> res Map.result :=
  fix go (fuel p : nat) (it : raw_iter) (acc : list nat) : res Map.result :=
    match p with
    | O => rest <- iter_fold B kv t it ;; es <- elems_at t (acc ++ rest) ;; Ok (t, OutList es, [])
    | S p' =>
        match fuel with
        | O => Fail OutOfFuel
        | S f =>
            '(nxt, it') <- iter_next B kv t it ;;
            match nxt with
            | None => es <- elems_at t acc ;; Ok (t, OutList es, [])
            | Some i => go f p' it' (acc ++ [i])
            end
        end
    end.

Section MapStepSafe.
  Variable B : backend.
  Hypothesis HW : WidthOK B.
  Hypothesis HB : BackendSpec B.
  Variable tsize talign : Z.
  Hypothesis HL : LayoutOK tsize talign.
  Variable needs_drop : bool.
  Variable hash_of : Z -> option Z.
  Variable alloc_refuses : bool.

  Let Hts : (0 <= tsize < 2 ^ 64)%Z := proj1 HL.
  Let Hta : exists a : Z, (0 <= a <= 62)%Z /\ talign = (2 ^ a)%Z := proj2 HL.

  Local Notation GW := (bk_width B).
  Local Notation SAFE := (SafeWF B kv).
  Local Notation OWN := (TOwn B kv tsize talign).
  Local Notation HSH := (hasher hash_of).

  Definition Good (r : res Map.result) : Prop :=
    match r with
    | Ok (t', _, _) => SAFE t' /\ OWN t'
    | Fail e => benign e
    end.

  Lemma gw_pos : 0 < GW.
  Proof. destruct HW as [H|H]; rewrite H; lia. Qed.

  Lemma singleton_eq t : SAFE t -> mask t = 0 -> t = new_table B kv.
  Proof. unfold SafeWF. intros H E. rewrite E in H. exact H. Qed.

  Lemma own_same t t' : mask t' = mask t -> OWN t -> OWN t'.
  Proof. apply TOwn_same_mask. Qed.

  Lemma slots_len t : SAFE t -> mask t <> 0 -> length (slots t) = nb kv t.
  Proof. intros H Hm. destruct (SafeWF_alloc B kv t H Hm) as ((_ & _ & Hl & _) & _). exact Hl. Qed.

  Lemma slot_some_full t i e : SAFE t -> mask t <> 0 -> i < nb kv t -> slot kv t i = Some e ->
    is_full (byte kv t i) = true.
  Proof.
    intros H Hm Hi He. destruct (SafeWF_alloc B kv t H Hm) as (_ & _ & (_ & _ & _ & Hsl)).
    apply (Hsl i Hi). rewrite He. discriminate.
  Qed.

  Lemma full_slot_ref t i : SAFE t -> mask t <> 0 -> i < nb kv t -> is_full (byte kv t i) = true ->
    exists e, slot kv t i = Some e /\ slot_ref kv t i = Ok e.
  Proof.
    intros H Hm Hi Hf. destruct (SafeWF_alloc B kv t H Hm) as (_ & _ & HC).
    destruct (full_slot_some kv t i HC Hi Hf) as (e & He). exists e. split; [exact He|].
    apply slot_ref_ok; [exact Hm|rewrite (slots_len t H Hm); exact Hi|exact He].
  Qed.

  Lemma some_slot_ref t i e : SAFE t -> mask t <> 0 -> i < nb kv t -> slot kv t i = Some e ->
    slot_ref kv t i = Ok e.
  Proof.
    intros H Hm Hi He. apply slot_ref_ok; [exact Hm|rewrite (slots_len t H Hm); exact Hi|exact He].
  Qed.

  (* ---------------------------------------------------------------------------------------- *)
  (* the static singleton                                                                       *)
  (* ---------------------------------------------------------------------------------------- *)
  Lemma EMPTY_255 : EMPTY = 255%Z.
  Proof. reflexivity. Qed.

  (* probing the singleton: all Group::WIDTH bytes are EMPTY, so there is no tag match and the
     first group contains an EMPTY byte: Ok None after one in-bounds load *)
  Lemma find_singleton hash eqf : find B kv (new_table B kv) hash eqf = Ok None.
  Proof.
    pose proof gw_pos as Hpos.
    unfold find, find_inner.
    assert (Hfuel : probe_fuel B kv (new_table B kv) = 1).
    { unfold probe_fuel, buckets. cbn [mask new_table]. destruct HW as [E|E]; rewrite E; reflexivity. }
    assert (Hstart : n_probe_start (mask (new_table B kv)) hash = 0).
    { unfold n_probe_start, probe_seq, h1. cbn [mask new_table fst]. change (zn 0) with 0%Z.
      rewrite Z.land_0_r. reflexivity. }
    rewrite Hfuel, Hstart. cbn [find_inner_loop].
    assert (Hload : load B kv (new_table B kv) 0 = Ok (repeat EMPTY GW)).
    { unfold load. cbn [ctrl new_table]. rewrite repeat_length. cbn [Nat.add]. rewrite Nat.leb_refl.
      cbn [skipn]. rewrite firstn_repeat_le by lia. reflexivity. }
    rewrite Hload. cbn [bind].
    assert (Hgok : group_ok GW (repeat EMPTY GW)).
    { split; [apply repeat_length|apply valid_repeat_EMPTY]. }
    assert (Hmt : g_match_tag B (repeat EMPTY GW) (tag_full hash) = []).
    { destruct (g_match_tag B (repeat EMPTY GW) (tag_full hash)) as [|j r] eqn:E; [reflexivity|]. exfalso.
      assert (Hin : In j (g_match_tag B (repeat EMPTY GW) (tag_full hash))) by (rewrite E; left; reflexivity).
      pose proof (tag_full_range hash) as Hr.
      pose proof (bs_match_tag_bound B HB _ _ j Hgok Hr Hin) as Hj.
      assert (En : nth j (repeat EMPTY GW) 0%Z = EMPTY) by (apply nth_repeat_lt; exact Hj).
      destruct (bs_match_tag_sound B HB _ _ j Hgok Hr Hin) as [H|[H _]]; rewrite En in H.
      - rewrite EMPTY_255 in H. lia.
      - pose proof (lxor1_full _ _ Hr H) as C. rewrite is_full_EMPTY in C. discriminate C. }
    rewrite Hmt. cbn [scan_matches bind].
    rewrite (bs_any_empty B HB _ Hgok).
    assert (Hex : existsb is_empty (repeat EMPTY GW) = true).
    { destruct GW; [lia|reflexivity]. }
    rewrite Hex. reflexivity.
  Qed.

  (* find never fails on a valid table, and what it returns is a live bucket *)
  Lemma find_cases t hash k : SAFE t ->
    exists r, find B kv t hash (eq_key k) = Ok r /\
      match r with
      | None => True
      | Some i => mask t <> 0 /\ i < nb kv t /\ exists e, slot kv t i = Some e /\ slot_ref kv t i = Ok e
      end.
  Proof.
    intros H. destruct (Nat.eq_dec (mask t) 0) as [Hm|Hm].
    - rewrite (singleton_eq t H Hm). exists None. split; [apply find_singleton|exact I].
    - change (eq_key k) with (pure_eq (fun e : kv => Z.eqb (k_id e) k)).
      destruct (find_total B kv HW HB t Hm (fun e : kv => Z.eqb (k_id e) k) hash H) as (r & E).
      exists r. split; [exact E|]. destruct r as [i|]; [|exact I].
      destruct (find_sound B kv HW HB t Hm _ hash i H E) as (Hi & e & He & _).
      split; [exact Hm|]. split; [exact Hi|]. exists e. split; [exact He|].
      exact (some_slot_ref t i e H Hm Hi He).
  Qed.

  (* ---------------------------------------------------------------------------------------- *)
  (* building blocks                                                                            *)
  (* ---------------------------------------------------------------------------------------- *)
  Lemma Good_ok t o evs : SAFE t -> OWN t -> Good (Ok (t, o, evs)).
  Proof. intros H1 H2. split; assumption. Qed.

  Lemma Good_with_hash t k f : SAFE t -> OWN t -> (forall h, Good (f h)) -> Good (with_hash hash_of t k f).
  Proof.
    intros H1 H2 Hf. unfold with_hash. destruct (hash_of k) as [h|]; [apply Hf|].
    apply Good_ok; assumption.
  Qed.

  Lemma Good_post (r : res Map.result) (fo : out -> out) (fe : list (event kv) -> list (event kv)) :
    Good r -> Good ('(t1, o, evs) <- r ;; Ok (t1, fo o, fe evs)).
  Proof. destruct r as [[[t1 o] evs]|e]; cbn [bind Good]; intros H; exact H. Qed.

  (* overwriting the element of a live bucket *)
  Lemma write_good t i e e' o evs : SAFE t -> OWN t -> mask t <> 0 -> i < nb kv t -> slot kv t i = Some e ->
    Good (t2 <- slot_write kv t i e' ;; Ok (t2, o, evs)).
  Proof.
    intros H HA Hm Hi He.
    destruct (slot_write_value_safe B kv t i e e' H Hm Hi He) as (t2 & E & H2 & Em & _).
    rewrite E. cbn [bind]. apply Good_ok; [exact H2|exact (own_same t t2 Em HA)].
  Qed.

  (* removing the element of a live bucket *)
  Lemma remove_good t i e (fo : kv -> out) (fe : kv -> list (event kv)) :
    SAFE t -> OWN t -> mask t <> 0 -> i < nb kv t -> slot kv t i = Some e ->
    Good ('(e', t2) <- remove B kv t i ;; Ok (t2, fo e', fe e')).
  Proof.
    intros H HA Hm Hi He.
    pose proof (slot_some_full t i e H Hm Hi He) as Hf.
    destruct (remove_safe B kv HW t i H Hm Hi Hf) as (e' & t2 & E & _ & H2 & Em & _).
    rewrite E. cbn [bind]. apply Good_ok; [exact H2|exact (own_same t t2 Em HA)].
  Qed.

  (* filling an insert slot *)
  Lemma insert_in_slot_good t h s v o evs : SAFE t -> OWN t -> mask t <> 0 -> s < nb kv t ->
    is_special (byte kv t s) = true -> (0 < growth_left t)%Z ->
    Good (t2 <- insert_in_slot B kv t h s v ;; Ok (t2, o, evs)).
  Proof.
    intros H HA Hm Hs Hsp Hg.
    destruct (insert_in_slot_safe B kv HW t s h v H Hm Hs Hsp (fun _ => Hg)) as (t2 & E & H2 & Em & _).
    rewrite E. cbn [bind]. apply Good_ok; [exact H2|exact (own_same t t2 Em HA)].
  Qed.

  (* ---------------------------------------------------------------------------------------- *)
  (* (1) lookups                                                                                *)
  (* ---------------------------------------------------------------------------------------- *)
  Lemma get_inner_good t k f : SAFE t -> OWN t -> Good (f None) ->
    (forall i e, mask t <> 0 -> i < nb kv t -> slot kv t i = Some e -> Good (f (Some (i, e)))) ->
    Good (get_inner B hash_of t k f).
  Proof.
    intros H HA Hn Hs. unfold get_inner. destruct (items t =? 0)%Z; [exact Hn|].
    apply Good_with_hash; [exact H|exact HA|]. intros h.
    destruct (find_cases t h k H) as (r & E & Hr). rewrite E. cbn [bind].
    destruct r as [i|]; [|exact Hn].
    destruct Hr as (Hm & Hi & e & He & Eref). rewrite Eref. cbn [bind]. apply Hs; assumption.
  Qed.

  (* ---------------------------------------------------------------------------------------- *)
  (* (2) find_or_find_insert_slot based                                                         *)
  (* ---------------------------------------------------------------------------------------- *)
  Lemma m_find_or_slot_good t k found vacant : SAFE t -> OWN t ->
    (forall t1 i e evs, SAFE t1 -> OWN t1 -> mask t1 <> 0 -> i < nb kv t1 -> slot kv t1 i = Some e ->
       Good (found t1 i e evs)) ->
    (forall t1 h s evs, SAFE t1 -> OWN t1 -> mask t1 <> 0 -> s < nb kv t1 ->
       is_special (byte kv t1 s) = true -> (0 < growth_left t1)%Z -> Good (vacant t1 h s evs)) ->
    Good (m_find_or_slot B tsize talign needs_drop true hash_of alloc_refuses t k found vacant).
  Proof.
    intros H HA Hfound Hvac. unfold m_find_or_slot.
    apply Good_with_hash; [exact H|exact HA|]. intros h.
    change (eq_key k) with (pure_eq (fun e : kv => Z.eqb (k_id e) k)).
    pose proof (find_or_find_insert_slot_spec B kv HW HB tsize talign Hts Hta needs_drop HSH t h
                  (fun e : kv => Z.eqb (k_id e) k) alloc_refuses H HA) as Hpost.
    destruct (find_or_find_insert_slot B kv tsize talign needs_drop HSH true t h
                (pure_eq (fun e : kv => Z.eqb (k_id e) k)) alloc_refuses) as [[[[t1 evs] unw] r]|er];
      cbn [bind].
    - destruct unw; cbn [foi_post] in Hpost.
      + destruct Hpost as (_ & H1 & HA1 & _). unfold unwind. apply Good_ok; assumption.
      + destruct r as [[i|s]|]; [| |contradiction].
        * destruct Hpost as ((H1 & HA1 & _ & _ & _ & Hm1 & _) & Hi & e & He & _).
          rewrite (some_slot_ref t1 i e H1 Hm1 Hi He). cbn [bind]. apply Hfound; assumption.
        * destruct Hpost as ((H1 & HA1 & _ & _ & Hg1 & Hm1 & _) & Hs & Hsp).
          apply Hvac; assumption.
    - destruct er; cbn [foi_post] in Hpost; try contradiction; cbn [Good]; [left|right]; reflexivity.
  Qed.

  Lemma m_insert_eq t k stamp v :
    m_insert B tsize talign needs_drop true hash_of alloc_refuses t k stamp v =
    m_find_or_slot B tsize talign needs_drop true hash_of alloc_refuses t k
      (fun t1 i e evs => t2 <- slot_write kv t1 i (mkKV (k_id e) (k_stamp e) v) ;; Ok (t2, OutVal (v_val e), evs))
      (fun t1 h slot evs => t2 <- insert_in_slot B kv t1 h slot (mkKV k stamp v) ;; Ok (t2, OutNone, evs)).
  Proof. reflexivity. Qed.

  Lemma m_insert_good t k stamp v : SAFE t -> OWN t ->
    Good (m_insert B tsize talign needs_drop true hash_of alloc_refuses t k stamp v).
  Proof.
    intros H HA. rewrite m_insert_eq. apply m_find_or_slot_good; [exact H|exact HA| |].
    - intros t1 i e evs H1 HA1 Hm1 Hi He. exact (write_good t1 i e _ _ _ H1 HA1 Hm1 Hi He).
    - intros t1 h s evs H1 HA1 Hm1 Hs Hsp Hg. exact (insert_in_slot_good t1 h s _ _ _ H1 HA1 Hm1 Hs Hsp Hg).
  Qed.

  (* ---------------------------------------------------------------------------------------- *)
  (* (3) entry based                                                                            *)
  (* ---------------------------------------------------------------------------------------- *)
  Lemma m_entry_good t k occ vac : SAFE t -> OWN t ->
    (forall h i e, mask t <> 0 -> i < nb kv t -> slot kv t i = Some e -> Good (occ h i e)) ->
    (forall h, Good (vac h)) ->
    Good (m_entry B hash_of t k occ vac).
  Proof.
    intros H HA Hocc Hvac. unfold m_entry.
    apply Good_with_hash; [exact H|exact HA|]. intros h.
    destruct (find_cases t h k H) as (r & E & Hr). rewrite E. cbn [bind].
    destruct r as [i|]; [|apply Hvac].
    destruct Hr as (Hm & Hi & e & He & Eref). rewrite Eref. cbn [bind]. apply Hocc; assumption.
  Qed.

  Lemma vacant_insert_good t h e o : SAFE t -> OWN t ->
    Good (vacant_insert B tsize talign needs_drop true hash_of alloc_refuses t h e o).
  Proof.
    intros H HA. unfold vacant_insert.
    pose proof (insert_spec B kv HW HB tsize talign Hts Hta needs_drop HSH t h e alloc_refuses H HA) as Hpost.
    destruct (Raw.insert B kv tsize talign needs_drop HSH true t h e alloc_refuses) as [[[[t1 evs] unw] r]|er];
      cbn [bind].
    - destruct unw; cbn [insert_post] in Hpost.
      + destruct Hpost as (_ & H1 & HA1 & _). unfold unwind. apply Good_ok; assumption.
      + destruct r as [s|]; [|contradiction]. destruct Hpost as (H1 & HA1 & _). apply Good_ok; assumption.
    - destruct er; cbn [insert_post] in Hpost; try contradiction; cbn [Good]; [left|right]; reflexivity.
  Qed.

  (* ---------------------------------------------------------------------------------------- *)
  (* (4) remove_entry based                                                                     *)
  (* ---------------------------------------------------------------------------------------- *)
  Lemma m_remove_entry_good t k mk : SAFE t -> OWN t -> Good (m_remove_entry B hash_of t k mk).
  Proof.
    intros H HA. unfold m_remove_entry.
    apply Good_with_hash; [exact H|exact HA|]. intros h.
    destruct (find_cases t h k H) as (r & E & Hr). rewrite E. cbn [bind].
    destruct r as [i|]; [|apply Good_ok; assumption].
    destruct Hr as (Hm & Hi & e & He & _).
    exact (remove_good t i e mk (fun e => [EvMoveOut e]) H HA Hm Hi He).
  Qed.
  (* ---------------------------------------------------------------------------------------- *)
  (* (5) clear, drop, with_capacity                                                             *)
  (* ---------------------------------------------------------------------------------------- *)
  Lemma clear_good t : SAFE t -> OWN t ->
    Good ('(t1, evs, ok) <- Raw.clear B kv needs_drop drop_ok t ;;
          if ok then Ok (t1, OutUnit, evs) else unwind t1 evs).
  Proof.
    intros H HA.
    destruct (clear_safe B kv HW HB tsize talign needs_drop drop_ok t H) as (t' & evs & ok & E & H' & Em & _).
    rewrite E. cbn [bind]. pose proof (own_same t t' Em HA) as HA'.
    destruct ok; unfold unwind; apply Good_ok; assumption.
  Qed.

  Lemma drop_inner_ok t : SAFE t -> OWN t ->
    exists evs ok, drop_inner_table B kv tsize talign needs_drop drop_ok t = Ok (evs, ok).
  Proof.
    intros H HA.
    destruct (drop_inner_table_spec B kv HW HB tsize talign Hts Hta needs_drop drop_ok t H HA)
      as (evs & ok & E & _).
    exists evs, ok. exact E.
  Qed.

  Lemma fwc_infallible_cases cap : (0 <= cap < 2 ^ 64)%Z ->
    match fallible_with_capacity B kv tsize talign cap alloc_refuses Infallible with
    | Ok (Some nt, _, _) => SAFE nt /\ OWN nt
    | Ok (None, _, _) => False
    | Fail e => benign e
    end.
  Proof.
    intros Hc.
    pose proof (fallible_with_capacity_spec B kv HW tsize talign Hts Hta cap alloc_refuses Infallible Hc) as Hp.
    destruct (fallible_with_capacity B kv tsize talign cap alloc_refuses Infallible) as [[[[nt|] evs] tr]|er].
    - destruct tr; cbn [fwc_post] in Hp; try contradiction.
      destruct Hp as (Hs & _ & _ & _ & _ & _ & Hhow). split; [exact Hs|].
      destruct Hhow as [(_ & -> & _)|(_ & _ & HAl & _)]; [left; reflexivity|right; exact HAl].
    - destruct evs; destruct tr; cbn [fwc_post] in Hp; try contradiction;
        destruct Hp as (C & _); discriminate C.
    - destruct er; cbn [fwc_post] in Hp; try contradiction; [left|right]; reflexivity.
  Qed.

  Lemma with_capacity_good t n : SAFE t -> OWN t -> (0 <= n < 2 ^ 64)%Z ->
    Good (map_step B tsize talign needs_drop true hash_of alloc_refuses t (OpWithCapacity n)).
  Proof.
    intros H HA Hn. cbn [map_step].
    destruct (drop_inner_ok t H HA) as (evs0 & ok & E). rewrite E. cbn [bind].
    pose proof (fwc_infallible_cases n Hn) as Hp.
    destruct (fallible_with_capacity B kv tsize talign n alloc_refuses Infallible) as [[[[nt|] evs] tr]|er];
      cbn [bind].
    - destruct Hp as (H1 & H2). apply Good_ok; assumption.
    - contradiction.
    - exact Hp.
  Qed.

  Lemma drop_map_good t : SAFE t -> OWN t ->
    Good (map_step B tsize talign needs_drop true hash_of alloc_refuses t OpDropMap).
  Proof.
    intros H HA. cbn [map_step].
    destruct (drop_inner_ok t H HA) as (evs0 & ok & E). rewrite E. cbn [bind].
    apply Good_ok; [apply new_table_safe|apply TOwn_new_table].
  Qed.

  (* ---------------------------------------------------------------------------------------- *)
  (* (6) reserve, try_reserve, shrink_to                                                        *)
  (* ---------------------------------------------------------------------------------------- *)
  Lemma reserve_cases t n : SAFE t -> OWN t -> (0 <= n < 2 ^ 64)%Z ->
    match reserve B kv tsize talign needs_drop HSH true t n alloc_refuses with
    | Ok (t', _, _, _) => SAFE t' /\ OWN t'
    | Fail e => benign e
    end.
  Proof.
    intros H HA Hn.
    destruct (reserve_spec B kv HW HB tsize talign Hts Hta needs_drop HSH t n alloc_refuses H HA Hn) as (Hp & _).
    destruct (reserve B kv tsize talign needs_drop HSH true t n alloc_refuses) as [[[[t' evs] tr] unw]|er].
    - destruct tr; [destruct unw|..]; cbn [reserve_post] in Hp.
      + destruct Hp as (H1 & H2 & _). split; assumption.
      + destruct Hp as (H1 & H2 & _). split; assumption.
      + destruct Hp as (_ & -> & _). split; assumption.
      + destruct Hp as (_ & -> & _). split; assumption.
    - destruct er; cbn [reserve_post] in Hp; try contradiction; [left|right]; reflexivity.
  Qed.

  Lemma try_reserve_cases t n : SAFE t -> OWN t -> (0 <= n < 2 ^ 64)%Z ->
    match try_reserve B kv tsize talign needs_drop HSH true t n alloc_refuses with
    | Ok (t', _, _, _) => SAFE t' /\ OWN t'
    | Fail e => benign e
    end.
  Proof.
    intros H HA Hn.
    destruct (try_reserve_spec B kv HW HB tsize talign Hts Hta needs_drop HSH t n alloc_refuses H HA Hn) as (Hp & _).
    destruct (try_reserve B kv tsize talign needs_drop HSH true t n alloc_refuses) as [[[[t' evs] tr] unw]|er].
    - destruct tr; [destruct unw|..]; cbn [reserve_post] in Hp.
      + destruct Hp as (H1 & H2 & _). split; assumption.
      + destruct Hp as (H1 & H2 & _). split; assumption.
      + destruct Hp as (_ & -> & _). split; assumption.
      + destruct Hp as (_ & -> & _). split; assumption.
    - destruct er; cbn [reserve_post] in Hp; try contradiction; [left|right]; reflexivity.
  Qed.

  Lemma tr_out_good t x o : (let '(t1, _, _, _) := x in SAFE t1 /\ OWN t1) -> Good (tr_out t x o).
  Proof.
    destruct x as [[[t1 evs] tr] unw]. intros (H1 & H2). unfold tr_out, unwind.
    destruct unw; apply Good_ok; assumption.
  Qed.

  Lemma shrink_cases t n : SAFE t -> OWN t -> (0 <= n < 2 ^ 64)%Z ->
    match shrink_to B kv tsize talign needs_drop drop_ok HSH t n alloc_refuses with
    | Ok (t', _, _) => SAFE t' /\ OWN t'
    | Fail e => benign e
    end.
  Proof.
    intros H HA Hn.
    pose proof (shrink_to_spec B kv HW HB tsize talign Hts Hta needs_drop drop_ok HSH t n alloc_refuses H HA Hn) as Hp.
    destruct (shrink_to B kv tsize talign needs_drop drop_ok HSH t n alloc_refuses) as [[[t' evs] unw]|er].
    - destruct unw; cbn [shrink_post] in Hp.
      + destruct Hp as (-> & _). split; assumption.
      + destruct Hp as (H1 & H2 & _). split; assumption.
    - destruct er; cbn [shrink_post] in Hp; try contradiction. right. reflexivity.
  Qed.

  Lemma shrink_good t n : SAFE t -> OWN t -> (0 <= n < 2 ^ 64)%Z ->
    Good ('(t1, evs, unw) <- shrink_to B kv tsize talign needs_drop drop_ok HSH t n alloc_refuses ;;
          if unw then unwind t1 evs else Ok (t1, OutUnit, evs)).
  Proof.
    intros H HA Hn. pose proof (shrink_cases t n H HA Hn) as Hp.
    destruct (shrink_to B kv tsize talign needs_drop drop_ok HSH t n alloc_refuses) as [[[t' evs] unw]|er];
      cbn [bind]; [|exact Hp].
    destruct Hp as (H1 & H2). destruct unw; unfold unwind; apply Good_ok; assumption.
  Qed.

  (* ---------------------------------------------------------------------------------------- *)
  (* (7) read-only operations                                                                   *)
  (* ---------------------------------------------------------------------------------------- *)
  Lemma elems_at_ok t idx : (forall i, In i idx -> exists e, slot_ref kv t i = Ok e) ->
    exists es, elems_at t idx = Ok es.
  Proof.
    induction idx as [|i r IH]; intros Hall.
    - exists []. reflexivity.
    - destruct IH as (es & E); [intros j Hj; apply Hall; right; exact Hj|].
      destruct (Hall i (or_introl eq_refl)) as (e & Ee).
      exists (e :: es). unfold elems_at in *. cbn [fold_right]. rewrite E. cbn [bind]. rewrite Ee. reflexivity.
  Qed.

  Lemma full_list_refs t : SAFE t -> forall i, In i (full_list t) -> exists e, slot_ref kv t i = Ok e.
  Proof.
    intros H i Hi. destruct (Nat.eq_dec (mask t) 0) as [Hm|Hm].
    - rewrite (singleton_eq t H Hm) in Hi. rewrite (proj2 (items_singleton B kv HW)) in Hi. destruct Hi.
    - unfold full_list in Hi. apply filter_In in Hi. destruct Hi as [Hi Hf]. apply in_seq in Hi.
      destruct (full_slot_ref t i H Hm ltac:(lia) Hf) as (e & _ & E). exists e. exact E.
  Qed.

  Lemma iter_good t : SAFE t -> OWN t ->
    Good (map_step B tsize talign needs_drop true hash_of alloc_refuses t OpIter).
  Proof.
    intros H HA. cbn [map_step].
    destruct (iter_exact B kv HW HB t H) as (it & En & Ea). rewrite En. cbn [bind]. rewrite Ea. cbn [bind].
    destruct (elems_at_ok t (full_list t) (full_list_refs t H)) as (es & Ee). rewrite Ee. cbn [bind].
    apply Good_ok; assumption.
  Qed.

  Lemma fold_go_good t : SAFE t -> OWN t -> forall p fuel it acc P,
    IterInv B kv t (iter_bound B kv t) it P -> length P < fuel ->
    (forall i, In i acc -> exists e, slot_ref kv t i = Ok e) ->
    (forall i, In i P -> exists e, slot_ref kv t i = Ok e) ->
    Good (fold_go B t fuel p it acc).
  Proof.
    intros H HA. destruct (safe_geo B kv HW t H) as [HSc HF _ _ _ _].
    induction p as [|p IH]; intros fuel it acc P HI Hlen Hacc HP; (destruct fuel as [|f]; [lia|]).
    - cbn [fold_go]. rewrite (iter_fold_spec B kv HW HB t _ it P HSc HF HI). cbn [bind].
      destruct (elems_at_ok t (acc ++ P)) as (es & Ee).
      { intros i Hi. apply in_app_or in Hi. destruct Hi as [Hi|Hi]; [apply Hacc|apply HP]; exact Hi. }
      rewrite Ee. cbn [bind]. apply Good_ok; assumption.
    - cbn [fold_go]. destruct P as [|x rest].
      + rewrite (iter_next_none B kv t _ it HI). cbn [bind].
        destruct (elems_at_ok t acc Hacc) as (es & Ee). rewrite Ee. cbn [bind]. apply Good_ok; assumption.
      + destruct (iter_next_some B kv HW HB t _ it x rest HSc HF HI) as (it' & En & HI').
        rewrite En. cbn [bind]. apply (IH f it' (acc ++ [x]) rest HI').
        * cbn [length] in Hlen. lia.
        * intros i Hi. apply in_app_or in Hi. destruct Hi as [Hi|[<-|[]]]; [apply Hacc; exact Hi|].
          apply HP. left. reflexivity.
        * intros i Hi. apply HP. right. exact Hi.
  Qed.

  Lemma iter_fold_good t p : SAFE t -> OWN t ->
    Good (map_step B tsize talign needs_drop true hash_of alloc_refuses t (OpIterFold p)).
  Proof.
    intros H HA. cbn [map_step].
    destruct (iter_new_inv B kv HW HB t H) as (it & En & HI). rewrite En. cbn [bind].
    change (Good (fold_go B t (S (buckets kv t)) p it [])).
    apply (fold_go_good t H HA p _ it [] (full_list t) HI).
    - pose proof (full_list_le kv t). unfold nb in *. lia.
    - intros i [].
    - apply full_list_refs. exact H.
  Qed.

  Lemma allocation_size_good t : SAFE t -> OWN t ->
    Good (map_step B tsize talign needs_drop true hash_of alloc_refuses t OpAllocationSize).
  Proof.
    intros H HA. cbn [map_step].
    destruct (allocation_size_total B kv tsize talign t HA) as (n & E & _). rewrite E. cbn [bind].
    apply Good_ok; assumption.
  Qed.
  (* ---------------------------------------------------------------------------------------- *)
  (* (8) loops that mutate the table while a RawIter is live                                    *)
  (* ---------------------------------------------------------------------------------------- *)
  (* The iterator `it` was created on an earlier version of the table; `t` is the table now.
     What it still has to yield -- the remaining bits of its private copy of the current group's
     bitmask, then the FULL bytes of the later groups, read lazily from the CURRENT control
     bytes -- is the duplicate-free list P, every member of which is a FULL bucket of t.
     Erasing (or rewriting the element of) a bucket that is NOT in P keeps this true: erase only
     changes the erased byte and its mirror, which lie outside the part still to be scanned. *)
  Definition LoopInv (t : table kv) (it : raw_iter) (P : list nat) : Prop :=
    SAFE t /\ IterInv B kv t (iter_bound B kv t) it P /\ NoDup P /\
    (forall x, In x P -> x < nb kv t /\ is_full (byte kv t x) = true).

  Lemma LoopInv_init t : SAFE t -> exists it, iter_new B kv t = Ok it /\ LoopInv t it (full_list t).
  Proof.
    intros H. destruct (iter_new_inv B kv HW HB t H) as (it & En & HI). exists it. split; [exact En|].
    split; [exact H|]. split; [exact HI|]. split.
    - unfold full_list. apply NoDup_filter, seq_NoDup.
    - intros x Hx. unfold full_list in Hx. apply filter_In in Hx. destruct Hx as [Hx Hf].
      apply in_seq in Hx. split; [lia|exact Hf].
  Qed.

  Lemma fl_ext (t t' : table kv) a n :
    (forall j, a <= j < a + n -> is_full (byte kv t' j) = is_full (byte kv t j)) -> fl t' a n = fl t a n.
  Proof. intros H. unfold fl. apply filter_ext_in. intros j Hj. apply in_seq in Hj. apply H. lia. Qed.

  Lemma LoopInv_nil t it : LoopInv t it [] -> iter_next B kv t it = Ok (None, it).
  Proof. intros (_ & HI & _). exact (iter_next_none B kv t _ it HI). Qed.

  Lemma LoopInv_step t it x rest : LoopInv t it (x :: rest) ->
    exists it', iter_next B kv t it = Ok (Some x, it') /\
      x < nb kv t /\ is_full (byte kv t x) = true /\ mask t <> 0 /\
      forall t', SAFE t' -> mask t' = mask t ->
        (forall j, j < nb kv t -> j <> x -> byte kv t' j = byte kv t j) ->
        LoopInv t' it' rest.
  Proof.
    intros (Hs & HI & Hnd & Hfull).
    destruct (safe_geo B kv HW t Hs) as [HSc HF _ _ _ _].
    destruct (iter_next_some B kv HW HB t _ it x rest HSc HF HI) as (it' & En & HI').
    exists it'. split; [exact En|].
    destruct (Hfull x (or_introl eq_refl)) as [Hx Hfx].
    assert (Hm : mask t <> 0).
    { intros E. pose proof (singleton_eq t Hs E) as Et. rewrite Et in Hx, Hfx.
      rewrite (new_table_bytes_empty B kv HW x Hx) in Hfx. rewrite is_full_EMPTY in Hfx. discriminate Hfx. }
    split; [exact Hx|]. split; [exact Hfx|]. split; [exact Hm|].
    intros t' Hs' Em Hb.
    assert (Enb : nb kv t' = nb kv t) by (unfold nb, buckets; rewrite Em; reflexivity).
    assert (Eb : iter_bound B kv t' = iter_bound B kv t) by (unfold iter_bound; rewrite Enb; reflexivity).
    inversion Hnd as [|? ? Hnotin Hnd']; subst.
    split; [exact Hs'|]. split; [|split; [exact Hnd'|]].
    - rewrite Eb. destruct HI' as (Hst & Hp & Hi & Hb64).
      split; [exact Hst|]. split; [|split; assumption].
      rewrite <- Hp. unfold pending. f_equal. apply fl_ext. intros j Hj.
      assert (Hjx : j < nb kv t /\ j <> x).
      { unfold iter_bound in *. destruct (Nat.leb_spec GW (nb kv t)) as [Hge|Hlt].
        - split; [lia|]. intros ->. apply Hnotin. rewrite <- Hp. unfold pending.
          apply in_or_app. right. unfold fl. apply filter_In. split; [apply in_seq; lia|exact Hfx].
        - exfalso. destruct Hst as (Hn & _ & Hle). lia. }
      rewrite (Hb j (proj1 Hjx) (proj2 Hjx)). reflexivity.
    - intros y Hy. destruct (Hfull y (or_intror Hy)) as [Hy1 Hy2].
      split; [rewrite Enb; exact Hy1|].
      rewrite Hb; [exact Hy2|exact Hy1|]. intros ->. contradiction.
  Qed.

  (* retain *)
  Lemma retain_loop_ok keep bump : forall fuel t it P evs, LoopInv t it P -> length P < fuel ->
    exists t' evs', retain_loop B needs_drop fuel t it keep bump evs = Ok (t', evs') /\
                    SAFE t' /\ mask t' = mask t.
  Proof.
    induction fuel as [|f IH]; intros t it P evs HI Hlen; [lia|].
    cbn [retain_loop]. destruct P as [|x rest].
    - rewrite (LoopInv_nil t it HI). cbn [bind]. exists t, evs. destruct HI as (Hs & _).
      split; [reflexivity|]. split; [exact Hs|reflexivity].
    - destruct (LoopInv_step t it x rest HI) as (it' & En & Hx & Hfx & Hm & Hnext).
      rewrite En. cbn [bind]. destruct HI as (Hs & _).
      destruct (full_slot_ref t x Hs Hm Hx Hfx) as (e & He & Eref). rewrite Eref. cbn [bind]. cbv zeta.
      destruct (slot_write_value_safe B kv t x e (mkKV (k_id e) (k_stamp e) (wadd 64 (v_val e) bump)) Hs Hm Hx He)
        as (t1 & Ew & Hs1 & Em1 & _ & _ & _ & Hb1 & _).
      rewrite Ew. cbn [bind]. cbn [length] in Hlen.
      destruct (existsb (Z.eqb (k_id e)) keep).
      + destruct (IH t1 it' rest evs (Hnext t1 Hs1 Em1 (fun j _ _ => Hb1 j)) ltac:(lia))
          as (t' & evs' & E & Hs' & Em').
        exists t', evs'. split; [exact E|]. split; [exact Hs'|congruence].
      + assert (Hm1 : mask t1 <> 0) by congruence.
        assert (Enb1 : nb kv t1 = nb kv t) by (unfold nb, buckets; rewrite Em1; reflexivity).
        assert (Hfx1 : is_full (byte kv t1 x) = true) by (rewrite Hb1; exact Hfx).
        destruct (erase_drop_safe B kv HW needs_drop t1 x Hs1 Hm1 ltac:(rewrite Enb1; exact Hx) Hfx1)
          as (e2 & t2 & Ee & _ & Hs2 & Em2 & _ & _ & _ & Hb2 & _).
        rewrite Ee. cbn [bind].
        assert (Hinv2 : LoopInv t2 it' rest).
        { apply (Hnext t2 Hs2); [congruence|]. intros j Hj Hne.
          rewrite (proj1 (Hb2 j ltac:(rewrite Enb1; exact Hj) Hne)). apply Hb1. }
        destruct (IH t2 it' rest (evs ++ (if needs_drop then [EvDrop e2] else [])) Hinv2 ltac:(lia))
          as (t' & evs' & E & Hs' & Em').
        exists t', evs'. split; [exact E|]. split; [exact Hs'|congruence].
  Qed.

  (* extract_if *)
  Lemma extract_loop_ok sel : forall fuel t it P n acc evs, LoopInv t it P -> length P < fuel ->
    exists t' acc' evs', extract_loop B fuel t it sel n acc evs = Ok (t', acc', evs') /\
                         SAFE t' /\ mask t' = mask t.
  Proof.
    induction fuel as [|f IH]; intros t it P n acc evs HI Hlen; [lia|].
    destruct n as [|n].
    { exists t, acc, evs. destruct HI as (Hs & _). split; [reflexivity|]. split; [exact Hs|reflexivity]. }
    cbn [extract_loop]. destruct P as [|x rest].
    - rewrite (LoopInv_nil t it HI). cbn [bind]. exists t, acc, evs. destruct HI as (Hs & _).
      split; [reflexivity|]. split; [exact Hs|reflexivity].
    - destruct (LoopInv_step t it x rest HI) as (it' & En & Hx & Hfx & Hm & Hnext).
      rewrite En. cbn [bind]. destruct HI as (Hs & _).
      destruct (full_slot_ref t x Hs Hm Hx Hfx) as (e & He & Eref). rewrite Eref. cbn [bind].
      cbn [length] in Hlen.
      destruct (existsb (Z.eqb (k_id e)) sel).
      + destruct (remove_safe B kv HW t x Hs Hm Hx Hfx) as (e2 & t2 & Er & _ & Hs2 & Em2 & _ & _ & _ & Hb2 & _).
        rewrite Er. cbn [bind].
        assert (Hinv2 : LoopInv t2 it' rest).
        { apply (Hnext t2 Hs2 Em2). intros j Hj Hne. exact (proj1 (Hb2 j Hj Hne)). }
        destruct (IH t2 it' rest n (acc ++ [e2]) (evs ++ [EvMoveOut e2]) Hinv2 ltac:(lia))
          as (t' & acc' & evs' & E & Hs' & Em').
        exists t', acc', evs'. split; [exact E|]. split; [exact Hs'|congruence].
      + destruct (IH t it' rest (S n) acc evs (Hnext t Hs eq_refl (fun j _ _ => eq_refl)) ltac:(lia))
          as (t' & acc' & evs' & E & Hs' & Em').
        exists t', acc', evs'. split; [exact E|]. split; [exact Hs'|exact Em'].
  Qed.

  (* drain *)
  Lemma slot_take_ok (t : table kv) i : mask t <> 0 -> nth i (slots t) None <> None ->
    exists e, slot_take kv t i = Ok (e, with_slots kv t (upd (slots t) i None)) /\ i < length (slots t).
  Proof.
    intros Hm Hi.
    assert (Hlen : i < length (slots t)).
    { destruct (Nat.lt_ge_cases i (length (slots t))) as [|Hge]; [assumption|].
      exfalso. apply Hi. apply nth_overflow. exact Hge. }
    destruct (nth i (slots t) None) as [e|] eqn:Ee; [|congruence].
    exists e. split; [|exact Hlen]. unfold slot_take, slot_ref, is_singleton.
    destruct (Nat.eqb_spec (mask t) 0); [contradiction|].
    rewrite (nth_error_nth' (slots t) None Hlen), Ee. reflexivity.
  Qed.

  Definition SameGeo (t t' : table kv) : Prop :=
    mask t' = mask t /\ ctrl t' = ctrl t /\ length (slots t') = length (slots t).

  Lemma take_all_ok : forall idx (t : table kv), mask t <> 0 -> NoDup idx ->
    (forall i, In i idx -> nth i (slots t) None <> None) ->
    exists es t', take_all kv t idx = Ok (es, t') /\ SameGeo t t'.
  Proof.
    induction idx as [|i r IH]; intros t Hm Hnd Hfull.
    - exists [], t. split; [reflexivity|]. repeat split.
    - cbn [take_all].
      destruct (slot_take_ok t i Hm (Hfull i (or_introl eq_refl))) as (e & E & Hlen). rewrite E. cbn [bind].
      inversion Hnd as [|? ? Hnotin Hnd']; subst.
      destruct (IH (with_slots kv t (upd (slots t) i None))) as (es & t' & E' & Em & Ec & El).
      + exact Hm.
      + exact Hnd'.
      + intros j Hj. cbn [slots with_slots]. rewrite nth_upd by exact Hlen.
        destruct (Nat.eqb_spec j i) as [->|]; [contradiction|]. apply Hfull. right. exact Hj.
      + rewrite E'. cbn [bind]. exists (e :: es), t'. split; [reflexivity|].
        cbn [mask ctrl slots with_slots] in Em, Ec, El. rewrite upd_length in El by exact Hlen.
        split; [exact Em|]. split; [exact Ec|exact El].
  Qed.

  Lemma take_n_ok : forall n idx (t : table kv), mask t <> 0 -> NoDup idx ->
    (forall i, In i idx -> nth i (slots t) None <> None) ->
    exists es rest t', take_n t idx n = Ok (es, rest, t') /\ SameGeo t t' /\ mask t' <> 0 /\
      NoDup rest /\ (forall i, In i rest -> nth i (slots t') None <> None).
  Proof.
    induction n as [|n IH]; intros idx t Hm Hnd Hfull.
    - exists [], idx, t. split; [destruct idx; reflexivity|]. split; [repeat split|]. split; [exact Hm|]. split; assumption.
    - destruct idx as [|i r].
      + exists [], [], t. split; [reflexivity|]. split; [repeat split|]. split; [exact Hm|]. split; assumption.
      + cbn [take_n].
        destruct (slot_take_ok t i Hm (Hfull i (or_introl eq_refl))) as (e & E & Hlen). rewrite E. cbn [bind].
        inversion Hnd as [|? ? Hnotin Hnd']; subst.
        destruct (IH r (with_slots kv t (upd (slots t) i None))) as (es & rest & t' & E' & (Em & Ec & El) & Hm' & Hnd2 & Hf2).
        * exact Hm.
        * exact Hnd'.
        * intros j Hj. cbn [slots with_slots]. rewrite nth_upd by exact Hlen.
          destruct (Nat.eqb_spec j i) as [->|]; [contradiction|]. apply Hfull. right. exact Hj.
        * rewrite E'. cbn [bind]. exists (e :: es), rest, t'. split; [reflexivity|].
          cbn [mask ctrl slots with_slots] in Em, Ec, El. rewrite upd_length in El by exact Hlen.
          split; [split; [exact Em|split; [exact Ec|exact El]]|]. split; [exact Hm'|]. split; assumption.
  Qed.

  Lemma m_drain_good t n : SAFE t -> OWN t -> Good (m_drain B needs_drop t n).
  Proof.
    intros H HA. unfold m_drain.
    destruct (iter_exact B kv HW HB t H) as (it & En & Ea). rewrite En. cbn [bind]. rewrite Ea. cbn [bind].
    destruct (Nat.eq_dec (mask t) 0) as [Hm|Hm].
    - pose proof (singleton_eq t H Hm) as Et. rewrite Et.
      rewrite (proj2 (items_singleton B kv HW)).
      assert (Etn : take_n (new_table B kv) [] n = Ok ([], [], new_table B kv)) by (destruct n; reflexivity).
      rewrite Etn. cbn [bind take_all]. rewrite (clear_no_drop_singleton B kv).
      apply Good_ok; [apply new_table_safe|apply TOwn_new_table].
    - destruct (SafeWF_alloc B kv t H Hm) as (HSh & _ & (_ & _ & _ & Hsl)).
      assert (Hfull : forall i, In i (full_list t) -> nth i (slots t) None <> None).
      { intros i Hin. unfold full_list in Hin. apply filter_In in Hin. destruct Hin as [Hin Hf].
        apply in_seq in Hin. apply (Hsl i ltac:(lia)). exact Hf. }
      assert (Hnd : NoDup (full_list t)) by (unfold full_list; apply NoDup_filter, seq_NoDup).
      destruct (take_n_ok n (full_list t) t Hm Hnd Hfull)
        as (taken & rest & t1 & E1 & (Em1 & Ec1 & El1) & Hm1 & Hnd1 & Hf1).
      rewrite E1. cbn [bind].
      destruct (take_all_ok rest t1 Hm1 Hnd1 Hf1) as (dropped & t2 & E2 & (Em2 & Ec2 & El2)).
      rewrite E2. cbn [bind].
      assert (HG : Geometry B kv t2).
      { destruct (Shape_Geometry B kv t HSh) as (G1 & G2 & G3).
        unfold Geometry, nb, buckets in *. rewrite Em2, Em1, Ec2, Ec1, El2, El1.
        split; [exact G1|split; assumption]. }
      destruct (clear_no_drop_geometry B kv t2 HG) as (S1 & S2 & _).
      apply Good_ok; [exact S1|]. apply (own_same t); [congruence|exact HA].
  Qed.

  (* extend *)
  Lemma extend_loop_good : forall kvs t touched evs, SAFE t -> OWN t ->
    Good (extend_loop B tsize talign needs_drop true hash_of alloc_refuses t kvs touched evs).
  Proof.
    induction kvs as [|e r IH]; intros t touched evs H HA.
    - cbn [extend_loop]. apply Good_ok; assumption.
    - cbn [extend_loop].
      pose proof (m_insert_good t (k_id e) (k_stamp e) (v_val e) H HA) as Hi.
      destruct (m_insert B tsize talign needs_drop true hash_of alloc_refuses t (k_id e) (k_stamp e) (v_val e))
        as [[[t1 o] evs1]|er]; cbn [bind]; [|exact Hi].
      destruct Hi as (H1 & HA1).
      destruct o; try (apply IH; assumption). apply Good_ok; assumption.
  Qed.

  Lemma extend_reserve_range (b : bool) (n : nat) : (zn n < 2 ^ 62)%Z ->
    (0 <= map_extend_reserve b (zn n) < 2 ^ 64)%Z.
  Proof.
    intros Hn. unfold map_extend_reserve. rewrite two_p_62 in Hn. rewrite two_p_64.
    assert (0 <= zn n)%Z by (unfold zn; lia).
    destruct b; [lia|].
    unfold wadd. rewrite wrap_small by (rewrite two_p_64; lia).
    rewrite ?Z.shiftr_div_pow2 by lia. change (2 ^ 1)%Z with 2%Z.
    split; [apply Z.div_pos; lia|]. apply Z.div_lt_upper_bound; lia.
  Qed.
  (* ---------------------------------------------------------------------------------------- *)
  (* every operation                                                                            *)
  (* ---------------------------------------------------------------------------------------- *)
  Local Notation STEP t op := (map_step B tsize talign needs_drop true hash_of alloc_refuses t op).

  Theorem map_step_good t op : op_args_ok op -> SAFE t -> OWN t -> Good (STEP t op).
  Proof.
    intros Hargs H HA.
    destruct op as [n|k stamp v|k|k|k|k newv|k|k|k stamp v|k stamp v|k stamp v|k stamp|k stamp add v|k stamp|
                    |n|n|n| |keep bump|kvs|n|sel n| |p| | | | |k stamp|k stamp|k|k|k stamp|k stamp fk|k|k stamp];
      cbn [op_args_ok] in Hargs.
    - (* OpWithCapacity *) exact (with_capacity_good t n H HA Hargs).
    - (* OpInsert *) cbn [map_step]. apply m_insert_good; assumption.
    - (* OpGet *) cbn [map_step].
      apply get_inner_good; [exact H|exact HA|cbv beta; apply Good_ok; assumption|].
      intros i e _ _ _. cbv beta. apply Good_ok; assumption.
    - (* OpGetKeyValue *) cbn [map_step].
      apply get_inner_good; [exact H|exact HA|cbv beta; apply Good_ok; assumption|].
      intros i e _ _ _. cbv beta. apply Good_ok; assumption.
    - (* OpContains *) cbn [map_step].
      apply get_inner_good; [exact H|exact HA|cbv beta; apply Good_ok; assumption|].
      intros i e _ _ _. cbv beta. apply Good_ok; assumption.
    - (* OpGetMut *) cbn [map_step].
      apply get_inner_good; [exact H|exact HA|cbv beta iota; apply Good_ok; assumption|].
      intros i e Hm Hi He. cbv beta iota. exact (write_good t i e _ _ _ H HA Hm Hi He).
    - (* OpRemove *) cbn [map_step]. apply m_remove_entry_good; assumption.
    - (* OpRemoveEntry *) cbn [map_step]. apply m_remove_entry_good; assumption.
    - (* OpTryInsert *) cbn [map_step]. apply m_entry_good; [exact H|exact HA| |].
      + intros h i e _ _ _. apply Good_ok; assumption.
      + intros h. apply vacant_insert_good; assumption.
    - (* OpEntryOrInsert *) cbn [map_step]. apply m_entry_good; [exact H|exact HA| |].
      + intros h i e _ _ _. apply Good_ok; assumption.
      + intros h. apply vacant_insert_good; assumption.
    - (* OpEntryInsert *) cbn [map_step]. apply m_entry_good; [exact H|exact HA| |].
      + intros h i e Hm Hi He. exact (write_good t i e _ _ _ H HA Hm Hi He).
      + intros h. apply vacant_insert_good; assumption.
    - (* OpEntryRemove *) cbn [map_step]. apply m_entry_good; [exact H|exact HA| |].
      + intros h i e Hm Hi He.
        exact (remove_good t i e (fun e => OutKV (k_stamp e) (v_val e)) (fun e => [EvMoveOut e]) H HA Hm Hi He).
      + intros h. apply Good_ok; assumption.
    - (* OpEntryAndModify *) cbn [map_step]. apply m_entry_good; [exact H|exact HA| |].
      + intros h i e Hm Hi He. cbv zeta. exact (write_good t i e _ _ _ H HA Hm Hi He).
      + intros h. apply vacant_insert_good; assumption.
    - (* OpEntryDrop *) cbn [map_step]. apply m_entry_good; [exact H|exact HA| |].
      + intros h i e _ _ _. apply Good_ok; assumption.
      + intros h. apply Good_ok; assumption.
    - (* OpClear *) exact (clear_good t H HA).
    - (* OpReserve *) cbn [map_step]. pose proof (reserve_cases t n H HA Hargs) as Hp.
      destruct (reserve B kv tsize talign needs_drop HSH true t n alloc_refuses) as [x|er];
        cbn [bind]; [|exact Hp].
      apply tr_out_good. destruct x as [[[t1 evs] tr] unw]. exact Hp.
    - (* OpTryReserve *) cbn [map_step]. pose proof (try_reserve_cases t n H HA Hargs) as Hp.
      destruct (try_reserve B kv tsize talign needs_drop HSH true t n alloc_refuses) as [x|er];
        cbn [bind]; [|exact Hp].
      apply tr_out_good. destruct x as [[[t1 evs] tr] unw]. exact Hp.
    - (* OpShrinkTo *) exact (shrink_good t n H HA Hargs).
    - (* OpShrinkToFit *) exact (shrink_good t 0%Z H HA (conj (Z.le_refl 0) eq_refl)).
    - (* OpRetain *) cbn [map_step].
      destruct (LoopInv_init t H) as (it & En & HI). rewrite En. cbn [bind].
      destruct (retain_loop_ok keep bump (S (buckets kv t)) t it (full_list t) [] HI) as (t' & evs' & E & H' & Em).
      { pose proof (full_list_le kv t). unfold nb in *. lia. }
      rewrite E. cbn [bind]. apply Good_ok; [exact H'|exact (own_same t t' Em HA)].
    - (* OpExtend *) cbn [map_step]. cbv zeta.
      pose proof (reserve_cases t _ H HA (extend_reserve_range (items t =? 0)%Z (length kvs) Hargs)) as Hp.
      match type of Hp with match ?r with _ => _ end => destruct r as [[[[t1 evs] tr] unw]|er] end;
        cbn [bind]; [|exact Hp].
      destruct Hp as (H1 & HA1).
      destruct unw; [unfold unwind; apply Good_ok; assumption|apply extend_loop_good; assumption].
    - (* OpDrain *) exact (m_drain_good t n H HA).
    - (* OpExtractIf *) cbn [map_step].
      destruct (LoopInv_init t H) as (it & En & HI). rewrite En. cbn [bind].
      destruct (extract_loop_ok sel (S (buckets kv t)) t it (full_list t) n [] [] HI)
        as (t' & acc' & evs' & E & H' & Em).
      { pose proof (full_list_le kv t). unfold nb in *. lia. }
      rewrite E. cbn [bind]. apply Good_ok; [exact H'|exact (own_same t t' Em HA)].
    - (* OpIter *) exact (iter_good t H HA).
    - (* OpIterFold *) exact (iter_fold_good t p H HA).
    - (* OpLen *) cbn [map_step]. apply Good_ok; assumption.
    - (* OpCapacity *) cbn [map_step]. apply Good_ok; assumption.
    - (* OpAllocationSize *) exact (allocation_size_good t H HA).
    - (* OpDropMap *) exact (drop_map_good t H HA).
    - (* OpSetInsert *) cbn [map_step].
      exact (Good_post _ (fun o => match o with OutNone => OutBool true | OutVal _ => OutBool false | x => x end)
               (fun evs => evs) (m_insert_good t k stamp 0%Z H HA)).
    - (* OpSetReplace *) cbn [map_step]. apply m_find_or_slot_good; [exact H|exact HA| |].
      + intros t1 i e evs H1 HA1 Hm1 Hi He. exact (write_good t1 i e _ _ _ H1 HA1 Hm1 Hi He).
      + intros t1 h s evs H1 HA1 Hm1 Hs Hsp Hg. exact (insert_in_slot_good t1 h s _ _ _ H1 HA1 Hm1 Hs Hsp Hg).
    - (* OpSetTake *) cbn [map_step]. apply m_remove_entry_good; assumption.
    - (* OpSetGet *) cbn [map_step].
      apply get_inner_good; [exact H|exact HA|cbv beta; apply Good_ok; assumption|].
      intros i e _ _ _. cbv beta. apply Good_ok; assumption.
    - (* OpSetGetOrInsert *) cbn [map_step]. apply m_find_or_slot_good; [exact H|exact HA| |].
      + intros t1 i e evs H1 HA1 _ _ _. apply Good_ok; assumption.
      + intros t1 h s evs H1 HA1 Hm1 Hs Hsp Hg. exact (insert_in_slot_good t1 h s _ _ _ H1 HA1 Hm1 Hs Hsp Hg).
    - (* OpSetGetOrInsertWith *) cbn [map_step]. apply m_find_or_slot_good; [exact H|exact HA| |].
      + intros t1 i e evs H1 HA1 _ _ _. apply Good_ok; assumption.
      + intros t1 h s evs H1 HA1 Hm1 Hs Hsp Hg. destruct (Z.eqb fk k).
        * exact (insert_in_slot_good t1 h s _ _ _ H1 HA1 Hm1 Hs Hsp Hg).
        * apply Good_ok; assumption.
    - (* OpSetRemove *) cbn [map_step].
      exact (Good_post _ (fun o => match o with OutNone => OutBool false | x => x end)
               (fun evs => flat_map (fun e => match e with
                                              | EvMoveOut x => if needs_drop then [EvDrop x] else []
                                              | y => [y] end) evs)
               (m_remove_entry_good t k (fun _ => OutBool true) H HA)).
    - (* OpSetToggle *) cbn [map_step]. apply m_find_or_slot_good; [exact H|exact HA| |].
      + intros t1 i e evs H1 HA1 Hm1 Hi He.
        exact (remove_good t1 i e (fun _ => OutBool false)
                 (fun e' => evs ++ (if needs_drop then [EvDrop e'] else [])) H1 HA1 Hm1 Hi He).
      + intros t1 h s evs H1 HA1 Hm1 Hs Hsp Hg. exact (insert_in_slot_good t1 h s _ _ _ H1 HA1 Hm1 Hs Hsp Hg).
  Qed.
End MapStepSafe.

(* ------------------------------------------------------------------------------------------ *)
(* the safety theorem                                                                           *)
(* ------------------------------------------------------------------------------------------ *)
Theorem map_step_safe :
  forall (B : backend) (tsize talign : Z) (needs_drop : bool) (hash_of : Z -> option Z) (alloc_refuses : bool)
         (t : table kv) (op : map_op),
  WidthOK B -> BackendSpec B -> LayoutOK tsize talign -> op_args_ok op ->
  SafeWF B kv t -> TOwn B kv tsize talign t ->
  match map_step B tsize talign needs_drop true hash_of alloc_refuses t op with
  | Ok (t', o, evs) => SafeWF B kv t' /\ TOwn B kv tsize talign t'
  | Fail e => benign e
  end.
Proof.
  intros B tsize talign needs_drop hash_of alloc_refuses t op HW HB HL Hargs H HA.
  exact (map_step_good B HW HB tsize talign HL needs_drop hash_of alloc_refuses t op Hargs H HA).
Qed.

(* ------------------------------------------------------------------------------------------ *)
(* histories                                                                                    *)
(* ------------------------------------------------------------------------------------------ *)
(* a history: each operation comes with the allocator's answer for that step; the run stops at
   the first failure *)
Fixpoint run (B : backend) (tsize talign : Z) (needs_drop : bool) (hash_of : Z -> option Z)
         (t : table kv) (ops : list (map_op * bool)) : res (table kv) :=
  match ops with
  | [] => Ok t
  | (op, ar) :: r =>
      match map_step B tsize talign needs_drop true hash_of ar t op with
      | Ok (t', _, _) => run B tsize talign needs_drop hash_of t' r
      | Fail e => Fail e
      end
  end.

(* the same with a hasher that may behave differently at every step (interior state) *)
Fixpoint run_var (B : backend) (tsize talign : Z) (needs_drop : bool)
         (t : table kv) (ops : list (map_op * bool * (Z -> option Z))) : res (table kv) :=
  match ops with
  | [] => Ok t
  | (op, ar, hash_of) :: r =>
      match map_step B tsize talign needs_drop true hash_of ar t op with
      | Ok (t', _, _) => run_var B tsize talign needs_drop t' r
      | Fail e => Fail e
      end
  end.

Section Histories.
  Variable B : backend.
  Hypothesis HW : WidthOK B.
  Hypothesis HB : BackendSpec B.
  Variable tsize talign : Z.
  Hypothesis HL : LayoutOK tsize talign.
  Variable needs_drop : bool.

  Definition GoodT (r : res (table kv)) : Prop :=
    match r with
    | Ok t' => SafeWF B kv t' /\ TOwn B kv tsize talign t'
    | Fail e => benign e
    end.

  Lemma run_var_safe_from : forall ops t,
    (forall op, In op (map (fun x => fst (fst x)) ops) -> op_args_ok op) ->
    SafeWF B kv t -> TOwn B kv tsize talign t ->
    GoodT (run_var B tsize talign needs_drop t ops).
  Proof.
    induction ops as [|[[op ar] hash_of] r IH]; intros t Hargs H HA.
    - cbn [run_var GoodT]. split; assumption.
    - cbn [run_var].
      pose proof (map_step_safe B tsize talign needs_drop hash_of ar t op HW HB HL
                    (Hargs op (or_introl eq_refl)) H HA) as Hstep.
      destruct (map_step B tsize talign needs_drop true hash_of ar t op) as [[[t' o] evs]|e].
      + destruct Hstep as (H' & HA'). apply IH; [|exact H'|exact HA'].
        intros op' Hin. apply Hargs. right. exact Hin.
      + exact Hstep.
  Qed.

  Lemma run_as_run_var hash_of : forall ops t,
    run B tsize talign needs_drop hash_of t ops =
    run_var B tsize talign needs_drop t (map (fun x => (fst x, snd x, hash_of)) ops).
  Proof.
    induction ops as [|[op ar] r IH]; intros t; [reflexivity|].
    cbn [run run_var map fst snd].
    destruct (map_step B tsize talign needs_drop true hash_of ar t op) as [[[t' o] evs]|e]; [apply IH|reflexivity].
  Qed.

  Lemma run_safe_from hash_of ops t :
    (forall op, In op (map fst ops) -> op_args_ok op) ->
    SafeWF B kv t -> TOwn B kv tsize talign t ->
    GoodT (run B tsize talign needs_drop hash_of t ops).
  Proof.
    intros Hargs H HA. rewrite run_as_run_var. apply run_var_safe_from; [|exact H|exact HA].
    intros op Hin. apply Hargs. rewrite map_map in Hin. cbn [fst] in Hin. exact Hin.
  Qed.
End Histories.

Theorem run_safe :
  forall (B : backend) (tsize talign : Z) (needs_drop : bool) (hash_of : Z -> option Z)
         (ops : list (map_op * bool)),
  WidthOK B -> BackendSpec B -> LayoutOK tsize talign ->
  (forall op, In op (map fst ops) -> op_args_ok op) ->
  match run B tsize talign needs_drop hash_of (new_table B kv) ops with
  | Ok t' => SafeWF B kv t' /\ TOwn B kv tsize talign t'
  | Fail e => benign e
  end.
Proof.
  intros B tsize talign needs_drop hash_of ops HW HB HL Hargs.
  apply (run_safe_from B HW HB tsize talign HL needs_drop hash_of ops (new_table B kv) Hargs).
  - apply new_table_safe.
  - apply TOwn_new_table.
Qed.

Theorem run_var_safe :
  forall (B : backend) (tsize talign : Z) (needs_drop : bool)
         (ops : list (map_op * bool * (Z -> option Z))),
  WidthOK B -> BackendSpec B -> LayoutOK tsize talign ->
  (forall op, In op (map (fun x => fst (fst x)) ops) -> op_args_ok op) ->
  match run_var B tsize talign needs_drop (new_table B kv) ops with
  | Ok t' => SafeWF B kv t' /\ TOwn B kv tsize talign t'
  | Fail e => benign e
  end.
Proof.
  intros B tsize talign needs_drop ops HW HB HL Hargs.
  apply (run_var_safe_from B HW HB tsize talign HL needs_drop ops (new_table B kv) Hargs).
  - apply new_table_safe.
  - apply TOwn_new_table.
Qed.

(* `len` is exact in every reachable state *)
Corollary run_len_exact :
  forall (B : backend) (tsize talign : Z) (needs_drop : bool) (hash_of : Z -> option Z)
         (ops : list (map_op * bool)),
  WidthOK B -> BackendSpec B -> LayoutOK tsize talign ->
  (forall op, In op (map fst ops) -> op_args_ok op) ->
  match run B tsize talign needs_drop hash_of (new_table B kv) ops with
  | Ok t' => items t' = Z.of_nat (length (occupants kv t'))
  | Fail e => benign e
  end.
Proof.
  intros B tsize talign needs_drop hash_of ops HW HB HL Hargs.
  pose proof (run_safe B tsize talign needs_drop hash_of ops HW HB HL Hargs) as H.
  destruct (run B tsize talign needs_drop hash_of (new_table B kv) ops) as [t'|e]; [|exact H].
  destruct H as (H & _).
  rewrite (occupants_length_items B kv t' H).
  pose proof (SafeWF_items_bound B kv t' H) as Hb. lia.
Qed.

Print Assumptions map_step_safe.
Print Assumptions run_safe.
Print Assumptions run_var_safe.
Print Assumptions run_len_exact.
