(* FindFacts.v -- what the lookups return on a well-formed table.
   F1: find is sound and total (SafeWF);  F2: find is complete (WF);  F3: unique key / absence;
   F5: reach_ok is monotone (turning EMPTY/DELETED into FULL harms nobody's reachability);
   F4: the same for find_or_find_insert_slot_inner, plus reachability of the returned insert slot
       (also for find_insert_slot).

   The query is a hash and a pure predicate P on elements, passed as the callback
   pure_eq P = fun e => Ok (P e). *)
From Coq Require Import ZArith List Bool Lia.
From HB Require Import RsPrelude Sse2 Gen Group Raw Check ArithFacts Triangular WFDefs GroupFacts ProbeFacts.
Import ListNotations.
Open Scope nat_scope.

Definition pure_eq {T : Type} (P : T -> bool) : T -> res bool := fun e => Ok (P e).

Lemma pure_eq_unfold {T : Type} (P : T -> bool) : pure_eq P = fun e => Ok (P e).
Proof. reflexivity. Qed.

(* ---------------------------------------------------------------------------------------- *)
(* arithmetic of windows                                                                      *)
(* ---------------------------------------------------------------------------------------- *)
Lemma mod_window p b n : p < n -> b < n -> ((p + b) mod n + n - p) mod n = b.
Proof.
  intros Hp Hb. destruct (Nat.lt_ge_cases (p + b) n).
  - rewrite (Nat.mod_small (p + b)) by assumption.
    replace (p + b + n - p) with (b + 1 * n) by lia.
    rewrite Nat.mod_add by lia. apply Nat.mod_small; assumption.
  - rewrite (mod_wrap_once (p + b) n) by lia.
    replace (p + b - n + n - p) with b by lia. apply Nat.mod_small; assumption.
Qed.

Lemma mod_unwindow p i n : p < n -> i < n -> (p + (i + n - p) mod n) mod n = i.
Proof.
  intros Hp Hi. rewrite Nat.add_mod_idemp_r by lia.
  replace (p + (i + n - p)) with (i + 1 * n) by lia.
  rewrite Nat.mod_add by lia. apply Nat.mod_small. assumption.
Qed.

Lemma first_index_None p g : first_index p g = None ->
  forall j, j < length g -> p (nth j g 0%Z) = false.
Proof.
  intros H j Hj. destruct (p (nth j g 0%Z)) eqn:E; [|reflexivity].
  destruct (first_index_le p g j Hj E) as (i & Ei & _). congruence.
Qed.

Lemma full_not_empty b : is_full b = true -> b <> EMPTY.
Proof. intros H ->. discriminate H. Qed.

Section Find.
  Variable B : backend.
  Variable T : Type.
  Hypothesis HW : WidthOK B.
  Hypothesis HB : BackendSpec B.
  Local Notation GW := (bk_width B).

  Lemma SafeWF_parts t : mask t <> 0 -> SafeWF B T t -> Shape B T t /\ Mirror B T t /\ Count T t.
  Proof.
    intros Hnz H. unfold SafeWF in H. destruct (Nat.eqb_spec (mask t) 0); [contradiction|exact H].
  Qed.

  (* the loops that do not depend on any invariant *)
  Lemma scan_matches_None t eq pos bits : scan_matches T t eq pos bits = Ok None ->
    forall b, In b bits -> eq (n_land (pos + b) (mask t)) = Ok false.
  Proof.
    induction bits as [|b0 r IH]; intros H b Hb; [destruct Hb|].
    cbn [scan_matches] in H. destruct (eq (n_land (pos + b0) (mask t))) as [[|]|] eqn:E; cbn [bind] in H;
      try discriminate H.
    destruct Hb as [<-|Hb]; [exact E|]. apply IH; assumption.
  Qed.

  (* find_or_find_insert_slot_inner finds exactly what find_inner finds *)
  Lemma foi_of_find t tag eq : forall n ins pos stride i,
    find_inner_loop B T n t tag eq pos stride = Ok (Some i) ->
    find_or_insert_loop B T n t tag eq ins pos stride = Ok (inl i).
  Proof.
    induction n as [|n IH]; intros ins pos stride i H; [discriminate H|].
    cbn [find_inner_loop find_or_insert_loop] in *.
    destruct (load B T t pos) as [g|]; cbn [bind] in *; [|discriminate H].
    destruct (scan_matches T t eq pos (g_match_tag B g tag)) as [[i0|]|]; cbn [bind] in *;
      [congruence| |discriminate H].
    destruct (g_any_empty B g); [discriminate H|].
    destruct (n_move_next GW (mask t) pos stride) as [p' s']. apply IH. exact H.
  Qed.

  Lemma find_of_foi t tag eq : forall n ins pos stride i,
    find_or_insert_loop B T n t tag eq ins pos stride = Ok (inl i) ->
    find_inner_loop B T n t tag eq pos stride = Ok (Some i).
  Proof.
    induction n as [|n IH]; intros ins pos stride i H; [discriminate H|].
    cbn [find_inner_loop find_or_insert_loop] in *.
    destruct (load B T t pos) as [g|]; cbn [bind] in *; [|discriminate H].
    destruct (scan_matches T t eq pos (g_match_tag B g tag)) as [[i0|]|]; cbn [bind] in *;
      [congruence| |discriminate H].
    destruct (g_any_empty B g).
    - exfalso.
      destruct (match ins with Some s => Some s | None => find_insert_slot_in_group B T t g pos end) as [s|];
        [|discriminate H].
      destruct (fix_insert_slot B T t s); cbn [bind] in H; discriminate H.
    - destruct (n_move_next GW (mask t) pos stride) as [p' s']. apply IH in H. exact H.
  Qed.

  (* ---------------------------------------------------------------------------------------- *)
  (* one table                                                                                  *)
  (* ---------------------------------------------------------------------------------------- *)
  Section OneTable.
    Variable t : table T.
    Hypothesis HS : Shape B T t.
    Hypothesis HM : Mirror B T t.

    Let HMask : MaskOK (mask t) := Shape_MaskOK B T t HS.
    Let Hnb2 : 2 <= nb T t := Shape_nb_ge2 B T t HS.

    Lemma small_window x : nb T t < GW -> x mod nb T t < GW.
    Proof. intros H. pose proof (Nat.mod_upper_bound x (nb T t)). lia. Qed.

    Lemma window_false_big i pos : ((i + nb T t - pos) mod nb T t <? GW) = false -> GW <= nb T t.
    Proof.
      intros H. apply Nat.ltb_ge in H. destruct (Nat.le_gt_cases GW (nb T t)) as [|Hs]; [assumption|].
      pose proof (small_window (i + nb T t - pos) Hs). lia.
    Qed.

    Lemma move_next_lt pos stride : fst (n_move_next GW (mask t) pos stride) < nb T t.
    Proof. apply n_move_next_lt. exact HMask. Qed.

    Lemma land_mod x : n_land x (mask t) = x mod nb T t.
    Proof. apply n_land_mod. exact HMask. Qed.

    (* the byte of bucket i inside the group whose window contains i *)
    Lemma window_bit pos i g : pos < nb T t -> i < nb T t -> load B T t pos = Ok g ->
      (i + nb T t - pos) mod nb T t < GW ->
      exists b, b < GW /\ nth b g 0%Z = byte T t i /\ (pos + b) mod nb T t = i.
    Proof.
      intros Hpos Hi Hg Hw.
      destruct (Nat.le_gt_cases GW (nb T t)) as [Hbig|Hsmall].
      - exists ((i + nb T t - pos) mod nb T t). split; [exact Hw|].
        pose proof (mod_unwindow pos i (nb T t) Hpos Hi) as E.
        split; [|exact E]. rewrite (view_big B T t pos g HS HM Hpos Hbig Hg _ Hw). rewrite E. reflexivity.
      - destruct (Nat.le_gt_cases pos i) as [Hle|Hgt].
        + exists (i - pos). split; [lia|].
          rewrite (view_small B T t pos g HS HM Hpos Hsmall Hg (i - pos)) by lia.
          replace (pos + (i - pos)) with i by lia.
          destruct (Nat.ltb_spec i (nb T t)); [|lia]. split; [reflexivity|apply Nat.mod_small; exact Hi].
        + exists (GW + i - pos). split; [lia|].
          rewrite (view_small B T t pos g HS HM Hpos Hsmall Hg (GW + i - pos)) by lia.
          replace (pos + (GW + i - pos)) with (GW + i) by lia.
          destruct (Nat.ltb_spec (GW + i) (nb T t)); [lia|].
          destruct (Nat.ltb_spec (GW + i) GW); [lia|]. split; [f_equal; lia|].
          destruct (small_divides (mask t) GW HMask HW Hsmall) as (q & Eq).
          change (S (mask t)) with (nb T t) in Eq.
          replace (GW + i) with (i + q * nb T t) by lia.
          rewrite Nat.mod_add by lia. apply Nat.mod_small. exact Hi.
    Qed.

    (* a group of a table at least as large as a group holds no EMPTY iff no bucket of its window does *)
    Lemma group_no_empty_big pos g : pos < nb T t -> GW <= nb T t -> load B T t pos = Ok g ->
      (g_any_empty B g = false <-> forall j, j < GW -> byte T t ((pos + j) mod nb T t) <> EMPTY).
    Proof.
      intros Hpos Hbig Hg.
      pose proof (load_group_ok B T t pos g HS ltac:(lia) Hg) as Hok.
      rewrite (bs_any_empty B HB g Hok). split.
      - intros He j Hj Ej.
        rewrite <- (view_big B T t pos g HS HM Hpos Hbig Hg j Hj) in Ej.
        assert (Ht : existsb is_empty g = true).
        { apply existsb_exists. exists (nth j g 0%Z). split; [apply nth_In; destruct Hok as [-> _]; exact Hj|].
          rewrite Ej. reflexivity. }
        congruence.
      - intros Hne. destruct (existsb is_empty g) eqn:Ee; [exfalso|reflexivity].
        apply existsb_exists in Ee as (x & Hin & Hx).
        destruct (In_nth g x 0%Z Hin) as (j & Hj & Ej). destruct Hok as [Hlen _]. rewrite Hlen in Hj.
        apply (Hne j Hj). rewrite <- (view_big B T t pos g HS HM Hpos Hbig Hg j Hj), Ej.
        apply Z.eqb_eq. exact Hx.
    Qed.

    Lemma load_some pos : pos < nb T t -> exists g, load B T t pos = Ok g /\ group_ok GW g.
    Proof.
      intros Hpos. destruct (load_view B T t pos HS HM Hpos) as (g & Hg & _ & Hok & _).
      exists g. split; assumption.
    Qed.

    (* ---- the callback built from a pure predicate ---- *)
    Lemma singleton_false : is_singleton T t = false.
    Proof. unfold is_singleton. apply Nat.eqb_neq. apply (Shape_mask_nz B T t HS). Qed.

    Lemma slot_nth_error i : i < nb T t -> nth_error (slots t) i = Some (slot T t i).
    Proof. intros Hi. pose proof HS as (_ & _ & Hl & _). unfold slot. apply nth_error_nth'. lia. Qed.

    Variable P : T -> bool.

    Lemma eq_at_live i e : i < nb T t -> slot T t i = Some e -> eq_at T t (pure_eq P) i = Ok (P e).
    Proof.
      intros Hi E. unfold eq_at, slot_ref. rewrite singleton_false, (slot_nth_error i Hi), E. reflexivity.
    Qed.

    Lemma eq_at_true i : i < nb T t -> eq_at T t (pure_eq P) i = Ok true ->
      exists e, slot T t i = Some e /\ P e = true.
    Proof.
      intros Hi H. unfold eq_at, slot_ref in H. rewrite singleton_false, (slot_nth_error i Hi) in H.
      destruct (slot T t i) as [e|]; [|discriminate H]. cbn [bind] in H. unfold pure_eq in H.
      exists e. split; [reflexivity|congruence].
    Qed.

    Lemma eq_at_answers : Count T t ->
      forall i, i < nb T t -> is_full (byte T t i) = true -> exists b, eq_at T t (pure_eq P) i = Ok b.
    Proof.
      intros (_ & _ & _ & Hc) i Hi Hf. apply (proj2 (Hc i Hi)) in Hf.
      destruct (slot T t i) as [e|] eqn:E; [|congruence]. exists (P e). apply eq_at_live; assumption.
    Qed.

    (* ---- F1 ---- *)
    Lemma find_total_parts hash : Count T t -> exists r, find B T t hash (pure_eq P) = Ok r.
    Proof.
      intros HC. unfold find.
      destruct (find_inner_terminates B T HW HB t HS HM HC hash _ (eq_at_answers HC)) as (r & E & _).
      exists r. exact E.
    Qed.

    Lemma find_sound_parts hash i : Count T t -> find B T t hash (pure_eq P) = Ok (Some i) ->
      i < nb T t /\ exists e, slot T t i = Some e /\ P e = true.
    Proof.
      intros HC H. unfold find in H.
      destruct (find_inner_terminates B T HW HB t HS HM HC hash _ (eq_at_answers HC)) as (r & E & Hr).
      rewrite E in H. injection H as ->. destruct (Hr i eq_refl) as (Hi & Ht).
      split; [exact Hi|]. apply eq_at_true; assumption.
    Qed.

    (* ---- F2: lockstep of reach_loop and find_inner_loop ---- *)
    Lemma find_loop_complete eq tag i : (0 <= tag < 128)%Z ->
      (forall k, k < nb T t -> is_full (byte T t k) = true -> exists b, eq k = Ok b) ->
      i < nb T t -> byte T t i = tag -> eq i = Ok true ->
      forall n pos stride, pos < nb T t -> reach_loop B T n t i pos stride = true ->
      exists i', find_inner_loop B T n t tag eq pos stride = Ok (Some i') /\ i' < nb T t /\ eq i' = Ok true.
    Proof.
      intros Htag Heq Hi Hbyte Hmatch. induction n as [|n IH]; intros pos stride Hpos H; [discriminate H|].
      cbn [reach_loop] in H. cbn [find_inner_loop]. change (buckets T t) with (nb T t) in H.
      destruct (load_some pos Hpos) as (g & Hg & Hok). rewrite Hg in *. cbn [bind].
      destruct (scan_group_ok B T HW HB t HS HM eq Heq pos g tag Hpos Hg Htag) as (r & Hr & Hspec).
      rewrite Hr. cbn [bind]. destruct r as [i0|].
      - exists i0. split; [reflexivity|]. exact (Hspec i0 eq_refl).
      - destruct (Nat.ltb_spec ((i + nb T t - pos) mod nb T t) GW) as [Hw|Hw].
        + exfalso. destruct (window_bit pos i g Hpos Hi Hg Hw) as (b & Hb & Eb & Ei).
          assert (Hin : In b (g_match_tag B g tag)).
          { apply (bs_match_tag_complete B HB g tag b Hok Htag Hb). rewrite Eb. exact Hbyte. }
          pose proof (scan_matches_None t eq pos _ Hr b Hin) as Hf.
          rewrite land_mod, Ei in Hf. congruence.
        + destruct (g_any_empty B g); [discriminate H|].
          pose proof (move_next_lt pos stride) as Hlt.
          destruct (n_move_next GW (mask t) pos stride) as [p' s']. cbn [fst] in Hlt.
          apply IH; assumption.
    Qed.

    Variable h : T -> option Z.

    Lemma find_complete_parts hash i e : Count T t -> Tags T h t -> Reach B T h t ->
      i < nb T t -> slot T t i = Some e -> h e = Some hash -> P e = true ->
      exists i' e', find B T t hash (pure_eq P) = Ok (Some i') /\ slot T t i' = Some e' /\ P e' = true.
    Proof.
      intros HC HT HR Hi He Hh HP.
      pose proof (eq_at_live i e Hi He) as Hm. rewrite HP in Hm.
      destruct (find_loop_complete (eq_at T t (pure_eq P)) (tag_full hash) i (tag_full_range hash)
                  (eq_at_answers HC) Hi (HT i e hash Hi He Hh) Hm
                  (probe_fuel B T t) (n_probe_start (mask t) hash) 0
                  (n_probe_start_lt (mask t) hash HMask) (HR i e hash Hi He Hh)) as (i' & E & Hi' & Ht).
      destruct (eq_at_true i' Hi' Ht) as (e' & He' & HP').
      exists i', e'. split; [exact E|]. split; assumption.
    Qed.
  End OneTable.

  (* ---------------------------------------------------------------------------------------- *)
  (* F1 - F3, packaged                                                                          *)
  (* ---------------------------------------------------------------------------------------- *)
  Section Packaged.
    Variable t : table T.
    Hypothesis Hnz : mask t <> 0.
    Variable P : T -> bool.
    Variable hash : Z.

    (* F1: find never fails, and only returns live elements that satisfy the predicate *)
    Theorem find_total : SafeWF B T t -> exists r, find B T t hash (pure_eq P) = Ok r.
    Proof. intros H. destruct (SafeWF_parts t Hnz H) as (HS & HM & HC). apply find_total_parts; assumption. Qed.

    Theorem find_sound i : SafeWF B T t -> find B T t hash (pure_eq P) = Ok (Some i) ->
      i < nb T t /\ exists e, slot T t i = Some e /\ P e = true.
    Proof. intros H. destruct (SafeWF_parts t Hnz H) as (HS & HM & HC). apply find_sound_parts; assumption. Qed.

    Variable h : T -> option Z.

    (* F2: a live element with this hash that satisfies the predicate is never missed *)
    Theorem find_complete i e : WF B T h t ->
      i < nb T t -> slot T t i = Some e -> h e = Some hash -> P e = true ->
      exists i' e', find B T t hash (pure_eq P) = Ok (Some i') /\ slot T t i' = Some e' /\ P e' = true.
    Proof.
      intros (H & HT & HR). destruct (SafeWF_parts t Hnz H) as (HS & HM & HC).
      apply (find_complete_parts t HS HM P h); assumption.
    Qed.

    Definition AtMostOne : Prop :=
      forall i1 i2 e1 e2, slot T t i1 = Some e1 -> slot T t i2 = Some e2 ->
                          P e1 = true -> P e2 = true -> i1 = i2.

    (* F3: with at most one live match, find returns exactly its bucket *)
    Theorem find_unique i e : WF B T h t -> AtMostOne ->
      i < nb T t -> slot T t i = Some e -> h e = Some hash -> P e = true ->
      find B T t hash (pure_eq P) = Ok (Some i).
    Proof.
      intros HWF Hu Hi He Hh HP.
      destruct (find_complete i e HWF Hi He Hh HP) as (i' & e' & E & He' & HP').
      rewrite (Hu i i' e e' He He' HP HP'). exact E.
    Qed.

    (* F3, absence: no live match, no result (needs no assumption on the hash function) *)
    Theorem find_absent : SafeWF B T t ->
      (forall i e, slot T t i = Some e -> P e = false) ->
      find B T t hash (pure_eq P) = Ok None.
    Proof.
      intros H Hno. destruct (find_total H) as ([i|] & E); [|exact E].
      destruct (find_sound i H E) as (_ & e & He & HP). rewrite (Hno i e He) in HP. discriminate HP.
    Qed.

    (* the exact characterisation of the result *)
    Corollary find_some_iff : WF B T h t -> (forall e, P e = true -> h e = Some hash) ->
      ((exists i, find B T t hash (pure_eq P) = Ok (Some i)) <->
       (exists i e, i < nb T t /\ slot T t i = Some e /\ P e = true)).
    Proof.
      intros HWF HPh. split.
      - intros (i & E). destruct (find_sound i (proj1 HWF) E) as (Hi & e & He & HP). exists i, e. auto.
      - intros (i & e & Hi & He & HP).
        destruct (find_complete i e HWF Hi He (HPh e HP) HP) as (i' & _ & E & _). exists i'. exact E.
    Qed.
  End Packaged.

  (* ---------------------------------------------------------------------------------------- *)
  (* F5: reachability is monotone in the set of EMPTY bytes                                     *)
  (* ---------------------------------------------------------------------------------------- *)
  Definition NoNewEmpty (t t' : table T) : Prop :=
    mask t' = mask t /\ Shape B T t' /\ Mirror B T t' /\
    forall j, j < nb T t -> byte T t' j = EMPTY -> byte T t j = EMPTY.

  Lemma same_mask_nb (t t' : table T) : mask t' = mask t -> nb T t' = nb T t.
  Proof. intros E. unfold nb, buckets. rewrite E. reflexivity. Qed.

  Lemma same_mask_fuel (t t' : table T) : mask t' = mask t -> probe_fuel B T t' = probe_fuel B T t.
  Proof. intros E. unfold probe_fuel, buckets. rewrite E. reflexivity. Qed.

  Lemma reach_loop_mono t t' i : Shape B T t -> Mirror B T t -> NoNewEmpty t t' ->
    forall n pos stride, pos < nb T t ->
      reach_loop B T n t i pos stride = true -> reach_loop B T n t' i pos stride = true.
  Proof.
    intros HS HM (Hmask & HS' & HM' & Hne). pose proof (same_mask_nb t t' Hmask) as Hnb.
    induction n as [|n IH]; intros pos stride Hpos H; [discriminate H|].
    cbn [reach_loop] in *. change (buckets T t) with (nb T t) in H.
    change (buckets T t') with (nb T t'). rewrite Hnb, Hmask.
    destruct ((i + nb T t - pos) mod nb T t <? GW) eqn:Ew; [reflexivity|].
    pose proof (window_false_big t HS i pos Ew) as Hbig.
    destruct (load_some t HS HM pos Hpos) as (g & Hg & Hok). rewrite Hg in H.
    destruct (load_some t' HS' HM' pos ltac:(lia)) as (g' & Hg' & Hok'). rewrite Hg'.
    destruct (g_any_empty B g) eqn:Ee; [discriminate H|].
    assert (Ee' : g_any_empty B g' = false).
    { apply (group_no_empty_big t' HS' HM' pos g'); [lia|lia|exact Hg'|].
      intros j Hj Ej. rewrite Hnb in Ej.
      apply Hne in Ej; [|apply Nat.mod_upper_bound; pose proof (Shape_nb_ge2 B T t HS); lia].
      exact (proj1 (group_no_empty_big t HS HM pos g Hpos Hbig Hg) Ee j Hj Ej). }
    rewrite Ee'. pose proof (move_next_lt t HS pos stride) as Hlt.
    destruct (n_move_next GW (mask t) pos stride) as [p' s']. cbn [fst] in Hlt. apply IH; assumption.
  Qed.

  (* F5 *)
  Theorem reach_ok_mono t t' hash i : Shape B T t -> Mirror B T t -> NoNewEmpty t t' ->
    reach_ok B T t hash i = true -> reach_ok B T t' hash i = true.
  Proof.
    intros HS HM Hn H. pose proof Hn as (Hmask & _). unfold reach_ok in *.
    rewrite (same_mask_fuel t t' Hmask), Hmask.
    apply (reach_loop_mono t t' i HS HM Hn); [|exact H].
    apply n_probe_start_lt. apply (Shape_MaskOK B T t HS).
  Qed.

  (* ---------------------------------------------------------------------------------------- *)
  (* F4: insert slots                                                                           *)
  (* ---------------------------------------------------------------------------------------- *)
  (* t' is t with the control byte of bucket s overwritten by a FULL byte (and its replica) *)
  Definition SameButFull (t t' : table T) (s : nat) : Prop :=
    mask t' = mask t /\ Shape B T t' /\ Mirror B T t' /\ is_full (byte T t' s) = true /\
    forall j, j < nb T t -> j <> s -> byte T t' j = byte T t j.

  (* once a slot is recorded, the result is fix_insert_slot of it *)
  Lemma foi_Some_fix t tag eq s : forall n pos stride s0,
    find_or_insert_loop B T n t tag eq (Some s0) pos stride = Ok (inr s) ->
    fix_insert_slot B T t s0 = Ok s.
  Proof.
    induction n as [|n IH]; intros pos stride s0 H; [discriminate H|].
    cbn [find_or_insert_loop] in H.
    destruct (load B T t pos) as [g|]; cbn [bind] in H; [|discriminate H].
    destruct (scan_matches T t eq pos (g_match_tag B g tag)) as [[i0|]|]; cbn [bind] in H;
      try discriminate H.
    destruct (g_any_empty B g).
    - destruct (fix_insert_slot B T t s0); cbn [bind] in H; [congruence|discriminate H].
    - destruct (n_move_next GW (mask t) pos stride) as [p' s']. apply (IH _ _ _ H).
  Qed.

  Section InsertSlot.
    Variable t : table T.
    Hypothesis HS : Shape B T t.
    Hypothesis HM : Mirror B T t.

    (* the slot chosen in a group lies in the window of that group *)
    Lemma in_group_window pos g s0 s : pos < nb T t -> load B T t pos = Ok g ->
      find_insert_slot_in_group B T t g pos = Some s0 -> fix_insert_slot B T t s0 = Ok s ->
      (s + nb T t - pos) mod nb T t < GW.
    Proof.
      intros Hpos Hg Hs0 Hfix.
      destruct (Nat.le_gt_cases GW (nb T t)) as [Hbig|Hsmall]; [|apply (small_window t HS); assumption].
      pose proof (load_group_ok B T t pos g HS ltac:(lia) Hg) as Hok.
      unfold find_insert_slot_in_group in Hs0. rewrite (bs_lowest_eod B HB g Hok) in Hs0.
      destruct (first_index is_special g) as [bit|] eqn:Eb; [|discriminate Hs0]. injection Hs0 as <-.
      destruct (first_index_Some _ _ _ Eb) as (Hlt & Hsp). destruct Hok as [Hlen _]. rewrite Hlen in Hlt.
      rewrite (land_mod t HS) in Hfix.
      assert (Hlt' : (pos + bit) mod nb T t < nb T t) by (apply Nat.mod_upper_bound; lia).
      unfold fix_insert_slot, is_bucket_full in Hfix.
      rewrite (ctrl_at_ok B T t HS _ Hlt') in Hfix. cbn [bind] in Hfix.
      rewrite <- (view_big B T t pos g HS HM Hpos Hbig Hg bit Hlt) in Hfix.
      rewrite is_special_negb_full in Hsp. destruct (is_full (nth bit g 0%Z)); [discriminate Hsp|].
      assert (Es : s = (pos + bit) mod nb T t) by congruence. rewrite Es.
      rewrite mod_window by lia. exact Hlt.
    Qed.

    Lemma in_group_none_full pos g : pos < nb T t -> load B T t pos = Ok g ->
      find_insert_slot_in_group B T t g pos = None -> forall j, j < GW -> is_full (nth j g 0%Z) = true.
    Proof.
      intros Hpos Hg Hn j Hj.
      pose proof (load_group_ok B T t pos g HS ltac:(lia) Hg) as Hok.
      unfold find_insert_slot_in_group in Hn. rewrite (bs_lowest_eod B HB g Hok) in Hn.
      destruct (first_index is_special g) as [bit|] eqn:Eb; [discriminate Hn|].
      destruct Hok as [Hlen _].
      pose proof (first_index_None is_special g Eb j ltac:(lia)) as Hsp.
      rewrite is_special_negb_full in Hsp. destruct (is_full (nth j g 0%Z)); [reflexivity|discriminate Hsp].
    Qed.

    Variable t' : table T.
    Variable s : nat.
    Hypothesis Hsame : SameButFull t t' s.

    Let Hmask : mask t' = mask t := proj1 Hsame.
    Let Hnb : nb T t' = nb T t := same_mask_nb t t' (proj1 Hsame).

    (* a group of t made of FULL bytes only is, in t', still free of EMPTY bytes *)
    Lemma full_group_no_empty pos g g' : pos < nb T t -> GW <= nb T t ->
      load B T t pos = Ok g -> (forall j, j < GW -> is_full (nth j g 0%Z) = true) ->
      load B T t' pos = Ok g' -> g_any_empty B g' = false.
    Proof.
      intros Hpos Hbig Hg Hall Hg'. pose proof Hsame as (_ & HS' & HM' & Hfull & Hother).
      apply (group_no_empty_big t' HS' HM' pos g'); [lia|lia|exact Hg'|].
      intros j Hj. rewrite Hnb.
      assert (Hk : (pos + j) mod nb T t < nb T t) by (apply Nat.mod_upper_bound; lia).
      destruct (Nat.eq_dec ((pos + j) mod nb T t) s) as [Es|Hne].
      - rewrite Es. apply full_not_empty. exact Hfull.
      - rewrite (Hother _ Hk Hne). rewrite <- (view_big B T t pos g HS HM Hpos Hbig Hg j Hj).
        apply full_not_empty. apply Hall. exact Hj.
    Qed.

    Lemma foi_None_reach tag eq : forall n pos stride, pos < nb T t ->
      find_or_insert_loop B T n t tag eq None pos stride = Ok (inr s) ->
      reach_loop B T n t' s pos stride = true.
    Proof.
      induction n as [|n IH]; intros pos stride Hpos H; [discriminate H|].
      cbn [find_or_insert_loop] in H. cbn [reach_loop]. change (buckets T t') with (nb T t'). rewrite Hnb.
      destruct (load_some t HS HM pos Hpos) as (g & Hg & Hok). rewrite Hg in H. cbn [bind] in H.
      destruct (scan_matches T t eq pos (g_match_tag B g tag)) as [[i0|]|]; cbn [bind] in H;
        try discriminate H.
      destruct (find_insert_slot_in_group B T t g pos) as [s0|] eqn:Es.
      - assert (Hfix : fix_insert_slot B T t s0 = Ok s).
        { destruct (g_any_empty B g).
          - destruct (fix_insert_slot B T t s0); cbn [bind] in H; [congruence|discriminate H].
          - destruct (n_move_next GW (mask t) pos stride) as [p' s'].
            apply (foi_Some_fix t tag eq s n p' s' s0 H). }
        pose proof (in_group_window pos g s0 s Hpos Hg Es Hfix) as Hw.
        destruct (Nat.ltb_spec ((s + nb T t - pos) mod nb T t) GW); [reflexivity|lia].
      - destruct (g_any_empty B g) eqn:Ee; [discriminate H|].
        destruct ((s + nb T t - pos) mod nb T t <? GW) eqn:Ew; [reflexivity|].
        pose proof (window_false_big t HS s pos Ew) as Hbig.
        destruct (load_some t' (proj1 (proj2 Hsame)) (proj1 (proj2 (proj2 Hsame))) pos ltac:(lia))
          as (g' & Hg' & _).
        rewrite Hg'.
        rewrite (full_group_no_empty pos g g' Hpos Hbig Hg (in_group_none_full pos g Hpos Hg Es) Hg').
        rewrite Hmask. pose proof (move_next_lt t HS pos stride) as Hlt.
        destruct (n_move_next GW (mask t) pos stride) as [p' s']. cbn [fst] in Hlt. apply IH; assumption.
    Qed.

    Lemma fis_reach : forall n pos stride, pos < nb T t ->
      find_insert_slot_loop B T n t pos stride = Ok s ->
      reach_loop B T n t' s pos stride = true.
    Proof.
      induction n as [|n IH]; intros pos stride Hpos H; [discriminate H|].
      cbn [find_insert_slot_loop] in H. cbn [reach_loop]. change (buckets T t') with (nb T t'). rewrite Hnb.
      destruct (load_some t HS HM pos Hpos) as (g & Hg & Hok). rewrite Hg in H. cbn [bind] in H.
      destruct (find_insert_slot_in_group B T t g pos) as [s0|] eqn:Es.
      - pose proof (in_group_window pos g s0 s Hpos Hg Es H) as Hw.
        destruct (Nat.ltb_spec ((s + nb T t - pos) mod nb T t) GW); [reflexivity|lia].
      - destruct ((s + nb T t - pos) mod nb T t <? GW) eqn:Ew; [reflexivity|].
        pose proof (window_false_big t HS s pos Ew) as Hbig.
        destruct (load_some t' (proj1 (proj2 Hsame)) (proj1 (proj2 (proj2 Hsame))) pos ltac:(lia))
          as (g' & Hg' & _).
        rewrite Hg'.
        rewrite (full_group_no_empty pos g g' Hpos Hbig Hg (in_group_none_full pos g Hpos Hg Es) Hg').
        rewrite Hmask. pose proof (move_next_lt t HS pos stride) as Hlt.
        destruct (n_move_next GW (mask t) pos stride) as [p' s']. cbn [fst] in Hlt. apply IH; assumption.
    Qed.
  End InsertSlot.

  (* F4, reachability of the insert slot: after the slot's control byte has been overwritten by a
     FULL byte, the slot is reachable from the hash it was searched with.  (Any callback.) *)
  Theorem foi_slot_reachable t t' hash eq s : Shape B T t -> Mirror B T t ->
    find_or_find_insert_slot_inner B T t hash eq = Ok (inr s) -> SameButFull t t' s ->
    reach_ok B T t' hash s = true.
  Proof.
    intros HS HM H Hsame. pose proof Hsame as (Hmask & _). unfold reach_ok.
    rewrite (same_mask_fuel t t' Hmask), Hmask.
    apply (foi_None_reach t HS HM t' s Hsame (tag_full hash) eq); [|exact H].
    apply n_probe_start_lt. apply (Shape_MaskOK B T t HS).
  Qed.

  Theorem find_insert_slot_reachable t t' hash s : Shape B T t -> Mirror B T t ->
    find_insert_slot B T t hash = Ok s -> SameButFull t t' s ->
    reach_ok B T t' hash s = true.
  Proof.
    intros HS HM H Hsame. pose proof Hsame as (Hmask & _). unfold reach_ok.
    rewrite (same_mask_fuel t t' Hmask), Hmask.
    apply (fis_reach t HS HM t' s Hsame); [|exact H].
    apply n_probe_start_lt. apply (Shape_MaskOK B T t HS).
  Qed.

  (* find_or_find_insert_slot_inner answers inl exactly when find_inner answers Some *)
  Lemma foi_inl_iff_find t hash eq i :
    find_or_find_insert_slot_inner B T t hash eq = Ok (inl i) <-> find_inner B T t hash eq = Ok (Some i).
  Proof.
    unfold find_or_find_insert_slot_inner, find_inner. split; [apply find_of_foi|apply foi_of_find].
  Qed.

  Section Packaged4.
    Variable t : table T.
    Hypothesis Hnz : mask t <> 0.
    Variable P : T -> bool.
    Variable hash : Z.
    Local Notation FOI := (find_or_find_insert_slot_inner B T t hash (eq_at T t (pure_eq P))).

    (* F4.1: never fails; inl is a live element satisfying P; inr is a real EMPTY/DELETED bucket *)
    Theorem foi_total : SafeWF B T t -> exists r, FOI = Ok r.
    Proof.
      intros H. destruct (SafeWF_parts t Hnz H) as (HS & HM & HC).
      destruct (find_or_find_insert_slot_inner_terminates B T HW HB t HS HM HC hash _
                  (eq_at_answers t HS P HC)) as (r & E & _).
      exists r. exact E.
    Qed.

    Theorem foi_found_sound i : SafeWF B T t -> FOI = Ok (inl i) ->
      i < nb T t /\ exists e, slot T t i = Some e /\ P e = true.
    Proof.
      intros H E. apply foi_inl_iff_find in E. exact (find_sound t Hnz P hash i H E).
    Qed.

    Theorem foi_slot_sound s : SafeWF B T t -> FOI = Ok (inr s) ->
      s < nb T t /\ is_special (byte T t s) = true.
    Proof.
      intros H E. destruct (SafeWF_parts t Hnz H) as (HS & HM & HC).
      destruct (find_or_find_insert_slot_inner_terminates B T HW HB t HS HM HC hash _
                  (eq_at_answers t HS P HC)) as (r & E' & Hr).
      rewrite E in E'. injection E' as <-. exact Hr.
    Qed.

    Theorem foi_slot_reach s t' : SafeWF B T t -> FOI = Ok (inr s) -> SameButFull t t' s ->
      reach_ok B T t' hash s = true.
    Proof.
      intros H E. destruct (SafeWF_parts t Hnz H) as (HS & HM & HC).
      apply (foi_slot_reachable t t' hash _ s HS HM E).
    Qed.

    Theorem insert_slot_reach s t' : SafeWF B T t -> find_insert_slot B T t hash = Ok s ->
      SameButFull t t' s -> reach_ok B T t' hash s = true.
    Proof.
      intros H E. destruct (SafeWF_parts t Hnz H) as (HS & HM & HC).
      apply (find_insert_slot_reachable t t' hash s HS HM E).
    Qed.

    Variable h : T -> option Z.

    (* F4.2: a live element with this hash satisfying P is never missed *)
    Theorem foi_complete i e : WF B T h t ->
      i < nb T t -> slot T t i = Some e -> h e = Some hash -> P e = true ->
      exists i' e', FOI = Ok (inl i') /\ slot T t i' = Some e' /\ P e' = true.
    Proof.
      intros HWF Hi He Hh HP.
      destruct (find_complete t Hnz P hash h i e HWF Hi He Hh HP) as (i' & e' & E & He' & HP').
      exists i', e'. split; [|split; assumption]. apply foi_inl_iff_find. exact E.
    Qed.

    (* ... so an inr answer means that no live element with this hash satisfies P *)
    Corollary foi_slot_no_match s : WF B T h t -> FOI = Ok (inr s) ->
      forall i e, i < nb T t -> slot T t i = Some e -> h e = Some hash -> P e = false.
    Proof.
      intros HWF E i e Hi He Hh. destruct (P e) eqn:HP; [exfalso|reflexivity].
      destruct (foi_complete i e HWF Hi He Hh HP) as (i' & _ & E' & _). rewrite E in E'. discriminate E'.
    Qed.

    (* F4.3 *)
    Theorem foi_unique i e : WF B T h t -> AtMostOne t P ->
      i < nb T t -> slot T t i = Some e -> h e = Some hash -> P e = true ->
      FOI = Ok (inl i).
    Proof.
      intros HWF Hu Hi He Hh HP. apply foi_inl_iff_find.
      exact (find_unique t Hnz P hash h i e HWF Hu Hi He Hh HP).
    Qed.

    Theorem foi_absent : SafeWF B T t ->
      (forall i e, slot T t i = Some e -> P e = false) ->
      exists s, FOI = Ok (inr s) /\ s < nb T t /\ is_special (byte T t s) = true /\
                forall t', SameButFull t t' s -> reach_ok B T t' hash s = true.
    Proof.
      intros H Hno. destruct (foi_total H) as ([i|s] & E).
      - destruct (foi_found_sound i H E) as (_ & e & He & HP). rewrite (Hno i e He) in HP. discriminate HP.
      - exists s. split; [exact E|]. destruct (foi_slot_sound s H E) as (Hs & Hsp).
        split; [exact Hs|]. split; [exact Hsp|]. intros t' Hsame. exact (foi_slot_reach s t' H E Hsame).
    Qed.

    Corollary foi_inl_iff : WF B T h t -> (forall e, P e = true -> h e = Some hash) ->
      ((exists i, FOI = Ok (inl i)) <->
       (exists i e, i < nb T t /\ slot T t i = Some e /\ P e = true)).
    Proof.
      intros HWF HPh. split.
      - intros (i & E). destruct (foi_found_sound i (proj1 HWF) E) as (Hi & e & He & HP). exists i, e. auto.
      - intros (i & e & Hi & He & HP).
        destruct (foi_complete i e HWF Hi He (HPh e HP) HP) as (i' & _ & E & _). exists i'. exact E.
    Qed.
  End Packaged4.
End Find.

Print Assumptions find_total.
Print Assumptions find_sound.
Print Assumptions find_complete.
Print Assumptions find_unique.
Print Assumptions find_absent.
Print Assumptions find_some_iff.
Print Assumptions reach_ok_mono.
Print Assumptions foi_slot_reachable.
Print Assumptions find_insert_slot_reachable.
Print Assumptions foi_total.
Print Assumptions foi_found_sound.
Print Assumptions foi_slot_sound.
Print Assumptions foi_slot_reach.
Print Assumptions insert_slot_reach.
Print Assumptions foi_complete.
Print Assumptions foi_slot_no_match.
Print Assumptions foi_unique.
Print Assumptions foi_absent.
Print Assumptions foi_inl_iff.
