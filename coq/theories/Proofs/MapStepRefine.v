(* MapStepRefine.v -- REFINEMENT (property C01 at model level): every operation of `map_step`,
   started in a table that is well-formed for the hash function and represents the association
   list s, returns exactly an output the reference map (Spec/AssocSpec.v) accepts, and ends in a
   well-formed table that represents the reference's new contents, each key once.  For every
   total (never panicking) deterministic hash function, constant ones included.  No axioms. *)
From Coq Require Import ZArith List Bool Lia Permutation.
From HB Require Import RsPrelude Sse2 Gen Group Raw Map Check AssocSpec ArithFacts WFDefs GroupFacts ProbeFacts
  IterFacts SafeInsertErase SafeAllocClear FindFacts ResizeFacts WFInsertRemove RawOpsSafe RawOpsWF
  MapDefs AssocFacts MapRefineBase MapRefineLoops.
Import ListNotations.
Open Scope nat_scope.

Section Refine.
  Variable B : backend.
  Hypothesis HW : WidthOK B.
  Hypothesis HB : BackendSpec B.
  Variable tsize talign : Z.
  Hypothesis HL : LayoutOK tsize talign.
  Variable needs_drop : bool.
  Variable hash_of : Z -> option Z.
  Hypothesis Htot : TotalHash hash_of.
  Variable alloc_refuses : bool.

  Let Hts : (0 <= tsize < 2 ^ 64)%Z := proj1 HL.
  Let Hta : exists a : Z, (0 <= a <= 62)%Z /\ talign = (2 ^ a)%Z := proj2 HL.

  Local Notation GW := (bk_width B).
  Local Notation h := (hasher hash_of).
  Local Notation OWN := (TOwn B kv tsize talign).
  Local Notation INV := (Inv B tsize talign hash_of).
  Local Notation STEP := (map_step B tsize talign needs_drop true hash_of alloc_refuses).

  Local Notation get_inner_ok' := (get_inner_ok B HW HB tsize talign hash_of Htot).
  Local Notation m_entry_ok' := (m_entry_ok B HW HB tsize talign hash_of Htot).
  Local Notation write_ok' := (write_ok B tsize talign hash_of).
  Local Notation remove_ok' := (remove_ok B HW HB tsize talign hash_of).
  Local Notation vacant_insert_ok' := (vacant_insert_ok B HW HB tsize talign HL needs_drop hash_of Htot alloc_refuses).
  Local Notation m_find_or_slot_ok' := (m_find_or_slot_ok B HW HB tsize talign HL needs_drop hash_of Htot alloc_refuses).
  Local Notation m_insert_ok' := (m_insert_ok B HW HB tsize talign HL needs_drop hash_of Htot alloc_refuses).
  Local Notation m_remove_entry_ok' := (m_remove_entry_ok B HW HB tsize talign hash_of Htot).
  Local Notation h_total' := (h_total hash_of Htot).

  (* the output is accepted by the reference map and the new table represents its new contents *)
  Definition Refines (s : spec) (op : map_op) (t' : table kv) (o : out) : Prop :=
    is_unwind o = false /\ exists s', spec_accepts s op o = Some s' /\ INV t' s'.

  (* the one side condition (see the report at the end of the file): HashSet::insert on a present
     key stores the value () again; with values modelled as integers this is only the identity
     when the stored value is 0, which is what every HashSet holds *)
  Definition op_pre (s : spec) (op : map_op) : Prop :=
    match op with
    | OpSetInsert k _ => forall e, lookup s k = Some e -> v_val e = 0%Z
    | _ => True
    end.

  Ltac done_with El HI :=
    split; [reflexivity|]; eexists; split;
    [cbn [spec_accepts]; rewrite ?El; first [apply expect_refl; exact I | reflexivity] | exact HI].

  Ltac use_get_inner t s k HI E Hg :=
    match type of E with
    | get_inner _ _ _ _ ?f = _ => pose proof (get_inner_ok' t s k f HI) as Hg
    end.

  Ltac use_entry t s k HI E hv Hh Hc :=
    match type of E with
    | m_entry _ _ _ _ ?occ ?vac = _ => destruct (m_entry_ok' t s k occ vac HI) as (hv & Hh & Hc)
    end.

  (* ---------------------------------------------------------------------------------------- *)
  (* (1) lookups and counters                                                                   *)
  (* ---------------------------------------------------------------------------------------- *)
  Lemma ref_get t s k t' o evs : INV t s -> STEP t (OpGet k) = Ok (t', o, evs) -> Refines s (OpGet k) t' o.
  Proof.
    intros HI E. cbn [map_step] in E. use_get_inner t s k HI E Hg.
    destruct (lookup s k) as [e|] eqn:El.
    - destruct Hg as (i & _ & _ & _ & _ & Eg). rewrite Eg in E. injection E as <- <- <-. done_with El HI.
    - rewrite Hg in E. injection E as <- <- <-. done_with El HI.
  Qed.

  Lemma ref_get_key_value t s k t' o evs : INV t s -> STEP t (OpGetKeyValue k) = Ok (t', o, evs) ->
    Refines s (OpGetKeyValue k) t' o.
  Proof.
    intros HI E. cbn [map_step] in E. use_get_inner t s k HI E Hg.
    destruct (lookup s k) as [e|] eqn:El.
    - destruct Hg as (i & _ & _ & _ & _ & Eg). rewrite Eg in E. injection E as <- <- <-. done_with El HI.
    - rewrite Hg in E. injection E as <- <- <-. done_with El HI.
  Qed.

  Lemma ref_contains t s k t' o evs : INV t s -> STEP t (OpContains k) = Ok (t', o, evs) ->
    Refines s (OpContains k) t' o.
  Proof.
    intros HI E. cbn [map_step] in E. use_get_inner t s k HI E Hg.
    destruct (lookup s k) as [e|] eqn:El.
    - destruct Hg as (i & _ & _ & _ & _ & Eg). rewrite Eg in E. injection E as <- <- <-. done_with El HI.
    - rewrite Hg in E. injection E as <- <- <-. done_with El HI.
  Qed.

  Lemma ref_set_get t s k t' o evs : INV t s -> STEP t (OpSetGet k) = Ok (t', o, evs) ->
    Refines s (OpSetGet k) t' o.
  Proof.
    intros HI E. cbn [map_step] in E. use_get_inner t s k HI E Hg.
    destruct (lookup s k) as [e|] eqn:El.
    - destruct Hg as (i & _ & _ & _ & _ & Eg). rewrite Eg in E. injection E as <- <- <-. done_with El HI.
    - rewrite Hg in E. injection E as <- <- <-. done_with El HI.
  Qed.

  Lemma ref_get_mut t s k nv t' o evs : INV t s -> STEP t (OpGetMut k nv) = Ok (t', o, evs) ->
    Refines s (OpGetMut k nv) t' o.
  Proof.
    intros HI E. cbn [map_step] in E. use_get_inner t s k HI E Hg.
    destruct (lookup s k) as [e|] eqn:El.
    - destruct Hg as (i & Hm & Hi & He & Hk & Eg). rewrite Eg in E.
      destruct (write_ok' t s i e (mkKV (k_id e) (k_stamp e) nv) HI Hm Hi He eq_refl) as (t1 & Ew & HI1).
      rewrite Ew in E. cbn [bind] in E. injection E as <- <- <-. rewrite Hk in HI1. done_with El HI1.
    - rewrite Hg in E. injection E as <- <- <-. done_with El HI.
  Qed.

  Lemma ref_len t s t' o evs : INV t s -> STEP t OpLen = Ok (t', o, evs) -> Refines s OpLen t' o.
  Proof.
    intros HI E. cbn [map_step] in E. injection E as <- <- <-.
    pose proof HI as ((Hs & _) & _ & HR). rewrite (abs_length B HW t s Hs HR). done_with HI HI.
  Qed.

  Lemma ref_capacity t s t' o evs : INV t s -> STEP t OpCapacity = Ok (t', o, evs) -> Refines s OpCapacity t' o.
  Proof.
    intros HI E. cbn [map_step] in E. injection E as <- <- <-.
    pose proof HI as ((Hs & _) & _ & HR).
    split; [reflexivity|]. exists s. split; [|exact HI]. cbn [spec_accepts].
    rewrite (capacity_eq B kv t Hs), <- (abs_length B HW t s Hs HR).
    destruct (safe_counts B kv t Hs) as (_ & Hg & _).
    destruct (Z.leb_spec (items t) (items t + growth_left t)); [reflexivity|lia].
  Qed.

  Lemma ref_allocation_size t s t' o evs : INV t s -> STEP t OpAllocationSize = Ok (t', o, evs) ->
    Refines s OpAllocationSize t' o.
  Proof.
    intros HI E. cbn [map_step] in E.
    destruct (allocation_size B kv tsize talign t) as [n|]; cbn [bind] in E; [|discriminate].
    injection E as <- <- <-. done_with HI HI.
  Qed.

  (* ---------------------------------------------------------------------------------------- *)
  (* (2) insert and the HashSet insertions                                                      *)
  (* ---------------------------------------------------------------------------------------- *)
  Lemma ref_insert t s k st v t' o evs : INV t s -> STEP t (OpInsert k st v) = Ok (t', o, evs) ->
    Refines s (OpInsert k st v) t' o.
  Proof.
    intros HI E. cbn [map_step] in E. destruct (m_insert_ok' t s k st v t' o evs HI E) as (-> & HI').
    destruct (lookup s k) as [e|] eqn:El; done_with El HI'.
  Qed.

  Lemma ref_set_insert t s k st t' o evs : INV t s -> op_pre s (OpSetInsert k st) ->
    STEP t (OpSetInsert k st) = Ok (t', o, evs) -> Refines s (OpSetInsert k st) t' o.
  Proof.
    intros HI Hpre E. cbn [map_step] in E.
    destruct (m_insert B tsize talign needs_drop true hash_of alloc_refuses t k st 0%Z)
      as [[[t1 o1] evs1]|] eqn:Em; cbn [bind] in E; [|discriminate].
    destruct (m_insert_ok' t s k st 0%Z t1 o1 evs1 HI Em) as (-> & HI'). injection E as <- <- <-.
    unfold insert_like in HI'. destruct (lookup s k) as [e|] eqn:El.
    - (* the stored element is (k, stamp, 0) already: put is a permutation-level identity *)
      assert (E0 : mkKV k (k_stamp e) 0 = e).
      { destruct (lookup_Some s k e El) as (_ & Hk). pose proof (Hpre e El) as Hv.
        destruct e as [a b c]. cbn in *. subst. reflexivity. }
      rewrite E0 in HI'.
      assert (HI1 : INV t1 s).
      { destruct HI' as (HWF' & HA' & (P' & _)). destruct HI as (_ & _ & (_ & Hnd)).
        split; [exact HWF'|]. split; [exact HA'|]. split; [|exact Hnd].
        etransitivity; [exact P'|]. unfold put. symmetry.
        destruct (lookup_Some s k e El) as (_ & Hk). rewrite Hk. exact (delete_present s k e Hnd El). }
      done_with El HI1.
    - done_with El HI'.
  Qed.

  Lemma ref_set_replace t s k st t' o evs : INV t s -> STEP t (OpSetReplace k st) = Ok (t', o, evs) ->
    Refines s (OpSetReplace k st) t' o.
  Proof.
    intros HI E. cbn [map_step] in E.
    destruct (m_find_or_slot_ok' t s k _ _ _ HI E) as (t1 & evs1 & hv & HI1 & Hh & Hm1 & Hc).
    destruct (lookup s k) as [e|] eqn:El.
    - destruct Hc as (i & Hi & He & Hk & Ef). cbv beta in Ef.
      destruct (write_ok' t1 s i e (mkKV k st (v_val e)) HI1 Hm1 Hi He (eq_sym Hk)) as (t2 & Ew & HI2).
      rewrite Ew in Ef. cbn [bind] in Ef. injection Ef as <- <- <-. done_with El HI2.
    - destruct Hc as (sl & Ef & Hins). cbv beta in Ef.
      destruct (Hins (mkKV k st 0%Z) eq_refl) as (t2 & Eins & HI2).
      rewrite Eins in Ef. cbn [bind] in Ef. injection Ef as <- <- <-. done_with El HI2.
  Qed.

  Lemma ref_set_get_or_insert t s k st t' o evs : INV t s ->
    STEP t (OpSetGetOrInsert k st) = Ok (t', o, evs) -> Refines s (OpSetGetOrInsert k st) t' o.
  Proof.
    intros HI E. cbn [map_step] in E.
    destruct (m_find_or_slot_ok' t s k _ _ _ HI E) as (t1 & evs1 & hv & HI1 & Hh & Hm1 & Hc).
    destruct (lookup s k) as [e|] eqn:El.
    - destruct Hc as (i & Hi & He & Hk & Ef). cbv beta in Ef. injection Ef as <- <- <-. done_with El HI1.
    - destruct Hc as (sl & Ef & Hins). cbv beta in Ef.
      destruct (Hins (mkKV k st 0%Z) eq_refl) as (t2 & Eins & HI2).
      rewrite Eins in Ef. cbn [bind] in Ef. injection Ef as <- <- <-. done_with El HI2.
  Qed.

  Lemma ref_set_get_or_insert_with t s k st fk t' o evs : INV t s ->
    STEP t (OpSetGetOrInsertWith k st fk) = Ok (t', o, evs) -> Refines s (OpSetGetOrInsertWith k st fk) t' o.
  Proof.
    intros HI E. cbn [map_step] in E.
    destruct (m_find_or_slot_ok' t s k _ _ _ HI E) as (t1 & evs1 & hv & HI1 & Hh & Hm1 & Hc).
    destruct (lookup s k) as [e|] eqn:El.
    - destruct Hc as (i & Hi & He & Hk & Ef). cbv beta in Ef. injection Ef as <- <- <-. done_with El HI1.
    - destruct Hc as (sl & Ef & Hins). cbv beta in Ef.
      split; [|exists (if (fk =? k)%Z then put s (mkKV k st 0%Z) else s); cbn [spec_accepts]; rewrite El];
        destruct (Z.eqb_spec fk k) as [->|Hne].
      + destruct (Hins (mkKV k st 0%Z) eq_refl) as (t2 & Eins & HI2).
        rewrite Eins in Ef. cbn [bind] in Ef. injection Ef as <- <- <-. reflexivity.
      + injection Ef as <- <- <-. reflexivity.
      + destruct (Hins (mkKV k st 0%Z) eq_refl) as (t2 & Eins & HI2).
        rewrite Eins in Ef. cbn [bind] in Ef. injection Ef as <- <- <-.
        split; [apply expect_refl; exact I|exact HI2].
      + injection Ef as <- <- <-. split; [reflexivity|exact HI1].
  Qed.

  Lemma ref_set_toggle t s k st t' o evs : INV t s -> STEP t (OpSetToggle k st) = Ok (t', o, evs) ->
    Refines s (OpSetToggle k st) t' o.
  Proof.
    intros HI E. cbn [map_step] in E.
    destruct (m_find_or_slot_ok' t s k _ _ _ HI E) as (t1 & evs1 & hv & HI1 & Hh & Hm1 & Hc).
    destruct (lookup s k) as [e|] eqn:El.
    - destruct Hc as (i & Hi & He & Hk & Ef). cbv beta in Ef.
      destruct (remove_ok' t1 s i e HI1 Hm1 Hi He) as (t2 & Er & HI2).
      rewrite Er in Ef. cbn [bind] in Ef. injection Ef as <- <- <-. rewrite Hk in HI2. done_with El HI2.
    - destruct Hc as (sl & Ef & Hins). cbv beta in Ef.
      destruct (Hins (mkKV k st 0%Z) eq_refl) as (t2 & Eins & HI2).
      rewrite Eins in Ef. cbn [bind] in Ef. injection Ef as <- <- <-. done_with El HI2.
  Qed.

  (* ---------------------------------------------------------------------------------------- *)
  (* (3) removals                                                                               *)
  (* ---------------------------------------------------------------------------------------- *)
  Lemma ref_remove t s k t' o evs : INV t s -> STEP t (OpRemove k) = Ok (t', o, evs) ->
    Refines s (OpRemove k) t' o.
  Proof.
    intros HI E. cbn [map_step] in E. pose proof (m_remove_entry_ok' t s k _ t' o evs HI E) as Hr.
    destruct (lookup s k) as [e|] eqn:El.
    - destruct Hr as (-> & _ & HI'). done_with El HI'.
    - destruct Hr as (-> & -> & _). done_with El HI.
  Qed.

  Lemma ref_remove_entry t s k t' o evs : INV t s -> STEP t (OpRemoveEntry k) = Ok (t', o, evs) ->
    Refines s (OpRemoveEntry k) t' o.
  Proof.
    intros HI E. cbn [map_step] in E. pose proof (m_remove_entry_ok' t s k _ t' o evs HI E) as Hr.
    destruct (lookup s k) as [e|] eqn:El.
    - destruct Hr as (-> & _ & HI'). done_with El HI'.
    - destruct Hr as (-> & -> & _). done_with El HI.
  Qed.

  Lemma ref_set_take t s k t' o evs : INV t s -> STEP t (OpSetTake k) = Ok (t', o, evs) ->
    Refines s (OpSetTake k) t' o.
  Proof.
    intros HI E. cbn [map_step] in E. pose proof (m_remove_entry_ok' t s k _ t' o evs HI E) as Hr.
    destruct (lookup s k) as [e|] eqn:El.
    - destruct Hr as (-> & _ & HI'). done_with El HI'.
    - destruct Hr as (-> & -> & _). done_with El HI.
  Qed.

  Lemma ref_set_remove t s k t' o evs : INV t s -> STEP t (OpSetRemove k) = Ok (t', o, evs) ->
    Refines s (OpSetRemove k) t' o.
  Proof.
    intros HI E. cbn [map_step] in E.
    destruct (m_remove_entry B hash_of t k (fun _ => OutBool true)) as [[[t1 o1] evs1]|] eqn:Em;
      cbn [bind] in E; [|discriminate].
    pose proof (m_remove_entry_ok' t s k _ t1 o1 evs1 HI Em) as Hr. injection E as <- <- <-.
    destruct (lookup s k) as [e|] eqn:El.
    - destruct Hr as (-> & _ & HI'). done_with El HI'.
    - destruct Hr as (-> & -> & _). done_with El HI.
  Qed.

  Lemma ref_entry_remove t s k st t' o evs : INV t s -> STEP t (OpEntryRemove k st) = Ok (t', o, evs) ->
    Refines s (OpEntryRemove k st) t' o.
  Proof.
    intros HI E. cbn [map_step] in E. use_entry t s k HI E hv Hh Hc.
    destruct (lookup s k) as [e|] eqn:El.
    - destruct Hc as (i & Hm & Hi & He & Hk & Ee). rewrite Ee in E.
      destruct (remove_ok' t s i e HI Hm Hi He) as (t1 & Er & HI1).
      rewrite Er in E. cbn [bind] in E. injection E as <- <- <-. rewrite Hk in HI1. done_with El HI1.
    - rewrite Hc in E. injection E as <- <- <-. done_with El HI.
  Qed.

  (* ---------------------------------------------------------------------------------------- *)
  (* (4) the entry API (C14), also when growth_left = 0                                         *)
  (* ---------------------------------------------------------------------------------------- *)
  Lemma ref_try_insert t s k st v t' o evs : INV t s -> STEP t (OpTryInsert k st v) = Ok (t', o, evs) ->
    Refines s (OpTryInsert k st v) t' o.
  Proof.
    intros HI E. cbn [map_step] in E. use_entry t s k HI E hv Hh Hc.
    destruct (lookup s k) as [e|] eqn:El.
    - destruct Hc as (i & Hm & Hi & He & Hk & Ee). rewrite Ee in E. injection E as <- <- <-. done_with El HI.
    - rewrite Hc in E. destruct (vacant_insert_ok' t s hv (mkKV k st v) _ t' o evs HI Hh El E) as (-> & HI').
      done_with El HI'.
  Qed.

  Lemma ref_entry_or_insert t s k st v t' o evs : INV t s -> STEP t (OpEntryOrInsert k st v) = Ok (t', o, evs) ->
    Refines s (OpEntryOrInsert k st v) t' o.
  Proof.
    intros HI E. cbn [map_step] in E. use_entry t s k HI E hv Hh Hc.
    destruct (lookup s k) as [e|] eqn:El.
    - destruct Hc as (i & Hm & Hi & He & Hk & Ee). rewrite Ee in E. injection E as <- <- <-. done_with El HI.
    - rewrite Hc in E. destruct (vacant_insert_ok' t s hv (mkKV k st v) _ t' o evs HI Hh El E) as (-> & HI').
      done_with El HI'.
  Qed.

  Lemma ref_entry_insert t s k st v t' o evs : INV t s -> STEP t (OpEntryInsert k st v) = Ok (t', o, evs) ->
    Refines s (OpEntryInsert k st v) t' o.
  Proof.
    intros HI E. cbn [map_step] in E. use_entry t s k HI E hv Hh Hc.
    destruct (lookup s k) as [e|] eqn:El.
    - destruct Hc as (i & Hm & Hi & He & Hk & Ee). rewrite Ee in E.
      destruct (write_ok' t s i e (mkKV (k_id e) (k_stamp e) v) HI Hm Hi He eq_refl) as (t1 & Ew & HI1).
      rewrite Ew in E. cbn [bind] in E. injection E as <- <- <-. rewrite Hk in HI1. done_with El HI1.
    - rewrite Hc in E. destruct (vacant_insert_ok' t s hv (mkKV k st v) _ t' o evs HI Hh El E) as (-> & HI').
      done_with El HI'.
  Qed.

  Lemma ref_entry_and_modify t s k st add v t' o evs : INV t s ->
    STEP t (OpEntryAndModify k st add v) = Ok (t', o, evs) -> Refines s (OpEntryAndModify k st add v) t' o.
  Proof.
    intros HI E. cbn [map_step] in E. use_entry t s k HI E hv Hh Hc.
    destruct (lookup s k) as [e|] eqn:El.
    - destruct Hc as (i & Hm & Hi & He & Hk & Ee). rewrite Ee in E. cbv zeta in E.
      destruct (write_ok' t s i e (mkKV (k_id e) (k_stamp e) (wadd 64 (v_val e) add)) HI Hm Hi He eq_refl)
        as (t1 & Ew & HI1).
      rewrite Ew in E. cbn [bind] in E. injection E as <- <- <-. rewrite Hk in HI1.
      split; [reflexivity|]. eexists. split; [|exact HI1].
      cbn [spec_accepts]. rewrite El. cbv zeta. apply expect_refl. exact I.
    - rewrite Hc in E. destruct (vacant_insert_ok' t s hv (mkKV k st v) _ t' o evs HI Hh El E) as (-> & HI').
      done_with El HI'.
  Qed.

  Lemma ref_entry_drop t s k st t' o evs : INV t s -> STEP t (OpEntryDrop k st) = Ok (t', o, evs) ->
    Refines s (OpEntryDrop k st) t' o.
  Proof.
    intros HI E. cbn [map_step] in E. use_entry t s k HI E hv Hh Hc.
    destruct (lookup s k) as [e|] eqn:El.
    - destruct Hc as (i & Hm & Hi & He & Hk & Ee). rewrite Ee in E. injection E as <- <- <-. done_with El HI.
    - rewrite Hc in E. injection E as <- <- <-. done_with El HI.
  Qed.

  (* ---------------------------------------------------------------------------------------- *)
  (* (5) whole-table operations                                                                 *)
  (* ---------------------------------------------------------------------------------------- *)
  Lemma inv_empty t : SafeWF B kv t -> OWN t -> occupants kv t = [] -> INV t [].
  Proof.
    intros Hs HA Ho. split; [exact (WF_no_occupants B kv h t Hs Ho)|]. split; [exact HA|exact (abs_nil t Ho)].
  Qed.

  Lemma inv_new_table : INV (new_table B kv) [].
  Proof.
    apply inv_empty; [apply new_table_safe|apply TOwn_new_table|apply new_table_occupants].
  Qed.

  Lemma inv_perm t t' s : INV t s -> WF B kv h t' -> OWN t' ->
    Permutation (occupants kv t') (occupants kv t) -> INV t' s.
  Proof.
    intros (_ & _ & HR) HWF' HA' P. split; [exact HWF'|]. split; [exact HA'|exact (abs_perm t t' s HR P)].
  Qed.

  Lemma ref_clear t s t' o evs : INV t s -> STEP t OpClear = Ok (t', o, evs) -> Refines s OpClear t' o.
  Proof.
    intros HI E. cbn [map_step] in E. pose proof HI as ((Hs & _) & HA & _).
    destruct (clear_safe B kv HW HB tsize talign needs_drop drop_ok t Hs)
      as (t1 & evs1 & ok & Ec & Hs1 & Em1 & Ho1 & _ & _ & _ & _ & Hfail & _).
    rewrite Ec in E. cbn [bind] in E.
    destruct ok.
    - injection E as <- <- <-.
      pose proof (inv_empty t1 Hs1 (TOwn_same_mask B kv tsize talign t t1 Em1 HA) Ho1) as HI1.
      done_with HI1 HI1.
    - exfalso. destruct (Hfail eq_refl) as (l & e & _ & C). discriminate C.
  Qed.

  Lemma ref_drop_map t s t' o evs : INV t s -> STEP t OpDropMap = Ok (t', o, evs) -> Refines s OpDropMap t' o.
  Proof.
    intros HI E. cbn [map_step] in E.
    destruct (drop_inner_table B kv tsize talign needs_drop drop_ok t) as [[evs0 ok]|]; cbn [bind] in E; [|discriminate].
    injection E as <- <- <-. pose proof inv_new_table as HI1. done_with HI1 HI1.
  Qed.

  Lemma ref_with_capacity t s n t' o evs : INV t s -> (0 <= n < 2 ^ 64)%Z ->
    STEP t (OpWithCapacity n) = Ok (t', o, evs) -> Refines s (OpWithCapacity n) t' o.
  Proof.
    intros HI Hn E. cbn [map_step] in E.
    destruct (drop_inner_table B kv tsize talign needs_drop drop_ok t) as [[evs0 ok]|]; cbn [bind] in E; [|discriminate].
    pose proof (fallible_with_capacity_spec B kv HW tsize talign Hts Hta n alloc_refuses Infallible Hn) as Hpost.
    destruct (fallible_with_capacity B kv tsize talign n alloc_refuses Infallible) as [[[[nt|] evs1] tr]|];
      cbn [bind] in E; try discriminate.
    injection E as <- <- <-.
    destruct tr; cbn [fwc_post] in Hpost; try contradiction.
    destruct Hpost as (Hs & _ & Ho & _ & _ & _ & Hhow).
    assert (HA : OWN nt).
    { destruct Hhow as [(_ & -> & _) | (_ & _ & HAl & _)]; [apply TOwn_new_table|right; exact HAl]. }
    pose proof (inv_empty nt Hs HA Ho) as HI1. done_with HI1 HI1.
  Qed.

  Lemma ref_reserve t s n t' o evs : INV t s -> (0 <= n < 2 ^ 64)%Z ->
    STEP t (OpReserve n) = Ok (t', o, evs) -> Refines s (OpReserve n) t' o.
  Proof.
    intros HI Hn E. cbn [map_step] in E. pose proof HI as (HWF & HA & _).
    destruct (reserve B kv tsize talign needs_drop h true t n alloc_refuses)
      as [[[[t1 evs1] tr1] unw1]|] eqn:Er; cbn [bind] in E; [|discriminate].
    destruct (reserve_WF B kv HW HB tsize talign Hts Hta needs_drop h h_total' t n alloc_refuses
                t1 evs1 tr1 unw1 HWF HA Hn Er) as (-> & -> & HWF1 & HA1 & P & _).
    cbn [tr_out] in E. injection E as <- <- <-.
    pose proof (inv_perm t t1 s HI HWF1 HA1 P) as HI1. done_with HI1 HI1.
  Qed.

  Lemma ref_try_reserve t s n t' o evs : INV t s -> (0 <= n < 2 ^ 64)%Z ->
    STEP t (OpTryReserve n) = Ok (t', o, evs) -> Refines s (OpTryReserve n) t' o.
  Proof.
    intros HI Hn E. cbn [map_step] in E. pose proof HI as (HWF & HA & _).
    destruct (try_reserve B kv tsize talign needs_drop h true t n alloc_refuses)
      as [[[[t1 evs1] tr1] unw1]|] eqn:Er; cbn [bind] in E; [|discriminate].
    destruct (try_reserve_contents B kv HW HB tsize talign Hts Hta needs_drop h h_total' t n alloc_refuses
                t1 evs1 tr1 unw1 HWF HA Hn Er) as (-> & HWF1 & HA1 & P).
    cbn [tr_out] in E. injection E as <- <- <-.
    pose proof (inv_perm t t1 s HI HWF1 HA1 P) as HI1. done_with HI1 HI1.
  Qed.

  Lemma shrink_refines t s n t' evs unw : INV t s -> (0 <= n < 2 ^ 64)%Z ->
    shrink_to B kv tsize talign needs_drop drop_ok h t n alloc_refuses = Ok (t', evs, unw) ->
    unw = false /\ INV t' s.
  Proof.
    intros HI Hn E. pose proof HI as (HWF & HA & _).
    destruct (shrink_to_WF B kv HW HB tsize talign Hts Hta needs_drop drop_ok h h_total' t n alloc_refuses
                t' evs unw HWF HA Hn E) as (-> & HWF1 & HA1 & P & _).
    split; [reflexivity|exact (inv_perm t t' s HI HWF1 HA1 P)].
  Qed.

  Lemma ref_shrink_to t s n t' o evs : INV t s -> (0 <= n < 2 ^ 64)%Z ->
    STEP t (OpShrinkTo n) = Ok (t', o, evs) -> Refines s (OpShrinkTo n) t' o.
  Proof.
    intros HI Hn E. cbn [map_step] in E.
    destruct (shrink_to B kv tsize talign needs_drop drop_ok h t n alloc_refuses)
      as [[[t1 evs1] unw1]|] eqn:Er; cbn [bind] in E; [|discriminate].
    destruct (shrink_refines t s n t1 evs1 unw1 HI Hn Er) as (-> & HI1).
    injection E as <- <- <-. done_with HI1 HI1.
  Qed.

  Lemma ref_shrink_to_fit t s t' o evs : INV t s ->
    STEP t OpShrinkToFit = Ok (t', o, evs) -> Refines s OpShrinkToFit t' o.
  Proof.
    intros HI E. cbn [map_step] in E.
    assert (Hn : (0 <= 0 < 2 ^ 64)%Z) by (rewrite two_p_64; lia).
    destruct (shrink_to B kv tsize talign needs_drop drop_ok h t 0%Z alloc_refuses)
      as [[[t1 evs1] unw1]|] eqn:Er; cbn [bind] in E; [|discriminate].
    destruct (shrink_refines t s 0%Z t1 evs1 unw1 HI Hn Er) as (-> & HI1).
    injection E as <- <- <-. done_with HI1 HI1.
  Qed.

  (* ---------------------------------------------------------------------------------------- *)
  (* (6) iteration: the output is the list of occupants, in bucket order                        *)
  (* ---------------------------------------------------------------------------------------- *)
  Local Notation cell t := (fun i : nat => SafeAllocClear.opt_list (nth i (slots t) None)).

  Lemma elems_at_spec t : SafeWF B kv t -> mask t <> 0 -> forall idx,
    (forall i, In i idx -> i < nb kv t /\ is_full (byte kv t i) = true) ->
    elems_at t idx = Ok (flat_map (cell t) idx).
  Proof.
    intros Hs Hm. destruct (SafeWF_alloc B kv t Hs Hm) as (_ & _ & HC).
    induction idx as [|i r IH]; intros Hall; [reflexivity|].
    change (elems_at t (i :: r)) with (l <- elems_at t r ;; e <- slot_ref kv t i ;; Ok (e :: l)).
    rewrite IH by (intros j Hj; apply Hall; right; exact Hj). cbn [bind].
    destruct (Hall i (or_introl eq_refl)) as (Hi & Hf).
    destruct (full_slot_some kv t i HC Hi Hf) as (e & He).
    rewrite (slot_ref_some B t i e Hs Hm Hi He). cbn [bind flat_map].
    change (nth i (slots t) None) with (slot kv t i). rewrite He. reflexivity.
  Qed.

  Lemma full_list_full (t : table kv) i : In i (full_list t) -> i < nb kv t /\ is_full (byte kv t i) = true.
  Proof.
    unfold full_list. intros Hin. apply filter_In in Hin. destruct Hin as (Hin & Hf).
    apply in_seq in Hin. split; [lia|exact Hf].
  Qed.

  Lemma full_list_NoDup (t : table kv) : NoDup (full_list t).
  Proof. unfold full_list. apply NoDup_filter. apply seq_NoDup. Qed.

  (* reading the FULL buckets in order yields the occupants *)
  Lemma elems_at_full t : SafeWF B kv t -> elems_at t (full_list t) = Ok (occupants kv t).
  Proof.
    intros Hs. destruct (Nat.eq_dec (mask t) 0) as [Hm|Hm].
    - rewrite (safe_singleton B kv t Hs Hm). rewrite (proj2 (items_singleton B kv HW)). reflexivity.
    - rewrite (occupants_full_list B kv HW t Hs). apply (elems_at_spec t Hs Hm). apply full_list_full.
  Qed.

  Lemma accepts_iter t s : INV t s -> same_set (occupants kv t) s = true.
  Proof. intros (_ & _ & (P & Hnd)). exact (same_set_perm _ s Hnd P). Qed.

  Lemma ref_iter t s t' o evs : INV t s -> STEP t OpIter = Ok (t', o, evs) -> Refines s OpIter t' o.
  Proof.
    intros HI E. cbn [map_step] in E. pose proof HI as ((Hs & _) & _).
    destruct (iter_exact B kv HW HB t Hs) as (it & En & Ea).
    rewrite En in E. cbn [bind] in E. rewrite Ea in E. cbn [bind] in E.
    rewrite (elems_at_full t Hs) in E. cbn [bind] in E. injection E as <- <- <-.
    split; [reflexivity|]. exists s. split; [|exact HI].
    cbn [spec_accepts]. rewrite (accepts_iter t s HI). reflexivity.
  Qed.

  (* the inline loop of OpIterFold, named *)
  Definition fold_go (t : table kv) : nat -> nat -> raw_iter -> list nat -> res Map.result :=
    fix go (fuel p : nat) (it : raw_iter) (acc : list nat) : res Map.result :=
      match p with
      | O => rest <- iter_fold B kv t it ;; es <- elems_at t (acc ++ rest) ;; Ok (t, OutList es, [])
      | S p' =>
          match fuel with
          | O => Fail OutOfFuel
          | S f =>
              '(nxt, it') <- iter_next B kv t it ;;
              match nxt with
              | None => es <- elems_at t acc ;; Ok (t, OutList es, [])
              | Some i => go f p' it' (acc ++ [i])
              end
          end
      end.

  Lemma iter_fold_step_eq t p :
    STEP t (OpIterFold p) = (it <- iter_new B kv t ;; fold_go t (S (buckets kv t)) p it []).
  Proof. reflexivity. Qed.

  Lemma fold_go_0 t fuel it acc :
    fold_go t fuel 0 it acc =
    (rest <- iter_fold B kv t it ;; es <- elems_at t (acc ++ rest) ;; Ok (t, OutList es, [])).
  Proof. destruct fuel; reflexivity. Qed.

  Lemma fold_go_S t f p it acc :
    fold_go t (S f) (S p) it acc =
    ('(nxt, it') <- iter_next B kv t it ;;
     match nxt with
     | None => es <- elems_at t acc ;; Ok (t, OutList es, [])
     | Some i => fold_go t f p it' (acc ++ [i])
     end).
  Proof. reflexivity. Qed.

  Lemma fold_go_spec t E : Scan B kv t E -> E <= iter_fuel B kv t * GW ->
    forall p fuel it acc P, IterInv B kv t E it P -> length P < fuel ->
    fold_go t fuel p it acc = (es <- elems_at t (acc ++ P) ;; Ok (t, OutList es, [])).
  Proof.
    intros HS HF. induction p as [|p IH]; intros fuel it acc P HInv Hfuel.
    - rewrite fold_go_0, (iter_fold_spec B kv HW HB t E it P HS HF HInv). reflexivity.
    - destruct fuel as [|f]; [lia|]. rewrite fold_go_S. destruct P as [|x rest].
      + rewrite (iter_next_none B kv t E it HInv). cbn [bind]. rewrite app_nil_r. reflexivity.
      + destruct (iter_next_some B kv HW HB t E it x rest HS HF HInv) as (it' & En & HInv').
        rewrite En. cbn [bind]. rewrite (IH f it' (acc ++ [x]) rest HInv' ltac:(cbn [length] in Hfuel; lia)).
        rewrite <- app_assoc. reflexivity.
  Qed.

  Lemma ref_iter_fold t s p t' o evs : INV t s -> STEP t (OpIterFold p) = Ok (t', o, evs) ->
    Refines s (OpIterFold p) t' o.
  Proof.
    intros HI E. rewrite iter_fold_step_eq in E. pose proof HI as ((Hs & _) & _).
    destruct (iter_new_inv B kv HW HB t Hs) as (it & En & HInv).
    destruct (safe_geo B kv HW t Hs) as [HS HF _ _ _ _].
    rewrite En in E. cbn [bind] in E.
    rewrite (fold_go_spec t _ HS HF p _ it [] _ HInv) in E
      by (pose proof (full_list_le kv t); unfold nb in *; lia).
    cbn [app] in E. rewrite (elems_at_full t Hs) in E. cbn [bind] in E. injection E as <- <- <-.
    split; [reflexivity|]. exists s. split; [|exact HI].
    cbn [spec_accepts]. rewrite (accepts_iter t s HI). reflexivity.
  Qed.

  (* ---------------------------------------------------------------------------------------- *)
  (* (7) extend: reserve, then a fold of inserts                                                *)
  (* ---------------------------------------------------------------------------------------- *)
  Local Notation ins_all kvs s :=
    (fold_left (fun acc (e : kv) => insert_like acc (k_id e) (k_stamp e) (v_val e)) kvs s).

  Lemma extend_loop_ok : forall kvs t s touched evs t' o evs',
    INV t s ->
    extend_loop B tsize talign needs_drop true hash_of alloc_refuses t kvs touched evs = Ok (t', o, evs') ->
    o = OutUnit /\ INV t' (ins_all kvs s).
  Proof.
    induction kvs as [|e r IH]; intros t s touched evs t' o evs' HI E; cbn [extend_loop] in E.
    - injection E as <- <- <-. split; [reflexivity|exact HI].
    - destruct (m_insert B tsize talign needs_drop true hash_of alloc_refuses t (k_id e) (k_stamp e) (v_val e))
        as [[[t1 o1] evs1]|] eqn:Em; cbn [bind] in E; [|discriminate].
      destruct (m_insert_ok' t s (k_id e) (k_stamp e) (v_val e) t1 o1 evs1 HI Em) as (-> & HI1).
      cbn [fold_left].
      destruct (lookup s (k_id e)) as [e0|]; exact (IH _ _ _ _ _ _ _ HI1 E).
  Qed.

  Lemma extend_reserve_range (b : bool) n : (0 <= n < 2 ^ 62)%Z -> (0 <= map_extend_reserve b n < 2 ^ 64)%Z.
  Proof.
    intros Hn. rewrite two_p_62 in Hn. unfold map_extend_reserve. destruct b; [rewrite two_p_64; lia|].
    unfold wadd. rewrite wrap_small by (rewrite two_p_64; lia).
    rewrite ?Z.shiftr_div_pow2 by lia. change (2 ^ 1)%Z with 2%Z.
    pose proof (Z.div_pos (n + 1) 2 ltac:(lia) ltac:(lia)).
    pose proof (Z.div_le_upper_bound (n + 1) 2 (n + 1) ltac:(lia) ltac:(lia)).
    rewrite two_p_64. lia.
  Qed.

  Lemma ref_extend t s kvs t' o evs : INV t s -> (Z.of_nat (length kvs) < 2 ^ 62)%Z ->
    STEP t (OpExtend kvs) = Ok (t', o, evs) -> Refines s (OpExtend kvs) t' o.
  Proof.
    intros HI Hlen E. cbn [map_step] in E. cbv zeta in E. pose proof HI as (HWF & HA & _).
    set (rn := map_extend_reserve (items t =? 0)%Z (zn (length kvs))) in E.
    assert (Hrn : (0 <= rn < 2 ^ 64)%Z) by (apply extend_reserve_range; unfold zn; lia).
    destruct (reserve B kv tsize talign needs_drop h true t rn alloc_refuses)
      as [[[[t1 evs1] tr1] unw1]|] eqn:Er; cbn [bind] in E; [|discriminate].
    destruct (reserve_WF B kv HW HB tsize talign Hts Hta needs_drop h h_total' t rn alloc_refuses
                t1 evs1 tr1 unw1 HWF HA Hrn Er) as (-> & -> & HWF1 & HA1 & P & _).
    pose proof (inv_perm t t1 s HI HWF1 HA1 P) as HI1.
    destruct (extend_loop_ok kvs t1 s [] evs1 t' o evs HI1 E) as (-> & HI').
    done_with HI' HI'.
  Qed.

  (* ---------------------------------------------------------------------------------------- *)
  (* (8) drain                                                                                  *)
  (* ---------------------------------------------------------------------------------------- *)
  Lemma NoDup_app_left {A} (l1 l2 : list A) : NoDup (l1 ++ l2) -> NoDup l1.
  Proof.
    induction l1 as [|a r IH]; intros H; [constructor|].
    cbn [app] in H. inversion H as [|? ? Hn Hr]; subst. constructor; [|exact (IH Hr)].
    intros Hin. apply Hn. apply in_or_app. left. exact Hin.
  Qed.

  Lemma take_n_eq : forall n (t : table kv) idx,
    take_n t idx n = ('(es, t') <- take_all kv t (firstn n idx) ;; Ok (es, skipn n idx, t')).
  Proof.
    induction n as [|n IH]; intros t idx.
    - destruct idx; reflexivity.
    - destruct idx as [|i r]; [reflexivity|].
      cbn [take_n firstn skipn take_all].
      destruct (slot_take kv t i) as [[e t1]|]; cbn [bind]; [|reflexivity].
      rewrite IH. destruct (take_all kv t1 (firstn n r)) as [[es t2]|]; reflexivity.
  Qed.

  Lemma take_all_app : forall l1 (t : table kv) l2,
    take_all kv t (l1 ++ l2) =
    ('(es1, t1) <- take_all kv t l1 ;; '(es2, t2) <- take_all kv t1 l2 ;; Ok (es1 ++ es2, t2)).
  Proof.
    induction l1 as [|i r IH]; intros t l2.
    - cbn [app take_all bind]. destruct (take_all kv t l2) as [[es2 t2]|]; reflexivity.
    - cbn [app take_all]. destruct (slot_take kv t i) as [[e t1]|]; cbn [bind]; [|reflexivity].
      rewrite IH. destruct (take_all kv t1 r) as [[es1 t2]|]; cbn [bind]; [|reflexivity].
      destruct (take_all kv t2 l2) as [[es2 t3]|]; reflexivity.
  Qed.

  Lemma flat_map_cell_Some (t : table kv) (es : list kv) : forall idx,
    map Some es = map (fun i => nth i (slots t) None) idx -> flat_map (cell t) idx = es.
  Proof.
    revert es. intros es idx. revert es. induction idx as [|i r IH]; intros es H.
    - destruct es; [reflexivity|discriminate H].
    - destruct es as [|e es]; [discriminate H|]. cbn [map] in H. injection H as He Hr.
      cbn [flat_map]. rewrite <- He. cbn [SafeAllocClear.opt_list app]. f_equal. exact (IH es Hr).
  Qed.

  Lemma ref_drain t s n t' o evs : INV t s -> STEP t (OpDrain n) = Ok (t', o, evs) ->
    Refines s (OpDrain n) t' o.
  Proof.
    intros HI E. cbn [map_step] in E. unfold m_drain in E.
    pose proof HI as ((Hs & _) & HA & (P & Hnd)).
    destruct (iter_exact B kv HW HB t Hs) as (it & En & Ea).
    rewrite En in E. cbn [bind] in E. rewrite Ea in E. cbn [bind] in E.
    destruct (Nat.eq_dec (mask t) 0) as [Hm|Hm].
    - (* the singleton: nothing to drain *)
      destruct (inv_singleton B tsize talign hash_of t s HI Hm) as (Et & ->).
      rewrite Et in E. rewrite (proj2 (items_singleton B kv HW)) in E.
      assert (Etn : take_n (new_table B kv) [] n = Ok ([], [], new_table B kv)) by (destruct n; reflexivity).
      rewrite Etn in E. cbn [bind take_all map app] in E.
      rewrite clear_no_drop_singleton in E. injection E as <- <- <-.
      split; [reflexivity|]. exists []. split; [|exact inv_new_table].
      cbn [spec_accepts length sublist_of]. rewrite Nat.min_0_r. reflexivity.
    - set (idx := full_list t) in *.
      assert (Hfull : forall i, In i idx -> nth i (slots t) None <> None).
      { intros i Hi. destruct (full_list_full t i Hi) as (Hlt & Hf).
        destruct (SafeWF_alloc B kv t Hs Hm) as (_ & _ & HC).
        destruct (full_slot_some kv t i HC Hlt Hf) as (e & He). unfold slot in He. rewrite He. discriminate. }
      assert (Hsplit : idx = firstn n idx ++ skipn n idx) by (symmetry; apply firstn_skipn).
      assert (Hnd1 : NoDup (firstn n idx)).
      { pose proof (full_list_NoDup t) as Hn0. fold idx in Hn0. rewrite Hsplit in Hn0.
        exact (NoDup_app_left _ _ Hn0). }
      destruct (take_all_spec kv (firstn n idx) t Hm Hnd1
                  ltac:(intros i Hi; apply Hfull; rewrite Hsplit; apply in_or_app; left; exact Hi))
        as (es1 & Et1 & Hes1).
      destruct (take_all_spec kv idx t Hm (full_list_NoDup t) Hfull) as (es & Eta & Hes).
      rewrite Hsplit in Eta at 1. rewrite take_all_app, Et1 in Eta. cbn [bind] in Eta.
      rewrite take_n_eq, Et1 in E. cbn [bind] in E.
      destruct (take_all kv (with_slots kv t (clear_at (slots t) (firstn n idx))) (skipn n idx))
        as [[es2 t2]|]; cbn [bind] in E, Eta; [|discriminate].
      injection Eta as Ees Et2. injection E as <- <- <-.
      (* the final table *)
      assert (Hlt : forall i, In i idx -> i < length (slots t)).
      { intros i Hi. rewrite (SafeWF_slots_length B kv t Hs). exact (proj1 (full_list_full t i Hi)). }
      destruct (SafeWF_alloc B kv t Hs Hm) as (HS & _).
      destruct (Shape_Geometry B kv t HS) as (G1 & G2 & G3).
      assert (HG : Geometry B kv t2).
      { rewrite Et2. unfold Geometry, nb, buckets in *. cbn [mask ctrl slots with_slots].
        rewrite (clear_at_length idx (slots t) Hlt). split; [exact G1|]. split; assumption. }
      destruct (clear_no_drop_geometry B kv t2 HG) as (S1 & S2 & _ & S4 & _).
      assert (Em2 : mask (clear_no_drop kv t2) = mask t) by (rewrite S2, Et2; reflexivity).
      pose proof (inv_empty _ S1 (TOwn_same_mask B kv tsize talign t _ Em2 HA) S4) as HI'.
      split; [reflexivity|]. exists []. split; [|exact HI'].
      (* the output *)
      pose proof (flat_map_cell_Some t es1 _ Hes1) as Ef1.
      assert (Hocc : occupants kv t = es1 ++ flat_map (cell t) (skipn n idx)).
      { rewrite (occupants_full_list B kv HW t Hs). fold idx. rewrite Hsplit at 1.
        rewrite flat_map_app, Ef1. reflexivity. }
      assert (Hlen1 : length es1 = Nat.min n (length s)).
      { rewrite <- (map_length Some es1), Hes1, map_length, firstn_length.
        f_equal. rewrite <- (Permutation_length P).
        pose proof (items_full_list B kv HW t Hs) as H1. pose proof (occupants_length B kv HW t Hs) as H2.
        fold idx in H1. lia. }
      cbn [spec_accepts]. rewrite Hlen1, Nat.eqb_refl.
      destruct (sublist_of_split es1 (flat_map (cell t) (skipn n idx)) s Hnd
                  ltac:(rewrite <- Hocc; exact P)) as (s' & Esub & _).
      rewrite Esub. reflexivity.
  Qed.

  (* ---------------------------------------------------------------------------------------- *)
  (* (9) retain, extract_if: the table is mutated while the iterator is live                    *)
  (* ---------------------------------------------------------------------------------------- *)
  Lemma ref_retain t s keep bump t' o evs : INV t s -> STEP t (OpRetain keep bump) = Ok (t', o, evs) ->
    Refines s (OpRetain keep bump) t' o.
  Proof.
    intros HI E. cbn [map_step] in E.
    destruct (iter_new B kv t) as [it|] eqn:En; cbn [bind] in E; [|discriminate].
    destruct (retain_loop B needs_drop (S (buckets kv t)) t it keep bump []) as [[t1 evs1]|] eqn:Er;
      cbn [bind] in E; [|discriminate].
    injection E as <- <- <-.
    pose proof (retain_refines B HW HB tsize talign needs_drop hash_of t s keep bump it t1 evs1 HI En Er) as HI'.
    split; [reflexivity|]. exists (flat_map (retain_f keep bump) s). split; [reflexivity|exact HI'].
  Qed.

  Lemma ref_extract_if t s sel n t' o evs : INV t s -> STEP t (OpExtractIf sel n) = Ok (t', o, evs) ->
    Refines s (OpExtractIf sel n) t' o.
  Proof.
    intros HI E. cbn [map_step] in E.
    destruct (iter_new B kv t) as [it|] eqn:En; cbn [bind] in E; [|discriminate].
    destruct (extract_loop B (S (buckets kv t)) t it sel n [] []) as [[[t1 acc] evs1]|] eqn:Er;
      cbn [bind] in E; [|discriminate].
    injection E as <- <- <-. split; [reflexivity|].
    exact (extract_refines B HW HB tsize talign hash_of t s sel n it t1 acc evs1 HI En Er).
  Qed.

  (* ---------------------------------------------------------------------------------------- *)
  (* THE REFINEMENT THEOREM, every operation                                                    *)
  (* ---------------------------------------------------------------------------------------- *)
  Theorem map_step_refines_inv t s op t' o evs :
    op_args_ok op -> op_pre s op -> INV t s -> STEP t op = Ok (t', o, evs) -> Refines s op t' o.
  Proof.
    intros Hargs Hpre HI E. destruct op; cbn [op_args_ok] in Hargs.
    - exact (ref_with_capacity t s n t' o evs HI Hargs E).
    - exact (ref_insert t s k stamp v t' o evs HI E).
    - exact (ref_get t s k t' o evs HI E).
    - exact (ref_get_key_value t s k t' o evs HI E).
    - exact (ref_contains t s k t' o evs HI E).
    - exact (ref_get_mut t s k newv t' o evs HI E).
    - exact (ref_remove t s k t' o evs HI E).
    - exact (ref_remove_entry t s k t' o evs HI E).
    - exact (ref_try_insert t s k stamp v t' o evs HI E).
    - exact (ref_entry_or_insert t s k stamp v t' o evs HI E).
    - exact (ref_entry_insert t s k stamp v t' o evs HI E).
    - exact (ref_entry_remove t s k stamp t' o evs HI E).
    - exact (ref_entry_and_modify t s k stamp add v t' o evs HI E).
    - exact (ref_entry_drop t s k stamp t' o evs HI E).
    - exact (ref_clear t s t' o evs HI E).
    - exact (ref_reserve t s n t' o evs HI Hargs E).
    - exact (ref_try_reserve t s n t' o evs HI Hargs E).
    - exact (ref_shrink_to t s n t' o evs HI Hargs E).
    - exact (ref_shrink_to_fit t s t' o evs HI E).
    - exact (ref_retain t s keep bump t' o evs HI E).
    - exact (ref_extend t s kvs t' o evs HI Hargs E).
    - exact (ref_drain t s n t' o evs HI E).
    - exact (ref_extract_if t s sel n t' o evs HI E).
    - exact (ref_iter t s t' o evs HI E).
    - exact (ref_iter_fold t s p t' o evs HI E).
    - exact (ref_len t s t' o evs HI E).
    - exact (ref_capacity t s t' o evs HI E).
    - exact (ref_allocation_size t s t' o evs HI E).
    - exact (ref_drop_map t s t' o evs HI E).
    - exact (ref_set_insert t s k stamp t' o evs HI Hpre E).
    - exact (ref_set_replace t s k stamp t' o evs HI E).
    - exact (ref_set_take t s k t' o evs HI E).
    - exact (ref_set_get t s k t' o evs HI E).
    - exact (ref_set_get_or_insert t s k stamp t' o evs HI E).
    - exact (ref_set_get_or_insert_with t s k stamp fk t' o evs HI E).
    - exact (ref_set_remove t s k t' o evs HI E).
    - exact (ref_set_toggle t s k stamp t' o evs HI E).
  Qed.
End Refine.

(* ---------------------------------------------------------------------------------------- *)
(* the theorem in closed form                                                                 *)
(* ---------------------------------------------------------------------------------------- *)
(* Every operation is covered.  The only side condition is op_pre, which is `True` for every
   operation except HashSet::insert (see the finding below). *)
Theorem map_step_refines :
  forall B tsize talign needs_drop hash_of alloc_refuses (t : table kv) (s : spec) (op : map_op) t' o evs,
  WidthOK B -> BackendSpec B -> LayoutOK tsize talign -> TotalHash hash_of -> op_args_ok op ->
  op_pre s op ->
  WF B kv (fun e => hash_of (k_id e)) t -> TOwn B kv tsize talign t -> AbsRel t s ->
  map_step B tsize talign needs_drop true hash_of alloc_refuses t op = Ok (t', o, evs) ->
  is_unwind o = false /\
  exists s', spec_accepts s op o = Some s' /\
             WF B kv (fun e => hash_of (k_id e)) t' /\ TOwn B kv tsize talign t' /\ AbsRel t' s'.
Proof.
  intros B tsize talign needs_drop hash_of alloc_refuses t s op t' o evs HW HB HL Htot Hargs Hpre HWF HA HR E.
  destruct (map_step_refines_inv B HW HB tsize talign HL needs_drop hash_of Htot alloc_refuses t s op t' o evs
              Hargs Hpre (conj HWF (conj HA HR)) E) as (Hu & s' & Es & (HWF' & HA' & HR')).
  split; [exact Hu|]. exists s'. split; [exact Es|]. split; [exact HWF'|]. split; [exact HA'|exact HR'].
Qed.

(* ... and literally as it was asked, for every operation other than HashSet::insert *)
Definition not_set_insert (op : map_op) : Prop := match op with OpSetInsert _ _ => False | _ => True end.

Lemma not_set_insert_pre s op : not_set_insert op -> op_pre s op.
Proof. destruct op; cbn; intros H; try exact I. contradiction. Qed.

Corollary map_step_refines_covered :
  forall B tsize talign needs_drop hash_of alloc_refuses (t : table kv) (s : spec) (op : map_op) t' o evs,
  WidthOK B -> BackendSpec B -> LayoutOK tsize talign -> TotalHash hash_of -> op_args_ok op ->
  not_set_insert op ->
  WF B kv (fun e => hash_of (k_id e)) t -> TOwn B kv tsize talign t -> AbsRel t s ->
  map_step B tsize talign needs_drop true hash_of alloc_refuses t op = Ok (t', o, evs) ->
  is_unwind o = false /\
  exists s', spec_accepts s op o = Some s' /\
             WF B kv (fun e => hash_of (k_id e)) t' /\ TOwn B kv tsize talign t' /\ AbsRel t' s'.
Proof.
  intros B tsize talign needs_drop hash_of alloc_refuses t s op t' o evs HW HB HL Htot Hargs Hcov.
  apply map_step_refines; try assumption. apply not_set_insert_pre. exact Hcov.
Qed.

(* FINDING (statement, not source): without op_pre the theorem is false for OpSetInsert.
   From ANY table representing s = [(key 1, stamp 0, value 5)], `OpSetInsert 1 9` answers
   OutBool false and -- as HashSet::insert = HashMap::insert(k, ()) does -- overwrites the stored
   value by the unit value 0, while `spec_accepts` keeps s unchanged.  No s' satisfies the
   conclusion.  (A HashSet only ever holds the value 0, where the two agree: op_pre.) *)
Theorem set_insert_counterexample :
  forall B tsize talign needs_drop hash_of alloc_refuses (t : table kv) t' o evs,
  WidthOK B -> BackendSpec B -> LayoutOK tsize talign -> TotalHash hash_of ->
  let s := [mkKV 1 0 5] in
  WF B kv (fun e => hash_of (k_id e)) t -> TOwn B kv tsize talign t -> AbsRel t s ->
  map_step B tsize talign needs_drop true hash_of alloc_refuses t (OpSetInsert 1 9) = Ok (t', o, evs) ->
  o = OutBool false /\ spec_accepts s (OpSetInsert 1 9) o = Some s /\
  AbsRel t' [mkKV 1 0 0] /\
  ~ (exists s', spec_accepts s (OpSetInsert 1 9) o = Some s' /\ AbsRel t' s').
Proof.
  intros B tsize talign needs_drop hash_of alloc_refuses t t' o evs HW HB HL Htot s HWF HA HR E.
  cbn [map_step] in E.
  destruct (m_insert B tsize talign needs_drop true hash_of alloc_refuses t 1 9 0)
    as [[[t1 o1] evs1]|] eqn:Em; cbn [bind] in E; [|discriminate].
  destruct (m_insert_ok B HW HB tsize talign HL needs_drop hash_of Htot alloc_refuses t s 1 9 0 t1 o1 evs1
              (conj HWF (conj HA HR)) Em) as (-> & (_ & _ & HR1)).
  injection E as <- <- <-. cbn in HR1 |- *.
  split; [reflexivity|]. split; [reflexivity|]. split; [exact HR1|].
  intros (s' & Es & (P' & _)). injection Es as <-.
  destruct HR1 as (P1 & _).
  pose proof (Permutation_trans (Permutation_sym P1) P') as C.
  apply Permutation_length_1_inv in C. discriminate C.
Qed.

(* ---------------------------------------------------------------------------------------- *)
(* histories                                                                                  *)
(* ---------------------------------------------------------------------------------------- *)
Section History.
  Variable B : backend.
  Hypothesis HW : WidthOK B.
  Hypothesis HB : BackendSpec B.
  Variable tsize talign : Z.
  Hypothesis HL : LayoutOK tsize talign.
  Variable needs_drop : bool.
  Variable hash_of : Z -> option Z.
  Hypothesis Htot : TotalHash hash_of.
  Variable alloc_refuses : bool.

  Local Notation INV := (Inv B tsize talign hash_of).
  Local Notation STEP := (map_step B tsize talign needs_drop true hash_of alloc_refuses).

  (* run a list of operations on the model; collect the outputs *)
  Fixpoint run (t : table kv) (ops : list map_op) : res (list out * table kv) :=
    match ops with
    | [] => Ok ([], t)
    | op :: r => '(t1, o, _) <- STEP t op ;; '(os, t2) <- run t1 r ;; Ok (o :: os, t2)
    end.

  (* run the reference acceptor over the operations and the outputs produced *)
  Fixpoint spec_run (s : spec) (ops : list map_op) (os : list out) : option spec :=
    match ops, os with
    | [], [] => Some s
    | op :: r, o :: os' => match spec_accepts s op o with Some s' => spec_run s' r os' | None => None end
    | _, _ => None
    end.

  (* the side condition of HashSet::insert along the reference run *)
  Fixpoint pre_run (s : spec) (ops : list map_op) (os : list out) : Prop :=
    match ops, os with
    | op :: r, o :: os' =>
        op_pre s op /\ match spec_accepts s op o with Some s' => pre_run s' r os' | None => True end
    | _, _ => True
    end.

  Theorem run_refines_from : forall ops t s os t',
    INV t s -> Forall op_args_ok ops -> run t ops = Ok (os, t') -> pre_run s ops os ->
    Forall (fun o => is_unwind o = false) os /\
    exists s', spec_run s ops os = Some s' /\ INV t' s'.
  Proof.
    induction ops as [|op r IH]; intros t s os t' HI Hargs E Hpre; cbn [run] in E.
    - injection E as <- <-. split; [constructor|]. exists s. split; [reflexivity|exact HI].
    - inversion Hargs as [|? ? Ha Hr]; subst.
      destruct (STEP t op) as [[[t1 o] evs]|] eqn:Es; cbn [bind] in E; [|discriminate].
      destruct (run t1 r) as [[os1 t2]|] eqn:Er; cbn [bind] in E; [|discriminate].
      injection E as <- <-. cbn [pre_run] in Hpre. destruct Hpre as (Hp & Hpr).
      destruct (map_step_refines_inv B HW HB tsize talign HL needs_drop hash_of Htot alloc_refuses
                  t s op t1 o evs Ha Hp HI Es) as (Hu & s1 & Eacc & HI1).
      rewrite Eacc in Hpr.
      destruct (IH t1 s1 os1 t2 HI1 Hr Er Hpr) as (Hus & s' & Erun & HI').
      split; [constructor; assumption|]. exists s'. split; [|exact HI'].
      cbn [spec_run]. rewrite Eacc. exact Erun.
  Qed.

  (* histories without HashSet::insert (HashMap histories): no side condition *)
  Lemma pre_run_map : forall ops s os, Forall not_set_insert ops -> pre_run s ops os.
  Proof.
    induction ops as [|op r IH]; intros s os H; [exact I|].
    destruct os as [|o os']; [exact I|]. inversion H as [|? ? H1 H2]; subst. cbn [pre_run].
    split; [apply not_set_insert_pre; exact H1|]. destruct (spec_accepts s op o); [apply IH; exact H2|exact I].
  Qed.

  (* C01, HashMap: any history from the empty map *)
  Corollary run_refines_map ops os t' :
    Forall op_args_ok ops -> Forall not_set_insert ops ->
    run (new_table B kv) ops = Ok (os, t') ->
    Forall (fun o => is_unwind o = false) os /\
    exists s', spec_run [] ops os = Some s' /\ INV t' s'.
  Proof.
    intros Hargs Hcov E.
    exact (run_refines_from ops _ [] os t' (inv_new_table B tsize talign hash_of) Hargs E
             (pre_run_map ops [] os Hcov)).
  Qed.

  (* HashSet histories: every stored value is the unit value 0, and stays so *)
  Definition zero_vals (s : spec) : Prop := forall e, In e s -> v_val e = 0%Z.

  Definition set_op (op : map_op) : Prop :=
    match op with
    | OpSetInsert _ _ | OpSetReplace _ _ | OpSetTake _ | OpSetGet _ | OpSetGetOrInsert _ _
    | OpSetGetOrInsertWith _ _ _ | OpSetRemove _ | OpSetToggle _ _
    | OpContains _ | OpLen | OpCapacity | OpAllocationSize | OpClear | OpDropMap | OpWithCapacity _
    | OpReserve _ | OpTryReserve _ | OpShrinkTo _ | OpShrinkToFit | OpIter | OpIterFold _ | OpDrain _ => True
    | _ => False
    end.

  Lemma zero_put s e : zero_vals s -> v_val e = 0%Z -> zero_vals (put s e).
  Proof.
    intros H He x [<-|Hx]; [exact He|]. apply delete_In in Hx. exact (H x (proj1 Hx)).
  Qed.

  Lemma zero_delete s k : zero_vals s -> zero_vals (delete s k).
  Proof. intros H x Hx. apply delete_In in Hx. exact (H x (proj1 Hx)). Qed.

  Lemma zero_nil : zero_vals [].
  Proof. intros x []. Qed.

  Lemma expect_Some o w s1 s2 : expect o w s1 = Some s2 -> s2 = s1.
  Proof. unfold expect. destruct (out_eqb o w); [|discriminate]. intros H. injection H as <-. reflexivity. Qed.

  Lemma set_op_zero s op o s' : set_op op -> zero_vals s -> spec_accepts s op o = Some s' -> zero_vals s'.
  Proof.
    intros Hop Hz E.
    assert (Hl : forall k e, lookup s k = Some e -> v_val e = 0%Z).
    { intros k e H. exact (Hz e (proj1 (lookup_Some s k e H))). }
    destruct op; cbn [set_op] in Hop; try contradiction; cbn [spec_accepts] in E;
      try (apply expect_Some in E; subst s'; first [exact Hz | exact zero_nil]).
    - (* try_reserve *) destruct o; try discriminate. injection E as <-. exact Hz.
    - (* drain *) destruct o; try discriminate. destruct (Nat.eqb _ _); [|discriminate].
      destruct (sublist_of l s); [|discriminate]. injection E as <-. exact zero_nil.
    - destruct o; try discriminate. destruct (same_set l s); [|discriminate]. injection E as <-. exact Hz.
    - destruct o; try discriminate. destruct (same_set l s); [|discriminate]. injection E as <-. exact Hz.
    - destruct o; try discriminate. destruct (Z.leb _ _); [|discriminate]. injection E as <-. exact Hz.
    - destruct o; try discriminate. injection E as <-. exact Hz.
    - destruct (lookup s k); apply expect_Some in E; subst s'; [exact Hz|apply zero_put; [exact Hz|reflexivity]].
    - destruct (lookup s k) as [e|] eqn:El; apply expect_Some in E; subst s';
        (apply zero_put; [exact Hz|]); [exact (Hl k e El)|reflexivity].
    - destruct (lookup s k); apply expect_Some in E; subst s'; [apply zero_delete; exact Hz|exact Hz].
    - destruct (lookup s k); apply expect_Some in E; subst s'; [exact Hz|apply zero_put; [exact Hz|reflexivity]].
    - destruct (lookup s k).
      + apply expect_Some in E. subst s'. exact Hz.
      + destruct (fk =? k)%Z.
        * apply expect_Some in E. subst s'. apply zero_put; [exact Hz|reflexivity].
        * destruct o; try discriminate. injection E as <-. exact Hz.
    - destruct (lookup s k); apply expect_Some in E; subst s'; [apply zero_delete; exact Hz|exact Hz].
    - destruct (lookup s k); apply expect_Some in E; subst s';
        [apply zero_delete; exact Hz|apply zero_put; [exact Hz|reflexivity]].
  Qed.

  Lemma pre_run_set : forall ops s os, Forall set_op ops -> zero_vals s -> pre_run s ops os.
  Proof.
    induction ops as [|op r IH]; intros s os H Hz; [exact I|].
    destruct os as [|o os']; [exact I|]. inversion H as [|? ? H1 H2]; subst. cbn [pre_run]. split.
    - destruct op; cbn [op_pre]; try exact I. intros e He. exact (Hz e (proj1 (lookup_Some s k e He))).
    - destruct (spec_accepts s op o) as [s1|] eqn:E; [|exact I].
      apply IH; [exact H2|exact (set_op_zero s op o s1 H1 Hz E)].
  Qed.

  (* C01, HashSet: any history of set operations from the empty set *)
  Corollary run_refines_set ops os t' :
    Forall op_args_ok ops -> Forall set_op ops ->
    run (new_table B kv) ops = Ok (os, t') ->
    Forall (fun o => is_unwind o = false) os /\
    exists s', spec_run [] ops os = Some s' /\ INV t' s'.
  Proof.
    intros Hargs Hset E.
    exact (run_refines_from ops _ [] os t' (inv_new_table B tsize talign hash_of) Hargs E
             (pre_run_set ops [] os Hset zero_nil)).
  Qed.
End History.

(* the same finding as a concrete run (portable 8-byte scanner, identity hash): insert (1 -> 5)
   as a map, then HashSet::insert(1): the model ends with (1, stamp 0, value 0), the reference
   accepts both outputs and ends with (1, stamp 0, value 5) *)
Example set_insert_counterexample_run :
  match run generic_backend 24 8 false (fun k : Z => Some k) false (new_table generic_backend kv)
            [OpInsert 1 0 5; OpSetInsert 1 9] with
  | Ok (os, t) => os = [OutNone; OutBool false] /\ occupants kv t = [mkKV 1 0 0] /\
                  spec_run [] [OpInsert 1 0 5; OpSetInsert 1 9] os = Some [mkKV 1 0 5]
  | Fail _ => False
  end.
Proof. vm_compute. repeat split. Qed.

Print Assumptions map_step_refines.
Print Assumptions map_step_refines_covered.
Print Assumptions set_insert_counterexample.
Print Assumptions run_refines_from.
Print Assumptions run_refines_map.
Print Assumptions run_refines_set.
