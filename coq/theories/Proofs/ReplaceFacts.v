(* ReplaceFacts.v -- RawTable::replace_bucket_with (Model/Replace.v) on a FULL bucket of a table
   satisfying the hash-independent invariant SafeWF:

   R1  replace_some_is_overwrite   f(item) = Some new  ==>  the call is EXACTLY an in-place overwrite
                                   of the element (slot_write): every control byte including the
                                   replicated ones, mask, items and growth_left are those of the
                                   table before the call -- although in between the bucket was
                                   erased (EMPTY or DELETED, growth_left possibly incremented)
   R2  replace_none_is_remove      f(item) = None      ==>  the call is exactly RawTable::remove
   R3  replace_never_fails         no `Fail` (no UB, no fuel, no panic of the library)
   R4  replace_some_WF / replace_none_WF   the full invariant WF h (Tags + Reach) is preserved,
                                   in the Some case when the closure keeps the hash of the element

   Needs only WidthOK B (Group::WIDTH is 8 or 16); R4's None case also BackendSpec B. *)
From Coq Require Import ZArith List Bool Lia Permutation.
From HB Require Import RsPrelude Sse2 Gen Group Raw Check Replace ArithFacts Triangular WFDefs GroupFacts
  ProbeFacts FindFacts SafeInsertErase WFInsertRemove.
Import ListNotations.
Open Scope nat_scope.

(* ---------------------------------------------------------------------------------------- *)
(* list updates                                                                               *)
(* ---------------------------------------------------------------------------------------- *)
Section UpdLists.
  Context {A : Type}.

  (* writing twice at the same place: the second write wins *)
  Lemma upd_upd_same (l : list A) i a b : i < length l -> upd (upd l i a) i b = upd l i b.
  Proof.
    intros Hi. assert (Hl : length (upd l i a) = length l) by (apply upd_length; exact Hi).
    apply (nth_ext _ _ a a).
    - rewrite !upd_length; rewrite ?Hl; try exact Hi. reflexivity.
    - intros n _. rewrite !nth_upd; rewrite ?Hl; try exact Hi.
      destruct (Nat.eqb_spec n i); reflexivity.
  Qed.

  (* set_ctrl(i, a) followed by set_ctrl(i, b), b being the byte the list held at i and at the
     replica position i2: the list is back to what it was *)
  Lemma upd_pair_restore (l : list A) i i2 a b d : i < length l -> i2 < length l ->
    nth i l d = b -> nth i2 l d = b ->
    upd (upd (upd (upd l i a) i2 a) i b) i2 b = l.
  Proof.
    intros Hi Hi2 Ei Ei2.
    assert (L1 : length (upd l i a) = length l) by (apply upd_length; exact Hi).
    assert (L2 : length (upd (upd l i a) i2 a) = length l) by (rewrite upd_length; lia).
    assert (L3 : length (upd (upd (upd l i a) i2 a) i b) = length l) by (rewrite upd_length; lia).
    apply (nth_ext _ _ d d).
    - rewrite upd_length; lia.
    - intros n _. rewrite nth_upd by lia. rewrite nth_upd by lia. rewrite nth_upd by lia.
      rewrite nth_upd by lia.
      destruct (Nat.eqb_spec n i2) as [->|_]; [symmetry; exact Ei2|].
      destruct (Nat.eqb_spec n i) as [->|_]; [symmetry; exact Ei|]. reflexivity.
  Qed.
End UpdLists.

(* ---------------------------------------------------------------------------------------- *)
(* the shape of what set_ctrl / erase / remove compute                                        *)
(* ---------------------------------------------------------------------------------------- *)
Section Structure.
  Variable B : backend.
  Variable T : Type.
  Local Notation GW := (bk_width B).

  Lemma set_ctrl_ok (t : table T) i b : mask t <> 0 -> i < length (ctrl t) ->
    n_index2 GW (mask t) i < length (ctrl t) ->
    set_ctrl B T t i b = Ok (with_ctrl T t (upd (upd (ctrl t) i b) (n_index2 GW (mask t) i) b)).
  Proof.
    intros Hm Hi Hi2. unfold set_ctrl, is_singleton.
    destruct (Nat.eqb_spec (mask t) 0); [contradiction|].
    destruct (Nat.ltb_spec i (length (ctrl t))); [|lia].
    destruct (Nat.ltb_spec (n_index2 GW (mask t) i) (length (ctrl t))); [|lia].
    reflexivity.
  Qed.

  Lemma set_ctrl_struct (t t' : table T) i b : set_ctrl B T t i b = Ok t' ->
    t' = with_ctrl T t (upd (upd (ctrl t) i b) (n_index2 GW (mask t) i) b).
  Proof.
    unfold set_ctrl. destruct (is_singleton T t); [discriminate|].
    destruct ((i <? length (ctrl t)) && (n_index2 GW (mask t) i <? length (ctrl t))); [|discriminate].
    intros E. injection E as <-. reflexivity.
  Qed.

  (* erase writes ONE byte value at index and at its replica and touches nothing else but the
     two counters *)
  Lemma erase_struct (t t' : table T) i : erase B T t i = Ok t' ->
    exists c, mask t' = mask t /\ slots t' = slots t /\
              ctrl t' = upd (upd (ctrl t) i c) (n_index2 GW (mask t) i) c.
  Proof.
    unfold erase. cbv zeta.
    destruct (load B T t (n_index_before GW (mask t) i)) as [gb|]; [|discriminate].
    destruct (load B T t i) as [ga|]; [|discriminate]. cbn [bind].
    match goal with |- context [set_ctrl B T t i ?c] => set (c0 := c) end.
    destruct (set_ctrl B T t i c0) as [t1|] eqn:E1; [|discriminate]. cbn [bind].
    intros E. injection E as <-. apply set_ctrl_struct in E1. subst t1.
    exists c0. repeat split.
  Qed.

  Lemma remove_struct (t t' : table T) i e : remove B T t i = Ok (e, t') ->
    exists c, mask t' = mask t /\ slots t' = upd (slots t) i None /\
              ctrl t' = upd (upd (ctrl t) i c) (n_index2 GW (mask t) i) c.
  Proof.
    unfold remove. destruct (buckets T t <=? i); [discriminate|].
    destruct (erase B T t i) as [t1|] eqn:E1; [|discriminate]. cbn [bind].
    unfold slot_take. destruct (slot_ref T t1 i) as [x|]; [|discriminate]. cbn [bind].
    intros E. injection E as _ <-.
    destruct (erase_struct t t1 i E1) as (c & Em & Es & Ec).
    exists c. cbn [mask slots ctrl with_slots]. rewrite Es. repeat split; assumption.
  Qed.
End Structure.

(* ---------------------------------------------------------------------------------------- *)
(* replace_bucket_with                                                                        *)
(* ---------------------------------------------------------------------------------------- *)
Section Replace.
  Variable B : backend.
  Variable T : Type.
  Hypothesis HW : WidthOK B.
  Local Notation GW := (bk_width B).

  (* the replicated control byte equals the byte it replicates *)
  Lemma mirror_byte (t : table T) i : Shape B T t -> Mirror B T t -> i < nb T t ->
    n_index2 GW (mask t) i < length (ctrl t) /\
    byte T t (n_index2 GW (mask t) i) = byte T t i.
  Proof.
    intros HS HM Hi. pose proof (index2_cases B T HW t i HS Hi) as Hc. cbv zeta in Hc.
    pose proof HS as (_ & Hl & _). unfold Mirror in HM.
    destruct Hc as [(Hbig & Hlo & ->) | [(Hbig & Hhi & ->) | (Hsmall & ->)]].
    - destruct (Nat.leb_spec GW (nb T t)); [|lia]. split; [lia|]. apply HM. exact Hlo.
    - split; [lia|reflexivity].
    - destruct (Nat.leb_spec GW (nb T t)); [lia|]. split; [lia|]. apply (proj2 HM). exact Hi.
  Qed.

  (* the hypothesis "byte FULL" of the theorems below follows from "slot initialised" *)
  Lemma slot_some_full (t : table T) i e : SafeWF B T t -> mask t <> 0 -> i < nb T t ->
    slot T t i = Some e -> is_full (byte T t i) = true.
  Proof.
    intros H Hm Hi He. destruct (SafeWF_alloc B T t H Hm) as (_ & _ & (_ & _ & _ & Hsl)).
    apply Hsl; [exact Hi|]. rewrite He. discriminate.
  Qed.

  Lemma wadd1_back x : (0 <= x <= 2 ^ 62)%Z -> wadd 64 (x - 1) 1 = x.
  Proof.
    intros H. rewrite two_p_62 in H. unfold wadd. replace (x - 1 + 1)%Z with x by lia.
    apply wrap_small. rewrite two_p_64. lia.
  Qed.

  (* R1, computational core: the result is literally the table with one slot overwritten *)
  Lemma replace_some_compute (t : table T) index f e e' :
    SafeWF B T t -> mask t <> 0 -> index < nb T t -> is_full (byte T t index) = true ->
    slot T t index = Some e -> f e = Some e' ->
    replace_bucket_with B T t index f =
      Ok (with_slots T t (upd (slots t) index (Some e')), true, e).
  Proof.
    intros H Hm Hi Hf He Hfe.
    destruct (SafeWF_alloc B T t H Hm) as (HS & HM & HC).
    pose proof HS as (_ & Hlc & Hls & _).
    pose proof (Shape_nb_bound B T t HS) as Hnb.
    pose proof (SafeWF_items_bound B T t H) as Hib.
    destruct (mirror_byte t index HS HM Hi) as (Hi2 & Eb2).
    destruct (remove_safe B T HW t index H Hm Hi Hf)
      as (e0 & t1 & E & He0 & H1 & Em1 & Eit1 & _).
    assert (e0 = e) by congruence. subst e0.
    destruct (remove_struct B T t t1 index e E) as (c & _ & Es1 & Ec1).
    unfold replace_bucket_with.
    rewrite (ctrl_at_ok B T t HS index Hi). cbn [bind].
    rewrite E. cbn [bind]. rewrite Hfe.
    assert (Lc1 : length (ctrl t1) = length (ctrl t)).
    { rewrite Ec1. rewrite upd_length; rewrite upd_length; lia. }
    rewrite set_ctrl_ok;
      [|cbn [mask with_counts]; rewrite Em1; exact Hm
       |cbn [ctrl with_counts]; rewrite Lc1; lia
       |cbn [mask ctrl with_counts]; rewrite Em1, Lc1; exact Hi2].
    cbn [bind].
    rewrite slot_write_ok;
      [|cbn [mask with_counts with_ctrl]; rewrite Em1; exact Hm
       |cbn [slots with_counts with_ctrl]; rewrite Es1, upd_length; lia].
    cbn [bind]. do 3 f_equal.
    unfold with_slots, with_counts, with_ctrl.
    cbn [mask ctrl slots items growth_left].
    rewrite Em1, Es1, Ec1, Eit1.
    f_equal.
    - apply upd_pair_restore with (d := POISON); try lia; [reflexivity|exact Eb2].
    - apply upd_upd_same. lia.
    - apply wadd1_back. unfold zn in *. lia.
  Qed.

  (* R1 *)
  Theorem replace_some_is_overwrite (t : table T) index f e e' :
    SafeWF B T t -> mask t <> 0 -> index < nb T t -> is_full (byte T t index) = true ->
    slot T t index = Some e -> f e = Some e' ->
    exists t', replace_bucket_with B T t index f = Ok (t', true, e) /\
      slot_write T t index e' = Ok t' /\
      SafeWF B T t' /\
      mask t' = mask t /\ ctrl t' = ctrl t /\ items t' = items t /\ growth_left t' = growth_left t /\
      (forall j, byte T t' j = byte T t j) /\
      (forall j, slot T t' j = if j =? index then Some e' else slot T t j) /\
      (exists l1 l2, occupants T t = l1 ++ e :: l2 /\ occupants T t' = l1 ++ e' :: l2) /\
      Permutation (e :: occupants T t') (e' :: occupants T t).
  Proof.
    intros H Hm Hi Hf He Hfe.
    destruct (slot_write_value_safe B T t index e e' H Hm Hi He)
      as (t' & E & H' & Em & Ec & Eit & Egl & Hb & Hsi & Hso & Hocc & Hperm).
    exists t'. split.
    { rewrite (replace_some_compute t index f e e' H Hm Hi Hf He Hfe).
      destruct (SafeWF_alloc B T t H Hm) as ((_ & _ & Hls & _) & _).
      rewrite slot_write_ok in E by (assumption || lia). injection E as <-. reflexivity. }
    split; [exact E|]. split; [exact H'|].
    split; [exact Em|]. split; [exact Ec|]. split; [exact Eit|]. split; [exact Egl|].
    split; [exact Hb|]. split.
    { intros j. destruct (Nat.eqb_spec j index) as [->|Hne]; [exact Hsi|exact (Hso j Hne)]. }
    split; [exact Hocc|exact Hperm].
  Qed.

  (* the same fact as an equation between programs *)
  Corollary replace_some_eq_slot_write (t : table T) index f e e' :
    SafeWF B T t -> mask t <> 0 -> index < nb T t -> is_full (byte T t index) = true ->
    slot T t index = Some e -> f e = Some e' ->
    replace_bucket_with B T t index f = (t' <- slot_write T t index e' ;; Ok (t', true, e)).
  Proof.
    intros H Hm Hi Hf He Hfe.
    destruct (replace_some_is_overwrite t index f e e' H Hm Hi Hf He Hfe) as (t' & E & Ew & _).
    rewrite E, Ew. reflexivity.
  Qed.

  (* R2 *)
  Theorem replace_none_is_remove (t : table T) index f e :
    SafeWF B T t -> mask t <> 0 -> index < nb T t -> is_full (byte T t index) = true ->
    slot T t index = Some e -> f e = None ->
    exists t1, remove B T t index = Ok (e, t1) /\
      replace_bucket_with B T t index f = Ok (t1, false, e) /\
      SafeWF B T t1 /\ mask t1 = mask t /\ items t1 = (items t - 1)%Z /\
      is_special (byte T t1 index) = true /\ slot T t1 index = None /\
      (forall j, j < nb T t -> j <> index -> byte T t1 j = byte T t j /\ slot T t1 j = slot T t j) /\
      growth_left t1 = (if is_empty (byte T t1 index) then growth_left t + 1 else growth_left t)%Z /\
      (exists l1 l2, occupants T t = l1 ++ e :: l2 /\ occupants T t1 = l1 ++ l2).
  Proof.
    intros H Hm Hi Hf He Hfe.
    destruct (SafeWF_alloc B T t H Hm) as (HS & _).
    destruct (remove_safe B T HW t index H Hm Hi Hf)
      as (e0 & t1 & E & He0 & H1 & Em1 & Eit1 & Hsp & Hnone & Hoth & _ & _ & Egl & Hocc).
    assert (e0 = e) by congruence. subst e0.
    exists t1. split; [exact E|]. split.
    { unfold replace_bucket_with. rewrite (ctrl_at_ok B T t HS index Hi). cbn [bind].
      rewrite E. cbn [bind]. rewrite Hfe. reflexivity. }
    split; [exact H1|]. split; [exact Em1|]. split; [exact Eit1|]. split; [exact Hsp|].
    split; [exact Hnone|]. split; [exact Hoth|]. split; [exact Egl|exact Hocc].
  Qed.

  Corollary replace_none_eq_remove (t : table T) index f e :
    SafeWF B T t -> mask t <> 0 -> index < nb T t -> is_full (byte T t index) = true ->
    slot T t index = Some e -> f e = None ->
    replace_bucket_with B T t index f = ('(x, t1) <- remove B T t index ;; Ok (t1, false, x)).
  Proof.
    intros H Hm Hi Hf He Hfe.
    destruct (replace_none_is_remove t index f e H Hm Hi Hf He Hfe) as (t1 & E & Er & _).
    rewrite E, Er. reflexivity.
  Qed.

  (* R3: whatever the closure answers, no failure; the removed element is reported, the bool
     tells which branch ran, and the invariant holds afterwards *)
  Theorem replace_never_fails (t : table T) index f e :
    SafeWF B T t -> mask t <> 0 -> index < nb T t -> is_full (byte T t index) = true ->
    slot T t index = Some e ->
    exists t', replace_bucket_with B T t index f =
                 Ok (t', match f e with Some _ => true | None => false end, e) /\
               SafeWF B T t' /\ mask t' = mask t.
  Proof.
    intros H Hm Hi Hf He. destruct (f e) as [e'|] eqn:Hfe.
    - destruct (replace_some_is_overwrite t index f e e' H Hm Hi Hf He Hfe)
        as (t' & E & _ & H' & Em & _).
      exists t'. repeat split; assumption.
    - destruct (replace_none_is_remove t index f e H Hm Hi Hf He Hfe)
        as (t' & _ & E & H' & Em & _).
      exists t'. repeat split; assumption.
  Qed.

  Corollary replace_not_fail (t : table T) index f e err :
    SafeWF B T t -> mask t <> 0 -> index < nb T t -> is_full (byte T t index) = true ->
    slot T t index = Some e -> replace_bucket_with B T t index f <> Fail err.
  Proof.
    intros H Hm Hi Hf He. destruct (replace_never_fails t index f e H Hm Hi Hf He) as (t' & E & _).
    rewrite E. discriminate.
  Qed.

  (* R4: the full invariant, for a deterministic hash function on elements *)
  Variable h : T -> option Z.

  (* replace_entry_with's closure rebuilds (key, new_value) with the SAME key: same hash *)
  Theorem replace_some_WF (t : table T) index f e e' :
    WF B T h t -> mask t <> 0 -> index < nb T t -> is_full (byte T t index) = true ->
    slot T t index = Some e -> f e = Some e' -> h e' = h e ->
    exists t', replace_bucket_with B T t index f = Ok (t', true, e) /\
      slot_write T t index e' = Ok t' /\ WF B T h t'.
  Proof.
    intros HWF Hm Hi Hf He Hfe Hh.
    destruct (slot_write_WF B T h t index e e' HWF Hm Hi He Hh) as (t' & E & HWF' & _).
    exists t'. split; [|split; [exact E|exact HWF']].
    destruct (replace_some_is_overwrite t index f e e' (proj1 HWF) Hm Hi Hf He Hfe)
      as (t'' & Er & Ew & _).
    rewrite E in Ew. injection Ew as <-. exact Er.
  Qed.

  Theorem replace_none_WF (HB : BackendSpec B) (t : table T) index f e :
    WF B T h t -> mask t <> 0 -> index < nb T t -> is_full (byte T t index) = true ->
    slot T t index = Some e -> f e = None ->
    exists t1, remove B T t index = Ok (e, t1) /\
      replace_bucket_with B T t index f = Ok (t1, false, e) /\ WF B T h t1.
  Proof.
    intros HWF Hm Hi Hf He Hfe.
    destruct (remove_WF B T HW HB h t index HWF Hm Hi Hf) as (e0 & t1 & E & HWF1 & _).
    destruct (replace_none_is_remove t index f e (proj1 HWF) Hm Hi Hf He Hfe) as (t1' & E' & Er & _).
    rewrite E in E'. injection E' as -> <-.
    exists t1. split; [exact E|]. split; [exact Er|exact HWF1].
  Qed.
End Replace.

(* ---------------------------------------------------------------------------------------- *)
(* a concrete instance: the hypotheses are satisfiable                                        *)
(* ---------------------------------------------------------------------------------------- *)
(* elements are numbers hashed by the identity; 4 buckets, Group::WIDTH = 8 (generic backend):
   the table is smaller than a group, so every real control byte has a replica at WIDTH + i *)
Definition ex_hash (x : Z) : option Z := Some x.

Definition ex_build (B : backend) (cap : Z) (xs : list Z) : res (table Z) :=
  r <- fallible_with_capacity B Z 8 8 cap false Infallible ;;
  match r with
  | (Some t0, _, _) =>
      fold_left (fun rt x => t <- rt ;;
                             '(t', _, _, _) <- insert B Z 8 8 false ex_hash false t (Z.shiftl x 57 + x) x false ;;
                             Ok t')
                xs (Ok t0)
  | _ => Fail PanicOther
  end.

Definition ex_table : table Z :=
  mkTable 3 [255; 1; 2; 3; 255; 255; 255; 255; 255; 1; 2; 3]%Z [None; Some 1; Some 2; Some 3]%Z 3 0.

(* it is what with_capacity(3) followed by three inserts builds *)
Example ex_table_built : ex_build generic_backend 3 [1; 2; 3]%Z = Ok ex_table.
Proof. vm_compute. reflexivity. Qed.

Tactic Notation "below" integer(n) tactic3(tac) :=
  let i := fresh "i" in let Hi := fresh "Hi" in
  intros i Hi; do n (destruct i as [|i]; [tac|]); exfalso; lia.

Example ex_table_SafeWF : SafeWF generic_backend Z ex_table.
Proof.
  unfold SafeWF. change (mask ex_table =? 0) with false. cbv iota.
  split; [|split].
  - split; [exists 2; split; [lia|reflexivity]|]. split; [reflexivity|]. split; [reflexivity|].
    unfold ex_table. cbn [ctrl].
    repeat (apply Forall_cons;
            [first [left; lia | right; left; reflexivity | right; right; reflexivity]|]).
    apply Forall_nil.
  - unfold Mirror. change (bk_width generic_backend <=? nb Z ex_table) with false. cbv iota.
    change (nb Z ex_table) with 4. change (bk_width generic_backend) with 8. split.
    + below 8 (first [reflexivity | exfalso; lia]).
    + below 4 reflexivity.
  - split; [reflexivity|]. split; [reflexivity|]. split; [vm_compute; discriminate|].
    change (nb Z ex_table) with 4.
    below 4 (vm_compute; split;
             first [reflexivity | discriminate | intros X; exfalso; apply X; reflexivity]).
Qed.

(* Some: bucket 2 (element 2, control byte 2, replica at 8 + 2) is overwritten in place by 12;
   in between it was erased to EMPTY and growth_left went 0 -> 1 -> 0 *)
Example ex_replace_some :
  let f := fun x : Z => Some (x + 10)%Z in
  remove generic_backend Z ex_table 2 =
    Ok (2%Z, mkTable 3 [255; 1; 255; 3; 255; 255; 255; 255; 255; 1; 255; 3]%Z
                     [None; Some 1; None; Some 3]%Z 2 1) /\
  replace_bucket_with generic_backend Z ex_table 2 f =
    Ok (mkTable 3 (ctrl ex_table) [None; Some 1; Some 12; Some 3]%Z 3 0, true, 2%Z) /\
  replace_bucket_with generic_backend Z ex_table 2 f =
    (t' <- slot_write Z ex_table 2 12%Z ;; Ok (t', true, 2%Z)).
Proof. vm_compute. repeat split. Qed.

Example ex_replace_none :
  let f := fun _ : Z => @None Z in
  replace_bucket_with generic_backend Z ex_table 2 f =
    ('(x, t1) <- remove generic_backend Z ex_table 2 ;; Ok (t1, false, x)) /\
  replace_bucket_with generic_backend Z ex_table 2 f =
    Ok (mkTable 3 [255; 1; 255; 3; 255; 255; 255; 255; 255; 1; 255; 3]%Z
                [None; Some 1; None; Some 3]%Z 2 1, false, 2%Z).
Proof. vm_compute. repeat split. Qed.

(* the theorem applied to the instance: all its hypotheses hold *)
Example ex_replace_by_theorem :
  replace_bucket_with generic_backend Z ex_table 2 (fun x => Some (x + 10)%Z) =
  (t' <- slot_write Z ex_table 2 12%Z ;; Ok (t', true, 2%Z)).
Proof.
  apply (replace_some_eq_slot_write generic_backend Z (or_introl eq_refl) ex_table 2 _ 2%Z 12%Z
           ex_table_SafeWF); try reflexivity.
  - discriminate.
  - vm_compute. lia.
Qed.

(* a bucket in the middle of a run of 9 FULL buckets (16 buckets, WIDTH 8; the replica of bucket 5
   is byte 16 + 5): remove leaves a tombstone (DELETED = 128) and growth_left stays 5; the Some
   branch puts the byte 5 back at both places *)
Example ex_replace_tombstone :
  match ex_build generic_backend 14 [1; 2; 3; 4; 5; 6; 7; 8; 9]%Z with
  | Ok t =>
      (match remove generic_backend Z t 5 with
       | Ok (x, t1) => x = 5%Z /\ byte Z t1 5 = DELETED /\ byte Z t1 21 = DELETED /\
                       growth_left t1 = growth_left t /\ growth_left t = 5%Z
       | Fail _ => False
       end) /\
      byte Z t 5 = 5%Z /\ byte Z t 21 = 5%Z /\
      replace_bucket_with generic_backend Z t 5 (fun x => Some (x + 10)%Z) =
        (t' <- slot_write Z t 5 15%Z ;; Ok (t', true, 5%Z))
  | Fail _ => False
  end.
Proof. vm_compute. repeat split. Qed.

(* the same on the SSE2 backend (WIDTH 16, 4 buckets: replica at 16 + 2) *)
Example ex_replace_sse2 :
  match ex_build sse2_backend 3 [1; 2; 3]%Z with
  | Ok t =>
      replace_bucket_with sse2_backend Z t 2 (fun x => Some (x + 10)%Z) =
        (t' <- slot_write Z t 2 12%Z ;; Ok (t', true, 2%Z)) /\
      replace_bucket_with sse2_backend Z t 2 (fun _ => None) =
        ('(x, t1) <- remove sse2_backend Z t 2 ;; Ok (t1, false, x))
  | Fail _ => False
  end.
Proof. vm_compute. repeat split. Qed.

(* on a bucket that is not FULL the model fails: the source's "This does not check if the given
   bucket is actually occupied" *)
Example ex_replace_not_full :
  replace_bucket_with generic_backend Z ex_table 0 (fun x => Some x) = Fail UB_slot_uninit.
Proof. vm_compute. reflexivity. Qed.

Print Assumptions replace_some_compute.
Print Assumptions replace_some_is_overwrite.
Print Assumptions replace_some_eq_slot_write.
Print Assumptions replace_none_is_remove.
Print Assumptions replace_none_eq_remove.
Print Assumptions replace_never_fails.
Print Assumptions replace_not_fail.
Print Assumptions replace_some_WF.
Print Assumptions replace_none_WF.
Print Assumptions ex_table_SafeWF.
Print Assumptions ex_replace_some.
Print Assumptions ex_replace_by_theorem.
Print Assumptions ex_replace_tombstone.
